(* L3/FloatExact.v — SetFloat64 on values that need no scaling: the binade
   [2^52, 2^53) (exp2 = 0 after Frexp).  There the method is setBits64 on the
   53-bit integer, hence correctly rounded at every precision and exact as
   soon as the precision holds the integer. *)
From Coq Require Import ZArith List Bool Lia QArith.
From Dec Require Import Base.Words Base.WordsProofs Base.QPow L3.Decimal L3.Cmp L3.CmpProofs L3.Round L3.Arith
  L3.Convert L3.Bin L3.Float L3.FloatProofs Spec.Rounding Spec.RoundingFacts L3.RoundProofs L3.ArithProofs
  L3.ConvertProofs.
From Dec Require L4.Scan L4.ScanProofs.
From Dec Require Import L4.Pow2Proofs.
Open Scope Z_scope.

Lemma i32_id e : MinExp <= e <= MaxExp -> i32 e = e.
Proof. apply i32_small. Qed.

(* for exp2 = 0 the body of SetFloat64 is setBits64 *)
Lemma SetFloat64_fl_int z s m e M :
  fl_frexp_int binary64 m e = (M, 0) -> 0 < M < 10 ^ 19 ->
  SetFloat64_fl z (FlFin s m e) = setBits64 (if prec z =? 0 then with_prec z 17 else z) s M 0.
Proof.
  intros Hf HM. unfold SetFloat64_fl, setBits64. rewrite Hf.
  set (z1 := if prec z =? 0 then with_prec z 17 else z).
  assert (P1 : prec z1 =? 0 = false \/ prec z <> 0 /\ z1 = z).
  { unfold z1. destruct (Z.eqb_spec (prec z) 0); [left; reflexivity|right; split; [assumption|reflexivity]]. }
  assert (E0 : (prec z1 =? 0) = false).
  { destruct P1 as [H|[H1 H2]]; [exact H|]. rewrite H2. apply Z.eqb_neq. exact H1. }
  rewrite E0. replace (M =? 0) with false by (symmetry; apply Z.eqb_neq; lia).
  destruct (ScanProofs.dnorm_of_Z M ltac:(lia)) as (m' & sh & Ed & Hs & Vm & Okm & Nem & Topm & Hexp & Hmd).
  rewrite Ed. cbn [Z.eqb bindR].
  change (clampExp 0) with 0. rewrite Z.add_0_l.
  assert (Hnd : 1 <= ndig M <= 19).
  { destruct (ndig_spec M ltac:(lia)) as [H1 [Hlo _]]. split; [lia|].
    destruct (Z.le_gt_cases (ndig M) 19); [assumption|exfalso].
    assert (10 ^ 19 <= 10 ^ (ndig M - 1)) by (apply Z.pow_le_mono_r; lia). lia. }
  unfold setExpAndRound. rewrite Hexp.
  replace (ndig M <? MinExp) with false by (symmetry; apply Z.ltb_ge; unfold MinExp; lia).
  replace (MaxExp <? ndig M) with false by (symmetry; apply Z.ltb_ge; unfold MaxExp; lia).
  reflexivity.
Qed.

Theorem SetFloat64_int53_correct z bits s m e M :
  0 <= prec z <= MaxPrec ->
  fl_of_bits binary64 bits = FlFin s m e -> fl_frexp_int binary64 m e = (M, 0) -> 0 < M < 2 ^ 53 ->
  OpPost (sf64_prec z) (dmode z) s (scaled M 0) (SetFloat64 z bits).
Proof.
  intros Pz Eb Ef HM. unfold SetFloat64. rewrite Eb.
  rewrite (SetFloat64_fl_int z s m e M Ef) by (split; [lia|]; change (10 ^ 19) with 10000000000000000000; change (2 ^ 53) with 9007199254740992 in HM; lia).
  set (z1 := if prec z =? 0 then with_prec z 17 else z).
  pose proof (setBits64_correct z1 s M 0) as H. cbv zeta in H.
  assert (E : (if prec z1 =? 0 then DefaultDecimalPrec else prec z1) = sf64_prec z /\ dmode z1 = dmode z /\ 0 <= prec z1 <= MaxPrec).
  { unfold z1, sf64_prec. destruct (Z.eqb_spec (prec z) 0) as [E0|NE].
    - cbn [prec with_prec dmode]. cbn [Z.eqb]. repeat split; unfold MaxPrec; lia.
    - destruct (Z.eqb_spec (prec z) 0); [contradiction|]. repeat split; lia. }
  destruct E as (E1 & E2 & E3). rewrite E1, E2 in H. apply H; [|exact E3].
  change (2 ^ 53) with 9007199254740992 in HM. lia.
Qed.

(* ------------------------------------------------------------------ *)
(* a value with at most p significant digits comes out of any correctly
   rounded operation unchanged, with accuracy Exact *)
Lemma exact_of_spec p md ng v z' N x :
  1 <= p -> 1 <= N < 10 ^ p -> (v == scaled N x)%Q -> MinExp <= x -> x + p <= MaxExp ->
  result_spec p md ng v z' ->
  dform z' = Ffinite /\ (mag z' == v)%Q /\ acc z' = Exact /\ neg z' = ng.
Proof.
  intros Hp HN Hv Hx1 Hx2 H.
  apply (result_spec_ext _ _ _ _ _ _ Hv) in H. destruct H as [Hn H].
  destruct (ndig_spec N ltac:(lia)) as [Hd [Hlo Hhi]].
  assert (Hdp : ndig N <= p).
  { destruct (Z.le_gt_cases (ndig N) p); [assumption|exfalso].
    assert (10 ^ p <= 10 ^ (ndig N - 1)) by (apply Z.pow_le_mono_r; lia). lia. }
  assert (L1 : (scaled 1 (MinExp - 1) <= scaled N x)%Q).
  { apply Qle_trans with (scaled 1 x); [apply scaled1_le; lia|apply scaled_le_same; lia]. }
  assert (L2 : (scaled N x < scaled 1 MaxExp)%Q).
  { apply Qlt_le_trans with (scaled (1 * 10 ^ p) x); [apply scaled_lt_same; lia|].
    rewrite scaled_pow by lia. apply scaled1_le. lia. }
  destruct (Qlt_le_dec (scaled N x) (scaled 1 (MinExp - 1))) as [C|_].
  { exfalso. apply (Qlt_irrefl (scaled N x)). apply Qlt_le_trans with (scaled 1 (MinExp - 1)); assumption. }
  destruct H as (r & HR & H).
  assert (Er : (r == scaled N x)%Q).
  { apply (RoundsDir_unique (dir_of md ng) p (scaled N x)); [exact Hp|exact HR|].
    apply (exact_rounds _ p N (p - ndig N) x); try lia.
    - replace (p - (p - ndig N) - 1) with (ndig N - 1) by lia. replace (p - (p - ndig N)) with (ndig N) by lia. lia. }
  destruct (Qlt_le_dec r (scaled 1 MaxExp)) as [_|C].
  - destruct H as (Hf & Hm & Ha). split; [exact Hf|]. split; [rewrite Hm, Er, Hv; reflexivity|].
    split; [|exact Hn]. rewrite Ha. unfold acc_of. rewrite (Qeq_cmp r (scaled N x) Er). reflexivity.
  - exfalso. rewrite Er in C. apply (Qlt_irrefl (scaled N x)). apply Qlt_le_trans with (scaled 1 MaxExp); assumption.
Qed.

(* ------------------------------------------------------------------ *)
(* pow2(n) for n < 64 is SetUint64(1 << n): exact when the precision holds 2^n *)
Lemma ScanSetUint64_eq z n : Scan.SetUint64 z n = SetUint64 z n.
Proof.
  unfold Scan.SetUint64, Scan.setBits64, SetUint64, setBits64.
  destruct (n =? 0); [reflexivity|]. destruct (dnorm (of_Z n)) as [[m' s]|]; reflexivity.
Qed.

Lemma pow2_small_exact P n :
  1 <= P <= PB -> 0 <= n < 64 -> 2 ^ n < 10 ^ P ->
  exists pw, pow2 (mkDec [] 0 P ToNearestEven Exact Fzero false) n = OkR pw /\ WF pw /\ dform pw = Ffinite /\
             neg pw = false /\ (mag pw == scaled (2 ^ n) 0)%Q /\ prec pw = P /\ mdigits (mant pw) <= P + 18.
Proof.
  intros HP Hn Hfit. set (t0 := mkDec [] 0 P ToNearestEven Exact Fzero false).
  unfold pow2, Scan.pow2. replace (n <? 64) with true by (symmetry; apply Z.ltb_lt; lia).
  assert (H2n : 0 < 2 ^ n < 18446744073709551616).
  { split; [apply Z.pow_pos_nonneg; lia|]. change 18446744073709551616 with (2 ^ 64). apply Z.pow_lt_mono_r; lia. }
  destruct (SetUint64_G t0 (2 ^ n) ltac:(exact HP) H2n) as (z' & E & G & Pz & Mz).
  pose proof (SetUint64_correct t0 (2 ^ n)) as C. rewrite <- ScanSetUint64_eq in C.
  destruct C as (z'' & E' & Sp & Pz' & Mz' & W).
  { unfold MaxUint64. lia. }
  { cbn [prec t0]. unfold PB, MaxPrec in *. lia. }
  rewrite E in E'. injection E' as <-.
  replace (if prec t0 =? 0 then DefaultDecimalPrec else prec t0) with P in *
    by (cbn [prec t0]; destruct (Z.eqb_spec P 0); [lia|reflexivity]).
  destruct (exact_of_spec P _ false _ z' (2 ^ n) 0 ltac:(lia) ltac:(lia) ltac:(reflexivity)
              ltac:(unfold MinExp; lia) ltac:(unfold MaxExp, PB in *; lia) Sp) as (Hf & Hm & Ha & Hng).
  exists z'. split; [exact E|]. split; [exact W|]. split; [exact Hf|]. split; [exact Hng|].
  split; [exact Hm|]. split; [exact Pz'|].
  destruct G as [_ _ _ [Hi|(_ & _ & Hl)]]; [rewrite Hf in Hi; discriminate|]. rewrite Pz' in Hl. exact Hl.
Qed.

(* ------------------------------------------------------------------ *)
(* a finite result of Quo / Mul is not longer than the precision plus a word *)
Lemma Quo_finite_len z x y z' :
  1 <= prec z <= MaxPrec - 18 -> dform x = Ffinite -> dform y = Ffinite ->
  words_ok (mant x) = true -> words_ok (mant y) = true ->
  19 * (zlen (mant x) + zlen (mant y)) + prec z + 57 < 4294967296 ->
  Quo z x y = OkR z' -> dform z' = Ffinite -> mdigits (mant z') <= prec z + 18.
Proof.
  intros Hp Fx Fy Okx Oky Hlen HQ Hf. unfold Quo in HQ. rewrite Fx, Fy in HQ.
  replace (prec z =? 0) with false in HQ by (symmetry; apply Z.eqb_neq; lia).
  unfold uquo in HQ. cbn [prec with_neg] in HQ.
  set (n := prec z / DW + 1) in *.
  set (d := n - zlen (mant x) + zlen (mant y)) in *.
  set (xadj := if 0 <? d then repeat 0 (Z.to_nat d) ++ mant x else mant x) in *.
  destruct (Z.eqb_spec (val (mant y)) 0) as [|Hy0]; [discriminate|].
  set (q := dec_quo xadj (mant y)) in *.
  destruct (dnorm q) as [[q' s]|] eqn:Ed; [|discriminate].
  pose proof (dnorm_zlen _ _ _ Ed) as Hql.
  unfold setExpAndRound in HQ.
  match type of HQ with context [if ?c then _ else _] => destruct c end.
  { injection HQ as <-. cbn in Hf. discriminate. }
  match type of HQ with context [if ?c then _ else _] => destruct c end.
  { injection HQ as <-. cbn in Hf. discriminate. }
  unfold of_opt in HQ.
  match type of HQ with context [round ?zz ?sb] => destruct (round zz sb) as [zr|] eqn:Er; [|discriminate];
    set (ZZ := zz) in * end.
  injection HQ as <-.
  assert (Hn : 0 <= prec z / DW /\ 19 * (prec z / DW) <= prec z).
  { rewrite DW_eq. split; [apply Z.div_pos; lia|]. apply Z.mul_div_le. lia. }
  (* length of the quotient *)
  assert (Hxl : 0 <= zlen xadj <= zlen (mant x) + zlen (mant y) + n /\ val xadj < 10 ^ (19 * zlen xadj) /\ 0 <= val xadj).
  { pose proof (val_bounds _ Okx) as [Vx0 Vx1]. pose proof (zlen_nonneg (mant x)). pose proof (zlen_nonneg (mant y)).
    unfold xadj. destruct (Z.ltb_spec 0 d).
    - rewrite zlen_repeat0_app, val_repeat0_app, Z2Nat.id by lia.
      split; [unfold d, n in *; lia|].
      assert (0 < B ^ d) by (apply Z.pow_pos_nonneg; [apply B_pos|lia]).
      split; [|nia].
      replace (19 * (d + zlen (mant x))) with (DW * (zlen (mant x) + d)) by (rewrite DW_eq; lia).
      rewrite <- Bpow_10 by lia. rewrite Z.pow_add_r by lia. nia.
    - split; [unfold n; lia|]. split; [|lia].
      replace (19 * zlen (mant x)) with (DW * zlen (mant x)) by (rewrite DW_eq; lia).
      rewrite <- Bpow_10 by lia. exact Vx1. }
  destruct Hxl as (Hxl & Hxv & Hx0).
  pose proof (val_bounds _ Oky) as [Vy0 _].
  assert (Hq : 19 * zlen q < 19 * zlen xadj + 19).
  { unfold q, dec_quo. set (k := val xadj / val (mant y)).
    destruct (Z.le_gt_cases k 0) as [K|K].
    - exfalso. unfold q, dec_quo in Ed. fold k in Ed. unfold of_Z in Ed.
      replace (k <=? 0) with true in Ed by (symmetry; apply Z.leb_le; exact K). discriminate.
    - apply zlen_of_Z_bound; [|lia]. split; [lia|].
      apply Z.le_lt_trans with (val xadj); [|exact Hxv].
      unfold k. apply Z.div_le_upper_bound; [lia|]. nia. }
  assert (A1 : 1 <= prec ZZ <= MaxPrec - 18) by (unfold ZZ; cbn [prec with_exp with_form with_mant with_neg]; lia).
  assert (A2 : 19 * zlen (mant ZZ) < 4294967296).
  { unfold ZZ. cbn [mant with_exp with_form with_mant]. rewrite Hql. unfold n in Hxl. lia. }
  destruct (round_len ZZ _ zr A1 A2 Er Hf) as [Hl _].
  unfold ZZ in Hl. cbn [prec with_exp with_form with_mant with_neg] in Hl. exact Hl.
Qed.

Lemma Mul_finite_len z x y z' :
  1 <= prec z <= MaxPrec - 18 -> dform x = Ffinite -> dform y = Ffinite ->
  words_ok (mant x) = true -> words_ok (mant y) = true ->
  19 * (zlen (mant x) + zlen (mant y)) + 19 < 4294967296 ->
  Mul z x y = OkR z' -> dform z' = Ffinite -> mdigits (mant z') <= prec z + 18.
Proof.
  intros Hp Fx Fy Okx Oky Hlen HM Hf.
  destruct (Mul_finite_round z x y z' ltac:(lia) Fx Fy HM Hf) as (zz & sb & Er & Pzz & Lzz).
  assert (A1 : 1 <= prec zz <= MaxPrec - 18) by (rewrite Pzz; exact Hp).
  assert (A2 : 19 * zlen (mant zz) < 4294967296).
  { rewrite Lzz. unfold dec_mul. set (k := val (mant x) * val (mant y)).
    pose proof (val_bounds _ Okx) as [X0 X1]. pose proof (val_bounds _ Oky) as [Y0 Y1].
    pose proof (zlen_nonneg (mant x)). pose proof (zlen_nonneg (mant y)).
    destruct (Z.le_gt_cases k 0) as [K|K].
    - unfold of_Z. replace (k <=? 0) with true by (symmetry; apply Z.leb_le; exact K). cbn. lia.
    - assert (k < 10 ^ (19 * (zlen (mant x) + zlen (mant y)))).
      { replace (19 * (zlen (mant x) + zlen (mant y))) with (DW * (zlen (mant x) + zlen (mant y))) by (rewrite DW_eq; lia).
        rewrite <- Bpow_10 by lia. rewrite Z.pow_add_r by lia. unfold k. nia. }
      pose proof (zlen_of_Z_bound k (19 * (zlen (mant x) + zlen (mant y))) ltac:(lia) ltac:(lia)). lia. }
  destruct (round_len zz sb z' A1 A2 Er Hf) as [Hl _]. rewrite Pzz in Hl. exact Hl.
Qed.

(* the last step of SetFloat64: z.prec -= extra; z.round(0) on a value that fits *)
Lemma final_round_exact r1 p s N x :
  WF r1 -> dform r1 = Ffinite -> neg r1 = s -> (mag r1 == scaled N x)%Q ->
  1 <= p <= MaxPrec -> mdigits (mant r1) < 4294967296 - 18 ->
  1 <= N < 10 ^ p -> MinExp <= x -> x + p <= MaxExp ->
  exists r, round (with_prec r1 p) 0 = Some r /\ dform r = Ffinite /\ neg r = s /\ (mag r == scaled N x)%Q /\
            acc r = Exact /\ prec r = p /\ dmode r = dmode r1 /\ WF r.
Proof.
  intros W Hf Hn Hm Hp Hl HN Hx1 Hx2.
  pose proof (WF_finite r1 W Hf) as [Hne Hok Htop Hprec Hexp Htail].
  set (z4 := with_prec r1 p).
  assert (Pre : RoundPre z4) by (constructor; cbn [dform mant prec exp z4 with_prec]; assumption).
  destruct (round_correct z4 false (scaled N x) Pre) as (r & Er & Sp & Pr & Mr & Wr).
  - cbn [mant exp z4 with_prec]. unfold mag in Hm. rewrite Hm. apply Qle_refl.
  - cbn [mant exp z4 with_prec]. unfold mag in Hm. rewrite <- Hm. apply scaled_lt_same. lia.
  - intros _. cbn [mant exp z4 with_prec]. unfold mag in Hm. symmetry. exact Hm.
  - discriminate.
  - cbn [b2z] in Er. exists r. split; [exact Er|].
    cbn [prec dmode neg z4 with_prec] in Sp, Pr, Mr.
    destruct (exact_of_spec p _ _ _ r N x ltac:(lia) HN ltac:(reflexivity) Hx1 Hx2 Sp) as (Ff & Fm & Fa & Fn).
    rewrite Hn in Fn. repeat split; assumption.
Qed.

(* ------------------------------------------------------------------ *)
(* SetFloat64 with a scaling by 2^|exp2|, |exp2| < 64 *)

Definition pow2Q (e : Z) : Q := if e <? 0 then / inject_Z (2 ^ (- e)) else inject_Z (2 ^ e).

Lemma scaled0 a : (scaled a 0 == inject_Z a)%Q.
Proof. unfold scaled. rewrite Qpow10_0. ring. Qed.

Theorem SetFloat64_exact_small z bits s m e M exp2 N x :
  0 <= prec z <= 1073741824 ->
  fl_of_bits binary64 bits = FlFin s m e -> fl_frexp_int binary64 m e = (M, exp2) -> 0 < M < 2 ^ 53 ->
  exp2 <> 0 -> -64 < exp2 < 64 ->
  let p := sf64_prec z in
  2 ^ Z.abs exp2 < 10 ^ (p + 1) ->                                   (* pow2(|exp2|) is exact at p+1 digits *)
  (inject_Z M * pow2Q exp2 == scaled N x)%Q -> 1 <= N < 10 ^ p ->    (* the value has at most p digits *)
  -2000 <= x <= 2000 ->
  exists r, SetFloat64 z bits = OkR r /\ dform r = Ffinite /\ neg r = s /\ (mag r == scaled N x)%Q /\
            acc r = Exact /\ prec r = p /\ dmode r = dmode z /\ WF r.
Proof.
  intros Pz Eb Ef HM He0 He p Hfit HV HN Hx.
  unfold SetFloat64. rewrite Eb. unfold SetFloat64_fl. rewrite Ef.
  set (z1 := if prec z =? 0 then with_prec z 17 else z).
  assert (Z1 : prec z1 = p /\ dmode z1 = dmode z /\ 1 <= p <= 1073741824).
  { unfold z1, p, sf64_prec. destruct (Z.eqb_spec (prec z) 0); cbn [prec dmode with_prec]; repeat split; lia. }
  destruct Z1 as (Z1p & Z1m & Hp).
  change (2 ^ 53) with 9007199254740992 in HM.
  destruct (ScanProofs.dnorm_of_Z M ltac:(lia)) as (m' & sh & Ed & Hs & Vm & Okm & Nem & Topm & Hexp & Hmd).
  rewrite Ed. replace (exp2 =? 0) with false by (symmetry; apply Z.eqb_neq; exact He0).
  assert (Hnd : 1 <= ndig M <= 16).
  { destruct (ndig_spec M ltac:(lia)) as [H1 [Hlo _]]. split; [lia|].
    destruct (Z.le_gt_cases (ndig M) 16); [assumption|exfalso].
    assert (10 ^ 16 <= 10 ^ (ndig M - 1)) by (apply Z.pow_le_mono_r; lia).
    change (10 ^ 16) with 10000000000000000 in *. lia. }
  assert (Hz1 : zlen m' = 1).
  { unfold mdigits in Hmd. rewrite DW_eq in Hmd. pose proof (zlen_nonneg m'). lia. }
  rewrite Hexp. rewrite (i32_small (ndig M)) by (unfold MinExp, MaxExp; lia).
  set (z2 := with_exp (with_mant (with_form (with_neg (with_acc z1 Exact) s) Ffinite) m') (ndig M)).
  (* apply_pow2 *)
  unfold apply_pow2, prec_extra. cbn [prec z2 with_exp with_mant with_form with_neg with_acc]. rewrite Z1p.
  replace (p <? MaxPrec) with true by (symmetry; apply Z.ltb_lt; unfold MaxPrec; lia).
  assert (U1 : u32 (p + 1) = p + 1) by (unfold u32; apply Z.mod_small; lia).
  rewrite U1. set (z3 := with_prec z2 (p + 1)).
  cbn [prec z3 with_prec]. rewrite (SetPrec_zero (p + 1)) by (unfold MaxPrec; lia).
  cbn [bindT].
  set (t0 := mkDec [] 0 (p + 1) ToNearestEven Exact Fzero false).
  set (n := Z.abs exp2) in *.
  assert (Hn : 0 <= n < 64) by (unfold n; lia).
  destruct (pow2_small_exact (p + 1) n ltac:(unfold PB; lia) Hn Hfit) as (pw & Epw & Wpw & Fpw & Npw & Mpw & Ppw & Lpw).
  fold t0 in Epw.
  (* the operand: z3 seen with a precision that makes it canonical *)
  set (x' := with_prec z3 19).
  assert (Wx' : WF x').
  { apply WF_intro; cbn [dform mant prec exp x' z3 z2 with_prec with_exp with_mant with_form]; try assumption; try reflexivity.
    - unfold MaxPrec; lia.
    - unfold MinExp, MaxExp; lia.
    - left. unfold mdigits. rewrite Hz1, DW_eq. lia. }
  assert (Fx' : dform x' = Ffinite) by reflexivity.
  assert (Mx' : (mag x' == inject_Z M)%Q).
  { unfold mag. cbn [mant exp x' z3 z2 with_prec with_exp with_mant]. rewrite Hmd, Vm.
    rewrite scaled_pow by lia. replace (ndig M - (ndig M + sh) + sh) with 0 by lia. apply scaled0. }
  assert (Pz3 : 0 <= prec z3 <= MaxPrec) by (cbn [prec z3 with_prec]; unfold MaxPrec; lia).
  assert (Ez3 : eff_prec z3 x' pw = p + 1).
  { unfold eff_prec. cbn [prec z3 with_prec]. destruct (Z.eqb_spec (p + 1) 0); [lia|reflexivity]. }
  assert (Lx' : mdigits (mant x') = 19) by (cbn [mant x' z3 z2 with_prec with_exp with_mant]; unfold mdigits; rewrite Hz1, DW_eq; lia).
  assert (Wpw' := WF_finite pw Wpw Fpw).
  assert (HN1 : 1 <= N < 10 ^ (p + 1)).
  { split; [lia|]. apply Z.lt_trans with (10 ^ p); [lia|]. apply Z.pow_lt_mono_r; lia. }
  assert (Final : forall r1, WF r1 -> prec r1 = p + 1 -> dmode r1 = dmode z ->
            result_spec (p + 1) (dmode z) s (scaled N x) r1 -> mdigits (mant r1) <= p + 1 + 18 ->
            exists r, of_opt (round (with_prec r1 (u32 (prec r1 - 1))) 0) = OkR r /\ dform r = Ffinite /\ neg r = s /\
                      (mag r == scaled N x)%Q /\ acc r = Exact /\ prec r = p /\ dmode r = dmode z /\ WF r).
  { intros r1 W1 P1 M1 S1 L1.
    destruct (exact_of_spec (p + 1) _ _ _ r1 N x ltac:(lia) HN1 ltac:(reflexivity)
                ltac:(unfold MinExp; lia) ltac:(unfold MaxExp; lia) S1) as (Ff & Fm & Fa & Fn).
    rewrite P1. replace (p + 1 - 1) with p by lia.
    replace (u32 p) with p by (unfold u32; symmetry; apply Z.mod_small; lia).
    destruct (final_round_exact r1 p s N x W1 Ff Fn Fm ltac:(unfold MaxPrec; lia) ltac:(lia) HN
                ltac:(unfold MinExp; lia) ltac:(unfold MaxExp; lia)) as (r & Er & R1 & R2 & R3 & R4 & R5 & R6 & R7).
    exists r. rewrite Er. cbn [of_opt]. rewrite M1 in R6. repeat split; assumption. }
  assert (U2 : u64 n = n) by (unfold u64; apply Z.mod_small; lia).
  destruct (Z.ltb_spec exp2 0) as [Hneg|Hpos].
  - (* divide by 2^n *)
    replace (- exp2) with n by (unfold n; lia). rewrite U2, Epw. cbn [bindT].
    rewrite <- (Quo_prec_irrel z3 z3 pw 19) by (cbn [prec z3 with_prec]; lia). fold x'.
    destruct (Quo_correct z3 x' pw Wx' Wpw Fx' Fpw Pz3) as (r1 & Eq & Sp & Pr1 & Mr1 & Wr1).
    { rewrite Ez3, Lx'. lia. }
    rewrite Eq. cbn [bindR]. rewrite Ez3 in Sp, Pr1.
    cbn [dmode neg x' z3 z2 with_prec with_exp with_mant with_form with_neg with_acc] in Sp, Mr1.
    rewrite Z1m in Sp, Mr1. rewrite Npw, xorb_false_r in Sp.
    assert (Hv : (mag x' / mag pw == scaled N x)%Q).
    { rewrite Mx', Mpw, scaled0, <- HV. unfold pow2Q.
      replace (exp2 <? 0) with true by (symmetry; apply Z.ltb_lt; exact Hneg).
      replace (- exp2) with n by (unfold n; lia). reflexivity. }
    apply (result_spec_ext _ _ _ _ _ _ Hv) in Sp.
    assert (L1 : mdigits (mant r1) <= p + 1 + 18).
    { destruct (exact_of_spec (p + 1) _ _ _ r1 N x ltac:(lia) HN1 ltac:(reflexivity)
                  ltac:(unfold MinExp; lia) ltac:(unfold MaxExp; lia) Sp) as (Ff & _).
      assert (B1 : 1 <= prec z3 <= MaxPrec - 18) by (cbn [prec z3 with_prec]; unfold MaxPrec; lia).
      assert (B2 : words_ok (mant x') = true) by (destruct (WF_finite x' Wx' Fx'); assumption).
      assert (B3 : words_ok (mant pw) = true) by (destruct Wpw'; assumption).
      refine (Quo_finite_len z3 x' pw r1 B1 Fx' Fpw B2 B3 _ Eq Ff).
      cbn [prec z3 with_prec]. unfold mdigits in Lx', Lpw. rewrite DW_eq in Lx', Lpw. lia. }
    exact (Final r1 Wr1 Pr1 Mr1 Sp L1).
  - (* multiply by 2^n *)
    replace exp2 with n by (unfold n; lia). rewrite U2, Epw. cbn [bindT].
    rewrite <- (Mul_prec_irrel z3 z3 pw 19) by (cbn [prec z3 with_prec]; lia). fold x'.
    destruct (Mul_correct z3 x' pw Wx' Wpw Fx' Fpw Pz3) as (r1 & Eq & Sp & Pr1 & Mr1 & Wr1).
    { rewrite Lx'. unfold PB in *. lia. }
    rewrite Eq. cbn [bindR]. rewrite Ez3 in Sp, Pr1.
    cbn [dmode neg x' z3 z2 with_prec with_exp with_mant with_form with_neg with_acc] in Sp, Mr1.
    rewrite Z1m in Sp, Mr1. rewrite Npw, xorb_false_r in Sp.
    assert (Hv : (mag x' * mag pw == scaled N x)%Q).
    { rewrite Mx', Mpw, scaled0, <- HV. unfold pow2Q.
      replace (exp2 <? 0) with false by (symmetry; apply Z.ltb_ge; exact Hpos).
      replace exp2 with n by (unfold n; lia). reflexivity. }
    apply (result_spec_ext _ _ _ _ _ _ Hv) in Sp.
    assert (L1 : mdigits (mant r1) <= p + 1 + 18).
    { destruct (exact_of_spec (p + 1) _ _ _ r1 N x ltac:(lia) HN1 ltac:(reflexivity)
                  ltac:(unfold MinExp; lia) ltac:(unfold MaxExp; lia) Sp) as (Ff & _).
      assert (B1 : 1 <= prec z3 <= MaxPrec - 18) by (cbn [prec z3 with_prec]; unfold MaxPrec; lia).
      assert (B2 : words_ok (mant x') = true) by (destruct (WF_finite x' Wx' Fx'); assumption).
      assert (B3 : words_ok (mant pw) = true) by (destruct Wpw'; assumption).
      refine (Mul_finite_len z3 x' pw r1 B1 Fx' Fpw B2 B3 _ Eq Ff).
      unfold mdigits in Lx', Lpw. rewrite DW_eq in Lx', Lpw. lia. }
    exact (Final r1 Wr1 Pr1 Mr1 Sp L1).
Qed.
