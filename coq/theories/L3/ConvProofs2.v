(* L3/ConvProofs2.v — Int64, Uint64, IsInt and SetRat meet their documented
   behaviour (C14). *)
From Coq Require Import ZArith List Bool Lia QArith Qabs Lqa.
From Dec Require Import Base.Words Base.WordsProofs Base.QPow L3.Decimal L3.Cmp L3.CmpProofs
  L3.Round L3.Arith L3.Convert Spec.Rounding Spec.RoundingFacts L3.RoundProofs L3.ArithProofs
  L3.ConvertProofs L3.SpecialProofs L3.FmaProofs.
Open Scope Z_scope.

(* ---- the integer part has exactly exp digits ---- *)
Lemma intMant_range x : WFfin x -> 0 < exp x -> 10 ^ (exp x - 1) <= intMant x < 10 ^ exp x.
Proof.
  intros Hx He. destruct (intMant_floor x Hx He) as (Hlo & Hhi & _).
  destruct (mag_bounds x Hx) as [Mlo Mhi].
  assert (H1 : (scaled (intMant x) 0 < scaled 1 (exp x))%Q) by (eapply Qle_lt_trans; eassumption).
  assert (H2 : (scaled 1 (exp x - 1) < scaled (intMant x + 1) 0)%Q) by (eapply Qle_lt_trans; eassumption).
  apply (scaled_lt_gen _ _ _ _ 0) in H1; [|lia|lia].
  apply (scaled_lt_gen _ _ _ _ 0) in H2; [|lia|lia].
  rewrite Z.sub_diag, Z.pow_0_r, Z.sub_0_r in H1, H2. clear - H1 H2. lia.
Qed.

(* toUint64: the value itself and "fits" below 2^64; "does not fit" from 2^64 on.
   The model's two-word limit B*B = 10^38 lies above 2^64. *)
Lemma toUint64_spec n : 0 <= n ->
  (n < 18446744073709551616 -> toUint64 n = (n, true)) /\
  (18446744073709551616 <= n -> snd (toUint64 n) = false).
Proof.
  intros Hn. unfold toUint64, u64.
  assert (HB : B * B = 100000000000000000000000000000000000000) by (rewrite B_eq; reflexivity).
  rewrite HB. split; intros H.
  - destruct (Z.ltb_spec n 100000000000000000000000000000000000000); [|lia].
    rewrite Z.mod_small by lia. destruct (Z.ltb_spec n 18446744073709551616); [reflexivity|lia].
  - destruct (Z.ltb_spec n 100000000000000000000000000000000000000); cbn [snd]; [|reflexivity].
    destruct (Z.ltb_spec n 18446744073709551616); [lia|reflexivity].
Qed.

Lemma pow10_20 : 10 ^ 20 = 100000000000000000000.
Proof. reflexivity. Qed.

(* exp > 20 means |x| >= 10^20 > 2^64: the shortcut of Int64/Uint64 is sound *)
Lemma intMant_big x : WFfin x -> 20 < exp x -> 18446744073709551616 < intMant x.
Proof.
  intros Hx He. destruct (intMant_range x Hx ltac:(lia)) as [Hlo _].
  assert (10 ^ 20 <= 10 ^ (exp x - 1)) by (apply Z.pow_le_mono_r; lia).
  rewrite pow10_20 in *. lia.
Qed.

(* ---- truncation toward zero: the common specification ---- *)
(* t is the integer part of the value of x (sign of x, magnitude floor |x|), and
   a is the accuracy of t with respect to x *)
Definition TruncOf (x : Dec) (t : Z) (a : accuracy) : Prop :=
  (scaled (Z.abs t) 0 <= mag x)%Q /\ (mag x < scaled (Z.abs t + 1) 0)%Q /\
  (t < 0 -> neg x = true) /\ (0 < t -> neg x = false) /\
  (a = Exact <-> (mag x == scaled (Z.abs t) 0)%Q) /\ (a <> Exact -> a = makeAcc (neg x)).

Lemma TruncOf_small x : WFfin x -> exp x <= 0 -> TruncOf x 0 (makeAcc (neg x)).
Proof.
  intros Hx He. destruct (mag_bounds x Hx) as [_ Mhi]. pose proof (mag_pos x Hx) as Mp.
  assert (H1 : (scaled 1 (exp x) <= scaled 1 0)%Q) by (apply scaled1_le; lia).
  assert (E0 : (scaled 0 0 == 0)%Q) by apply scaled_0.
  unfold TruncOf. cbn [Z.abs Z.add]. repeat split; try lia.
  - rewrite E0. apply Qlt_le_weak. exact Mp.
  - eapply Qlt_le_trans; eassumption.
  - destruct (neg x); discriminate.
  - intros E. rewrite E0 in E. rewrite E in Mp. exfalso. revert Mp. apply Qlt_irrefl.
Qed.

Lemma TruncOf_Int x : WF x -> dform x = Ffinite -> 0 < exp x ->
  TruncOf x (if neg x then - intMant x else intMant x) (if MinPrec x <=? exp x then Exact else makeAcc (neg x)).
Proof.
  intros Wx Fx He. destruct (Int_correct x Wx Fx He) as (t & a & E & H).
  unfold Int in E. rewrite Fx in E. destruct (Z.leb_spec (exp x) 0); [lia|].
  injection E as <- <-. exact H.
Qed.

(* ---- Int64 ---- *)
Definition sat_int64 (t : Z) (a : accuracy) : Z * accuracy :=
  if t <? MinInt64 then (MinInt64, Above)
  else if MaxInt64 <? t then (MaxInt64, Below)
  else (t, a).

Lemma i64_small a : -9223372036854775808 <= a < 9223372036854775808 -> i64 a = a.
Proof. intros H. unfold i64. rewrite Z.mod_small by lia. lia. Qed.

Theorem Int64_correct x : WF x -> dform x = Ffinite ->
  exists t a, TruncOf x t a /\ Int64 x = sat_int64 t a.
Proof.
  intros Wx Fx. pose proof (WF_finite x Wx Fx) as Hx.
  unfold Int64. rewrite Fx.
  destruct (Z.leb_spec (exp x) 0) as [He|He].
  - exists 0, (makeAcc (neg x)). split; [apply TruncOf_small; assumption|reflexivity].
  - eexists _, _. split; [apply TruncOf_Int; assumption|].
    pose proof (intMant_range x Hx He) as [Rlo Rhi].
    assert (Hpos : 0 < intMant x) by (assert (0 < 10 ^ (exp x - 1)) by (apply pow10_pos; lia); lia).
    set (n := intMant x) in *.
    set (a := if MinPrec x <=? exp x then Exact else makeAcc (neg x)).
    destruct (toUint64_spec n ltac:(lia)) as [Tfit Tbig].
    unfold sat_int64, MinInt64, MaxInt64.
    destruct (Z.leb_spec (exp x) 20) as [H20|H20].
    + destruct (Z.lt_ge_cases n 18446744073709551616) as [C|C].
      * rewrite (Tfit C).
        destruct (Z.ltb_spec n 9223372036854775808) as [C1|C1]; cbn [orb].
        -- rewrite (i64_small n) by lia.
           destruct (neg x).
           ++ rewrite i64_small by lia.
              destruct (Z.ltb_spec (- n) (-9223372036854775808)); [lia|].
              destruct (Z.ltb_spec 9223372036854775807 (- n)); [lia|]. reflexivity.
           ++ destruct (Z.ltb_spec n (-9223372036854775808)); [lia|].
              destruct (Z.ltb_spec 9223372036854775807 n); [lia|]. reflexivity.
        -- destruct (neg x); cbn [andb].
           ++ destruct (Z.eqb_spec n 9223372036854775808) as [E|E].
              ** rewrite E. reflexivity.
              ** destruct (Z.ltb_spec (- n) (-9223372036854775808)); [reflexivity|lia].
           ++ destruct (Z.ltb_spec n (-9223372036854775808)); [lia|].
              destruct (Z.ltb_spec 9223372036854775807 n); [reflexivity|lia].
      * specialize (Tbig C). destruct (toUint64 n) as [t ok]. cbn [snd] in Tbig. rewrite Tbig.
        destruct (neg x).
        -- destruct (Z.ltb_spec (- n) (-9223372036854775808)); [reflexivity|lia].
        -- destruct (Z.ltb_spec n (-9223372036854775808)); [lia|].
           destruct (Z.ltb_spec 9223372036854775807 n); [reflexivity|lia].
    + pose proof (intMant_big x Hx H20) as Hb. fold n in Hb.
      destruct (neg x).
      * destruct (Z.ltb_spec (- n) (-9223372036854775808)); [reflexivity|lia].
      * destruct (Z.ltb_spec n (-9223372036854775808)); [lia|].
        destruct (Z.ltb_spec 9223372036854775807 n); [reflexivity|lia].
Qed.

Lemma Int64_zero x : dform x = Fzero -> Int64 x = (0, Exact).
Proof. intros F. unfold Int64. rewrite F. reflexivity. Qed.

Lemma Int64_inf x : dform x = Finf ->
  Int64 x = if neg x then (MinInt64, Above) else (MaxInt64, Below).
Proof. intros F. unfold Int64. rewrite F. reflexivity. Qed.

(* ---- Uint64 ---- *)
Definition sat_uint64 (t : Z) (a : accuracy) : Z * accuracy :=
  if t <? 0 then (0, Above)
  else if MaxUint64 <? t then (MaxUint64, Below)
  else (t, a).

Theorem Uint64_correct x : WF x -> dform x = Ffinite ->
  exists t a, TruncOf x t a /\ Uint64 x = sat_uint64 t a.
Proof.
  intros Wx Fx. pose proof (WF_finite x Wx Fx) as Hx.
  unfold Uint64. rewrite Fx.
  destruct (Z.leb_spec (exp x) 0) as [He|He].
  - exists 0, (makeAcc (neg x)). split; [apply TruncOf_small; assumption|].
    unfold sat_uint64, MaxUint64. cbn. destruct (neg x); reflexivity.
  - eexists _, _. split; [apply TruncOf_Int; assumption|].
    pose proof (intMant_range x Hx He) as [Rlo Rhi].
    assert (Hpos : 0 < intMant x) by (assert (0 < 10 ^ (exp x - 1)) by (apply pow10_pos; lia); lia).
    set (n := intMant x) in *.
    destruct (toUint64_spec n ltac:(lia)) as [Tfit Tbig].
    unfold sat_uint64, MaxUint64.
    destruct (neg x) eqn:Nx.
    + destruct (Z.ltb_spec (- n) 0); [reflexivity|lia].
    + destruct (Z.ltb_spec n 0); [lia|].
      destruct (Z.leb_spec (exp x) 20) as [H20|H20].
      * destruct (Z.lt_ge_cases n 18446744073709551616) as [C|C].
        -- rewrite (Tfit C). destruct (Z.ltb_spec 18446744073709551615 n); [lia|].
           cbn [makeAcc]. destruct (Z.ltb_spec (exp x) (MinPrec x)), (Z.leb_spec (MinPrec x) (exp x)); try lia; reflexivity.
        -- specialize (Tbig C). destruct (toUint64 n) as [t ok]. cbn [snd] in Tbig. rewrite Tbig.
           destruct (Z.ltb_spec 18446744073709551615 n); [reflexivity|lia].
      * pose proof (intMant_big x Hx H20) as Hb. fold n in Hb.
        destruct (Z.ltb_spec 18446744073709551615 n); [reflexivity|lia].
Qed.

Lemma Uint64_zero x : dform x = Fzero -> Uint64 x = (0, Exact).
Proof. intros F. unfold Uint64. rewrite F. reflexivity. Qed.

Lemma Uint64_inf x : dform x = Finf ->
  Uint64 x = if neg x then (0, Above) else (MaxUint64, Below).
Proof. intros F. unfold Uint64. rewrite F. reflexivity. Qed.

(* ---- IsInt ---- *)
(* the value of x is an integer: its magnitude is n * 10^0 for some integer n *)
Definition IsInteger (x : Dec) : Prop := exists n, (mag x == scaled n 0)%Q.

Theorem IsInt_correct x : WF x -> dform x = Ffinite -> (IsInt x = true <-> IsInteger x).
Proof.
  intros Wx Fx. pose proof (WF_finite x Wx Fx) as Hx.
  unfold IsInt. rewrite Fx.
  destruct (Z.leb_spec (exp x) 0) as [He|He].
  - split; [discriminate|]. intros [n E]. exfalso.
    destruct (mag_bounds x Hx) as [_ Mhi]. pose proof (mag_pos x Hx) as Mp.
    assert (H1 : (scaled 1 (exp x) <= scaled 1 0)%Q) by (apply scaled1_le; lia).
    assert (H2 : (scaled n 0 < scaled 1 0)%Q) by (rewrite <- E; eapply Qlt_le_trans; eassumption).
    assert (H3 : (scaled 0 0 < scaled n 0)%Q) by (rewrite <- E, scaled_0; exact Mp).
    apply scaled_lt_same in H2, H3. lia.
  - destruct (MinPrec_spec x Hx Fx) as (Hmp & Hmpp & Hdiv).
    destruct (intMant_floor x Hx He) as (Hlo & Hhi & Hint).
    destruct Hx as [_ _ _ Hprec Hexp _].
    assert (Eu : u32 (exp x) = exp x) by (apply u32_small; unfold MaxExp in *; lia).
    rewrite Eu.
    assert (Hiff : MinPrec x <= exp x <-> (mag x == scaled (intMant x) 0)%Q).
    { rewrite Hint. split.
      - intros H1. destruct (Z.le_gt_cases (mdigits (mant x)) (exp x)); [left; assumption|right]. apply Hdiv; lia.
      - intros [H1|H1]; [lia|]. destruct (Z.le_gt_cases (mdigits (mant x)) (exp x)); [lia|]. apply Hdiv in H1; lia. }
    split.
    + intros H. exists (intMant x). apply Hiff.
      apply orb_true_iff in H as [H|H]; apply Z.leb_le in H; lia.
    + intros [n E]. apply orb_true_iff. right. apply Z.leb_le. apply Hiff.
      (* n is squeezed between intMant and intMant + 1 *)
      assert (H1 : (scaled (intMant x) 0 <= scaled n 0)%Q) by (rewrite <- E; exact Hlo).
      assert (H2 : (scaled n 0 < scaled (intMant x + 1) 0)%Q) by (rewrite <- E; exact Hhi).
      apply scaled_le_same in H1. apply scaled_lt_same in H2.
      assert (n = intMant x) by lia. subst n. exact E.
Qed.

Lemma IsInt_zero x : dform x = Fzero -> IsInt x = true.
Proof. intros F. unfold IsInt. rewrite F. reflexivity. Qed.

Lemma IsInt_inf x : dform x = Finf -> IsInt x = false.
Proof. intros F. unfold IsInt. rewrite F. reflexivity. Qed.

(* ---- SetRat ---- *)
(* rounding never lengthens the mantissa slice *)
Lemma zlen_clear_low m l : zlen (clear_low m l) = zlen m.
Proof. destruct m; reflexivity. Qed.

Lemma length_set_nth l : forall i w, length (set_nth l i w) = length l.
Proof. induction l as [|a l IH]; intros [|i] w; cbn; try reflexivity. now rewrite IH. Qed.

Lemma zlen_set_nth l i w : zlen (set_nth l i w) = zlen l.
Proof. unfold zlen. now rewrite length_set_nth. Qed.

Lemma round_len z sb z' : round z sb = Some z' -> zlen (mant z') <= zlen (mant z).
Proof.
  unfold round. cbn [dform with_acc mant prec dmode neg exp].
  destruct (dform z); try (intros E; injection E as <-; cbn [mant with_acc]; lia).
  destruct (_ <=? prec z); [intros E; injection E as <-; cbn [mant with_acc]; lia|].
  set (m := u32 (zlen (mant z))). set (n := u32 (prec z + (DW - 1)) / DW).
  set (mant1 := if n <? m then skipn (Z.to_nat (m - n)) (mant z) else mant z).
  assert (H1 : zlen mant1 <= zlen (mant z)).
  { unfold mant1. destruct (n <? m); [|lia]. unfold zlen. apply Nat2Z.inj_le. rewrite skipn_length. lia. }
  destruct mant1 as [|w0 r0] eqn:E1; [discriminate|]. rewrite <- E1 in *. clear E1.
  set (lsd := 10 ^ (u32 (n * DW) - prec z)).
  assert (H2 : forall s, zlen (fst (add10VW_v mant1 s)) = zlen mant1).
  { intros s. unfold add10VW_v. cbn [fst]. rewrite zlen_to_words. reflexivity. }
  destruct (negb _).
  - destruct (round_inc _ _ _ _ _).
    + specialize (H2 lsd). destruct (add10VW_v mant1 lsd) as [mant2 c]. cbn [fst] in H2.
      destruct (negb (c =? 0)).
      * destruct (MaxExp <=? exp z); intros E; injection E as <-;
          cbn [mant with_mant with_exp with_form with_acc]; rewrite ?zlen_clear_low, ?zlen_set_nth; lia.
      * intros E; injection E as <-. cbn [mant with_mant with_acc]. rewrite zlen_clear_low. lia.
    + intros E; injection E as <-. cbn [mant with_mant with_acc]. rewrite zlen_clear_low. lia.
  - intros E; injection E as <-. cbn [mant with_mant with_acc]. rewrite zlen_clear_low. lia.
Qed.

Lemma setExpAndRound_len z e sb z' : setExpAndRound z e sb = Some z' -> zlen (mant z') <= zlen (mant z).
Proof.
  unfold setExpAndRound. destruct (e <? MinExp); [intros E; injection E as <-; cbn; lia|].
  destruct (MaxExp <? e); [intros E; injection E as <-; cbn; lia|].
  intros E. apply round_len in E. exact E.
Qed.

Lemma SetInt_len z x a : x <> 0 -> SetInt z x = OkR a -> zlen (mant a) <= zlen (of_Z (Z.abs x)).
Proof.
  intros Hnz. unfold SetInt. destruct (Z.eqb_spec x 0); [contradiction|].
  destruct (of_Z_pos_facts (Z.abs x) ltac:(lia)) as (Hok & Hne & Hlast & Hval).
  destruct (dnorm_spec _ Hok Hne Hlast) as (m' & sh & Ed & Hsh & Vm' & Lm' & Okm' & Nem' & Topm').
  rewrite Ed.
  match goal with |- of_opt ?o = _ -> _ => destruct o as [a'|] eqn:E end; [|discriminate].
  intros E'. injection E' as <-. apply setExpAndRound_len in E. cbn [mant with_mant] in E. lia.
Qed.

(* an integer below 10^MaxExp is stored exactly by SetInt on a fresh (precision 0) Decimal *)
Lemma SetInt_fresh_exact x D : x <> 0 -> Z.abs x < 10 ^ D -> 0 <= D <= MaxExp ->
  exists a, SetInt dec_zero x = OkR a /\ WF a /\ dform a = Ffinite /\ (mag a == scaled (Z.abs x) 0)%Q /\
    neg a = (x <? 0) /\ acc a = Exact /\ prec a = setint_prec dec_zero x /\ mdigits (mant a) < D + 19.
Proof.
  intros Hnz HD HDr. assert (Hax : 0 < Z.abs x) by lia.
  pose proof (SetInt_correct dec_zero x D Hnz HD ltac:(lia) ltac:(unfold MaxExp in *; lia)
                ltac:(cbn [prec dec_zero]; unfold MaxPrec; lia)) as (a & E & HS & Hp & Hm & W).
  exists a. split; [exact E|]. split; [exact W|].
  destruct (ndig_spec (Z.abs x) Hax) as [Hn0 [Hnl Hnh]].
  assert (Hnd : ndig (Z.abs x) <= D).
  { destruct (Z.le_gt_cases (ndig (Z.abs x)) D) as [C|C]; [exact C|exfalso].
    assert (10 ^ D <= 10 ^ (ndig (Z.abs x) - 1)) by (apply Z.pow_le_mono_r; lia). lia. }
  set (p := setint_prec dec_zero x) in *.
  assert (Hpp : ndig (Z.abs x) <= p /\ 34 <= p <= MaxPrec).
  { unfold p, setint_prec, DefaultDecimalPrec, MaxPrec, MaxExp in *. cbn [prec dec_zero Z.eqb]. lia. }
  assert (Hrep : RoundsDir (dir_of (dmode dec_zero) (x <? 0)) p (scaled (Z.abs x) 0) (scaled (Z.abs x) 0)).
  { apply int_rounds; [lia|]. split; [lia|].
    apply Z.lt_le_trans with (10 ^ ndig (Z.abs x)); [lia|apply Z.pow_le_mono_r; lia]. }
  assert (Hlo : (scaled 1 (MinExp - 1) <= scaled (Z.abs x) 0)%Q).
  { apply (scaled_le_gen _ _ _ _ (MinExp - 1)); [lia|unfold MinExp; lia|].
    rewrite Z.sub_diag, Z.pow_0_r. assert (0 <= 0 - (MinExp - 1)) as Hk by (unfold MinExp; lia).
    pose proof (pow10_pos _ Hk) as HP. clear - HP Hax. nia. }
  assert (Hhi : (scaled (Z.abs x) 0 < scaled 1 MaxExp)%Q).
  { apply (scaled_lt_gen _ _ _ _ 0); [lia|unfold MaxExp; lia|].
    rewrite Z.sub_diag, Z.pow_0_r, Z.sub_0_r.
    assert (HM : 10 ^ D <= 10 ^ MaxExp) by (apply Z.pow_le_mono_r; lia). clear - HM HD. lia. }
  destruct (result_spec_exact p (dmode dec_zero) (x <? 0) (scaled (Z.abs x) 0) a ltac:(lia) HS Hlo Hhi Hrep)
    as (Fa & Ma & Aa & Na).
  repeat (split; [assumption|]).
  pose proof (SetInt_len dec_zero x a Hnz E) as Hl.
  pose proof (zlen_of_Z_bound (Z.abs x) D ltac:(lia) ltac:(lia)) as Hb.
  unfold mdigits. cbv [DW]. lia.
Qed.

Definition setrat_prec (z : Dec) (num den : Z) : Z :=
  if prec z =? 0 then Z.max (setint_prec dec_zero num) (setint_prec dec_zero den) else prec z.

Lemma scaled_0e a : (scaled a 0 == inject_Z a)%Q.
Proof. unfold scaled. rewrite Qpow10_0. ring. Qed.

Lemma SetRat_den1 z num : SetRat z num 1 = SetInt z num.
Proof. reflexivity. Qed.

(* SetRat(num/den), den > 1: the quotient rounded ONCE to the receiver's precision
   (or, if that is 0, to max(34, digits of num, digits of den)) and mode *)
Theorem SetRat_correct z num den Dn Dd :
  num <> 0 -> 1 < den -> Z.abs num < 10 ^ Dn -> den < 10 ^ Dd ->
  0 <= Dn <= MaxExp -> 0 <= Dd <= MaxExp -> 0 <= prec z <= MaxPrec ->
  Dn + Dd + setrat_prec z num den + 76 < 4294967296 - 18 ->
  OpPost (setrat_prec z num den) (dmode z) (num <? 0) (inject_Z (Z.abs num) / inject_Z den) (SetRat z num den).
Proof.
  intros Hnz Hden Hn Hd HDn HDd Pz Hsz. unfold SetRat.
  destruct (Z.eqb_spec den 1); [lia|].
  destruct (SetInt_fresh_exact num Dn Hnz Hn HDn) as (a & Ea & Wa & Fa & Ma & Na & Aa & Pa & La).
  assert (Hd' : Z.abs den < 10 ^ Dd) by (rewrite Z.abs_eq by lia; exact Hd).
  destruct (SetInt_fresh_exact den Dd ltac:(lia) Hd' HDd)
    as (b & Eb & Wb & Fb & Mb & Nb & Ab & Pb & Lb).
  rewrite Ea, Eb. rewrite Z.abs_eq in Mb by lia.
  set (z1 := if prec z =? 0 then with_prec z (umax32 (prec a) (prec b)) else z).
  assert (Hp1 : prec z1 = setrat_prec z num den).
  { unfold z1, setrat_prec. destruct (prec z =? 0); [|reflexivity]. cbn [prec with_prec]. rewrite umax32_spec, Pa, Pb. reflexivity. }
  assert (Hm1 : dmode z1 = dmode z) by (unfold z1; destruct (prec z =? 0); reflexivity).
  assert (Hpr : 1 <= setrat_prec z num den <= MaxPrec).
  { clear - Pz. unfold setrat_prec, setint_prec, DefaultDecimalPrec, MaxPrec in *. cbn [prec dec_zero Z.eqb].
    destruct (Z.eqb_spec (prec z) 0); lia. }
  assert (Ee : eff_prec z1 a b = setrat_prec z num den).
  { unfold eff_prec. rewrite Hp1. destruct (Z.eqb_spec (setrat_prec z num den) 0); [lia|reflexivity]. }
  assert (Q1 : 0 <= prec z1 <= MaxPrec) by (rewrite Hp1; lia).
  assert (Q2 : mdigits (mant a) + mdigits (mant b) + eff_prec z1 a b + 38 < 4294967296 - 18) by (rewrite Ee; lia).
  pose proof (Quo_correct z1 a b Wa Wb Fa Fb Q1 Q2) as HQ.
  rewrite Ee, Hm1, Na, Nb in HQ.
  assert (Es : xorb (num <? 0) (den <? 0) = (num <? 0)).
  { destruct (Z.ltb_spec den 0); [lia|]. apply xorb_false_r. }
  rewrite Es in HQ.
  destruct HQ as (z' & E & HS & R). exists z'. split; [exact E|]. split; [|exact R].
  eapply result_spec_ext; [|exact HS]. rewrite Ma, Mb, !scaled_0e. reflexivity.
Qed.

(* SetRat(0/den): an exact +0 *)
Theorem SetRat_zero z den Dd : 1 < den -> den < 10 ^ Dd -> 0 <= Dd <= MaxExp -> 0 <= prec z <= MaxPrec ->
  exists z', SetRat z 0 den = OkR z' /\ dform z' = Fzero /\ neg z' = false /\ acc z' = Exact /\
    prec z' = (if prec z =? 0 then Z.max DefaultDecimalPrec (setint_prec dec_zero den) else prec z) /\
    dmode z' = dmode z /\ WF z'.
Proof.
  intros Hden Hd HDd Pz. unfold SetRat.
  destruct (Z.eqb_spec den 1); [lia|].
  assert (Hd' : Z.abs den < 10 ^ Dd) by (rewrite Z.abs_eq by lia; exact Hd).
  destruct (SetInt_fresh_exact den Dd ltac:(lia) Hd' HDd) as (b & Eb & Wb & Fb & Mb & Nb & Ab & Pb & Lb).
  rewrite Eb.
  set (a0 := mkDec [] 0 DefaultDecimalPrec ToNearestEven Exact Fzero false).
  change (SetInt dec_zero 0) with (OkR a0). cbv iota beta.
  assert (Wa : WF a0) by reflexivity.
  set (z1 := if prec z =? 0 then with_prec z (umax32 (prec a0) (prec b)) else z).
  assert (Hsp : 34 <= setint_prec dec_zero den <= MaxPrec).
  { unfold setint_prec, DefaultDecimalPrec, MaxPrec. cbn [prec dec_zero Z.eqb]. lia. }
  assert (Hp1 : prec z1 = if prec z =? 0 then Z.max DefaultDecimalPrec (setint_prec dec_zero den) else prec z).
  { unfold z1. destruct (prec z =? 0); [|reflexivity]. cbn [prec with_prec a0]. rewrite umax32_spec, Pb. reflexivity. }
  assert (Hm1 : dmode z1 = dmode z) by (unfold z1; destruct (prec z =? 0); reflexivity).
  assert (Hr1 : 1 <= prec z1 <= MaxPrec).
  { rewrite Hp1. unfold DefaultDecimalPrec, MaxPrec in *. destruct (Z.eqb_spec (prec z) 0); lia. }
  pose proof (Quo_special z1 a0 b Wa Wb ltac:(lia)) as HS.
  unfold quo_table in HS. rewrite Fb in HS. cbn [dform a0 SpecialPost neg] in HS. rewrite Nb in HS.
  destruct HS as (z' & E & Hf & Hn & Ha & W & Hp & Hm). exists z'.
  split; [exact E|]. split; [exact Hf|]. split.
  { rewrite Hn. destruct (Z.ltb_spec den 0); [lia|reflexivity]. }
  split; [exact Ha|]. split.
  { rewrite Hp. unfold eff_prec. destruct (Z.eqb_spec (prec z1) 0); [lia|exact Hp1]. }
  split; [congruence|exact W].
Qed.

(* ---- the zero and infinity rows, in one statement per getter ---- *)
Lemma Int64_nonfinite x :
  (dform x = Fzero -> Int64 x = (0, Exact)) /\
  (dform x = Finf -> Int64 x = if neg x then (MinInt64, Above) else (MaxInt64, Below)).
Proof. split; [apply Int64_zero|apply Int64_inf]. Qed.

Lemma Uint64_nonfinite x :
  (dform x = Fzero -> Uint64 x = (0, Exact)) /\
  (dform x = Finf -> Uint64 x = if neg x then (0, Above) else (MaxUint64, Below)).
Proof. split; [apply Uint64_zero|apply Uint64_inf]. Qed.

Lemma IsInt_nonfinite x : (dform x = Fzero -> IsInt x = true) /\ (dform x = Finf -> IsInt x = false).
Proof. split; [apply IsInt_zero|apply IsInt_inf]. Qed.
