(* L3/FRun.v — programs over a store of Decimal variables extended with Sqrt
   and the binary floating-point conversions: the object the C05/C15
   correspondence checks execute on both sides.  Definitions only. *)
From Coq Require Import ZArith Bool List Lia.
From Dec Require Export L3.Store L3.Sqrt.
Open Scope Z_scope.

Inductive fop :=
| FPlain (o : op)
| FSqrt (z x : nat)
| FSetFloat64 (z : nat) (bits : Z)
(* SetFloat(x): x = big.Float of precision p, form frm, sign ng, value man * 2^e *)
| FSetFloat (z : nat) (frm : form) (ng : bool) (man e p : Z)
(* x.Float(z): znil = nil argument; otherwise z has precision zp, mode zm and
   previous contents ±0 / ±1 / ±Inf *)
| FFloat (x : nat) (znil : bool) (zp : Z) (zm : mode) (zf : form) (zneg : bool)
| FFloat64 (x : nat)
| FFloat32 (x : nat).

Definition bf_obs (z : BF) : list Z :=
  let c := bf_canon z in
  [form_num (bform c); b2z (bneg c); bprec c; mode_num (bmode c); acc_num (bacc c); bman c; bexp c].

Definition fstep (s : store) (o : fop) : store * result :=
  match o with
  | FPlain o => step s o
  | FSqrt z x => put s z (Sqrt (Nat.eqb z x) (get s z) (get s x))
  | FSetFloat64 z bits => put s z (SetFloat64 (get s z) bits)
  | FSetFloat z frm ng man e p =>
      put s z (SetFloat (get s z) (mkBF p ToNearestEven Exact frm ng man e))
  | FFloat x znil zp zm zf zneg =>
      match Float (get s x) znil (mkBF zp zm Exact zf zneg 1 0) with
      | Some r => (s, res_ok (bf_obs r))
      | None => (s, mkRes Crash [] [])
      end
  | FFloat64 x =>
      match Float64 (get s x) with
      | Some (r, a) => (s, res_ok [fl_bits binary64 r; acc_num a])
      | None => (s, mkRes Crash [] [])
      end
  | FFloat32 x =>
      match Float32 (get s x) with
      | Some (r, a) => (s, res_ok [fl_bits binary32 r; acc_num a])
      | None => (s, mkRes Crash [] [])
      end
  end.

Fixpoint frun (s : store) (p : list fop) : list (result * store) :=
  match p with
  | [] => []
  | o :: p' =>
      let '(s', r) := fstep s o in
      match r_out r with
      | Crash => [(r, s')]
      | _ => (r, s') :: frun s' p'
      end
  end.

(* in-kernel sample: initial store, program, observations of the implementation *)
Definition fcase := (store * list fop * list (result * store))%type.
Definition fcase_ok (c : fcase) : bool :=
  let '(s, p, o) := c in list_eqb obs_eqb (frun s p) o.
Fixpoint fmismatches_from (i : nat) (cs : list fcase) : list nat :=
  match cs with
  | [] => []
  | c :: r => if fcase_ok c then fmismatches_from (S i) r else i :: fmismatches_from (S i) r
  end.
Definition fmismatches (cs : list fcase) : list nat := fmismatches_from 0 cs.
