(* L3/SqrtLemmas.v — rounding facts used by the proof of the repaired Sqrt
   (L3/SqrtProofs.v): upper bounds of roundings, invariance of the rounding
   specification under scaling by a power of ten, and the key fact that one
   rounding decision covers a whole open grid cell. *)
From Coq Require Import ZArith List Bool Lia QArith Qabs Lqa.
From Dec Require Import Base.Words Base.WordsProofs Base.QPow L3.Decimal L3.Cmp L3.CmpProofs
  L3.Round L3.Arith L3.Convert Spec.Rounding Spec.RoundingFacts L3.RoundProofs L3.ArithProofs
  L3.ConvertProofs L4.Pow2Proofs Spec.SqrtSpec.
From Dec Require L3.ConvProofs2.
Open Scope Z_scope.

Lemma scaled1_lt_inv a b : (scaled 1 a < scaled 1 b)%Q -> a < b.
Proof.
  intros H. destruct (Z.lt_ge_cases a b) as [C|C]; [exact C|exfalso].
  pose proof (scaled1_le b a ltac:(lia)). lra.
Qed.

Lemma scaled_pow10 p e : 0 <= p -> (scaled (10 ^ p) e == scaled 1 (e + p))%Q.
Proof. intros Hp. rewrite <- (scaled_pow 1 p e Hp). now rewrite Z.mul_1_l. Qed.

(* the rounded value is the lower or the upper neighbour *)
Lemma RoundsDir_cases d p v r : RoundsDir d p v r ->
  exists M e, IsDown p v M e /\
    ((r == scaled M e)%Q \/ (~ (v == scaled M e)%Q /\ (r == scaled (M + 1) e)%Q)).
Proof.
  intros (M & e & HD & Hex & Hin). exists M, e. split; [exact HD|]. cbn zeta in *.
  destruct (Qeq_dec v (scaled M e)) as [E|E]; [left; auto|].
  specialize (Hin E). destruct d.
  - left; exact Hin.
  - right; split; assumption.
  - destruct Hin as (A & Bq & C).
    destruct (Q_dec (v - scaled M e) (scaled (M + 1) e - v)) as [[H|H]|H].
    + left; auto.
    + right; split; auto.
    + rewrite (C H). destruct (Z.even M); [left; reflexivity|right; split; [assumption|reflexivity]].
  - destruct Hin as (A & Bq).
    destruct (Qlt_le_dec (v - scaled M e) (scaled (M + 1) e - v)) as [H|H].
    + left; auto.
    + right; split; auto.
Qed.

(* rounding never exceeds a power of ten that bounds the exact value *)
Lemma rounds_le d p v r K : 1 <= p -> RoundsDir d p v r -> (v <= scaled 1 K)%Q -> (r <= scaled 1 K)%Q.
Proof.
  intros Hp HR Hv. destruct (RoundsDir_cases d p v r HR) as (M & e & (HM & Hlo & Hhi) & Hr).
  destruct Hr as [Hr|[Hne Hr]]; rewrite Hr.
  - lra.
  - assert (Hlt : (scaled M e < scaled 1 K)%Q).
    { apply Qle_lt_or_eq in Hlo as [C|C]; [lra|exfalso; apply Hne; symmetry; exact C]. }
    assert (H1 : (scaled (10 ^ (p - 1)) e <= scaled M e)%Q) by (apply scaled_le_same; lia).
    rewrite scaled_pow10 in H1 by lia.
    assert (Hk : e + (p - 1) < K) by (apply scaled1_lt_inv; lra).
    apply Qle_trans with (scaled (10 ^ p) e); [apply scaled_le_same; lia|].
    rewrite scaled_pow10 by lia. apply scaled1_le. lia.
Qed.

(* the rounding specification is invariant under scaling by a power of ten *)
Lemma RoundsDir_scale d p v r h : RoundsDir d p v r -> RoundsDir d p (v * Qpow10 h) (r * Qpow10 h).
Proof.
  intros (M & e & [HM [H1 H2]] & Hex & Hin). cbn zeta in *.
  pose proof (Qpow10_pos h) as Hc. set (c := Qpow10 h) in *.
  assert (Es : forall a, (scaled a (e + h) == scaled a e * c)%Q).
  { intros a. unfold scaled, c. rewrite Qpow10_add. ring. }
  assert (Hnz : ~ (c == 0)%Q) by (intros E; rewrite E in Hc; exact (Qlt_irrefl 0 Hc)).
  assert (Heq1 : forall a b, (a * c == b * c)%Q -> (a == b)%Q) by (intros a b; apply Qmult_inj_r; exact Hnz).
  assert (Heq2 : forall a b, (a == b)%Q -> (a * c == b * c)%Q) by (intros a b; apply Qmult_inj_r; exact Hnz).
  assert (Hlt1 : forall a b, (a * c < b * c)%Q -> (a < b)%Q) by (intros a b; apply Qmult_lt_r; exact Hc).
  assert (Hlt2 : forall a b, (a < b)%Q -> (a * c < b * c)%Q) by (intros a b; apply Qmult_lt_r; exact Hc).
  assert (Hle1 : forall a b, (a * c <= b * c)%Q -> (a <= b)%Q) by (intros a b; apply Qmult_le_r; exact Hc).
  assert (Hle2 : forall a b, (a <= b)%Q -> (a * c <= b * c)%Q) by (intros a b; apply Qmult_le_r; exact Hc).
  set (lo := scaled M e) in *. set (hi := scaled (M + 1) e) in *.
  assert (D1 : (v * c - lo * c == (v - lo) * c)%Q) by ring.
  assert (D2 : (hi * c - v * c == (hi - v) * c)%Q) by ring.
  assert (El : (scaled M (e + h) == lo * c)%Q) by apply Es.
  assert (Eh : (scaled (M + 1) (e + h) == hi * c)%Q) by apply Es.
  exists M, (e + h). split.
  - split; [exact HM|]. rewrite El, Eh. split; [apply Hle2; exact H1|apply Hlt2; exact H2].
  - cbn zeta. split.
    + rewrite El. intros E. apply Heq1 in E. apply Heq2. auto.
    + intros NE. assert (NE' : ~ (v == lo)%Q) by (intros E; apply NE; rewrite El; apply Heq2, E).
      specialize (Hin NE'). destruct d.
      * rewrite El. apply Heq2, Hin.
      * rewrite Eh. apply Heq2, Hin.
      * destruct Hin as (A & Bq & C). repeat split; intros H; rewrite El, Eh, D1, D2 in H.
        -- rewrite El. apply Heq2, A, Hlt1, H.
        -- rewrite Eh. apply Heq2, Bq, Hlt1, H.
        -- apply Heq1 in H. specialize (C H). destruct (Z.even M); [rewrite El|rewrite Eh]; apply Heq2, C.
      * destruct Hin as (A & Bq). split; intros H; rewrite El, Eh, D1, D2 in H.
        -- rewrite El. apply Heq2, A, Hlt1, H.
        -- rewrite Eh. apply Heq2, Bq, Hle1, H.
Qed.

(* One rounding decision covers a whole open cell of a grid that is at least
   ten times finer than the p-digit grid: if k >= 10^p, every rational strictly
   between k*10^eu and (k+1)*10^eu has the same p-digit neighbours, lies on the
   same side of their midpoint, and is on the same side of the rounded value. *)
Lemma rounds_interval d p k eu v' v r :
  1 <= p -> 10 ^ p <= k ->
  (scaled k eu < v')%Q -> (v' < scaled (k + 1) eu)%Q ->
  (scaled k eu < v)%Q -> (v < scaled (k + 1) eu)%Q ->
  RoundsDir d p v' r -> RoundsDir d p v r /\ (r ?= v)%Q = (r ?= v')%Q.
Proof.
  intros Hp Hk A1 A2 B1 B2 (M & e & [HM [H1 H2]] & Hex & Hin). cbn zeta in *.
  assert (P10 : 0 < 10 ^ p) by (apply pow10_pos; lia).
  (* the p-digit grid is coarser *)
  assert (He : eu < e).
  { destruct (Z.lt_ge_cases eu e) as [C|C]; [exact C|exfalso].
    assert (X1 : (scaled (M + 1) e <= scaled (10 ^ p) e)%Q) by (apply scaled_le_same; lia).
    assert (X2 : (scaled (10 ^ p) e <= scaled (10 ^ p) eu)%Q).
    { apply (scaled_le_gen _ _ _ _ e); try lia. rewrite Z.sub_diag, Z.pow_0_r.
      assert (0 < 10 ^ (eu - e)) by (apply pow10_pos; lia). nia. }
    assert (X3 : (scaled (10 ^ p) eu <= scaled k eu)%Q) by (apply scaled_le_same; lia).
    lra. }
  set (j := e - eu). assert (Hj : 1 <= j) by (unfold j; lia).
  assert (Pj : 0 < 10 ^ (j - 1)) by (apply pow10_pos; lia).
  assert (Ej : 10 ^ j = 10 * 10 ^ (j - 1)).
  { replace j with (1 + (j - 1)) at 1 by lia. rewrite Z.pow_add_r by lia. reflexivity. }
  assert (Es : forall a, (scaled a e == scaled (a * 10 ^ j) eu)%Q).
  { intros a. rewrite scaled_pow by lia. replace (eu + j) with e by (unfold j; lia). reflexivity. }
  assert (K1 : M * 10 ^ j <= k).
  { assert (X : (scaled (M * 10 ^ j) eu < scaled (k + 1) eu)%Q) by (rewrite <- Es; lra).
    apply scaled_lt_same in X. lia. }
  assert (K2 : k + 1 <= (M + 1) * 10 ^ j).
  { assert (X : (scaled k eu < scaled ((M + 1) * 10 ^ j) eu)%Q) by (rewrite <- Es; lra).
    apply scaled_lt_same in X. lia. }
  set (L := scaled M e) in *. set (H := scaled (M + 1) e) in *.
  set (lo := scaled k eu) in *. set (hi := scaled (k + 1) eu) in *.
  assert (L1 : (L <= lo)%Q) by (unfold L, lo; rewrite Es; apply scaled_le_same; exact K1).
  assert (L2 : (hi <= H)%Q) by (unfold H, hi; rewrite Es; apply scaled_le_same; exact K2).
  (* the midpoint is a grid point, hence not inside the cell *)
  set (m := (2 * M + 1) * 5 * 10 ^ (j - 1)).
  assert (Em : M * 10 ^ j + (M + 1) * 10 ^ j = 2 * m) by (unfold m; rewrite Ej; ring).
  assert (Mid : (L + H == scaled (2 * m) eu)%Q).
  { unfold L, H. rewrite !Es, <- scaled_add. apply scaled_eq_same. exact Em. }
  assert (Side : (L + H <= lo + lo)%Q \/ (hi + hi <= L + H)%Q).
  { destruct (Z.le_gt_cases m k) as [C|C].
    - left. rewrite Mid. unfold lo. rewrite <- scaled_double. apply scaled_le_same. lia.
    - right. rewrite Mid. unfold hi. rewrite <- scaled_double. apply scaled_le_same. lia. }
  assert (NE' : ~ (v' == L)%Q) by (intros E; lra).
  assert (NE : ~ (v == L)%Q) by (intros E; lra).
  specialize (Hin NE').
  assert (Rc : (r == L)%Q \/ (r == H)%Q).
  { destruct d; [left; exact Hin|right; exact Hin| |].
    - destruct Hin as (A & Bq & C). destruct Side as [S|S]; [right; apply Bq; lra|left; apply A; lra].
    - destruct Hin as (A & Bq). destruct Side as [S|S]; [right; apply Bq; lra|left; apply A; lra]. }
  split.
  - exists M, e. split; [split; [exact HM|fold L H; split; lra]|]. cbn zeta. fold L H.
    split; [intros E; exfalso; exact (NE E)|]. intros _.
    destruct d; [exact Hin|exact Hin| |].
    + destruct Hin as (A & Bq & C). destruct Side as [S|S].
      * assert (Er : (r == H)%Q) by (apply Bq; lra).
        repeat split; intros X; try exact Er; exfalso; lra.
      * assert (Er : (r == L)%Q) by (apply A; lra).
        repeat split; intros X; try exact Er; exfalso; lra.
    + destruct Hin as (A & Bq). destruct Side as [S|S].
      * assert (Er : (r == H)%Q) by (apply Bq; lra).
        split; intros X; try exact Er; exfalso; lra.
      * assert (Er : (r == L)%Q) by (apply A; lra).
        split; intros X; try exact Er; exfalso; lra.
  - destruct Rc as [Er|Er]; rewrite Er.
    + rewrite (Qlt_cmp L v), (Qlt_cmp L v') by lra. reflexivity.
    + rewrite (Qgt_cmp H v), (Qgt_cmp H v') by lra. reflexivity.
Qed.

(* ------------------------------------------------------------------ *)
(* from the result rule of C01 to RoundedTo, for values in range *)
Lemma result_spec_RoundedTo p md v K z' :
  1 <= p -> (scaled 1 (MinExp - 1) <= v)%Q -> (v <= scaled 1 K)%Q -> K < MaxExp ->
  result_spec p md false v z' ->
  dform z' = Ffinite /\ neg z' = false /\ RoundedTo md p v z' /\ (mag z' <= scaled 1 K)%Q.
Proof.
  intros Hp Hlo Hhi HK [Hn H].
  destruct (Qlt_le_dec v (scaled 1 (MinExp - 1))) as [C|_]; [exfalso; lra|].
  destruct H as (r & HR & H).
  pose proof (rounds_le _ p v r K Hp HR Hhi) as Hr.
  assert (HM : (scaled 1 K < scaled 1 MaxExp)%Q).
  { apply (scaled_lt_gen _ _ _ _ K); try lia. rewrite Z.sub_diag, Z.pow_0_r.
    assert (1 < 10 ^ (MaxExp - K)) by (apply Z.pow_gt_1; lia). lia. }
  destruct (Qlt_le_dec r (scaled 1 MaxExp)) as [_|C]; [|exfalso; lra].
  destruct H as (Hf & Hm & Ha). split; [exact Hf|]. split; [exact Hn|]. split.
  - split.
    + unfold Rounds in *. eapply RoundsDir_ext; [reflexivity| |exact HR]. symmetry. exact Hm.
    + rewrite Ha. apply acc_of_ext; [symmetry; exact Hm|reflexivity].
  - rewrite Hm. exact Hr.
Qed.

(* ------------------------------------------------------------------ *)
(* a value that fits the precision is stored exactly *)
Lemma exact_core p md ng v z' N x :
  1 <= p -> 1 <= N < 10 ^ p -> (v == scaled N x)%Q ->
  (scaled 1 (MinExp - 1) <= v)%Q -> (v < scaled 1 MaxExp)%Q ->
  result_spec p md ng v z' ->
  dform z' = Ffinite /\ (mag z' == v)%Q /\ acc z' = Exact /\ neg z' = ng.
Proof.
  intros Hp HN Hv L1 L2 [Hn H].
  destruct (ndig_spec N ltac:(lia)) as [Hd [Hlo Hhi]].
  assert (Hdp : ndig N <= p).
  { destruct (Z.le_gt_cases (ndig N) p); [assumption|exfalso].
    assert (10 ^ p <= 10 ^ (ndig N - 1)) by (apply Z.pow_le_mono_r; lia). lia. }
  destruct (Qlt_le_dec v (scaled 1 (MinExp - 1))) as [C|_]; [exfalso; lra|].
  destruct H as (r & HR & H).
  assert (Er : (r == v)%Q).
  { apply (RoundsDir_unique (dir_of md ng) p v); [exact Hp|exact HR|].
    eapply RoundsDir_ext; [symmetry; exact Hv|symmetry; exact Hv|].
    apply (exact_rounds _ p N (p - ndig N) x); try lia.
    replace (p - (p - ndig N) - 1) with (ndig N - 1) by lia. replace (p - (p - ndig N)) with (ndig N) by lia. lia. }
  destruct (Qlt_le_dec r (scaled 1 MaxExp)) as [_|C]; [|exfalso; lra].
  destruct H as (Hf & Hm & Ha). split; [exact Hf|]. split; [rewrite Hm; exact Er|].
  split; [|exact Hn]. rewrite Ha. unfold acc_of. rewrite (Qeq_cmp r v Er). reflexivity.
Qed.

Lemma exact_le p md ng v z' N x :
  1 <= p -> 1 <= N <= 10 ^ p -> (v == scaled N x)%Q -> MinExp <= x -> x + p < MaxExp ->
  result_spec p md ng v z' ->
  dform z' = Ffinite /\ (mag z' == v)%Q /\ acc z' = Exact /\ neg z' = ng.
Proof.
  intros Hp HN Hv Hx1 Hx2 H.
  assert (P10 : 1 < 10 ^ p) by (apply Z.pow_gt_1; lia).
  assert (L1 : (scaled 1 (MinExp - 1) <= v)%Q).
  { rewrite Hv. apply Qle_trans with (scaled 1 x); [apply scaled1_le; lia|apply scaled_le_same; lia]. }
  assert (L2 : (v < scaled 1 MaxExp)%Q).
  { rewrite Hv. apply Qle_lt_trans with (scaled (10 ^ p) x); [apply scaled_le_same; lia|].
    rewrite scaled_pow10 by lia. apply (scaled_lt_gen _ _ _ _ (x + p)); try lia.
    rewrite Z.sub_diag, Z.pow_0_r. assert (1 < 10 ^ (MaxExp - (x + p))) by (apply Z.pow_gt_1; lia). lia. }
  destruct (Z.eq_dec N (10 ^ p)) as [E|E].
  - apply (exact_core p md ng v z' 1 (x + p)); try assumption; try lia.
    rewrite Hv, E. apply scaled_pow10. lia.
  - apply (exact_core p md ng v z' N x); try assumption; lia.
Qed.

(* ------------------------------------------------------------------ *)
(* NewDecimal(1, e) and NewDecimal(5, e) in closed form *)
Lemma dnorm_1 : dnorm (of_Z 1) = Some ([1000000000000000000], 18).
Proof. vm_compute. reflexivity. Qed.
Lemma dnorm_5 : dnorm (of_Z 5) = Some ([5000000000000000000], 18).
Proof. vm_compute. reflexivity. Qed.

Lemma clampExp_small e : MinExp <= e + 1 <= MaxExp -> clampExp e = e.
Proof.
  intros He. destruct (clampExp_spec e) as [[Ec _]|[[Hr _]|[Hr _]]];
    [exact Ec|unfold MinExp, MaxExp in *; lia|unfold MinExp, MaxExp in *; lia].
Qed.

Lemma NewDecimal_1 e : MinExp <= e + 1 <= MaxExp ->
  NewDecimal 1 e = OkR (mkDec [1000000000000000000] (e + 1) 34 ToNearestEven Exact Ffinite false).
Proof.
  intros He. unfold NewDecimal, setBits64.
  change (int64_abs_as_u64 1) with 1. change (1 =? 0) with false. change (1 <? 0) with false. cbv iota.
  rewrite dnorm_1. change (prec dec_zero =? 0) with true. cbv iota.
  rewrite (clampExp_small e He). change (zlen [1000000000000000000]) with 1.
  replace (e + 1 * DW - 18) with (e + 1) by (cbv [DW]; lia).
  unfold setExpAndRound.
  destruct (Z.ltb_spec (e + 1) MinExp); [lia|]. destruct (Z.ltb_spec MaxExp (e + 1)); [lia|].
  rewrite i32_small by lia. unfold round. cbn. reflexivity.
Qed.

Lemma NewDecimal_5 e : MinExp <= e + 1 <= MaxExp ->
  NewDecimal 5 e = OkR (mkDec [5000000000000000000] (e + 1) 34 ToNearestEven Exact Ffinite false).
Proof.
  intros He. unfold NewDecimal, setBits64.
  change (int64_abs_as_u64 5) with 5. change (5 =? 0) with false. change (5 <? 0) with false. cbv iota.
  rewrite dnorm_5. change (prec dec_zero =? 0) with true. cbv iota.
  rewrite (clampExp_small e He). change (zlen [5000000000000000000]) with 1.
  replace (e + 1 * DW - 18) with (e + 1) by (cbv [DW]; lia).
  unfold setExpAndRound.
  destruct (Z.ltb_spec (e + 1) MinExp); [lia|]. destruct (Z.ltb_spec MaxExp (e + 1)); [lia|].
  rewrite i32_small by lia. unfold round. cbn. reflexivity.
Qed.

(* a one-word constant c * 10^18 (c a non-zero digit) at exponent e + 1 *)
Definition dconst (c e : Z) : Dec :=
  mkDec [c * 1000000000000000000] (e + 1) 34 ToNearestEven Exact Ffinite false.

Lemma dconst_facts c e : 1 <= c <= 9 -> MinExp <= e + 1 <= MaxExp ->
  WF (dconst c e) /\ dform (dconst c e) = Ffinite /\ neg (dconst c e) = false /\
  (mag (dconst c e) == scaled c e)%Q /\ mdigits (mant (dconst c e)) = 19 /\ exp (dconst c e) = e + 1.
Proof.
  intros Hc He. unfold dconst.
  assert (Hw : 0 <= c * 1000000000000000000 < B) by (rewrite B_eq; change (10 ^ 19) with 10000000000000000000; lia).
  split.
  - apply WF_intro; cbn [dform mant prec exp]; try reflexivity; try discriminate; try lia.
    + cbn [words_ok forallb]. unfold word_ok.
      replace (0 <=? c * 1000000000000000000) with true by (symmetry; apply Z.leb_le; lia).
      replace (c * 1000000000000000000 <? B) with true by (symmetry; apply Z.ltb_lt; lia). reflexivity.
    + unfold last_word. cbn [last]. rewrite B_eq. change (10 ^ 19 / 10) with 1000000000000000000. lia.
    + unfold MaxPrec. lia.
    + left. unfold mdigits. change (zlen [c * 1000000000000000000]) with 1. cbv [DW]. lia.
  - repeat split; try reflexivity.
    unfold mag. cbn [mant exp]. unfold mdigits. change (zlen [c * 1000000000000000000]) with 1.
    replace (val [c * 1000000000000000000]) with (c * 10 ^ 18) by (cbn [val]; change (10 ^ 18) with 1000000000000000000; lia).
    rewrite scaled_pow by lia. replace (e + 1 - DW * 1 + 18) with e by (cbv [DW]; lia). reflexivity.
Qed.

(* ------------------------------------------------------------------ *)
(* finite results of setExpAndRound / Add / Sub / Set are not longer than the
   precision plus a word *)
Lemma setExpAndRound_finite_len z e sb z' :
  1 <= prec z <= MaxPrec - 18 -> 19 * zlen (mant z) < 4294967296 ->
  setExpAndRound z e sb = Some z' -> dform z' = Ffinite -> mdigits (mant z') <= prec z + 18.
Proof.
  intros Hp Hl H Hf. unfold setExpAndRound in H.
  destruct (e <? MinExp). { injection H as <-. cbn in Hf. discriminate. }
  destruct (MaxExp <? e). { injection H as <-. cbn in Hf. discriminate. }
  apply round_len in H; try assumption. apply H.
Qed.

Lemma norm_round_len z S b D z' :
  0 < S < 10 ^ D -> 0 <= D -> D + 19 < 4294967296 -> 1 <= prec z <= MaxPrec - 18 ->
  match dnorm (of_Z S) with
  | None => None
  | Some (m', s) => setExpAndRound (with_mant z m') (b + zlen m' * DW - s) 0
  end = Some z' ->
  dform z' = Ffinite -> mdigits (mant z') <= prec z + 18.
Proof.
  intros HS HD HDl Hp H Hf.
  destruct (dnorm (of_Z S)) as [[m' s]|] eqn:Ed; [|discriminate].
  pose proof (dnorm_zlen _ _ _ Ed) as Hlen.
  pose proof (zlen_of_Z_bound S D HS HD) as Hz.
  apply (setExpAndRound_finite_len (with_mant z m') (b + zlen m' * DW - s) 0 z' Hp); [|exact H|exact Hf].
  cbn [mant with_mant]. rewrite Hlen. lia.
Qed.

Lemma uadd_len z x y w : WFfin x -> WFfin y -> 1 <= prec z <= MaxPrec - 18 ->
  add_span x y + 40 < 4294967296 - 18 ->
  uadd z x y = Some w -> dform w = Ffinite -> mdigits (mant w) <= prec z + 18.
Proof.
  intros Hx Hy Hp Hsp H Hf. unfold uadd in H.
  pose proof (align_cases x y Hx Hy) as HA. cbn zeta in HA.
  pose proof (alX_pos x y Hx) as PX. pose proof (alY_pos x y Hy) as PY.
  pose proof (al_bounds x y Hx Hy) as [BX BY]. pose proof (span_le x y) as HS.
  set (ex := exp x - zlen (mant x) * DW) in *. set (ey := exp y - zlen (mant y) * DW) in *.
  assert (Hspan0 : 0 <= span x y).
  { unfold span. destruct (WFfin_len x Hx) as [Hlx HLx]. lia. }
  assert (E : (let '(m, ex0) :=
             if ex <? ey then (dec_add (mant x) (dec_shl (mant y) (ey - ex)), ex)
             else if ey <? ex then (dec_add (dec_shl (mant x) (ex - ey)) (mant y), ey)
             else (dec_add (mant x) (mant y), ex) in
           match dnorm m with
           | None => None
           | Some (m', s) => setExpAndRound (with_mant z m') (ex0 + zlen m' * DW - s) 0
           end) =
          match dnorm (of_Z (alX x y + alY x y)) with
          | None => None
          | Some (m', s) => setExpAndRound (with_mant z m')
              (Z.min (exp x - mdigits (mant x)) (exp y - mdigits (mant y)) + zlen m' * DW - s) 0
          end).
  { unfold dec_add. destruct (ex <? ey); [|destruct (ey <? ex)]; injection HA as E1 E2 E3; rewrite E1, E2, E3; reflexivity. }
  rewrite E in H.
  apply (norm_round_len z (alX x y + alY x y) (Z.min (exp x - mdigits (mant x)) (exp y - mdigits (mant y))) (span x y + 1) w); try assumption; try lia.
  split; [lia|]. rewrite Z.pow_add_r by lia. lia.
Qed.

Lemma usub_len z x y w : WFfin x -> WFfin y -> 1 <= prec z <= MaxPrec - 18 ->
  add_span x y + 40 < 4294967296 - 18 ->
  usub z x y = Some w -> dform w = Ffinite -> mdigits (mant w) <= prec z + 18.
Proof.
  intros Hx Hy Hp Hsp H Hf. unfold usub in H.
  pose proof (align_cases x y Hx Hy) as HA. cbn zeta in HA.
  pose proof (alX_pos x y Hx) as PX. pose proof (alY_pos x y Hy) as PY.
  pose proof (al_bounds x y Hx Hy) as [BX BY]. pose proof (span_le x y) as HS.
  set (ex := exp x - zlen (mant x) * DW) in *. set (ey := exp y - zlen (mant y) * DW) in *.
  assert (Hspan0 : 0 <= span x y).
  { unfold span. destruct (WFfin_len x Hx) as [Hlx HLx]. lia. }
  set (b := Z.min (exp x - mdigits (mant x)) (exp y - mdigits (mant y))) in *.
  assert (E : (if ex <? ey then (dec_sub_chk (mant x) (dec_shl (mant y) (ey - ex)), ex)
               else if ey <? ex then (dec_sub_chk (dec_shl (mant x) (ex - ey)) (mant y), ey)
               else (dec_sub_chk (mant x) (mant y), ex)) =
              (if alX x y <? alY x y then None else Some (of_Z (alX x y - alY x y)), b)).
  { unfold dec_sub_chk, dec_sub.
    destruct (ex <? ey); [|destruct (ey <? ex)]; injection HA as E1 E2 E3; rewrite E1, E2, E3; reflexivity. }
  rewrite E in H.
  destruct (Z.ltb_spec (alX x y) (alY x y)) as [C|C]; [discriminate|].
  destruct (Z.eq_dec (alX x y) (alY x y)) as [Q|Q].
  - rewrite Q, Z.sub_diag in H. change (of_Z 0) with (@nil Z) in H. injection H as <-. cbn in Hf. discriminate.
  - destruct (of_Z_pos_facts (alX x y - alY x y) ltac:(lia)) as (Hok & Hne & Hlast & Hval).
    destruct (of_Z (alX x y - alY x y)) as [|w0 r0] eqn:Eo; [congruence|]. rewrite <- Eo in H.
    apply (norm_round_len z (alX x y - alY x y) b (span x y) w); try assumption; lia.
Qed.

Lemma fix_zero_sign_mant z : mant (fix_zero_sign z) = mant z /\ dform (fix_zero_sign z) = dform z.
Proof. unfold fix_zero_sign. destruct (_ && _); split; reflexivity. Qed.

Lemma Add_finite_len zx zy z x y z' :
  WF x -> WF y -> dform x = Ffinite -> dform y = Ffinite -> 1 <= prec z <= MaxPrec - 18 ->
  add_span x y + 40 < 4294967296 - 18 ->
  L3.Arith.Add zx zy z x y = OkR z' -> dform z' = Ffinite -> mdigits (mant z') <= prec z + 18.
Proof.
  intros Wx Wy Fx Fy Pz Hsp H Hf.
  pose proof (WF_finite x Wx Fx) as Hx. pose proof (WF_finite y Wy Fy) as Hy.
  assert (Hsp' : add_span y x + 40 < 4294967296 - 18) by (unfold add_span in *; lia).
  unfold L3.Arith.Add in H. rewrite Fx, Fy in H.
  replace (prec z =? 0) with false in H by (symmetry; apply Z.eqb_neq; lia).
  match type of H with match ?r with None => _ | Some _ => _ end = _ => destruct r as [w|] eqn:Er; [|discriminate] end.
  injection H as <-. destruct (fix_zero_sign_mant w) as [Em Ef]. rewrite Em. rewrite Ef in Hf.
  destruct (Bool.eqb (neg x) (neg y)).
  - apply (uadd_len _ x y w Hx Hy) in Er; auto.
  - destruct (0 <? ucmp x y).
    + apply (usub_len _ x y w Hx Hy) in Er; auto.
    + apply (usub_len _ y x w Hy Hx) in Er; auto.
Qed.

Lemma Sub_finite_len zx zy z x y z' :
  WF x -> WF y -> dform x = Ffinite -> dform y = Ffinite -> 1 <= prec z <= MaxPrec - 18 ->
  add_span x y + 40 < 4294967296 - 18 ->
  Sub zx zy z x y = OkR z' -> dform z' = Ffinite -> mdigits (mant z') <= prec z + 18.
Proof.
  intros Wx Wy Fx Fy Pz Hsp H Hf. rewrite Sub_finite_eq in H by assumption.
  apply (Add_finite_len zx zy z x (with_neg y (negb (neg y))) z'); assumption.
Qed.

Lemma Set_finite_len z t z' :
  dform t = Ffinite -> 1 <= prec z <= MaxPrec - 18 -> prec z < prec t -> mdigits (mant t) < 4294967296 ->
  Set_ false z t = OkR z' -> dform z' = Ffinite -> mdigits (mant z') <= prec z + 18.
Proof.
  intros Ft Pz Hlt Hl H Hf. unfold Set_ in H. rewrite Ft in H.
  cbn [prec with_neg with_form with_acc with_mant with_exp] in H.
  replace (prec z =? 0) with false in H by (symmetry; apply Z.eqb_neq; lia).
  replace (prec z <? prec t) with true in H by (symmetry; apply Z.ltb_lt; lia).
  unfold of_opt in H.
  match type of H with match round ?zz 0 with _ => _ end = _ => destruct (round zz 0) as [w|] eqn:Er; [|discriminate];
    set (ZZ := zz) in * end.
  injection H as <-.
  apply (round_len ZZ 0 w) in Er; try assumption; try (unfold ZZ; cbn [prec mant with_neg with_form with_acc with_mant with_exp]).
  apply Er.
Qed.

Lemma SetPrec_len z p r : SetPrec z p = OkR r -> zlen (mant r) <= zlen (mant z).
Proof.
  unfold SetPrec. destruct (p =? 0).
  - cbn [dform with_prec with_acc]. destruct (dform z); intros H; injection H as <-; cbn; lia.
  - cbn [prec with_acc with_prec]. destruct (_ <? prec z).
    + unfold of_opt. destruct (round _ 0) as [w|] eqn:Er; [|discriminate]. intros H; injection H as <-.
      apply ConvProofs2.round_len in Er. exact Er.
    + intros H; injection H as <-. cbn. lia.
Qed.
