(* L3/FmaProofs.v — FMA computes x*y+u with a single rounding (C03). *)
From Coq Require Import ZArith List Bool Lia QArith Qabs Lqa.
From Dec Require Import Base.Words Base.WordsProofs Base.QPow L3.Decimal L3.Cmp L3.CmpProofs
  L3.Round L3.Arith Spec.Rounding Spec.RoundingFacts L3.RoundProofs L3.ArithProofs L3.SpecialProofs.
Open Scope Z_scope.

(* an integer with at most p digits is its own rounding at precision p *)
Lemma int_rounds d p N x : 1 <= p -> 0 < N < 10 ^ p -> RoundsDir d p (scaled N x) (scaled N x).
Proof.
  intros Hp [H0 Hlt].
  destruct (ndig_spec N H0) as [Hd [Hl Hh]].
  assert (Hdp : ndig N <= p).
  { destruct (Z.le_gt_cases (ndig N) p) as [C|C]; [exact C|exfalso].
    assert (10 ^ p <= 10 ^ (ndig N - 1)) by (apply Z.pow_le_mono_r; lia). lia. }
  apply (exact_rounds d p N (p - ndig N) x); try lia.
  replace (p - (p - ndig N) - 1) with (ndig N - 1) by lia. replace (p - (p - ndig N)) with (ndig N) by lia. lia.
Qed.

(* if the exact value is representable and in range, the specification forces the exact value *)
Lemma result_spec_exact p md ng v z : 1 <= p ->
  result_spec p md ng v z -> (scaled 1 (MinExp - 1) <= v)%Q -> (v < scaled 1 MaxExp)%Q ->
  RoundsDir (dir_of md ng) p v v ->
  dform z = Ffinite /\ (mag z == v)%Q /\ acc z = Exact /\ neg z = ng.
Proof.
  intros Hp [Hn H] Hlo Hhi Hrep.
  destruct (Qlt_le_dec v (scaled 1 (MinExp - 1))) as [C|_]; [lra|].
  destruct H as (r & HR & Hr).
  assert (Er : (r == v)%Q) by (eapply RoundsDir_unique; [exact Hp|exact HR|exact Hrep]).
  destruct (Qlt_le_dec r (scaled 1 MaxExp)) as [_|C]; [|lra].
  destruct Hr as (Hf & Hm & Ha). repeat split; try assumption.
  - rewrite Hm. exact Er.
  - rewrite Ha. unfold acc_of. now rewrite (Qeq_cmp r v Er).
Qed.

Lemma AddPost_ext p md q q' r : (q == q')%Q -> AddPost p md q r -> AddPost p md q' r.
Proof.
  intros E (z' & E1 & Hp & Hm & W & H0 & H1). exists z'. repeat (split; [assumption|]). split.
  - intros C. apply H0. now rewrite E.
  - intros C. assert (C' : ~ (q == 0)%Q) by (now rewrite E).
    specialize (H1 C').
    assert (Eq : qneg q = qneg q').
    { unfold qneg. destruct (Qlt_le_dec q 0), (Qlt_le_dec q' 0); try reflexivity; exfalso; rewrite E in *; lra. }
    rewrite <- Eq. eapply result_spec_ext; [|exact H1]. now rewrite E.
Qed.

(* Add does not look at the precision of its first operand unless the receiver's is 0 *)
Lemma Add_prec_x_irrelevant zx zy z x y p' : prec z <> 0 -> dform x = Ffinite -> dform y = Ffinite ->
  Add zx zy z (with_prec x p') y = Add zx zy z x y.
Proof.
  intros Hp Fx Fy. unfold Add. cbn [prec dform neg with_prec]. rewrite Fx, Fy.
  destruct (Z.eqb_spec (prec z) 0); [contradiction|]. reflexivity.
Qed.

Definition eff_prec3 (z x y u : Dec) : Z :=
  if prec z =? 0 then umax32 (umax32 (prec x) (prec y)) (prec u) else prec z.

(* the exact product at a precision that holds all its digits: lx+ly words, exponent
   exp x + exp y minus the normalisation shift *)
Lemma umul_shape z x y zP :
  WFfin x -> WFfin y -> mdigits (mant x) + mdigits (mant y) < 4294967296 - 18 ->
  mdigits (mant x) + mdigits (mant y) <= prec z ->
  umul z x y = Some zP -> dform zP = Ffinite ->
  mdigits (mant zP) = mdigits (mant x) + mdigits (mant y) /\
  exp x + exp y - 18 <= exp zP <= exp x + exp y.
Proof.
  intros Hx Hy Hlen Hp.
  pose proof (WFfin_val_bounds x Hx) as HNx. pose proof (WFfin_val_bounds y Hy) as HNy.
  destruct (WFfin_len x Hx) as [Hlx HLx]. destruct (WFfin_len y Hy) as [Hly HLy].
  unfold umul.
  set (Nx := val (mant x)) in *. set (Ny := val (mant y)) in *.
  set (Lx := mdigits (mant x)) in *. set (Ly := mdigits (mant y)) in *.
  assert (HNx0 : 0 < Nx) by (assert (0 < 10 ^ (Lx - 1)) by (apply pow10_pos; lia); lia).
  assert (HNy0 : 0 < Ny) by (assert (0 < 10 ^ (Ly - 1)) by (apply pow10_pos; lia); lia).
  unfold dec_mul. fold Nx Ny.
  destruct (of_Z_pos_facts (Nx * Ny) ltac:(nia)) as (Hok & Hne & Hlast & Hval).
  assert (Hzl : zlen (of_Z (Nx * Ny)) = zlen (mant x) + zlen (mant y)).
  { apply zlen_of_Z; [lia|].
    rewrite <- !pow10_19 by lia.
    assert (0 < 10 ^ (Lx - 1)) by (apply pow10_pos; lia). assert (0 < 10 ^ (Ly - 1)) by (apply pow10_pos; lia).
    split.
    - apply Z.le_trans with (10 ^ (Lx - 1) * 10 ^ (Ly - 1)); [|nia].
      rewrite <- Z.pow_add_r by lia. apply Z.pow_le_mono_r; lia.
    - replace (19 * (zlen (mant x) + zlen (mant y))) with (Lx + Ly) by lia.
      rewrite Z.pow_add_r by lia. nia. }
  destruct (dnorm_spec _ Hok Hne Hlast) as (m' & sh & Ed & Hsh & Vm' & Lm' & Okm' & Nem' & Topm').
  rewrite Ed.
  assert (Hmd : mdigits m' = Lx + Ly) by (unfold mdigits; rewrite Lm', Hzl; cbv [DW]; lia).
  clear Hok Hne Hlast Hval Vm' Ed HNx HNy HNx0 HNy0.
  unfold setExpAndRound.
  destruct (Z.ltb_spec (exp x + exp y - sh) MinExp); [intros E; injection E as <-; cbn [dform with_form]; discriminate|].
  destruct (Z.ltb_spec MaxExp (exp x + exp y - sh)); [intros E; injection E as <-; cbn [dform with_form]; discriminate|].
  unfold round. cbn [dform with_acc with_exp with_form with_mant mant prec].
  assert (E1 : u32 (zlen m') = zlen m').
  { unfold u32. apply Z.mod_small. unfold mdigits in Hmd. cbv [DW] in Hmd. pose proof (zlen_nonneg m'). lia. }
  assert (E2 : u32 (zlen m' * DW) = Lx + Ly).
  { unfold u32. rewrite Z.mod_small; [unfold mdigits in Hmd; lia|]. unfold mdigits in Hmd. cbv [DW] in *. pose proof (zlen_nonneg m'). lia. }
  rewrite E1, E2.
  destruct (Z.leb_spec (Lx + Ly) (prec z)); [|lia].
  intros E _. injection E as <-. cbn [mant exp with_acc with_exp with_form with_mant].
  split; [exact Hmd|]. rewrite i32_small by lia. lia.
Qed.

Definition fma_span (x y u : Dec) : Z :=
  Z.max (mdigits (mant x) + mdigits (mant y)) (mdigits (mant u)) +
  Z.abs ((exp x + exp y - (mdigits (mant x) + mdigits (mant y))) - (exp u - mdigits (mant u))).


(* a concrete sufficient condition for the two range hypotheses of FMA_correct *)
Lemma scaled1_mono a b : a <= b -> (scaled 1 a <= scaled 1 b)%Q.
Proof.
  intros H. apply (scaled_le_gen 1 a 1 b a); try lia. rewrite Z.sub_diag, Z.pow_0_r.
  assert (0 < 10 ^ (b - a)) by (apply pow10_pos; lia). lia.
Qed.

Lemma FMA_range_sufficient x y : WF x -> WF y -> dform x = Ffinite -> dform y = Ffinite ->
  MinExp + 1 <= exp x + exp y <= MaxExp ->
  (scaled 1 (MinExp - 1) <= mag x * mag y)%Q /\ (mag x * mag y < scaled 1 MaxExp)%Q.
Proof.
  intros Wx Wy Fx Fy He. pose proof (WF_finite x Wx Fx) as Hx. pose proof (WF_finite y Wy Fy) as Hy.
  destruct (mag_bounds x Hx) as [Lx Ux]. destruct (mag_bounds y Hy) as [Ly Uy].
  assert (P1 : (0 < scaled 1 (exp x - 1))%Q) by (apply scaled_pos; lia).
  assert (P2 : (0 < scaled 1 (exp y - 1))%Q) by (apply scaled_pos; lia).
  assert (P3 : (0 < mag x)%Q) by (apply Qlt_le_trans with (scaled 1 (exp x - 1)); assumption).
  assert (P4 : (0 < scaled 1 (exp y))%Q) by (apply scaled_pos; lia).
  split.
  - apply Qle_trans with (scaled 1 (exp x - 1) * scaled 1 (exp y - 1))%Q.
    + rewrite scaled_mul, Z.mul_1_l. apply scaled1_mono. lia.
    + apply Qmult_le_compat_nonneg; split; try assumption; apply Qlt_le_weak; assumption.
  - apply Qlt_le_trans with (scaled 1 (exp x) * scaled 1 (exp y))%Q.
    + apply Qle_lt_trans with (mag x * scaled 1 (exp y))%Q.
      * apply Qmult_le_l; [exact P3|apply Qlt_le_weak; exact Uy].
      * apply Qmult_lt_r; [exact P4|exact Ux].
    + rewrite scaled_mul, Z.mul_1_l. apply scaled1_mono. lia.
Qed.

(* FMA on finite operands with u <> 0, when the exact product's magnitude lies
   in the finite range (otherwise: known finding K3) *)
Theorem FMA_correct zu z x y u :
  WF x -> WF y -> WF u -> dform x = Ffinite -> dform y = Ffinite -> dform u = Ffinite ->
  0 <= prec z <= MaxPrec -> (zu = true -> z = u) ->
  mdigits (mant x) + mdigits (mant y) < 4294967296 - 18 ->
  (scaled 1 (MinExp - 1) <= mag x * mag y)%Q -> (mag x * mag y < scaled 1 MaxExp)%Q ->
  fma_span x y u + 58 < 4294967296 - 18 ->
  AddPost (eff_prec3 z x y u) (dmode z)
          ((if xorb (neg x) (neg y) then - (mag x * mag y) else mag x * mag y) + sval u)
          (FMA zu z x y u).
Proof.
  intros Wx Wy Wu Fx Fy Fu Pz Hzu Hlen Hlo Hhi Hspan.
  pose proof (WF_finite x Wx Fx) as Hx. pose proof (WF_finite y Wy Fy) as Hy. pose proof (WF_finite u Wu Fu) as Hu.
  pose proof Hx as [_ _ _ Hpx _ _]. pose proof Hy as [_ _ _ Hpy _ _]. pose proof Hu as [_ _ _ Hpu _ _].
  pose proof (WFfin_val_bounds x Hx) as HNx. pose proof (WFfin_val_bounds y Hy) as HNy.
  destruct (WFfin_len x Hx) as [Hlx HLx]. destruct (WFfin_len y Hy) as [Hly HLy].
  unfold FMA. rewrite Fu, Fx, Fy.
  set (p := eff_prec3 z x y u).
  assert (Hpe : 1 <= p <= MaxPrec).
  { unfold p, eff_prec3. rewrite !umax32_spec. destruct (Z.eqb_spec (prec z) 0); lia. }
  set (z1 := if prec z =? 0 then with_prec z (umax32 (umax32 (prec x) (prec y)) (prec u)) else z).
  assert (Hp1 : prec z1 = p) by (unfold z1, p, eff_prec3; destruct (prec z =? 0); reflexivity).
  assert (Hm1 : dmode z1 = dmode z) by (unfold z1; destruct (prec z =? 0); reflexivity).
  set (ng := xorb (neg x) (neg y)).
  set (z0 := with_neg (if zu then mkDec [] 0 (prec z1) (dmode z1) Exact Fzero false else z1) ng).
  assert (Hp0 : prec z0 = p) by (unfold z0; destruct zu; cbn [prec with_neg]; assumption).
  assert (Hm0 : dmode z0 = dmode z) by (unfold z0; destruct zu; cbn [dmode with_neg]; assumption).
  (* the product at MaxPrec, through Mul_correct *)
  set (zM := with_prec z0 MaxPrec).
  assert (PM : 0 <= prec zM <= MaxPrec) by (cbn; unfold MaxPrec; lia).
  pose proof (Mul_correct zM x y Wx Wy Fx Fy PM Hlen) as HMul.
  assert (EM : eff_prec zM x y = MaxPrec) by (unfold eff_prec; cbn [prec zM with_prec]; unfold MaxPrec; reflexivity).
  rewrite EM in HMul.
  assert (EMul : Mul zM x y = of_opt (umul zM x y)).
  { unfold Mul. rewrite Fx, Fy. cbn [prec zM with_prec]. unfold MaxPrec at 1. cbn [Z.eqb].
    unfold zM, z0. destruct zu; reflexivity. }
  rewrite EMul in HMul. destruct HMul as (zP & EP & HSP & HpP & HmP & WP).
  destruct (umul zM x y) as [zP'|] eqn:EU; [|discriminate]. cbn [of_opt] in EP. injection EP as ->.
  (* the product is exact *)
  set (Nx := val (mant x)) in *. set (Ny := val (mant y)) in *.
  set (Lx := mdigits (mant x)) in *. set (Ly := mdigits (mant y)) in *.
  assert (HNx0 : 0 < Nx) by (assert (0 < 10 ^ (Lx - 1)) by (apply pow10_pos; lia); lia).
  assert (HNy0 : 0 < Ny) by (assert (0 < 10 ^ (Ly - 1)) by (apply pow10_pos; lia); lia).
  assert (Hprod : (mag x * mag y == scaled (Nx * Ny) (exp x - Lx + (exp y - Ly)))%Q) by (unfold mag; apply scaled_mul).
  assert (Hrep : RoundsDir (dir_of (dmode zM) ng) MaxPrec (mag x * mag y) (mag x * mag y)).
  { eapply RoundsDir_ext; [symmetry; exact Hprod|symmetry; exact Hprod|].
    apply int_rounds; [unfold MaxPrec; lia|]. split; [nia|].
    apply Z.lt_le_trans with (10 ^ (Lx + Ly)); [rewrite Z.pow_add_r by lia; nia|].
    apply Z.pow_le_mono_r; unfold MaxPrec; lia. }
  destruct (result_spec_exact MaxPrec (dmode zM) ng (mag x * mag y) zP ltac:(unfold MaxPrec; lia) HSP Hlo Hhi Hrep)
    as (FP & MP & AP & NP).
  (* FMA = Add on the product *)
  set (zPp := with_prec zP (prec z0)).
  assert (Hrecv : prec (if zu then z1 else zPp) <> 0).
  { destruct zu; [rewrite Hp1|unfold zPp; cbn [prec with_prec]; rewrite Hp0]; lia. }
  change (Add (negb zu) zu (if zu then z1 else zPp) zPp u) with (Add (negb zu) zu (if zu then z1 else zPp) (with_prec zP (prec z0)) u).
  rewrite (Add_prec_x_irrelevant (negb zu) zu (if zu then z1 else zPp) zP u (prec z0) Hrecv FP Fu).
  assert (Hsp : add_span zP u + 40 < 4294967296 - 18).
  { destruct (umul_shape zM x y zP Hx Hy Hlen ltac:(cbn [prec zM with_prec]; unfold MaxPrec; lia) EU FP) as [Hmd Hex].
    unfold add_span. rewrite Hmd. unfold fma_span in Hspan. clear - Hspan Hex. lia. }
  assert (Precv : 0 <= prec (if zu then z1 else zPp) <= MaxPrec).
  { destruct zu; [rewrite Hp1|unfold zPp; cbn [prec with_prec]; rewrite Hp0]; lia. }
  pose proof (Add_correct (negb zu) zu (if zu then z1 else zPp) zP u WP Wu FP Fu Precv Hsp) as HA.
  assert (Eeff : eff_prec (if zu then z1 else zPp) zP u = p).
  { unfold eff_prec. destruct (Z.eqb_spec (prec (if zu then z1 else zPp)) 0); [contradiction|].
    destruct zu; [exact Hp1|unfold zPp; cbn [prec with_prec]; exact Hp0]. }
  assert (Emd : dmode (if zu then z1 else zPp) = dmode z).
  { destruct zu; [exact Hm1|]. unfold zPp. cbn [dmode with_prec]. rewrite HmP. unfold zM. cbn [dmode with_prec]. exact Hm0. }
  rewrite Eeff, Emd in HA.
  eapply AddPost_ext; [|exact HA].
  unfold sval at 1. rewrite NP. unfold ng. destruct (xorb (neg x) (neg y)); rewrite MP; reflexivity.
Qed.

(* FMA(x, y, +-0) with finite non-zero x, y: the rounded product (the sign of the zero addend
   only matters for an exactly zero product) *)
Theorem FMA_zero_addend zu z x y u :
  WF x -> WF y -> dform x = Ffinite -> dform y = Ffinite -> dform u = Fzero ->
  0 <= prec z <= MaxPrec -> 0 <= prec u <= MaxPrec ->
  mdigits (mant x) + mdigits (mant y) < 4294967296 - 18 ->
  OpPost (eff_prec3 z x y u) (dmode z) (xorb (neg x) (neg y)) (mag x * mag y) (FMA zu z x y u).
Proof.
  intros Wx Wy Fx Fy Fu Pz Pu Hlen.
  pose proof (WF_finite x Wx Fx) as [_ _ _ Hpx _ _]. pose proof (WF_finite y Wy Fy) as [_ _ _ Hpy _ _].
  unfold FMA. rewrite Fu.
  set (z1 := if prec z =? 0 then with_prec z (umax32 (umax32 (prec x) (prec y)) (prec u)) else z).
  assert (Hp1 : prec z1 = eff_prec3 z x y u) by (unfold z1, eff_prec3; destruct (prec z =? 0); reflexivity).
  assert (Hm1 : dmode z1 = dmode z) by (unfold z1; destruct (prec z =? 0); reflexivity).
  assert (Pz1 : 1 <= prec z1 <= MaxPrec).
  { rewrite Hp1. unfold eff_prec3. rewrite !umax32_spec. destruct (Z.eqb_spec (prec z) 0); lia. }
  pose proof (Mul_correct z1 x y Wx Wy Fx Fy ltac:(lia) Hlen) as HM.
  assert (Ee : eff_prec z1 x y = prec z1) by (unfold eff_prec; destruct (Z.eqb_spec (prec z1) 0); [lia|reflexivity]).
  rewrite Ee, Hp1, Hm1 in HM. destruct HM as (z' & E & HS & R). rewrite E.
  assert (Hfix : form_eqb (dform z') Fzero && acc_eqb (acc z') Exact = false).
  { destruct HS as [_ H]. destruct (Qlt_le_dec (mag x * mag y) (scaled 1 (MinExp - 1))).
    - destruct H as [Hf Ha]. rewrite Hf, Ha. destruct (xorb (neg x) (neg y)); reflexivity.
    - destruct H as (r & _ & Hr). destruct (Qlt_le_dec r (scaled 1 MaxExp)); destruct Hr as (Hf & _); rewrite Hf; reflexivity. }
  rewrite Hfix. cbn [andb]. exists z'. split; [reflexivity|]. split; [exact HS|exact R].
Qed.
