(* L3/SpecialProofs.v — zeros, infinities and invalid operations (C04). *)
From Coq Require Import ZArith List Bool Lia QArith.
From Dec Require Import Base.Words Base.WordsProofs Base.QPow L3.Decimal L3.Cmp L3.CmpProofs
  L3.Round L3.Arith Spec.Rounding Spec.RoundingFacts L3.RoundProofs L3.ArithProofs.
Open Scope Z_scope.

(* what IEEE 754 prescribes when at least one operand is not finite non-zero *)
Inductive sres :=
| SNaN                              (* invalid operation *)
| SVal (f : form) (ng : bool)       (* an exact zero or infinity of that sign *)
| SCopyX | SCopyY                   (* the finite operand x / y, rounded (C01_set) *)
| SNegY                             (* -y rounded with its own sign *)
| SFinite.                          (* both finite: the C01 theorems apply *)

Definition zero_sum_sign (md : mode) (nx ny : bool) : bool :=
  if Bool.eqb nx ny then nx else mode_eqb md ToNegativeInf.

Definition add_table (md : mode) (x y : Dec) : sres :=
  match dform x, dform y with
  | Ffinite, Ffinite => SFinite
  | Finf, Finf => if Bool.eqb (neg x) (neg y) then SVal Finf (neg x) else SNaN
  | Finf, _ => SVal Finf (neg x)
  | _, Finf => SVal Finf (neg y)
  | Fzero, Fzero => SVal Fzero (zero_sum_sign md (neg x) (neg y))
  | Ffinite, Fzero => SCopyX
  | Fzero, Ffinite => SCopyY
  end.

Definition sub_table (md : mode) (x y : Dec) : sres :=
  match dform x, dform y with
  | Ffinite, Ffinite => SFinite
  | Finf, Finf => if Bool.eqb (neg x) (neg y) then SNaN else SVal Finf (neg x)
  | Finf, _ => SVal Finf (neg x)
  | _, Finf => SVal Finf (negb (neg y))
  | Fzero, Fzero => SVal Fzero (zero_sum_sign md (neg x) (negb (neg y)))
  | Ffinite, Fzero => SCopyX
  | Fzero, Ffinite => SNegY
  end.

Definition mul_table (x y : Dec) : sres :=
  match dform x, dform y with
  | Ffinite, Ffinite => SFinite
  | Fzero, Finf | Finf, Fzero => SNaN
  | Finf, _ | _, Finf => SVal Finf (xorb (neg x) (neg y))
  | _, _ => SVal Fzero (xorb (neg x) (neg y))
  end.

Definition quo_table (x y : Dec) : sres :=
  match dform x, dform y with
  | Ffinite, Ffinite => SFinite
  | Fzero, Fzero | Finf, Finf => SNaN
  | Fzero, _ | _, Finf => SVal Fzero (xorb (neg x) (neg y))
  | _, _ => SVal Finf (xorb (neg x) (neg y))
  end.

(* the receiver after the operation, for the exact special results *)
Definition SpecialPost (z : Dec) (p : Z) (t : sres) (r : ores) : Prop :=
  match t with
  | SNaN => exists z', r = NaNR z' /\ WF z' /\ prec z' = p /\ dmode z' = dmode z
  | SVal f ng => exists z', r = OkR z' /\ dform z' = f /\ neg z' = ng /\ acc z' = Exact /\
                            WF z' /\ prec z' = p /\ dmode z' = dmode z
  | _ => True
  end.

Lemma Set_nonfinite same z x : dform x <> Ffinite -> 0 <= prec z <= MaxPrec -> 0 <= prec x <= MaxPrec ->
  (same = true -> dform z = dform x /\ neg z = neg x) ->
  exists z', Set_ same z x = OkR z' /\ dform z' = dform x /\ neg z' = neg x /\ acc z' = Exact /\ WF z' /\
             prec z' = (if same then prec z else if prec z =? 0 then prec x else prec z) /\ dmode z' = dmode z.
Proof.
  intros Hf Pz Px Hs. unfold Set_. destruct same.
  - destruct (Hs eq_refl) as [Hfz Hnz]. exists (with_acc z Exact). simp_with.
    repeat split; try reflexivity; try assumption.
    apply WF_nonfinite; cbn [dform prec]; [congruence|assumption].
  - destruct (dform x) eqn:Fx; try congruence.
    + cbn [prec with_neg with_form with_acc].
      destruct (Z.eqb_spec (prec z) 0) as [E|E].
      * eexists. split; [reflexivity|]. simp_with.
        repeat split; try reflexivity. apply WF_nonfinite; cbn [dform prec]; [discriminate|lia].
      * destruct (Z.ltb_spec (prec z) (prec x)).
        -- unfold round. cbn [dform with_acc with_neg with_form]. cbn [of_opt]. eexists. split; [reflexivity|]. simp_with.
           repeat split; try reflexivity.
           apply WF_nonfinite; cbn [dform prec]; [discriminate|lia].
        -- eexists. split; [reflexivity|]. simp_with.
           repeat split; try reflexivity.
           apply WF_nonfinite; cbn [dform prec]; [discriminate|lia].
    + cbn [prec with_neg with_form with_acc].
      destruct (Z.eqb_spec (prec z) 0) as [E|E].
      * eexists. split; [reflexivity|]. simp_with.
        repeat split; try reflexivity. apply WF_nonfinite; cbn [dform prec]; [discriminate|lia].
      * destruct (Z.ltb_spec (prec z) (prec x)).
        -- unfold round. cbn [dform with_acc with_neg with_form]. cbn [of_opt]. eexists. split; [reflexivity|]. simp_with.
           repeat split; try reflexivity.
           apply WF_nonfinite; cbn [dform prec]; [discriminate|lia].
        -- eexists. split; [reflexivity|]. simp_with.
           repeat split; try reflexivity.
           apply WF_nonfinite; cbn [dform prec]; [discriminate|lia].
Qed.

Lemma WF_prec x : WF x -> 0 <= prec x <= MaxPrec.
Proof.
  unfold WF, wf_b. intros H. apply andb_true_iff in H as [H _]. apply andb_true_iff in H as [H1 H2].
  apply Z.leb_le in H1, H2. lia.
Qed.

Lemma eff_prec_range z x y : 0 <= prec z <= MaxPrec -> 0 <= prec x <= MaxPrec -> 0 <= prec y <= MaxPrec ->
  0 <= eff_prec z x y <= MaxPrec.
Proof. intros. unfold eff_prec. rewrite umax32_spec. destruct (prec z =? 0); lia. Qed.

Ltac set_case H :=
  let z' := fresh "z'" in
  destruct H as (z' & E & Hf & Hn & Ha & W & Hp & Hm); rewrite E; exists z';
  repeat split; try assumption; try congruence.

Theorem Add_special zx zy z x y :
  WF x -> WF y -> 0 <= prec z <= MaxPrec -> (zx = true -> z = x) -> (zy = true -> z = y) ->
  SpecialPost z (eff_prec z x y) (add_table (dmode z) x y) (Add zx zy z x y).
Proof.
  intros Wx Wy Pz Hzx Hzy. pose proof (WF_prec x Wx) as Px. pose proof (WF_prec y Wy) as Py.
  pose proof (eff_prec_range z x y Pz Px Py) as Pe.
  unfold Add, add_table. fold (eff_prec z x y).
  set (z0 := if prec z =? 0 then with_prec z (umax32 (prec x) (prec y)) else z).
  assert (Hp0 : prec z0 = eff_prec z x y) by (unfold z0, eff_prec; destruct (prec z =? 0); reflexivity).
  assert (Hm0 : dmode z0 = dmode z) by (unfold z0; destruct (prec z =? 0); reflexivity).
  assert (Hx0 : zx = true -> dform z0 = dform x /\ neg z0 = neg x).
  { intros E. specialize (Hzx E). subst z. unfold z0. destruct (prec x =? 0); split; reflexivity. }
  assert (Hy0 : zy = true -> dform z0 = dform y /\ neg z0 = neg y).
  { intros E. specialize (Hzy E). subst z. unfold z0. destruct (prec y =? 0); split; reflexivity. }
  assert (Ex : (if zx then prec z0 else if prec z0 =? 0 then prec x else prec z0) = eff_prec z x y).
  { destruct zx; [exact Hp0|]. rewrite Hp0. unfold eff_prec. rewrite umax32_spec. destruct (Z.eqb_spec (prec z) 0).
    - destruct (Z.eqb_spec (Z.max (prec x) (prec y)) 0); lia.
    - destruct (Z.eqb_spec (prec z) 0); lia. }
  assert (Ey : (if zy then prec z0 else if prec z0 =? 0 then prec y else prec z0) = eff_prec z x y).
  { destruct zy; [exact Hp0|]. rewrite Hp0. unfold eff_prec. rewrite umax32_spec. destruct (Z.eqb_spec (prec z) 0).
    - destruct (Z.eqb_spec (Z.max (prec x) (prec y)) 0); lia.
    - destruct (Z.eqb_spec (prec z) 0); lia. }
  assert (HSx : dform x <> Ffinite -> exists z', Set_ zx z0 x = OkR z' /\ dform z' = dform x /\ neg z' = neg x /\
             acc z' = Exact /\ WF z' /\ prec z' = eff_prec z x y /\ dmode z' = dmode z).
  { intros Hnf. pose proof (Set_nonfinite zx z0 x Hnf ltac:(lia) Px Hx0) as H. rewrite Ex, Hm0 in H. exact H. }
  assert (HSy : dform y <> Ffinite -> exists z', Set_ zy z0 y = OkR z' /\ dform z' = dform y /\ neg z' = neg y /\
             acc z' = Exact /\ WF z' /\ prec z' = eff_prec z x y /\ dmode z' = dmode z).
  { intros Hnf. pose proof (Set_nonfinite zy z0 y Hnf ltac:(lia) Py Hy0) as H. rewrite Ey, Hm0 in H. exact H. }
  clear Hx0 Hy0 Ex Ey.
  destruct (dform x) eqn:Fx, (dform y) eqn:Fy; cbn [SpecialPost]; try exact I;
    try (match goal with
         | |- exists z', Set_ zx z0 x = _ /\ _ => apply HSx; discriminate
         | |- exists z', Set_ zy z0 y = _ /\ _ => apply HSy; discriminate
         end).
  - (* zero + zero *)
    eexists. split; [reflexivity|]. simp_with. unfold zero_sum_sign. rewrite Hm0.
    destruct (neg x), (neg y); cbn [Bool.eqb negb andb]; repeat split; try reflexivity; try exact Hp0;
      try (apply WF_nonfinite; cbn [dform prec]; [discriminate|lia]);
      destruct (mode_eqb (dmode z) ToNegativeInf); reflexivity.
  - (* inf + inf *)
    destruct (Bool.eqb (neg x) (neg y)) eqn:Es; cbn [negb SpecialPost].
    + apply HSx. discriminate.
    + eexists. split; [reflexivity|]. simp_with. split; [apply WF_nonfinite; cbn [dform prec]; [discriminate|lia]|].
      split; [exact Hp0|exact Hm0].
Qed.

Lemma SubNeg_nonfinite same z y : dform y <> Ffinite -> 0 <= prec z <= MaxPrec -> 0 <= prec y <= MaxPrec ->
  (same = true -> dform z = dform y) ->
  exists z', SubNeg same z y = OkR z' /\ dform z' = dform y /\ neg z' = negb (neg y) /\ acc z' = Exact /\ WF z' /\
             prec z' = prec z /\ dmode z' = dmode z.
Proof.
  intros Hf Pz Py Hs. unfold SubNeg.
  set (z1 := if same then with_acc z Exact
             else match dform y with
                  | Ffinite => with_mant (with_exp (with_form (with_acc z Exact) (dform y)) (exp y)) (mant y)
                  | _ => with_form (with_acc z Exact) (dform y) end).
  assert (Hz1 : dform z1 = dform y /\ prec z1 = prec z /\ dmode z1 = dmode z /\ acc z1 = Exact).
  { unfold z1. destruct same.
    - repeat split; try reflexivity. exact (Hs eq_refl).
    - destruct (dform y); repeat split; try reflexivity; congruence. }
  destruct Hz1 as (F1 & P1 & M1 & A1).
  set (z2 := with_neg z1 (negb (neg y))).
  assert (Hr : round z2 0 = Some z2).
  { unfold round. cbn [z2 dform with_neg with_acc]. rewrite F1. destruct (dform y); try congruence;
      unfold with_acc, z2, with_neg; cbn [mant exp prec dmode acc dform neg]; rewrite A1; reflexivity. }
  fold z2. rewrite Hr. cbn [of_opt].
  assert (E : (if prec z2 <? prec y then OkR z2 else OkR z2) = OkR z2) by (destruct (prec z2 <? prec y); reflexivity).
  rewrite E. exists z2. split; [reflexivity|]. cbn [z2 dform neg acc prec dmode with_neg].
  repeat split; try assumption; try reflexivity.
  apply WF_nonfinite; [change (dform z2) with (dform z1); congruence|change (prec z2) with (prec z1); lia].
Qed.

Theorem Sub_special zx zy z x y :
  WF x -> WF y -> 0 <= prec z <= MaxPrec -> (zx = true -> z = x) -> (zy = true -> z = y) ->
  SpecialPost z (eff_prec z x y) (sub_table (dmode z) x y) (Sub zx zy z x y).
Proof.
  intros Wx Wy Pz Hzx Hzy. pose proof (WF_prec x Wx) as Px. pose proof (WF_prec y Wy) as Py.
  pose proof (eff_prec_range z x y Pz Px Py) as Pe.
  unfold Sub, sub_table. fold (eff_prec z x y).
  set (z0 := if prec z =? 0 then with_prec z (umax32 (prec x) (prec y)) else z).
  assert (Hp0 : prec z0 = eff_prec z x y) by (unfold z0, eff_prec; destruct (prec z =? 0); reflexivity).
  assert (Hm0 : dmode z0 = dmode z) by (unfold z0; destruct (prec z =? 0); reflexivity).
  assert (Hx0 : zx = true -> dform z0 = dform x /\ neg z0 = neg x).
  { intros E. specialize (Hzx E). subst z. unfold z0. destruct (prec x =? 0); split; reflexivity. }
  assert (Hy0 : zy = true -> dform z0 = dform y).
  { intros E. specialize (Hzy E). subst z. unfold z0. destruct (prec y =? 0); reflexivity. }
  assert (Ex : (if zx then prec z0 else if prec z0 =? 0 then prec x else prec z0) = eff_prec z x y).
  { destruct zx; [exact Hp0|]. rewrite Hp0. unfold eff_prec. rewrite umax32_spec. destruct (Z.eqb_spec (prec z) 0).
    - destruct (Z.eqb_spec (Z.max (prec x) (prec y)) 0); lia.
    - destruct (Z.eqb_spec (prec z) 0); lia. }
  assert (HSx : dform x <> Ffinite -> exists z', Set_ zx z0 x = OkR z' /\ dform z' = dform x /\ neg z' = neg x /\
             acc z' = Exact /\ WF z' /\ prec z' = eff_prec z x y /\ dmode z' = dmode z).
  { intros Hnf. pose proof (Set_nonfinite zx z0 x Hnf ltac:(lia) Px Hx0) as H. rewrite Ex, Hm0 in H. exact H. }
  assert (HSy : dform y <> Ffinite -> exists z', SubNeg zy z0 y = OkR z' /\ dform z' = dform y /\ neg z' = negb (neg y) /\
             acc z' = Exact /\ WF z' /\ prec z' = eff_prec z x y /\ dmode z' = dmode z).
  { intros Hnf. pose proof (SubNeg_nonfinite zy z0 y Hnf ltac:(lia) Py Hy0) as H. rewrite Hp0, Hm0 in H. exact H. }
  clear Hx0 Hy0 Ex.
  destruct (dform x) eqn:Fx, (dform y) eqn:Fy; cbn [SpecialPost]; try exact I;
    try (match goal with
         | |- exists z', Set_ zx z0 x = _ /\ _ => apply HSx; discriminate
         | |- exists z', SubNeg zy z0 y = _ /\ _ => apply HSy; discriminate
         end).
  - (* zero - zero *)
    eexists. split; [reflexivity|]. simp_with. unfold zero_sum_sign. rewrite Hm0.
    destruct (neg x), (neg y); cbn [Bool.eqb negb andb]; repeat split; try reflexivity; try exact Hp0;
      try (apply WF_nonfinite; cbn [dform prec]; [discriminate|lia]);
      destruct (mode_eqb (dmode z) ToNegativeInf); reflexivity.
  - (* inf - inf *)
    destruct (Bool.eqb (neg x) (neg y)) eqn:Es; cbn [negb SpecialPost].
    + eexists. split; [reflexivity|]. simp_with. split; [apply WF_nonfinite; cbn [dform prec]; [discriminate|lia]|].
      split; [exact Hp0|exact Hm0].
    + apply HSx. discriminate.
Qed.

Theorem Mul_special z x y :
  WF x -> WF y -> 0 <= prec z <= MaxPrec ->
  SpecialPost z (eff_prec z x y) (mul_table x y) (Mul z x y).
Proof.
  intros Wx Wy Pz. pose proof (WF_prec x Wx) as Px. pose proof (WF_prec y Wy) as Py.
  pose proof (eff_prec_range z x y Pz Px Py) as Pe.
  unfold Mul, mul_table. fold (eff_prec z x y).
  set (z0 := if prec z =? 0 then with_prec z (umax32 (prec x) (prec y)) else z).
  assert (Hp0 : prec z0 = eff_prec z x y) by (unfold z0, eff_prec; destruct (prec z =? 0); reflexivity).
  assert (Hm0 : dmode z0 = dmode z) by (unfold z0; destruct (prec z =? 0); reflexivity).
  destruct (dform x) eqn:Fx, (dform y) eqn:Fy; cbn [SpecialPost]; try exact I;
    (eexists; split; [reflexivity|]; simp_with; repeat split; try reflexivity; try exact Hp0; try exact Hm0;
     apply WF_nonfinite; cbn [dform prec]; [discriminate|lia]).
Qed.

Theorem Quo_special z x y :
  WF x -> WF y -> 0 <= prec z <= MaxPrec ->
  SpecialPost z (eff_prec z x y) (quo_table x y) (Quo z x y).
Proof.
  intros Wx Wy Pz. pose proof (WF_prec x Wx) as Px. pose proof (WF_prec y Wy) as Py.
  pose proof (eff_prec_range z x y Pz Px Py) as Pe.
  unfold Quo, quo_table. fold (eff_prec z x y).
  set (z0 := if prec z =? 0 then with_prec z (umax32 (prec x) (prec y)) else z).
  assert (Hp0 : prec z0 = eff_prec z x y) by (unfold z0, eff_prec; destruct (prec z =? 0); reflexivity).
  assert (Hm0 : dmode z0 = dmode z) by (unfold z0; destruct (prec z =? 0); reflexivity).
  destruct (dform x) eqn:Fx, (dform y) eqn:Fy; cbn [SpecialPost]; try exact I;
    (eexists; split; [reflexivity|]; simp_with; repeat split; try reflexivity; try exact Hp0; try exact Hm0;
     apply WF_nonfinite; cbn [dform prec]; [discriminate|lia]).
Qed.

(* the only way to get an ErrNaN *)
Lemma of_opt_not_nan o z' : of_opt o <> NaNR z'.
Proof. destruct o; discriminate. Qed.

Lemma Set_not_nan same z x z' : Set_ same z x <> NaNR z'.
Proof.
  unfold Set_. destruct same; [discriminate|].
  repeat match goal with |- context [if ?b then _ else _] => destruct b end; try discriminate; apply of_opt_not_nan.
Qed.

Lemma SubNeg_not_nan same z y z' : SubNeg same z y <> NaNR z'.
Proof.
  unfold SubNeg. repeat match goal with |- context [if ?b then _ else _] => destruct b end; try discriminate; apply of_opt_not_nan.
Qed.

Theorem Add_nan_iff zx zy z x y :
  (exists z', Add zx zy z x y = NaNR z') <-> dform x = Finf /\ dform y = Finf /\ neg x <> neg y.
Proof.
  unfold Add. split.
  - intros [z' E]. destruct (dform x), (dform y);
      try (exfalso; revert E; apply Set_not_nan);
      try (exfalso; revert E; match goal with |- context [match ?r with None => _ | Some _ => _ end] => destruct r end; discriminate).
    + discriminate.
    + destruct (Bool.eqb (neg x) (neg y)) eqn:Es; cbn [negb] in E.
      * exfalso; revert E; apply Set_not_nan.
      * repeat split; try reflexivity. now apply eqb_false_iff.
  - intros (Fx & Fy & Hn). rewrite Fx, Fy. apply eqb_false_iff in Hn. rewrite Hn. cbn [negb]. eexists. reflexivity.
Qed.

Theorem Sub_nan_iff zx zy z x y :
  (exists z', Sub zx zy z x y = NaNR z') <-> dform x = Finf /\ dform y = Finf /\ neg x = neg y.
Proof.
  unfold Sub. split.
  - intros [z' E]. destruct (dform x), (dform y);
      try (exfalso; revert E; apply Set_not_nan); try (exfalso; revert E; apply SubNeg_not_nan);
      try (exfalso; revert E; match goal with |- context [match ?r with None => _ | Some _ => _ end] => destruct r end; discriminate).
    + discriminate.
    + destruct (Bool.eqb (neg x) (neg y)) eqn:Es.
      * repeat split; try reflexivity. now apply eqb_prop.
      * exfalso; revert E; apply Set_not_nan.
  - intros (Fx & Fy & Hn). rewrite Fx, Fy, Hn, eqb_reflx. eexists. reflexivity.
Qed.

Theorem Mul_nan_iff z x y :
  (exists z', Mul z x y = NaNR z') <->
  (dform x = Fzero /\ dform y = Finf) \/ (dform x = Finf /\ dform y = Fzero).
Proof.
  unfold Mul. split.
  - intros [z' E]. destruct (dform x), (dform y); try discriminate; auto.
    exfalso; revert E; apply of_opt_not_nan.
  - intros [[Fx Fy]|[Fx Fy]]; rewrite Fx, Fy; eexists; reflexivity.
Qed.

Theorem Quo_nan_iff z x y :
  (exists z', Quo z x y = NaNR z') <->
  (dform x = Fzero /\ dform y = Fzero) \/ (dform x = Finf /\ dform y = Finf).
Proof.
  unfold Quo. split.
  - intros [z' E]. destruct (dform x), (dform y); try discriminate; auto.
    exfalso; revert E; apply of_opt_not_nan.
  - intros [[Fx Fy]|[Fx Fy]]; rewrite Fx, Fy; eexists; reflexivity.
Qed.

(* ---- no panic other than ErrNaN ---- *)
Lemma mdigits_le_span_x x y : mdigits (mant x) <= add_span x y.
Proof. unfold add_span. lia. Qed.
Lemma mdigits_le_span_y x y : mdigits (mant y) <= add_span x y.
Proof. unfold add_span. lia. Qed.

Theorem Add_no_crash zx zy z x y :
  WF x -> WF y -> 0 <= prec z <= MaxPrec -> (zx = true -> z = x) -> (zy = true -> z = y) ->
  add_span x y + 40 < 4294967296 - 18 -> Add zx zy z x y <> CrashR.
Proof.
  intros Wx Wy Pz Hzx Hzy Hsp.
  pose proof (Add_special zx zy z x y Wx Wy Pz Hzx Hzy) as HS. unfold add_table in HS.
  pose proof (mdigits_le_span_x x y). pose proof (mdigits_le_span_y x y).
  destruct (dform x) eqn:Fx, (dform y) eqn:Fy; cbn [SpecialPost] in HS;
    try (destruct HS as (z' & E & _); rewrite E; discriminate).
  - (* 0 + finite y: Set y *)
    unfold Add. rewrite Fx, Fy.
    set (z0 := if prec z =? 0 then with_prec z (umax32 (prec x) (prec y)) else z).
    assert (Pz0 : 0 <= prec z0 <= MaxPrec).
    { pose proof (WF_prec x Wx). pose proof (WF_prec y Wy). unfold z0. destruct (prec z =? 0); cbn [prec with_prec]; [rewrite umax32_spec|]; lia. }
    assert (Hal : zy = true -> z0 = y).
    { intros E. specialize (Hzy E). subst z. pose proof (WF_finite y Wy Fy) as [_ _ _ Hp _ _].
      unfold z0. destruct (Z.eqb_spec (prec y) 0); [lia|reflexivity]. }
    destruct (Set_correct zy z0 y Wy Fy ltac:(lia) Pz0 Hal) as (z' & E & _). rewrite E. discriminate.
  - unfold Add. rewrite Fx, Fy.
    set (z0 := if prec z =? 0 then with_prec z (umax32 (prec x) (prec y)) else z).
    assert (Pz0 : 0 <= prec z0 <= MaxPrec).
    { pose proof (WF_prec x Wx). pose proof (WF_prec y Wy). unfold z0. destruct (prec z =? 0); cbn [prec with_prec]; [rewrite umax32_spec|]; lia. }
    assert (Hal : zx = true -> z0 = x).
    { intros E. specialize (Hzx E). subst z. pose proof (WF_finite x Wx Fx) as [_ _ _ Hp _ _].
      unfold z0. destruct (Z.eqb_spec (prec x) 0); [lia|reflexivity]. }
    destruct (Set_correct zx z0 x Wx Fx ltac:(lia) Pz0 Hal) as (z' & E & _). rewrite E. discriminate.
  - destruct (Add_correct zx zy z x y Wx Wy Fx Fy Pz Hsp) as (z' & E & _). rewrite E. discriminate.
  - destruct (Bool.eqb (neg x) (neg y)); cbn [SpecialPost] in HS; destruct HS as (z' & E & _); rewrite E; discriminate.
Qed.

Theorem Mul_no_crash z x y :
  WF x -> WF y -> 0 <= prec z <= MaxPrec ->
  mdigits (mant x) + mdigits (mant y) < 4294967296 - 18 -> Mul z x y <> CrashR.
Proof.
  intros Wx Wy Pz Hl.
  pose proof (Mul_special z x y Wx Wy Pz) as HS. unfold mul_table in HS.
  destruct (dform x) eqn:Fx, (dform y) eqn:Fy; cbn [SpecialPost] in HS;
    try (destruct HS as (z' & E & _); rewrite E; discriminate).
  destruct (Mul_correct z x y Wx Wy Fx Fy Pz Hl) as (z' & E & _). rewrite E. discriminate.
Qed.

Theorem Quo_no_crash z x y :
  WF x -> WF y -> 0 <= prec z <= MaxPrec ->
  mdigits (mant x) + mdigits (mant y) + eff_prec z x y + 38 < 4294967296 - 18 -> Quo z x y <> CrashR.
Proof.
  intros Wx Wy Pz Hl.
  pose proof (Quo_special z x y Wx Wy Pz) as HS. unfold quo_table in HS.
  destruct (dform x) eqn:Fx, (dform y) eqn:Fy; cbn [SpecialPost] in HS;
    try (destruct HS as (z' & E & _); rewrite E; discriminate).
  destruct (Quo_correct z x y Wx Wy Fx Fy Pz Hl) as (z' & E & _). rewrite E. discriminate.
Qed.
