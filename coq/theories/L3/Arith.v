(* L3/Arith.v — value-level models of the arithmetic methods of decimal.go:
   Set, SetPrec, SetMode, SetInf, Neg, Abs, Copy, Add, Sub, Mul, Quo, FMA.
   Each function takes the receiver's previous state z and the operand values
   and returns the receiver's new state; `None` is a run-time panic other than
   ErrNaN, `NaNres z'` an ErrNaN panic leaving the receiver in state z'. *)
From Dec Require Export L3.Round L3.Cmp.
Open Scope Z_scope.

Inductive ores := OkR (z : Dec) | NaNR (z : Dec) | CrashR.

Definition of_opt (o : option Dec) : ores :=
  match o with Some z => OkR z | None => CrashR end.

Definition umax32 (x y : Z) : Z := if y <? x then x else y.

(* z.Set(x) with z != x (pointer inequality); same = pointer equality *)
Definition Set_ (same : bool) (z x : Dec) : ores :=
  let z := with_acc z Exact in
  if same then OkR z
  else
    let z := with_neg (with_form z (dform x)) (neg x) in
    let z := match dform x with
             | Ffinite => with_mant (with_exp z (exp x)) (mant x)
             | _ => z end in
    if prec z =? 0 then OkR (with_prec z (prec x))
    else if prec z <? prec x then of_opt (round z 0)
    else OkR z.

Definition SetPrec (z : Dec) (p : Z) : ores :=
  let z := with_acc z Exact in
  if p =? 0 then
    let z := with_prec z 0 in
    match dform z with
    | Ffinite => OkR (with_form (with_acc z (makeAcc (neg z))) Fzero)
    | _ => OkR z
    end
  else
    let p := if MaxPrec <? p then MaxPrec else p in
    let old := prec z in
    let z := with_prec z p in
    if p <? old then of_opt (round z 0) else OkR z.

Definition SetMode (z : Dec) (m : mode) : ores := OkR (with_acc (with_mode z m) Exact).

Definition SetInf (z : Dec) (signbit : bool) : ores :=
  OkR (with_neg (with_form (with_acc z Exact) Finf) signbit).

Definition lift (f : Dec -> Dec) (r : ores) : ores :=
  match r with OkR z => OkR (f z) | NaNR z => NaNR z | CrashR => CrashR end.

Definition Neg_ (same : bool) (z x : Dec) : ores :=
  lift (fun z => with_neg z (negb (neg z))) (Set_ same z x).
Definition Abs_ (same : bool) (z x : Dec) : ores :=
  lift (fun z => with_neg z false) (Set_ same z x).

Definition Copy (same : bool) (z x : Dec) : ores :=
  if same then OkR z
  else
    let z := mkDec (mant z) (exp z) (prec x) (dmode x) (acc x) (dform x) (neg x) in
    match dform x with
    | Ffinite => OkR (with_exp (with_mant z (mant x)) (exp x))
    | _ => OkR z
    end.

(* uadd / usub: z carries sign, precision and mode; x, y finite *)
Definition uadd (z x y : Dec) : option Dec :=
  let ex := exp x - zlen (mant x) * DW in
  let ey := exp y - zlen (mant y) * DW in
  let '(m, ex) :=
    if ex <? ey then (dec_add (mant x) (dec_shl (mant y) (ey - ex)), ex)
    else if ey <? ex then (dec_add (dec_shl (mant x) (ex - ey)) (mant y), ey)
    else (dec_add (mant x) (mant y), ex) in
  match dnorm m with
  | None => None
  | Some (m', s) => setExpAndRound (with_mant z m') (ex + zlen m' * DW - s) 0
  end.

(* dec.sub panics with "underflow" when the result would be negative *)
Definition dec_sub_chk (x y : list Z) : option (list Z) :=
  if val x <? val y then None else Some (dec_sub x y).

Definition usub (z x y : Dec) : option Dec :=
  let ex := exp x - zlen (mant x) * DW in
  let ey := exp y - zlen (mant y) * DW in
  let '(om, ex) :=
    if ex <? ey then (dec_sub_chk (mant x) (dec_shl (mant y) (ey - ex)), ex)
    else if ey <? ex then (dec_sub_chk (dec_shl (mant x) (ex - ey)) (mant y), ey)
    else (dec_sub_chk (mant x) (mant y), ex) in
  match om with
  | None => None
  | Some [] => Some (with_neg (with_form (with_acc (with_mant z []) Exact) Fzero) false)
  | Some m =>
      match dnorm m with
      | None => None
      | Some (m', s) => setExpAndRound (with_mant z m') (ex + zlen m' * DW - s) 0
      end
  end.

Definition fix_zero_sign (z : Dec) : Dec :=
  if form_eqb (dform z) Fzero && mode_eqb (dmode z) ToNegativeInf && acc_eqb (acc z) Exact
  then with_neg z true else z.

(* zx, zy: the receiver is the same variable as x / y (only matters for the
   Set shortcut taken for non-finite operands) *)
Definition Add (zx zy : bool) (z x y : Dec) : ores :=
  let z := if prec z =? 0 then with_prec z (umax32 (prec x) (prec y)) else z in
  match dform x, dform y with
  | Ffinite, Ffinite =>
      let z := with_neg z (neg x) in
      let r := if Bool.eqb (neg x) (neg y) then uadd z x y
               else if 0 <? ucmp x y then usub z x y
               else usub (with_neg z (negb (neg z))) y x in
      match r with None => CrashR | Some z => OkR (fix_zero_sign z) end
  | Finf, Finf =>
      if negb (Bool.eqb (neg x) (neg y))
      then NaNR (with_neg (with_form (with_acc z Exact) Fzero) false)
      else Set_ zx z x
  | Fzero, Fzero =>
      let sg := if negb (Bool.eqb (neg x) (neg y)) && mode_eqb (dmode z) ToNegativeInf then true
                else neg x && neg y in
      OkR (with_neg (with_form (with_acc z Exact) Fzero) sg)
  | Finf, _ | _, Fzero => Set_ zx z x
  | _, _ => Set_ zy z y
  end.

(* the tail of Sub for (±0) - y and x - (±Inf): like Neg, but the sign is set
   before rounding *)
Definition SubNeg (same : bool) (z y : Dec) : ores :=
  let z := with_acc z Exact in
  let z := if same then z
           else
             let z := with_form z (dform y) in
             match dform y with
             | Ffinite => with_mant (with_exp z (exp y)) (mant y)
             | _ => z end in
  let z := with_neg z (negb (neg y)) in
  if prec z <? prec y then of_opt (round z 0) else OkR z.

Definition Sub (zx zy : bool) (z x y : Dec) : ores :=
  let z := if prec z =? 0 then with_prec z (umax32 (prec x) (prec y)) else z in
  match dform x, dform y with
  | Ffinite, Ffinite =>
      let z := with_neg z (neg x) in
      let r := if negb (Bool.eqb (neg x) (neg y)) then uadd z x y
               else if 0 <? ucmp x y then usub z x y
               else usub (with_neg z (negb (neg z))) y x in
      match r with None => CrashR | Some z => OkR (fix_zero_sign z) end
  | Finf, Finf =>
      if Bool.eqb (neg x) (neg y)
      then NaNR (with_neg (with_form (with_acc z Exact) Fzero) false)
      else Set_ zx z x
  | Fzero, Fzero =>
      let sg := if Bool.eqb (neg x) (neg y) && mode_eqb (dmode z) ToNegativeInf then true
                else neg x && negb (neg y) in
      OkR (with_neg (with_form (with_acc z Exact) Fzero) sg)
  | Finf, _ | _, Fzero => Set_ zx z x
  | _, _ => SubNeg zy z y
  end.

Definition umul (z x y : Dec) : option Dec :=
  let e := exp x + exp y in
  match dnorm (dec_mul (mant x) (mant y)) with
  | None => None
  | Some (m', s) => setExpAndRound (with_mant z m') (e - s) 0
  end.

Definition Mul (z x y : Dec) : ores :=
  let z := if prec z =? 0 then with_prec z (umax32 (prec x) (prec y)) else z in
  let z := with_neg z (xorb (neg x) (neg y)) in
  match dform x, dform y with
  | Ffinite, Ffinite => of_opt (umul z x y)
  | Fzero, Finf | Finf, Fzero => NaNR (with_neg (with_form (with_acc z Exact) Fzero) false)
  | Finf, _ | _, Finf => OkR (with_form (with_acc z Exact) Finf)
  | _, _ => OkR (with_form (with_acc z Exact) Fzero)
  end.

Definition uquo (z x y : Dec) : option Dec :=
  let n := prec z / DW + 1 in
  let d := n - zlen (mant x) + zlen (mant y) in
  let xadj := if 0 <? d then repeat 0 (Z.to_nat d) ++ mant x else mant x in
  let d := zlen xadj - zlen (mant y) in
  if val (mant y) =? 0 then None
  else
    let q := dec_quo xadj (mant y) in
    let r := dec_rem xadj (mant y) in
    let e := exp x - exp y - (d - zlen q) * DW in
    let sbit := match r with [] => 0 | _ => 1 end in
    match dnorm q with
    | None => None
    | Some (q', s) => setExpAndRound (with_mant z q') (e - s) sbit
    end.

Definition Quo (z x y : Dec) : ores :=
  let z := if prec z =? 0 then with_prec z (umax32 (prec x) (prec y)) else z in
  let z := with_neg z (xorb (neg x) (neg y)) in
  match dform x, dform y with
  | Ffinite, Ffinite => of_opt (uquo z x y)
  | Fzero, Fzero | Finf, Finf => NaNR (with_neg (with_form (with_acc z Exact) Fzero) false)
  | Fzero, _ | _, Finf => OkR (with_form (with_acc z Exact) Fzero)
  | _, _ => OkR (with_form (with_acc z Exact) Finf)
  end.

(* FMA; zu: the receiver is the same variable as u *)
Definition FMA (zu : bool) (z x y u : Dec) : ores :=
  let z := if prec z =? 0 then with_prec z (umax32 (umax32 (prec x) (prec y)) (prec u)) else z in
  match dform u with
  | Fzero =>
      match Mul z x y with
      | OkR z' =>
          OkR (if form_eqb (dform z') Fzero && acc_eqb (acc z') Exact && negb (Bool.eqb (neg z') (neg u))
               then with_neg z' (mode_eqb (dmode z') ToNegativeInf) else z')
      | r => r
      end
  | _ =>
      let z0 := if zu then mkDec [] 0 (prec z) (dmode z) Exact Fzero false else z in
      let z0 := with_neg z0 (xorb (neg x) (neg y)) in
      match dform x, dform y with
      | Ffinite, Ffinite =>
          if form_eqb (dform u) Finf then Set_ zu z u else
          match umul (with_prec z0 MaxPrec) x y with
          | None => CrashR
          | Some z0' =>
              let z0' := with_prec z0' (prec z0) in
              Add (negb zu) zu (if zu then z else z0') z0' u
          end
      | Fzero, Finf | Finf, Fzero => NaNR (with_neg (with_form (with_acc z Exact) Fzero) false)
      | Finf, _ | _, Finf =>
          let z0' := with_form (with_acc z0 Exact) Finf in
          Add (negb zu) zu (if zu then z else z0') z0' u
      | _, _ => Set_ zu z u
      end
  end.
