(* L3/Bin.v — executable model of correctly rounded binary floating-point
   arithmetic on exact integers/rationals.  Definitions only.

   * qlog2, rnd_int, rnd_pos, round_bin: "round a positive rational to p bits
     under a math/big rounding mode, unbounded exponent" — the meaning given to
     every math/big.Float operation ("exact result rounded once"; that
     math/big is correctly rounded is an assumption of C15, named there).
   * fl / fmt: IEEE-754 binary interchange values (binary64, binary32) as
     sign / integer mantissa / binary exponent plus ±0, ±Inf, NaN;
     fl_round (round to nearest even with subnormals and overflow),
     fl_of_Z, fl_mul, fl_div, fl_sqrt (correctly rounded, via Z.sqrt on a
     scaled integer and a sticky bit), bit patterns.
   These are what the Go expressions  float64(uint64), x / y, x * y,
   math.Sqrt(x), math.Ceil, math.Frexp, math.Float64bits  compute on amd64. *)
From Coq Require Import ZArith Bool List Lia QArith.
From Dec Require Import L3.Decimal.
Open Scope Z_scope.

(* floor(log2(n/d)) for n, d > 0 *)
Definition qlog2 (n d : Z) : Z :=
  let k := Z.log2 n - Z.log2 d in          (* 2^(k-1) < n/d < 2^(k+1) *)
  let below := if 0 <=? k then n <? d * 2 ^ k else n * 2 ^ (- k) <? d in
  if below then k - 1 else k.

(* round the non-negative rational N/D (D > 0) to an integer under a rounding
   mode, for a value of sign ng; second component: sign of (rounded - exact)
   on magnitudes *)
Definition rnd_int (md : mode) (ng : bool) (N D : Z) : Z * Z :=
  let q := N / D in
  let r := N mod D in
  if r =? 0 then (q, 0)
  else
    let inc :=
      match md with
      | ToZero => false
      | AwayFromZero => true
      | ToNegativeInf => ng
      | ToPositiveInf => negb ng
      | ToNearestEven => (D <? 2 * r) || ((D =? 2 * r) && Z.odd q)
      | ToNearestAway => D <=? 2 * r
      end in
    if inc then (q + 1, 1) else (q, -1).

(* round the positive rational n/d to p >= 1 significant bits: (m, e, c) with
   2^(p-1) <= m < 2^p, result m * 2^e, c = sign of (result - exact) *)
Definition rnd_pos (p : Z) (md : mode) (ng : bool) (n d : Z) : Z * Z * Z :=
  let e := qlog2 n d - (p - 1) in
  let '(q, c) := if 0 <=? e then rnd_int md ng n (d * 2 ^ e)
                 else rnd_int md ng (n * 2 ^ (- e)) d in
  if q =? 2 ^ p then (2 ^ (p - 1), e + 1, c) else (q, e, c).

(* generic entry point on Q: (negative?, m, e, c); zero gives m = 0 *)
Definition round_bin (p : Z) (md : mode) (q : Q) : bool * Z * Z * Z :=
  let n := Qnum q in
  if n =? 0 then (false, 0, 0, 0)
  else
    let ng := n <? 0 in
    let '(m, e, c) := rnd_pos p md ng (Z.abs n) (Zpos (Qden q)) in
    (ng, m, e, c).

(* ---- IEEE-754 binary interchange formats ---- *)
Record fmt := mkFmt { f_p : Z;        (* precision in bits, hidden bit included *)
                      f_ebits : Z }.  (* width of the exponent field *)
Definition binary64 : fmt := mkFmt 53 11.
Definition binary32 : fmt := mkFmt 24 8.
Definition f_emax (f : fmt) : Z := 2 ^ (f_ebits f - 1) - 1.      (* exponent of the leading bit, largest *)
Definition f_emin (f : fmt) : Z := 2 - f_emax f - f_p f.         (* exponent of the last bit of a subnormal *)

(* FlFin s m e = (-1)^s * m * 2^e with 0 < m < 2^p, e >= emin, and
   m >= 2^(p-1) unless e = emin *)
Inductive fl := FlZero (s : bool) | FlInf (s : bool) | FlNaN | FlFin (s : bool) (m e : Z).

(* the positive rational n/d rounded to nearest even in format f, with the sign
   of (returned magnitude - exact magnitude) *)
Definition fl_round_c (f : fmt) (s : bool) (n d : Z) : fl * Z :=
  let E := qlog2 n d in
  if E <? f_emin f + f_p f - 1 then
    let '(q, c) := rnd_int ToNearestEven s (n * 2 ^ (- f_emin f)) d in
    if q =? 0 then (FlZero s, -1) else (FlFin s q (f_emin f), c)
  else
    let '(m, e, c) := rnd_pos (f_p f) ToNearestEven s n d in
    if f_emax f <? e + f_p f - 1 then (FlInf s, 1) else (FlFin s m e, c).
Definition fl_round (f : fmt) (s : bool) (n d : Z) : fl := fst (fl_round_c f s n d).

(* float64(x) for an integer x *)
Definition fl_of_Z (f : fmt) (x : Z) : fl :=
  if x =? 0 then FlZero false else fl_round f (x <? 0) (Z.abs x) 1.

Definition fl_sign (a : fl) : bool :=
  match a with FlZero s | FlInf s | FlFin s _ _ => s | FlNaN => false end.

(* m * 2^e / (m' * 2^e') as a fraction of integers *)
Definition frac_of (m e m' e' : Z) : Z * Z :=
  let k := e - e' in
  if 0 <=? k then (m * 2 ^ k, m') else (m, m' * 2 ^ (- k)).

Definition fl_div (f : fmt) (a b : fl) : fl :=
  match a, b with
  | FlNaN, _ | _, FlNaN => FlNaN
  | FlInf _, FlInf _ | FlZero _, FlZero _ => FlNaN
  | FlInf s, _ => FlInf (xorb s (fl_sign b))
  | _, FlInf t => FlZero (xorb (fl_sign a) t)
  | FlZero s, _ => FlZero (xorb s (fl_sign b))
  | _, FlZero t => FlInf (xorb (fl_sign a) t)
  | FlFin s m e, FlFin t m' e' =>
      let '(n, d) := frac_of m e m' e' in fl_round f (xorb s t) n d
  end.

Definition fl_mul (f : fmt) (a b : fl) : fl :=
  match a, b with
  | FlNaN, _ | _, FlNaN => FlNaN
  | FlInf _, FlZero _ | FlZero _, FlInf _ => FlNaN
  | FlInf s, _ => FlInf (xorb s (fl_sign b))
  | _, FlInf t => FlInf (xorb (fl_sign a) t)
  | FlZero s, _ => FlZero (xorb s (fl_sign b))
  | _, FlZero t => FlZero (xorb (fl_sign a) t)
  | FlFin s m e, FlFin t m' e' =>
      let '(n, d) := frac_of (m * m') (e + e') 1 0 in fl_round f (xorb s t) n d
  end.

(* correctly rounded square root: S = m * 2^j >= 2^(2p+4) with e - j even,
   r = floor(sqrt S); the root r + theta (0 <= theta < 1) rounds like
   r + 1/2 when theta > 0, because r has at least p + 3 bits *)
Definition fl_sqrt (f : fmt) (a : fl) : fl :=
  match a with
  | FlNaN => FlNaN
  | FlZero s => FlZero s
  | FlInf false => FlInf false
  | FlInf true => FlNaN
  | FlFin true _ _ => FlNaN
  | FlFin false m e =>
      let j0 := 2 * f_p f + 4 - Z.log2 m in
      let j := if Z.even (e - j0) then j0 else j0 + 1 in
      let S := m * 2 ^ j in
      let r := Z.sqrt S in
      let st := if r * r =? S then 0 else 1 in
      let '(n, d) := frac_of (2 * r + st) ((e - j) / 2) 2 0 in
      fl_round f false n d
  end.

(* math.Ceil as an integer (finite arguments only; 0 otherwise) *)
Definition fl_ceil_Z (a : fl) : Z :=
  match a with
  | FlFin s m e =>
      if 0 <=? e then (if s then - (m * 2 ^ e) else m * 2 ^ e)
      else if s then - (m / 2 ^ (- e))            (* ceil(-m / 2^-e) *)
      else - ((- m) / 2 ^ (- e))                  (* ceil( m / 2^-e) *)
  | _ => 0
  end.

(* ---- bit patterns ---- *)
Definition f_width (f : fmt) : Z := f_p f + f_ebits f.
Definition fl_bits (f : fmt) (a : fl) : Z :=
  let p := f_p f in
  let sgn (s : bool) := if s then 2 ^ (f_width f - 1) else 0 in
  match a with
  | FlZero s => sgn s
  | FlInf s => sgn s + (2 ^ f_ebits f - 1) * 2 ^ (p - 1)
  | FlNaN => (2 ^ f_ebits f - 1) * 2 ^ (p - 1) + 2 ^ (p - 2) + 1      (* math.NaN() *)
  | FlFin s m e =>
      if m <? 2 ^ (p - 1) then sgn s + m
      else sgn s + (e - f_emin f + 1) * 2 ^ (p - 1) + (m - 2 ^ (p - 1))
  end.

Definition fl_of_bits (f : fmt) (b : Z) : fl :=
  let p := f_p f in
  let s := 2 ^ (f_width f - 1) <=? b in
  let r := b mod 2 ^ (f_width f - 1) in
  let be := r / 2 ^ (p - 1) in
  let fr := r mod 2 ^ (p - 1) in
  if be =? 2 ^ f_ebits f - 1 then (if fr =? 0 then FlInf s else FlNaN)
  else if be =? 0 then (if fr =? 0 then FlZero s else FlFin s fr (f_emin f))
  else FlFin s (2 ^ (p - 1) + fr) (f_emin f + be - 1).

(* math.Frexp followed by the extraction of the 53-bit integer mantissa, as
   SetFloat64 does:  |x| = M * 2^e2 with 2^(p-1) <= M < 2^p  (subnormals are
   normalised) *)
Definition fl_frexp_int (f : fmt) (m e : Z) : Z * Z :=
  let k := f_p f - 1 - Z.log2 m in
  (m * 2 ^ k, e - k).

(* the float64 operations used by the library *)
Definition b64_of_Z := fl_of_Z binary64.
Definition b64_div := fl_div binary64.
Definition b64_mul := fl_mul binary64.
Definition b64_sqrt := fl_sqrt binary64.
Definition b64_one : fl := FlFin false (2 ^ 52) (-52).
