(* L1/AsmProofs.v — the generated assembly programs (gen/AsmProgs.v), run by the
   interpreter of L1/X86.v from an arbitrary initial register file, return the
   mathematical result of L1/KernSpec.v for ALL inputs satisfying the kernel's
   precondition.  Straight-line routines by symbolic execution; loop kernels by
   a one-iteration lemma over `steps` + induction.  Proofs only (the auxiliary
   definition a_div10W names the data flow of the inlined div10W block). *)
From Coq Require Import ZArith List Bool Lia.
From Dec Require Import Base.Words Base.WordsProofs L1.U64 L1.U64Proofs L1.X86 L1.KernSpec L1.KernG L1.KernGScalar L1.KernGProofs L1.KernAsm gen.Consts gen.Tables gen.AsmProgs.
Import ListNotations.
Open Scope Z_scope.

(* ------------------------------------------------------------ run / steps *)
Lemma steps_S_i k E p s i : nth_error p (st_pc s) = Some i ->
  steps (S k) E p s = match i with RET => None | _ => bind (exec E p i s) (steps k E p) end.
Proof. intros H. cbn [steps]. rewrite H. destruct i; reflexivity. Qed.

Lemma run_steps k : forall f E p s s', steps k E p s = Some s' -> run (k + f) E p s = run f E p s'.
Proof.
  induction k as [|k IH]; intros f E p s s' H.
  - cbn in H. now inversion H.
  - cbn [steps] in H. cbn [Nat.add run].
    destruct (nth_error p (st_pc s)) as [i|]; [|discriminate].
    destruct i; try discriminate;
      (destruct (exec E p _ s) as [s1|]; [cbn [bind] in *; now apply IH | discriminate]).
Qed.

Lemma run_ret f E p s : nth_error p (st_pc s) = Some RET -> run (S f) E p s = Some s.
Proof. intros H. cbn [run]. now rewrite H. Qed.

Lemma steps_add a : forall b E p s s', steps a E p s = Some s' -> steps (a + b) E p s = steps b E p s'.
Proof.
  induction a as [|a IH]; intros b E p s s' H.
  - cbn in H. now inversion H.
  - cbn [steps] in H. cbn [Nat.add steps].
    destruct (nth_error p (st_pc s)) as [i|]; [|discriminate].
    destruct i; try discriminate;
      (destruct (exec E p _ s) as [s1|]; [cbn [bind] in *; now apply IH | discriminate]).
Qed.

Lemma wrap_lit n : (0 <=? n) && (n <? 2 ^ 64) = true -> wrap n = n.
Proof. rewrite andb_true_iff, Z.leb_le, Z.ltb_lt, <- W64_eq. intros; apply wrap_small; lia. Qed.

Lemma fCF_add a b c : fCF (flags_add a b c) = Some (W64 <=? a + b + c). Proof. reflexivity. Qed.
Lemma fCF_sub a b c : fCF (flags_sub a b c) = Some (a - b - c <? 0). Proof. reflexivity. Qed.
Lemma fCF_logic r : fCF (flags_logic r) = Some false. Proof. reflexivity. Qed.

Lemma divq_ok d hi : 0 < d -> hi < d -> (d =? 0) || (d <=? hi) = false.
Proof. intros. destruct (Z.eqb_spec d 0); destruct (Z.leb_spec d hi); try lia; reflexivity. Qed.

Ltac machine p :=
  cbv beta iota zeta delta
    [exec alu read_op write_op bind next with_regs with_flags with_mem with_frame with_pc
     getr setr st_regs st_flags st_mem st_frame st_pc
     rAX rBX rCX rDX rSI rDI rR8 rR9 rR10 rR11 rR12 rR13 rR14
     find_label Nat.eqb ea option_map JL JGE JLE JG JEQ JNE JCC p].

(* one instruction; the goal must be  steps (S k) E p <explicit state> = _  *)
Ltac step p :=
  lazymatch goal with
  | |- steps (S ?k) ?E ?pp ?s = _ =>
      let pc := eval cbv [st_pc] in (st_pc s) in
      let oi := eval cbv in (nth_error p pc) in
      lazymatch oi with
      | Some ?ins =>
          rewrite (steps_S_i k E pp s ins eq_refl); cbv beta iota;
          let K := fresh "K" in
          set (K := steps k E pp); machine p; subst K;
          rewrite ?fCF_add, ?fCF_sub, ?fCF_logic; cbn [fCF]; cbv beta iota
      | _ => fail "no instruction at pc"
      end
  end.

(* DX:AX = a*b, then ADDQ c, AX ; ADCQ $0, DX *)
Lemma mulq_addq a b c : 0 <= a < W64 -> 0 <= b < W64 -> 0 <= c < W64 ->
  add_lo (mul_lo a b) c 0 = (a * b + c) mod W64 /\
  add_lo (mul_hi a b) 0 (b2z (W64 <=? mul_lo a b + c + 0)) = (a * b + c) / W64.
Proof.
  intros Ha Hb Hc. pose proof (g_mulAddWWW_correct a b c Ha Hb Hc) as G. unfold g_mulAddWWW in G.
  inversion G as [[G1 G2]]. split; [reflexivity|].
  rewrite (add_c_leb (mul_lo a b) c 0) by (try apply mul_lo_range; lia).
  unfold add_lo, b2z. destruct (W64 <=? mul_lo a b + c + 0); f_equal; lia.
Qed.

(* ------------------------------------------------------------ div10WW *)
Theorem asm_div10WW_correct E x1 x0 y rs m :
  0 <= x1 < y -> y < W64 -> 0 <= x0 < B ->
  exists s', (forall f, run (8 + S f) E prog_div10WW (init_state rs [x1; x0; y] m) = Some s') /\
             st_frame s' 3 = fst (spec_div10WW x1 x0 y) /\
             st_frame s' 4 = snd (spec_div10WW x1 x0 y) /\
             st_mem s' = m.
Proof.
  intros H1 Hy H0. bw.
  destruct rs as [ax bx cx dx si di r8 r9 r10 r11 r12 r13 r14].
  unfold init_state.
  set (fr := frame_of [x1; x0; y]).
  assert (F0 : fr 0 = x1) by reflexivity. assert (F1 : fr 1 = x0) by reflexivity.
  assert (F2 : fr 2 = y) by reflexivity. clearbody fr.
  destruct (mulq_addq x1 B x0) as [Elo Ehi]; try lia.
  assert (Hq : (x1 * B + x0) / W64 < y) by (apply Z.div_lt_upper_bound; nia).
  eexists. split.
  - intros f. erewrite run_steps; [apply run_ret|].
    2:{ step prog_div10WW. rewrite F0.
        step prog_div10WW. rewrite wrap_lit by reflexivity.
        step prog_div10WW. replace 10000000000000000000 with B by (rewrite B_eq; reflexivity).
        step prog_div10WW. rewrite F1.
        step prog_div10WW. rewrite wrap_lit by reflexivity. rewrite Elo, Ehi.
        step prog_div10WW. rewrite F2. rewrite divq_ok by lia. cbv beta iota.
        step prog_div10WW.
        step prog_div10WW.
        reflexivity. }
    reflexivity.
  - cbn [st_frame st_mem]. unfold spec_div10WW, div_q, div_r.
    pose proof (Z.div_mod (x1 * B + x0) W64 ltac:(lia)) as Ed.
    replace ((x1 * B + x0) / W64 * W64 + (x1 * B + x0) mod W64) with (x1 * B + x0) by lia.
    repeat split.
Qed.

Ltac lits :=
  rewrite ?wrap_lit by reflexivity;
  repeat match goal with
         | |- context [Zpos ?p mod 64] => let v := eval vm_compute in (Zpos p mod 64) in change (Zpos p mod 64) with v
         | |- context [Zpos ?p mod 32] => let v := eval vm_compute in (Zpos p mod 32) in change (Zpos p mod 32) with v
         | |- context [Zpos ?p =? 0] => change (Zpos p =? 0) with false
         end;
  cbv beta iota.
Ltac step' p := step p; lits.


(* the data flow of the (inlined) div10W instruction block: DX = n1, AX = n0 on
   entry, quotient in DX and remainder in AX on exit *)
Definition a_div10W (n1 n0 : Z) : Z * Z :=
  let bx := sar64 n0 63 in
  let ax := sub_lo n1 bx 0 in
  let hi := mul_hi ax c_mP in
  let lo := mul_lo ax c_mP in
  let bx2 := add_lo (Z.land bx c_DB) n0 0 in
  let ax2 := add_lo lo bx2 0 in
  let dx2 := add_lo hi n1 (b2z (W64 <=? lo + bx2 + 0)) in
  let t := not64 dx2 in
  let hi' := mul_hi t c_DB in
  let lo' := mul_lo t c_DB in
  let ax3 := add_lo lo' n0 0 in
  let dx3 := add_lo hi' n1 (b2z (W64 <=? lo' + n0 + 0)) in
  let dx4 := sub_lo dx3 c_DB 0 in
  let cx := Z.land c_DB dx4 in
  (sub_lo dx4 t 0, add_lo ax3 cx 0).

(* MULQ; ADDQ c, AX; ADCQ n, DX *)
Lemma mulq_adc a b c n : 0 <= a < W64 -> 0 <= b < W64 -> 0 <= c < W64 ->
  add_lo (mul_lo a b) c 0 = (a * b + c) mod W64 /\
  add_lo (mul_hi a b) n (b2z (W64 <=? mul_lo a b + c + 0)) = ((a * b + c) / W64 + n) mod W64.
Proof.
  intros Ha Hb Hc. destruct (mulq_addq a b c Ha Hb Hc) as [E1 E2]. split; [exact E1|].
  rewrite <- E2. unfold add_lo. rewrite Zplus_mod_idemp_l. f_equal. lia.
Qed.

Lemma a_div10W_correct n1 n0 : 0 <= n1 < B -> 0 <= n0 < W64 -> a_div10W n1 n0 = spec_div10W n1 n0.
Proof.
  intros H1 H0. bw. unfold a_div10W, spec_div10W. rewrite c_DB_B.
  rewrite sar64_63 by lia.
  pose proof mP_range as HmP.
  assert (Hs : exists nb, (n0 < HALF64 /\ nb = 0 \/ HALF64 <= n0 /\ nb = 1) /\
             sub_lo n1 (sar63 n0) 0 = n1 + nb /\ Z.land (sar63 n0) B = nb * B).
  { destruct (sar63_cases n0) as [[Hlt ->] | [Hge ->]].
    - exists 0. split; [left; lia|]. split; [rewrite sub_lo_small; lia | rewrite Z.land_0_l; lia].
    - exists 1. split; [right; lia|]. split.
      + rewrite sub_lo_under by lia. lia.
      + rewrite land_max_l by lia. lia. }
  destruct Hs as (nb & Hnb & -> & ->).
  set (nadj := add_lo (nb * B) n0 0).
  assert (Hadj : nadj = n0 + nb * (B - W64)).
  { unfold nadj. destruct Hnb as [[? ->] | [? ->]].
    - rewrite add_lo_small; lia.
    - rewrite add_lo_over; lia. }
  assert (Hadjr : 0 <= nadj < W64) by apply add_lo_range.
  assert (Hnn : 0 <= n1 + nb < W64) by (destruct Hnb as [[? ->] | [? ->]]; lia).
  destruct (mulq_adc (n1 + nb) c_mP nadj n1 Hnn HmP Hadjr) as [_ ->].
  set (P := (n1 + nb) * c_mP + nadj).
  pose proof (Z.div_mod P W64 ltac:(lia)) as HP. pose proof (Z.mod_pos_bound P W64 ltac:(lia)) as Hlo.
  pose proof (gm_estimate n1 n0 nb nadj (P / W64) (P mod W64) H1 H0 Hnb Hadj ltac:(unfold P in *; lia) Hlo) as HT.
  assert (HP0 : 0 <= P / W64) by (apply Z.div_pos; [unfold P; destruct Hnb as [[? ->] | [? ->]]; nia | lia]).
  set (hi := P / W64) in *.
  set (q1 := n1 + hi).
  assert (Hq1 : 0 <= q1 < W64).
  { split; [unfold q1; lia|]. apply Z.mul_lt_mono_pos_r with (p := B); [lia|].
    assert (n1 * W64 <= (B - 1) * W64) by (apply Z.mul_le_mono_nonneg_r; lia). unfold q1. lia. }
  rewrite (Z.mod_small (hi + n1)) by (unfold q1 in *; lia).
  replace (hi + n1) with q1 by (unfold q1; lia).
  set (T := n1 * W64 + n0 - q1 * B) in *.
  assert (HT' : 0 <= T < 2 * B) by (unfold T, q1; lia).
  unfold not64. set (t := MAX64 - q1).
  destruct (mulq_adc t B n0 n1 ltac:(unfold t; lia) ltac:(lia) H0) as [-> ->].
  assert (Ht : t * B + n0 = (T - B) + W64 * (B - n1)) by (unfold t, T; lia).
  destruct (Z_lt_le_dec T B) as [Hlt | Hge].
  - assert (Ed : (t * B + n0) / W64 = B - n1 - 1) by (symmetry; apply Z.div_unique with (r := T - B + W64); lia).
    assert (Em : (t * B + n0) mod W64 = T - B + W64) by (symmetry; apply Z.mod_unique with (q := B - n1 - 1); lia).
    rewrite Ed, Em.
    replace (B - n1 - 1 + n1) with (B - 1) by lia. rewrite (Z.mod_small (B - 1)) by lia.
    rewrite (sub_lo_under (B - 1) B 0) by lia.
    replace (B - 1 - B - 0 + W64) with MAX64 by lia.
    rewrite land_max_r by lia.
    rewrite sub_lo_small by (unfold t; lia). rewrite add_lo_over by lia.
    f_equal.
    + apply Z.div_unique with (r := T); unfold t, T in *; lia.
    + apply Z.mod_unique with (q := q1); unfold t, T in *; lia.
  - assert (Hq1' : q1 + 1 < W64).
    { apply Z.mul_lt_mono_pos_r with (p := B); [lia|].
      assert (n1 * W64 <= (B - 1) * W64) by (apply Z.mul_le_mono_nonneg_r; lia). unfold T in *. lia. }
    assert (Ed : (t * B + n0) / W64 = B - n1) by (symmetry; apply Z.div_unique with (r := T - B); lia).
    assert (Em : (t * B + n0) mod W64 = T - B) by (symmetry; apply Z.mod_unique with (q := B - n1); lia).
    rewrite Ed, Em.
    replace (B - n1 + n1) with B by lia. rewrite (Z.mod_small B) by lia.
    rewrite (sub_lo_small B B 0) by lia. replace (B - B - 0) with 0 by lia.
    rewrite Z.land_0_r.
    rewrite sub_lo_under by (unfold t; lia). rewrite add_lo_small by lia.
    f_equal.
    + apply Z.div_unique with (r := T - B); unfold t, T in *; lia.
    + apply Z.mod_unique with (q := q1 + 1); unfold t, T in *; lia.
Qed.

Theorem asm_div10W_correct E n1 n0 rs m :
  0 <= n1 < B -> 0 <= n0 < W64 ->
  exists s', (forall f, run (25 + S f) E prog_div10W (init_state rs [n1; n0] m) = Some s') /\
             st_frame s' 2 = fst (spec_div10W n1 n0) /\
             st_frame s' 3 = snd (spec_div10W n1 n0) /\
             st_mem s' = m.
Proof.
  intros H1 H0. bw.
  destruct rs as [ax bx cx dx si di r8 r9 r10 r11 r12 r13 r14].
  unfold init_state.
  set (fr := frame_of [n1; n0]).
  assert (F0 : fr 0 = n1) by reflexivity. assert (F1 : fr 1 = n0) by reflexivity. clearbody fr.
  eexists. split.
  - intros f. erewrite run_steps; [apply run_ret|].
    2:{ step' prog_div10W. rewrite F0. step' prog_div10W. rewrite F1.
        do 23 (step' prog_div10W). reflexivity. }
    reflexivity.
  - cbn [st_frame st_mem]. rewrite <- a_div10W_correct by assumption.
    rewrite (upd_other _ 3 _ 2) by lia. rewrite !upd_same.
    cbv beta iota zeta delta [a_div10W fst snd c_mP c_DB]. repeat split.
Qed.


Theorem asm_mul10WW_correct E x y rs m :
  0 <= x < W64 -> 0 <= y < W64 -> x * y < B * W64 ->
  exists s', (forall f, run (27 + S f) E prog_mul10WW (init_state rs [x; y] m) = Some s') /\
             st_frame s' 2 = fst (spec_mul10WW x y) /\
             st_frame s' 3 = snd (spec_mul10WW x y) /\
             st_mem s' = m.
Proof.
  intros Hx Hy Hxy. bw.
  destruct rs as [ax bx cx dx si di r8 r9 r10 r11 r12 r13 r14].
  unfold init_state.
  set (fr := frame_of [x; y]).
  assert (F0 : fr 0 = x) by reflexivity. assert (F1 : fr 1 = y) by reflexivity. clearbody fr.
  pose proof (mul_hi_lo x y) as E1. pose proof (mul_lo_range x y). pose proof (mul_hi_range x y Hx Hy).
  assert (Hh : mul_hi x y < B) by (unfold mul_hi; apply Z.div_lt_upper_bound; lia).
  eexists. split.
  - intros f. erewrite run_steps; [apply run_ret|].
    2:{ step' prog_mul10WW. rewrite F0. step' prog_mul10WW. rewrite F1.
        do 25 (step' prog_mul10WW). reflexivity. }
    reflexivity.
  - cbn [st_frame st_mem]. unfold spec_mul10WW. rewrite <- E1.
    change ((mul_hi x y * W64 + mul_lo x y) / B, (mul_hi x y * W64 + mul_lo x y) mod B)
      with (spec_div10W (mul_hi x y) (mul_lo x y)).
    rewrite <- a_div10W_correct by lia.
    rewrite (upd_other _ 3 _ 2) by lia. rewrite !upd_same.
    cbv beta iota zeta delta [a_div10W fst snd c_mP c_DB]. repeat split.
Qed.

(* ================================================================ loops *)
(* ------------------------------------------------------------ memory access *)
Lemma load_ea E m a w : a = 8 * w -> 0 <= w < e_msize E -> 8 * e_msize E <= W64 ->
  load E m (wrap a) = Some (m w).
Proof.
  intros -> Hw Hm. rewrite wrap_small by lia. unfold load.
  replace (8 * w mod 8) with 0 by (rewrite Z.mul_comm, Z.mod_mul; lia).
  replace (8 * w / 8) with w by (rewrite Z.mul_comm, Z.div_mul; lia).
  cbn [Z.eqb]. destruct (Z.leb_spec 0 w); [|lia]. destruct (Z.ltb_spec w (e_msize E)); [|lia]. reflexivity.
Qed.

Lemma store_ea E m a w v : a = 8 * w -> 0 <= w < e_msize E -> 8 * e_msize E <= W64 ->
  store E m (wrap a) v = Some (upd m w v).
Proof.
  intros -> Hw Hm. rewrite wrap_small by lia. unfold store.
  replace (8 * w mod 8) with 0 by (rewrite Z.mul_comm, Z.mod_mul; lia).
  replace (8 * w / 8) with w by (rewrite Z.mul_comm, Z.div_mul; lia).
  cbn [Z.eqb]. destruct (Z.leb_spec 0 w); [|lia]. destruct (Z.ltb_spec w (e_msize E)); [|lia]. reflexivity.
Qed.

Ltac ld w :=
  match goal with
  | |- context [load ?E ?m (wrap ?a)] => rewrite (load_ea E m a w) by lia; cbv beta iota
  end.
Ltac st w :=
  match goal with
  | |- context [store ?E ?m (wrap ?a) ?v] => rewrite (store_ea E m a w v) by lia; cbv beta iota
  end.

(* ------------------------------------------------------------ conditions *)
Lemma sub_lo_cases a b : 0 <= a < W64 -> 0 <= b < W64 ->
  (a - b < 0 /\ sub_lo a b 0 = a - b + W64) \/ (0 <= a - b /\ sub_lo a b 0 = a - b).
Proof.
  intros. destruct (Z_lt_le_dec (a - b) 0); [left | right]; split; try lia.
  - rewrite sub_lo_under; lia.
  - rewrite sub_lo_small; lia.
Qed.

Ltac cond_cases a b Ha Hb :=
  w64; unfold cond_holds, flags_sub, fZF, fSF, fOF, fCF, zf_of, sf_of, msb, in_s64, option_map;
  destruct (sub_lo_cases a b Ha Hb) as [[Hd ->] | [Hd ->]];
  destruct (signed_cases a) as [[Hsa ->] | [Hsa ->]]; destruct (signed_cases b) as [[Hsb ->] | [Hsb ->]];
  repeat match goal with
         | |- context [?p <=? ?q] => destruct (Z.leb_spec p q)
         | |- context [?p <? ?q] => destruct (Z.ltb_spec p q)
         | |- context [?p =? ?q] => destruct (Z.eqb_spec p q)
         end; cbn [negb xorb andb orb]; try reflexivity; try lia.

Lemma cond_ge_sub a b : 0 <= a < W64 -> 0 <= b < W64 ->
  cond_holds CondGE (flags_sub a b 0) = Some (signed b <=? signed a).
Proof. intros Ha Hb. cond_cases a b Ha Hb. Qed.
Lemma cond_l_sub a b : 0 <= a < W64 -> 0 <= b < W64 ->
  cond_holds CondL (flags_sub a b 0) = Some (signed a <? signed b).
Proof. intros Ha Hb. cond_cases a b Ha Hb. Qed.
Lemma cond_g_sub a b : 0 <= a < W64 -> 0 <= b < W64 ->
  cond_holds CondG (flags_sub a b 0) = Some (signed b <? signed a).
Proof. intros Ha Hb. cond_cases a b Ha Hb. Qed.
Lemma cond_le_sub a b : 0 <= a < W64 -> 0 <= b < W64 ->
  cond_holds CondLE (flags_sub a b 0) = Some (signed a <=? signed b).
Proof. intros Ha Hb. cond_cases a b Ha Hb. Qed.
Lemma cond_eq_sub a b : 0 <= a < W64 -> 0 <= b < W64 ->
  cond_holds CondEQ (flags_sub a b 0) = Some (a =? b).
Proof.
  intros Ha Hb. w64. unfold cond_holds, flags_sub, fZF, zf_of.
  destruct (sub_lo_cases a b Ha Hb) as [[Hd ->] | [Hd ->]]; destruct (Z.eqb_spec a b);
    match goal with |- context [?p =? 0] => destruct (Z.eqb_spec p 0) end; try reflexivity; lia.
Qed.
Lemma cond_ne_sub a b : 0 <= a < W64 -> 0 <= b < W64 ->
  cond_holds CondNE (flags_sub a b 0) = Some (negb (a =? b)).
Proof.
  intros Ha Hb. pose proof (cond_eq_sub a b Ha Hb) as H. unfold cond_holds in *. now rewrite H.
Qed.
Lemma cond_cc_sub a b c : cond_holds CondCC (flags_sub a b c) = Some (negb (a - b - c <? 0)).
Proof. reflexivity. Qed.

Lemma signed_small a : 0 <= a < HALF64 -> signed a = a.
Proof. intros. destruct (signed_cases a) as [[? ->] | [? ?]]; lia. Qed.

(* ------------------------------------------------------------ div10VWW *)
Section Div10VWW.
Variables (E : env) (z x y : Z) (fr : mem).
Variables (di r11 r12 r13 r14 : Z).
Hypothesis Hm : 8 * e_msize E <= W64.
Hypothesis Hy : 0 < y < W64.

Definition st7 (ax bx r k : Z) (fl : flags) (m : mem) : state :=
  mkState (mkRegs ax bx B r k di (8 * x) y (8 * z) r11 r12 r13 r14) fl m fr 14.

Lemma div10VWW_iter k ax bx r fl m :
  0 <= x -> x + Z.of_nat (S k) <= e_msize E -> 0 <= z -> z + Z.of_nat (S k) <= e_msize E ->
  0 <= r < y -> 0 <= m (x + Z.of_nat k) < B ->
  exists ax' fl',
    steps 10 E prog_div10VWW (st7 ax bx r (Z.of_nat (S k)) fl m) =
    Some (st7 ax' bx (snd (g_div10WW r (m (x + Z.of_nat k)) y)) (Z.of_nat k) fl'
              (upd m (z + Z.of_nat k) (fst (g_div10WW r (m (x + Z.of_nat k)) y)))).
Proof.
  intros Hx0 Hx1 Hz0 Hz1 Hr Hw. bw. unfold st7.
  set (w := m (x + Z.of_nat k)) in *.
  destruct (mulq_addq r B w) as [Elo Ehi]; try lia.
  assert (Hq : (r * B + w) / W64 < y) by (apply Z.div_lt_upper_bound; nia).
  assert (Hk : 0 <= Z.of_nat (S k) < HALF64) by lia.
  do 2 eexists.
  step' prog_div10VWW.
  step' prog_div10VWW.
  step' prog_div10VWW.
  rewrite cond_ge_sub by lia. rewrite !signed_small by lia.
  destruct (Z.leb_spec 1 (Z.of_nat (S k))); [|lia]. cbv beta iota.
  step' prog_div10VWW.
  step' prog_div10VWW.
  step' prog_div10VWW.
  rewrite sub_lo_small by lia. replace (Z.of_nat (S k) - 1 - 0) with (Z.of_nat k) by lia.
  step' prog_div10VWW. ld (x + Z.of_nat k). fold w.
  step' prog_div10VWW. rewrite Elo, Ehi.
  step' prog_div10VWW. rewrite divq_ok by lia. cbv beta iota.
  step' prog_div10VWW. st (z + Z.of_nat k).
  cbn [steps]. unfold g_div10WW, g_divWW. rewrite c_DB_B, g_mulAddWWW_correct by lia. cbn [fst snd].
  reflexivity.
Qed.

Lemma div10VWW_loop n k : forall ax bx r fl m,
  desc_ok z x n -> Z.of_nat k <= n ->
  0 <= x -> x + Z.of_nat k <= e_msize E -> 0 <= z -> z + Z.of_nat k <= e_msize E ->
  0 <= r < y -> (forall j, 0 <= j < Z.of_nat k -> 0 <= m (x + j) < B) ->
  exists N ax' fl',
    steps N E prog_div10VWW (st7 ax bx r (Z.of_nat k) fl m) =
    Some (st7 ax' bx (fst (g_div10VWW_loop k z x y r m)) 0 fl' (snd (g_div10VWW_loop k z x y r m))).
Proof.
  induction k as [|k IH]; intros ax bx r fl m Hd Hk Hx0 Hx1 Hz0 Hz1 Hr Hw.
  - exists 0%nat, ax, fl. reflexivity.
  - destruct (div10VWW_iter k ax bx r fl m) as (ax1 & fl1 & H1); try lia.
    { apply Hw; lia. }
    pose proof B_lt_W64.
    assert (Hr' : 0 <= snd (g_div10WW r (m (x + Z.of_nat k)) y) < y).
    { rewrite g_div10WW_correct by (specialize (Hw (Z.of_nat k)); lia).
      unfold spec_div10WW. cbn [snd]. apply Z.mod_pos_bound; lia. }
    destruct (IH ax1 bx (snd (g_div10WW r (m (x + Z.of_nat k)) y)) fl1
                 (upd m (z + Z.of_nat k) (fst (g_div10WW r (m (x + Z.of_nat k)) y)))) as (N & ax2 & fl2 & H2);
      try lia; try assumption.
    { intros j Hj. rewrite upd_other by (unfold desc_ok in Hd; lia). apply Hw; lia. }
    exists (10 + N)%nat, ax2, fl2.
    rewrite (steps_add 10 N _ _ _ _ H1). rewrite H2. reflexivity.
Qed.
End Div10VWW.

Lemma rd_words_ok_nth m a k : words_ok (rd m a k) = true -> forall j, 0 <= j < Z.of_nat k -> 0 <= m (a + j) < B.
Proof.
  revert a; induction k as [|k IH]; intros a H j Hj; [lia|].
  apply words_ok_rd_S in H as [H0 H1].
  destruct (Z.eq_dec j 0) as [->|Hne]; [now rewrite Z.add_0_r|].
  replace (a + j) with (a + 1 + (j - 1)) by lia. apply IH; [assumption | lia].
Qed.

Theorem asm_div10VWW_correct E n z x y xn rs m :
  8 * e_msize E <= W64 ->
  0 <= z -> z + Z.of_nat n <= e_msize E -> 0 <= x -> x + Z.of_nat n <= e_msize E ->
  desc_ok z x (Z.of_nat n) -> 0 < y < W64 -> 0 <= xn < y -> words_ok (rd m x n) = true ->
  exists N s', (forall f, run (N + S f) E prog_div10VWW
                             (init_state rs (slice z n ++ slice x n ++ [y; xn]) m) = Some s') /\
               st_frame s' 8 = snd (spec_div10VWW (rd m x n) y xn) /\
               mem_eq (st_mem s') (wr m z (fst (spec_div10VWW (rd m x n) y xn))).
Proof.
  intros Hm Hz0 Hz1 Hx0 Hx1 Hd Hy Hxn Hw. bw.
  destruct rs as [ax bx cx dx si di r8 r9 r10 r11 r12 r13 r14].
  unfold init_state.
  set (fr := frame_of (slice z n ++ slice x n ++ [y; xn])).
  assert (F0 : fr 0 = 8 * z) by reflexivity. assert (F1 : fr 1 = Z.of_nat n) by reflexivity.
  assert (F3 : fr 3 = 8 * x) by reflexivity. assert (F6 : fr 6 = y) by reflexivity.
  assert (F7 : fr 7 = xn) by reflexivity. clearbody fr.
  destruct (div10VWW_loop E z x y fr di r11 r12 r13 r14 Hm Hy (Z.of_nat n) n ax bx xn flags0 m)
    as (N & ax' & fl' & HL); try lia; try assumption.
  { now apply rd_words_ok_nth. }
  destruct (g_div10VWW_correct n z x y xn m Hd Hy Hxn Hw) as [Gr Gm]. unfold g_div10VWW in Gr, Gm.
  set (rfin := fst (g_div10VWW_loop n z x y xn m)) in *.
  set (mfin := snd (g_div10VWW_loop n z x y xn m)) in *.
  assert (Hrfin : 0 <= rfin < W64).
  { rewrite Gr. unfold spec_div10VWW. cbn [snd]. pose proof (Z.mod_pos_bound (xn * Bn (rd m x n) + val (rd m x n)) y). lia. }
  eexists (7 + (N + 4))%nat, _. split.
  - intros f. erewrite run_steps; [apply run_ret|].
    2:{ erewrite steps_add.
        2:{ step' prog_div10VWW. rewrite F0. step' prog_div10VWW. rewrite F3.
            step' prog_div10VWW. rewrite F6. step' prog_div10VWW. rewrite F7.
            step' prog_div10VWW. rewrite F1. step' prog_div10VWW. step' prog_div10VWW.
            replace 10000000000000000000 with B by (rewrite B_eq; reflexivity). reflexivity. }
        erewrite steps_add; [|exact HL].
        unfold st7.
        step' prog_div10VWW. step' prog_div10VWW.
        step' prog_div10VWW. rewrite cond_ge_sub by lia. rewrite !signed_small by lia.
        change (1 <=? 0) with false. cbv beta iota.
        step' prog_div10VWW. reflexivity. }
    reflexivity.
  - cbn [st_frame st_mem]. rewrite upd_same. split; [exact Gr | exact Gm].
Qed.

Section MulAdd10VWW.
Variables (E : env) (z x y n : Z) (fr : mem).
Variables (r12 : Z).
Hypothesis Hm : 8 * e_msize E <= W64.
Hypothesis Hy : 0 <= y < B.
Hypothesis Hn : 0 <= n < HALF64.

Definition st10 (ax bx cx dx r13 r14 : Z) (i c : Z) (fl : flags) (m : mem) (pc : nat) : state :=
  mkState (mkRegs ax bx cx dx i n (8 * x) y (8 * z) c r12 r13 r14) fl m fr pc.

Lemma mulAdd10VWW_iter ax bx cx dx r13 r14 i c fl m :
  0 <= x -> 0 <= z -> 0 <= i -> i + 1 <= n -> x + n <= e_msize E -> z + n <= e_msize E ->
  0 <= c < B -> 0 <= m (x + i) < B ->
  let hl := g_mulAddWWW (m (x + i)) y c in
  let qr := g_div10W (fst hl) (snd hl) in
  exists ax' bx' cx' dx' r13' r14' fl',
    steps 33 E prog_mulAdd10VWW (st10 ax bx cx dx r13 r14 i c fl m 8) =
    Some (st10 ax' bx' cx' dx' r13' r14' (i + 1) (fst qr) fl' (upd m (z + i) (snd qr))
               (if i + 1 <? n then 8%nat else 41%nat)).
Proof.
  intros Hx0 Hz0 Hi0 Hi1 Hx1 Hz1 Hc Hw hl qr. bw. unfold st10.
  set (w := m (x + i)) in *.
  destruct (mulq_addq w y c) as [Elo Ehi]; try lia.
  destruct (g_mulAdd_step w y c Hw Hy Hc) as [Gqr Gc]. fold hl in Gqr. fold qr in Gqr.
  assert (Hhl : hl = ((w * y + c) / W64, (w * y + c) mod W64)) by (unfold hl; apply g_mulAddWWW_correct; lia).
  assert (HH : 0 <= (w * y + c) / W64 < B).
  { split; [apply Z.div_pos; nia | apply Z.div_lt_upper_bound; nia]. }
  pose proof (Z.mod_pos_bound (w * y + c) W64 ltac:(lia)) as HL.
  do 7 eexists.
  step' prog_mulAdd10VWW.
  step' prog_mulAdd10VWW. ld (x + i). fold w.
  step' prog_mulAdd10VWW.
  step' prog_mulAdd10VWW.
  step' prog_mulAdd10VWW. rewrite Elo, Ehi.
  set (hh := (w * y + c) / W64) in *. set (ll := (w * y + c) mod W64) in *.
  do 23 (step' prog_mulAdd10VWW).
  step' prog_mulAdd10VWW.
  step' prog_mulAdd10VWW. st (z + i).
  step' prog_mulAdd10VWW.
  rewrite (add_lo_small i 1 0) by lia. replace (i + 1 + 0) with (i + 1) by lia.
  step' prog_mulAdd10VWW.
  step' prog_mulAdd10VWW. rewrite cond_l_sub by lia. rewrite !signed_small by lia.
  assert (Eq : qr = a_div10W hh ll).
  { rewrite a_div10W_correct by lia. rewrite Gqr. unfold spec_div10W, hh, ll.
    pose proof (Z.div_mod (w * y + c) W64 ltac:(lia)) as Ed.
    replace ((w * y + c) / W64 * W64 + (w * y + c) mod W64) with (w * y + c) by lia. reflexivity. }
  rewrite Eq. cbv beta iota zeta delta [a_div10W fst snd c_mP c_DB].
  destruct (i + 1 <? n); cbv beta iota; cbn [steps]; reflexivity.
Qed.

Lemma pair_eq_inv {A C} (a c : A) (b d : C) : (a, b) = (c, d) -> a = c /\ b = d.
Proof. intros H; inversion H; auto. Qed.

Lemma g_mulAdd10VWW_loop_S k i c m :
  g_mulAdd10VWW_loop (S k) z x y i c m =
  g_mulAdd10VWW_loop k z x y (i + 1) (fst (g_div10W (fst (g_mulAddWWW (m (x + i)) y c)) (snd (g_mulAddWWW (m (x + i)) y c))))
    (upd m (z + i) (snd (g_div10W (fst (g_mulAddWWW (m (x + i)) y c)) (snd (g_mulAddWWW (m (x + i)) y c))))).
Proof. reflexivity. Qed.

Lemma mulAdd10VWW_loop k : forall ax bx cx dx r13 r14 i c fl m cf mf,
  g_mulAdd10VWW_loop (S k) z x y i c m = (cf, mf) ->
  asc_ok z x n -> 0 <= x -> 0 <= z -> 0 <= i -> i + Z.of_nat (S k) = n ->
  x + n <= e_msize E -> z + n <= e_msize E -> 0 <= c < B ->
  (forall j, i <= j < n -> 0 <= m (x + j) < B) ->
  exists N ax' bx' cx' dx' r13' r14' fl',
    steps N E prog_mulAdd10VWW (st10 ax bx cx dx r13 r14 i c fl m 8) =
    Some (st10 ax' bx' cx' dx' r13' r14' n cf fl' mf 41).
Proof.
  induction k as [|k IH]; intros ax bx cx dx r13 r14 i c fl m cf mf HG Ha Hx0 Hz0 Hi0 Hik Hx1 Hz1 Hc Hw;
    rewrite g_mulAdd10VWW_loop_S in HG;
    destruct (mulAdd10VWW_iter ax bx cx dx r13 r14 i c fl m) as (a1 & b1 & c1 & d1 & e1 & f1 & fl1 & H1);
    try lia; try (apply Hw; lia).
  - destruct (Z.ltb_spec (i + 1) n); [lia|].
    cbn [g_mulAdd10VWW_loop] in HG. apply pair_eq_inv in HG as [E1 E2]. subst cf mf.
    exists 33%nat, a1, b1, c1, d1, e1, f1, fl1. rewrite H1.
    replace (i + 1) with n by lia. reflexivity.
  - destruct (Z.ltb_spec (i + 1) n); [|lia].
    destruct (g_mulAdd_step (m (x + i)) y c ltac:(apply Hw; lia) Hy Hc) as [Gqr Gc].
    destruct (IH a1 b1 c1 d1 e1 f1 (i + 1) _ fl1 _ cf mf HG)
      as (N & a2 & b2 & c2 & d2 & e2 & f2 & fl2 & H2); try lia; try assumption.
    { rewrite Gqr. exact Gc. }
    { intros j Hj. rewrite upd_other by (unfold asc_ok in Ha; lia). apply Hw; lia. }
    exists (33 + N)%nat, a2, b2, c2, d2, e2, f2, fl2.
    rewrite (steps_add 33 N _ _ _ _ H1). exact H2.
Qed.
End MulAdd10VWW.

Theorem asm_mulAdd10VWW_correct E n z x y r rs m :
  8 * e_msize E <= W64 ->
  0 <= z -> z + Z.of_nat n <= e_msize E -> 0 <= x -> x + Z.of_nat n <= e_msize E ->
  asc_ok z x (Z.of_nat n) -> 0 <= y < B -> 0 <= r < B -> words_ok (rd m x n) = true ->
  exists N s', (forall f, run (N + S f) E prog_mulAdd10VWW
                             (init_state rs (slice z n ++ slice x n ++ [y; r]) m) = Some s') /\
               st_frame s' 8 = snd (spec_mulAdd10VWW (rd m x n) y r) /\
               mem_eq (st_mem s') (wr m z (fst (spec_mulAdd10VWW (rd m x n) y r))).
Proof.
  intros Hm Hz0 Hz1 Hx0 Hx1 Ha Hy Hr Hw. bw.
  assert (Hn : 0 <= Z.of_nat n < HALF64) by lia.
  destruct rs as [ax bx cx dx si di r8 r9 r10 r11 r12 r13 r14].
  unfold init_state.
  set (fr := frame_of (slice z n ++ slice x n ++ [y; r])).
  assert (F0 : fr 0 = 8 * z) by reflexivity. assert (F1 : fr 1 = Z.of_nat n) by reflexivity.
  assert (F3 : fr 3 = 8 * x) by reflexivity. assert (F6 : fr 6 = y) by reflexivity.
  assert (F7 : fr 7 = r) by reflexivity. clearbody fr.
  destruct (g_mulAdd10VWW_correct n z x y r m Ha Hy Hr Hw) as [Gr Gm]. unfold g_mulAdd10VWW in Gr, Gm.
  destruct (g_mulAdd10VWW_loop n z x y 0 r m) as [cf mf] eqn:EL. cbn [fst snd] in Gr, Gm.
  assert (Pre : steps 8 E prog_mulAdd10VWW
            (mkState (mkRegs ax bx cx dx si di r8 r9 r10 r11 r12 r13 r14) flags0 m fr 0) =
          Some (st10 z x y (Z.of_nat n) fr r12 ax bx cx dx r13 r14 0 r (flags_sub 0 (Z.of_nat n) 0) m
                     (if Z.of_nat n <=? 0 then 41%nat else 8%nat))).
  { unfold st10.
    step' prog_mulAdd10VWW. rewrite F0. step' prog_mulAdd10VWW. rewrite F3.
    step' prog_mulAdd10VWW. rewrite F6. step' prog_mulAdd10VWW. rewrite F7.
    step' prog_mulAdd10VWW. rewrite F1. step' prog_mulAdd10VWW. step' prog_mulAdd10VWW.
    step' prog_mulAdd10VWW. rewrite cond_ge_sub by lia. rewrite !signed_small by lia.
    destruct (Z.of_nat n <=? 0); reflexivity. }
  destruct n as [|n].
  - (* empty vector *)
    cbn [g_mulAdd10VWW_loop] in EL. apply pair_eq_inv in EL as [E1 E2]. subst cf mf.
    eexists (8 + 2)%nat, _. split.
    + intros f. erewrite run_steps; [apply run_ret|].
      2:{ erewrite steps_add; [|exact Pre]. change (Z.of_nat 0 <=? 0) with true. cbv beta iota. unfold st10.
          step' prog_mulAdd10VWW. step' prog_mulAdd10VWW. reflexivity. }
      reflexivity.
    + cbn [st_frame st_mem]. rewrite upd_same. split; [exact Gr | exact Gm].
  - destruct (mulAdd10VWW_loop E z x y (Z.of_nat (S n)) fr r12 Hm Hy Hn n ax bx cx dx r13 r14 0 r
                (flags_sub 0 (Z.of_nat (S n)) 0) m cf mf EL)
      as (N & a2 & b2 & c2 & d2 & e2 & f2 & fl2 & HL); try lia; try assumption.
    { intros j Hj. replace (x + j) with (x + j) by lia. apply (rd_words_ok_nth m x (S n) Hw); lia. }
    eexists (8 + (N + 2))%nat, _. split.
    + intros f. erewrite run_steps; [apply run_ret|].
      2:{ erewrite steps_add; [|exact Pre].
          destruct (Z.leb_spec (Z.of_nat (S n)) 0); [lia|].
          erewrite steps_add; [|exact HL]. unfold st10.
          step' prog_mulAdd10VWW. step' prog_mulAdd10VWW. reflexivity. }
      reflexivity.
    + cbn [st_frame st_mem]. rewrite upd_same. split; [exact Gr | exact Gm].
Qed.

Lemma adc0_eq h lo c : 0 <= lo < W64 -> 0 <= c < W64 ->
  add_lo h 0 (b2z (W64 <=? lo + c + 0)) = add_lo h (add_c lo c 0) 0.
Proof.
  intros Hl Hc. rewrite (add_c_leb lo c 0) by lia.
  unfold add_lo, b2z. destruct (W64 <=? lo + c + 0); f_equal; lia.
Qed.

Section AddMul10VVW.
Variables (E : env) (z x y n : Z) (fr : mem).
Variables (r12 : Z).
Hypothesis Hm : 8 * e_msize E <= W64.
Hypothesis Hy : 0 <= y < B.
Hypothesis Hn : 0 <= n < HALF64.

Definition st11 (ax bx cx dx r13 r14 : Z) (i c : Z) (fl : flags) (m : mem) (pc : nat) : state :=
  mkState (mkRegs ax bx cx dx i n (8 * x) y (8 * z) c r12 r13 r14) fl m fr pc.

Definition addMul_qr (m : mem) (i c : Z) : Z * Z :=
  let hz := g_mulAddWWW (m (x + i)) y (m (z + i)) in
  g_div10W (add_lo (fst hz) (add_c (snd hz) c 0) 0) (add_lo (snd hz) c 0).

Lemma g_addMul10VVW_loop_S k i c m :
  g_addMul10VVW_loop (S k) z x y i c m =
  g_addMul10VVW_loop k z x y (i + 1) (fst (addMul_qr m i c)) (upd m (z + i) (snd (addMul_qr m i c))).
Proof. reflexivity. Qed.

Lemma addMul10VVW_iter ax bx cx dx r13 r14 i c fl m :
  0 <= x -> 0 <= z -> 0 <= i -> i + 1 <= n -> x + n <= e_msize E -> z + n <= e_msize E ->
  0 <= c < B -> 0 <= m (x + i) < B -> 0 <= m (z + i) < B ->
  exists ax' bx' cx' dx' r13' r14' fl',
    steps 35 E prog_addMul10VVW (st11 ax bx cx dx r13 r14 i c fl m 8) =
    Some (st11 ax' bx' cx' dx' r13' r14' (i + 1) (fst (addMul_qr m i c)) fl'
               (upd m (z + i) (snd (addMul_qr m i c)))
               (if i + 1 <? n then 8%nat else 43%nat)).
Proof.
  intros Hx0 Hz0 Hi0 Hi1 Hx1 Hz1 Hc Hw Hwz. bw. unfold st11, addMul_qr.
  set (w := m (x + i)) in *. set (zi := m (z + i)) in *.
  destruct (mulq_addq w y zi) as [Elo Ehi]; try lia.
  destruct (g_addMul_step w y zi c Hw Hy Hwz Hc) as [Gqr [Gc Ghh]].
  assert (Hhz : g_mulAddWWW w y zi = ((w * y + zi) / W64, (w * y + zi) mod W64)) by (apply g_mulAddWWW_correct; lia).
  rewrite Hhz in *. cbn [fst snd] in *.
  pose proof (Z.mod_pos_bound (w * y + zi) W64 ltac:(lia)) as HL1.
  set (h1 := (w * y + zi) / W64) in *. set (l1 := (w * y + zi) mod W64) in *.
  pose proof (add_lo_range l1 c 0) as HL2.
  do 7 eexists.
  step' prog_addMul10VVW.
  step' prog_addMul10VVW. ld (x + i). fold w.
  step' prog_addMul10VVW.
  step' prog_addMul10VVW. ld (z + i). fold zi.
  step' prog_addMul10VVW. rewrite Elo, Ehi.
  step' prog_addMul10VVW.
  step' prog_addMul10VVW. rewrite (adc0_eq h1 l1 c) by lia.
  set (hh := add_lo h1 (add_c l1 c 0) 0) in *. set (ll := add_lo l1 c 0) in *.
  do 23 (step' prog_addMul10VVW).
  step' prog_addMul10VVW.
  step' prog_addMul10VVW. st (z + i).
  step' prog_addMul10VVW.
  rewrite (add_lo_small i 1 0) by lia. replace (i + 1 + 0) with (i + 1) by lia.
  step' prog_addMul10VVW.
  step' prog_addMul10VVW. rewrite cond_l_sub by lia. rewrite !signed_small by lia.
  assert (Eq : g_div10W hh ll = a_div10W hh ll).
  { rewrite a_div10W_correct, g_div10W_correct by lia. reflexivity. }
  rewrite Eq. cbv beta iota zeta delta [a_div10W fst snd c_mP c_DB].
  destruct (i + 1 <? n); cbv beta iota; cbn [steps]; reflexivity.
Qed.

Lemma addMul10VVW_loop k : forall ax bx cx dx r13 r14 i c fl m cf mf,
  g_addMul10VVW_loop (S k) z x y i c m = (cf, mf) ->
  asc_ok z x n -> 0 <= x -> 0 <= z -> 0 <= i -> i + Z.of_nat (S k) = n ->
  x + n <= e_msize E -> z + n <= e_msize E -> 0 <= c < B ->
  (forall j, i <= j < n -> 0 <= m (x + j) < B) -> (forall j, i <= j < n -> 0 <= m (z + j) < B) ->
  exists N ax' bx' cx' dx' r13' r14' fl',
    steps N E prog_addMul10VVW (st11 ax bx cx dx r13 r14 i c fl m 8) =
    Some (st11 ax' bx' cx' dx' r13' r14' n cf fl' mf 43).
Proof.
  induction k as [|k IH]; intros ax bx cx dx r13 r14 i c fl m cf mf HG Ha Hx0 Hz0 Hi0 Hik Hx1 Hz1 Hc Hw Hwz;
    rewrite g_addMul10VVW_loop_S in HG;
    destruct (addMul10VVW_iter ax bx cx dx r13 r14 i c fl m) as (a1 & b1 & c1 & d1 & e1 & f1 & fl1 & H1);
    try lia; try (apply Hw; lia); try (apply Hwz; lia).
  - destruct (Z.ltb_spec (i + 1) n); [lia|].
    cbn [g_addMul10VVW_loop] in HG. apply pair_eq_inv in HG as [E1 E2]. subst cf mf.
    exists 35%nat, a1, b1, c1, d1, e1, f1, fl1. rewrite H1.
    replace (i + 1) with n by lia. reflexivity.
  - destruct (Z.ltb_spec (i + 1) n); [|lia].
    destruct (g_addMul_step (m (x + i)) y (m (z + i)) c ltac:(apply Hw; lia) Hy ltac:(apply Hwz; lia) Hc) as [Gqr [Gc _]].
    destruct (IH a1 b1 c1 d1 e1 f1 (i + 1) _ fl1 _ cf mf HG)
      as (N & a2 & b2 & c2 & d2 & e2 & f2 & fl2 & H2); try lia; try assumption.
    { unfold addMul_qr. rewrite Gqr. exact Gc. }
    { intros j Hj. rewrite upd_other by (unfold asc_ok in Ha; lia). apply Hw; lia. }
    { intros j Hj. rewrite upd_other by lia. apply Hwz; lia. }
    exists (35 + N)%nat, a2, b2, c2, d2, e2, f2, fl2.
    rewrite (steps_add 35 N _ _ _ _ H1). exact H2.
Qed.
End AddMul10VVW.

Theorem asm_addMul10VVW_correct E n z x y rs m :
  8 * e_msize E <= W64 ->
  0 <= z -> z + Z.of_nat n <= e_msize E -> 0 <= x -> x + Z.of_nat n <= e_msize E ->
  asc_ok z x (Z.of_nat n) -> 0 <= y < B -> words_ok (rd m x n) = true -> words_ok (rd m z n) = true ->
  exists N s', (forall f, run (N + S f) E prog_addMul10VVW
                             (init_state rs (slice z n ++ slice x n ++ [y]) m) = Some s') /\
               st_frame s' 7 = snd (spec_addMul10VVW (rd m z n) (rd m x n) y) /\
               mem_eq (st_mem s') (wr m z (fst (spec_addMul10VVW (rd m z n) (rd m x n) y))).
Proof.
  intros Hm Hz0 Hz1 Hx0 Hx1 Ha Hy Hw Hwz. bw.
  assert (Hn : 0 <= Z.of_nat n < HALF64) by lia.
  destruct rs as [ax bx cx dx si di r8 r9 r10 r11 r12 r13 r14].
  unfold init_state.
  set (fr := frame_of (slice z n ++ slice x n ++ [y])).
  assert (F0 : fr 0 = 8 * z) by reflexivity. assert (F1 : fr 1 = Z.of_nat n) by reflexivity.
  assert (F3 : fr 3 = 8 * x) by reflexivity. assert (F6 : fr 6 = y) by reflexivity. clearbody fr.
  destruct (g_addMul10VVW_correct n z x y m Ha Hy Hw Hwz) as [Gr Gm]. unfold g_addMul10VVW in Gr, Gm.
  destruct (g_addMul10VVW_loop n z x y 0 0 m) as [cf mf] eqn:EL. cbn [fst snd] in Gr, Gm.
  assert (Pre : steps 8 E prog_addMul10VVW
            (mkState (mkRegs ax bx cx dx si di r8 r9 r10 r11 r12 r13 r14) flags0 m fr 0) =
          Some (st11 z x y (Z.of_nat n) fr r12 ax bx cx dx r13 r14 0 0 (flags_sub 0 (Z.of_nat n) 0) m
                     (if Z.of_nat n <=? 0 then 43%nat else 8%nat))).
  { unfold st11.
    step' prog_addMul10VVW. rewrite F0. step' prog_addMul10VVW. rewrite F3.
    step' prog_addMul10VVW. rewrite F6. step' prog_addMul10VVW. rewrite F1.
    step' prog_addMul10VVW. step' prog_addMul10VVW. rewrite Z.lxor_nilpotent.
    step' prog_addMul10VVW.
    step' prog_addMul10VVW. rewrite cond_ge_sub by lia. rewrite !signed_small by lia.
    destruct (Z.of_nat n <=? 0); reflexivity. }
  destruct n as [|n].
  - cbn [g_addMul10VVW_loop] in EL. apply pair_eq_inv in EL as [E1 E2]. subst cf mf.
    eexists (8 + 2)%nat, _. split.
    + intros f. erewrite run_steps; [apply run_ret|].
      2:{ erewrite steps_add; [|exact Pre]. change (Z.of_nat 0 <=? 0) with true. cbv beta iota. unfold st11.
          step' prog_addMul10VVW. step' prog_addMul10VVW. reflexivity. }
      reflexivity.
    + cbn [st_frame st_mem]. rewrite upd_same. split; [exact Gr | exact Gm].
  - destruct (addMul10VVW_loop E z x y (Z.of_nat (S n)) fr r12 Hm Hy Hn n ax bx cx dx r13 r14 0 0
                (flags_sub 0 (Z.of_nat (S n)) 0) m cf mf EL)
      as (N & a2 & b2 & c2 & d2 & e2 & f2 & fl2 & HL); try lia; try assumption.
    { intros j Hj. apply (rd_words_ok_nth m x (S n) Hw); lia. }
    { intros j Hj. apply (rd_words_ok_nth m z (S n) Hwz); lia. }
    eexists (8 + (N + 2))%nat, _. split.
    + intros f. erewrite run_steps; [apply run_ret|].
      2:{ erewrite steps_add; [|exact Pre].
          destruct (Z.leb_spec (Z.of_nat (S n)) 0); [lia|].
          erewrite steps_add; [|exact HL]. unfold st11.
          step' prog_addMul10VVW. step' prog_addMul10VVW. reflexivity. }
      reflexivity.
    + cbn [st_frame st_mem]. rewrite upd_same. split; [exact Gr | exact Gm].
Qed.

Section DivWVW.
Variables (E : env) (z x y : Z) (fr : mem).
Variables (cx si di r11 r12 r13 r14 : Z).
Hypothesis Hm : 8 * e_msize E <= W64.
Hypothesis Hy : 0 < y < W64.

Definition stW (ax r k : Z) (fl : flags) (m : mem) : state :=
  mkState (mkRegs ax k cx r si di (8 * x) y (8 * z) r11 r12 r13 r14) fl m fr 10.

Lemma g_divWVW_loop_S k r m :
  g_divWVW_loop (S k) z x y r m =
  g_divWVW_loop k z x y (snd (g_divWW r (m (x + Z.of_nat k)) y))
    (upd m (z + Z.of_nat k) (fst (g_divWW r (m (x + Z.of_nat k)) y))).
Proof. reflexivity. Qed.

Lemma divWVW_iter k ax r fl m :
  0 <= x -> x + Z.of_nat (S k) <= e_msize E -> 0 <= z -> z + Z.of_nat (S k) <= e_msize E ->
  0 <= r < y ->
  exists ax' fl',
    steps 7 E prog_divWVW (stW ax r (Z.of_nat (S k)) fl m) =
    Some (stW ax' (snd (g_divWW r (m (x + Z.of_nat k)) y)) (Z.of_nat k) fl'
              (upd m (z + Z.of_nat k) (fst (g_divWW r (m (x + Z.of_nat k)) y)))).
Proof.
  intros Hx0 Hx1 Hz0 Hz1 Hr. bw. unfold stW.
  assert (Hk : 0 <= Z.of_nat (S k) < HALF64) by lia.
  do 2 eexists.
  step' prog_divWVW.
  step' prog_divWVW.
  step' prog_divWVW.
  rewrite cond_ge_sub by lia. rewrite !signed_small by lia.
  destruct (Z.leb_spec 1 (Z.of_nat (S k))); [|lia]. cbv beta iota.
  step' prog_divWVW.
  rewrite sub_lo_small by lia. replace (Z.of_nat (S k) - 1 - 0) with (Z.of_nat k) by lia.
  step' prog_divWVW. ld (x + Z.of_nat k).
  step' prog_divWVW. rewrite divq_ok by lia. cbv beta iota.
  step' prog_divWVW. st (z + Z.of_nat k).
  cbn [steps]. reflexivity.
Qed.

Lemma divWVW_loop n k : forall ax r fl m rf mf,
  g_divWVW_loop k z x y r m = (rf, mf) ->
  desc_ok z x n -> Z.of_nat k <= n ->
  0 <= x -> x + Z.of_nat k <= e_msize E -> 0 <= z -> z + Z.of_nat k <= e_msize E ->
  0 <= r < y ->
  exists N ax' fl', steps N E prog_divWVW (stW ax r (Z.of_nat k) fl m) = Some (stW ax' rf 0 fl' mf).
Proof.
  induction k as [|k IH]; intros ax r fl m rf mf HG Hd Hk Hx0 Hx1 Hz0 Hz1 Hr.
  - cbn [g_divWVW_loop] in HG. apply pair_eq_inv in HG as [E1 E2]. subst rf mf.
    exists 0%nat, ax, fl. reflexivity.
  - rewrite g_divWVW_loop_S in HG.
    destruct (divWVW_iter k ax r fl m) as (ax1 & fl1 & H1); try lia.
    assert (Hr' : 0 <= snd (g_divWW r (m (x + Z.of_nat k)) y) < y).
    { unfold g_divWW, div_r. cbn [snd]. apply Z.mod_pos_bound; lia. }
    destruct (IH ax1 _ fl1 _ rf mf HG) as (N & ax2 & fl2 & H2); try lia; try assumption.
    exists (7 + N)%nat, ax2, fl2.
    rewrite (steps_add 7 N _ _ _ _ H1). exact H2.
Qed.
End DivWVW.

Theorem asm_divWVW_correct E n z xn x y rs m :
  8 * e_msize E <= W64 ->
  0 <= z -> z + Z.of_nat n <= e_msize E -> 0 <= x -> x + Z.of_nat n <= e_msize E ->
  desc_ok z x (Z.of_nat n) -> 0 < y < W64 -> 0 <= xn < y -> Forall (fun w => 0 <= w < W64) (rd m x n) ->
  exists N s', (forall f, run (N + S f) E prog_divWVW
                             (init_state rs (slice z n ++ [xn] ++ slice x n ++ [y]) m) = Some s') /\
               st_frame s' 8 = snd (spec_divWVW xn (rd m x n) y) /\
               mem_eq (st_mem s') (wr m z (fst (spec_divWVW xn (rd m x n) y))).
Proof.
  intros Hm Hz0 Hz1 Hx0 Hx1 Hd Hy Hxn Hw. bw.
  destruct rs as [ax bx cx dx si di r8 r9 r10 r11 r12 r13 r14].
  unfold init_state.
  set (fr := frame_of (slice z n ++ [xn] ++ slice x n ++ [y])).
  assert (F0 : fr 0 = 8 * z) by reflexivity. assert (F1 : fr 1 = Z.of_nat n) by reflexivity.
  assert (F3 : fr 3 = xn) by reflexivity. assert (F4 : fr 4 = 8 * x) by reflexivity.
  assert (F7 : fr 7 = y) by reflexivity. clearbody fr.
  destruct (g_divWVW_correct n z xn x y m Hd Hy Hxn Hw) as [Gr Gm]. unfold g_divWVW in Gr, Gm.
  destruct (g_divWVW_loop n z x y xn m) as [rf mf] eqn:EL. cbn [fst snd] in Gr, Gm.
  destruct (divWVW_loop E z x y fr cx si di r11 r12 r13 r14 Hm Hy (Z.of_nat n) n ax xn flags0 m rf mf EL)
    as (N & ax' & fl' & HL); try lia; try assumption.
  assert (Hrf : 0 <= rf < W64).
  { rewrite Gr. unfold spec_divWVW. cbn [snd].
    pose proof (Z.mod_pos_bound (xn * W64 ^ zlen (rd m x n) + val64 (rd m x n)) y). lia. }
  eexists (6 + (N + 4))%nat, _. split.
  - intros f. erewrite run_steps; [apply run_ret|].
    2:{ erewrite steps_add.
        2:{ step' prog_divWVW. rewrite F0. step' prog_divWVW. rewrite F3.
            step' prog_divWVW. rewrite F4. step' prog_divWVW. rewrite F7.
            step' prog_divWVW. rewrite F1. step' prog_divWVW. reflexivity. }
        erewrite steps_add; [|exact HL].
        unfold stW.
        step' prog_divWVW. step' prog_divWVW.
        step' prog_divWVW. rewrite cond_ge_sub by lia. rewrite !signed_small by lia.
        change (1 <=? 0) with false. cbv beta iota.
        step' prog_divWVW. reflexivity. }
    reflexivity.
  - cbn [st_frame st_mem]. rewrite upd_same. split; [exact Gr | exact Gm].
Qed.
