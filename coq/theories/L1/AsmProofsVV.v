(* L1/AsmProofsVV.v — the generated programs of add10VV and sub10VV (4x unrolled
   loop + single-word loop, carry kept as a 0 / all-ones mask in CX) return the
   specification's result for all lengths, contents and admissible placements.
   Proofs only. *)
From Coq Require Import ZArith List Bool Lia.
From Dec Require Import Base.Words Base.WordsProofs L1.U64 L1.U64Proofs L1.X86 L1.KernSpec L1.KernG L1.KernGScalar L1.KernGProofs L1.KernAsm L1.AsmProofs gen.Consts gen.Tables gen.AsmProgs.
Import ListNotations.
Open Scope Z_scope.

(* ---- the carry kept as a mask: 0 or all ones ---- *)
Lemma neg64_cases k : 0 <= k <= 1 -> (k = 0 /\ neg64 k = 0) \/ (k = 1 /\ neg64 k = MAX64).
Proof. intros. assert (k = 0 \/ k = 1) as [-> | ->] by lia; [left | right]; split; reflexivity. Qed.

Lemma b2z_01 b : 0 <= b2z b <= 1. Proof. destruct b; cbn; lia. Qed.

Lemma carry_restore c : 0 <= c <= 1 -> b2z (W64 <=? neg64 c + neg64 c + 0) = c.
Proof.
  intros H. bw. destruct (neg64_cases c H) as [[-> ->] | [-> ->]].
  - destruct (Z.leb_spec W64 (0 + 0 + 0)); [lia | reflexivity].
  - destruct (Z.leb_spec W64 (MAX64 + MAX64 + 0)); [reflexivity | lia].
Qed.

Lemma sbb_self a k : 0 <= k <= 1 -> sub_lo a a k = neg64 k.
Proof. intros. unfold sub_lo, neg64. f_equal. lia. Qed.

Lemma lor_neg64 k1 k2 : 0 <= k1 <= 1 -> 0 <= k2 <= 1 -> Z.lor (neg64 k1) (neg64 k2) = neg64 (Z.lor k1 k2).
Proof.
  intros H1 H2.
  assert (E : Z.lor MAX64 MAX64 = MAX64) by (rewrite MAX64_eq, W64_eq; reflexivity).
  assert (E0 : Z.lor MAX64 0 = MAX64) by apply Z.lor_0_r.
  assert (k1 = 0 \/ k1 = 1) as [-> | ->] by lia; assert (k2 = 0 \/ k2 = 1) as [-> | ->] by lia;
    cbn [Z.lor]; rewrite ?neg64_0, ?neg64_1; try reflexivity; rewrite ?Z.lor_0_r; auto.
Qed.

Lemma lea_B : 1 + 9999999999999999999 + 0 = B.
Proof. rewrite B_eq. reflexivity. Qed.

(* one decimal word of add10VV in the assembly's formulation *)
Lemma add1_eq_g x y c : 0 <= x < B -> 0 <= y < B -> 0 <= c <= 1 ->
  let r := add_lo x y c in
  let k1 := b2z (W64 <=? x + y + c) in
  let k2 := b2z (9999999999999999999 - r - 0 <? 0) in
  (sub_lo r (Z.land B (neg64 (Z.lor k1 k2))) 0, Z.lor k1 k2) = g_add10WWW x y c.
Proof.
  intros Hx Hy Hc r k1 k2. bw. unfold g_add10WWW. rewrite c_DB_B. fold r.
  assert (Ek1 : k1 = add_c x y c) by (unfold k1; rewrite add_c_leb by lia; destruct (W64 <=? x + y + c); reflexivity).
  assert (Ek2 : k2 = (if B <=? r then 1 else 0)).
  { unfold k2. rewrite B_eq. change (10 ^ 19) with 10000000000000000000.
    destruct (Z.ltb_spec (9999999999999999999 - r - 0) 0); destruct (Z.leb_spec 10000000000000000000 r); cbn; lia. }
  rewrite Ek1, Ek2. reflexivity.
Qed.

Lemma fCF_mk a b c d : fCF (mkFlags a b c d) = a. Proof. reflexivity. Qed.

Ltac stepq p :=
  lazymatch goal with
  | |- steps (S ?k) ?E ?pp ?s = _ =>
      let pc := eval cbv [st_pc] in (st_pc s) in
      let oi := eval cbv in (nth_error p pc) in
      lazymatch oi with
      | Some ?ins =>
          rewrite (steps_S_i k E pp s ins eq_refl); cbv beta iota;
          let K := fresh "K" in
          set (K := steps k E pp); machine p; subst K;
          try match goal with |- context [fCF _] => rewrite ?fCF_add, ?fCF_sub, ?fCF_logic, ?fCF_mk; cbv beta iota end
      | _ => fail "no instruction at pc"
      end
  end.
Ltac step'' p := stepq p; lits.

Section Add10VV.
Variables (E : env) (z x y : Z) (fr : mem).
Hypothesis Hm : 8 * e_msize E <= W64.

Definition stAdd (ax bx cm di r11 r12 r13 r14 i : Z) (fl : flags) (m : mem) (pc : nat) : state :=
  mkState (mkRegs ax bx cm 9999999999999999999 i di (8 * x) (8 * y) (8 * z) r11 r12 r13 r14) fl m fr pc.

Lemma g_add10WWW_carry a b c : 0 <= a < B -> 0 <= b < B -> 0 <= c <= 1 -> 0 <= snd (g_add10WWW a b c) <= 1.
Proof.
  intros Ha Hb Hc. rewrite g_add10WWW_correct by assumption. cbn [snd]. pose proof B_pos. split.
  - apply Z.div_pos; lia.
  - assert ((a + b + c) / B < 2) by (apply Z.div_lt_upper_bound; lia). lia.
Qed.

(* the nine-instruction word step: after it, the destination register holds
   fst (g_add10WWW ..) and CX the mask of snd (g_add10WWW ..) *)
Ltac add1 p xi yi c Hwx Hwy Hc sc :=
  step'' p; rewrite sbb_self by apply b2z_01;          (* SBBQ CX, CX *)
  step'' p;                                            (* CMPQ DX, r *)
  step'' p; rewrite sbb_self by apply b2z_01;          (* SBBQ BX, BX *)
  step'' p; rewrite lor_neg64 by apply b2z_01;         (* ORQ BX, CX *)
  step'' p; rewrite lea_B;                             (* LEAQ 1(DX), AX *)
  step'' p;                                            (* ANDQ CX, AX *)
  step'' p;                                            (* SUBQ AX, r *)
  let EG := fresh "EG" in
  pose proof (add1_eq_g xi yi c Hwx Hwy Hc) as EG; cbv zeta in EG; fold sc in EG;
  let S := fresh "S" in let K := fresh "K" in
  match type of EG with (?s, ?k) = _ => set (S := s) in *; set (K := k) in * end;
  let ES := fresh "ES" in let EK := fresh "EK" in
  assert (ES : S = fst sc) by (rewrite <- EG; reflexivity);
  assert (EK : K = snd sc) by (rewrite <- EG; reflexivity);
  clearbody S K; subst S K; clear EG.

Lemma add10VV_L1_iter ax bx r11 r12 r13 r14 i k c fl m :
  0 <= x -> 0 <= y -> 0 <= z -> 0 <= i -> 1 <= k < HALF64 ->
  x + i < e_msize E -> y + i < e_msize E -> z + i < e_msize E ->
  0 <= c <= 1 -> 0 <= m (x + i) < B -> 0 <= m (y + i) < B ->
  let sc := g_add10WWW (m (x + i)) (m (y + i)) c in
  exists ax' bx' r11' fl',
    steps 15 E prog_add10VV (stAdd ax bx (neg64 c) k r11 r12 r13 r14 i fl m 60) =
    Some (stAdd ax' bx' (neg64 (snd sc)) (k - 1) r11' r12 r13 r14 (i + 1) fl' (upd m (z + i) (fst sc))
              (if 1 <? k then 60%nat else 75%nat)).
Proof.
  intros Hx0 Hy0 Hz0 Hi0 Hk Hx1 Hy1 Hz1 Hc Hwx Hwy sc. bw. unfold stAdd.
  set (xi := m (x + i)) in *. set (yi := m (y + i)) in *.
  do 4 eexists.
  step'' prog_add10VV.
  step'' prog_add10VV.
  step'' prog_add10VV. ld (x + i). fold xi.
  step'' prog_add10VV. ld (y + i). fold yi. rewrite (carry_restore c) by lia.
  add1 prog_add10VV xi yi c Hwx Hwy Hc sc.
  step'' prog_add10VV. st (z + i).
  step'' prog_add10VV. rewrite (add_lo_small i 1 0) by lia. replace (i + 1 + 0) with (i + 1) by lia.
  step'' prog_add10VV. rewrite (sub_lo_small k 1 0) by lia. replace (k - 1 - 0) with (k - 1) by lia.
  step'' prog_add10VV. rewrite cond_g_sub by lia. rewrite (signed_small 1), (signed_small k) by lia.
  destruct (1 <? k); cbv beta iota; cbn [steps]; reflexivity.
Qed.

(* the 4x unrolled block: loads x[i..i+3], adds y[i..i+3] with carry, stores z[i..i+3] *)
Lemma add10VV_U1_block ax bx r11 r12 r13 r14 i d c fl m :
  0 <= x -> 0 <= y -> 0 <= z -> 0 <= i -> 0 <= d < HALF64 ->
  x + i + 3 < e_msize E -> y + i + 3 < e_msize E -> z + i + 3 < e_msize E ->
  0 <= c <= 1 ->
  (forall j, 0 <= j < 4 -> 0 <= m (x + i + j) < B) -> (forall j, 0 <= j < 4 -> 0 <= m (y + i + j) < B) ->
  let sc0 := g_add10WWW (m (x + i)) (m (y + i)) c in
  let sc1 := g_add10WWW (m (x + i + 1)) (m (y + i + 1)) (snd sc0) in
  let sc2 := g_add10WWW (m (x + i + 2)) (m (y + i + 2)) (snd sc1) in
  let sc3 := g_add10WWW (m (x + i + 3)) (m (y + i + 3)) (snd sc2) in
  exists ax' bx' r11' r12' r13' r14' fl',
    steps 48 E prog_add10VV (stAdd ax bx (neg64 c) d r11 r12 r13 r14 i fl m 9) =
    Some (stAdd ax' bx' (neg64 (snd sc3)) (sub_lo d 4 0) r11' r12' r13' r14' (i + 4) fl'
              (upd (upd (upd (upd m (z + i) (fst sc0)) (z + i + 1) (fst sc1)) (z + i + 2) (fst sc2))
                   (z + i + 3) (fst sc3))
              (if 4 <=? d then 9%nat else 57%nat)).
Proof.
  intros Hx0 Hy0 Hz0 Hi0 Hd Hx1 Hy1 Hz1 Hc Hwx Hwy sc0 sc1 sc2 sc3. bw. unfold stAdd.
  pose proof (Hwx 0 ltac:(lia)) as Hx_0. pose proof (Hwx 1 ltac:(lia)) as Hx_1.
  pose proof (Hwx 2 ltac:(lia)) as Hx_2. pose proof (Hwx 3 ltac:(lia)) as Hx_3.
  pose proof (Hwy 0 ltac:(lia)) as Hy_0. pose proof (Hwy 1 ltac:(lia)) as Hy_1.
  pose proof (Hwy 2 ltac:(lia)) as Hy_2. pose proof (Hwy 3 ltac:(lia)) as Hy_3.
  rewrite Z.add_0_r in Hx_0, Hy_0.
  set (x0 := m (x + i)) in *. set (x1 := m (x + i + 1)) in *. set (x2 := m (x + i + 2)) in *. set (x3 := m (x + i + 3)) in *.
  set (y0 := m (y + i)) in *. set (y1 := m (y + i + 1)) in *. set (y2 := m (y + i + 2)) in *. set (y3 := m (y + i + 3)) in *.
  pose proof (g_add10WWW_carry x0 y0 c Hx_0 Hy_0 Hc) as Hc0. fold sc0 in Hc0.
  pose proof (g_add10WWW_carry x1 y1 _ Hx_1 Hy_1 Hc0) as Hc1. fold sc1 in Hc1.
  pose proof (g_add10WWW_carry x2 y2 _ Hx_2 Hy_2 Hc1) as Hc2. fold sc2 in Hc2.
  do 7 eexists.
  step'' prog_add10VV.
  step'' prog_add10VV. ld (x + i). fold x0.
  step'' prog_add10VV. ld (x + i + 1). fold x1.
  step'' prog_add10VV. ld (x + i + 2). fold x2.
  step'' prog_add10VV. ld (x + i + 3). fold x3.
  step'' prog_add10VV.
  step'' prog_add10VV. ld (y + i). fold y0. rewrite (carry_restore c) by lia.
  add1 prog_add10VV x0 y0 c Hx_0 Hy_0 Hc sc0.
  step'' prog_add10VV.
  step'' prog_add10VV. ld (y + i + 1). fold y1. rewrite (carry_restore (snd sc0)) by lia.
  add1 prog_add10VV x1 y1 (snd sc0) Hx_1 Hy_1 Hc0 sc1.
  step'' prog_add10VV.
  step'' prog_add10VV. ld (y + i + 2). fold y2. rewrite (carry_restore (snd sc1)) by lia.
  add1 prog_add10VV x2 y2 (snd sc1) Hx_2 Hy_2 Hc1 sc2.
  step'' prog_add10VV.
  step'' prog_add10VV. ld (y + i + 3). fold y3. rewrite (carry_restore (snd sc2)) by lia.
  add1 prog_add10VV x3 y3 (snd sc2) Hx_3 Hy_3 Hc2 sc3.
  step'' prog_add10VV. st (z + i).
  step'' prog_add10VV. st (z + i + 1).
  step'' prog_add10VV. st (z + i + 2).
  step'' prog_add10VV. st (z + i + 3).
  step'' prog_add10VV. rewrite (add_lo_small i 4 0) by lia. replace (i + 4 + 0) with (i + 4) by lia.
  step'' prog_add10VV.
  step'' prog_add10VV. rewrite cond_ge_sub by lia. rewrite (signed_small 4), (signed_small d) by lia.
  destruct (4 <=? d); cbv beta iota; cbn [steps]; reflexivity.
Qed.
End Add10VV.

Lemma HALF64_ge : 1000 <= HALF64. Proof. rewrite HALF64_eq. discriminate. Qed.

Lemma add_lo_cases a b : 0 <= a < W64 -> 0 <= b < W64 ->
  (a + b < W64 /\ add_lo a b 0 = a + b) \/ (W64 <= a + b /\ add_lo a b 0 = a + b - W64).
Proof.
  intros. destruct (Z_lt_le_dec (a + b) W64); [left | right]; split; try lia.
  - rewrite add_lo_small; lia.
  - rewrite add_lo_over; lia.
Qed.

Lemma cond_le_add a b : 0 <= a < W64 -> 0 <= b < W64 ->
  cond_holds CondLE (flags_add a b 0) = Some (signed a + signed b <=? 0).
Proof.
  intros Ha Hb. w64. unfold cond_holds, flags_add, fZF, fSF, fOF, zf_of, sf_of, msb, in_s64.
  destruct (add_lo_cases a b Ha Hb) as [[Hd ->] | [Hd ->]];
  destruct (signed_cases a) as [[Hsa ->] | [Hsa ->]]; destruct (signed_cases b) as [[Hsb ->] | [Hsb ->]];
  repeat match goal with
         | |- context [?p <=? ?q] => destruct (Z.leb_spec p q)
         | |- context [?p <? ?q] => destruct (Z.ltb_spec p q)
         | |- context [?p =? ?q] => destruct (Z.eqb_spec p q)
         end; cbn [negb xorb andb orb]; try reflexivity; try lia.
Qed.

Lemma neg64_neg64 c : 0 <= c <= 1 -> neg64 (neg64 c) = c.
Proof.
  intros H. w64. destruct (neg64_cases c H) as [[-> ->] | [-> ->]]; [reflexivity|].
  unfold neg64. rewrite MAX64_eq. symmetry. apply Z.mod_unique with (q := -1); lia.
Qed.

Section Add10VVLoops.
Variables (E : env) (z x y n : Z) (fr : mem).
Hypothesis Hm : 8 * e_msize E <= W64.
Hypothesis Hax : asc_ok z x n.
Hypothesis Hay : asc_ok z y n.
Hypothesis Hx0 : 0 <= x.
Hypothesis Hy0 : 0 <= y.
Hypothesis Hz0 : 0 <= z.
Hypothesis Hx1 : x + n <= e_msize E.
Hypothesis Hy1 : y + n <= e_msize E.
Hypothesis Hz1 : z + n <= e_msize E.

Notation stA := (stAdd z x y fr).

Lemma g_add10VV_loop_S k i c m :
  g_add10VV_loop (S k) z x y i c m =
  g_add10VV_loop k z x y (i + 1) (snd (g_add10WWW (m (x + i)) (m (y + i)) c))
    (upd m (z + i) (fst (g_add10WWW (m (x + i)) (m (y + i)) c))).
Proof. reflexivity. Qed.

Lemma g_add10VV_loop_4 k i c m : 0 <= i -> i + 4 <= n ->
  let sc0 := g_add10WWW (m (x + i)) (m (y + i)) c in
  let sc1 := g_add10WWW (m (x + i + 1)) (m (y + i + 1)) (snd sc0) in
  let sc2 := g_add10WWW (m (x + i + 2)) (m (y + i + 2)) (snd sc1) in
  let sc3 := g_add10WWW (m (x + i + 3)) (m (y + i + 3)) (snd sc2) in
  g_add10VV_loop (S (S (S (S k)))) z x y i c m =
  g_add10VV_loop k z x y (i + 4) (snd sc3)
    (upd (upd (upd (upd m (z + i) (fst sc0)) (z + i + 1) (fst sc1)) (z + i + 2) (fst sc2)) (z + i + 3) (fst sc3)).
Proof.
  intros Hi0 Hi4 sc0 sc1 sc2 sc3. unfold asc_ok in *.
  rewrite !g_add10VV_loop_S.
  rewrite !upd_other by lia.
  replace (x + (i + 1)) with (x + i + 1) by lia. replace (y + (i + 1)) with (y + i + 1) by lia.
  replace (x + (i + 1 + 1)) with (x + i + 2) by lia. replace (y + (i + 1 + 1)) with (y + i + 2) by lia.
  replace (x + (i + 1 + 1 + 1)) with (x + i + 3) by lia. replace (y + (i + 1 + 1 + 1)) with (y + i + 3) by lia.
  replace (z + (i + 1)) with (z + i + 1) by lia. replace (z + (i + 1 + 1)) with (z + i + 2) by lia.
  replace (z + (i + 1 + 1 + 1)) with (z + i + 3) by lia. replace (i + 1 + 1 + 1 + 1) with (i + 4) by lia.
  reflexivity.
Qed.

Definition words_from (m : mem) (i : Z) : Prop :=
  forall j, i <= j < n -> 0 <= m (x + j) < B /\ 0 <= m (y + j) < B.

Lemma add10VV_U1_loop q : forall (r : nat) ax bx r11 r12 r13 r14 i c fl m cf mf,
  g_add10VV_loop (4 * S q + r) z x y i c m = (cf, mf) ->
  (r < 4)%nat -> 0 <= i -> i + 4 * Z.of_nat (S q) + Z.of_nat r = n -> n < HALF64 ->
  0 <= c <= 1 -> words_from m i ->
  exists N ax' bx' r11' r12' r13' r14' fl' c' m',
    steps N E prog_add10VV (stA ax bx (neg64 c) (n - i - 4) r11 r12 r13 r14 i fl m 9) =
    Some (stA ax' bx' (neg64 c') (sub_lo (Z.of_nat r) 4 0) r11' r12' r13' r14' (n - Z.of_nat r) fl' m' 57) /\
    g_add10VV_loop r z x y (n - Z.of_nat r) c' m' = (cf, mf) /\ 0 <= c' <= 1 /\ words_from m' (n - Z.of_nat r).
Proof.
  induction q as [|q IH]; intros r ax bx r11 r12 r13 r14 i c fl m cf mf HG Hr Hi0 Hn HnH Hc Hw.
  - (* last block *)
    replace (4 * 1 + r)%nat with (S (S (S (S r)))) in HG by lia.
    rewrite (g_add10VV_loop_4 r i c m Hi0 ltac:(lia)) in HG.
    destruct (add10VV_U1_block E z x y fr Hm ax bx r11 r12 r13 r14 i (n - i - 4) c fl m)
      as (a1 & b1 & e1 & e2 & e3 & e4 & fl1 & H1); try lia.
    { intros j Hj. replace (x + i + j) with (x + (i + j)) by lia. apply Hw; lia. }
    { intros j Hj. replace (y + i + j) with (y + (i + j)) by lia. apply Hw; lia. }
    destruct (Hw i ltac:(lia)) as [Wx0 Wy0]. destruct (Hw (i + 1) ltac:(lia)) as [Wx1 Wy1].
    destruct (Hw (i + 2) ltac:(lia)) as [Wx2 Wy2]. destruct (Hw (i + 3) ltac:(lia)) as [Wx3 Wy3].
    rewrite !Z.add_assoc in Wx1, Wy1, Wx2, Wy2, Wx3, Wy3.
    pose proof (g_add10WWW_carry _ _ c Wx0 Wy0 Hc) as Hc0.
    pose proof (g_add10WWW_carry _ _ _ Wx1 Wy1 Hc0) as Hc1.
    pose proof (g_add10WWW_carry _ _ _ Wx2 Wy2 Hc1) as Hc2.
    pose proof (g_add10WWW_carry _ _ _ Wx3 Wy3 Hc2) as Hc3.
    destruct (Z.leb_spec 4 (n - i - 4)); [lia|].
    replace (sub_lo (n - i - 4) 4 0) with (sub_lo (Z.of_nat r) 4 0) in H1 by (f_equal; lia).
    replace (i + 4) with (n - Z.of_nat r) in H1, HG by lia.
    exists 48%nat, a1, b1, e1, e2, e3, e4, fl1. do 2 eexists. split; [exact H1|]. split; [exact HG|]. split; [exact Hc3|].
    intros j Hj. unfold asc_ok in *. rewrite !upd_other by lia. apply Hw; lia.
  - replace (4 * S (S q) + r)%nat with (S (S (S (S (4 * S q + r))))) in HG by lia.
    rewrite (g_add10VV_loop_4 _ i c m Hi0 ltac:(lia)) in HG.
    destruct (add10VV_U1_block E z x y fr Hm ax bx r11 r12 r13 r14 i (n - i - 4) c fl m)
      as (a1 & b1 & e1 & e2 & e3 & e4 & fl1 & H1); try lia.
    { intros j Hj. replace (x + i + j) with (x + (i + j)) by lia. apply Hw; lia. }
    { intros j Hj. replace (y + i + j) with (y + (i + j)) by lia. apply Hw; lia. }
    destruct (Hw i ltac:(lia)) as [Wx0 Wy0]. destruct (Hw (i + 1) ltac:(lia)) as [Wx1 Wy1].
    destruct (Hw (i + 2) ltac:(lia)) as [Wx2 Wy2]. destruct (Hw (i + 3) ltac:(lia)) as [Wx3 Wy3].
    rewrite !Z.add_assoc in Wx1, Wy1, Wx2, Wy2, Wx3, Wy3.
    pose proof (g_add10WWW_carry _ _ c Wx0 Wy0 Hc) as Hc0.
    pose proof (g_add10WWW_carry _ _ _ Wx1 Wy1 Hc0) as Hc1.
    pose proof (g_add10WWW_carry _ _ _ Wx2 Wy2 Hc1) as Hc2.
    pose proof (g_add10WWW_carry _ _ _ Wx3 Wy3 Hc2) as Hc3.
    destruct (Z.leb_spec 4 (n - i - 4)); [|lia].
    bw. rewrite (sub_lo_small (n - i - 4) 4 0) in H1 by lia.
    replace (n - i - 4 - 4 - 0) with (n - (i + 4) - 4) in H1 by lia.
    destruct (IH r a1 b1 e1 e2 e3 e4 (i + 4) _ fl1 _ cf mf HG)
      as (N & a2 & b2 & f1 & f2 & f3 & f4 & fl2 & c2 & m2 & HS2 & G2 & Hc2' & Hw2); try lia; try assumption.
    { intros j Hj. unfold asc_ok in *. rewrite !upd_other by lia. apply Hw; lia. }
    exists (48 + N)%nat, a2, b2, f1, f2, f3, f4, fl2, c2, m2.
    split; [|split; [exact G2 | split; [exact Hc2' | exact Hw2]]].
    rewrite (steps_add 48 N _ _ _ _ H1). exact HS2.
Qed.

Lemma add10VV_L1_loop r : forall ax bx r11 r12 r13 r14 i c fl m cf mf,
  g_add10VV_loop (S r) z x y i c m = (cf, mf) ->
  0 <= i -> i + Z.of_nat (S r) = n -> n < HALF64 -> 0 <= c <= 1 -> words_from m i ->
  exists N ax' bx' r11' fl',
    steps N E prog_add10VV (stA ax bx (neg64 c) (Z.of_nat (S r)) r11 r12 r13 r14 i fl m 60) =
    Some (stA ax' bx' (neg64 cf) 0 r11' r12 r13 r14 n fl' mf 75) /\ 0 <= cf <= 1.
Proof.
  induction r as [|r IH]; intros ax bx r11 r12 r13 r14 i c fl m cf mf HG Hi0 Hn HnH Hc Hw;
    rewrite g_add10VV_loop_S in HG;
    destruct (Hw i ltac:(lia)) as [Wx0 Wy0];
    pose proof (g_add10WWW_carry _ _ c Wx0 Wy0 Hc) as Hc0.
  - destruct (add10VV_L1_iter E z x y fr Hm ax bx r11 r12 r13 r14 i (Z.of_nat 1) c fl m)
      as (a1 & b1 & e1 & fl1 & H1); try lia.
    cbn [g_add10VV_loop] in HG. apply pair_eq_inv in HG as [E1 E2]. subst cf mf.
    destruct (Z.ltb_spec 1 (Z.of_nat 1)); [lia|].
    exists 15%nat, a1, b1, e1, fl1. split; [|exact Hc0]. rewrite H1.
    replace (i + 1) with n by lia. reflexivity.
  - destruct (add10VV_L1_iter E z x y fr Hm ax bx r11 r12 r13 r14 i (Z.of_nat (S (S r))) c fl m)
      as (a1 & b1 & e1 & fl1 & H1); try lia.
    destruct (Z.ltb_spec 1 (Z.of_nat (S (S r)))); [|lia].
    replace (Z.of_nat (S (S r)) - 1) with (Z.of_nat (S r)) in H1 by lia.
    destruct (IH a1 b1 e1 r12 r13 r14 (i + 1) _ fl1 _ cf mf HG)
      as (N & a2 & b2 & f1 & fl2 & HS2 & Hcf); try lia; try assumption.
    { intros j Hj. unfold asc_ok in *. rewrite !upd_other by lia. apply Hw; lia. }
    exists (15 + N)%nat, a2, b2, f1, fl2. split; [|exact Hcf].
    rewrite (steps_add 15 N _ _ _ _ H1). exact HS2.
Qed.

Lemma add10VV_tail (r : nat) ax bx r11 r12 r13 r14 c fl m cf mf :
  g_add10VV_loop r z x y (n - Z.of_nat r) c m = (cf, mf) ->
  (r < 4)%nat -> Z.of_nat r <= n -> n < HALF64 -> 0 <= c <= 1 -> words_from m (n - Z.of_nat r) ->
  exists N s', steps N E prog_add10VV
                 (stA ax bx (neg64 c) (sub_lo (Z.of_nat r) 4 0) r11 r12 r13 r14 (n - Z.of_nat r) fl m 57) = Some s' /\
               nth_error prog_add10VV (st_pc s') = Some RET /\
               st_frame s' = upd fr 9 cf /\ st_mem s' = mf.
Proof.
  intros HG Hr Hrn HnH Hc Hw. bw.
  assert (Esub : sub_lo (Z.of_nat r) 4 0 = Z.of_nat r - 4 + W64) by (rewrite sub_lo_under; lia).
  assert (Pre : steps 3 E prog_add10VV
            (stA ax bx (neg64 c) (sub_lo (Z.of_nat r) 4 0) r11 r12 r13 r14 (n - Z.of_nat r) fl m 57) =
          Some (stA ax bx (neg64 c) (Z.of_nat r) r11 r12 r13 r14 (n - Z.of_nat r)
                    (flags_add (sub_lo (Z.of_nat r) 4 0) 4 0) m (if Z.of_nat r <=? 0 then 75%nat else 60%nat))).
  { pose proof (sub_lo_range (Z.of_nat r) 4 0) as Hsr. pose proof HALF64_ge.
    unfold stAdd. step'' prog_add10VV. step'' prog_add10VV.
    replace (add_lo (sub_lo (Z.of_nat r) 4 0) 4 0) with (Z.of_nat r) by (rewrite Esub, add_lo_over; lia).
    step'' prog_add10VV. rewrite cond_le_add by lia.
    replace (signed (sub_lo (Z.of_nat r) 4 0)) with (Z.of_nat r - 4)
      by (rewrite Esub; destruct (signed_cases (Z.of_nat r - 4 + W64)) as [[? ?] | [? ->]]; lia).
    rewrite (signed_small 4) by lia. replace (Z.of_nat r - 4 + 4) with (Z.of_nat r) by lia.
    destruct (Z.of_nat r <=? 0); reflexivity. }
  assert (Fin : forall a b e fl0 m0 i0, 0 <= cf <= 1 ->
            exists s', steps 3 E prog_add10VV (stA a b (neg64 cf) 0 e r12 r13 r14 i0 fl0 m0 75) = Some s' /\
                       nth_error prog_add10VV (st_pc s') = Some RET /\
                       st_frame s' = upd fr 9 cf /\ st_mem s' = m0).
  { intros a b e fl0 m0 i0 Hcf. eexists. split.
    - unfold stAdd. step'' prog_add10VV. step'' prog_add10VV. rewrite neg64_neg64 by assumption.
      step'' prog_add10VV. reflexivity.
    - cbn [st_pc st_frame st_mem]. repeat split. }
  destruct r as [|r].
  - cbn [g_add10VV_loop] in HG. apply pair_eq_inv in HG as [E1 E2]. subst cf mf.
    change (Z.of_nat 0 <=? 0) with true in Pre. cbv iota in Pre.
    destruct (Fin ax bx r11 (flags_add (sub_lo (Z.of_nat 0) 4 0) 4 0) m (n - Z.of_nat 0) Hc) as (s' & HS & HR & HF & HM).
    exists (3 + 3)%nat, s'. split; [|auto].
    rewrite (steps_add 3 3 _ _ _ _ Pre). exact HS.
  - destruct (Z.leb_spec (Z.of_nat (S r)) 0); [lia|].
    destruct (add10VV_L1_loop r ax bx r11 r12 r13 r14 (n - Z.of_nat (S r)) c
                (flags_add (sub_lo (Z.of_nat (S r)) 4 0) 4 0) m cf mf HG)
      as (N & a2 & b2 & f1 & fl2 & HS2 & Hcf); try lia; try assumption.
    destruct (Fin a2 b2 f1 fl2 mf n Hcf) as (s' & HS & HR & HF & HM).
    exists (3 + (N + 3))%nat, s'. split; [|auto].
    rewrite (steps_add 3 (N + 3) _ _ _ _ Pre). rewrite (steps_add N 3 _ _ _ _ HS2). exact HS.
Qed.
End Add10VVLoops.

Theorem asm_add10VV_correct E n z x y rs m :
  8 * e_msize E <= W64 ->
  0 <= z -> z + Z.of_nat n <= e_msize E -> 0 <= x -> x + Z.of_nat n <= e_msize E ->
  0 <= y -> y + Z.of_nat n <= e_msize E ->
  asc_ok z x (Z.of_nat n) -> asc_ok z y (Z.of_nat n) ->
  words_ok (rd m x n) = true -> words_ok (rd m y n) = true ->
  exists N s', (forall f, run (N + S f) E prog_add10VV
                             (init_state rs (slice z n ++ slice x n ++ slice y n) m) = Some s') /\
               st_frame s' 9 = snd (spec_add10VV (rd m x n) (rd m y n)) /\
               mem_eq (st_mem s') (wr m z (fst (spec_add10VV (rd m x n) (rd m y n)))).
Proof.
  intros Hm Hz0 Hz1 Hx0 Hx1 Hy0 Hy1 Hax Hay Hwx Hwy. bw. pose proof HALF64_ge.
  assert (HnH : Z.of_nat n < HALF64) by lia.
  destruct rs as [ax bx cx dx si di r8 r9 r10 r11 r12 r13 r14].
  unfold init_state.
  set (fr := frame_of (slice z n ++ slice x n ++ slice y n)).
  assert (F0 : fr 0 = 8 * z) by reflexivity. assert (F1 : fr 1 = Z.of_nat n) by reflexivity.
  assert (F3 : fr 3 = 8 * x) by reflexivity. assert (F6 : fr 6 = 8 * y) by reflexivity. clearbody fr.
  destruct (g_add10VV_correct n z x y m Hax Hay Hwx Hwy) as [Gr Gm]. unfold g_add10VV in Gr, Gm.
  destruct (g_add10VV_loop n z x y 0 0 m) as [cf mf] eqn:EL. cbn [fst snd] in Gr, Gm.
  assert (Hw0 : words_from x y (Z.of_nat n) m 0).
  { intros j Hj. split; [apply (rd_words_ok_nth m x n Hwx) | apply (rd_words_ok_nth m y n Hwy)]; lia. }
  assert (Pre : steps 9 E prog_add10VV
            (mkState (mkRegs ax bx cx dx si di r8 r9 r10 r11 r12 r13 r14) flags0 m fr 0) =
          Some (stAdd z x y fr ax bx (neg64 0) (sub_lo (Z.of_nat n) 4 0) r11 r12 r13 r14 0
                    (flags_sub (Z.of_nat n) 4 0) m (if Z.of_nat n <? 4 then 57%nat else 9%nat))).
  { unfold stAdd.
    step'' prog_add10VV. rewrite F1. step'' prog_add10VV. rewrite F3.
    step'' prog_add10VV. rewrite F6. step'' prog_add10VV. rewrite F0.
    step'' prog_add10VV. step'' prog_add10VV. step'' prog_add10VV.
    step'' prog_add10VV.
    step'' prog_add10VV. rewrite cond_l_sub by lia. rewrite (signed_small (Z.of_nat n)), (signed_small 4) by lia.
    rewrite neg64_0. destruct (Z.of_nat n <? 4); reflexivity. }
  assert (Tail : exists N s', steps N E prog_add10VV
                    (mkState (mkRegs ax bx cx dx si di r8 r9 r10 r11 r12 r13 r14) flags0 m fr 0) = Some s' /\
                  nth_error prog_add10VV (st_pc s') = Some RET /\ st_frame s' = upd fr 9 cf /\ st_mem s' = mf).
  { destruct (Z.ltb_spec (Z.of_nat n) 4) as [Hlt | Hge].
    - (* short vector: only the single-word loop *)
      destruct (add10VV_tail E z x y (Z.of_nat n) fr Hm Hax Hay Hx0 Hy0 Hz0 Hx1 Hy1 Hz1 n ax bx r11 r12 r13 r14 0
                  (flags_sub (Z.of_nat n) 4 0) m cf mf) as (N & s' & HS & HR & HF & HM); try lia.
      { now rewrite Z.sub_diag. } { now rewrite Z.sub_diag. }
      rewrite Z.sub_diag in HS.
      exists (9 + N)%nat, s'. split; [|auto]. rewrite (steps_add 9 N _ _ _ _ Pre). exact HS.
    - (* n = 4 (q + 1) + r *)
      set (q := (n / 4 - 1)%nat). set (r := (n mod 4)%nat).
      assert (En : n = (4 * S q + r)%nat).
      { unfold q, r. pose proof (Nat.div_mod n 4 ltac:(lia)).
        assert (1 <= n / 4)%nat by (apply Nat.div_le_lower_bound; lia). lia. }
      assert (Hr : (r < 4)%nat) by (unfold r; apply Nat.mod_upper_bound; lia).
      rewrite En in EL.
      destruct (add10VV_U1_loop E z x y (Z.of_nat n) fr Hm Hax Hay Hx0 Hy0 Hz0 Hx1 Hy1 Hz1 q r
                  ax bx r11 r12 r13 r14 0 0 (flags_sub (Z.of_nat n) 4 0) m cf mf EL)
        as (N1 & a1 & b1 & e1 & e2 & e3 & e4 & fl1 & c1 & m1 & HS1 & G1 & Hc1 & Hw1); try lia; try assumption.
      destruct (add10VV_tail E z x y (Z.of_nat n) fr Hm Hax Hay Hx0 Hy0 Hz0 Hx1 Hy1 Hz1 r a1 b1 e1 e2 e3 e4 c1 fl1 m1 cf mf G1)
        as (N2 & s' & HS2 & HR & HF & HM); try lia; try assumption.
      exists (9 + (N1 + N2))%nat, s'. split; [|auto].
      rewrite (steps_add 9 (N1 + N2) _ _ _ _ Pre).
      rewrite (sub_lo_small (Z.of_nat n) 4 0) by lia.
      replace (Z.of_nat n - 4 - 0) with (Z.of_nat n - 0 - 4) by lia.
      rewrite (steps_add N1 N2 _ _ _ _ HS1). exact HS2. }
  destruct Tail as (N & s' & HS & HR & HF & HM).
  exists N, s'. split.
  - intros f. rewrite (run_steps N (S f) _ _ _ _ HS). now apply run_ret.
  - rewrite HF, HM, upd_same. split; [exact Gr | exact Gm].
Qed.

(* ================================================================ sub10VV *)
Lemma sub1_eq_g x y b : 0 <= x < B -> 0 <= y < B -> 0 <= b <= 1 ->
  let r := sub_lo x y b in
  let k := b2z (x - y - b <? 0) in
  (add_lo r (Z.land B (neg64 k)) 0, k) = g_sub10WWW x y b.
Proof.
  intros Hx Hy Hb r k. bw. unfold g_sub10WWW. rewrite c_DB_B. fold r. unfold sub_b. fold k.
  unfold k, b2z. destruct (x - y - b <? 0).
  - change (1 =? 0) with false. cbv iota. rewrite neg64_1, land_max_r by lia. reflexivity.
  - change (0 =? 0) with true. cbv iota. rewrite neg64_0, Z.land_0_r.
    rewrite add_lo_small by (pose proof (sub_lo_range x y b); lia). f_equal. lia.
Qed.

Lemma g_sub10WWW_carry a b c : 0 <= snd (g_sub10WWW a b c) <= 1.
Proof. unfold g_sub10WWW. cbn [snd]. apply sub_b_01. Qed.

Section Sub10VV.
Variables (E : env) (z x y : Z) (fr : mem).
Hypothesis Hm : 8 * e_msize E <= W64.

Definition stSub (ax bx cm di r11 r12 r13 r14 i : Z) (fl : flags) (m : mem) (pc : nat) : state :=
  mkState (mkRegs ax bx cm B i di (8 * x) (8 * y) (8 * z) r11 r12 r13 r14) fl m fr pc.

(* the word step after SBBQ y[i], r: SBBQ CX,CX; MOVQ DX,AX; ANDQ CX,AX; ADDQ AX,r *)
Ltac sub1 p xi yi c Hwx Hwy Hc sc :=
  step'' p; rewrite sbb_self by apply b2z_01;
  step'' p;
  step'' p;
  step'' p;
  let EG := fresh "EG" in
  pose proof (sub1_eq_g xi yi c Hwx Hwy Hc) as EG; cbv zeta in EG; fold sc in EG;
  let S := fresh "S" in let K := fresh "K" in
  match type of EG with (?s, ?k) = _ => set (S := s) in *; set (K := k) in * end;
  let ES := fresh "ES" in let EK := fresh "EK" in
  assert (ES : S = fst sc) by (rewrite <- EG; reflexivity);
  assert (EK : K = snd sc) by (rewrite <- EG; reflexivity);
  clearbody S K; subst S K; clear EG.

Lemma sub10VV_L1_iter ax bx r11 r12 r13 r14 i k c fl m :
  0 <= x -> 0 <= y -> 0 <= z -> 0 <= i -> 1 <= k < HALF64 ->
  x + i < e_msize E -> y + i < e_msize E -> z + i < e_msize E ->
  0 <= c <= 1 -> 0 <= m (x + i) < B -> 0 <= m (y + i) < B ->
  let sc := g_sub10WWW (m (x + i)) (m (y + i)) c in
  exists ax' bx' r11' fl',
    steps 12 E prog_sub10VV (stSub ax bx (neg64 c) k r11 r12 r13 r14 i fl m 48) =
    Some (stSub ax' bx' (neg64 (snd sc)) (k - 1) r11' r12 r13 r14 (i + 1) fl' (upd m (z + i) (fst sc))
              (if 1 <? k then 48%nat else 60%nat)).
Proof.
  intros Hx0 Hy0 Hz0 Hi0 Hk Hx1 Hy1 Hz1 Hc Hwx Hwy sc. bw. unfold stSub.
  set (xi := m (x + i)) in *. set (yi := m (y + i)) in *.
  do 4 eexists.
  step'' prog_sub10VV.
  step'' prog_sub10VV.
  step'' prog_sub10VV. ld (x + i). fold xi.
  step'' prog_sub10VV. ld (y + i). fold yi. rewrite (carry_restore c) by lia.
  sub1 prog_sub10VV xi yi c Hwx Hwy Hc sc.
  step'' prog_sub10VV. st (z + i).
  step'' prog_sub10VV. rewrite (add_lo_small i 1 0) by lia. replace (i + 1 + 0) with (i + 1) by lia.
  step'' prog_sub10VV. rewrite (sub_lo_small k 1 0) by lia. replace (k - 1 - 0) with (k - 1) by lia.
  step'' prog_sub10VV. rewrite cond_g_sub by lia. rewrite (signed_small 1), (signed_small k) by lia.
  destruct (1 <? k); cbv beta iota; cbn [steps]; reflexivity.
Qed.

(* the 4x unrolled block: loads x[i..i+3], adds y[i..i+3] with carry, stores z[i..i+3] *)
Lemma sub10VV_U1_block ax bx r11 r12 r13 r14 i d c fl m :
  0 <= x -> 0 <= y -> 0 <= z -> 0 <= i -> 0 <= d < HALF64 ->
  x + i + 3 < e_msize E -> y + i + 3 < e_msize E -> z + i + 3 < e_msize E ->
  0 <= c <= 1 ->
  (forall j, 0 <= j < 4 -> 0 <= m (x + i + j) < B) -> (forall j, 0 <= j < 4 -> 0 <= m (y + i + j) < B) ->
  let sc0 := g_sub10WWW (m (x + i)) (m (y + i)) c in
  let sc1 := g_sub10WWW (m (x + i + 1)) (m (y + i + 1)) (snd sc0) in
  let sc2 := g_sub10WWW (m (x + i + 2)) (m (y + i + 2)) (snd sc1) in
  let sc3 := g_sub10WWW (m (x + i + 3)) (m (y + i + 3)) (snd sc2) in
  exists ax' bx' r11' r12' r13' r14' fl',
    steps 36 E prog_sub10VV (stSub ax bx (neg64 c) d r11 r12 r13 r14 i fl m 9) =
    Some (stSub ax' bx' (neg64 (snd sc3)) (sub_lo d 4 0) r11' r12' r13' r14' (i + 4) fl'
              (upd (upd (upd (upd m (z + i) (fst sc0)) (z + i + 1) (fst sc1)) (z + i + 2) (fst sc2))
                   (z + i + 3) (fst sc3))
              (if 4 <=? d then 9%nat else 45%nat)).
Proof.
  intros Hx0 Hy0 Hz0 Hi0 Hd Hx1 Hy1 Hz1 Hc Hwx Hwy sc0 sc1 sc2 sc3. bw. unfold stSub.
  pose proof (Hwx 0 ltac:(lia)) as Hx_0. pose proof (Hwx 1 ltac:(lia)) as Hx_1.
  pose proof (Hwx 2 ltac:(lia)) as Hx_2. pose proof (Hwx 3 ltac:(lia)) as Hx_3.
  pose proof (Hwy 0 ltac:(lia)) as Hy_0. pose proof (Hwy 1 ltac:(lia)) as Hy_1.
  pose proof (Hwy 2 ltac:(lia)) as Hy_2. pose proof (Hwy 3 ltac:(lia)) as Hy_3.
  rewrite Z.add_0_r in Hx_0, Hy_0.
  set (x0 := m (x + i)) in *. set (x1 := m (x + i + 1)) in *. set (x2 := m (x + i + 2)) in *. set (x3 := m (x + i + 3)) in *.
  set (y0 := m (y + i)) in *. set (y1 := m (y + i + 1)) in *. set (y2 := m (y + i + 2)) in *. set (y3 := m (y + i + 3)) in *.
  pose proof (g_sub10WWW_carry x0 y0 c) as Hc0. fold sc0 in Hc0.
  pose proof (g_sub10WWW_carry x1 y1 (snd sc0)) as Hc1. fold sc1 in Hc1.
  pose proof (g_sub10WWW_carry x2 y2 (snd sc1)) as Hc2. fold sc2 in Hc2.
  do 7 eexists.
  step'' prog_sub10VV.
  step'' prog_sub10VV. ld (x + i). fold x0.
  step'' prog_sub10VV. ld (x + i + 1). fold x1.
  step'' prog_sub10VV. ld (x + i + 2). fold x2.
  step'' prog_sub10VV. ld (x + i + 3). fold x3.
  step'' prog_sub10VV.
  step'' prog_sub10VV. ld (y + i). fold y0. rewrite (carry_restore c) by lia.
  sub1 prog_sub10VV x0 y0 c Hx_0 Hy_0 Hc sc0.
  step'' prog_sub10VV.
  step'' prog_sub10VV. ld (y + i + 1). fold y1. rewrite (carry_restore (snd sc0)) by lia.
  sub1 prog_sub10VV x1 y1 (snd sc0) Hx_1 Hy_1 Hc0 sc1.
  step'' prog_sub10VV.
  step'' prog_sub10VV. ld (y + i + 2). fold y2. rewrite (carry_restore (snd sc1)) by lia.
  sub1 prog_sub10VV x2 y2 (snd sc1) Hx_2 Hy_2 Hc1 sc2.
  step'' prog_sub10VV.
  step'' prog_sub10VV. ld (y + i + 3). fold y3. rewrite (carry_restore (snd sc2)) by lia.
  sub1 prog_sub10VV x3 y3 (snd sc2) Hx_3 Hy_3 Hc2 sc3.
  step'' prog_sub10VV. st (z + i).
  step'' prog_sub10VV. st (z + i + 1).
  step'' prog_sub10VV. st (z + i + 2).
  step'' prog_sub10VV. st (z + i + 3).
  step'' prog_sub10VV. rewrite (add_lo_small i 4 0) by lia. replace (i + 4 + 0) with (i + 4) by lia.
  step'' prog_sub10VV.
  step'' prog_sub10VV. rewrite cond_ge_sub by lia. rewrite (signed_small 4), (signed_small d) by lia.
  destruct (4 <=? d); cbv beta iota; cbn [steps]; reflexivity.
Qed.
End Sub10VV.

Section Sub10VVLoops.
Variables (E : env) (z x y n : Z) (fr : mem).
Hypothesis Hm : 8 * e_msize E <= W64.
Hypothesis Hax : asc_ok z x n.
Hypothesis Hay : asc_ok z y n.
Hypothesis Hx0 : 0 <= x.
Hypothesis Hy0 : 0 <= y.
Hypothesis Hz0 : 0 <= z.
Hypothesis Hx1 : x + n <= e_msize E.
Hypothesis Hy1 : y + n <= e_msize E.
Hypothesis Hz1 : z + n <= e_msize E.

Notation stS := (stSub z x y fr).

Lemma g_sub10VV_loop_S k i c m :
  g_sub10VV_loop (S k) z x y i c m =
  g_sub10VV_loop k z x y (i + 1) (snd (g_sub10WWW (m (x + i)) (m (y + i)) c))
    (upd m (z + i) (fst (g_sub10WWW (m (x + i)) (m (y + i)) c))).
Proof. reflexivity. Qed.

Lemma g_sub10VV_loop_4 k i c m : 0 <= i -> i + 4 <= n ->
  let sc0 := g_sub10WWW (m (x + i)) (m (y + i)) c in
  let sc1 := g_sub10WWW (m (x + i + 1)) (m (y + i + 1)) (snd sc0) in
  let sc2 := g_sub10WWW (m (x + i + 2)) (m (y + i + 2)) (snd sc1) in
  let sc3 := g_sub10WWW (m (x + i + 3)) (m (y + i + 3)) (snd sc2) in
  g_sub10VV_loop (S (S (S (S k)))) z x y i c m =
  g_sub10VV_loop k z x y (i + 4) (snd sc3)
    (upd (upd (upd (upd m (z + i) (fst sc0)) (z + i + 1) (fst sc1)) (z + i + 2) (fst sc2)) (z + i + 3) (fst sc3)).
Proof.
  intros Hi0 Hi4 sc0 sc1 sc2 sc3. unfold asc_ok in *.
  rewrite !g_sub10VV_loop_S.
  rewrite !upd_other by lia.
  replace (x + (i + 1)) with (x + i + 1) by lia. replace (y + (i + 1)) with (y + i + 1) by lia.
  replace (x + (i + 1 + 1)) with (x + i + 2) by lia. replace (y + (i + 1 + 1)) with (y + i + 2) by lia.
  replace (x + (i + 1 + 1 + 1)) with (x + i + 3) by lia. replace (y + (i + 1 + 1 + 1)) with (y + i + 3) by lia.
  replace (z + (i + 1)) with (z + i + 1) by lia. replace (z + (i + 1 + 1)) with (z + i + 2) by lia.
  replace (z + (i + 1 + 1 + 1)) with (z + i + 3) by lia. replace (i + 1 + 1 + 1 + 1) with (i + 4) by lia.
  reflexivity.
Qed.

Definition words_from2 (m : mem) (i : Z) : Prop :=
  forall j, i <= j < n -> 0 <= m (x + j) < B /\ 0 <= m (y + j) < B.

Lemma sub10VV_U1_loop q : forall (r : nat) ax bx r11 r12 r13 r14 i c fl m cf mf,
  g_sub10VV_loop (4 * S q + r) z x y i c m = (cf, mf) ->
  (r < 4)%nat -> 0 <= i -> i + 4 * Z.of_nat (S q) + Z.of_nat r = n -> n < HALF64 ->
  0 <= c <= 1 -> words_from2 m i ->
  exists N ax' bx' r11' r12' r13' r14' fl' c' m',
    steps N E prog_sub10VV (stS ax bx (neg64 c) (n - i - 4) r11 r12 r13 r14 i fl m 9) =
    Some (stS ax' bx' (neg64 c') (sub_lo (Z.of_nat r) 4 0) r11' r12' r13' r14' (n - Z.of_nat r) fl' m' 45) /\
    g_sub10VV_loop r z x y (n - Z.of_nat r) c' m' = (cf, mf) /\ 0 <= c' <= 1 /\ words_from2 m' (n - Z.of_nat r).
Proof.
  induction q as [|q IH]; intros r ax bx r11 r12 r13 r14 i c fl m cf mf HG Hr Hi0 Hn HnH Hc Hw.
  - (* last block *)
    replace (4 * 1 + r)%nat with (S (S (S (S r)))) in HG by lia.
    rewrite (g_sub10VV_loop_4 r i c m Hi0 ltac:(lia)) in HG.
    destruct (sub10VV_U1_block E z x y fr Hm ax bx r11 r12 r13 r14 i (n - i - 4) c fl m)
      as (a1 & b1 & e1 & e2 & e3 & e4 & fl1 & H1); try lia.
    { intros j Hj. replace (x + i + j) with (x + (i + j)) by lia. apply Hw; lia. }
    { intros j Hj. replace (y + i + j) with (y + (i + j)) by lia. apply Hw; lia. }
    destruct (Hw i ltac:(lia)) as [Wx0 Wy0]. destruct (Hw (i + 1) ltac:(lia)) as [Wx1 Wy1].
    destruct (Hw (i + 2) ltac:(lia)) as [Wx2 Wy2]. destruct (Hw (i + 3) ltac:(lia)) as [Wx3 Wy3].
    rewrite !Z.add_assoc in Wx1, Wy1, Wx2, Wy2, Wx3, Wy3.
    destruct (Z.leb_spec 4 (n - i - 4)); [lia|].
    replace (sub_lo (n - i - 4) 4 0) with (sub_lo (Z.of_nat r) 4 0) in H1 by (f_equal; lia).
    replace (i + 4) with (n - Z.of_nat r) in H1, HG by lia.
    exists 36%nat, a1, b1, e1, e2, e3, e4, fl1. do 2 eexists. split; [exact H1|]. split; [exact HG|]. split; [apply g_sub10WWW_carry|].
    intros j Hj. unfold asc_ok in *. rewrite !upd_other by lia. apply Hw; lia.
  - replace (4 * S (S q) + r)%nat with (S (S (S (S (4 * S q + r))))) in HG by lia.
    rewrite (g_sub10VV_loop_4 _ i c m Hi0 ltac:(lia)) in HG.
    destruct (sub10VV_U1_block E z x y fr Hm ax bx r11 r12 r13 r14 i (n - i - 4) c fl m)
      as (a1 & b1 & e1 & e2 & e3 & e4 & fl1 & H1); try lia.
    { intros j Hj. replace (x + i + j) with (x + (i + j)) by lia. apply Hw; lia. }
    { intros j Hj. replace (y + i + j) with (y + (i + j)) by lia. apply Hw; lia. }
    destruct (Hw i ltac:(lia)) as [Wx0 Wy0]. destruct (Hw (i + 1) ltac:(lia)) as [Wx1 Wy1].
    destruct (Hw (i + 2) ltac:(lia)) as [Wx2 Wy2]. destruct (Hw (i + 3) ltac:(lia)) as [Wx3 Wy3].
    rewrite !Z.add_assoc in Wx1, Wy1, Wx2, Wy2, Wx3, Wy3.
    destruct (Z.leb_spec 4 (n - i - 4)); [|lia].
    bw. rewrite (sub_lo_small (n - i - 4) 4 0) in H1 by lia.
    replace (n - i - 4 - 4 - 0) with (n - (i + 4) - 4) in H1 by lia.
    destruct (IH r a1 b1 e1 e2 e3 e4 (i + 4) _ fl1 _ cf mf HG)
      as (N & a2 & b2 & f1 & f2 & f3 & f4 & fl2 & c2 & m2 & HS2 & G2 & Hc2' & Hw2); try lia; try assumption; try apply g_sub10WWW_carry.
    { intros j Hj. unfold asc_ok in *. rewrite !upd_other by lia. apply Hw; lia. }
    exists (36 + N)%nat, a2, b2, f1, f2, f3, f4, fl2, c2, m2.
    split; [|split; [exact G2 | split; [exact Hc2' | exact Hw2]]].
    rewrite (steps_add 36 N _ _ _ _ H1). exact HS2.
Qed.

Lemma sub10VV_L1_loop r : forall ax bx r11 r12 r13 r14 i c fl m cf mf,
  g_sub10VV_loop (S r) z x y i c m = (cf, mf) ->
  0 <= i -> i + Z.of_nat (S r) = n -> n < HALF64 -> 0 <= c <= 1 -> words_from2 m i ->
  exists N ax' bx' r11' fl',
    steps N E prog_sub10VV (stS ax bx (neg64 c) (Z.of_nat (S r)) r11 r12 r13 r14 i fl m 48) =
    Some (stS ax' bx' (neg64 cf) 0 r11' r12 r13 r14 n fl' mf 60) /\ 0 <= cf <= 1.
Proof.
  induction r as [|r IH]; intros ax bx r11 r12 r13 r14 i c fl m cf mf HG Hi0 Hn HnH Hc Hw;
    rewrite g_sub10VV_loop_S in HG;
    destruct (Hw i ltac:(lia)) as [Wx0 Wy0].
  - destruct (sub10VV_L1_iter E z x y fr Hm ax bx r11 r12 r13 r14 i (Z.of_nat 1) c fl m)
      as (a1 & b1 & e1 & fl1 & H1); try lia.
    cbn [g_sub10VV_loop] in HG. apply pair_eq_inv in HG as [E1 E2]. subst cf mf.
    destruct (Z.ltb_spec 1 (Z.of_nat 1)); [lia|].
    exists 12%nat, a1, b1, e1, fl1. split; [|apply g_sub10WWW_carry]. rewrite H1.
    replace (i + 1) with n by lia. reflexivity.
  - destruct (sub10VV_L1_iter E z x y fr Hm ax bx r11 r12 r13 r14 i (Z.of_nat (S (S r))) c fl m)
      as (a1 & b1 & e1 & fl1 & H1); try lia.
    destruct (Z.ltb_spec 1 (Z.of_nat (S (S r)))); [|lia].
    replace (Z.of_nat (S (S r)) - 1) with (Z.of_nat (S r)) in H1 by lia.
    destruct (IH a1 b1 e1 r12 r13 r14 (i + 1) _ fl1 _ cf mf HG)
      as (N & a2 & b2 & f1 & fl2 & HS2 & Hcf); try lia; try assumption; try apply g_sub10WWW_carry.
    { intros j Hj. unfold asc_ok in *. rewrite !upd_other by lia. apply Hw; lia. }
    exists (12 + N)%nat, a2, b2, f1, fl2. split; [|exact Hcf].
    rewrite (steps_add 12 N _ _ _ _ H1). exact HS2.
Qed.

Lemma sub10VV_tail (r : nat) ax bx r11 r12 r13 r14 c fl m cf mf :
  g_sub10VV_loop r z x y (n - Z.of_nat r) c m = (cf, mf) ->
  (r < 4)%nat -> Z.of_nat r <= n -> n < HALF64 -> 0 <= c <= 1 -> words_from2 m (n - Z.of_nat r) ->
  exists N s', steps N E prog_sub10VV
                 (stS ax bx (neg64 c) (sub_lo (Z.of_nat r) 4 0) r11 r12 r13 r14 (n - Z.of_nat r) fl m 45) = Some s' /\
               nth_error prog_sub10VV (st_pc s') = Some RET /\
               st_frame s' = upd fr 9 cf /\ st_mem s' = mf.
Proof.
  intros HG Hr Hrn HnH Hc Hw. bw.
  assert (Esub : sub_lo (Z.of_nat r) 4 0 = Z.of_nat r - 4 + W64) by (rewrite sub_lo_under; lia).
  assert (Pre : steps 3 E prog_sub10VV
            (stS ax bx (neg64 c) (sub_lo (Z.of_nat r) 4 0) r11 r12 r13 r14 (n - Z.of_nat r) fl m 45) =
          Some (stS ax bx (neg64 c) (Z.of_nat r) r11 r12 r13 r14 (n - Z.of_nat r)
                    (flags_add (sub_lo (Z.of_nat r) 4 0) 4 0) m (if Z.of_nat r <=? 0 then 60%nat else 48%nat))).
  { pose proof (sub_lo_range (Z.of_nat r) 4 0) as Hsr. pose proof HALF64_ge.
    unfold stSub. step'' prog_sub10VV. step'' prog_sub10VV.
    replace (add_lo (sub_lo (Z.of_nat r) 4 0) 4 0) with (Z.of_nat r) by (rewrite Esub, add_lo_over; lia).
    step'' prog_sub10VV. rewrite cond_le_add by lia.
    replace (signed (sub_lo (Z.of_nat r) 4 0)) with (Z.of_nat r - 4)
      by (rewrite Esub; destruct (signed_cases (Z.of_nat r - 4 + W64)) as [[? ?] | [? ->]]; lia).
    rewrite (signed_small 4) by lia. replace (Z.of_nat r - 4 + 4) with (Z.of_nat r) by lia.
    destruct (Z.of_nat r <=? 0); reflexivity. }
  assert (Fin : forall a b e fl0 m0 i0, 0 <= cf <= 1 ->
            exists s', steps 3 E prog_sub10VV (stS a b (neg64 cf) 0 e r12 r13 r14 i0 fl0 m0 60) = Some s' /\
                       nth_error prog_sub10VV (st_pc s') = Some RET /\
                       st_frame s' = upd fr 9 cf /\ st_mem s' = m0).
  { intros a b e fl0 m0 i0 Hcf. eexists. split.
    - unfold stSub. step'' prog_sub10VV. step'' prog_sub10VV. rewrite neg64_neg64 by assumption.
      step'' prog_sub10VV. reflexivity.
    - cbn [st_pc st_frame st_mem]. repeat split. }
  destruct r as [|r].
  - cbn [g_sub10VV_loop] in HG. apply pair_eq_inv in HG as [E1 E2]. subst cf mf.
    change (Z.of_nat 0 <=? 0) with true in Pre. cbv iota in Pre.
    destruct (Fin ax bx r11 (flags_add (sub_lo (Z.of_nat 0) 4 0) 4 0) m (n - Z.of_nat 0) Hc) as (s' & HS & HR & HF & HM).
    exists (3 + 3)%nat, s'. split; [|auto].
    rewrite (steps_add 3 3 _ _ _ _ Pre). exact HS.
  - destruct (Z.leb_spec (Z.of_nat (S r)) 0); [lia|].
    destruct (sub10VV_L1_loop r ax bx r11 r12 r13 r14 (n - Z.of_nat (S r)) c
                (flags_add (sub_lo (Z.of_nat (S r)) 4 0) 4 0) m cf mf HG)
      as (N & a2 & b2 & f1 & fl2 & HS2 & Hcf); try lia; try assumption; try apply g_sub10WWW_carry.
    destruct (Fin a2 b2 f1 fl2 mf n Hcf) as (s' & HS & HR & HF & HM).
    exists (3 + (N + 3))%nat, s'. split; [|auto].
    rewrite (steps_add 3 (N + 3) _ _ _ _ Pre). rewrite (steps_add N 3 _ _ _ _ HS2). exact HS.
Qed.
End Sub10VVLoops.

Theorem asm_sub10VV_correct E n z x y rs m :
  8 * e_msize E <= W64 ->
  0 <= z -> z + Z.of_nat n <= e_msize E -> 0 <= x -> x + Z.of_nat n <= e_msize E ->
  0 <= y -> y + Z.of_nat n <= e_msize E ->
  asc_ok z x (Z.of_nat n) -> asc_ok z y (Z.of_nat n) ->
  words_ok (rd m x n) = true -> words_ok (rd m y n) = true ->
  exists N s', (forall f, run (N + S f) E prog_sub10VV
                             (init_state rs (slice z n ++ slice x n ++ slice y n) m) = Some s') /\
               st_frame s' 9 = snd (spec_sub10VV (rd m x n) (rd m y n)) /\
               mem_eq (st_mem s') (wr m z (fst (spec_sub10VV (rd m x n) (rd m y n)))).
Proof.
  intros Hm Hz0 Hz1 Hx0 Hx1 Hy0 Hy1 Hax Hay Hwx Hwy. bw. pose proof HALF64_ge.
  assert (HnH : Z.of_nat n < HALF64) by lia.
  destruct rs as [ax bx cx dx si di r8 r9 r10 r11 r12 r13 r14].
  unfold init_state.
  set (fr := frame_of (slice z n ++ slice x n ++ slice y n)).
  assert (F0 : fr 0 = 8 * z) by reflexivity. assert (F1 : fr 1 = Z.of_nat n) by reflexivity.
  assert (F3 : fr 3 = 8 * x) by reflexivity. assert (F6 : fr 6 = 8 * y) by reflexivity. clearbody fr.
  destruct (g_sub10VV_correct n z x y m Hax Hay Hwx Hwy) as [Gr Gm]. unfold g_sub10VV in Gr, Gm.
  destruct (g_sub10VV_loop n z x y 0 0 m) as [cf mf] eqn:EL. cbn [fst snd] in Gr, Gm.
  assert (Hw0 : words_from2 x y (Z.of_nat n) m 0).
  { intros j Hj. split; [apply (rd_words_ok_nth m x n Hwx) | apply (rd_words_ok_nth m y n Hwy)]; lia. }
  assert (Pre : steps 9 E prog_sub10VV
            (mkState (mkRegs ax bx cx dx si di r8 r9 r10 r11 r12 r13 r14) flags0 m fr 0) =
          Some (stSub z x y fr ax bx (neg64 0) (sub_lo (Z.of_nat n) 4 0) r11 r12 r13 r14 0
                    (flags_sub (Z.of_nat n) 4 0) m (if Z.of_nat n <? 4 then 45%nat else 9%nat))).
  { unfold stSub.
    step'' prog_sub10VV. rewrite F1. step'' prog_sub10VV. rewrite F3.
    step'' prog_sub10VV. rewrite F6. step'' prog_sub10VV. rewrite F0.
    step'' prog_sub10VV. step'' prog_sub10VV. step'' prog_sub10VV.
    step'' prog_sub10VV.
    step'' prog_sub10VV. rewrite cond_l_sub by lia. rewrite (signed_small (Z.of_nat n)), (signed_small 4) by lia.
    rewrite neg64_0. destruct (Z.of_nat n <? 4); reflexivity. }
  assert (Tail : exists N s', steps N E prog_sub10VV
                    (mkState (mkRegs ax bx cx dx si di r8 r9 r10 r11 r12 r13 r14) flags0 m fr 0) = Some s' /\
                  nth_error prog_sub10VV (st_pc s') = Some RET /\ st_frame s' = upd fr 9 cf /\ st_mem s' = mf).
  { destruct (Z.ltb_spec (Z.of_nat n) 4) as [Hlt | Hge].
    - (* short vector: only the single-word loop *)
      destruct (sub10VV_tail E z x y (Z.of_nat n) fr Hm Hax Hay Hx0 Hy0 Hz0 Hx1 Hy1 Hz1 n ax bx r11 r12 r13 r14 0
                  (flags_sub (Z.of_nat n) 4 0) m cf mf) as (N & s' & HS & HR & HF & HM); try lia.
      { now rewrite Z.sub_diag. } { now rewrite Z.sub_diag. }
      rewrite Z.sub_diag in HS.
      exists (9 + N)%nat, s'. split; [|auto]. rewrite (steps_add 9 N _ _ _ _ Pre). exact HS.
    - (* n = 4 (q + 1) + r *)
      set (q := (n / 4 - 1)%nat). set (r := (n mod 4)%nat).
      assert (En : n = (4 * S q + r)%nat).
      { unfold q, r. pose proof (Nat.div_mod n 4 ltac:(lia)).
        assert (1 <= n / 4)%nat by (apply Nat.div_le_lower_bound; lia). lia. }
      assert (Hr : (r < 4)%nat) by (unfold r; apply Nat.mod_upper_bound; lia).
      rewrite En in EL.
      destruct (sub10VV_U1_loop E z x y (Z.of_nat n) fr Hm Hax Hay Hx0 Hy0 Hz0 Hx1 Hy1 Hz1 q r
                  ax bx r11 r12 r13 r14 0 0 (flags_sub (Z.of_nat n) 4 0) m cf mf EL)
        as (N1 & a1 & b1 & e1 & e2 & e3 & e4 & fl1 & c1 & m1 & HS1 & G1 & Hc1 & Hw1); try lia; try assumption.
      destruct (sub10VV_tail E z x y (Z.of_nat n) fr Hm Hax Hay Hx0 Hy0 Hz0 Hx1 Hy1 Hz1 r a1 b1 e1 e2 e3 e4 c1 fl1 m1 cf mf G1)
        as (N2 & s' & HS2 & HR & HF & HM); try lia; try assumption.
      exists (9 + (N1 + N2))%nat, s'. split; [|auto].
      rewrite (steps_add 9 (N1 + N2) _ _ _ _ Pre).
      rewrite (sub_lo_small (Z.of_nat n) 4 0) by lia.
      replace (Z.of_nat n - 4 - 0) with (Z.of_nat n - 0 - 4) by lia.
      rewrite (steps_add N1 N2 _ _ _ _ HS1). exact HS2. }
  destruct Tail as (N & s' & HS & HR & HF & HM).
  exists N, s'. split.
  - intros f. rewrite (run_steps N (S f) _ _ _ _ HS). now apply run_ret.
  - rewrite HF, HM, upd_same. split; [exact Gr | exact Gm].
Qed.
