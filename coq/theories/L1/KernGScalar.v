(* L1/KernGScalar.v — the scalar portable Go kernels equal their mathematical
   definition: mulAddWWW_g, div10W_g (Granlund-Montgomery with the generated
   m'), mul10WW_g, div10WW_g, add10WWW_g, sub10WWW_g, magic.div on every row of
   the generated pow10DivTab64.  Proofs only. *)
From Coq Require Import ZArith List Bool Lia.
From Dec Require Import Base.Words Base.WordsProofs L1.U64 L1.U64Proofs L1.KernSpec L1.KernG gen.Consts gen.Tables.
Import ListNotations.
Open Scope Z_scope.

Lemma B_lt_W64 : B < W64. Proof. rewrite B_eq, W64_eq. reflexivity. Qed.
Lemma HALF64_lt_B : HALF64 < B. Proof. rewrite B_eq, HALF64_eq. reflexivity. Qed.
Lemma c_DB_B : c_DB = B. Proof. rewrite B_eq. reflexivity. Qed.

Ltac bw := pose proof B_lt_W64; pose proof HALF64_lt_B; pose proof B_pos; w64.

(* z1:z0 = x*y + c *)
Lemma g_mulAddWWW_correct x y c : 0 <= x < W64 -> 0 <= y < W64 -> 0 <= c < W64 ->
  g_mulAddWWW x y c = ((x * y + c) / W64, (x * y + c) mod W64).
Proof.
  intros Hx Hy Hc. unfold g_mulAddWWW. w64.
  pose proof (mul_hi_lo x y) as E. pose proof (mul_hi_range x y Hx Hy) as Hh.
  pose proof (mul_lo_range x y) as Hl.
  pose proof (add_lo_c (mul_lo x y) c 0) as Ec.
  pose proof (add_c_01 (mul_lo x y) c 0 Hl Hc ltac:(lia)) as Hcc.
  pose proof (add_lo_range (mul_lo x y) c 0) as Hlo.
  set (hi := mul_hi x y) in *. set (lo := mul_lo x y) in *.
  set (cc := add_c lo c 0) in *. set (lo' := add_lo lo c 0) in *.
  assert (Hsum : x * y + c = (hi + cc) * W64 + lo') by lia.
  assert (Hb : hi + cc < W64) by nia.
  rewrite add_lo_small by lia. rewrite Z.add_0_r.
  f_equal.
  - apply Z.div_unique with (r := lo'); lia.
  - apply Z.mod_unique with (q := hi + cc); lia.
Qed.

(* (W + mP) * d + kk = W^2 - 1 with 0 <= kk < d *)
Lemma mP_spec : exists kk, 0 <= kk < B /\ (W64 + c_mP) * B + kk = W64 * W64 - 1.
Proof.
  exists ((2 ^ 128 - 1) mod 10 ^ 19). rewrite B_eq, W64_eq. split; vm_compute; [split; congruence | reflexivity].
Qed.
Lemma mP_range : 0 <= c_mP < W64. Proof. rewrite W64_eq. split; vm_compute; congruence. Qed.

Lemma gm_bounds W d kk x nadj lo T : 0 < d < W -> 0 <= kk < d -> 0 <= x <= d -> 0 <= nadj < d ->
  0 <= lo < W -> W * T = (1 + kk) * x + (W - d) * nadj + d * lo -> 0 <= T < 2 * d.
Proof.
  intros Hd Hk Hx Ha Hl E.
  assert (0 <= (1 + kk) * x) by (apply Z.mul_nonneg_nonneg; lia).
  assert (0 <= (W - d) * nadj) by (apply Z.mul_nonneg_nonneg; lia).
  assert (0 <= d * lo) by (apply Z.mul_nonneg_nonneg; lia).
  assert ((1 + kk) * x <= d * d) by (apply Z.mul_le_mono_nonneg; lia).
  assert ((W - d) * nadj <= (W - d) * (d - 1)) by (apply Z.mul_le_mono_nonneg_l; lia).
  assert (d * lo <= d * (W - 1)) by (apply Z.mul_le_mono_nonneg_l; lia).
  split.
  - apply Z.mul_le_mono_pos_l with (p := W); lia.
  - apply Z.mul_lt_mono_pos_l with (p := W); [lia|]. rewrite E.
    replace (W * (2 * d)) with (d * d + (W - d) * (d - 1) + d * (W - 1) + W) by ring. lia.
Qed.

Lemma gm_estimate n2 n10 n1 nadj hi lo :
  0 <= n2 < B -> 0 <= n10 < W64 ->
  (n10 < HALF64 /\ n1 = 0 \/ HALF64 <= n10 /\ n1 = 1) ->
  nadj = n10 + n1 * (B - W64) ->
  c_mP * (n2 + n1) + nadj = hi * W64 + lo -> 0 <= lo < W64 ->
  0 <= n2 * W64 + n10 - (n2 + hi) * B < 2 * B.
Proof.
  intros Hn2 Hn10 Hn1 Hadj HP Hlo. bw.
  destruct mP_spec as (kk & Hkk & Hm).
  assert (Hnadj : 0 <= nadj < B) by (destruct Hn1 as [[? ->] | [? ->]]; lia).
  assert (0 <= n2 + n1 <= B) by (destruct Hn1 as [[? ->] | [? ->]]; lia).
  apply (gm_bounds W64 B kk (n2 + n1) nadj lo); lia.
Qed.

Lemma g_div10W_correct n1 n0 : 0 <= n1 < B -> 0 <= n0 < W64 -> g_div10W n1 n0 = spec_div10W n1 n0.
Proof.
  intros H1 H0. bw. unfold g_div10W, spec_div10W.
  change (c_div10W_N - c_l) with 0. change (c_div10W_N - 1) with 63. change c_l with 64.
  unfold go_shl, go_shr. change (0 <? 64) with true. change (64 <? 64) with false. cbv iota.
  unfold shl64. change (2 ^ 0) with 1. rewrite !Z.mul_1_r.
  fold (wrap n1). fold (wrap n0). rewrite !wrap_small by lia.
  rewrite (add_lo_small n1 0 0) by lia. rewrite !Z.add_0_r.
  rewrite sar64_63 by lia.
  replace c_dNorm with B by (rewrite B_eq; reflexivity).
  replace c_div10W_d with B by (rewrite B_eq; reflexivity).
  pose proof mP_range as HmP.
  (* the sign word and the adjusted low word *)
  assert (Hs : exists nb, (n0 < HALF64 /\ nb = 0 \/ HALF64 <= n0 /\ nb = 1) /\
             sub_lo n1 (sar63 n0) 0 = n1 + nb /\ Z.land (sar63 n0) B = nb * B).
  { destruct (sar63_cases n0) as [[Hlt ->] | [Hge ->]].
    - exists 0. split; [left; lia|]. split; [rewrite sub_lo_small; lia | rewrite Z.land_0_l; lia].
    - exists 1. split; [right; lia|]. split.
      + rewrite sub_lo_under by lia. lia.
      + rewrite land_max_l by lia. lia. }
  destruct Hs as (nb & Hnb & -> & ->).
  set (nadj := add_lo n0 (nb * B) 0).
  assert (Hadj : nadj = n0 + nb * (B - W64)).
  { unfold nadj. destruct Hnb as [[? ->] | [? ->]].
    - rewrite add_lo_small; lia.
    - rewrite add_lo_over; lia. }
  assert (Hadjr : 0 <= nadj < W64) by apply add_lo_range.
  rewrite (g_mulAddWWW_correct c_mP (n1 + nb) nadj) by (try lia; destruct Hnb as [[? ->] | [? ->]]; lia).
  cbn [fst snd].
  set (P := c_mP * (n1 + nb) + nadj).
  pose proof (Z.div_mod P W64 ltac:(lia)) as HP. pose proof (Z.mod_pos_bound P W64 ltac:(lia)) as Hlo.
  pose proof (gm_estimate n1 n0 nb nadj (P / W64) (P mod W64) H1 H0 Hnb Hadj ltac:(unfold P in *; lia) Hlo) as HT.
  assert (HP0 : 0 <= P / W64) by (apply Z.div_pos; [unfold P; destruct Hnb as [[? ->] | [? ->]]; nia | lia]).
  set (hi := P / W64) in *.
  set (q1 := n1 + hi).
  assert (Hq1 : 0 <= q1 < W64).
  { split; [unfold q1; lia|]. apply Z.mul_lt_mono_pos_r with (p := B); [lia|].
    assert (n1 * W64 <= (B - 1) * W64) by (apply Z.mul_le_mono_nonneg_r; lia). unfold q1. lia. }
  rewrite (add_lo_small hi n1 0) by (unfold q1 in *; lia).
  replace (hi + n1 + 0) with q1 by (unfold q1; lia).
  set (T := n1 * W64 + n0 - q1 * B) in *.
  assert (HT' : 0 <= T < 2 * B) by (unfold T, q1; lia).
  unfold not64. set (t := MAX64 - q1).
  rewrite (g_mulAddWWW_correct t B n0) by (unfold t; lia).
  cbn [fst snd].
  assert (Ht : t * B + n0 = (T - B) + W64 * (B - n1)) by (unfold t, T; lia).
  rewrite (sub_lo_under n1 B 0) by lia.
  destruct (Z_lt_le_dec T B) as [Hlt | Hge].
  - (* remainder T, quotient q1 *)
    assert (Ed : (t * B + n0) / W64 = B - n1 - 1) by (symmetry; apply Z.div_unique with (r := T - B + W64); lia).
    assert (Em : (t * B + n0) mod W64 = T - B + W64) by (symmetry; apply Z.mod_unique with (q := B - n1 - 1); lia).
    rewrite Ed, Em.
    rewrite (add_lo_small (B - n1 - 1)) by lia.
    replace (B - n1 - 1 + (n1 - B - 0 + W64) + 0) with MAX64 by lia.
    rewrite land_max_r by lia.
    rewrite sub_lo_small by (unfold t; lia). rewrite add_lo_over by lia.
    f_equal.
    + apply Z.div_unique with (r := T); unfold t, T in *; lia.
    + apply Z.mod_unique with (q := q1); unfold t, T in *; lia.
  - assert (Hq1' : q1 + 1 < W64).
    { apply Z.mul_lt_mono_pos_r with (p := B); [lia|].
      assert (n1 * W64 <= (B - 1) * W64) by (apply Z.mul_le_mono_nonneg_r; lia). unfold T in *. lia. }
    assert (Ed : (t * B + n0) / W64 = B - n1) by (symmetry; apply Z.div_unique with (r := T - B); lia).
    assert (Em : (t * B + n0) mod W64 = T - B) by (symmetry; apply Z.mod_unique with (q := B - n1); lia).
    rewrite Ed, Em.
    rewrite (add_lo_over (B - n1)) by lia.
    replace (B - n1 + (n1 - B - 0 + W64) + 0 - W64) with 0 by lia.
    rewrite Z.land_0_r.
    rewrite sub_lo_under by (unfold t; lia). rewrite add_lo_small by lia.
    f_equal.
    + apply Z.div_unique with (r := T - B); unfold t, T in *; lia.
    + apply Z.mod_unique with (q := q1 + 1); unfold t, T in *; lia.
Qed.

Lemma g_mul10WW_correct x y : 0 <= x < W64 -> 0 <= y < W64 -> x * y < B * W64 ->
  g_mul10WW x y = spec_mul10WW x y.
Proof.
  intros Hx Hy Hxy. bw. unfold g_mul10WW, spec_mul10WW.
  pose proof (mul_hi_lo x y) as E. pose proof (mul_lo_range x y). pose proof (mul_hi_range x y Hx Hy).
  rewrite g_div10W_correct; [unfold spec_div10W; now rewrite E | | assumption].
  split; [lia|]. unfold mul_hi. apply Z.div_lt_upper_bound; lia.
Qed.

Lemma g_div10WW_correct x1 x0 y : 0 <= x1 < W64 -> 0 <= x0 < W64 ->
  g_div10WW x1 x0 y = spec_div10WW x1 x0 y.
Proof.
  intros H1 H0. bw. unfold g_div10WW, spec_div10WW, g_divWW, div_q, div_r.
  rewrite c_DB_B. rewrite g_mulAddWWW_correct by lia. cbn [fst snd].
  pose proof (Z.div_mod (x1 * B + x0) W64 ltac:(lia)) as E.
  replace ((x1 * B + x0) / W64 * W64 + (x1 * B + x0) mod W64) with (x1 * B + x0) by lia. reflexivity.
Qed.

(* one decimal digit-word addition with carry *)
Lemma g_add10WWW_correct x y c : 0 <= x < B -> 0 <= y < B -> 0 <= c <= 1 ->
  g_add10WWW x y c = ((x + y + c) mod B, (x + y + c) / B).
Proof.
  intros Hx Hy Hc. bw. unfold g_add10WWW. rewrite c_DB_B.
  rewrite add_c_leb by lia.
  destruct (Z.leb_spec W64 (x + y + c)) as [Hov | Hno].
  - rewrite add_lo_over by lia.
    destruct (Z.leb_spec B (x + y + c - W64)); [lia|].
    change (Z.lor 1 0) with 1. rewrite neg64_1, land_max_r by lia.
    rewrite sub_lo_under by lia. f_equal.
    + apply Z.mod_unique with (q := 1); lia.
    + apply Z.div_unique with (r := x + y + c - B); lia.
  - rewrite add_lo_small by lia.
    destruct (Z.leb_spec B (x + y + c)).
    + change (Z.lor 0 1) with 1. rewrite neg64_1, land_max_r by lia.
      rewrite sub_lo_small by lia. f_equal.
      * apply Z.mod_unique with (q := 1); lia.
      * apply Z.div_unique with (r := x + y + c - B); lia.
    + change (Z.lor 0 0) with 0. rewrite neg64_0, Z.land_0_r.
      rewrite sub_lo_small by lia. f_equal.
      * rewrite Z.mod_small; lia.
      * rewrite Z.div_small; lia.
Qed.

Lemma g_sub10WWW_correct x y b : 0 <= x < B -> 0 <= y < B -> 0 <= b <= 1 ->
  g_sub10WWW x y b = ((x - y - b) mod B, - ((x - y - b) / B)).
Proof.
  intros Hx Hy Hb. bw. unfold g_sub10WWW. rewrite c_DB_B. unfold sub_b.
  destruct (Z.ltb_spec (x - y - b) 0) as [Hneg | Hpos].
  - change (1 =? 0) with false. cbv iota.
    rewrite sub_lo_under by lia. rewrite add_lo_over by lia. f_equal.
    + apply Z.mod_unique with (q := -1); lia.
    + replace ((x - y - b) / B) with (-1); [reflexivity|]. apply Z.div_unique with (r := x - y - b + B); lia.
  - change (0 =? 0) with true. cbv iota.
    rewrite sub_lo_small by lia. f_equal.
    + rewrite Z.mod_small; lia.
    + rewrite Z.div_small; lia.
Qed.

(* Division by a constant through multiplication (Granlund-Montgomery, sect. 4) *)
Lemma magic_div n k m d x :
  0 <= n <= k -> 0 < d -> 0 <= x < 2^n -> 2^k <= m * d <= 2^k + 2^(k-n) ->
  (x * m) / 2^k = x / d.
Proof.
  intros Hn Hd Hx Hm.
  assert (H2k : 0 < 2^k) by (apply Z.pow_pos_nonneg; lia).
  assert (H2n : 0 < 2^n) by (apply Z.pow_pos_nonneg; lia).
  assert (Hsplit : 2^k = 2^(k-n) * 2^n) by (rewrite <- Z.pow_add_r by lia; f_equal; lia).
  assert (H2kn : 0 < 2^(k-n)) by (apply Z.pow_pos_nonneg; lia).
  set (q := x / d). set (r := x mod d).
  assert (Hqr : x = d * q + r /\ 0 <= r < d) by (split; [apply Z.div_mod; lia | apply Z.mod_pos_bound; lia]).
  destruct Hqr as [Hq Hr].
  assert (Hq0 : 0 <= q) by (apply Z.div_pos; lia).
  symmetry. apply Z.div_unique with (r := x * m - q * 2^k). 2: lia.
  left. split.
  - nia.
  - set (e := m*d - 2^k). assert (0 <= e <= 2^(k-n)) by (unfold e; lia).
    assert (d * (x*m - q*2^k) = x*e + r*2^k) by (unfold e; nia).
    assert (x * e < 2^k) by nia.
    nia.
Qed.

(* side conditions of one table row, decidable by computation *)
Definition magic_row_ok (row : Z * Z * Z * Z) (dd : Z) : bool :=
  match row with
  | (d, m, pre, post) =>
      (d =? dd) && (0 <=? pre) && (pre <? 64) && (0 <=? post) && (post <? 64) && (0 <=? m) && (m <? 2 ^ 64) &&
      (d mod 2 ^ pre =? 0) && (0 <? d / 2 ^ pre) &&
      (2 ^ (64 + post) <=? m * (d / 2 ^ pre)) && (m * (d / 2 ^ pre) <=? 2 ^ (64 + post) + 2 ^ (post + pre))
  end.

Lemma magic_row_correct row dd x : magic_row_ok row dd = true -> 0 <= x < W64 -> 0 < dd ->
  g_magic_div row x = (x / dd, x mod dd).
Proof.
  destruct row as [[[d m] pre] post]. unfold magic_row_ok.
  rewrite !andb_true_iff, !Z.eqb_eq, !Z.leb_le, !Z.ltb_lt.
  intros ((((((((((-> & Hpre0) & Hpre) & Hpost0) & Hpost) & Hm0) & Hm) & Hdiv) & Hd') & Hlo) & Hhi) Hx Hdd.
  w64. unfold g_magic_div, go_shr.
  destruct (Z.ltb_spec pre 64); [|lia]. destruct (Z.ltb_spec post 64); [|lia].
  unfold shr64, mul_hi. rewrite W64_eq in *.
  assert (P2 : 0 < 2 ^ pre) by (apply Z.pow_pos_nonneg; lia).
  set (d' := dd / 2 ^ pre) in *.
  assert (Edd : dd = d' * 2 ^ pre) by (unfold d'; pose proof (Z.div_mod dd (2 ^ pre) ltac:(lia)); lia).
  assert (Eq : (x / 2 ^ pre * m / 2 ^ 64) / 2 ^ post = x / dd).
  { rewrite Z.div_div by (try apply Z.pow_pos_nonneg; lia). rewrite <- Z.pow_add_r by lia.
    rewrite (magic_div (64 - pre) (64 + post) m d' (x / 2 ^ pre)).
    - rewrite Z.div_div by lia. f_equal. lia.
    - lia.
    - lia.
    - split; [apply Z.div_pos; lia|]. apply Z.div_lt_upper_bound; [lia|].
      rewrite <- Z.pow_add_r by lia. replace (pre + (64 - pre)) with 64 by lia. lia.
    - replace (64 + post - (64 - pre)) with (post + pre) by lia. lia. }
  rewrite Eq. f_equal.
  pose proof (Z.div_mod x dd ltac:(lia)) as E. pose proof (Z.mod_pos_bound x dd ltac:(lia)) as Hr.
  assert (0 <= x / dd) by (apply Z.div_pos; lia).
  unfold mul_lo, sub_lo. rewrite <- W64_eq in *.
  rewrite (Z.mod_small (x / dd * dd)) by nia.
  rewrite Z.mod_small by nia. lia.
Qed.

Lemma magic_div_correct n x : 1 <= n <= 18 -> 0 <= x < W64 ->
  g_magic_div (g_divisorPow10 n) x = spec_magicDiv n x.
Proof.
  intros Hn Hx. unfold spec_magicDiv.
  assert (Hc : n = 1 \/ n = 2 \/ n = 3 \/ n = 4 \/ n = 5 \/ n = 6 \/ n = 7 \/ n = 8 \/ n = 9 \/ n = 10 \/
               n = 11 \/ n = 12 \/ n = 13 \/ n = 14 \/ n = 15 \/ n = 16 \/ n = 17 \/ n = 18) by lia.
  repeat (destruct Hc as [-> | Hc]); try subst n;
    (apply magic_row_correct; [vm_compute; reflexivity | assumption | reflexivity]).
Qed.
