(* L1/KernSpec.v — the mathematical definition of the 12 decimal word kernels
   (dec_arith.go / dec_arith_amd64.s) and of divWVW, on little-endian word
   lists (value level), and their in-place / overlapping-destination reading
   on a single word-addressed array as the library calls them.  Definitions only.

   Preconditions under which the kernels are specified (all words are decimal
   words, i.e. 0 <= w < B = 10^19, unless stated):
     add10VV sub10VV      len x = len y = n
     add10VW sub10VW      0 <= y < B
     shl10VU shr10VU      0 <= s < 19
     mulAdd10VWW          0 <= y, r < B
     addMul10VVW          0 <= y < B
     div10VWW             0 < y < B, 0 <= xn < y
     divWVW               words < 2^64, 0 < y < 2^64, 0 <= xn < y
     mul10WW              0 <= x, y < 2^64 with x*y < B*2^64 (e.g. x, y < B)
     div10WW              0 <= x1 < y < 2^64, 0 <= x0 < B
     div10W               0 <= n1 < B, 0 <= n0 < 2^64
   Destination placement (word indexes z, x, y of the slice bases, n words):
     ascending kernels (add/sub/mulAdd/addMul/shr, and the s=0 copy of shr):
        every source must satisfy  z <= src  \/  src + n <= z
        (dst = src, dst below an overlapping src as dec.shr calls it, or disjoint);
     descending kernels (shl, div10VWW, divWVW): x <= z \/ z + n <= x
        (dst = src, dst above an overlapping src as dec.shl calls it, or disjoint);
     addMul10VVW reads and writes z: x must be disjoint from z or equal to it. *)
From Dec Require Export Base.Words L1.U64.
Open Scope Z_scope.

(* admissible destination placements: an ascending kernel writes z[i] after
   reading the sources at i (and never reads below i again), a descending one
   writes z[i] after reading at i and only reads below i afterwards *)
Definition asc_ok (z x n : Z) : Prop := z <= x \/ x + n <= z.
Definition desc_ok (z x n : Z) : Prop := x <= z \/ z + n <= x.

(* ---------------------------------------------------------------- scalars *)
Definition spec_mul10WW (x y : Z) : Z * Z := ((x * y) / B, (x * y) mod B).
Definition spec_div10WW (x1 x0 y : Z) : Z * Z := ((x1 * B + x0) / y, (x1 * B + x0) mod y).
Definition spec_div10W (n1 n0 : Z) : Z * Z := ((n1 * W64 + n0) / B, (n1 * W64 + n0) mod B).

(* -------------------------------------------------- decimal vector kernels *)
Definition nlen (l : list Z) : nat := length l.
Definition Bn (l : list Z) : Z := B ^ zlen l.

(* z = x + y, carry out *)
Definition spec_add10VV (x y : list Z) : list Z * Z :=
  (to_words (nlen x) (val x + val y), (val x + val y) / Bn x).
(* z = x - y mod B^n, borrow out *)
Definition spec_sub10VV (x y : list Z) : list Z * Z :=
  (to_words (nlen x) (val x - val y), - ((val x - val y) / Bn x)).
Definition spec_add10VW (x : list Z) (y : Z) : list Z * Z :=
  (to_words (nlen x) (val x + y), (val x + y) / Bn x).
Definition spec_sub10VW (x : list Z) (y : Z) : list Z * Z :=
  (to_words (nlen x) (val x - y), - ((val x - y) / Bn x)).
(* z = x * 10^s mod B^n, the digits shifted out at the top *)
Definition spec_shl10VU (x : list Z) (s : Z) : list Z * Z :=
  (to_words (nlen x) (val x * 10 ^ s), (val x * 10 ^ s) / Bn x).
(* z = x / 10^s, the s digits shifted out at the bottom, left-aligned in a word *)
Definition spec_shr10VU (x : list Z) (s : Z) : list Z * Z :=
  (to_words (nlen x) (val x / 10 ^ s), (val x mod 10 ^ s) * 10 ^ (DW - s)).
Definition spec_mulAdd10VWW (x : list Z) (y r : Z) : list Z * Z :=
  (to_words (nlen x) (val x * y + r), (val x * y + r) / Bn x).
Definition spec_addMul10VVW (z x : list Z) (y : Z) : list Z * Z :=
  (to_words (nlen x) (val z + val x * y), (val z + val x * y) / Bn x).
(* (xn, x) / y: quotient words and remainder *)
Definition spec_div10VWW (x : list Z) (y xn : Z) : list Z * Z :=
  (to_words (nlen x) ((xn * Bn x + val x) / y), (xn * Bn x + val x) mod y).

(* ------------------------------------------------------- binary: divWVW *)
Fixpoint val64 (l : list Z) : Z :=
  match l with [] => 0 | w :: r => w + W64 * val64 r end.
Fixpoint to_words64 (k : nat) (n : Z) : list Z :=
  match k with O => [] | S k' => (n mod W64) :: to_words64 k' (n / W64) end.
Definition spec_divWVW (xn : Z) (x : list Z) (y : Z) : list Z * Z :=
  (to_words64 (nlen x) ((xn * W64 ^ zlen x + val64 x) / y), (xn * W64 ^ zlen x + val64 x) mod y).

(* ---------------------------------------------------------- digit helpers *)
Definition spec_decDigits64 (x : Z) : Z := ndig x.
Definition spec_nlz10 (x : Z) : Z := DW - ndig x.
(* for 0 < n < 2^64; the Go function returns 31 for 0 *)
Definition spec_trailingZeroDigits (n : Z) : Z := if n =? 0 then 31 else ntz10 n.
(* divisorPow10(n).div(x), 1 <= n <= 18 *)
Definition spec_magicDiv (n x : Z) : Z * Z := (x / 10 ^ n, x mod 10 ^ n).

(* ------------------------------------------------------------------------
   Calls on one array.  z, x, y are word indexes of the slice bases inside
   the array, n the common length.  The specification of a call reads the
   operands from the array as it is before the call and writes the n result
   words at z: this is the meaning of "dst = src or overlapping as the library
   calls it" (the admissible placements are listed at the top of this file). *)
Inductive kcall :=
| KMul10WW (x y : Z)
| KDiv10WW (x1 x0 y : Z)
| KDiv10W (n1 n0 : Z)
| KAdd10VV (n : nat) (z x y : Z)
| KSub10VV (n : nat) (z x y : Z)
| KAdd10VW (n : nat) (z x y : Z)
| KSub10VW (n : nat) (z x y : Z)
| KShl10VU (n : nat) (z x s : Z)
| KShr10VU (n : nat) (z x s : Z)
| KMulAdd10VWW (n : nat) (z x y r : Z)
| KAddMul10VVW (n : nat) (z x y : Z)
| KDiv10VWW (n : nat) (z x y xn : Z)
| KDivWVW (n : nat) (z xn x y : Z)
| KDecDigits64 (x : Z)
| KNlz10 (x : Z)
| KTrailingZeroDigits (x : Z)
| KMagicDiv (n x : Z).

Definition vres (m : mem) (z : Z) (r : list Z * Z) : list Z * mem :=
  ([snd r], wr m z (fst r)).

Definition spec_call (k : kcall) (m : mem) : list Z * mem :=
  match k with
  | KMul10WW x y => let r := spec_mul10WW x y in ([fst r; snd r], m)
  | KDiv10WW x1 x0 y => let r := spec_div10WW x1 x0 y in ([fst r; snd r], m)
  | KDiv10W n1 n0 => let r := spec_div10W n1 n0 in ([fst r; snd r], m)
  | KAdd10VV n z x y => vres m z (spec_add10VV (rd m x n) (rd m y n))
  | KSub10VV n z x y => vres m z (spec_sub10VV (rd m x n) (rd m y n))
  | KAdd10VW n z x y => vres m z (spec_add10VW (rd m x n) y)
  | KSub10VW n z x y => vres m z (spec_sub10VW (rd m x n) y)
  | KShl10VU n z x s => vres m z (spec_shl10VU (rd m x n) s)
  | KShr10VU n z x s => vres m z (spec_shr10VU (rd m x n) s)
  | KMulAdd10VWW n z x y r => vres m z (spec_mulAdd10VWW (rd m x n) y r)
  | KAddMul10VVW n z x y => vres m z (spec_addMul10VVW (rd m z n) (rd m x n) y)
  | KDiv10VWW n z x y xn => vres m z (spec_div10VWW (rd m x n) y xn)
  | KDivWVW n z xn x y => vres m z (spec_divWVW xn (rd m x n) y)
  | KDecDigits64 x => ([spec_decDigits64 x], m)
  | KNlz10 x => ([spec_nlz10 x], m)
  | KTrailingZeroDigits x => ([spec_trailingZeroDigits x], m)
  | KMagicDiv n x => let r := spec_magicDiv n x in ([fst r; snd r], m)
  end.
