(* L1/U64.v — 64-bit machine-word primitives shared by the x86-64 interpreter
   (L1/X86.v) and by the Gallina models of the portable Go kernels
   (L1/KernG.v).  Every primitive is an explicit function on Z with the
   wrap-around written out (mod 2^64); definitions only. *)
From Coq Require Export ZArith List Bool Lia.
Export ListNotations.
Open Scope Z_scope.

Definition W64 : Z := 18446744073709551616.          (* 2^64 *)
Definition HALF64 : Z := 9223372036854775808.        (* 2^63 *)
Definition MAX64 : Z := 18446744073709551615.        (* 2^64 - 1 *)

Definition wrap (x : Z) : Z := x mod W64.

(* bits.Add / ADDQ-ADCQ: sum and carry-out of x + y + c *)
Definition add_lo (x y c : Z) : Z := (x + y + c) mod W64.
Definition add_c  (x y c : Z) : Z := (x + y + c) / W64.
(* bits.Sub / SUBQ-SBBQ: difference and borrow-out of x - y - b *)
Definition sub_lo (x y b : Z) : Z := (x - y - b) mod W64.
Definition sub_b  (x y b : Z) : Z := if x - y - b <? 0 then 1 else 0.
(* bits.Mul / MULQ *)
Definition mul_hi (x y : Z) : Z := (x * y) / W64.
Definition mul_lo (x y : Z) : Z := (x * y) mod W64.
(* bits.Div / DIVQ (defined when y <> 0 and hi < y) *)
Definition div_q (hi lo y : Z) : Z := (hi * W64 + lo) / y.
Definition div_r (hi lo y : Z) : Z := (hi * W64 + lo) mod y.

(* two's complement view *)
Definition signed (x : Z) : Z := if x <? HALF64 then x else x - W64.
Definition msb (x : Z) : bool := HALF64 <=? x.
(* arithmetic shift right by 63: all ones if the top bit is set, else 0
   (Go: Word(int(x) >> 63), x86: SARQ $63) *)
Definition sar63 (x : Z) : Z := if x <? HALF64 then 0 else MAX64.
(* ^x / NOTQ *)
Definition not64 (x : Z) : Z := MAX64 - x.
(* -x / NEGQ *)
Definition neg64 (x : Z) : Z := (- x) mod W64.
(* logical shift right / left by a count 0..63 *)
Definition shr64 (x c : Z) : Z := x / 2 ^ c.
Definition shl64 (x c : Z) : Z := (x * 2 ^ c) mod W64.
(* arithmetic shift right by a count 0..63 *)
Definition sar64 (x c : Z) : Z := (signed x / 2 ^ c) mod W64.

(* bits.Len64 *)
Definition len64 (x : Z) : Z := if x <=? 0 then 0 else Z.log2 x + 1.

(* nth with a Z index and default 0 *)
Definition znth (l : list Z) (i : Z) : Z := nth (Z.to_nat i) l 0.

(* memories: total functions from word index to word *)
Definition mem := Z -> Z.
Definition upd (m : mem) (a v : Z) : mem := fun a' => if a' =? a then v else m a'.
Definition mem_of_list (l : list Z) : mem := fun a => if a <? 0 then 0 else znth l a.
(* k words starting at a *)
Fixpoint rd (m : mem) (a : Z) (k : nat) : list Z :=
  match k with
  | O => []
  | S k' => m a :: rd m (a + 1) k'
  end.
(* write a list at a *)
Fixpoint wr (m : mem) (a : Z) (l : list Z) : mem :=
  match l with
  | [] => m
  | w :: r => wr (upd m a w) (a + 1) r
  end.

(* extensional equality of memories (the development uses no functional
   extensionality axiom) *)
Definition mem_eq (m1 m2 : mem) : Prop := forall a, m1 a = m2 a.
