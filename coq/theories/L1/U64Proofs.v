(* L1/U64Proofs.v — facts about the 64-bit primitives and about memories. *)
From Coq Require Import ZArith List Bool Lia.
From Dec Require Import L1.U64.
Import ListNotations.
Open Scope Z_scope.

Lemma W64_eq : W64 = 2 ^ 64. Proof. reflexivity. Qed.
Lemma W64_pos : 0 < W64. Proof. reflexivity. Qed.
Lemma HALF64_eq : HALF64 = 2 ^ 63. Proof. reflexivity. Qed.
Lemma W64_half : W64 = 2 * HALF64. Proof. reflexivity. Qed.
Lemma MAX64_eq : MAX64 = W64 - 1. Proof. reflexivity. Qed.

Global Opaque W64 HALF64 MAX64.

Ltac w64 := pose proof W64_pos; pose proof W64_half; pose proof MAX64_eq.

Lemma wrap_small x : 0 <= x < W64 -> wrap x = x.
Proof. intros; unfold wrap; now apply Z.mod_small. Qed.
Lemma wrap_range x : 0 <= wrap x < W64.
Proof. unfold wrap; apply Z.mod_pos_bound, W64_pos. Qed.

Lemma add_lo_range x y c : 0 <= add_lo x y c < W64.
Proof. unfold add_lo; apply Z.mod_pos_bound, W64_pos. Qed.
Lemma sub_lo_range x y c : 0 <= sub_lo x y c < W64.
Proof. unfold sub_lo; apply Z.mod_pos_bound, W64_pos. Qed.
Lemma mul_lo_range x y : 0 <= mul_lo x y < W64.
Proof. unfold mul_lo; apply Z.mod_pos_bound, W64_pos. Qed.
Lemma mul_hi_range x y : 0 <= x < W64 -> 0 <= y < W64 -> 0 <= mul_hi x y < W64.
Proof.
  intros; unfold mul_hi; w64. split.
  - apply Z.div_pos; nia.
  - apply Z.div_lt_upper_bound; nia.
Qed.
Lemma mul_hi_lo x y : mul_hi x y * W64 + mul_lo x y = x * y.
Proof. unfold mul_hi, mul_lo; w64. pose proof (Z.div_mod (x * y) W64). lia. Qed.

Lemma add_lo_c x y c : add_c x y c * W64 + add_lo x y c = x + y + c.
Proof. unfold add_c, add_lo; w64. pose proof (Z.div_mod (x + y + c) W64). lia. Qed.
Lemma add_c_01 x y c : 0 <= x < W64 -> 0 <= y < W64 -> 0 <= c <= 1 -> 0 <= add_c x y c <= 1.
Proof.
  intros; unfold add_c; w64. split.
  - apply Z.div_pos; lia.
  - assert ((x + y + c) / W64 < 2) by (apply Z.div_lt_upper_bound; lia). lia.
Qed.
Lemma add_c_leb x y c : 0 <= x < W64 -> 0 <= y < W64 -> 0 <= c <= 1 ->
  add_c x y c = if W64 <=? x + y + c then 1 else 0.
Proof.
  intros; unfold add_c; w64. destruct (Z.leb_spec W64 (x + y + c)).
  - symmetry; apply Z.div_unique with (r := x + y + c - W64); lia.
  - apply Z.div_small; lia.
Qed.

Lemma sub_lo_b x y b : 0 <= x < W64 -> 0 <= y < W64 -> 0 <= b <= 1 ->
  sub_lo x y b = x - y - b + W64 * sub_b x y b.
Proof.
  intros; unfold sub_lo, sub_b; w64. destruct (Z.ltb_spec (x - y - b) 0).
  - symmetry; apply Z.mod_unique with (q := -1); lia.
  - rewrite Z.mod_small; lia.
Qed.
Lemma sub_b_01 x y b : 0 <= sub_b x y b <= 1.
Proof. unfold sub_b; destruct (_ <? _); lia. Qed.

Lemma add_lo_small x y c : 0 <= x + y + c < W64 -> add_lo x y c = x + y + c.
Proof. intros; unfold add_lo; now apply Z.mod_small. Qed.
Lemma sub_lo_small x y c : 0 <= x - y - c < W64 -> sub_lo x y c = x - y - c.
Proof. intros; unfold sub_lo; now apply Z.mod_small. Qed.
Lemma add_lo_over x y c : W64 <= x + y + c < 2 * W64 -> add_lo x y c = x + y + c - W64.
Proof. intros; unfold add_lo; symmetry; apply Z.mod_unique with (q := 1); lia. Qed.
Lemma sub_lo_under x y c : - W64 <= x - y - c < 0 -> sub_lo x y c = x - y - c + W64.
Proof. intros; unfold sub_lo; symmetry; apply Z.mod_unique with (q := -1); lia. Qed.

Lemma not64_range x : 0 <= x < W64 -> 0 <= not64 x < W64.
Proof. unfold not64; w64; lia. Qed.

Lemma neg64_0 : neg64 0 = 0. Proof. reflexivity. Qed.
Lemma neg64_1 : neg64 1 = MAX64. Proof. reflexivity. Qed.

Lemma sar63_cases x : (x < HALF64 /\ sar63 x = 0) \/ (HALF64 <= x /\ sar63 x = MAX64).
Proof. unfold sar63; destruct (Z.ltb_spec x HALF64); [left | right]; auto. Qed.

Lemma signed_cases x : (x < HALF64 /\ signed x = x) \/ (HALF64 <= x /\ signed x = x - W64).
Proof. unfold signed; destruct (Z.ltb_spec x HALF64); [left | right]; auto. Qed.

Lemma sar64_63 x : 0 <= x < W64 -> sar64 x 63 = sar63 x.
Proof.
  intros; unfold sar64; w64. pose proof HALF64_eq as E.
  destruct (signed_cases x) as [[Hx ->] | [Hx ->]]; destruct (sar63_cases x) as [[Hy ->] | [Hy ->]]; try lia.
  - rewrite <- E, Z.div_small, Z.mod_small; lia.
  - rewrite <- E. replace ((x - W64) / HALF64) with (-1).
    + symmetry; apply Z.mod_unique with (q := -1); lia.
    + apply Z.div_unique with (r := x - HALF64); lia.
Qed.

Lemma land_0_r x : Z.land x 0 = 0. Proof. apply Z.land_0_r. Qed.
Lemma land_max_r x : 0 <= x < W64 -> Z.land x MAX64 = x.
Proof.
  intros. rewrite MAX64_eq, W64_eq. change (2 ^ 64 - 1) with (Z.ones 64).
  rewrite Z.land_ones by lia. apply Z.mod_small. now rewrite <- W64_eq.
Qed.
Lemma land_max_l x : 0 <= x < W64 -> Z.land MAX64 x = x.
Proof. intros; rewrite Z.land_comm; now apply land_max_r. Qed.

(* ------------------------------------------------------------ memories *)

Lemma upd_same m a v : upd m a v a = v.
Proof. unfold upd; now rewrite Z.eqb_refl. Qed.
Lemma upd_other m a v a' : a' <> a -> upd m a v a' = m a'.
Proof. unfold upd; intros; destruct (Z.eqb_spec a' a); congruence. Qed.

Lemma rd_length m a k : length (rd m a k) = k.
Proof. revert a; induction k; intros; cbn [rd length]; auto. Qed.

Lemma rd_ext m1 m2 a k : (forall j, a <= j < a + Z.of_nat k -> m1 j = m2 j) -> rd m1 a k = rd m2 a k.
Proof.
  revert a; induction k as [|k IH]; intros a H; cbn [rd]; [reflexivity|].
  f_equal; [apply H; lia | apply IH; intros; apply H; lia].
Qed.

Lemma rd_upd_outside m a0 v a k : a0 < a \/ a + Z.of_nat k <= a0 -> rd (upd m a0 v) a k = rd m a k.
Proof. intros; apply rd_ext; intros; apply upd_other; lia. Qed.

Lemma rd_S m a k : rd m a (S k) = m a :: rd m (a + 1) k.
Proof. reflexivity. Qed.

Lemma rd_snoc m a k : rd m a (S k) = rd m a k ++ [m (a + Z.of_nat k)].
Proof.
  revert a; induction k as [|k IH]; intros a.
  - cbn. now rewrite Z.add_0_r.
  - rewrite (rd_S m a (S k)), IH, (rd_S m a k). cbn [app].
    replace (a + 1 + Z.of_nat k) with (a + Z.of_nat (S k)) by lia. reflexivity.
Qed.

Lemma wr_outside m a l a' : a' < a \/ a + Z.of_nat (length l) <= a' -> wr m a l a' = m a'.
Proof.
  revert m a; induction l as [|w l IH]; intros m a H; cbn [wr]; [reflexivity|].
  cbn [length] in H. rewrite IH by lia. apply upd_other; lia.
Qed.

Lemma wr_inside m a l a' : a <= a' < a + Z.of_nat (length l) -> wr m a l a' = nth (Z.to_nat (a' - a)) l 0.
Proof.
  revert m a; induction l as [|w l IH]; intros m a H; cbn [wr length] in *; [lia|].
  destruct (Z.eq_dec a' a) as [->|Hne].
  - rewrite wr_outside by lia. rewrite upd_same, Z.sub_diag. reflexivity.
  - rewrite IH by lia. replace (Z.to_nat (a' - a)) with (S (Z.to_nat (a' - (a + 1)))) by lia. reflexivity.
Qed.

Lemma wr_ext m1 m2 a l : mem_eq m1 m2 -> mem_eq (wr m1 a l) (wr m2 a l).
Proof.
  revert m1 m2 a; induction l as [|w l IH]; intros m1 m2 a H; cbn [wr]; [exact H|].
  apply IH. intros a'. unfold upd. destruct (a' =? a); auto.
Qed.

Lemma wr_snoc m a l w : mem_eq (wr m a (l ++ [w])) (upd (wr m a l) (a + Z.of_nat (length l)) w).
Proof.
  revert m a; induction l as [|v l IH]; intros m a a'; cbn [wr app length].
  - now rewrite Z.add_0_r.
  - rewrite IH. replace (a + 1 + Z.of_nat (length l)) with (a + Z.of_nat (S (length l))) by lia. reflexivity.
Qed.

Lemma rd_wr_same m a l : rd (wr m a l) a (length l) = l.
Proof.
  revert m a; induction l as [|w l IH]; intros m a; cbn [wr rd length]; [reflexivity|].
  f_equal.
  - rewrite wr_outside by lia. apply upd_same.
  - apply IH.
Qed.
