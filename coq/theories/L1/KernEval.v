(* L1/KernEval.v — one kernel call evaluated three ways (specification, Go
   model, interpreter on the generated assembly) and compared; used by the
   extracted runner of the C07 correspondence check and by its in-Coq
   vm_compute sample.  Definitions only. *)
From Dec Require Export L1.KernSpec L1.KernG L1.KernAsm.
Open Scope Z_scope.

Definition zlist_eqb (a b : list Z) : bool := if list_eq_dec Z.eq_dec a b then true else false.

Definition same_on (msize : nat) (a b : list Z * mem) : bool :=
  zlist_eqb (fst a) (fst b) && zlist_eqb (rd (snd a) 0 msize) (rd (snd b) 0 msize).

(* (result scalars, array after the call) of the specification; whether the Go
   model agrees with it; whether the assembly agrees with it (true when the
   kernel has no assembly version) *)
Definition eval3 (k : kcall) (ml : list Z) : (list Z * list Z) * bool * bool :=
  let msize := length ml in
  let m := mem_of_list ml in
  let s := spec_call k m in
  let g := g_call k m in
  let a := match asm_call k (Z.of_nat msize) m with
           | None => true
           | Some None => false
           | Some (Some r) => same_on msize s r
           end in
  ((fst s, rd (snd s) 0 msize), same_on msize s g, a).

(* for the vm_compute sample: expected = (scalars, array) observed on the CPU *)
Definition kcase := (kcall * list Z * (list Z * list Z))%type.
Definition kcase_ok (c : kcase) : bool :=
  match c with
  | (k, ml, (res, arr)) =>
      match eval3 k ml with
      | ((r, a), gok, aok) => zlist_eqb r res && zlist_eqb a arr && gok && aok
      end
  end.
Fixpoint kmismatches_from (i : nat) (l : list kcase) : list nat :=
  match l with
  | [] => []
  | c :: r => if kcase_ok c then kmismatches_from (S i) r else i :: kmismatches_from (S i) r
  end.
Definition kmismatches (l : list kcase) : list nat := kmismatches_from 0 l.
