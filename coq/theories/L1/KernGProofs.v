(* L1/KernGProofs.v — the vector kernels of the portable Go code (Gallina
   models of L1/KernG.v, on one array with possibly overlapping windows) equal
   their mathematical definition (L1/KernSpec.v) for ALL lengths and contents
   under each kernel's precondition and admissible destination placement.
   Proofs only. *)
From Coq Require Import ZArith List Bool Lia.
From Dec Require Import Base.Words Base.WordsProofs L1.U64 L1.U64Proofs L1.KernSpec L1.KernG L1.KernGScalar gen.Consts gen.Tables.
Import ListNotations.
Open Scope Z_scope.

Lemma zlen_rd m a k : zlen (rd m a k) = Z.of_nat k.
Proof. unfold zlen. now rewrite rd_length. Qed.

Lemma div_mod_step a b : (a + B * b) / B = a / B + b /\ (a + B * b) mod B = a mod B.
Proof.
  pose proof B_pos. split.
  - rewrite (Z.mul_comm B b), Z.div_add by lia. reflexivity.
  - rewrite (Z.mul_comm B b), Z.mod_add by lia. reflexivity.
Qed.

Lemma to_words_S k N : to_words (S k) N = N mod B :: to_words k (N / B).
Proof. reflexivity. Qed.

Lemma pow_S_div N k : N / B ^ Z.of_nat (S k) = N / B / B ^ Z.of_nat k.
Proof.
  pose proof B_pos. rewrite Nat2Z.inj_succ, Z.pow_succ_r by lia.
  rewrite Z.div_div; [reflexivity | lia | apply Z.pow_pos_nonneg; lia].
Qed.

Lemma words_ok_rd_S m a k : words_ok (rd m a (S k)) = true <-> 0 <= m a < B /\ words_ok (rd m (a + 1) k) = true.
Proof. rewrite rd_S. apply words_ok_cons. Qed.


Section AddVV.
Variables (n z x y : Z).
Hypothesis Hx : asc_ok z x n.
Hypothesis Hy : asc_ok z y n.

Lemma g_add10VV_loop_spec k : forall i c m, 0 <= i -> i + Z.of_nat k <= n -> 0 <= c <= 1 ->
  words_ok (rd m (x + i) k) = true -> words_ok (rd m (y + i) k) = true ->
  let N := val (rd m (x + i) k) + val (rd m (y + i) k) + c in
  fst (g_add10VV_loop k z x y i c m) = N / B ^ Z.of_nat k /\
  mem_eq (snd (g_add10VV_loop k z x y i c m)) (wr m (z + i) (to_words k N)).
Proof.
  induction k as [|k IH]; intros i c m Hi Hik Hc Hwx Hwy N.
  - cbn [g_add10VV_loop fst snd to_words wr]. subst N. cbn [rd val]. rewrite Z.div_1_r. split; [lia | intro; reflexivity].
  - apply words_ok_rd_S in Hwx as [Hxi Hwx]. apply words_ok_rd_S in Hwy as [Hyi Hwy].
    cbn [g_add10VV_loop]. rewrite g_add10WWW_correct by assumption. cbn [fst snd].
    set (s := (m (x + i) + m (y + i) + c) mod B). set (c' := (m (x + i) + m (y + i) + c) / B).
    assert (Hc' : 0 <= c' <= 1).
    { unfold c'. pose proof B_pos. split; [apply Z.div_pos; lia|].
      assert ((m (x + i) + m (y + i) + c) / B < 2) by (apply Z.div_lt_upper_bound; lia). lia. }
    replace (x + i + 1) with (x + (i + 1)) in Hwx by lia. replace (y + i + 1) with (y + (i + 1)) in Hwy by lia.
    assert (Ex : rd (upd m (z + i) s) (x + (i + 1)) k = rd m (x + (i + 1)) k)
      by (apply rd_upd_outside; unfold asc_ok in Hx; lia).
    assert (Ey : rd (upd m (z + i) s) (y + (i + 1)) k = rd m (y + (i + 1)) k)
      by (apply rd_upd_outside; unfold asc_ok in Hy; lia).
    destruct (IH (i + 1) c' (upd m (z + i) s)) as [IHc IHm]; try lia; try (rewrite ?Ex, ?Ey; assumption).
    rewrite Ex, Ey in IHc, IHm.
    subst N. rewrite !rd_S. cbn [val].
    replace (x + i + 1) with (x + (i + 1)) by lia. replace (y + i + 1) with (y + (i + 1)) by lia.
    set (X := val (rd m (x + (i + 1)) k)) in *. set (Y := val (rd m (y + (i + 1)) k)) in *.
    destruct (div_mod_step (m (x + i) + m (y + i) + c) (X + Y)) as [Ed Em].
    replace (m (x + i) + B * X + (m (y + i) + B * Y) + c) with (m (x + i) + m (y + i) + c + B * (X + Y)) by ring.
    rewrite pow_S_div, to_words_S, Ed, Em. fold c' s.
    replace (c' + (X + Y)) with (X + Y + c') by ring.
    split; [exact IHc|]. cbn [wr]. replace (z + i + 1) with (z + (i + 1)) by lia. exact IHm.
Qed.
End AddVV.

Theorem g_add10VV_correct n z x y m :
  asc_ok z x (Z.of_nat n) -> asc_ok z y (Z.of_nat n) ->
  words_ok (rd m x n) = true -> words_ok (rd m y n) = true ->
  let r := spec_add10VV (rd m x n) (rd m y n) in
  fst (g_add10VV n z x y m) = snd r /\ mem_eq (snd (g_add10VV n z x y m)) (wr m z (fst r)).
Proof.
  intros Hx Hy Wx Wy r. unfold g_add10VV.
  destruct (g_add10VV_loop_spec (Z.of_nat n) z x y Hx Hy n 0 0 m) as [Hc Hm]; try lia;
    rewrite ?Z.add_0_r; try assumption.
  rewrite !Z.add_0_r in *. subst r. unfold spec_add10VV, nlen, Bn. cbn [fst snd].
  rewrite rd_length, zlen_rd. split; assumption.
Qed.

Section SubVV.
Variables (n z x y : Z).
Hypothesis Hx : asc_ok z x n.
Hypothesis Hy : asc_ok z y n.

(* the borrow b is carried as the (negative) carry -b *)
Lemma g_sub10VV_loop_spec k : forall i b m, 0 <= i -> i + Z.of_nat k <= n -> 0 <= b <= 1 ->
  words_ok (rd m (x + i) k) = true -> words_ok (rd m (y + i) k) = true ->
  let N := val (rd m (x + i) k) - val (rd m (y + i) k) - b in
  fst (g_sub10VV_loop k z x y i b m) = - (N / B ^ Z.of_nat k) /\
  mem_eq (snd (g_sub10VV_loop k z x y i b m)) (wr m (z + i) (to_words k N)).
Proof.
  induction k as [|k IH]; intros i b m Hi Hik Hb Hwx Hwy N.
  - cbn [g_sub10VV_loop fst snd to_words wr]. subst N. cbn [rd val]. rewrite Z.div_1_r. split; [lia | intro; reflexivity].
  - apply words_ok_rd_S in Hwx as [Hxi Hwx]. apply words_ok_rd_S in Hwy as [Hyi Hwy].
    cbn [g_sub10VV_loop]. rewrite g_sub10WWW_correct by assumption. cbn [fst snd].
    set (s := (m (x + i) - m (y + i) - b) mod B). set (b' := - ((m (x + i) - m (y + i) - b) / B)).
    assert (Hb' : 0 <= b' <= 1).
    { unfold b'. pose proof B_pos.
      assert (-1 <= (m (x + i) - m (y + i) - b) / B) by (apply Z.div_le_lower_bound; lia).
      assert ((m (x + i) - m (y + i) - b) / B < 1) by (apply Z.div_lt_upper_bound; lia). lia. }
    replace (x + i + 1) with (x + (i + 1)) in Hwx by lia. replace (y + i + 1) with (y + (i + 1)) in Hwy by lia.
    assert (Ex : rd (upd m (z + i) s) (x + (i + 1)) k = rd m (x + (i + 1)) k)
      by (apply rd_upd_outside; unfold asc_ok in Hx; lia).
    assert (Ey : rd (upd m (z + i) s) (y + (i + 1)) k = rd m (y + (i + 1)) k)
      by (apply rd_upd_outside; unfold asc_ok in Hy; lia).
    destruct (IH (i + 1) b' (upd m (z + i) s)) as [IHc IHm]; try lia; try (rewrite ?Ex, ?Ey; assumption).
    rewrite Ex, Ey in IHc, IHm.
    subst N. rewrite !rd_S. cbn [val].
    replace (x + i + 1) with (x + (i + 1)) by lia. replace (y + i + 1) with (y + (i + 1)) by lia.
    set (X := val (rd m (x + (i + 1)) k)) in *. set (Y := val (rd m (y + (i + 1)) k)) in *.
    destruct (div_mod_step (m (x + i) - m (y + i) - b) (X - Y)) as [Ed Em].
    replace (m (x + i) + B * X - (m (y + i) + B * Y) - b) with (m (x + i) - m (y + i) - b + B * (X - Y)) by ring.
    rewrite pow_S_div, to_words_S, Ed, Em. fold s.
    replace ((m (x + i) - m (y + i) - b) / B + (X - Y)) with (X - Y - b') by (unfold b'; ring).
    split; [exact IHc|]. cbn [wr]. replace (z + i + 1) with (z + (i + 1)) by lia. exact IHm.
Qed.
End SubVV.

Theorem g_sub10VV_correct n z x y m :
  asc_ok z x (Z.of_nat n) -> asc_ok z y (Z.of_nat n) ->
  words_ok (rd m x n) = true -> words_ok (rd m y n) = true ->
  let r := spec_sub10VV (rd m x n) (rd m y n) in
  fst (g_sub10VV n z x y m) = snd r /\ mem_eq (snd (g_sub10VV n z x y m)) (wr m z (fst r)).
Proof.
  intros Hx Hy Wx Wy r. unfold g_sub10VV.
  destruct (g_sub10VV_loop_spec (Z.of_nat n) z x y Hx Hy n 0 0 m) as [Hc Hm]; try lia;
    rewrite ?Z.add_0_r; try assumption.
  rewrite !Z.add_0_r, !Z.sub_0_r in *. subst r. unfold spec_sub10VV, nlen, Bn. cbn [fst snd].
  rewrite rd_length, zlen_rd. split; assumption.
Qed.

(* x*y + c for decimal words: one step of mulAdd10VWW_g *)
Lemma g_mulAdd_step xi y c : 0 <= xi < B -> 0 <= y < B -> 0 <= c < B ->
  let hl := g_mulAddWWW xi y c in
  g_div10W (fst hl) (snd hl) = ((xi * y + c) / B, (xi * y + c) mod B) /\ 0 <= (xi * y + c) / B < B.
Proof.
  intros Hx Hy Hc hl. bw. subst hl. rewrite g_mulAddWWW_correct by lia. cbn [fst snd].
  assert (Hp : 0 <= xi * y + c < B * B) by nia.
  pose proof (Z.div_mod (xi * y + c) W64 ltac:(lia)) as E.
  pose proof (Z.mod_pos_bound (xi * y + c) W64 ltac:(lia)).
  assert (0 <= (xi * y + c) / W64 < B).
  { split; [apply Z.div_pos; lia|]. apply Z.div_lt_upper_bound; nia. }
  rewrite g_div10W_correct by lia. unfold spec_div10W.
  replace ((xi * y + c) / W64 * W64 + (xi * y + c) mod W64) with (xi * y + c) by lia.
  split; [reflexivity|]. split; [apply Z.div_pos; lia | apply Z.div_lt_upper_bound; lia].
Qed.

Section MulAdd.
Variables (n z x y : Z).
Hypothesis Hx : asc_ok z x n.
Hypothesis Hyr : 0 <= y < B.

Lemma g_mulAdd10VWW_loop_spec k : forall i c m, 0 <= i -> i + Z.of_nat k <= n -> 0 <= c < B ->
  words_ok (rd m (x + i) k) = true ->
  let N := val (rd m (x + i) k) * y + c in
  fst (g_mulAdd10VWW_loop k z x y i c m) = N / B ^ Z.of_nat k /\
  mem_eq (snd (g_mulAdd10VWW_loop k z x y i c m)) (wr m (z + i) (to_words k N)).
Proof.
  induction k as [|k IH]; intros i c m Hi Hik Hc Hwx N.
  - cbn [g_mulAdd10VWW_loop fst snd to_words wr]. subst N. cbn [rd val]. rewrite Z.div_1_r. split; [lia | intro; reflexivity].
  - apply words_ok_rd_S in Hwx as [Hxi Hwx].
    cbn [g_mulAdd10VWW_loop].
    destruct (g_mulAdd_step (m (x + i)) y c Hxi Hyr Hc) as [-> Hc']. cbn [fst snd].
    set (s := (m (x + i) * y + c) mod B) in *. set (c' := (m (x + i) * y + c) / B) in *.
    replace (x + i + 1) with (x + (i + 1)) in Hwx by lia.
    assert (Ex : rd (upd m (z + i) s) (x + (i + 1)) k = rd m (x + (i + 1)) k)
      by (apply rd_upd_outside; unfold asc_ok in Hx; lia).
    destruct (IH (i + 1) c' (upd m (z + i) s)) as [IHc IHm]; try lia; try (rewrite ?Ex; assumption).
    rewrite Ex in IHc, IHm.
    subst N. rewrite !rd_S. cbn [val].
    replace (x + i + 1) with (x + (i + 1)) by lia.
    set (X := val (rd m (x + (i + 1)) k)) in *.
    destruct (div_mod_step (m (x + i) * y + c) (X * y)) as [Ed Em].
    replace ((m (x + i) + B * X) * y + c) with (m (x + i) * y + c + B * (X * y)) by ring.
    rewrite pow_S_div, to_words_S, Ed, Em. fold c' s.
    replace (c' + X * y) with (X * y + c') by ring.
    split; [exact IHc|]. cbn [wr]. replace (z + i + 1) with (z + (i + 1)) by lia. exact IHm.
Qed.
End MulAdd.

Theorem g_mulAdd10VWW_correct n z x y r m :
  asc_ok z x (Z.of_nat n) -> 0 <= y < B -> 0 <= r < B -> words_ok (rd m x n) = true ->
  let s := spec_mulAdd10VWW (rd m x n) y r in
  fst (g_mulAdd10VWW n z x y r m) = snd s /\ mem_eq (snd (g_mulAdd10VWW n z x y r m)) (wr m z (fst s)).
Proof.
  intros Hx Hy Hr Wx s. unfold g_mulAdd10VWW.
  destruct (g_mulAdd10VWW_loop_spec (Z.of_nat n) z x y Hx Hy n 0 r m) as [Hc Hm]; try lia;
    rewrite ?Z.add_0_r; try assumption.
  rewrite !Z.add_0_r in *. subst s. unfold spec_mulAdd10VWW, nlen, Bn. cbn [fst snd].
  rewrite rd_length, zlen_rd. split; assumption.
Qed.

(* z + x*y + c : one step of addMul10VVW_g *)
Lemma g_addMul_step xi y zi c : 0 <= xi < B -> 0 <= y < B -> 0 <= zi < B -> 0 <= c < B ->
  let hz := g_mulAddWWW xi y zi in
  g_div10W (add_lo (fst hz) (add_c (snd hz) c 0) 0) (add_lo (snd hz) c 0)
    = ((zi + xi * y + c) / B, (zi + xi * y + c) mod B) /\ 0 <= (zi + xi * y + c) / B < B /\
  0 <= add_lo (fst hz) (add_c (snd hz) c 0) 0 < B.
Proof.
  intros Hx Hy Hz Hc hz. bw. subst hz. rewrite g_mulAddWWW_correct by lia. cbn [fst snd].
  assert (Hp : 0 <= xi * y + zi + c < B * B) by nia.
  set (P := xi * y + zi) in *.
  pose proof (Z.div_mod P W64 ltac:(lia)) as E.
  pose proof (Z.mod_pos_bound P W64 ltac:(lia)) as Hl.
  assert (Hh : 0 <= P / W64) by (apply Z.div_pos; lia).
  pose proof (add_lo_c (P mod W64) c 0) as Ec.
  pose proof (add_c_01 (P mod W64) c 0 Hl ltac:(lia) ltac:(lia)) as Hcc.
  pose proof (add_lo_range (P mod W64) c 0) as Hlo.
  set (cc := add_c (P mod W64) c 0) in *. set (lo := add_lo (P mod W64) c 0) in *.
  assert (Hsum : P + c = (P / W64 + cc) * W64 + lo) by lia.
  assert (Hb : P / W64 + cc < B) by nia.
  rewrite (add_lo_small (P / W64) cc 0) by lia. rewrite Z.add_0_r.
  rewrite g_div10W_correct by lia. unfold spec_div10W.
  replace ((P / W64 + cc) * W64 + lo) with (zi + xi * y + c) by (unfold P in *; lia).
  split; [reflexivity|]. split; [|lia]. split; [apply Z.div_pos; unfold P in *; lia | apply Z.div_lt_upper_bound; unfold P in *; lia].
Qed.

Section AddMul.
Variables (n z x y : Z).
Hypothesis Hx : asc_ok z x n.
Hypothesis Hyr : 0 <= y < B.

Lemma g_addMul10VVW_loop_spec k : forall i c m, 0 <= i -> i + Z.of_nat k <= n -> 0 <= c < B ->
  words_ok (rd m (x + i) k) = true -> words_ok (rd m (z + i) k) = true ->
  let N := val (rd m (z + i) k) + val (rd m (x + i) k) * y + c in
  fst (g_addMul10VVW_loop k z x y i c m) = N / B ^ Z.of_nat k /\
  mem_eq (snd (g_addMul10VVW_loop k z x y i c m)) (wr m (z + i) (to_words k N)).
Proof.
  induction k as [|k IH]; intros i c m Hi Hik Hc Hwx Hwz N.
  - cbn [g_addMul10VVW_loop fst snd to_words wr]. subst N. cbn [rd val]. rewrite Z.div_1_r. split; [lia | intro; reflexivity].
  - apply words_ok_rd_S in Hwx as [Hxi Hwx]. apply words_ok_rd_S in Hwz as [Hzi Hwz].
    cbn [g_addMul10VVW_loop].
    destruct (g_addMul_step (m (x + i)) y (m (z + i)) c Hxi Hyr Hzi Hc) as [-> [Hc' _]]. cbn [fst snd].
    set (s := (m (z + i) + m (x + i) * y + c) mod B) in *. set (c' := (m (z + i) + m (x + i) * y + c) / B) in *.
    replace (x + i + 1) with (x + (i + 1)) in Hwx by lia. replace (z + i + 1) with (z + (i + 1)) in Hwz by lia.
    assert (Ex : rd (upd m (z + i) s) (x + (i + 1)) k = rd m (x + (i + 1)) k)
      by (apply rd_upd_outside; unfold asc_ok in Hx; lia).
    assert (Ez : rd (upd m (z + i) s) (z + (i + 1)) k = rd m (z + (i + 1)) k)
      by (apply rd_upd_outside; lia).
    destruct (IH (i + 1) c' (upd m (z + i) s)) as [IHc IHm]; try lia; try (rewrite ?Ex, ?Ez; assumption).
    rewrite Ex, Ez in IHc, IHm.
    subst N. rewrite !rd_S. cbn [val].
    replace (x + i + 1) with (x + (i + 1)) by lia. replace (z + i + 1) with (z + (i + 1)) by lia.
    set (X := val (rd m (x + (i + 1)) k)) in *. set (Zv := val (rd m (z + (i + 1)) k)) in *.
    destruct (div_mod_step (m (z + i) + m (x + i) * y + c) (Zv + X * y)) as [Ed Em].
    replace (m (z + i) + B * Zv + (m (x + i) + B * X) * y + c)
      with (m (z + i) + m (x + i) * y + c + B * (Zv + X * y)) by ring.
    rewrite pow_S_div, to_words_S, Ed, Em. fold c' s.
    replace (c' + (Zv + X * y)) with (Zv + X * y + c') by ring.
    split; [exact IHc|]. cbn [wr]. replace (z + i + 1) with (z + (i + 1)) by lia. exact IHm.
Qed.
End AddMul.

Theorem g_addMul10VVW_correct n z x y m :
  asc_ok z x (Z.of_nat n) -> 0 <= y < B -> words_ok (rd m x n) = true -> words_ok (rd m z n) = true ->
  let s := spec_addMul10VVW (rd m z n) (rd m x n) y in
  fst (g_addMul10VVW n z x y m) = snd s /\ mem_eq (snd (g_addMul10VVW n z x y m)) (wr m z (fst s)).
Proof.
  intros Hx Hy Wx Wz s. unfold g_addMul10VVW.
  destruct (g_addMul10VVW_loop_spec (Z.of_nat n) z x y Hx Hy n 0 0 m) as [Hc Hm]; try lia;
    rewrite ?Z.add_0_r; try assumption.
  rewrite !Z.add_0_r in *. subst s. unfold spec_addMul10VVW, nlen, Bn. cbn [fst snd].
  rewrite rd_length, zlen_rd. split; assumption.
Qed.

Lemma wr_upd_comm m a0 v a l : a0 < a \/ a + Z.of_nat (length l) <= a0 ->
  mem_eq (wr (upd m a0 v) a l) (upd (wr m a l) a0 v).
Proof.
  intros H a'. destruct (Z.eq_dec a' a0) as [->|Hne].
  - rewrite upd_same, wr_outside by lia. apply upd_same.
  - rewrite (upd_other _ a0 v a') by assumption.
    destruct (Z_lt_le_dec a' a) as [Hl|Hl].
    + rewrite !wr_outside by lia. now apply upd_other.
    + destruct (Z_lt_le_dec a' (a + Z.of_nat (length l))).
      * rewrite !wr_inside by lia. reflexivity.
      * rewrite !wr_outside by lia. now apply upd_other.
Qed.

(* ------------------------------------------------ generic base, descending division *)
Section Base.
Variable b : Z.
Hypothesis Hb : 1 < b.

Fixpoint valb (l : list Z) : Z := match l with [] => 0 | w :: r => w + b * valb r end.
Fixpoint to_wordsb (k : nat) (n : Z) : list Z :=
  match k with O => [] | S k' => (n mod b) :: to_wordsb k' (n / b) end.
Definition okb (l : list Z) : Prop := Forall (fun w => 0 <= w < b) l.

Lemma valb_snoc l w : valb (l ++ [w]) = valb l + b ^ Z.of_nat (length l) * w.
Proof.
  induction l as [|v l IH]; cbn [app valb length].
  - change (b ^ Z.of_nat 0) with 1. lia.
  - rewrite IH, Nat2Z.inj_succ, Z.pow_succ_r by lia. ring.
Qed.

Lemma valb_bounds l : okb l -> 0 <= valb l < b ^ Z.of_nat (length l).
Proof.
  induction 1 as [|w l Hw Hl IH]; cbn [valb length].
  - change (b ^ Z.of_nat 0) with 1. lia.
  - rewrite Nat2Z.inj_succ, Z.pow_succ_r by lia. nia.
Qed.

Lemma to_wordsb_snoc k : forall a q, 0 <= a < b ^ Z.of_nat k -> 0 <= q < b ->
  to_wordsb (S k) (a + q * b ^ Z.of_nat k) = to_wordsb k a ++ [q].
Proof.
  induction k as [|k IH]; intros a q Ha Hq.
  - cbn [to_wordsb app]. change (b ^ Z.of_nat 0) with 1 in *. replace (a + q * 1) with q by lia.
    rewrite Z.mod_small by lia. reflexivity.
  - rewrite Nat2Z.inj_succ, Z.pow_succ_r in * by lia.
    assert (Hp : 0 < b ^ Z.of_nat k) by (apply Z.pow_pos_nonneg; lia).
    change (to_wordsb (S (S k)) (a + q * (b * b ^ Z.of_nat k)))
      with ((a + q * (b * b ^ Z.of_nat k)) mod b :: to_wordsb (S k) ((a + q * (b * b ^ Z.of_nat k)) / b)).
    replace (a + q * (b * b ^ Z.of_nat k)) with (a + (q * b ^ Z.of_nat k) * b) by ring.
    rewrite Z.mod_add, Z.div_add by lia.
    rewrite IH; [reflexivity | | assumption].
    split; [apply Z.div_pos; lia | apply Z.div_lt_upper_bound; lia].
Qed.

Variables (n z x y : Z).
Variable F : Z -> Z -> Z * Z.
Hypothesis Hd : desc_ok z x n.
Hypothesis Hy : 0 < y.
Hypothesis HF : forall r w, 0 <= r < y -> 0 <= w < b -> F r w = ((r * b + w) / y, (r * b + w) mod y).

Fixpoint div_loop (k : nat) (r : Z) (m : mem) : Z * mem :=
  match k with
  | O => (r, m)
  | S k' =>
      let i := Z.of_nat k' in
      let qr := F r (m (x + i)) in
      div_loop k' (snd qr) (upd m (z + i) (fst qr))
  end.

Lemma div_loop_spec k : forall r m, Z.of_nat k <= n -> 0 <= r < y -> okb (rd m x k) ->
  let N := r * b ^ Z.of_nat k + valb (rd m x k) in
  fst (div_loop k r m) = N mod y /\ mem_eq (snd (div_loop k r m)) (wr m z (to_wordsb k (N / y))).
Proof.
  induction k as [|k IH]; intros r m Hk Hr Hok N.
  - cbn [div_loop fst snd to_wordsb wr]. subst N. cbn [rd valb]. change (b ^ Z.of_nat 0) with 1.
    split; [rewrite Z.mod_small; lia | intro; reflexivity].
  - rewrite rd_snoc in Hok. apply Forall_app in Hok as [Hok Hw]. inversion Hw as [|? ? Hwk _]; subst.
    cbn [div_loop]. rewrite HF by assumption. cbn [fst snd].
    set (w := m (x + Z.of_nat k)) in *.
    set (q := (r * b + w) / y). set (r' := (r * b + w) mod y).
    pose proof (Z.div_mod (r * b + w) y ltac:(lia)) as E. fold q r' in E.
    pose proof (Z.mod_pos_bound (r * b + w) y ltac:(lia)) as Hr'. fold r' in Hr'.
    assert (Hq : 0 <= q < b).
    { unfold q. split; [apply Z.div_pos; nia | apply Z.div_lt_upper_bound; nia]. }
    assert (Ex : rd (upd m (z + Z.of_nat k) q) x k = rd m x k)
      by (apply rd_upd_outside; unfold desc_ok in Hd; lia).
    destruct (IH r' (upd m (z + Z.of_nat k) q)) as [IHr IHm]; try lia; try (rewrite Ex; assumption).
    rewrite Ex in IHr, IHm.
    subst N. rewrite rd_snoc, valb_snoc, rd_length. fold w.
    pose proof (valb_bounds _ Hok) as HX. rewrite rd_length in HX.
    set (X := valb (rd m x k)) in *.
    assert (Hp : 0 < b ^ Z.of_nat k) by (apply Z.pow_pos_nonneg; lia).
    rewrite Nat2Z.inj_succ, Z.pow_succ_r by lia.
    replace (r * (b * b ^ Z.of_nat k) + (X + b ^ Z.of_nat k * w))
      with (r' * b ^ Z.of_nat k + X + (q * b ^ Z.of_nat k) * y) by nia.
    rewrite Z.mod_add, Z.div_add by lia.
    set (N' := r' * b ^ Z.of_nat k + X) in *.
    assert (HN' : 0 <= N' / y < b ^ Z.of_nat k).
    { split; [apply Z.div_pos; unfold N'; nia | apply Z.div_lt_upper_bound; unfold N'; nia]. }
    rewrite to_wordsb_snoc by assumption.
    split; [exact IHr|].
    intros a. rewrite IHm, wr_snoc. pose proof (wr_upd_comm m (z + Z.of_nat k) q z (to_wordsb k (N' / y))) as C.
    assert (Hlen : length (to_wordsb k (N' / y)) = k).
    { clear. generalize (N' / y). induction k; intros; cbn [to_wordsb length]; auto. }
    rewrite Hlen in *. apply C. lia.
Qed.
End Base.

Lemma val_valb l : val l = valb B l.
Proof. induction l as [|w l IH]; cbn [val valb]; [reflexivity | now rewrite IH]. Qed.
Lemma to_words_wordsb k : forall n, to_words k n = to_wordsb B k n.
Proof. induction k as [|k IH]; intros; cbn [to_words to_wordsb]; [reflexivity | now rewrite IH]. Qed.
Lemma val64_valb l : val64 l = valb W64 l.
Proof. induction l as [|w l IH]; cbn [val64 valb]; [reflexivity | now rewrite IH]. Qed.
Lemma to_words64_wordsb k : forall n, to_words64 k n = to_wordsb W64 k n.
Proof. induction k as [|k IH]; intros; cbn [to_words64 to_wordsb]; [reflexivity | now rewrite IH]. Qed.
Lemma words_ok_okb l : words_ok l = true -> okb B l.
Proof.
  induction l as [|w l IH]; intros H; [constructor|].
  apply words_ok_cons in H as [Hw Hl]. constructor; [assumption | now apply IH].
Qed.

Lemma g_div10VWW_loop_eq k z x y : forall r m,
  g_div10VWW_loop k z x y r m = div_loop z x (fun r w => g_div10WW r w y) k r m.
Proof. induction k as [|k IH]; intros; cbn [g_div10VWW_loop div_loop]; [reflexivity | apply IH]. Qed.
Lemma g_divWVW_loop_eq k z x y : forall r m,
  g_divWVW_loop k z x y r m = div_loop z x (fun r w => g_divWW r w y) k r m.
Proof. induction k as [|k IH]; intros; cbn [g_divWVW_loop div_loop]; [reflexivity | apply IH]. Qed.

Theorem g_div10VWW_correct n z x y xn m :
  desc_ok z x (Z.of_nat n) -> 0 < y < W64 -> 0 <= xn < y -> words_ok (rd m x n) = true ->
  let s := spec_div10VWW (rd m x n) y xn in
  fst (g_div10VWW n z x y xn m) = snd s /\ mem_eq (snd (g_div10VWW n z x y xn m)) (wr m z (fst s)).
Proof.
  intros Hd Hy Hxn Wx s. pose proof B_gt1. pose proof B_lt_W64. unfold g_div10VWW. rewrite g_div10VWW_loop_eq.
  destruct (div_loop_spec B ltac:(lia) (Z.of_nat n) z x y (fun r w => g_div10WW r w y) Hd ltac:(lia)
              ltac:(intros; apply g_div10WW_correct; lia) n xn m) as [Hr Hm];
    [lia | assumption | now apply words_ok_okb |].
  subst s. unfold spec_div10VWW, nlen, Bn. cbn [fst snd]. rewrite rd_length, zlen_rd, val_valb, to_words_wordsb.
  split; assumption.
Qed.

Theorem g_divWVW_correct n z xn x y m :
  desc_ok z x (Z.of_nat n) -> 0 < y < W64 -> 0 <= xn < y -> Forall (fun w => 0 <= w < W64) (rd m x n) ->
  let s := spec_divWVW xn (rd m x n) y in
  fst (g_divWVW n z xn x y m) = snd s /\ mem_eq (snd (g_divWVW n z xn x y m)) (wr m z (fst s)).
Proof.
  intros Hd Hy Hxn Wx s. unfold g_divWVW. rewrite g_divWVW_loop_eq.
  assert (H1 : 1 < W64) by (rewrite W64_eq; reflexivity).
  destruct (div_loop_spec W64 H1 (Z.of_nat n) z x y (fun r w => g_divWW r w y) Hd ltac:(lia)
              ltac:(intros; reflexivity) n xn m) as [Hr Hm]; [lia | assumption | exact Wx |].
  subst s. unfold spec_divWVW, nlen. cbn [fst snd]. rewrite rd_length, zlen_rd, val64_valb, to_words64_wordsb.
  split; assumption.
Qed.

Lemma val_rd_small m a k : words_ok (rd m a k) = true -> val (rd m a k) / B ^ Z.of_nat k = 0.
Proof. intros H. apply Z.div_small. pose proof (val_bounds _ H) as Hb. now rewrite zlen_rd in Hb. Qed.

Lemma to_words_rd m a k : words_ok (rd m a k) = true -> to_words k (val (rd m a k)) = rd m a k.
Proof. intros H. pose proof (to_words_val _ H) as E. now rewrite rd_length in E. Qed.

Section AddVW.
Variables (n z x : Z).
Hypothesis Hx : asc_ok z x n.

Lemma g_add10VW_loop_spec k : forall i c m, 0 <= i -> i + Z.of_nat k <= n -> 0 <= c <= 1 ->
  words_ok (rd m (x + i) k) = true ->
  let N := val (rd m (x + i) k) + c in
  fst (g_add10VW_loop k z x i c m) = N / B ^ Z.of_nat k /\
  mem_eq (snd (g_add10VW_loop k z x i c m)) (wr m (z + i) (to_words k N)).
Proof.
  induction k as [|k IH]; intros i c m Hi Hik Hc Hwx N.
  - cbn [g_add10VW_loop fst snd to_words wr]. subst N. cbn [rd val]. rewrite Z.div_1_r. split; [lia | intro; reflexivity].
  - apply words_ok_rd_S in Hwx as [Hxi Hwx]. bw.
    cbn [g_add10VW_loop]. rewrite c_DB_B. rewrite add_lo_small by lia. rewrite Z.add_0_r.
    assert (Ex : forall s, rd (upd m (z + i) s) (x + i + 1) k = rd m (x + i + 1) k)
      by (intros; apply rd_upd_outside; unfold asc_ok in Hx; lia).
    subst N. rewrite rd_S. cbn [val]. set (X := val (rd m (x + i + 1) k)) in *.
    destruct (div_mod_step (m (x + i) + c) X) as [Ed Em].
    replace (m (x + i) + B * X + c) with (m (x + i) + c + B * X) by ring.
    rewrite pow_S_div, to_words_S, Ed, Em.
    destruct (Z.ltb_spec (m (x + i) + c) B) as [Hlt | Hge]; cbn [fst snd].
    + rewrite (Z.mod_small (m (x + i) + c) B), (Z.div_small (m (x + i) + c) B) by lia. rewrite Z.add_0_l.
      unfold X. rewrite val_rd_small, to_words_rd by assumption.
      split; [reflexivity|]. unfold g_copy. rewrite Ex. cbn [wr]. intro; reflexivity.
    + assert (Es : m (x + i) + c = B) by lia. rewrite Es, Z_mod_same_full, Z_div_same_full by lia.
      assert (c = 1) by lia. subst c. subst X.
      replace (x + i + 1) with (x + (i + 1)) in * by lia.
      destruct (IH (i + 1) 1 (upd m (z + i) 0)) as [IHc IHm]; try lia; try (rewrite Ex; assumption).
      rewrite Ex in IHc, IHm.
      replace (1 + val (rd m (x + (i + 1)) k)) with (val (rd m (x + (i + 1)) k) + 1) by ring.
      split; [exact IHc|]. cbn [wr]. replace (z + i + 1) with (z + (i + 1)) by lia. exact IHm.
Qed.
End AddVW.

Theorem g_add10VW_correct n z x y m :
  asc_ok z x (Z.of_nat n) -> 0 <= y < B -> words_ok (rd m x n) = true ->
  let s := spec_add10VW (rd m x n) y in
  fst (g_add10VW n z x y m) = snd s /\ mem_eq (snd (g_add10VW n z x y m)) (wr m z (fst s)).
Proof.
  intros Hx Hy Wx s. subst s. unfold spec_add10VW, nlen, Bn. cbn [fst snd]. rewrite rd_length, zlen_rd.
  destruct n as [|n].
  - cbn [g_add10VW rd val to_words wr fst snd]. change (B ^ Z.of_nat 0) with 1. rewrite Z.div_1_r.
    split; [lia | intro; reflexivity].
  - apply words_ok_rd_S in Wx as [Hx0 Wx]. pose proof B_pos.
    cbn [g_add10VW]. rewrite g_add10WWW_correct by lia. cbn [fst snd]. rewrite Z.add_0_r.
    set (s := (m x + y) mod B). set (c := (m x + y) / B).
    assert (Hc : 0 <= c <= 1).
    { unfold c. split; [apply Z.div_pos; lia|].
      assert ((m x + y) / B < 2) by (apply Z.div_lt_upper_bound; lia). lia. }
    assert (Ex : rd (upd m z s) (x + 1) n = rd m (x + 1) n)
      by (apply rd_upd_outside; unfold asc_ok in Hx; lia).
    destruct (g_add10VW_loop_spec (Z.of_nat (S n)) z x Hx n 1 c (upd m z s)) as [IHc IHm]; try lia;
      try (rewrite Ex; assumption).
    rewrite Ex in IHc, IHm.
    rewrite rd_S. cbn [val]. set (X := val (rd m (x + 1) n)) in *.
    destruct (div_mod_step (m x + y) X) as [Ed Em].
    replace (m x + B * X + y) with (m x + y + B * X) by ring.
    rewrite pow_S_div, to_words_S, Ed, Em. fold c s.
    replace (c + X) with (X + c) by ring.
    split; [exact IHc|]. cbn [wr]. exact IHm.
Qed.

Section SubVW.
Variables (n z x : Z).
Hypothesis Hx : asc_ok z x n.

Lemma g_sub10VW_loop_spec k : forall i c m, 0 <= i -> i + Z.of_nat k <= n -> 0 <= c < B ->
  words_ok (rd m (x + i) k) = true ->
  let N := val (rd m (x + i) k) - c in
  fst (g_sub10VW_loop k z x i c m) = - (N / B ^ Z.of_nat k) /\
  mem_eq (snd (g_sub10VW_loop k z x i c m)) (wr m (z + i) (to_words k N)).
Proof.
  induction k as [|k IH]; intros i c m Hi Hik Hc Hwx N.
  - cbn [g_sub10VW_loop fst snd to_words wr]. subst N. cbn [rd val]. rewrite Z.div_1_r. split; [lia | intro; reflexivity].
  - apply words_ok_rd_S in Hwx as [Hxi Hwx]. bw.
    cbn [g_sub10VW_loop]. rewrite c_DB_B.
    assert (Ex : forall s, rd (upd m (z + i) s) (x + i + 1) k = rd m (x + i + 1) k)
      by (intros; apply rd_upd_outside; unfold asc_ok in Hx; lia).
    subst N. rewrite rd_S. cbn [val]. set (X := val (rd m (x + i + 1) k)) in *.
    destruct (div_mod_step (m (x + i) - c) X) as [Ed Em].
    replace (m (x + i) + B * X - c) with (m (x + i) - c + B * X) by ring.
    rewrite pow_S_div, to_words_S, Ed, Em.
    unfold sub_b. rewrite Z.sub_0_r.
    destruct (Z.ltb_spec (m (x + i) - c) 0) as [Hlt | Hge].
    + change (1 =? 0) with false. cbv iota.
      rewrite sub_lo_under by lia. rewrite add_lo_over by lia.
      replace ((m (x + i) - c) mod B) with (m (x + i) - c + B) by (apply Z.mod_unique with (q := -1); lia).
      replace ((m (x + i) - c) / B) with (-1) by (apply Z.div_unique with (r := m (x + i) - c + B); lia).
      subst X. replace (x + i + 1) with (x + (i + 1)) in * by lia.
      destruct (IH (i + 1) 1 (upd m (z + i) (m (x + i) - c - 0 + W64 + B + 0 - W64))) as [IHc IHm];
        try lia; try (rewrite Ex; assumption).
      rewrite Ex in IHc, IHm.
      replace (-1 + val (rd m (x + (i + 1)) k)) with (val (rd m (x + (i + 1)) k) - 1) by ring.
      split; [exact IHc|]. cbn [wr]. replace (z + i + 1) with (z + (i + 1)) by lia.
      replace (m (x + i) - c + B) with (m (x + i) - c - 0 + W64 + B + 0 - W64) by ring. exact IHm.
    + change (0 =? 0) with true. cbv iota. cbn [fst snd].
      rewrite sub_lo_small by lia. rewrite Z.sub_0_r.
      rewrite (Z.mod_small (m (x + i) - c) B), (Z.div_small (m (x + i) - c) B) by lia. rewrite Z.add_0_l.
      unfold X. rewrite val_rd_small, to_words_rd by assumption.
      split; [reflexivity|]. unfold g_copy. rewrite Ex. cbn [wr]. intro; reflexivity.
Qed.
End SubVW.

Theorem g_sub10VW_correct n z x y m :
  asc_ok z x (Z.of_nat n) -> 0 <= y < B -> words_ok (rd m x n) = true ->
  let s := spec_sub10VW (rd m x n) y in
  fst (g_sub10VW n z x y m) = snd s /\ mem_eq (snd (g_sub10VW n z x y m)) (wr m z (fst s)).
Proof.
  intros Hx Hy Wx s. subst s. unfold spec_sub10VW, nlen, Bn, g_sub10VW. cbn [fst snd]. rewrite rd_length, zlen_rd.
  destruct (g_sub10VW_loop_spec (Z.of_nat n) z x Hx n 0 y m) as [Hc Hm]; try lia;
    rewrite ?Z.add_0_r; try assumption.
  rewrite !Z.add_0_r in *. split; assumption.
Qed.

(* ------------------------------------------------------------ shifts *)
Lemma g_pow10_correct s : 0 <= s <= 19 -> g_pow10 s = 10 ^ s.
Proof.
  intros Hs. unfold g_pow10.
  assert (Hc : s = 0 \/ s = 1 \/ s = 2 \/ s = 3 \/ s = 4 \/ s = 5 \/ s = 6 \/ s = 7 \/ s = 8 \/ s = 9 \/ s = 10 \/
               s = 11 \/ s = 12 \/ s = 13 \/ s = 14 \/ s = 15 \/ s = 16 \/ s = 17 \/ s = 18 \/ s = 19) by lia.
  repeat (destruct Hc as [-> | Hc]); try subst s; reflexivity.
Qed.

Lemma pow10_split s : 0 <= s <= 19 -> 10 ^ (19 - s) * 10 ^ s = B.
Proof. intros. rewrite <- Z.pow_add_r by lia. replace (19 - s + s) with 19 by lia. now rewrite B_eq. Qed.

Lemma to_words_snoc k a q : 0 <= a < B ^ Z.of_nat k -> 0 <= q < B ->
  to_words (S k) (a + q * B ^ Z.of_nat k) = to_words k a ++ [q].
Proof. intros. rewrite !to_words_wordsb. apply to_wordsb_snoc; [apply B_gt1 | assumption | assumption]. Qed.

Lemma to_words_drop k : forall a q, to_words k (a + q * B ^ Z.of_nat k) = to_words k a.
Proof.
  pose proof B_pos.
  induction k as [|k IH]; intros a q; [reflexivity|].
  rewrite !to_words_S. rewrite Nat2Z.inj_succ, Z.pow_succ_r by lia.
  replace (a + q * (B * B ^ Z.of_nat k)) with (a + (q * B ^ Z.of_nat k) * B) by ring.
  rewrite Z.mod_add, Z.div_add by lia. now rewrite IH.
Qed.

Lemma length_to_words' k n : length (to_words k n) = k.
Proof. apply length_to_words. Qed.

Section Shl.
Variables (n z x s : Z).
Hypothesis Hd : desc_ok z x n.
Hypothesis Hs : 1 <= s <= 18.
Let D := 10 ^ (19 - s).
Let M := 10 ^ s.

Lemma DM : D * M = B. Proof. apply pow10_split; lia. Qed.
Lemma D_pos : 0 < D. Proof. apply Z.pow_pos_nonneg; lia. Qed.
Lemma M_pos : 0 < M. Proof. apply Z.pow_pos_nonneg; lia. Qed.

Lemma g_shl10VU_loop_spec k : forall l m, Z.of_nat k < n -> 0 <= l < D -> words_ok (rd m x k) = true ->
  mem_eq (g_shl10VU_loop k z x (g_divisorPow10 (19 - s)) M l m)
         (wr m z (to_words (S k) ((val (rd m x k) + B ^ Z.of_nat k * l) * M))).
Proof.
  pose proof DM as HDM. pose proof D_pos as HD. pose proof M_pos as HM. bw.
  induction k as [|k IH]; intros l m Hk Hl Hw.
  - cbn [g_shl10VU_loop rd val]. change (B ^ Z.of_nat 0) with 1.
    replace ((0 + 1 * l) * M) with (l * M) by ring.
    assert (l * M < B) by nia.
    unfold mul_lo. rewrite Z.mod_small by nia.
    cbn [to_words wr]. rewrite Z.mod_small by nia. intro; reflexivity.
  - rewrite rd_snoc in Hw. apply words_ok_app in Hw as [Hw Hwk]. apply words_ok_cons in Hwk as [Hxk _].
    cbn [g_shl10VU_loop]. replace (x + Z.of_nat (S k) - 1) with (x + Z.of_nat k) by lia.
    rewrite magic_div_correct by lia. unfold spec_magicDiv. cbn [fst snd]. fold D.
    set (w := m (x + Z.of_nat k)) in *.
    pose proof (Z.div_mod w D ltac:(lia)) as E. pose proof (Z.mod_pos_bound w D ltac:(lia)) as Hl'.
    assert (Hh : 0 <= w / D < M).
    { split; [apply Z.div_pos; lia | apply Z.div_lt_upper_bound; nia]. }
    set (h := w / D) in *. set (l' := w mod D) in *.
    assert (HlM : 0 <= l * M + h < B) by nia.
    unfold mul_lo. rewrite (Z.mod_small (l * M)) by nia. rewrite add_lo_small by lia. rewrite Z.add_0_r.
    set (q := l * M + h) in *.
    assert (Ex : rd (upd m (z + Z.of_nat (S k)) q) x k = rd m x k)
      by (apply rd_upd_outside; unfold desc_ok in Hd; lia).
    pose proof (IH l' (upd m (z + Z.of_nat (S k)) q) ltac:(lia) Hl' ltac:(rewrite Ex; exact Hw)) as IHm.
    rewrite Ex in IHm.
    rewrite rd_snoc, val_app, zlen_rd. cbn [val]. fold w. rewrite Z.mul_0_r, Z.add_0_r.
    pose proof (val_bounds _ Hw) as HX. rewrite zlen_rd in HX. set (X := val (rd m x k)) in *.
    assert (Hp : 0 < B ^ Z.of_nat k) by (apply Z.pow_pos_nonneg; lia).
    set (A := (X + B ^ Z.of_nat k * l') * M) in *.
    assert (HA : 0 <= A < B ^ Z.of_nat (S k)).
    { rewrite Nat2Z.inj_succ, Z.pow_succ_r by lia. unfold A. nia. }
    replace ((X + B ^ Z.of_nat k * w + B ^ Z.of_nat (S k) * l) * M) with (A + q * B ^ Z.of_nat (S k)).
    2:{ unfold A, q. rewrite Nat2Z.inj_succ, Z.pow_succ_r by lia. rewrite E. rewrite <- HDM. ring. }
    rewrite to_words_snoc by assumption.
    intros a. rewrite IHm, wr_snoc, length_to_words.
    pose proof (wr_upd_comm m (z + Z.of_nat (S k)) q z (to_words (S k) A)) as C.
    rewrite length_to_words in C. apply C. lia.
Qed.
End Shl.

Lemma g_copy_spec m z x n : words_ok (rd m x n) = true ->
  mem_eq (g_copy m z x n) (wr m z (to_words n (val (rd m x n)))).
Proof. intros H a. unfold g_copy. now rewrite to_words_rd. Qed.

Theorem g_shl10VU_correct n z x s m :
  desc_ok z x (Z.of_nat n) -> 0 <= s <= 18 -> words_ok (rd m x n) = true ->
  let r := spec_shl10VU (rd m x n) s in
  fst (g_shl10VU n z x s m) = snd r /\ mem_eq (snd (g_shl10VU n z x s m)) (wr m z (fst r)).
Proof.
  intros Hd Hs Hw r. subst r. unfold spec_shl10VU, nlen, Bn, g_shl10VU. cbn [fst snd]. rewrite rd_length, zlen_rd.
  destruct (Z.eqb_spec s 0) as [-> | Hs0].
  - change (10 ^ 0) with 1. rewrite Z.mul_1_r. cbn [fst snd].
    split; [symmetry; now apply val_rd_small | now apply g_copy_spec].
  - destruct n as [|n].
    + cbn [rd val to_words wr fst snd]. change (B ^ Z.of_nat 0) with 1. rewrite Z.div_1_r.
      split; [lia | intro; reflexivity].
    + change c_DW with 19. rewrite g_pow10_correct by lia.
      rewrite rd_snoc in Hw. apply words_ok_app in Hw as [Hw Hwk]. apply words_ok_cons in Hwk as [Hxk _].
      rewrite magic_div_correct by (bw; lia). unfold spec_magicDiv. cbn [fst snd].
      pose proof (pow10_split s ltac:(lia)) as HDM.
      assert (HD : 0 < 10 ^ (19 - s)) by (apply Z.pow_pos_nonneg; lia).
      assert (HM : 0 < 10 ^ s) by (apply Z.pow_pos_nonneg; lia).
      set (D := 10 ^ (19 - s)) in *. set (M := 10 ^ s) in *.
      set (w := m (x + Z.of_nat n)) in *.
      pose proof (Z.div_mod w D ltac:(lia)) as E. pose proof (Z.mod_pos_bound w D ltac:(lia)) as Hl.
      pose proof (g_shl10VU_loop_spec (Z.of_nat (S n)) z x s Hd ltac:(lia) n (w mod D) m ltac:(lia) Hl Hw) as Hm.
      fold D M in Hm.
      rewrite rd_snoc, val_app, zlen_rd. cbn [val]. fold w. rewrite Z.mul_0_r, Z.add_0_r.
      pose proof (val_bounds _ Hw) as HX. rewrite zlen_rd in HX. set (X := val (rd m x n)) in *.
      assert (Hp : 0 < B ^ Z.of_nat n) by (apply Z.pow_pos_nonneg; pose proof B_pos; lia).
      set (A := (X + B ^ Z.of_nat n * (w mod D)) * M) in *.
      assert (HA : 0 <= A < B ^ Z.of_nat (S n)).
      { rewrite Nat2Z.inj_succ, Z.pow_succ_r by lia. unfold A. pose proof B_pos. nia. }
      assert (EA : (X + B ^ Z.of_nat n * w) * M = A + (w / D) * B ^ Z.of_nat (S n)).
      { unfold A. rewrite Nat2Z.inj_succ, Z.pow_succ_r by lia. rewrite E at 1. rewrite <- HDM. ring. }
      rewrite EA, to_words_drop. split; [|exact Hm].
      assert (Hp' : 0 < B ^ Z.of_nat (S n)) by (apply Z.pow_pos_nonneg; pose proof B_pos; lia).
      rewrite Z.div_add by lia. rewrite (Z.div_small A) by lia. lia.
Qed.

Section Shr.
Variables (n z x s : Z).
Hypothesis Ha : asc_ok z x n.
Hypothesis Hs : 1 <= s <= 18.
Let D := 10 ^ s.
Let M := 10 ^ (19 - s).

Lemma MD : M * D = B. Proof. apply pow10_split; lia. Qed.

Lemma g_shr10VU_loop_spec k : forall i h m, 1 <= i -> i + Z.of_nat k <= n -> 0 <= h < M ->
  words_ok (rd m (x + i) k) = true ->
  mem_eq (g_shr10VU_loop k z x i (g_divisorPow10 s) M h m)
         (wr m (z + i - 1) (to_words (S k) (h + M * val (rd m (x + i) k)))).
Proof.
  pose proof MD as HMD. bw.
  assert (HD : 0 < D) by (apply Z.pow_pos_nonneg; lia).
  assert (HM : 0 < M) by (apply Z.pow_pos_nonneg; lia).
  induction k as [|k IH]; intros i h m Hi Hik Hh Hw.
  - cbn [g_shr10VU_loop rd val]. rewrite Z.mul_0_r, Z.add_0_r. cbn [to_words wr].
    rewrite Z.mod_small by nia. intro; reflexivity.
  - apply words_ok_rd_S in Hw as [Hxi Hw].
    cbn [g_shr10VU_loop]. rewrite magic_div_correct by lia. unfold spec_magicDiv. cbn [fst snd]. fold D.
    set (w := m (x + i)) in *.
    pose proof (Z.div_mod w D ltac:(lia)) as E. pose proof (Z.mod_pos_bound w D ltac:(lia)) as Hl.
    assert (Hh' : 0 <= w / D < M).
    { split; [apply Z.div_pos; lia | apply Z.div_lt_upper_bound; nia]. }
    set (h' := w / D) in *. set (l := w mod D) in *.
    assert (HlM : 0 <= h + l * M < B) by nia.
    unfold mul_lo. rewrite (Z.mod_small (l * M)) by nia. rewrite add_lo_small by lia. rewrite Z.add_0_r.
    set (q := h + l * M) in *.
    replace (x + i + 1) with (x + (i + 1)) in Hw by lia.
    assert (Ex : rd (upd m (z + i - 1) q) (x + (i + 1)) k = rd m (x + (i + 1)) k)
      by (apply rd_upd_outside; unfold asc_ok in Ha; lia).
    pose proof (IH (i + 1) h' (upd m (z + i - 1) q) ltac:(lia) ltac:(lia) Hh' ltac:(rewrite Ex; exact Hw)) as IHm.
    rewrite Ex in IHm.
    rewrite rd_S. cbn [val]. fold w. replace (x + i + 1) with (x + (i + 1)) by lia.
    set (X := val (rd m (x + (i + 1)) k)) in *.
    replace (h + M * (w + B * X)) with (q + B * (h' + M * X)).
    2:{ unfold q. rewrite <- HMD. replace (M * (w + M * D * X)) with (M * w + M * M * D * X) by ring.
        rewrite E at 1. ring. }
    destruct (div_mod_step q (h' + M * X)) as [Ed Em].
    rewrite to_words_S, Ed, Em. rewrite Z.mod_small, Z.div_small by lia. rewrite Z.add_0_l.
    cbn [wr]. replace (z + i - 1 + 1) with (z + (i + 1) - 1) by lia. exact IHm.
Qed.
End Shr.

Theorem g_shr10VU_correct n z x s m :
  asc_ok z x (Z.of_nat n) -> 0 <= s <= 18 -> words_ok (rd m x n) = true ->
  let r := spec_shr10VU (rd m x n) s in
  fst (g_shr10VU n z x s m) = snd r /\ mem_eq (snd (g_shr10VU n z x s m)) (wr m z (fst r)).
Proof.
  intros Ha Hs Hw r. subst r. unfold spec_shr10VU, nlen, g_shr10VU. cbn [fst snd]. rewrite rd_length.
  destruct (Z.eqb_spec s 0) as [-> | Hs0].
  - change (10 ^ 0) with 1. rewrite Z.div_1_r, Z.mod_1_r. cbn [fst snd].
    split; [reflexivity | now apply g_copy_spec].
  - destruct n as [|n].
    + cbn [rd val to_words wr fst snd]. rewrite Z.mod_0_l by (apply Z.pow_nonzero; lia).
      split; [lia | intro; reflexivity].
    + change c_DW with 19. change DW with 19. rewrite g_pow10_correct by lia.
      apply words_ok_rd_S in Hw as [Hx0 Hw].
      rewrite magic_div_correct by (bw; lia). unfold spec_magicDiv. cbn [fst snd].
      pose proof (pow10_split s ltac:(lia)) as HMD.
      assert (HD : 0 < 10 ^ s) by (apply Z.pow_pos_nonneg; lia).
      assert (HM : 0 < 10 ^ (19 - s)) by (apply Z.pow_pos_nonneg; lia).
      set (D := 10 ^ s) in *. set (M := 10 ^ (19 - s)) in *.
      set (w := m x) in *. bw.
      pose proof (Z.div_mod w D ltac:(lia)) as E. pose proof (Z.mod_pos_bound w D ltac:(lia)) as Hl.
      assert (Hh : 0 <= w / D < M).
      { split; [apply Z.div_pos; lia | apply Z.div_lt_upper_bound; nia]. }
      pose proof (g_shr10VU_loop_spec (Z.of_nat (S n)) z x s Ha ltac:(lia) n 1 (w / D) m ltac:(lia) ltac:(lia) Hh Hw) as Hm.
      fold D M in Hm. replace (z + 1 - 1) with z in Hm by lia.
      rewrite rd_S. cbn [val]. fold w. set (X := val (rd m (x + 1) n)) in *.
      assert (EX : w + B * X = w + (M * X) * D) by (rewrite <- HMD; ring).
      rewrite EX, Z.div_add, Z.mod_add by lia.
      split; [|exact Hm].
      unfold mul_lo. rewrite Z.mod_small by nia. reflexivity.
Qed.
