(* L1/AsmProofsSh.v — the generated programs of shl10VU and shr10VU (table lookup of the magic
   divisor, division by multiplication with the pre/post shifts taken from CL,
   loop, decCpyInv / decCpy for whole-word shifts) return the specification's
   result for all lengths, shifts 0..18 and admissible placements.  Proofs only. *)
From Coq Require Import ZArith List Bool Lia.
From Dec Require Import Base.Words Base.WordsProofs L1.U64 L1.U64Proofs L1.X86 L1.KernSpec L1.KernG L1.KernGScalar L1.KernGProofs L1.KernAsm L1.AsmProofs L1.AsmProofsVV gen.Consts gen.Tables gen.AsmProgs.
Import ListNotations.
Open Scope Z_scope.

(* ------------------------------------------------------------ table segment *)
Lemma load_tab E m a t : tab_ok E -> 0 <= e_msize E -> a = e_tbase E + 8 * t -> 0 <= t < 54 ->
  load E m (wrap a) = Some (znth (table_words pow10DivTab64) t).
Proof.
  intros (Ht & Hal & Hlo & Hhi) Hms -> Hr. rewrite wrap_small by lia. unfold load.
  replace ((e_tbase E + 8 * t) mod 8) with 0.
  2:{ rewrite Z.add_mod, Hal by lia. rewrite (Z.mul_comm 8 t), Z.mod_mul by lia. reflexivity. }
  cbn [Z.eqb].
  assert (Hw : e_msize E <= (e_tbase E + 8 * t) / 8) by (apply Z.div_le_lower_bound; lia).
  destruct (Z.ltb_spec ((e_tbase E + 8 * t) / 8) (e_msize E)); [lia|].
  rewrite andb_false_r.
  replace (e_tbase E + 8 * t - e_tbase E) with (t * 8) by lia. rewrite Z.div_mul by lia.
  rewrite Ht. change (Z.of_nat (length (table_words pow10DivTab64))) with 54.
  destruct (Z.leb_spec (e_tbase E) (e_tbase E + 8 * t)); [|lia].
  destruct (Z.ltb_spec t 54); [|lia]. reflexivity.
Qed.

(* row k-1 of the table, k = 1..18 : divisor 10^k *)
Lemma table_row k : 1 <= k <= 18 ->
  exists mm pre post,
    g_divisorPow10 k = (10 ^ k, mm, pre, post) /\
    znth (table_words pow10DivTab64) (3 * (k - 1)) = 10 ^ k /\
    znth (table_words pow10DivTab64) (3 * (k - 1) + 1) = mm /\
    znth (table_words pow10DivTab64) (3 * (k - 1) + 2) = pre + 256 * post /\
    (pre = 0 \/ pre = 1) /\ 1 <= post < 64 /\ 0 <= mm < W64.
Proof.
  intros Hk. rewrite W64_eq.
  assert (Hc : k = 1 \/ k = 2 \/ k = 3 \/ k = 4 \/ k = 5 \/ k = 6 \/ k = 7 \/ k = 8 \/ k = 9 \/ k = 10 \/
               k = 11 \/ k = 12 \/ k = 13 \/ k = 14 \/ k = 15 \/ k = 16 \/ k = 17 \/ k = 18) by lia.
  repeat (destruct Hc as [-> | Hc]); try subst k;
    (do 3 eexists; split; [reflexivity|]; repeat split; try reflexivity; try (left; reflexivity); try (right; reflexivity);
     try discriminate).
Qed.

Lemma ror16_swap a b : 0 <= a < 256 -> 0 <= b < 256 -> ror16 (a + 256 * b) 8 = b + 256 * a.
Proof.
  intros Ha Hb. unfold ror16. change (2 ^ 8) with 256. change (2 ^ (16 - 8)) with 256.
  rewrite (Z.mod_small (a + 256 * b) 65536) by lia.
  replace ((a + 256 * b) / 256) with b by (apply Z.div_unique with (r := a); lia).
  replace ((a + 256 * b) mod 256) with a by (apply Z.mod_unique with (q := b); lia).
  rewrite Z.mod_small by lia. lia.
Qed.

Lemma cnt_lo a b : 0 <= a < 64 -> 0 <= b -> (a + 256 * b) mod 64 = a.
Proof. intros. symmetry. apply Z.mod_unique with (q := 4 * b); lia. Qed.

Lemma cond_eq_logic r : cond_holds CondEQ (flags_logic r) = Some (r =? 0). Proof. reflexivity. Qed.
Lemma cond_ne_logic r : cond_holds CondNE (flags_logic r) = Some (negb (r =? 0)). Proof. reflexivity. Qed.

Ltac lits2 :=
  lits;
  repeat match goal with
         | |- context [Zpos ?p mod 16] => let v := eval vm_compute in (Zpos p mod 16) in change (Zpos p mod 16) with v
         end.
Ltac step3 p := stepq p; lits2.

(* the division by the magic row as the assembly computes it, pre = 0 or 1 *)
Lemma magic_asm_eq D mm pre post w : (pre = 0 \/ pre = 1) -> 1 <= post < 64 ->
  let q := shr64 (mul_hi (if pre =? 0 then w else shr64 w pre) mm) post in
  (q, sub_lo w (mul_lo q D) 0) = g_magic_div (D, mm, pre, post) w.
Proof.
  intros Hpre Hpost q. unfold g_magic_div, go_shr.
  destruct (Z.ltb_spec post 64); [|lia].
  destruct Hpre as [-> | ->].
  - change (0 <? 64) with true. cbv iota. subst q. change (0 =? 0) with true. cbv iota.
    replace (shr64 w 0) with w by (unfold shr64; change (2 ^ 0) with 1; now rewrite Z.div_1_r). reflexivity.
  - change (1 <? 64) with true. cbv iota. subst q. change (1 =? 0) with false. cbv iota. reflexivity.
Qed.

Section Shl10VU.
Variables (E : env) (z x : Z) (fr : mem).
Variables (D M mm post : Z).
Variable r14 : Z.
Hypothesis Hm : 8 * e_msize E <= W64.
Hypothesis Hpost : 1 <= post < 64.

Definition stL (ax bx cx dx si r9 : Z) (fl : flags) (m : mem) (pc : nat) : state :=
  mkState (mkRegs ax bx cx dx si (e_tbase E) (8 * x) r9 (8 * z) M D mm r14) fl m fr pc.

Lemma g_shl10VU_loop_S pre k l m :
  g_shl10VU_loop (S k) z x (D, mm, pre, post) M l m =
  g_shl10VU_loop k z x (D, mm, pre, post) M
    (snd (g_magic_div (D, mm, pre, post) (m (x + Z.of_nat (S k) - 1))))
    (upd m (z + Z.of_nat (S k))
       (add_lo (mul_lo l M) (fst (g_magic_div (D, mm, pre, post) (m (x + Z.of_nat (S k) - 1)))) 0)).
Proof. reflexivity. Qed.

Lemma shl10VU_iter pre bx dx r9 i l fl m :
  (pre = 0 \/ pre = 1) -> 0 <= x -> 0 <= z -> 1 <= i < HALF64 -> x + i < e_msize E -> z + i < e_msize E ->
  let hl := g_magic_div (D, mm, pre, post) (m (x + i - 1)) in
  exists bx' dx' r9' fl',
    steps 18 E prog_shl10VU (stL l bx (post + 256 * pre) dx i r9 fl m 30) =
    Some (stL (snd hl) bx' (post + 256 * pre) dx' (i - 1) r9' fl'
              (upd m (z + i) (add_lo (mul_lo l M) (fst hl) 0))
              (if 1 <? i then 30%nat else 48%nat)).
Proof.
  intros Hpre Hx0 Hz0 Hi Hx1 Hz1 hl. bw. pose proof HALF64_ge. unfold stL.
  set (w := m (x + i - 1)) in *.
  pose proof (magic_asm_eq D mm pre post w Hpre Hpost) as EG. cbv zeta in EG. fold hl in EG.
  destruct Hpre as [-> | ->].
  - change (0 =? 0) with true in EG. cbv iota in EG.
    do 4 eexists.
    step3 prog_shl10VU.
    step3 prog_shl10VU.
    step3 prog_shl10VU.
    step3 prog_shl10VU. ld (x + i - 1). fold w.
    step3 prog_shl10VU.
    step3 prog_shl10VU. rewrite ror16_swap by lia.
    step3 prog_shl10VU. rewrite (cnt_lo _ post) by lia. try change (0 =? 0) with true. lits2.
    step3 prog_shl10VU.
    step3 prog_shl10VU. rewrite ror16_swap by lia.
    step3 prog_shl10VU.
    step3 prog_shl10VU. rewrite (cnt_lo post _) by lia.
    destruct (Z.eqb_spec post 0); [lia|]. cbv iota.
    step3 prog_shl10VU.
    step3 prog_shl10VU. st (z + i).
    step3 prog_shl10VU.
    step3 prog_shl10VU.
    step3 prog_shl10VU.
    step3 prog_shl10VU. rewrite (sub_lo_small i 1 0) by lia. replace (i - 1 - 0) with (i - 1) by lia.
    step3 prog_shl10VU. rewrite cond_g_sub by lia. rewrite (signed_small 1), (signed_small i) by lia.
    match type of EG with (?q, ?l) = _ => set (Q := q) in *; set (L := l) in * end.
    assert (EQ : Q = fst hl) by (rewrite <- EG; reflexivity).
    assert (EL : L = snd hl) by (rewrite <- EG; reflexivity).
    clearbody Q L. subst Q L.
    destruct (1 <? i); cbv beta iota; cbn [steps]; reflexivity.
  - change (1 =? 0) with false in EG. cbv iota in EG.
    do 4 eexists.
    step3 prog_shl10VU.
    step3 prog_shl10VU.
    step3 prog_shl10VU.
    step3 prog_shl10VU. ld (x + i - 1). fold w.
    step3 prog_shl10VU.
    step3 prog_shl10VU. rewrite ror16_swap by lia.
    step3 prog_shl10VU. rewrite (cnt_lo _ post) by lia. try change (0 =? 0) with true. lits2.
    step3 prog_shl10VU.
    step3 prog_shl10VU. rewrite ror16_swap by lia.
    step3 prog_shl10VU.
    step3 prog_shl10VU. rewrite (cnt_lo post _) by lia.
    destruct (Z.eqb_spec post 0); [lia|]. cbv iota.
    step3 prog_shl10VU.
    step3 prog_shl10VU. st (z + i).
    step3 prog_shl10VU.
    step3 prog_shl10VU.
    step3 prog_shl10VU.
    step3 prog_shl10VU. rewrite (sub_lo_small i 1 0) by lia. replace (i - 1 - 0) with (i - 1) by lia.
    step3 prog_shl10VU. rewrite cond_g_sub by lia. rewrite (signed_small 1), (signed_small i) by lia.
    match type of EG with (?q, ?l) = _ => set (Q := q) in *; set (L := l) in * end.
    assert (EQ : Q = fst hl) by (rewrite <- EG; reflexivity).
    assert (EL : L = snd hl) by (rewrite <- EG; reflexivity).
    clearbody Q L. subst Q L.
    destruct (1 <? i); cbv beta iota; cbn [steps]; reflexivity.
Qed.

Lemma shl10VU_loop pre k : forall bx dx r9 l fl m,
  (pre = 0 \/ pre = 1) -> 0 <= x -> 0 <= z -> Z.of_nat (S k) < HALF64 ->
  x + Z.of_nat (S k) < e_msize E -> z + Z.of_nat (S k) < e_msize E ->
  exists N bx' dx' r9' fl' l' m',
    steps N E prog_shl10VU (stL l bx (post + 256 * pre) dx (Z.of_nat (S k)) r9 fl m 30) =
    Some (stL l' bx' (post + 256 * pre) dx' 0 r9' fl' m' 48) /\
    g_shl10VU_loop 0 z x (D, mm, pre, post) M l' m' = g_shl10VU_loop (S k) z x (D, mm, pre, post) M l m.
Proof.
  induction k as [|k IH]; intros bx dx r9 l fl m Hpre Hx0 Hz0 HkH Hx1 Hz1; rewrite g_shl10VU_loop_S.
  - destruct (shl10VU_iter pre bx dx r9 (Z.of_nat 1) l fl m Hpre Hx0 Hz0 ltac:(lia) Hx1 Hz1)
      as (b1 & d1 & e1 & fl1 & H1).
    destruct (Z.ltb_spec 1 (Z.of_nat 1)); [lia|].
    exists 18%nat, b1, d1, e1, fl1. do 2 eexists. split; [exact H1 | reflexivity].
  - destruct (shl10VU_iter pre bx dx r9 (Z.of_nat (S (S k))) l fl m Hpre Hx0 Hz0 ltac:(lia) Hx1 Hz1)
      as (b1 & d1 & e1 & fl1 & H1).
    destruct (Z.ltb_spec 1 (Z.of_nat (S (S k)))); [|lia].
    replace (Z.of_nat (S (S k)) - 1) with (Z.of_nat (S k)) in H1 by lia.
    destruct (IH b1 d1 e1 (snd (g_magic_div (D, mm, pre, post) (m (x + Z.of_nat (S (S k)) - 1)))) fl1
                 (upd m (z + Z.of_nat (S (S k)))
                    (add_lo (mul_lo l M) (fst (g_magic_div (D, mm, pre, post) (m (x + Z.of_nat (S (S k)) - 1)))) 0))
                 Hpre Hx0 Hz0 ltac:(lia) ltac:(lia) ltac:(lia))
      as (N & b2 & d2 & e2 & fl2 & l2 & m2 & HS2 & G2).
    exists (18 + N)%nat, b2, d2, e2, fl2, l2, m2. split; [|exact G2].
    rewrite (steps_add 18 N _ _ _ _ H1). exact HS2.
Qed.
End Shl10VU.

Lemma land_diag_eq a : Z.land a a = a. Proof. apply Z.land_diag. Qed.

(* the shifting path of shl10VU: n >= 1, 1 <= s <= 18 *)
Lemma asm_shl10VU_shift E n z x s rs m :
  tab_ok E -> 8 * e_msize E <= W64 ->
  0 <= z -> z + Z.of_nat (S n) <= e_msize E -> 0 <= x -> x + Z.of_nat (S n) <= e_msize E ->
  1 <= s <= 18 ->
  exists N s', steps N E prog_shl10VU (init_state rs (slice z (S n) ++ slice x (S n) ++ [s]) m) = Some s' /\
               nth_error prog_shl10VU (st_pc s') = Some RET /\
               st_frame s' 7 = fst (g_shl10VU (S n) z x s m) /\
               st_mem s' = snd (g_shl10VU (S n) z x s m).
Proof.
  intros Htab Hm Hz0 Hz1 Hx0 Hx1 Hs. bw. pose proof HALF64_ge.
  destruct rs as [ax bx cx dx si di r8 r9 r10 r11 r12 r13 r14].
  unfold init_state.
  set (fr := frame_of (slice z (S n) ++ slice x (S n) ++ [s])).
  assert (F0 : fr 0 = 8 * z) by reflexivity. assert (F1 : fr 1 = Z.of_nat (S n)) by reflexivity.
  assert (F3 : fr 3 = 8 * x) by reflexivity. assert (F6 : fr 6 = s) by reflexivity. clearbody fr.
  destruct (table_row (19 - s) ltac:(lia)) as (mm & pre & post & ERow & ED & Emm & Epp & Hpre & Hpost & Hmm).
  destruct (table_row s ltac:(lia)) as (mm2 & pre2 & post2 & _ & EM & _).
  assert (Hp8 : 0 <= pre < 256) by (destruct Hpre; lia).
  assert (Htb : 0 <= e_tbase E < W64) by (destruct Htab as (_ & _ & ? & ?); lia).
  assert (Hms : 0 <= e_msize E) by lia.
  (* G side *)
  unfold g_shl10VU. destruct (Z.eqb_spec s 0) as [|_]; [lia|].
  change c_DW with 19. rewrite g_pow10_correct by lia. rewrite ERow.
  set (D := 10 ^ (19 - s)) in *. set (M := 10 ^ s) in *.
  set (w := m (x + Z.of_nat n)).
  pose proof (magic_asm_eq D mm pre post w Hpre Hpost) as EG. cbv zeta in EG.
  set (rl := g_magic_div (D, mm, pre, post) w) in *. cbn [fst snd].
  (* prefix: up to the TESTQ SI, SI / JEQ *)
  assert (Pre : exists bx' dx' fl',
            steps 30 E prog_shl10VU (mkState (mkRegs ax bx cx dx si di r8 r9 r10 r11 r12 r13 r14) flags0 m fr 0) =
            Some (stL E z x (upd fr 7 (fst rl)) D M mm r14 (snd rl) bx' (post + 256 * pre) dx' (Z.of_nat n) r9 fl' m
                      (if Z.of_nat n =? 0 then 48%nat else 30%nat))).
  { unfold stL.
    destruct Hpre as [-> | ->];
      [change (0 =? 0) with true in EG | change (1 =? 0) with false in EG]; cbv iota in EG.
    - do 3 eexists.
      step3 prog_shl10VU. rewrite F1.
      step3 prog_shl10VU.
      step3 prog_shl10VU. rewrite cond_l_sub by lia. rewrite (signed_small (Z.of_nat (S n))), (signed_small 1) by lia.
      destruct (Z.ltb_spec (Z.of_nat (S n)) 1); [lia|]. cbv iota.
      rewrite (sub_lo_small (Z.of_nat (S n)) 1 0) by lia. replace (Z.of_nat (S n) - 1 - 0) with (Z.of_nat n) by lia.
      step3 prog_shl10VU. rewrite F0.
      step3 prog_shl10VU. rewrite F3.
      step3 prog_shl10VU. rewrite F6.
      step3 prog_shl10VU.
      step3 prog_shl10VU. rewrite cond_eq_logic, land_diag_eq. destruct (Z.eqb_spec s 0); [lia|]. cbv iota.
      step3 prog_shl10VU.
      step3 prog_shl10VU. rewrite (wrap_small (e_tbase E)) by lia.
      step3 prog_shl10VU. rewrite (sub_lo_small 19 s 0) by lia. replace (19 - s - 0) with (19 - s) by lia.
      step3 prog_shl10VU. rewrite (wrap_small (-3 + (19 - s) + (19 - s) * 2)) by lia.
      step3 prog_shl10VU. rewrite (wrap_small (-3 + s + s * 2)) by lia.
      step3 prog_shl10VU. rewrite (load_tab E m _ (3 * (s - 1))) by (try assumption; lia). cbv beta iota. rewrite EM. fold M.
      step3 prog_shl10VU. rewrite (load_tab E m _ (3 * (19 - s - 1))) by (try assumption; lia). cbv beta iota. rewrite ED.
      step3 prog_shl10VU. rewrite (load_tab E m _ (3 * (19 - s - 1) + 1)) by (try assumption; lia). cbv beta iota. rewrite Emm.
      step3 prog_shl10VU. rewrite (load_tab E m _ (3 * (19 - s - 1) + 2)) by (try assumption; lia). cbv beta iota. rewrite Epp.
      rewrite (Z.mod_small (_ + 256 * post) 65536) by lia.
      step3 prog_shl10VU. ld (x + Z.of_nat n). fold w.
      step3 prog_shl10VU.
      step3 prog_shl10VU. rewrite (cnt_lo _ post) by lia. try change (0 =? 0) with true. lits2.
      step3 prog_shl10VU.
      step3 prog_shl10VU. rewrite ror16_swap by lia.
      step3 prog_shl10VU.
      step3 prog_shl10VU. rewrite (cnt_lo post _) by lia. destruct (Z.eqb_spec post 0); [lia|]. cbv iota.
      step3 prog_shl10VU.
      step3 prog_shl10VU.
      step3 prog_shl10VU.
      step3 prog_shl10VU.
      step3 prog_shl10VU.
      step3 prog_shl10VU. rewrite cond_eq_logic, land_diag_eq.
      match type of EG with (?q, ?l) = _ => set (Q := q) in *; set (L := l) in * end.
      assert (EQ : Q = fst rl) by (rewrite <- EG; reflexivity).
      assert (EL : L = snd rl) by (rewrite <- EG; reflexivity).
      clearbody Q L. subst Q L.
      destruct (Z.of_nat n =? 0); cbv beta iota; cbn [steps]; reflexivity.
    - do 3 eexists.
      step3 prog_shl10VU. rewrite F1.
      step3 prog_shl10VU.
      step3 prog_shl10VU. rewrite cond_l_sub by lia. rewrite (signed_small (Z.of_nat (S n))), (signed_small 1) by lia.
      destruct (Z.ltb_spec (Z.of_nat (S n)) 1); [lia|]. cbv iota.
      rewrite (sub_lo_small (Z.of_nat (S n)) 1 0) by lia. replace (Z.of_nat (S n) - 1 - 0) with (Z.of_nat n) by lia.
      step3 prog_shl10VU. rewrite F0.
      step3 prog_shl10VU. rewrite F3.
      step3 prog_shl10VU. rewrite F6.
      step3 prog_shl10VU.
      step3 prog_shl10VU. rewrite cond_eq_logic, land_diag_eq. destruct (Z.eqb_spec s 0); [lia|]. cbv iota.
      step3 prog_shl10VU.
      step3 prog_shl10VU. rewrite (wrap_small (e_tbase E)) by lia.
      step3 prog_shl10VU. rewrite (sub_lo_small 19 s 0) by lia. replace (19 - s - 0) with (19 - s) by lia.
      step3 prog_shl10VU. rewrite (wrap_small (-3 + (19 - s) + (19 - s) * 2)) by lia.
      step3 prog_shl10VU. rewrite (wrap_small (-3 + s + s * 2)) by lia.
      step3 prog_shl10VU. rewrite (load_tab E m _ (3 * (s - 1))) by (try assumption; lia). cbv beta iota. rewrite EM. fold M.
      step3 prog_shl10VU. rewrite (load_tab E m _ (3 * (19 - s - 1))) by (try assumption; lia). cbv beta iota. rewrite ED.
      step3 prog_shl10VU. rewrite (load_tab E m _ (3 * (19 - s - 1) + 1)) by (try assumption; lia). cbv beta iota. rewrite Emm.
      step3 prog_shl10VU. rewrite (load_tab E m _ (3 * (19 - s - 1) + 2)) by (try assumption; lia). cbv beta iota. rewrite Epp.
      rewrite (Z.mod_small (_ + 256 * post) 65536) by lia.
      step3 prog_shl10VU. ld (x + Z.of_nat n). fold w.
      step3 prog_shl10VU.
      step3 prog_shl10VU. rewrite (cnt_lo _ post) by lia. try change (0 =? 0) with true. lits2.
      step3 prog_shl10VU.
      step3 prog_shl10VU. rewrite ror16_swap by lia.
      step3 prog_shl10VU.
      step3 prog_shl10VU. rewrite (cnt_lo post _) by lia. destruct (Z.eqb_spec post 0); [lia|]. cbv iota.
      step3 prog_shl10VU.
      step3 prog_shl10VU.
      step3 prog_shl10VU.
      step3 prog_shl10VU.
      step3 prog_shl10VU.
      step3 prog_shl10VU. rewrite cond_eq_logic, land_diag_eq.
      match type of EG with (?q, ?l) = _ => set (Q := q) in *; set (L := l) in * end.
      assert (EQ : Q = fst rl) by (rewrite <- EG; reflexivity).
      assert (EL : L = snd rl) by (rewrite <- EG; reflexivity).
      clearbody Q L. subst Q L.
      destruct (Z.of_nat n =? 0); cbv beta iota; cbn [steps]; reflexivity.
  }
  destruct Pre as (b1 & d1 & fl1 & Pre).
  destruct n as [|n].
  - (* single word: straight to the final multiplication *)
    change (Z.of_nat 0 =? 0) with true in Pre. cbv iota in Pre.
    eexists (30 + 3)%nat, _. split.
    + rewrite (steps_add 30 3 _ _ _ _ Pre). unfold stL.
      step3 prog_shl10VU. step3 prog_shl10VU. step3 prog_shl10VU. st z. reflexivity.
    + cbn [st_pc st_frame st_mem nth_error]. rewrite upd_same. repeat split.
  - destruct (Z.eqb_spec (Z.of_nat (S n)) 0); [lia|].
    destruct (shl10VU_loop E z x (upd fr 7 (fst rl)) D M mm post r14 Hm Hpost pre n b1 d1 r9 (snd rl) fl1 m Hpre Hx0 Hz0)
      as (N & b2 & d2 & e2 & fl2 & l2 & m2 & HS2 & G2); try lia.
    eexists (30 + (N + 3))%nat, _. split.
    + rewrite (steps_add 30 (N + 3) _ _ _ _ Pre). rewrite (steps_add N 3 _ _ _ _ HS2). unfold stL.
      step3 prog_shl10VU. step3 prog_shl10VU. step3 prog_shl10VU. st z. reflexivity.
    + cbn [st_pc st_frame st_mem nth_error]. rewrite upd_same. repeat split. rewrite <- G2. reflexivity.
Qed.

Lemma nth_rd m a k j : (j < k)%nat -> nth j (rd m a k) 0 = m (a + Z.of_nat j).
Proof.
  revert a j; induction k as [|k IH]; intros a j Hj; [lia|].
  destruct j as [|j]; cbn [rd nth].
  - now rewrite Z.add_0_r.
  - rewrite IH by lia. f_equal. lia.
Qed.

(* memory after copying the words j..n-1 of x to z *)
Definition cpd (z x : Z) (m0 : mem) (j n : Z) (m : mem) : Prop :=
  forall a, m a = if (z + j <=? a) && (a <? z + n) then m0 (x + (a - z)) else m0 a.

Lemma cpd_all z x m0 n m : cpd z x m0 0 (Z.of_nat n) m -> mem_eq m (wr m0 z (rd m0 x n)).
Proof.
  intros H a. rewrite H. rewrite Z.add_0_r.
  destruct (Z.leb_spec z a); destruct (Z.ltb_spec a (z + Z.of_nat n)); cbn [andb].
  - rewrite wr_inside by (rewrite rd_length; lia). rewrite nth_rd by lia. f_equal. lia.
  - rewrite wr_outside by (rewrite rd_length; lia). reflexivity.
  - rewrite wr_outside by (rewrite rd_length; lia). reflexivity.
  - rewrite wr_outside by (rewrite rd_length; lia). reflexivity.
Qed.

Lemma cpd_init z x m0 n : cpd z x m0 n n m0.
Proof. intros a. destruct (Z.leb_spec (z + n) a); destruct (Z.ltb_spec a (z + n)); cbn [andb]; try reflexivity; lia. Qed.

Lemma cpd_read z x m0 j n m k : cpd z x m0 j n m -> desc_ok z x n -> 0 <= k < j -> m (x + k) = m0 (x + k).
Proof.
  intros H Hd Hk. rewrite H. unfold desc_ok in Hd.
  destruct (Z.leb_spec (z + j) (x + k)); destruct (Z.ltb_spec (x + k) (z + n)); cbn [andb]; try reflexivity; lia.
Qed.

Lemma cpd_step z x m0 j n m : cpd z x m0 (j + 1) n m -> desc_ok z x n -> 0 <= j < n ->
  cpd z x m0 j n (upd m (z + j) (m (x + j))).
Proof.
  intros H Hd Hj a. rewrite (cpd_read z x m0 (j + 1) n m j H Hd) by lia.
  unfold upd. destruct (Z.eqb_spec a (z + j)) as [-> | Hne].
  - destruct (Z.leb_spec (z + j) (z + j)); destruct (Z.ltb_spec (z + j) (z + n)); cbn [andb]; try lia. f_equal. lia.
  - rewrite H.
    destruct (Z.leb_spec (z + (j + 1)) a); destruct (Z.ltb_spec a (z + n)); destruct (Z.leb_spec (z + j) a);
      cbn [andb]; try reflexivity; lia.
Qed.

Lemma cpd_step4 z x m0 j n m : cpd z x m0 (j + 4) n m -> desc_ok z x n -> 0 <= j -> j + 4 <= n ->
  cpd z x m0 j n (upd (upd (upd (upd m (z + j) (m (x + j))) (z + j + 1) (m (x + j + 1))) (z + j + 2) (m (x + j + 2)))
                      (z + j + 3) (m (x + j + 3))).
Proof.
  intros H Hd Hj Hn a.
  rewrite (cpd_read z x m0 (j + 4) n m j H Hd) by lia.
  replace (x + j + 1) with (x + (j + 1)) by lia. replace (x + j + 2) with (x + (j + 2)) by lia.
  replace (x + j + 3) with (x + (j + 3)) by lia.
  rewrite (cpd_read z x m0 (j + 4) n m (j + 1) H Hd) by lia.
  rewrite (cpd_read z x m0 (j + 4) n m (j + 2) H Hd) by lia.
  rewrite (cpd_read z x m0 (j + 4) n m (j + 3) H Hd) by lia.
  unfold upd.
  destruct (Z.eqb_spec a (z + j + 3)) as [-> | N3].
  { destruct (Z.leb_spec (z + j) (z + j + 3)); destruct (Z.ltb_spec (z + j + 3) (z + n)); cbn [andb]; try lia. f_equal; lia. }
  destruct (Z.eqb_spec a (z + j + 2)) as [-> | N2].
  { destruct (Z.leb_spec (z + j) (z + j + 2)); destruct (Z.ltb_spec (z + j + 2) (z + n)); cbn [andb]; try lia. f_equal; lia. }
  destruct (Z.eqb_spec a (z + j + 1)) as [-> | N1].
  { destruct (Z.leb_spec (z + j) (z + j + 1)); destruct (Z.ltb_spec (z + j + 1) (z + n)); cbn [andb]; try lia. f_equal; lia. }
  destruct (Z.eqb_spec a (z + j)) as [-> | N0].
  { destruct (Z.leb_spec (z + j) (z + j)); destruct (Z.ltb_spec (z + j) (z + n)); cbn [andb]; try lia. f_equal; lia. }
  rewrite H.
  destruct (Z.leb_spec (z + (j + 4)) a); destruct (Z.ltb_spec a (z + n)); destruct (Z.leb_spec (z + j) a);
    cbn [andb]; try reflexivity; lia.
Qed.

Lemma cond_l_add a b : 0 <= a < W64 -> 0 <= b < W64 ->
  cond_holds CondL (flags_add a b 0) = Some (signed a + signed b <? 0).
Proof.
  intros Ha Hb. w64. unfold cond_holds, flags_add, fZF, fSF, fOF, zf_of, sf_of, msb, in_s64.
  destruct (add_lo_cases a b Ha Hb) as [[Hd ->] | [Hd ->]];
  destruct (signed_cases a) as [[Hsa ->] | [Hsa ->]]; destruct (signed_cases b) as [[Hsb ->] | [Hsb ->]];
  repeat match goal with
         | |- context [?p <=? ?q] => destruct (Z.leb_spec p q)
         | |- context [?p <? ?q] => destruct (Z.ltb_spec p q)
         | |- context [?p =? ?q] => destruct (Z.eqb_spec p q)
         end; cbn [negb xorb andb orb]; try reflexivity; try lia.
Qed.

Section CpyInvShl.
Variables (E : env) (z x n : Z) (fr : mem) (m0 : mem).
Variables (di r9 r11 r12 r13 r14 : Z).
Hypothesis Hm : 8 * e_msize E <= W64.
Hypothesis Hd : desc_ok z x n.
Hypothesis Hx0 : 0 <= x.
Hypothesis Hz0 : 0 <= z.
Hypothesis Hx1 : x + n <= e_msize E.
Hypothesis Hz1 : z + n <= e_msize E.

Definition stC (ax bx cx dx si : Z) (fl : flags) (m : mem) (pc : nat) : state :=
  mkState (mkRegs ax bx cx dx si di (8 * x) r9 (8 * z) r11 r12 r13 r14) fl m fr pc.

Lemma cpyinv_block ax bx cx dx j fl m : 0 <= j -> j + 4 <= n -> n < HALF64 ->
  exists ax' bx' cx' dx' fl',
    steps 11 E prog_shl10VU (stC ax bx cx dx j fl m 64) =
    Some (stC ax' bx' cx' dx' (sub_lo j 4 0) fl'
              (upd (upd (upd (upd m (z + j) (m (x + j))) (z + j + 1) (m (x + j + 1))) (z + j + 2) (m (x + j + 2)))
                   (z + j + 3) (m (x + j + 3)))
              (if 4 <=? j then 64%nat else 75%nat)).
Proof.
  intros Hj Hjn HnH. bw. pose proof HALF64_ge. unfold stC. do 5 eexists.
  step3 prog_shl10VU.
  step3 prog_shl10VU. ld (x + j).
  step3 prog_shl10VU. ld (x + j + 1).
  step3 prog_shl10VU. ld (x + j + 2).
  step3 prog_shl10VU. ld (x + j + 3).
  step3 prog_shl10VU. st (z + j).
  step3 prog_shl10VU. st (z + j + 1).
  step3 prog_shl10VU. st (z + j + 2).
  step3 prog_shl10VU. st (z + j + 3).
  step3 prog_shl10VU.
  step3 prog_shl10VU. rewrite cond_ge_sub by lia. rewrite (signed_small 4), (signed_small j) by lia.
  destruct (4 <=? j); cbv beta iota; cbn [steps]; reflexivity.
Qed.

Lemma cpyinv_one ax bx cx dx j fl m : 0 <= j < n -> n < HALF64 ->
  exists ax' fl',
    steps 5 E prog_shl10VU (stC ax bx cx dx j fl m 78) =
    Some (stC ax' bx cx dx (sub_lo j 1 0) fl' (upd m (z + j) (m (x + j)))
              (if 1 <=? j then 78%nat else 83%nat)).
Proof.
  intros Hj HnH. bw. pose proof HALF64_ge. unfold stC. do 2 eexists.
  step3 prog_shl10VU.
  step3 prog_shl10VU. ld (x + j).
  step3 prog_shl10VU. st (z + j).
  step3 prog_shl10VU.
  step3 prog_shl10VU. rewrite cond_ge_sub by lia. rewrite (signed_small 1), (signed_small j) by lia.
  destruct (1 <=? j); cbv beta iota; cbn [steps]; reflexivity.
Qed.

Lemma cpyinv_CU q : forall (r : nat) ax bx cx dx fl m, (r < 4)%nat ->
  4 * Z.of_nat q + Z.of_nat r + 4 <= n -> n < HALF64 ->
  cpd z x m0 (4 * Z.of_nat q + Z.of_nat r + 4) n m ->
  exists N ax' bx' cx' dx' fl' m',
    steps N E prog_shl10VU (stC ax bx cx dx (4 * Z.of_nat q + Z.of_nat r) fl m 64) =
    Some (stC ax' bx' cx' dx' (sub_lo (Z.of_nat r) 4 0) fl' m' 75) /\ cpd z x m0 (Z.of_nat r) n m'.
Proof.
  induction q as [|q IH]; intros r ax bx cx dx fl m Hr Hn HnH Hc.
  - destruct (cpyinv_block ax bx cx dx (4 * Z.of_nat 0 + Z.of_nat r) fl m ltac:(lia) ltac:(lia) HnH)
      as (a1 & b1 & c1 & d1 & fl1 & H1).
    pose proof (cpd_step4 z x m0 (4 * Z.of_nat 0 + Z.of_nat r) n m Hc Hd ltac:(lia) ltac:(lia)) as Hc1.
    destruct (Z.leb_spec 4 (4 * Z.of_nat 0 + Z.of_nat r)); [lia|].
    replace (4 * Z.of_nat 0 + Z.of_nat r) with (Z.of_nat r) in * by lia.
    exists 11%nat, a1, b1, c1, d1, fl1. eexists. split; [exact H1 | exact Hc1].
  - destruct (cpyinv_block ax bx cx dx (4 * Z.of_nat (S q) + Z.of_nat r) fl m ltac:(lia) ltac:(lia) HnH)
      as (a1 & b1 & c1 & d1 & fl1 & H1).
    pose proof (cpd_step4 z x m0 (4 * Z.of_nat (S q) + Z.of_nat r) n m Hc Hd ltac:(lia) ltac:(lia)) as Hc1.
    destruct (Z.leb_spec 4 (4 * Z.of_nat (S q) + Z.of_nat r)); [|lia].
    bw. rewrite (sub_lo_small (4 * Z.of_nat (S q) + Z.of_nat r) 4 0) in H1 by lia.
    replace (4 * Z.of_nat (S q) + Z.of_nat r - 4 - 0) with (4 * Z.of_nat q + Z.of_nat r) in H1 by lia.
    match type of H1 with _ = Some (stC _ _ _ _ _ _ ?mm _) =>
      destruct (IH r a1 b1 c1 d1 fl1 mm Hr ltac:(lia) HnH) as (N & a2 & b2 & c2 & d2 & fl2 & m2 & HS2 & Hc2) end.
    { replace (4 * Z.of_nat q + Z.of_nat r + 4) with (4 * Z.of_nat (S q) + Z.of_nat r) by lia. exact Hc1. }
    exists (11 + N)%nat, a2, b2, c2, d2, fl2, m2. split; [|exact Hc2].
    rewrite (steps_add 11 N _ _ _ _ H1). exact HS2.
Qed.

Lemma cpyinv_CL j : forall ax bx cx dx fl m, Z.of_nat j < n -> n < HALF64 ->
  cpd z x m0 (Z.of_nat j + 1) n m ->
  exists N ax' fl' si' m',
    steps N E prog_shl10VU (stC ax bx cx dx (Z.of_nat j) fl m 78) =
    Some (stC ax' bx cx dx si' fl' m' 83) /\ cpd z x m0 0 n m'.
Proof.
  induction j as [|j IH]; intros ax bx cx dx fl m Hj HnH Hc.
  - destruct (cpyinv_one ax bx cx dx (Z.of_nat 0) fl m ltac:(lia) HnH) as (a1 & fl1 & H1).
    pose proof (cpd_step z x m0 (Z.of_nat 0) n m Hc Hd ltac:(lia)) as Hc1.
    destruct (Z.leb_spec 1 (Z.of_nat 0)); [lia|].
    exists 5%nat, a1, fl1. do 2 eexists. split; [exact H1 | exact Hc1].
  - destruct (cpyinv_one ax bx cx dx (Z.of_nat (S j)) fl m ltac:(lia) HnH) as (a1 & fl1 & H1).
    pose proof (cpd_step z x m0 (Z.of_nat (S j)) n m Hc Hd ltac:(lia)) as Hc1.
    destruct (Z.leb_spec 1 (Z.of_nat (S j))); [|lia].
    bw. rewrite (sub_lo_small (Z.of_nat (S j)) 1 0) in H1 by lia.
    replace (Z.of_nat (S j) - 1 - 0) with (Z.of_nat j) in H1 by lia.
    match type of H1 with _ = Some (stC _ _ _ _ _ _ ?mm _) =>
      destruct (IH a1 bx cx dx fl1 mm ltac:(lia) HnH) as (N & a2 & fl2 & s2 & m2 & HS2 & Hc2) end.
    { replace (Z.of_nat j + 1) with (Z.of_nat (S j)) by lia. exact Hc1. }
    exists (5 + N)%nat, a2, fl2, s2, m2. split; [|exact Hc2].
    rewrite (steps_add 5 N _ _ _ _ H1). exact HS2.
Qed.

Lemma cpyinv_all (nn : nat) ax bx cx dx fl : n = Z.of_nat nn -> n < HALF64 ->
  exists N s', steps N E prog_shl10VU (stC ax bx cx dx n fl m0 61) = Some s' /\
               nth_error prog_shl10VU (st_pc s') = Some RET /\ st_frame s' = fr /\
               cpd z x m0 0 n (st_mem s').
Proof.
  intros En HnH. bw. pose proof HALF64_ge.
  assert (Pre : steps 3 E prog_shl10VU (stC ax bx cx dx n fl m0 61) =
                Some (stC ax bx cx dx (sub_lo n 4 0) (flags_sub n 4 0) m0 (if n <? 4 then 75%nat else 64%nat))).
  { unfold stC. step3 prog_shl10VU. step3 prog_shl10VU.
    step3 prog_shl10VU. rewrite cond_l_sub by lia. rewrite (signed_small n), (signed_small 4) by lia.
    destruct (n <? 4); reflexivity. }
  (* from CV with r < 4 words left *)
  assert (Tail : forall (r : nat) a b c d f m, (r < 4)%nat -> Z.of_nat r <= n -> cpd z x m0 (Z.of_nat r) n m ->
            exists N s', steps N E prog_shl10VU (stC a b c d (sub_lo (Z.of_nat r) 4 0) f m 75) = Some s' /\
                         nth_error prog_shl10VU (st_pc s') = Some RET /\ st_frame s' = fr /\
                         cpd z x m0 0 n (st_mem s')).
  { intros r a b c d f m Hr Hrn Hc.
    assert (Esub : sub_lo (Z.of_nat r) 4 0 = Z.of_nat r - 4 + W64) by (rewrite sub_lo_under; lia).
    pose proof (sub_lo_range (Z.of_nat r) 4 0) as Hsr.
    assert (P2 : steps 3 E prog_shl10VU (stC a b c d (sub_lo (Z.of_nat r) 4 0) f m 75) =
                 Some (stC a b c d (add_lo (sub_lo (Z.of_nat r) 4 0) 3 0) (flags_add (sub_lo (Z.of_nat r) 4 0) 3 0) m
                           (if Z.of_nat r <? 1 then 83%nat else 78%nat))).
    { unfold stC. step3 prog_shl10VU. step3 prog_shl10VU.
      step3 prog_shl10VU. rewrite cond_l_add by lia.
      replace (signed (sub_lo (Z.of_nat r) 4 0)) with (Z.of_nat r - 4)
        by (rewrite Esub; destruct (signed_cases (Z.of_nat r - 4 + W64)) as [[? ?] | [? ->]]; lia).
      rewrite (signed_small 3) by lia. replace (Z.of_nat r - 4 + 3 <? 0) with (Z.of_nat r <? 1)
        by (destruct (Z.ltb_spec (Z.of_nat r) 1); destruct (Z.ltb_spec (Z.of_nat r - 4 + 3) 0); lia).
      destruct (Z.of_nat r <? 1); reflexivity. }
    destruct r as [|r].
    - change (Z.of_nat 0 <? 1) with true in P2. cbv iota in P2.
      eexists (3 + 1)%nat, _. split.
      + rewrite (steps_add 3 1 _ _ _ _ P2). unfold stC. step3 prog_shl10VU. reflexivity.
      + cbn [st_pc st_frame st_mem nth_error]. repeat split. exact Hc.
    - destruct (Z.ltb_spec (Z.of_nat (S r)) 1); [lia|].
      replace (add_lo (sub_lo (Z.of_nat (S r)) 4 0) 3 0) with (Z.of_nat r) in P2 by (rewrite Esub, add_lo_over; lia).
      destruct (cpyinv_CL r a b c d (flags_add (sub_lo (Z.of_nat (S r)) 4 0) 3 0) m ltac:(lia) HnH)
        as (N & a2 & fl2 & s2 & m2 & HS2 & Hc2).
      { replace (Z.of_nat r + 1) with (Z.of_nat (S r)) by lia. exact Hc. }
      eexists (3 + (N + 1))%nat, _. split.
      + rewrite (steps_add 3 (N + 1) _ _ _ _ P2). rewrite (steps_add N 1 _ _ _ _ HS2).
        unfold stC. step3 prog_shl10VU. reflexivity.
      + cbn [st_pc st_frame st_mem nth_error]. repeat split. exact Hc2. }
  destruct (Z.ltb_spec n 4) as [Hlt | Hge].
  - destruct (Tail nn ax bx cx dx (flags_sub n 4 0) m0) as (N & s' & HS & HR & HF & HC); try lia.
    { rewrite <- En. apply cpd_init. }
    exists (3 + N)%nat, s'. split; [|auto]. rewrite (steps_add 3 N _ _ _ _ Pre). rewrite En at 1. exact HS.
  - set (q := (nn / 4 - 1)%nat). set (r := (nn mod 4)%nat).
    assert (Enn : nn = (4 * S q + r)%nat).
    { unfold q, r. pose proof (Nat.div_mod nn 4 ltac:(lia)).
      assert (1 <= nn / 4)%nat by (apply Nat.div_le_lower_bound; lia). lia. }
    assert (Hr : (r < 4)%nat) by (unfold r; apply Nat.mod_upper_bound; lia).
    rewrite (sub_lo_small n 4 0) in Pre by lia.
    replace (n - 4 - 0) with (4 * Z.of_nat q + Z.of_nat r) in Pre by lia.
    destruct (cpyinv_CU q r ax bx cx dx (flags_sub n 4 0) m0 Hr ltac:(lia) HnH) as (N1 & a1 & b1 & c1 & d1 & fl1 & m1 & HS1 & Hc1).
    { replace (4 * Z.of_nat q + Z.of_nat r + 4) with n by lia. apply cpd_init. }
    destruct (Tail r a1 b1 c1 d1 fl1 m1 Hr ltac:(lia) Hc1) as (N2 & s' & HS2 & HR & HF & HC).
    exists (3 + (N1 + N2))%nat, s'. split; [|auto].
    rewrite (steps_add 3 (N1 + N2) _ _ _ _ Pre). rewrite (steps_add N1 N2 _ _ _ _ HS1). exact HS2.
Qed.
End CpyInvShl.

Lemma wr_rd_self m z n : mem_eq m (wr m z (rd m z n)).
Proof.
  intros a. destruct (Z_lt_le_dec a z); [rewrite wr_outside by (rewrite rd_length; lia); reflexivity|].
  destruct (Z_lt_le_dec a (z + Z.of_nat n)).
  - rewrite wr_inside by (rewrite rd_length; lia). rewrite nth_rd by lia. f_equal. lia.
  - rewrite wr_outside by (rewrite rd_length; lia). reflexivity.
Qed.

Theorem asm_shl10VU_correct E n z x s rs m :
  tab_ok E -> 8 * e_msize E <= W64 ->
  0 <= z -> z + Z.of_nat n <= e_msize E -> 0 <= x -> x + Z.of_nat n <= e_msize E ->
  desc_ok z x (Z.of_nat n) -> 0 <= s <= 18 -> words_ok (rd m x n) = true ->
  exists N s', (forall f, run (N + S f) E prog_shl10VU
                             (init_state rs (slice z n ++ slice x n ++ [s]) m) = Some s') /\
               st_frame s' 7 = snd (spec_shl10VU (rd m x n) s) /\
               mem_eq (st_mem s') (wr m z (fst (spec_shl10VU (rd m x n) s))).
Proof.
  intros Htab Hm Hz0 Hz1 Hx0 Hx1 Hd Hs Hw. bw. pose proof HALF64_ge.
  destruct (g_shl10VU_correct n z x s m Hd Hs Hw) as [Gr Gm].
  assert (Goal' : exists N s', steps N E prog_shl10VU (init_state rs (slice z n ++ slice x n ++ [s]) m) = Some s' /\
                    nth_error prog_shl10VU (st_pc s') = Some RET /\
                    st_frame s' 7 = fst (g_shl10VU n z x s m) /\
                    mem_eq (st_mem s') (snd (g_shl10VU n z x s m))).
  { destruct n as [|n].
    - (* empty *)
      destruct rs as [ax bx cx dx si di r8 r9 r10 r11 r12 r13 r14]. unfold init_state.
      set (fr := frame_of (slice z 0 ++ slice x 0 ++ [s])).
      assert (F1 : fr 1 = 0) by reflexivity. clearbody fr.
      eexists 5%nat, _. split.
      + step3 prog_shl10VU. rewrite F1. step3 prog_shl10VU.
        step3 prog_shl10VU. rewrite cond_l_sub by lia. rewrite (signed_small 0), (signed_small 1) by lia.
        change (0 <? 1) with true. cbv iota.
        step3 prog_shl10VU. step3 prog_shl10VU. reflexivity.
      + cbn [st_pc st_frame st_mem nth_error]. rewrite upd_same. unfold g_shl10VU.
        destruct (s =? 0); cbn [fst snd g_copy rd wr]; repeat split; intro; reflexivity.
    - destruct (Z.eq_dec s 0) as [-> | Hs0].
      + (* whole-word shift: copy *)
        destruct rs as [ax bx cx dx si di r8 r9 r10 r11 r12 r13 r14]. unfold init_state.
        set (fr := frame_of (slice z (S n) ++ slice x (S n) ++ [0])).
        assert (F0 : fr 0 = 8 * z) by reflexivity. assert (F1 : fr 1 = Z.of_nat (S n)) by reflexivity.
        assert (F3 : fr 3 = 8 * x) by reflexivity. assert (F6 : fr 6 = 0) by reflexivity. clearbody fr.
        assert (Pre : steps 11 E prog_shl10VU (mkState (mkRegs ax bx cx dx si di r8 r9 r10 r11 r12 r13 r14) flags0 m fr 0) =
                  Some (mkState (mkRegs ax 0 cx dx (Z.of_nat n) di (8 * x) r9 (8 * z) r11 r12 r13 r14)
                          (flags_sub (8 * z) (8 * x) 0) m fr (if 8 * z =? 8 * x then 52%nat else 58%nat))).
        { step3 prog_shl10VU. rewrite F1.
          step3 prog_shl10VU.
          step3 prog_shl10VU. rewrite cond_l_sub by lia. rewrite (signed_small (Z.of_nat (S n))), (signed_small 1) by lia.
          destruct (Z.ltb_spec (Z.of_nat (S n)) 1); [lia|]. cbv iota.
          rewrite (sub_lo_small (Z.of_nat (S n)) 1 0) by lia. replace (Z.of_nat (S n) - 1 - 0) with (Z.of_nat n) by lia.
          step3 prog_shl10VU. rewrite F0.
          step3 prog_shl10VU. rewrite F3.
          step3 prog_shl10VU. rewrite F6.
          step3 prog_shl10VU.
          step3 prog_shl10VU. rewrite cond_eq_logic, land_diag_eq. change (0 =? 0) with true. cbv iota.
          step3 prog_shl10VU.
          step3 prog_shl10VU.
          step3 prog_shl10VU. rewrite cond_eq_sub by lia.
          destruct (8 * z =? 8 * x); reflexivity. }
        unfold g_shl10VU. change (0 =? 0) with true. cbv iota. cbn [fst snd].
        destruct (Z.eqb_spec (8 * z) (8 * x)) as [Ezx | Nzx].
        * assert (z = x) by lia. subst z.
          eexists (11 + 2)%nat, _. split.
          -- rewrite (steps_add 11 2 _ _ _ _ Pre). step3 prog_shl10VU. step3 prog_shl10VU. reflexivity.
          -- cbn [st_pc st_frame st_mem nth_error]. rewrite upd_same. repeat split. unfold g_copy. apply wr_rd_self.
        * assert (P2 : steps 3 E prog_shl10VU
                    (mkState (mkRegs ax 0 cx dx (Z.of_nat n) di (8 * x) r9 (8 * z) r11 r12 r13 r14)
                          (flags_sub (8 * z) (8 * x) 0) m fr 58) =
                  Some (stC z x (upd fr 7 0) di r9 r11 r12 r13 r14 ax 0 cx dx (Z.of_nat (S n))
                            (flags_add (Z.of_nat n) 1 0) m 61)).
          { unfold stC. step3 prog_shl10VU. rewrite (add_lo_small (Z.of_nat n) 1 0) by lia.
            replace (Z.of_nat n + 1 + 0) with (Z.of_nat (S n)) by lia.
            step3 prog_shl10VU. step3 prog_shl10VU. reflexivity. }
          destruct (cpyinv_all E z x (Z.of_nat (S n)) (upd fr 7 0) m di r9 r11 r12 r13 r14 Hm Hd Hx0 Hz0 Hx1 Hz1
                      (S n) ax 0 cx dx (flags_add (Z.of_nat n) 1 0) eq_refl ltac:(lia))
            as (N & s' & HS & HR & HF & HC).
          exists (11 + (3 + N))%nat, s'. split; [|split; [exact HR|split]].
          -- rewrite (steps_add 11 (3 + N) _ _ _ _ Pre). rewrite (steps_add 3 N _ _ _ _ P2). exact HS.
          -- rewrite HF. apply upd_same.
          -- unfold g_copy. apply cpd_all. exact HC.
      + destruct (asm_shl10VU_shift E n z x s rs m Htab Hm Hz0 Hz1 Hx0 Hx1 ltac:(lia)) as (N & s' & HS & HR & HF & HM).
        exists N, s'. split; [exact HS|]. split; [exact HR|]. split; [exact HF|]. rewrite HM. intro; reflexivity. }
  destruct Goal' as (N & s' & HS & HR & HF & HM).
  exists N, s'. split.
  - intros f. rewrite (run_steps N (S f) _ _ _ _ HS). now apply run_ret.
  - split; [rewrite HF; exact Gr|]. intros a. rewrite HM. apply Gm.
Qed.

(* ================================================================ shr10VU *)
Lemma mul_lo_comm a b : mul_lo a b = mul_lo b a.
Proof. unfold mul_lo. now rewrite Z.mul_comm. Qed.

Section Shr10VU.
Variables (E : env) (z x n1 : Z) (fr : mem).      (* n1 = n - 1 *)
Variables (D M mm post : Z).
Hypothesis Hm : 8 * e_msize E <= W64.
Hypothesis Hpost : 1 <= post < 64.

Definition stR (ax bx cx dx si r9 r14 : Z) (fl : flags) (m : mem) (pc : nat) : state :=
  mkState (mkRegs ax bx cx dx si n1 (8 * x) r9 (8 * z) M D mm r14) fl m fr pc.

Lemma g_shr10VU_loop_S pre k i h m :
  g_shr10VU_loop (S k) z x i (D, mm, pre, post) M h m =
  g_shr10VU_loop k z x (i + 1) (D, mm, pre, post) M (fst (g_magic_div (D, mm, pre, post) (m (x + i))))
    (upd m (z + i - 1) (add_lo h (mul_lo (snd (g_magic_div (D, mm, pre, post) (m (x + i)))) M) 0)).
Proof. reflexivity. Qed.

(* one iteration: SI = i - 1 on entry (the Go index i = SI + 1), BX = h *)
Lemma shr10VU_iter pre ax dx r9 r14 i h fl m :
  (pre = 0 \/ pre = 1) -> 0 <= x -> 0 <= z -> 1 <= i -> i <= n1 -> n1 < HALF64 ->
  x + i < e_msize E -> z + i < e_msize E ->
  let hl := g_magic_div (D, mm, pre, post) (m (x + i)) in
  exists ax' dx' r9' r14' fl',
    steps 20 E prog_shr10VU (stR ax h (post + 256 * pre) dx (i - 1) r9 r14 fl m 33) =
    Some (stR ax' (fst hl) (post + 256 * pre) dx' i r9' r14' fl'
              (upd m (z + i - 1) (add_lo h (mul_lo (snd hl) M) 0))
              (if i <? n1 then 33%nat else 53%nat)).
Proof.
  intros Hpre Hx0 Hz0 Hi Hin HnH Hx1 Hz1 hl. bw. pose proof HALF64_ge. unfold stR.
  set (w := m (x + i)) in *.
  pose proof (magic_asm_eq D mm pre post w Hpre Hpost) as EG. cbv zeta in EG. fold hl in EG.
  destruct Hpre as [-> | ->];
    [change (0 =? 0) with true in EG | change (1 =? 0) with false in EG]; cbv iota in EG.
  - do 5 eexists.
    step3 prog_shr10VU.
    step3 prog_shr10VU.
    step3 prog_shr10VU. ld (x + i). fold w.
    step3 prog_shr10VU.
    step3 prog_shr10VU. rewrite ror16_swap by lia.
    step3 prog_shr10VU. rewrite (cnt_lo _ post) by lia. try change (0 =? 0) with true. lits2.
    step3 prog_shr10VU.
    step3 prog_shr10VU. rewrite ror16_swap by lia.
    step3 prog_shr10VU. rewrite (cnt_lo post _) by lia.
    destruct (Z.eqb_spec post 0); [lia|]. cbv iota.
    step3 prog_shr10VU.
    step3 prog_shr10VU.
    step3 prog_shr10VU.
    step3 prog_shr10VU.
    step3 prog_shr10VU.
    step3 prog_shr10VU.
    step3 prog_shr10VU.
    step3 prog_shr10VU. st (z + i - 1).
    step3 prog_shr10VU. rewrite (add_lo_small (i - 1) 1 0) by lia. replace (i - 1 + 1 + 0) with i by lia.
    step3 prog_shr10VU.
    step3 prog_shr10VU. rewrite cond_l_sub by lia. rewrite (signed_small i), (signed_small n1) by lia.
    rewrite (mul_lo_comm D), (mul_lo_comm M).
    match type of EG with (?q, ?l) = _ => set (Q := q) in *; set (L := l) in * end.
    assert (EQ : Q = fst hl) by (rewrite <- EG; reflexivity).
    assert (EL : L = snd hl) by (rewrite <- EG; reflexivity).
    clearbody Q L. subst Q L.
    destruct (i <? n1); cbv beta iota; cbn [steps]; reflexivity.
  - do 5 eexists.
    step3 prog_shr10VU.
    step3 prog_shr10VU.
    step3 prog_shr10VU. ld (x + i). fold w.
    step3 prog_shr10VU.
    step3 prog_shr10VU. rewrite ror16_swap by lia.
    step3 prog_shr10VU. rewrite (cnt_lo _ post) by lia. try change (0 =? 0) with true. lits2.
    step3 prog_shr10VU.
    step3 prog_shr10VU. rewrite ror16_swap by lia.
    step3 prog_shr10VU. rewrite (cnt_lo post _) by lia.
    destruct (Z.eqb_spec post 0); [lia|]. cbv iota.
    step3 prog_shr10VU.
    step3 prog_shr10VU.
    step3 prog_shr10VU.
    step3 prog_shr10VU.
    step3 prog_shr10VU.
    step3 prog_shr10VU.
    step3 prog_shr10VU.
    step3 prog_shr10VU. st (z + i - 1).
    step3 prog_shr10VU. rewrite (add_lo_small (i - 1) 1 0) by lia. replace (i - 1 + 1 + 0) with i by lia.
    step3 prog_shr10VU.
    step3 prog_shr10VU. rewrite cond_l_sub by lia. rewrite (signed_small i), (signed_small n1) by lia.
    rewrite (mul_lo_comm D), (mul_lo_comm M).
    match type of EG with (?q, ?l) = _ => set (Q := q) in *; set (L := l) in * end.
    assert (EQ : Q = fst hl) by (rewrite <- EG; reflexivity).
    assert (EL : L = snd hl) by (rewrite <- EG; reflexivity).
    clearbody Q L. subst Q L.
    destruct (i <? n1); cbv beta iota; cbn [steps]; reflexivity.
Qed.

Lemma shr10VU_loop pre k : forall ax dx r9 r14 i h fl m,
  (pre = 0 \/ pre = 1) -> 0 <= x -> 0 <= z -> 1 <= i -> i + Z.of_nat (S k) = n1 + 1 -> n1 < HALF64 ->
  x + n1 < e_msize E -> z + n1 < e_msize E ->
  exists N ax' dx' r9' r14' fl' h' m',
    steps N E prog_shr10VU (stR ax h (post + 256 * pre) dx (i - 1) r9 r14 fl m 33) =
    Some (stR ax' h' (post + 256 * pre) dx' n1 r9' r14' fl' m' 53) /\
    g_shr10VU_loop 0 z x (n1 + 1) (D, mm, pre, post) M h' m' = g_shr10VU_loop (S k) z x i (D, mm, pre, post) M h m.
Proof.
  induction k as [|k IH]; intros ax dx r9 r14 i h fl m Hpre Hx0 Hz0 Hi Hik HnH Hx1 Hz1; rewrite g_shr10VU_loop_S;
    destruct (shr10VU_iter pre ax dx r9 r14 i h fl m Hpre Hx0 Hz0 Hi ltac:(lia) HnH ltac:(lia) ltac:(lia))
      as (a1 & d1 & e1 & f1 & fl1 & H1).
  - destruct (Z.ltb_spec i n1); [lia|].
    replace i with n1 in H1 at 3 by lia. replace (i + 1) with (n1 + 1) by lia.
    exists 20%nat, a1, d1, e1, f1, fl1. do 2 eexists. split; [exact H1 | reflexivity].
  - destruct (Z.ltb_spec i n1); [|lia].
    replace i with (i + 1 - 1) in H1 at 3 by lia.
    match type of H1 with _ = Some (stR _ ?hh _ _ _ _ _ _ ?mm' _) =>
      destruct (IH a1 d1 e1 f1 (i + 1) hh fl1 mm' Hpre Hx0 Hz0 ltac:(lia) ltac:(lia) HnH Hx1 Hz1)
        as (N & a2 & d2 & e2 & f2 & fl2 & h2 & m2 & HS2 & G2) end.
    exists (20 + N)%nat, a2, d2, e2, f2, fl2, h2, m2. split; [|exact G2].
    rewrite (steps_add 20 N _ _ _ _ H1). exact HS2.
Qed.
End Shr10VU.

(* the shifting path of shr10VU: n >= 1, 1 <= s <= 18 *)
Lemma asm_shr10VU_shift E n z x s rs m :
  tab_ok E -> 8 * e_msize E <= W64 ->
  0 <= z -> z + Z.of_nat (S n) <= e_msize E -> 0 <= x -> x + Z.of_nat (S n) <= e_msize E ->
  1 <= s <= 18 ->
  exists N s', steps N E prog_shr10VU (init_state rs (slice z (S n) ++ slice x (S n) ++ [s]) m) = Some s' /\
               nth_error prog_shr10VU (st_pc s') = Some RET /\
               st_frame s' 7 = fst (g_shr10VU (S n) z x s m) /\
               st_mem s' = snd (g_shr10VU (S n) z x s m).
Proof.
  intros Htab Hm Hz0 Hz1 Hx0 Hx1 Hs. bw. pose proof HALF64_ge.
  destruct rs as [ax bx cx dx si di r8 r9 r10 r11 r12 r13 r14].
  unfold init_state.
  set (fr := frame_of (slice z (S n) ++ slice x (S n) ++ [s])).
  assert (F0 : fr 0 = 8 * z) by reflexivity. assert (F1 : fr 1 = Z.of_nat (S n)) by reflexivity.
  assert (F3 : fr 3 = 8 * x) by reflexivity. assert (F6 : fr 6 = s) by reflexivity. clearbody fr.
  destruct (table_row s ltac:(lia)) as (mm & pre & post & ERow & ED & Emm & Epp & Hpre & Hpost & Hmm).
  destruct (table_row (19 - s) ltac:(lia)) as (mm2 & pre2 & post2 & _ & EM & _).
  assert (Hp8 : 0 <= pre < 256) by (destruct Hpre; lia).
  assert (Htb : 0 <= e_tbase E < W64) by (destruct Htab as (_ & _ & ? & ?); lia).
  assert (Hms : 0 <= e_msize E) by lia.
  unfold g_shr10VU. destruct (Z.eqb_spec s 0) as [|_]; [lia|].
  change c_DW with 19. rewrite g_pow10_correct by lia. rewrite ERow.
  set (D := 10 ^ s) in *. set (M := 10 ^ (19 - s)) in *.
  set (w := m x).
  pose proof (magic_asm_eq D mm pre post w Hpre Hpost) as EG. cbv zeta in EG.
  set (hr := g_magic_div (D, mm, pre, post) w) in *. cbn [fst snd].
  assert (Pre : exists ax' dx' r9' fl',
            steps 33 E prog_shr10VU (mkState (mkRegs ax bx cx dx si di r8 r9 r10 r11 r12 r13 r14) flags0 m fr 0) =
            Some (stR z x (Z.of_nat n) (upd fr 7 (mul_lo (snd hr) M)) D M mm ax' (fst hr) (post + 256 * pre) dx' 0 r9' r14 fl' m
                      (if Z.of_nat n <=? 0 then 53%nat else 33%nat))).
  { unfold stR.
    destruct Hpre as [-> | ->];
      [change (0 =? 0) with true in EG | change (1 =? 0) with false in EG]; cbv iota in EG.
    - do 4 eexists.
      step3 prog_shr10VU. rewrite F1.
      step3 prog_shr10VU.
      step3 prog_shr10VU. rewrite cond_l_sub by lia. rewrite (signed_small (Z.of_nat (S n))), (signed_small 1) by lia.
      destruct (Z.ltb_spec (Z.of_nat (S n)) 1); [lia|]. cbv iota.
      rewrite (sub_lo_small (Z.of_nat (S n)) 1 0) by lia. replace (Z.of_nat (S n) - 1 - 0) with (Z.of_nat n) by lia.
      step3 prog_shr10VU. rewrite F0.
      step3 prog_shr10VU. rewrite F3.
      step3 prog_shr10VU. rewrite F6.
      step3 prog_shr10VU.
      step3 prog_shr10VU. rewrite cond_eq_logic, land_diag_eq. destruct (Z.eqb_spec s 0); [lia|]. cbv iota.
      step3 prog_shr10VU.
      step3 prog_shr10VU. rewrite (wrap_small (e_tbase E)) by lia.
      step3 prog_shr10VU. rewrite (sub_lo_small 19 s 0) by lia. replace (19 - s - 0) with (19 - s) by lia.
      step3 prog_shr10VU. rewrite (wrap_small (-3 + (19 - s) + (19 - s) * 2)) by lia.
      step3 prog_shr10VU. rewrite (wrap_small (-3 + s + s * 2)) by lia.
      step3 prog_shr10VU. rewrite (load_tab E m _ (3 * (19 - s - 1))) by (try assumption; lia). cbv beta iota. rewrite EM. fold M.
      step3 prog_shr10VU. rewrite (load_tab E m _ (3 * (s - 1))) by (try assumption; lia). cbv beta iota. rewrite ED. fold D.
      step3 prog_shr10VU. rewrite (load_tab E m _ (3 * (s - 1) + 1)) by (try assumption; lia). cbv beta iota. rewrite Emm.
      step3 prog_shr10VU. rewrite (load_tab E m _ (3 * (s - 1) + 2)) by (try assumption; lia). cbv beta iota. rewrite Epp.
      rewrite (Z.mod_small (_ + 256 * post) 65536) by lia.
      step3 prog_shr10VU. ld x. fold w.
      step3 prog_shr10VU.
      step3 prog_shr10VU. rewrite (cnt_lo _ post) by lia. try change (0 =? 0) with true. lits2.
      step3 prog_shr10VU.
      step3 prog_shr10VU. rewrite ror16_swap by lia.
      step3 prog_shr10VU. rewrite (cnt_lo post _) by lia. destruct (Z.eqb_spec post 0); [lia|]. cbv iota.
      step3 prog_shr10VU.
      step3 prog_shr10VU.
      step3 prog_shr10VU.
      step3 prog_shr10VU.
      step3 prog_shr10VU.
      step3 prog_shr10VU.
      step3 prog_shr10VU.
      step3 prog_shr10VU.
      step3 prog_shr10VU.
      step3 prog_shr10VU. rewrite cond_ge_sub by lia. rewrite (signed_small (Z.of_nat n)), (signed_small 0) by lia.
      rewrite (mul_lo_comm D), (mul_lo_comm M).
      match type of EG with (?q, ?l) = _ => set (Q := q) in *; set (L := l) in * end.
      assert (EQ : Q = fst hr) by (rewrite <- EG; reflexivity).
      assert (EL : L = snd hr) by (rewrite <- EG; reflexivity).
      clearbody Q L. subst Q L.
      destruct (Z.of_nat n <=? 0); cbv beta iota; cbn [steps]; reflexivity.
    - do 4 eexists.
      step3 prog_shr10VU. rewrite F1.
      step3 prog_shr10VU.
      step3 prog_shr10VU. rewrite cond_l_sub by lia. rewrite (signed_small (Z.of_nat (S n))), (signed_small 1) by lia.
      destruct (Z.ltb_spec (Z.of_nat (S n)) 1); [lia|]. cbv iota.
      rewrite (sub_lo_small (Z.of_nat (S n)) 1 0) by lia. replace (Z.of_nat (S n) - 1 - 0) with (Z.of_nat n) by lia.
      step3 prog_shr10VU. rewrite F0.
      step3 prog_shr10VU. rewrite F3.
      step3 prog_shr10VU. rewrite F6.
      step3 prog_shr10VU.
      step3 prog_shr10VU. rewrite cond_eq_logic, land_diag_eq. destruct (Z.eqb_spec s 0); [lia|]. cbv iota.
      step3 prog_shr10VU.
      step3 prog_shr10VU. rewrite (wrap_small (e_tbase E)) by lia.
      step3 prog_shr10VU. rewrite (sub_lo_small 19 s 0) by lia. replace (19 - s - 0) with (19 - s) by lia.
      step3 prog_shr10VU. rewrite (wrap_small (-3 + (19 - s) + (19 - s) * 2)) by lia.
      step3 prog_shr10VU. rewrite (wrap_small (-3 + s + s * 2)) by lia.
      step3 prog_shr10VU. rewrite (load_tab E m _ (3 * (19 - s - 1))) by (try assumption; lia). cbv beta iota. rewrite EM. fold M.
      step3 prog_shr10VU. rewrite (load_tab E m _ (3 * (s - 1))) by (try assumption; lia). cbv beta iota. rewrite ED. fold D.
      step3 prog_shr10VU. rewrite (load_tab E m _ (3 * (s - 1) + 1)) by (try assumption; lia). cbv beta iota. rewrite Emm.
      step3 prog_shr10VU. rewrite (load_tab E m _ (3 * (s - 1) + 2)) by (try assumption; lia). cbv beta iota. rewrite Epp.
      rewrite (Z.mod_small (_ + 256 * post) 65536) by lia.
      step3 prog_shr10VU. ld x. fold w.
      step3 prog_shr10VU.
      step3 prog_shr10VU. rewrite (cnt_lo _ post) by lia. try change (0 =? 0) with true. lits2.
      step3 prog_shr10VU.
      step3 prog_shr10VU. rewrite ror16_swap by lia.
      step3 prog_shr10VU. rewrite (cnt_lo post _) by lia. destruct (Z.eqb_spec post 0); [lia|]. cbv iota.
      step3 prog_shr10VU.
      step3 prog_shr10VU.
      step3 prog_shr10VU.
      step3 prog_shr10VU.
      step3 prog_shr10VU.
      step3 prog_shr10VU.
      step3 prog_shr10VU.
      step3 prog_shr10VU.
      step3 prog_shr10VU.
      step3 prog_shr10VU. rewrite cond_ge_sub by lia. rewrite (signed_small (Z.of_nat n)), (signed_small 0) by lia.
      rewrite (mul_lo_comm D), (mul_lo_comm M).
      match type of EG with (?q, ?l) = _ => set (Q := q) in *; set (L := l) in * end.
      assert (EQ : Q = fst hr) by (rewrite <- EG; reflexivity).
      assert (EL : L = snd hr) by (rewrite <- EG; reflexivity).
      clearbody Q L. subst Q L.
      destruct (Z.of_nat n <=? 0); cbv beta iota; cbn [steps]; reflexivity.
  }
  destruct Pre as (a1 & d1 & e1 & fl1 & Pre).
  destruct n as [|n].
  - change (Z.of_nat 0 <=? 0) with true in Pre. cbv iota in Pre.
    eexists (33 + 2)%nat, _. split.
    + rewrite (steps_add 33 2 _ _ _ _ Pre). unfold stR.
      step3 prog_shr10VU. step3 prog_shr10VU. st z. reflexivity.
    + cbn [st_pc st_frame st_mem nth_error g_shr10VU_loop]. rewrite upd_same.
      replace (z + 1 - 1) with z by lia. repeat split.
  - destruct (Z.leb_spec (Z.of_nat (S n)) 0); [lia|].
    destruct (shr10VU_loop E z x (Z.of_nat (S n)) (upd fr 7 (mul_lo (snd hr) M)) D M mm post Hm Hpost pre n
                a1 d1 e1 r14 1 (fst hr) fl1 m Hpre Hx0 Hz0)
      as (N & a2 & d2 & e2 & f2 & fl2 & h2 & m2 & HS2 & G2); try lia.
    eexists (33 + (N + 2))%nat, _. split.
    + rewrite (steps_add 33 (N + 2) _ _ _ _ Pre). change 0 with (1 - 1) at 1. rewrite (steps_add N 2 _ _ _ _ HS2). unfold stR.
      step3 prog_shr10VU. step3 prog_shr10VU. st (z + Z.of_nat (S n)). reflexivity.
    + cbn [st_pc st_frame st_mem nth_error]. rewrite upd_same. repeat split. rewrite <- G2.
      cbn [g_shr10VU_loop]. replace (z + (Z.of_nat (S n) + 1) - 1) with (z + Z.of_nat (S n)) by lia. reflexivity.
Qed.

(* memory after copying the words i0..j-1 of x to z (ascending) *)
Definition cpa (z x : Z) (m0 : mem) (i0 j : Z) (m : mem) : Prop :=
  forall a, m a = if (z + i0 <=? a) && (a <? z + j) then m0 (x + (a - z)) else m0 a.

Lemma cpa_init z x m0 i0 : cpa z x m0 i0 i0 m0.
Proof. intros a. destruct (Z.leb_spec (z + i0) a); destruct (Z.ltb_spec a (z + i0)); cbn [andb]; try reflexivity; lia. Qed.

Lemma cpa_all z x m0 n m : cpa z x m0 0 (Z.of_nat n) m -> mem_eq m (wr m0 z (rd m0 x n)).
Proof.
  intros H a. rewrite H. rewrite Z.add_0_r.
  destruct (Z.leb_spec z a); destruct (Z.ltb_spec a (z + Z.of_nat n)); cbn [andb].
  - rewrite wr_inside by (rewrite rd_length; lia). rewrite nth_rd by lia. f_equal. lia.
  - rewrite wr_outside by (rewrite rd_length; lia). reflexivity.
  - rewrite wr_outside by (rewrite rd_length; lia). reflexivity.
  - rewrite wr_outside by (rewrite rd_length; lia). reflexivity.
Qed.

Lemma cpa_read z x m0 i0 j n m k : cpa z x m0 i0 j m -> asc_ok z x n -> 0 <= i0 -> j <= k < n -> m (x + k) = m0 (x + k).
Proof.
  intros H Ha Hi Hk. rewrite H. unfold asc_ok in Ha.
  destruct (Z.leb_spec (z + i0) (x + k)); destruct (Z.ltb_spec (x + k) (z + j)); cbn [andb]; try reflexivity; lia.
Qed.

Lemma cpa_step z x m0 i0 j n m : cpa z x m0 i0 j m -> asc_ok z x n -> 0 <= i0 <= j -> j < n ->
  cpa z x m0 i0 (j + 1) (upd m (z + j) (m (x + j))).
Proof.
  intros H Ha Hi Hj a. rewrite (cpa_read z x m0 i0 j n m j H Ha) by lia.
  unfold upd. destruct (Z.eqb_spec a (z + j)) as [-> | Hne].
  - destruct (Z.leb_spec (z + i0) (z + j)); destruct (Z.ltb_spec (z + j) (z + (j + 1))); cbn [andb]; try lia. f_equal. lia.
  - rewrite H.
    destruct (Z.leb_spec (z + i0) a); destruct (Z.ltb_spec a (z + j)); destruct (Z.ltb_spec a (z + (j + 1)));
      cbn [andb]; try reflexivity; lia.
Qed.

Lemma cpa_step4 z x m0 i0 j n m : cpa z x m0 i0 j m -> asc_ok z x n -> 0 <= i0 <= j -> j + 4 <= n ->
  cpa z x m0 i0 (j + 4)
    (upd (upd (upd (upd m (z + j) (m (x + j))) (z + j + 1) (m (x + j + 1))) (z + j + 2) (m (x + j + 2)))
         (z + j + 3) (m (x + j + 3))).
Proof.
  intros H Ha Hi Hn a.
  rewrite (cpa_read z x m0 i0 j n m j H Ha) by lia.
  replace (x + j + 1) with (x + (j + 1)) by lia. replace (x + j + 2) with (x + (j + 2)) by lia.
  replace (x + j + 3) with (x + (j + 3)) by lia.
  rewrite (cpa_read z x m0 i0 j n m (j + 1) H Ha) by lia.
  rewrite (cpa_read z x m0 i0 j n m (j + 2) H Ha) by lia.
  rewrite (cpa_read z x m0 i0 j n m (j + 3) H Ha) by lia.
  unfold upd.
  destruct (Z.eqb_spec a (z + j + 3)) as [-> | N3].
  { destruct (Z.leb_spec (z + i0) (z + j + 3)); destruct (Z.ltb_spec (z + j + 3) (z + (j + 4))); cbn [andb]; try lia. f_equal; lia. }
  destruct (Z.eqb_spec a (z + j + 2)) as [-> | N2].
  { destruct (Z.leb_spec (z + i0) (z + j + 2)); destruct (Z.ltb_spec (z + j + 2) (z + (j + 4))); cbn [andb]; try lia. f_equal; lia. }
  destruct (Z.eqb_spec a (z + j + 1)) as [-> | N1].
  { destruct (Z.leb_spec (z + i0) (z + j + 1)); destruct (Z.ltb_spec (z + j + 1) (z + (j + 4))); cbn [andb]; try lia. f_equal; lia. }
  destruct (Z.eqb_spec a (z + j)) as [-> | N0].
  { destruct (Z.leb_spec (z + i0) (z + j)); destruct (Z.ltb_spec (z + j) (z + (j + 4))); cbn [andb]; try lia. f_equal; lia. }
  rewrite H.
  destruct (Z.leb_spec (z + i0) a); destruct (Z.ltb_spec a (z + j)); destruct (Z.ltb_spec a (z + (j + 4)));
    cbn [andb]; try reflexivity; lia.
Qed.

Section CpyShr.
Variables (E : env) (z x n : Z) (fr : mem) (m0 : mem).
Variables (r9 r11 r12 r13 r14 : Z).
Hypothesis Hm : 8 * e_msize E <= W64.
Hypothesis Ha : asc_ok z x n.
Hypothesis Hx0 : 0 <= x.
Hypothesis Hz0 : 0 <= z.
Hypothesis Hx1 : x + n <= e_msize E.
Hypothesis Hz1 : z + n <= e_msize E.
Hypothesis HnH : n < HALF64.

Definition stY (ax bx cx dx si di : Z) (fl : flags) (m : mem) (pc : nat) : state :=
  mkState (mkRegs ax bx cx dx si di (8 * x) r9 (8 * z) r11 r12 r13 r14) fl m fr pc.

Lemma cpy_block ax bx cx dx j d fl m : 0 <= j -> j + 4 <= n -> 0 <= d < HALF64 ->
  exists ax' bx' cx' dx' fl',
    steps 12 E prog_shr10VU (stY ax bx cx dx j d fl m 69) =
    Some (stY ax' bx' cx' dx' (j + 4) (sub_lo d 4 0) fl'
              (upd (upd (upd (upd m (z + j) (m (x + j))) (z + j + 1) (m (x + j + 1))) (z + j + 2) (m (x + j + 2)))
                   (z + j + 3) (m (x + j + 3)))
              (if 4 <=? d then 69%nat else 81%nat)).
Proof.
  intros Hj Hjn Hd. bw. pose proof HALF64_ge. unfold stY. do 5 eexists.
  step3 prog_shr10VU.
  step3 prog_shr10VU. ld (x + j).
  step3 prog_shr10VU. ld (x + j + 1).
  step3 prog_shr10VU. ld (x + j + 2).
  step3 prog_shr10VU. ld (x + j + 3).
  step3 prog_shr10VU. st (z + j).
  step3 prog_shr10VU. st (z + j + 1).
  step3 prog_shr10VU. st (z + j + 2).
  step3 prog_shr10VU. st (z + j + 3).
  step3 prog_shr10VU. rewrite (add_lo_small j 4 0) by lia. replace (j + 4 + 0) with (j + 4) by lia.
  step3 prog_shr10VU.
  step3 prog_shr10VU. rewrite cond_ge_sub by lia. rewrite (signed_small 4), (signed_small d) by lia.
  destruct (4 <=? d); cbv beta iota; cbn [steps]; reflexivity.
Qed.

Lemma cpy_one ax bx cx dx j k fl m : 0 <= j < n -> 1 <= k < HALF64 ->
  exists ax' fl',
    steps 6 E prog_shr10VU (stY ax bx cx dx j k fl m 84) =
    Some (stY ax' bx cx dx (j + 1) (k - 1) fl' (upd m (z + j) (m (x + j)))
              (if 1 <? k then 84%nat else 90%nat)).
Proof.
  intros Hj Hk. bw. pose proof HALF64_ge. unfold stY. do 2 eexists.
  step3 prog_shr10VU.
  step3 prog_shr10VU. ld (x + j).
  step3 prog_shr10VU. st (z + j).
  step3 prog_shr10VU. rewrite (add_lo_small j 1 0) by lia. replace (j + 1 + 0) with (j + 1) by lia.
  step3 prog_shr10VU. rewrite (sub_lo_small k 1 0) by lia. replace (k - 1 - 0) with (k - 1) by lia.
  step3 prog_shr10VU. rewrite cond_g_sub by lia. rewrite (signed_small 1), (signed_small k) by lia.
  destruct (1 <? k); cbv beta iota; cbn [steps]; reflexivity.
Qed.

(* i0: first index copied; blocks while at least 4 words remain *)
Lemma cpy_CU i0 q : forall (r : nat) j ax bx cx dx fl m, (r < 4)%nat -> 0 <= i0 <= j ->
  j + 4 * Z.of_nat (S q) + Z.of_nat r = n -> cpa z x m0 i0 j m ->
  exists N ax' bx' cx' dx' fl' m',
    steps N E prog_shr10VU (stY ax bx cx dx j (4 * Z.of_nat q + Z.of_nat r) fl m 69) =
    Some (stY ax' bx' cx' dx' (n - Z.of_nat r) (sub_lo (Z.of_nat r) 4 0) fl' m' 81) /\ cpa z x m0 i0 (n - Z.of_nat r) m'.
Proof.
  induction q as [|q IH]; intros r j ax bx cx dx fl m Hr Hj Hn Hc.
  - destruct (cpy_block ax bx cx dx j (4 * Z.of_nat 0 + Z.of_nat r) fl m ltac:(lia) ltac:(lia) ltac:(lia))
      as (a1 & b1 & c1 & d1 & fl1 & H1).
    pose proof (cpa_step4 z x m0 i0 j n m Hc Ha Hj ltac:(lia)) as Hc1.
    destruct (Z.leb_spec 4 (4 * Z.of_nat 0 + Z.of_nat r)); [lia|].
    replace (4 * Z.of_nat 0 + Z.of_nat r) with (Z.of_nat r) in * by lia.
    replace (j + 4) with (n - Z.of_nat r) in * by lia.
    exists 12%nat, a1, b1, c1, d1, fl1. eexists. split; [exact H1 | exact Hc1].
  - destruct (cpy_block ax bx cx dx j (4 * Z.of_nat (S q) + Z.of_nat r) fl m ltac:(lia) ltac:(lia) ltac:(lia))
      as (a1 & b1 & c1 & d1 & fl1 & H1).
    pose proof (cpa_step4 z x m0 i0 j n m Hc Ha Hj ltac:(lia)) as Hc1.
    destruct (Z.leb_spec 4 (4 * Z.of_nat (S q) + Z.of_nat r)); [|lia].
    bw. rewrite (sub_lo_small (4 * Z.of_nat (S q) + Z.of_nat r) 4 0) in H1 by lia.
    replace (4 * Z.of_nat (S q) + Z.of_nat r - 4 - 0) with (4 * Z.of_nat q + Z.of_nat r) in H1 by lia.
    match type of H1 with _ = Some (stY _ _ _ _ _ _ _ ?mm _) =>
      destruct (IH r (j + 4) a1 b1 c1 d1 fl1 mm Hr ltac:(lia) ltac:(lia) Hc1)
        as (N & a2 & b2 & c2 & d2 & fl2 & m2 & HS2 & Hc2) end.
    exists (12 + N)%nat, a2, b2, c2, d2, fl2, m2. split; [|exact Hc2].
    rewrite (steps_add 12 N _ _ _ _ H1). exact HS2.
Qed.

Lemma cpy_CL i0 k : forall j ax bx cx dx fl m, 0 <= i0 <= j -> j + Z.of_nat (S k) = n -> cpa z x m0 i0 j m ->
  exists N ax' fl' m',
    steps N E prog_shr10VU (stY ax bx cx dx j (Z.of_nat (S k)) fl m 84) =
    Some (stY ax' bx cx dx n 0 fl' m' 90) /\ cpa z x m0 i0 n m'.
Proof.
  induction k as [|k IH]; intros j ax bx cx dx fl m Hj Hn Hc.
  - destruct (cpy_one ax bx cx dx j (Z.of_nat 1) fl m ltac:(lia) ltac:(lia)) as (a1 & fl1 & H1).
    pose proof (cpa_step z x m0 i0 j n m Hc Ha Hj ltac:(lia)) as Hc1.
    destruct (Z.ltb_spec 1 (Z.of_nat 1)); [lia|].
    replace (j + 1) with n in * by lia. change (Z.of_nat 1 - 1) with 0 in H1.
    exists 6%nat, a1, fl1. eexists. split; [exact H1 | exact Hc1].
  - destruct (cpy_one ax bx cx dx j (Z.of_nat (S (S k))) fl m ltac:(lia) ltac:(lia)) as (a1 & fl1 & H1).
    pose proof (cpa_step z x m0 i0 j n m Hc Ha Hj ltac:(lia)) as Hc1.
    destruct (Z.ltb_spec 1 (Z.of_nat (S (S k)))); [|lia].
    replace (Z.of_nat (S (S k)) - 1) with (Z.of_nat (S k)) in H1 by lia.
    match type of H1 with _ = Some (stY _ _ _ _ _ _ _ ?mm _) =>
      destruct (IH (j + 1) a1 bx cx dx fl1 mm ltac:(lia) ltac:(lia) Hc1) as (N & a2 & fl2 & m2 & HS2 & Hc2) end.
    exists (6 + N)%nat, a2, fl2, m2. split; [|exact Hc2].
    rewrite (steps_add 6 N _ _ _ _ H1). exact HS2.
Qed.

(* the whole of decCpy: copies the words i0..n-1, SI = i0, DI = n - i0 on entry *)
Lemma cpy_all (cnt : nat) i0 ax bx cx dx fl : 0 <= i0 -> i0 + Z.of_nat cnt = n ->
  exists N s', steps N E prog_shr10VU (stY ax bx cx dx i0 (Z.of_nat cnt) fl m0 66) = Some s' /\
               nth_error prog_shr10VU (st_pc s') = Some RET /\ st_frame s' = fr /\
               cpa z x m0 i0 n (st_mem s').
Proof.
  intros Hi0 Hcnt. bw. pose proof HALF64_ge.
  assert (Pre : steps 3 E prog_shr10VU (stY ax bx cx dx i0 (Z.of_nat cnt) fl m0 66) =
                Some (stY ax bx cx dx i0 (sub_lo (Z.of_nat cnt) 4 0) (flags_sub (Z.of_nat cnt) 4 0) m0
                          (if Z.of_nat cnt <? 4 then 81%nat else 69%nat))).
  { unfold stY. step3 prog_shr10VU. step3 prog_shr10VU.
    step3 prog_shr10VU. rewrite cond_l_sub by lia. rewrite (signed_small (Z.of_nat cnt)), (signed_small 4) by lia.
    destruct (Z.of_nat cnt <? 4); reflexivity. }
  assert (Tail : forall (r : nat) a b c d f m, (r < 4)%nat -> i0 <= n - Z.of_nat r -> cpa z x m0 i0 (n - Z.of_nat r) m ->
            exists N s', steps N E prog_shr10VU (stY a b c d (n - Z.of_nat r) (sub_lo (Z.of_nat r) 4 0) f m 81) = Some s' /\
                         nth_error prog_shr10VU (st_pc s') = Some RET /\ st_frame s' = fr /\
                         cpa z x m0 i0 n (st_mem s')).
  { intros r a b c d f m Hr Hrn Hc.
    assert (Esub : sub_lo (Z.of_nat r) 4 0 = Z.of_nat r - 4 + W64) by (rewrite sub_lo_under; lia).
    pose proof (sub_lo_range (Z.of_nat r) 4 0) as Hsr.
    assert (P2 : steps 3 E prog_shr10VU (stY a b c d (n - Z.of_nat r) (sub_lo (Z.of_nat r) 4 0) f m 81) =
                 Some (stY a b c d (n - Z.of_nat r) (Z.of_nat r) (flags_add (sub_lo (Z.of_nat r) 4 0) 4 0) m
                           (if Z.of_nat r <=? 0 then 90%nat else 84%nat))).
    { unfold stY. step3 prog_shr10VU. step3 prog_shr10VU.
      replace (add_lo (sub_lo (Z.of_nat r) 4 0) 4 0) with (Z.of_nat r) by (rewrite Esub, add_lo_over; lia).
      step3 prog_shr10VU. rewrite cond_le_add by lia.
      replace (signed (sub_lo (Z.of_nat r) 4 0)) with (Z.of_nat r - 4)
        by (rewrite Esub; destruct (signed_cases (Z.of_nat r - 4 + W64)) as [[? ?] | [? ->]]; lia).
      rewrite (signed_small 4) by lia. replace (Z.of_nat r - 4 + 4) with (Z.of_nat r) by lia.
      destruct (Z.of_nat r <=? 0); reflexivity. }
    destruct r as [|r].
    - change (Z.of_nat 0 <=? 0) with true in P2. cbv iota in P2.
      eexists (3 + 1)%nat, _. split.
      + rewrite (steps_add 3 1 _ _ _ _ P2). unfold stY. step3 prog_shr10VU. reflexivity.
      + cbn [st_pc st_frame st_mem nth_error]. repeat split. replace (n - Z.of_nat 0) with n in Hc by lia. exact Hc.
    - destruct (Z.leb_spec (Z.of_nat (S r)) 0); [lia|].
      destruct (cpy_CL i0 r (n - Z.of_nat (S r)) a b c d (flags_add (sub_lo (Z.of_nat (S r)) 4 0) 4 0) m
                  ltac:(lia) ltac:(lia) Hc) as (N & a2 & fl2 & m2 & HS2 & Hc2).
      eexists (3 + (N + 1))%nat, _. split.
      + rewrite (steps_add 3 (N + 1) _ _ _ _ P2). rewrite (steps_add N 1 _ _ _ _ HS2).
        unfold stY. step3 prog_shr10VU. reflexivity.
      + cbn [st_pc st_frame st_mem nth_error]. repeat split. exact Hc2. }
  destruct (Z.ltb_spec (Z.of_nat cnt) 4) as [Hlt | Hge].
  - destruct (Tail cnt ax bx cx dx (flags_sub (Z.of_nat cnt) 4 0) m0) as (N & s' & HS & HR & HF & HC); try lia.
    { replace (n - Z.of_nat cnt) with i0 by lia. apply cpa_init. }
    exists (3 + N)%nat, s'. split; [|auto]. rewrite (steps_add 3 N _ _ _ _ Pre).
    replace (n - Z.of_nat cnt) with i0 in HS by lia. exact HS.
  - set (q := (cnt / 4 - 1)%nat). set (r := (cnt mod 4)%nat).
    assert (Enn : cnt = (4 * S q + r)%nat).
    { unfold q, r. pose proof (Nat.div_mod cnt 4 ltac:(lia)).
      assert (1 <= cnt / 4)%nat by (apply Nat.div_le_lower_bound; lia). lia. }
    assert (Hr : (r < 4)%nat) by (unfold r; apply Nat.mod_upper_bound; lia).
    rewrite (sub_lo_small (Z.of_nat cnt) 4 0) in Pre by lia.
    replace (Z.of_nat cnt - 4 - 0) with (4 * Z.of_nat q + Z.of_nat r) in Pre by lia.
    destruct (cpy_CU i0 q r i0 ax bx cx dx (flags_sub (Z.of_nat cnt) 4 0) m0 Hr ltac:(lia) ltac:(lia) (cpa_init z x m0 i0))
      as (N1 & a1 & b1 & c1 & d1 & fl1 & m1 & HS1 & Hc1).
    destruct (Tail r a1 b1 c1 d1 fl1 m1 Hr ltac:(lia) Hc1) as (N2 & s' & HS2 & HR & HF & HC).
    exists (3 + (N1 + N2))%nat, s'. split; [|auto].
    rewrite (steps_add 3 (N1 + N2) _ _ _ _ Pre). rewrite (steps_add N1 N2 _ _ _ _ HS1). exact HS2.
Qed.
End CpyShr.

Theorem asm_shr10VU_correct E n z x s rs m :
  tab_ok E -> 8 * e_msize E <= W64 ->
  0 <= z -> z + Z.of_nat n <= e_msize E -> 0 <= x -> x + Z.of_nat n <= e_msize E ->
  asc_ok z x (Z.of_nat n) -> 0 <= s <= 18 -> words_ok (rd m x n) = true ->
  exists N s', (forall f, run (N + S f) E prog_shr10VU
                             (init_state rs (slice z n ++ slice x n ++ [s]) m) = Some s') /\
               st_frame s' 7 = snd (spec_shr10VU (rd m x n) s) /\
               mem_eq (st_mem s') (wr m z (fst (spec_shr10VU (rd m x n) s))).
Proof.
  intros Htab Hm Hz0 Hz1 Hx0 Hx1 Ha Hs Hw. bw. pose proof HALF64_ge.
  destruct (g_shr10VU_correct n z x s m Ha Hs Hw) as [Gr Gm].
  assert (Goal' : exists N s', steps N E prog_shr10VU (init_state rs (slice z n ++ slice x n ++ [s]) m) = Some s' /\
                    nth_error prog_shr10VU (st_pc s') = Some RET /\
                    st_frame s' 7 = fst (g_shr10VU n z x s m) /\
                    mem_eq (st_mem s') (snd (g_shr10VU n z x s m))).
  { destruct n as [|n].
    - destruct rs as [ax bx cx dx si di r8 r9 r10 r11 r12 r13 r14]. unfold init_state.
      set (fr := frame_of (slice z 0 ++ slice x 0 ++ [s])).
      assert (F1 : fr 1 = 0) by reflexivity. clearbody fr.
      eexists 5%nat, _. split.
      + step3 prog_shr10VU. rewrite F1. step3 prog_shr10VU.
        step3 prog_shr10VU. rewrite cond_l_sub by lia. rewrite (signed_small 0), (signed_small 1) by lia.
        change (0 <? 1) with true. cbv iota.
        step3 prog_shr10VU. step3 prog_shr10VU. reflexivity.
      + cbn [st_pc st_frame st_mem nth_error]. rewrite upd_same. unfold g_shr10VU.
        destruct (s =? 0); cbn [fst snd g_copy rd wr]; repeat split; intro; reflexivity.
    - destruct (Z.eq_dec s 0) as [-> | Hs0].
      + destruct rs as [ax bx cx dx si di r8 r9 r10 r11 r12 r13 r14]. unfold init_state.
        set (fr := frame_of (slice z (S n) ++ slice x (S n) ++ [0])).
        assert (F0 : fr 0 = 8 * z) by reflexivity. assert (F1 : fr 1 = Z.of_nat (S n)) by reflexivity.
        assert (F3 : fr 3 = 8 * x) by reflexivity. assert (F6 : fr 6 = 0) by reflexivity. clearbody fr.
        assert (Pre : steps 11 E prog_shr10VU (mkState (mkRegs ax bx cx dx si di r8 r9 r10 r11 r12 r13 r14) flags0 m fr 0) =
                  Some (mkState (mkRegs ax 0 cx dx si (Z.of_nat n) (8 * x) r9 (8 * z) r11 r12 r13 r14)
                          (flags_sub (8 * z) (8 * x) 0) m fr (if 8 * z =? 8 * x then 56%nat else 62%nat))).
        { step3 prog_shr10VU. rewrite F1.
          step3 prog_shr10VU.
          step3 prog_shr10VU. rewrite cond_l_sub by lia. rewrite (signed_small (Z.of_nat (S n))), (signed_small 1) by lia.
          destruct (Z.ltb_spec (Z.of_nat (S n)) 1); [lia|]. cbv iota.
          rewrite (sub_lo_small (Z.of_nat (S n)) 1 0) by lia. replace (Z.of_nat (S n) - 1 - 0) with (Z.of_nat n) by lia.
          step3 prog_shr10VU. rewrite F0.
          step3 prog_shr10VU. rewrite F3.
          step3 prog_shr10VU. rewrite F6.
          step3 prog_shr10VU.
          step3 prog_shr10VU. rewrite cond_eq_logic, land_diag_eq. change (0 =? 0) with true. cbv iota.
          step3 prog_shr10VU.
          step3 prog_shr10VU.
          step3 prog_shr10VU. rewrite cond_eq_sub by lia.
          destruct (8 * z =? 8 * x); reflexivity. }
        unfold g_shr10VU. change (0 =? 0) with true. cbv iota. cbn [fst snd].
        destruct (Z.eqb_spec (8 * z) (8 * x)) as [Ezx | Nzx].
        * assert (z = x) by lia. subst z.
          eexists (11 + 2)%nat, _. split.
          -- rewrite (steps_add 11 2 _ _ _ _ Pre). step3 prog_shr10VU. step3 prog_shr10VU. reflexivity.
          -- cbn [st_pc st_frame st_mem nth_error]. rewrite upd_same. repeat split. unfold g_copy. apply wr_rd_self.
        * assert (P2 : steps 4 E prog_shr10VU
                    (mkState (mkRegs ax 0 cx dx si (Z.of_nat n) (8 * x) r9 (8 * z) r11 r12 r13 r14)
                          (flags_sub (8 * z) (8 * x) 0) m fr 62) =
                  Some (stY z x (upd fr 7 0) r9 r11 r12 r13 r14 ax 0 cx dx 0 (Z.of_nat (S n))
                            (flags_logic 0) m 66)).
          { unfold stY. step3 prog_shr10VU. rewrite (add_lo_small (Z.of_nat n) 1 0) by lia.
            replace (Z.of_nat n + 1 + 0) with (Z.of_nat (S n)) by lia.
            step3 prog_shr10VU. rewrite Z.lxor_nilpotent.
            step3 prog_shr10VU. step3 prog_shr10VU. reflexivity. }
          destruct (cpy_all E z x (Z.of_nat (S n)) (upd fr 7 0) m r9 r11 r12 r13 r14 Hm Ha Hx0 Hz0 Hx1 Hz1 ltac:(lia)
                      (S n) 0 ax 0 cx dx (flags_logic 0) ltac:(lia) ltac:(lia))
            as (N & s' & HS & HR & HF & HC).
          exists (11 + (4 + N))%nat, s'. split; [|split; [exact HR|split]].
          -- rewrite (steps_add 11 (4 + N) _ _ _ _ Pre). rewrite (steps_add 4 N _ _ _ _ P2). exact HS.
          -- rewrite HF. apply upd_same.
          -- unfold g_copy. apply cpa_all. exact HC.
      + destruct (asm_shr10VU_shift E n z x s rs m Htab Hm Hz0 Hz1 Hx0 Hx1 ltac:(lia)) as (N & s' & HS & HR & HF & HM).
        exists N, s'. split; [exact HS|]. split; [exact HR|]. split; [exact HF|]. rewrite HM. intro; reflexivity. }
  destruct Goal' as (N & s' & HS & HR & HF & HM).
  exists N, s'. split.
  - intros f. rewrite (run_steps N (S f) _ _ _ _ HS). now apply run_ret.
  - split; [rewrite HF; exact Gr|]. intros a. rewrite HM. apply Gm.
Qed.
