(* L1/AsmProofsVW.v — the generated programs of add10VW and sub10VW (first word
   with the 2^64 hardware carry folded into the decimal carry, 4x unrolled
   carry-propagation loop, single-word loop, and the copy of decCpy they
   tail-jump to once the carry is absorbed) return the specification's result
   for all lengths, contents and admissible placements.
   Proofs only; the auxiliary definitions rw/rip (rws/rips) name the word-by-word
   carry (borrow) propagation that the assembly performs: unlike the Go loop it
   does not stop at the first absorbed carry inside a block, it keeps adding a
   zero carry, and the copy loop of decCpy is the same propagation with carry 0. *)
From Coq Require Import ZArith List Bool Lia.
From Dec Require Import Base.Words Base.WordsProofs L1.U64 L1.U64Proofs L1.X86 L1.KernSpec L1.KernG L1.KernGScalar L1.KernGProofs L1.KernAsm L1.AsmProofs L1.AsmProofsVV L1.AsmProofsSh gen.Consts gen.Tables gen.AsmProgs.
Import ListNotations.
Open Scope Z_scope.

(* ================================================================ models *)
(* one word of x + carry *)
Definition rw (xi c : Z) : Z * Z := if xi + c <? B then (xi + c, 0) else (0, 1).
Fixpoint rip (k : nat) (z x i c : Z) (m : mem) : Z * mem :=
  match k with
  | O => (c, m)
  | S k' => rip k' z x (i + 1) (snd (rw (m (x + i)) c)) (upd m (z + i) (fst (rw (m (x + i)) c)))
  end.

(* one word of x - borrow *)
Definition rws (xi c : Z) : Z * Z := if xi - c <? 0 then (xi - c + B, 1) else (xi - c, 0).
Fixpoint rips (k : nat) (z x i c : Z) (m : mem) : Z * mem :=
  match k with
  | O => (c, m)
  | S k' => rips k' z x (i + 1) (snd (rws (m (x + i)) c)) (upd m (z + i) (fst (rws (m (x + i)) c)))
  end.

Lemma rw_carry xi c : 0 <= snd (rw xi c) <= 1.
Proof. unfold rw. destruct (xi + c <? B); cbn [snd]; lia. Qed.
Lemma rws_carry xi c : 0 <= snd (rws xi c) <= 1.
Proof. unfold rws. destruct (xi - c <? 0); cbn [snd]; lia. Qed.
Lemma rw_0 xi : 0 <= xi < B -> rw xi 0 = (xi, 0).
Proof. intros H. unfold rw. rewrite Z.add_0_r. destruct (Z.ltb_spec xi B); [reflexivity | lia]. Qed.
Lemma rws_0 xi : 0 <= xi < B -> rws xi 0 = (xi, 0).
Proof. intros H. unfold rws. rewrite Z.sub_0_r. destruct (Z.ltb_spec xi 0); [lia | reflexivity]. Qed.

Lemma rip_S k z x i c m :
  rip (S k) z x i c m = rip k z x (i + 1) (snd (rw (m (x + i)) c)) (upd m (z + i) (fst (rw (m (x + i)) c))).
Proof. reflexivity. Qed.
Lemma rips_S k z x i c m :
  rips (S k) z x i c m = rips k z x (i + 1) (snd (rws (m (x + i)) c)) (upd m (z + i) (fst (rws (m (x + i)) c))).
Proof. reflexivity. Qed.

Section RipSpec.
Variables (n z x : Z).
Hypothesis Hx : asc_ok z x n.

Lemma rip_spec k : forall i c m, 0 <= i -> i + Z.of_nat k <= n -> 0 <= c <= 1 ->
  words_ok (rd m (x + i) k) = true ->
  let N := val (rd m (x + i) k) + c in
  fst (rip k z x i c m) = N / B ^ Z.of_nat k /\
  mem_eq (snd (rip k z x i c m)) (wr m (z + i) (to_words k N)).
Proof.
  induction k as [|k IH]; intros i c m Hi Hik Hc Hwx N.
  - cbn [rip fst snd to_words wr]. subst N. cbn [rd val]. rewrite Z.div_1_r. split; [lia | intro; reflexivity].
  - apply words_ok_rd_S in Hwx as [Hxi Hwx]. pose proof B_pos as HB.
    rewrite rip_S.
    assert (Ex : forall s, rd (upd m (z + i) s) (x + i + 1) k = rd m (x + i + 1) k)
      by (intros; apply rd_upd_outside; unfold asc_ok in Hx; lia).
    subst N. rewrite rd_S. cbn [val]. set (X := val (rd m (x + i + 1) k)) in *.
    destruct (div_mod_step (m (x + i) + c) X) as [Ed Em].
    replace (m (x + i) + B * X + c) with (m (x + i) + c + B * X) by ring.
    rewrite pow_S_div, to_words_S, Ed, Em.
    subst X. replace (x + i + 1) with (x + (i + 1)) in * by lia.
    unfold rw. destruct (Z.ltb_spec (m (x + i) + c) B) as [Hlt | Hge]; cbn [fst snd].
    + rewrite (Z.mod_small (m (x + i) + c) B), (Z.div_small (m (x + i) + c) B) by lia. rewrite Z.add_0_l.
      destruct (IH (i + 1) 0 (upd m (z + i) (m (x + i) + c))) as [IHc IHm]; try lia; try (rewrite Ex; assumption).
      rewrite Ex, Z.add_0_r in IHc, IHm.
      split; [exact IHc|]. cbn [wr]. replace (z + i + 1) with (z + (i + 1)) by lia. exact IHm.
    + assert (Es : m (x + i) + c = B) by lia. rewrite Es, Z_mod_same_full, Z_div_same_full by lia.
      destruct (IH (i + 1) 1 (upd m (z + i) 0)) as [IHc IHm]; try lia; try (rewrite Ex; assumption).
      rewrite Ex in IHc, IHm.
      replace (1 + val (rd m (x + (i + 1)) k)) with (val (rd m (x + (i + 1)) k) + 1) by ring.
      split; [exact IHc|]. cbn [wr]. replace (z + i + 1) with (z + (i + 1)) by lia. exact IHm.
Qed.

Lemma rips_spec k : forall i c m, 0 <= i -> i + Z.of_nat k <= n -> 0 <= c < B ->
  words_ok (rd m (x + i) k) = true ->
  let N := val (rd m (x + i) k) - c in
  fst (rips k z x i c m) = - (N / B ^ Z.of_nat k) /\
  mem_eq (snd (rips k z x i c m)) (wr m (z + i) (to_words k N)).
Proof.
  induction k as [|k IH]; intros i c m Hi Hik Hc Hwx N.
  - cbn [rips fst snd to_words wr]. subst N. cbn [rd val]. rewrite Z.div_1_r. split; [lia | intro; reflexivity].
  - apply words_ok_rd_S in Hwx as [Hxi Hwx]. pose proof B_pos as HB.
    rewrite rips_S.
    assert (Ex : forall s, rd (upd m (z + i) s) (x + i + 1) k = rd m (x + i + 1) k)
      by (intros; apply rd_upd_outside; unfold asc_ok in Hx; lia).
    subst N. rewrite rd_S. cbn [val]. set (X := val (rd m (x + i + 1) k)) in *.
    destruct (div_mod_step (m (x + i) - c) X) as [Ed Em].
    replace (m (x + i) + B * X - c) with (m (x + i) - c + B * X) by ring.
    rewrite pow_S_div, to_words_S, Ed, Em.
    subst X. replace (x + i + 1) with (x + (i + 1)) in * by lia.
    unfold rws. destruct (Z.ltb_spec (m (x + i) - c) 0) as [Hlt | Hge]; cbn [fst snd].
    + replace ((m (x + i) - c) mod B) with (m (x + i) - c + B) by (apply Z.mod_unique with (q := -1); lia).
      replace ((m (x + i) - c) / B) with (-1) by (apply Z.div_unique with (r := m (x + i) - c + B); lia).
      destruct (IH (i + 1) 1 (upd m (z + i) (m (x + i) - c + B))) as [IHc IHm]; try lia; try (rewrite Ex; assumption).
      rewrite Ex in IHc, IHm.
      replace (-1 + val (rd m (x + (i + 1)) k)) with (val (rd m (x + (i + 1)) k) - 1) by ring.
      split; [exact IHc|]. cbn [wr]. replace (z + i + 1) with (z + (i + 1)) by lia. exact IHm.
    + rewrite (Z.mod_small (m (x + i) - c) B), (Z.div_small (m (x + i) - c) B) by lia. rewrite Z.add_0_l.
      destruct (IH (i + 1) 0 (upd m (z + i) (m (x + i) - c))) as [IHc IHm]; try lia; try (rewrite Ex; assumption).
      rewrite Ex, Z.sub_0_r in IHc, IHm.
      split; [exact IHc|]. cbn [wr]. replace (z + i + 1) with (z + (i + 1)) by lia. exact IHm.
Qed.
End RipSpec.

(* ================================================================ shared *)
(* machine states of both programs: R8 = &x[0], R10 = &z[0], SI = index, DI = count *)
Definition stV (z x r9 r12 r13 r14 : Z) (fr : mem) (r11 ax bx cx dx si di : Z)
    (fl : flags) (m : mem) (pc : nat) : state :=
  mkState (mkRegs ax bx cx dx si di (8 * x) r9 (8 * z) r11 r12 r13 r14) fl m fr pc.

(* the source words from index i on are decimal words *)
Definition wfrom (x n : Z) (m : mem) (i : Z) : Prop := forall j, i <= j < n -> 0 <= m (x + j) < B.

Lemma wfrom_rd x n m k : forall i, wfrom x n m i -> 0 <= i -> i + Z.of_nat k <= n ->
  words_ok (rd m (x + i) k) = true.
Proof.
  induction k as [|k IH]; intros i Hw Hi Hk; [reflexivity|].
  apply words_ok_rd_S. split; [apply Hw; lia|].
  replace (x + i + 1) with (x + (i + 1)) by lia. apply IH; [|lia|lia].
  intros j Hj. apply Hw. lia.
Qed.

Lemma wfrom_upd z x n m i w : asc_ok z x n -> 0 <= i -> wfrom x n m i -> wfrom x n (upd m (z + i) w) (i + 1).
Proof. intros Ha Hi Hw j Hj. unfold asc_ok in Ha. rewrite upd_other by lia. apply Hw; lia. Qed.

Lemma wfrom_upd4 z x n m i w0 w1 w2 w3 : asc_ok z x n -> 0 <= i -> wfrom x n m i ->
  wfrom x n (upd (upd (upd (upd m (z + i) w0) (z + i + 1) w1) (z + i + 2) w2) (z + i + 3) w3) (i + 4).
Proof. intros Ha Hi Hw j Hj. unfold asc_ok in Ha. rewrite !upd_other by lia. apply Hw; lia. Qed.

Lemma cpa_self x m i n : cpa x x m i n m.
Proof.
  intros a. destruct ((x + i <=? a) && (a <? x + n)); [f_equal; lia | reflexivity].
Qed.

Lemma cpa_wr z x n m i k m' : 0 <= i -> i + Z.of_nat k = n -> cpa z x m i n m' ->
  mem_eq m' (wr m (z + i) (rd m (x + i) k)).
Proof.
  intros Hi Hk Hc a. rewrite Hc.
  destruct (Z.leb_spec (z + i) a); destruct (Z.ltb_spec a (z + n)); cbn [andb].
  - rewrite wr_inside by (rewrite rd_length; lia). rewrite nth_rd by lia. f_equal. lia.
  - rewrite wr_outside by (rewrite rd_length; lia). reflexivity.
  - rewrite wr_outside by (rewrite rd_length; lia). reflexivity.
  - rewrite wr_outside by (rewrite rd_length; lia). reflexivity.
Qed.

(* copying = propagating a zero carry / borrow *)
Lemma cpa_rip z x n m i k m' : asc_ok z x n -> wfrom x n m i -> 0 <= i -> i + Z.of_nat k = n ->
  cpa z x m i n m' -> fst (rip k z x i 0 m) = 0 /\ mem_eq m' (snd (rip k z x i 0 m)).
Proof.
  intros Ha Hw Hi Hk Hc.
  pose proof (wfrom_rd x n m k i Hw Hi ltac:(lia)) as Wk.
  destruct (rip_spec n z x Ha k i 0 m Hi ltac:(lia) ltac:(lia) Wk) as [Ec Em].
  rewrite Z.add_0_r in Ec, Em. rewrite val_rd_small in Ec by assumption. rewrite to_words_rd in Em by assumption.
  split; [exact Ec|]. intros a. rewrite Em. apply (cpa_wr z x n m i k m' Hi Hk Hc).
Qed.

Lemma cpa_rips z x n m i k m' : asc_ok z x n -> wfrom x n m i -> 0 <= i -> i + Z.of_nat k = n ->
  cpa z x m i n m' -> fst (rips k z x i 0 m) = 0 /\ mem_eq m' (snd (rips k z x i 0 m)).
Proof.
  intros Ha Hw Hi Hk Hc. pose proof B_pos.
  pose proof (wfrom_rd x n m k i Hw Hi ltac:(lia)) as Wk.
  destruct (rips_spec n z x Ha k i 0 m Hi ltac:(lia) ltac:(lia) Wk) as [Ec Em].
  rewrite Z.sub_0_r in Ec, Em. rewrite val_rd_small in Ec by assumption. rewrite to_words_rd in Em by assumption.
  split; [exact Ec|]. intros a. rewrite Em. apply (cpa_wr z x n m i k m' Hi Hk Hc).
Qed.

Lemma cond_l_mask c : 0 <= c <= 1 ->
  cond_holds CondL (flags_logic (Z.land (neg64 (1 - c)) (neg64 (1 - c)))) = Some (c =? 0).
Proof.
  intros H. w64. rewrite Z.land_diag. unfold cond_holds, flags_logic, fSF, fOF, sf_of, msb.
  assert (c = 0 \/ c = 1) as [-> | ->] by lia.
  - change (1 - 0) with 1. rewrite neg64_1. destruct (Z.leb_spec HALF64 MAX64); [reflexivity | lia].
  - change (1 - 1) with 0. rewrite neg64_0. destruct (Z.leb_spec HALF64 0); [lia | reflexivity].
Qed.

(* ---------------------------------------------------------------- decCpy as linked into prog_add10VW *)
Section CpyA.
Variables (E : env) (z x n : Z) (fr : mem) (m0 : mem).
Variables (r9 r11 r12 r13 r14 : Z).
Hypothesis Hm : 8 * e_msize E <= W64.
Hypothesis Ha : asc_ok z x n.
Hypothesis Hx0 : 0 <= x.
Hypothesis Hz0 : 0 <= z.
Hypothesis Hx1 : x + n <= e_msize E.
Hypothesis Hz1 : z + n <= e_msize E.
Hypothesis HnH : n < HALF64.

Notation stY := (stV z x r9 r12 r13 r14 fr r11).

Lemma cpyA_block ax bx cx dx j d fl m : 0 <= j -> j + 4 <= n -> 0 <= d < HALF64 ->
  exists ax' bx' cx' dx' fl',
    steps 12 E prog_add10VW (stY ax bx cx dx j d fl m 84) =
    Some (stY ax' bx' cx' dx' (j + 4) (sub_lo d 4 0) fl'
              (upd (upd (upd (upd m (z + j) (m (x + j))) (z + j + 1) (m (x + j + 1))) (z + j + 2) (m (x + j + 2)))
                   (z + j + 3) (m (x + j + 3)))
              (if 4 <=? d then 84%nat else 96%nat)).
Proof.
  intros Hj Hjn Hd. bw. pose proof HALF64_ge. unfold stV. do 5 eexists.
  step3 prog_add10VW.
  step3 prog_add10VW. ld (x + j).
  step3 prog_add10VW. ld (x + j + 1).
  step3 prog_add10VW. ld (x + j + 2).
  step3 prog_add10VW. ld (x + j + 3).
  step3 prog_add10VW. st (z + j).
  step3 prog_add10VW. st (z + j + 1).
  step3 prog_add10VW. st (z + j + 2).
  step3 prog_add10VW. st (z + j + 3).
  step3 prog_add10VW. rewrite (add_lo_small j 4 0) by lia. replace (j + 4 + 0) with (j + 4) by lia.
  step3 prog_add10VW.
  step3 prog_add10VW. rewrite cond_ge_sub by lia. rewrite (signed_small 4), (signed_small d) by lia.
  destruct (4 <=? d); cbv beta iota; cbn [steps]; reflexivity.
Qed.

Lemma cpyA_one ax bx cx dx j k fl m : 0 <= j < n -> 1 <= k < HALF64 ->
  exists ax' fl',
    steps 6 E prog_add10VW (stY ax bx cx dx j k fl m 99) =
    Some (stY ax' bx cx dx (j + 1) (k - 1) fl' (upd m (z + j) (m (x + j)))
              (if 1 <? k then 99%nat else 105%nat)).
Proof.
  intros Hj Hk. bw. pose proof HALF64_ge. unfold stV. do 2 eexists.
  step3 prog_add10VW.
  step3 prog_add10VW. ld (x + j).
  step3 prog_add10VW. st (z + j).
  step3 prog_add10VW. rewrite (add_lo_small j 1 0) by lia. replace (j + 1 + 0) with (j + 1) by lia.
  step3 prog_add10VW. rewrite (sub_lo_small k 1 0) by lia. replace (k - 1 - 0) with (k - 1) by lia.
  step3 prog_add10VW. rewrite cond_g_sub by lia. rewrite (signed_small 1), (signed_small k) by lia.
  destruct (1 <? k); cbv beta iota; cbn [steps]; reflexivity.
Qed.

Lemma cpyA_CU i0 q : forall (r : nat) j ax bx cx dx fl m, (r < 4)%nat -> 0 <= i0 <= j ->
  j + 4 * Z.of_nat (S q) + Z.of_nat r = n -> cpa z x m0 i0 j m ->
  exists N ax' bx' cx' dx' fl' m',
    steps N E prog_add10VW (stY ax bx cx dx j (4 * Z.of_nat q + Z.of_nat r) fl m 84) =
    Some (stY ax' bx' cx' dx' (n - Z.of_nat r) (sub_lo (Z.of_nat r) 4 0) fl' m' 96) /\ cpa z x m0 i0 (n - Z.of_nat r) m'.
Proof.
  induction q as [|q IH]; intros r j ax bx cx dx fl m Hr Hj Hn Hc.
  - destruct (cpyA_block ax bx cx dx j (4 * Z.of_nat 0 + Z.of_nat r) fl m ltac:(lia) ltac:(lia) ltac:(lia))
      as (a1 & b1 & c1 & d1 & fl1 & H1).
    pose proof (cpa_step4 z x m0 i0 j n m Hc Ha Hj ltac:(lia)) as Hc1.
    destruct (Z.leb_spec 4 (4 * Z.of_nat 0 + Z.of_nat r)); [lia|].
    replace (4 * Z.of_nat 0 + Z.of_nat r) with (Z.of_nat r) in * by lia.
    replace (j + 4) with (n - Z.of_nat r) in * by lia.
    exists 12%nat, a1, b1, c1, d1, fl1. eexists. split; [exact H1 | exact Hc1].
  - destruct (cpyA_block ax bx cx dx j (4 * Z.of_nat (S q) + Z.of_nat r) fl m ltac:(lia) ltac:(lia) ltac:(lia))
      as (a1 & b1 & c1 & d1 & fl1 & H1).
    pose proof (cpa_step4 z x m0 i0 j n m Hc Ha Hj ltac:(lia)) as Hc1.
    destruct (Z.leb_spec 4 (4 * Z.of_nat (S q) + Z.of_nat r)); [|lia].
    bw. rewrite (sub_lo_small (4 * Z.of_nat (S q) + Z.of_nat r) 4 0) in H1 by lia.
    replace (4 * Z.of_nat (S q) + Z.of_nat r - 4 - 0) with (4 * Z.of_nat q + Z.of_nat r) in H1 by lia.
    match type of H1 with _ = Some (stV _ _ _ _ _ _ _ _ _ _ _ _ _ _ _ ?mm _) =>
      destruct (IH r (j + 4) a1 b1 c1 d1 fl1 mm Hr ltac:(lia) ltac:(lia) Hc1)
        as (N & a2 & b2 & c2 & d2 & fl2 & m2 & HS2 & Hc2) end.
    exists (12 + N)%nat, a2, b2, c2, d2, fl2, m2. split; [|exact Hc2].
    rewrite (steps_add 12 N _ _ _ _ H1). exact HS2.
Qed.

Lemma cpyA_CL i0 k : forall j ax bx cx dx fl m, 0 <= i0 <= j -> j + Z.of_nat (S k) = n -> cpa z x m0 i0 j m ->
  exists N ax' fl' m',
    steps N E prog_add10VW (stY ax bx cx dx j (Z.of_nat (S k)) fl m 99) =
    Some (stY ax' bx cx dx n 0 fl' m' 105) /\ cpa z x m0 i0 n m'.
Proof.
  induction k as [|k IH]; intros j ax bx cx dx fl m Hj Hn Hc.
  - destruct (cpyA_one ax bx cx dx j (Z.of_nat 1) fl m ltac:(lia) ltac:(lia)) as (a1 & fl1 & H1).
    pose proof (cpa_step z x m0 i0 j n m Hc Ha Hj ltac:(lia)) as Hc1.
    destruct (Z.ltb_spec 1 (Z.of_nat 1)); [lia|].
    replace (j + 1) with n in * by lia. change (Z.of_nat 1 - 1) with 0 in H1.
    exists 6%nat, a1, fl1. eexists. split; [exact H1 | exact Hc1].
  - destruct (cpyA_one ax bx cx dx j (Z.of_nat (S (S k))) fl m ltac:(lia) ltac:(lia)) as (a1 & fl1 & H1).
    pose proof (cpa_step z x m0 i0 j n m Hc Ha Hj ltac:(lia)) as Hc1.
    destruct (Z.ltb_spec 1 (Z.of_nat (S (S k)))); [|lia].
    replace (Z.of_nat (S (S k)) - 1) with (Z.of_nat (S k)) in H1 by lia.
    match type of H1 with _ = Some (stV _ _ _ _ _ _ _ _ _ _ _ _ _ _ _ ?mm _) =>
      destruct (IH (j + 1) a1 bx cx dx fl1 mm ltac:(lia) ltac:(lia) Hc1) as (N & a2 & fl2 & m2 & HS2 & Hc2) end.
    exists (6 + N)%nat, a2, fl2, m2. split; [|exact Hc2].
    rewrite (steps_add 6 N _ _ _ _ H1). exact HS2.
Qed.

(* the whole of decCpy: copies the words i0..n-1, SI = i0, DI = n - i0 on entry *)
Lemma cpyA_all (cnt : nat) i0 ax bx cx dx fl : 0 <= i0 -> i0 + Z.of_nat cnt = n ->
  exists N s', steps N E prog_add10VW (stY ax bx cx dx i0 (Z.of_nat cnt) fl m0 81) = Some s' /\
               nth_error prog_add10VW (st_pc s') = Some RET /\ st_frame s' = fr /\
               cpa z x m0 i0 n (st_mem s').
Proof.
  intros Hi0 Hcnt. bw. pose proof HALF64_ge.
  assert (Pre : steps 3 E prog_add10VW (stY ax bx cx dx i0 (Z.of_nat cnt) fl m0 81) =
                Some (stY ax bx cx dx i0 (sub_lo (Z.of_nat cnt) 4 0) (flags_sub (Z.of_nat cnt) 4 0) m0
                          (if Z.of_nat cnt <? 4 then 96%nat else 84%nat))).
  { unfold stV. step3 prog_add10VW. step3 prog_add10VW.
    step3 prog_add10VW. rewrite cond_l_sub by lia. rewrite (signed_small (Z.of_nat cnt)), (signed_small 4) by lia.
    destruct (Z.of_nat cnt <? 4); reflexivity. }
  assert (Tail : forall (r : nat) a b c d f m, (r < 4)%nat -> i0 <= n - Z.of_nat r -> cpa z x m0 i0 (n - Z.of_nat r) m ->
            exists N s', steps N E prog_add10VW (stY a b c d (n - Z.of_nat r) (sub_lo (Z.of_nat r) 4 0) f m 96) = Some s' /\
                         nth_error prog_add10VW (st_pc s') = Some RET /\ st_frame s' = fr /\
                         cpa z x m0 i0 n (st_mem s')).
  { intros r a b c d f m Hr Hrn Hc.
    assert (Esub : sub_lo (Z.of_nat r) 4 0 = Z.of_nat r - 4 + W64) by (rewrite sub_lo_under; lia).
    pose proof (sub_lo_range (Z.of_nat r) 4 0) as Hsr.
    assert (P2 : steps 3 E prog_add10VW (stY a b c d (n - Z.of_nat r) (sub_lo (Z.of_nat r) 4 0) f m 96) =
                 Some (stY a b c d (n - Z.of_nat r) (Z.of_nat r) (flags_add (sub_lo (Z.of_nat r) 4 0) 4 0) m
                           (if Z.of_nat r <=? 0 then 105%nat else 99%nat))).
    { unfold stV. step3 prog_add10VW. step3 prog_add10VW.
      replace (add_lo (sub_lo (Z.of_nat r) 4 0) 4 0) with (Z.of_nat r) by (rewrite Esub, add_lo_over; lia).
      step3 prog_add10VW. rewrite cond_le_add by lia.
      replace (signed (sub_lo (Z.of_nat r) 4 0)) with (Z.of_nat r - 4)
        by (rewrite Esub; destruct (signed_cases (Z.of_nat r - 4 + W64)) as [[? ?] | [? ->]]; lia).
      rewrite (signed_small 4) by lia. replace (Z.of_nat r - 4 + 4) with (Z.of_nat r) by lia.
      destruct (Z.of_nat r <=? 0); reflexivity. }
    destruct r as [|r].
    - change (Z.of_nat 0 <=? 0) with true in P2. cbv iota in P2.
      eexists (3 + 1)%nat, _. split.
      + rewrite (steps_add 3 1 _ _ _ _ P2). unfold stV. step3 prog_add10VW. reflexivity.
      + cbn [st_pc st_frame st_mem nth_error]. repeat split. replace (n - Z.of_nat 0) with n in Hc by lia. exact Hc.
    - destruct (Z.leb_spec (Z.of_nat (S r)) 0); [lia|].
      destruct (cpyA_CL i0 r (n - Z.of_nat (S r)) a b c d (flags_add (sub_lo (Z.of_nat (S r)) 4 0) 4 0) m
                  ltac:(lia) ltac:(lia) Hc) as (N & a2 & fl2 & m2 & HS2 & Hc2).
      eexists (3 + (N + 1))%nat, _. split.
      + rewrite (steps_add 3 (N + 1) _ _ _ _ P2). rewrite (steps_add N 1 _ _ _ _ HS2).
        unfold stV. step3 prog_add10VW. reflexivity.
      + cbn [st_pc st_frame st_mem nth_error]. repeat split. exact Hc2. }
  destruct (Z.ltb_spec (Z.of_nat cnt) 4) as [Hlt | Hge].
  - destruct (Tail cnt ax bx cx dx (flags_sub (Z.of_nat cnt) 4 0) m0) as (N & s' & HS & HR & HF & HC); try lia.
    { replace (n - Z.of_nat cnt) with i0 by lia. apply cpa_init. }
    exists (3 + N)%nat, s'. split; [|auto]. rewrite (steps_add 3 N _ _ _ _ Pre).
    replace (n - Z.of_nat cnt) with i0 in HS by lia. exact HS.
  - set (q := (cnt / 4 - 1)%nat). set (r := (cnt mod 4)%nat).
    assert (Enn : cnt = (4 * S q + r)%nat).
    { unfold q, r. pose proof (Nat.div_mod cnt 4 ltac:(lia)).
      assert (1 <= cnt / 4)%nat by (apply Nat.div_le_lower_bound; lia). lia. }
    assert (Hr : (r < 4)%nat) by (unfold r; apply Nat.mod_upper_bound; lia).
    rewrite (sub_lo_small (Z.of_nat cnt) 4 0) in Pre by lia.
    replace (Z.of_nat cnt - 4 - 0) with (4 * Z.of_nat q + Z.of_nat r) in Pre by lia.
    destruct (cpyA_CU i0 q r i0 ax bx cx dx (flags_sub (Z.of_nat cnt) 4 0) m0 Hr ltac:(lia) ltac:(lia) (cpa_init z x m0 i0))
      as (N1 & a1 & b1 & c1 & d1 & fl1 & m1 & HS1 & Hc1).
    destruct (Tail r a1 b1 c1 d1 fl1 m1 Hr ltac:(lia) Hc1) as (N2 & s' & HS2 & HR & HF & HC).
    exists (3 + (N1 + N2))%nat, s'. split; [|auto].
    rewrite (steps_add 3 (N1 + N2) _ _ _ _ Pre). rewrite (steps_add N1 N2 _ _ _ _ HS1). exact HS2.
Qed.
End CpyA.

(* ---------------------------------------------------------------- decCpy as linked into prog_sub10VW *)
Section CpyS.
Variables (E : env) (z x n : Z) (fr : mem) (m0 : mem).
Variables (r9 r11 r12 r13 r14 : Z).
Hypothesis Hm : 8 * e_msize E <= W64.
Hypothesis Ha : asc_ok z x n.
Hypothesis Hx0 : 0 <= x.
Hypothesis Hz0 : 0 <= z.
Hypothesis Hx1 : x + n <= e_msize E.
Hypothesis Hz1 : z + n <= e_msize E.
Hypothesis HnH : n < HALF64.

Notation stY := (stV z x r9 r12 r13 r14 fr r11).

Lemma cpyS_block ax bx cx dx j d fl m : 0 <= j -> j + 4 <= n -> 0 <= d < HALF64 ->
  exists ax' bx' cx' dx' fl',
    steps 12 E prog_sub10VW (stY ax bx cx dx j d fl m 71) =
    Some (stY ax' bx' cx' dx' (j + 4) (sub_lo d 4 0) fl'
              (upd (upd (upd (upd m (z + j) (m (x + j))) (z + j + 1) (m (x + j + 1))) (z + j + 2) (m (x + j + 2)))
                   (z + j + 3) (m (x + j + 3)))
              (if 4 <=? d then 71%nat else 83%nat)).
Proof.
  intros Hj Hjn Hd. bw. pose proof HALF64_ge. unfold stV. do 5 eexists.
  step3 prog_sub10VW.
  step3 prog_sub10VW. ld (x + j).
  step3 prog_sub10VW. ld (x + j + 1).
  step3 prog_sub10VW. ld (x + j + 2).
  step3 prog_sub10VW. ld (x + j + 3).
  step3 prog_sub10VW. st (z + j).
  step3 prog_sub10VW. st (z + j + 1).
  step3 prog_sub10VW. st (z + j + 2).
  step3 prog_sub10VW. st (z + j + 3).
  step3 prog_sub10VW. rewrite (add_lo_small j 4 0) by lia. replace (j + 4 + 0) with (j + 4) by lia.
  step3 prog_sub10VW.
  step3 prog_sub10VW. rewrite cond_ge_sub by lia. rewrite (signed_small 4), (signed_small d) by lia.
  destruct (4 <=? d); cbv beta iota; cbn [steps]; reflexivity.
Qed.

Lemma cpyS_one ax bx cx dx j k fl m : 0 <= j < n -> 1 <= k < HALF64 ->
  exists ax' fl',
    steps 6 E prog_sub10VW (stY ax bx cx dx j k fl m 86) =
    Some (stY ax' bx cx dx (j + 1) (k - 1) fl' (upd m (z + j) (m (x + j)))
              (if 1 <? k then 86%nat else 92%nat)).
Proof.
  intros Hj Hk. bw. pose proof HALF64_ge. unfold stV. do 2 eexists.
  step3 prog_sub10VW.
  step3 prog_sub10VW. ld (x + j).
  step3 prog_sub10VW. st (z + j).
  step3 prog_sub10VW. rewrite (add_lo_small j 1 0) by lia. replace (j + 1 + 0) with (j + 1) by lia.
  step3 prog_sub10VW. rewrite (sub_lo_small k 1 0) by lia. replace (k - 1 - 0) with (k - 1) by lia.
  step3 prog_sub10VW. rewrite cond_g_sub by lia. rewrite (signed_small 1), (signed_small k) by lia.
  destruct (1 <? k); cbv beta iota; cbn [steps]; reflexivity.
Qed.

Lemma cpyS_CU i0 q : forall (r : nat) j ax bx cx dx fl m, (r < 4)%nat -> 0 <= i0 <= j ->
  j + 4 * Z.of_nat (S q) + Z.of_nat r = n -> cpa z x m0 i0 j m ->
  exists N ax' bx' cx' dx' fl' m',
    steps N E prog_sub10VW (stY ax bx cx dx j (4 * Z.of_nat q + Z.of_nat r) fl m 71) =
    Some (stY ax' bx' cx' dx' (n - Z.of_nat r) (sub_lo (Z.of_nat r) 4 0) fl' m' 83) /\ cpa z x m0 i0 (n - Z.of_nat r) m'.
Proof.
  induction q as [|q IH]; intros r j ax bx cx dx fl m Hr Hj Hn Hc.
  - destruct (cpyS_block ax bx cx dx j (4 * Z.of_nat 0 + Z.of_nat r) fl m ltac:(lia) ltac:(lia) ltac:(lia))
      as (a1 & b1 & c1 & d1 & fl1 & H1).
    pose proof (cpa_step4 z x m0 i0 j n m Hc Ha Hj ltac:(lia)) as Hc1.
    destruct (Z.leb_spec 4 (4 * Z.of_nat 0 + Z.of_nat r)); [lia|].
    replace (4 * Z.of_nat 0 + Z.of_nat r) with (Z.of_nat r) in * by lia.
    replace (j + 4) with (n - Z.of_nat r) in * by lia.
    exists 12%nat, a1, b1, c1, d1, fl1. eexists. split; [exact H1 | exact Hc1].
  - destruct (cpyS_block ax bx cx dx j (4 * Z.of_nat (S q) + Z.of_nat r) fl m ltac:(lia) ltac:(lia) ltac:(lia))
      as (a1 & b1 & c1 & d1 & fl1 & H1).
    pose proof (cpa_step4 z x m0 i0 j n m Hc Ha Hj ltac:(lia)) as Hc1.
    destruct (Z.leb_spec 4 (4 * Z.of_nat (S q) + Z.of_nat r)); [|lia].
    bw. rewrite (sub_lo_small (4 * Z.of_nat (S q) + Z.of_nat r) 4 0) in H1 by lia.
    replace (4 * Z.of_nat (S q) + Z.of_nat r - 4 - 0) with (4 * Z.of_nat q + Z.of_nat r) in H1 by lia.
    match type of H1 with _ = Some (stV _ _ _ _ _ _ _ _ _ _ _ _ _ _ _ ?mm _) =>
      destruct (IH r (j + 4) a1 b1 c1 d1 fl1 mm Hr ltac:(lia) ltac:(lia) Hc1)
        as (N & a2 & b2 & c2 & d2 & fl2 & m2 & HS2 & Hc2) end.
    exists (12 + N)%nat, a2, b2, c2, d2, fl2, m2. split; [|exact Hc2].
    rewrite (steps_add 12 N _ _ _ _ H1). exact HS2.
Qed.

Lemma cpyS_CL i0 k : forall j ax bx cx dx fl m, 0 <= i0 <= j -> j + Z.of_nat (S k) = n -> cpa z x m0 i0 j m ->
  exists N ax' fl' m',
    steps N E prog_sub10VW (stY ax bx cx dx j (Z.of_nat (S k)) fl m 86) =
    Some (stY ax' bx cx dx n 0 fl' m' 92) /\ cpa z x m0 i0 n m'.
Proof.
  induction k as [|k IH]; intros j ax bx cx dx fl m Hj Hn Hc.
  - destruct (cpyS_one ax bx cx dx j (Z.of_nat 1) fl m ltac:(lia) ltac:(lia)) as (a1 & fl1 & H1).
    pose proof (cpa_step z x m0 i0 j n m Hc Ha Hj ltac:(lia)) as Hc1.
    destruct (Z.ltb_spec 1 (Z.of_nat 1)); [lia|].
    replace (j + 1) with n in * by lia. change (Z.of_nat 1 - 1) with 0 in H1.
    exists 6%nat, a1, fl1. eexists. split; [exact H1 | exact Hc1].
  - destruct (cpyS_one ax bx cx dx j (Z.of_nat (S (S k))) fl m ltac:(lia) ltac:(lia)) as (a1 & fl1 & H1).
    pose proof (cpa_step z x m0 i0 j n m Hc Ha Hj ltac:(lia)) as Hc1.
    destruct (Z.ltb_spec 1 (Z.of_nat (S (S k)))); [|lia].
    replace (Z.of_nat (S (S k)) - 1) with (Z.of_nat (S k)) in H1 by lia.
    match type of H1 with _ = Some (stV _ _ _ _ _ _ _ _ _ _ _ _ _ _ _ ?mm _) =>
      destruct (IH (j + 1) a1 bx cx dx fl1 mm ltac:(lia) ltac:(lia) Hc1) as (N & a2 & fl2 & m2 & HS2 & Hc2) end.
    exists (6 + N)%nat, a2, fl2, m2. split; [|exact Hc2].
    rewrite (steps_add 6 N _ _ _ _ H1). exact HS2.
Qed.

(* the whole of decCpy: copies the words i0..n-1, SI = i0, DI = n - i0 on entry *)
Lemma cpyS_all (cnt : nat) i0 ax bx cx dx fl : 0 <= i0 -> i0 + Z.of_nat cnt = n ->
  exists N s', steps N E prog_sub10VW (stY ax bx cx dx i0 (Z.of_nat cnt) fl m0 68) = Some s' /\
               nth_error prog_sub10VW (st_pc s') = Some RET /\ st_frame s' = fr /\
               cpa z x m0 i0 n (st_mem s').
Proof.
  intros Hi0 Hcnt. bw. pose proof HALF64_ge.
  assert (Pre : steps 3 E prog_sub10VW (stY ax bx cx dx i0 (Z.of_nat cnt) fl m0 68) =
                Some (stY ax bx cx dx i0 (sub_lo (Z.of_nat cnt) 4 0) (flags_sub (Z.of_nat cnt) 4 0) m0
                          (if Z.of_nat cnt <? 4 then 83%nat else 71%nat))).
  { unfold stV. step3 prog_sub10VW. step3 prog_sub10VW.
    step3 prog_sub10VW. rewrite cond_l_sub by lia. rewrite (signed_small (Z.of_nat cnt)), (signed_small 4) by lia.
    destruct (Z.of_nat cnt <? 4); reflexivity. }
  assert (Tail : forall (r : nat) a b c d f m, (r < 4)%nat -> i0 <= n - Z.of_nat r -> cpa z x m0 i0 (n - Z.of_nat r) m ->
            exists N s', steps N E prog_sub10VW (stY a b c d (n - Z.of_nat r) (sub_lo (Z.of_nat r) 4 0) f m 83) = Some s' /\
                         nth_error prog_sub10VW (st_pc s') = Some RET /\ st_frame s' = fr /\
                         cpa z x m0 i0 n (st_mem s')).
  { intros r a b c d f m Hr Hrn Hc.
    assert (Esub : sub_lo (Z.of_nat r) 4 0 = Z.of_nat r - 4 + W64) by (rewrite sub_lo_under; lia).
    pose proof (sub_lo_range (Z.of_nat r) 4 0) as Hsr.
    assert (P2 : steps 3 E prog_sub10VW (stY a b c d (n - Z.of_nat r) (sub_lo (Z.of_nat r) 4 0) f m 83) =
                 Some (stY a b c d (n - Z.of_nat r) (Z.of_nat r) (flags_add (sub_lo (Z.of_nat r) 4 0) 4 0) m
                           (if Z.of_nat r <=? 0 then 92%nat else 86%nat))).
    { unfold stV. step3 prog_sub10VW. step3 prog_sub10VW.
      replace (add_lo (sub_lo (Z.of_nat r) 4 0) 4 0) with (Z.of_nat r) by (rewrite Esub, add_lo_over; lia).
      step3 prog_sub10VW. rewrite cond_le_add by lia.
      replace (signed (sub_lo (Z.of_nat r) 4 0)) with (Z.of_nat r - 4)
        by (rewrite Esub; destruct (signed_cases (Z.of_nat r - 4 + W64)) as [[? ?] | [? ->]]; lia).
      rewrite (signed_small 4) by lia. replace (Z.of_nat r - 4 + 4) with (Z.of_nat r) by lia.
      destruct (Z.of_nat r <=? 0); reflexivity. }
    destruct r as [|r].
    - change (Z.of_nat 0 <=? 0) with true in P2. cbv iota in P2.
      eexists (3 + 1)%nat, _. split.
      + rewrite (steps_add 3 1 _ _ _ _ P2). unfold stV. step3 prog_sub10VW. reflexivity.
      + cbn [st_pc st_frame st_mem nth_error]. repeat split. replace (n - Z.of_nat 0) with n in Hc by lia. exact Hc.
    - destruct (Z.leb_spec (Z.of_nat (S r)) 0); [lia|].
      destruct (cpyS_CL i0 r (n - Z.of_nat (S r)) a b c d (flags_add (sub_lo (Z.of_nat (S r)) 4 0) 4 0) m
                  ltac:(lia) ltac:(lia) Hc) as (N & a2 & fl2 & m2 & HS2 & Hc2).
      eexists (3 + (N + 1))%nat, _. split.
      + rewrite (steps_add 3 (N + 1) _ _ _ _ P2). rewrite (steps_add N 1 _ _ _ _ HS2).
        unfold stV. step3 prog_sub10VW. reflexivity.
      + cbn [st_pc st_frame st_mem nth_error]. repeat split. exact Hc2. }
  destruct (Z.ltb_spec (Z.of_nat cnt) 4) as [Hlt | Hge].
  - destruct (Tail cnt ax bx cx dx (flags_sub (Z.of_nat cnt) 4 0) m0) as (N & s' & HS & HR & HF & HC); try lia.
    { replace (n - Z.of_nat cnt) with i0 by lia. apply cpa_init. }
    exists (3 + N)%nat, s'. split; [|auto]. rewrite (steps_add 3 N _ _ _ _ Pre).
    replace (n - Z.of_nat cnt) with i0 in HS by lia. exact HS.
  - set (q := (cnt / 4 - 1)%nat). set (r := (cnt mod 4)%nat).
    assert (Enn : cnt = (4 * S q + r)%nat).
    { unfold q, r. pose proof (Nat.div_mod cnt 4 ltac:(lia)).
      assert (1 <= cnt / 4)%nat by (apply Nat.div_le_lower_bound; lia). lia. }
    assert (Hr : (r < 4)%nat) by (unfold r; apply Nat.mod_upper_bound; lia).
    rewrite (sub_lo_small (Z.of_nat cnt) 4 0) in Pre by lia.
    replace (Z.of_nat cnt - 4 - 0) with (4 * Z.of_nat q + Z.of_nat r) in Pre by lia.
    destruct (cpyS_CU i0 q r i0 ax bx cx dx (flags_sub (Z.of_nat cnt) 4 0) m0 Hr ltac:(lia) ltac:(lia) (cpa_init z x m0 i0))
      as (N1 & a1 & b1 & c1 & d1 & fl1 & m1 & HS1 & Hc1).
    destruct (Tail r a1 b1 c1 d1 fl1 m1 Hr ltac:(lia) Hc1) as (N2 & s' & HS2 & HR & HF & HC).
    exists (3 + (N1 + N2))%nat, s'. split; [|auto].
    rewrite (steps_add 3 (N1 + N2) _ _ _ _ Pre). rewrite (steps_add N1 N2 _ _ _ _ HS1). exact HS2.
Qed.
End CpyS.

(* ================================================================ add10VW *)
(* ADDQ x[i], CX; CMPQ CX, DX; SBBQ BX, BX; ANDQ BX, CX; (store) ; LEAQ 1(BX), CX *)
Lemma addw_eq xi c : 0 <= xi < B -> 0 <= c <= 1 ->
  let k := b2z (add_lo c xi 0 - B - 0 <? 0) in
  Z.land (add_lo c xi 0) (neg64 k) = fst (rw xi c) /\
  wrap (1 + neg64 k + 0) = snd (rw xi c) /\
  neg64 k = neg64 (1 - snd (rw xi c)).
Proof.
  intros Hx Hc k. bw. subst k. rewrite add_lo_small by lia. unfold rw.
  replace (c + xi + 0) with (xi + c) by lia.
  destruct (Z.ltb_spec (xi + c) B); destruct (Z.ltb_spec (xi + c - B - 0) 0); try lia; cbn [b2z fst snd].
  - rewrite neg64_1, land_max_r by lia. repeat split.
  - rewrite neg64_0, Z.land_0_r. repeat split.
Qed.

(* the first word: the 2^64 carry of x[0] + y is folded into the decimal carry *)
Lemma addw0_eq x0 y bx : 0 <= x0 < B -> 0 <= y < B ->
  let k1 := b2z (W64 <=? y + x0 + 0) in
  let s := add_lo y x0 0 in
  let k2 := b2z (-1 + B + 0 - s - 0 <? 0) in
  let mask := Z.lor (sub_lo bx bx k1) (sub_lo (-1 + B + 0) (-1 + B + 0) k2) in
  sub_lo s (Z.land B mask) 0 = (x0 + y) mod B /\ neg64 mask = (x0 + y) / B.
Proof.
  intros Hx Hy k1 s k2 mask. bw. subst mask.
  rewrite !sbb_self by apply b2z_01. rewrite lor_neg64 by apply b2z_01.
  pose proof (add1_eq_g y x0 0 Hy Hx ltac:(lia)) as EG. cbv zeta in EG.
  rewrite g_add10WWW_correct in EG by lia.
  change (-1 + B + 0) with 9999999999999999999 in k2. fold s k1 k2 in EG.
  apply pair_eq_inv in EG as [E1 E2].
  replace (x0 + y) with (y + x0 + 0) by lia. rewrite <- E1, <- E2. split; [reflexivity|].
  apply neg64_neg64. rewrite E2. split; [apply Z.div_pos; lia|].
  assert ((y + x0 + 0) / B < 2) by (apply Z.div_lt_upper_bound; lia). lia.
Qed.

Section Add10VW.
Variables (E : env) (z x n : Z).
Variables (r9 r11 r12 r13 r14 : Z).
Hypothesis Hm : 8 * e_msize E <= W64.
Hypothesis Ha : asc_ok z x n.
Hypothesis Hx0 : 0 <= x.
Hypothesis Hz0 : 0 <= z.
Hypothesis Hx1 : x + n <= e_msize E.
Hypothesis Hz1 : z + n <= e_msize E.
Hypothesis HnH : n < HALF64.

Notation stA fr := (stV z x r9 r12 r13 r14 fr r11).
Notation P := prog_add10VW.

(* the six-instruction word step; xi names the loaded word *)
Ltac addw ax az xi c Hxi Hc :=
  step'' P; ld ax; rewrite ?upd_other by (unfold asc_ok in Ha; lia); fold xi;
  step'' P;
  step'' P; rewrite sbb_self by apply b2z_01;
  step'' P;
  step'' P; st az;
  step'' P;
  let E1 := fresh "E" in let E2 := fresh "E" in let E3 := fresh "E" in
  destruct (addw_eq xi c Hxi Hc) as (E1 & E2 & E3); cbv zeta in E1, E2, E3;
  rewrite E1, E2, E3; clear E1 E2 E3.

Lemma rip_4 k i c m : 0 <= i -> i + 4 <= n ->
  let w0 := rw (m (x + i)) c in
  let w1 := rw (m (x + i + 1)) (snd w0) in
  let w2 := rw (m (x + i + 2)) (snd w1) in
  let w3 := rw (m (x + i + 3)) (snd w2) in
  rip (S (S (S (S k)))) z x i c m =
  rip k z x (i + 4) (snd w3)
    (upd (upd (upd (upd m (z + i) (fst w0)) (z + i + 1) (fst w1)) (z + i + 2) (fst w2)) (z + i + 3) (fst w3)).
Proof.
  intros Hi0 Hi4 w0 w1 w2 w3. unfold asc_ok in Ha.
  rewrite !rip_S.
  rewrite !upd_other by lia.
  replace (x + (i + 1)) with (x + i + 1) by lia.
  replace (x + (i + 1 + 1)) with (x + i + 2) by lia.
  replace (x + (i + 1 + 1 + 1)) with (x + i + 3) by lia.
  replace (z + (i + 1)) with (z + i + 1) by lia. replace (z + (i + 1 + 1)) with (z + i + 2) by lia.
  replace (z + (i + 1 + 1 + 1)) with (z + i + 3) by lia. replace (i + 1 + 1 + 1 + 1) with (i + 4) by lia.
  reflexivity.
Qed.

(* L3: one word *)
Lemma add10VW_L3_iter fr ax bx i k c fl m :
  0 <= i < n -> 1 <= k < HALF64 -> 0 <= c <= 1 -> 0 <= m (x + i) < B ->
  let w := rw (m (x + i)) c in
  exists fl',
    steps 10 E P (stA fr ax bx c B i k fl m 63) =
    Some (stA fr ax (neg64 (1 - snd w)) (snd w) B (i + 1) (k - 1) fl' (upd m (z + i) (fst w))
              (if 1 <? k then 63%nat else 73%nat)).
Proof.
  intros Hi Hk Hc Hxi w. bw. pose proof HALF64_ge. unfold stV.
  set (xi := m (x + i)) in *. eexists.
  step'' P.
  addw (x + i) (z + i) xi c Hxi Hc. fold w.
  step'' P. rewrite (add_lo_small i 1 0) by lia. replace (i + 1 + 0) with (i + 1) by lia.
  step'' P. rewrite (sub_lo_small k 1 0) by lia. replace (k - 1 - 0) with (k - 1) by lia.
  step'' P. rewrite cond_g_sub by lia. rewrite (signed_small 1), (signed_small k) by lia.
  destruct (1 <? k); cbv beta iota; cbn [steps]; reflexivity.
Qed.

(* U3: four words, then the test of the carry mask *)
Lemma add10VW_block fr ax bx i d c fl m :
  0 <= i -> i + 4 <= n -> 0 <= c <= 1 -> wfrom x n m i ->
  let w0 := rw (m (x + i)) c in
  let w1 := rw (m (x + i + 1)) (snd w0) in
  let w2 := rw (m (x + i + 2)) (snd w1) in
  let w3 := rw (m (x + i + 3)) (snd w2) in
  exists fl',
    steps 28 E P (stA fr ax bx c B i d fl m 30) =
    Some (stA fr ax (neg64 (1 - snd w3)) (snd w3) B (i + 4) d fl'
              (upd (upd (upd (upd m (z + i) (fst w0)) (z + i + 1) (fst w1)) (z + i + 2) (fst w2)) (z + i + 3) (fst w3))
              (if snd w3 =? 0 then 76%nat else 58%nat)).
Proof.
  intros Hi Hi4 Hc Hw w0 w1 w2 w3. bw. pose proof HALF64_ge. unfold stV.
  pose proof (Hw i ltac:(lia)) as Hx_0. pose proof (Hw (i + 1) ltac:(lia)) as Hx_1.
  pose proof (Hw (i + 2) ltac:(lia)) as Hx_2. pose proof (Hw (i + 3) ltac:(lia)) as Hx_3.
  rewrite !Z.add_assoc in Hx_1, Hx_2, Hx_3.
  set (x0 := m (x + i)) in *. set (x1 := m (x + i + 1)) in *.
  set (x2 := m (x + i + 2)) in *. set (x3 := m (x + i + 3)) in *.
  pose proof (rw_carry x0 c) as Hc0. fold w0 in Hc0.
  pose proof (rw_carry x1 (snd w0)) as Hc1. fold w1 in Hc1.
  pose proof (rw_carry x2 (snd w1)) as Hc2. fold w2 in Hc2.
  pose proof (rw_carry x3 (snd w2)) as Hc3. fold w3 in Hc3.
  eexists.
  step'' P.
  addw (x + i) (z + i) x0 c Hx_0 Hc. fold w0.
  addw (x + i + 1) (z + i + 1) x1 (snd w0) Hx_1 Hc0. fold w1.
  addw (x + i + 2) (z + i + 2) x2 (snd w1) Hx_2 Hc1. fold w2.
  addw (x + i + 3) (z + i + 3) x3 (snd w2) Hx_3 Hc2. fold w3.
  step'' P. rewrite (add_lo_small i 4 0) by lia. replace (i + 4 + 0) with (i + 4) by lia.
  step'' P.
  step'' P. rewrite cond_l_mask by assumption.
  destruct (snd w3 =? 0); cbv beta iota; cbn [steps]; reflexivity.
Qed.

(* the carry is absorbed: nothing more to do in place, decCpy otherwise *)
Lemma add10VW_fin_inplace (k : nat) i m cf mf :
  rip k z x i 0 m = (cf, mf) -> 0 <= i -> i + Z.of_nat k = n -> wfrom x n m i ->
  z = x -> cf = 0 /\ mem_eq m mf.
Proof.
  intros HG Hi Hk Hw Ezx.
  destruct (cpa_rip z x n m i k m Ha Hw Hi Hk) as [E1 E2].
  { rewrite Ezx. apply cpa_self. }
  rewrite HG in E1, E2. cbn [fst snd] in *. auto.
Qed.

Lemma add10VW_fin_copy (k : nat) fr ax bx cx dx i fl m cf mf :
  rip k z x i 0 m = (cf, mf) -> 0 <= i -> i + Z.of_nat k = n -> wfrom x n m i ->
  exists N s', steps N E P (stA fr ax bx cx dx i (Z.of_nat k) fl m 81) = Some s' /\
               nth_error P (st_pc s') = Some RET /\ st_frame s' = fr /\ cf = 0 /\ mem_eq (st_mem s') mf.
Proof.
  intros HG Hi Hk Hw.
  destruct (cpyA_all E z x n fr m r9 r11 r12 r13 r14 Hm Ha Hx0 Hz0 Hx1 Hz1 HnH k i ax bx cx dx fl Hi Hk)
    as (N & s' & HS & HR & HF & HC).
  destruct (cpa_rip z x n m i k (st_mem s') Ha Hw Hi Hk HC) as [E1 E2].
  rewrite HG in E1, E2. cbn [fst snd] in *.
  exists N, s'. auto.
Qed.

(* E3: MOVQ CX, c+56(FP); RET *)
Lemma add10VW_E3 fr ax bx cx dx si di fl m :
  exists s', steps 2 E P (stA fr ax bx cx dx si di fl m 73) = Some s' /\
             nth_error P (st_pc s') = Some RET /\ st_frame s' = upd fr 7 cx /\ st_mem s' = m.
Proof.
  eexists. split.
  - unfold stV. step'' P. step'' P. reflexivity.
  - cbn [st_pc st_frame st_mem]. repeat split.
Qed.

(* C3: the carry mask was all ones after a block *)
Lemma add10VW_absorbed (k : nat) fr ax bx dx i fl m cf mf :
  rip k z x i 0 m = (cf, mf) -> 1 <= i -> i + Z.of_nat k = n -> wfrom x n m i ->
  exists N s', steps N E P (stA fr ax bx 0 dx i (Z.of_nat k) fl m 76) = Some s' /\
               nth_error P (st_pc s') = Some RET /\ st_frame s' 7 = cf /\ mem_eq (st_mem s') mf.
Proof.
  intros HG Hi1 Hk Hw. bw. pose proof HALF64_ge. assert (Hi : 0 <= i) by lia.
  assert (Pre : steps 3 E P (stA fr ax bx 0 dx i (Z.of_nat k) fl m 76) =
                Some (stA fr ax bx 0 dx i (Z.of_nat k) (flags_sub (8 * x) (8 * z) 0) m
                          (if 8 * x =? 8 * z then 73%nat else 79%nat))).
  { unfold stV. step'' P. step'' P.
    step'' P. rewrite cond_eq_sub by lia. destruct (8 * x =? 8 * z); reflexivity. }
  destruct (Z.eqb_spec (8 * x) (8 * z)) as [Ezx | Nzx].
  - destruct (add10VW_fin_inplace k i m cf mf HG Hi Hk Hw ltac:(lia)) as [Ecf Em].
    destruct (add10VW_E3 fr ax bx 0 dx i (Z.of_nat k) (flags_sub (8 * x) (8 * z) 0) m) as (s' & HS & HR & HF & HM).
    exists (3 + 2)%nat, s'. split; [|split; [exact HR|split]].
    + rewrite (steps_add 3 2 _ _ _ _ Pre). exact HS.
    + rewrite HF, upd_same. auto.
    + rewrite HM. exact Em.
  - assert (P2 : steps 2 E P (stA fr ax bx 0 dx i (Z.of_nat k) (flags_sub (8 * x) (8 * z) 0) m 79) =
                 Some (stA (upd fr 7 0) ax bx 0 dx i (Z.of_nat k) (flags_sub (8 * x) (8 * z) 0) m 81)).
    { unfold stV. step'' P. step'' P. reflexivity. }
    destruct (add10VW_fin_copy k (upd fr 7 0) ax bx 0 dx i (flags_sub (8 * x) (8 * z) 0) m cf mf HG Hi Hk Hw)
      as (N & s' & HS & HR & HF & Ecf & Em).
    exists (3 + (2 + N))%nat, s'. split; [|split; [exact HR|split]].
    + rewrite (steps_add 3 (2 + N) _ _ _ _ Pre). rewrite (steps_add 2 N _ _ _ _ P2). exact HS.
    + rewrite HF, upd_same. auto.
    + exact Em.
Qed.

(* L3: the single-word loop *)
Lemma add10VW_L3_loop r : forall fr ax bx i c fl m cf mf,
  rip (S r) z x i c m = (cf, mf) ->
  0 <= i -> i + Z.of_nat (S r) = n -> 0 <= c <= 1 -> wfrom x n m i ->
  exists N bx' fl',
    steps N E P (stA fr ax bx c B i (Z.of_nat (S r)) fl m 63) =
    Some (stA fr ax bx' cf B n 0 fl' mf 73).
Proof.
  induction r as [|r IH]; intros fr ax bx i c fl m cf mf HG Hi0 Hn Hc Hw;
    rewrite rip_S in HG; pose proof (Hw i ltac:(lia)) as Wx0;
    pose proof (rw_carry (m (x + i)) c) as Hc0.
  - destruct (add10VW_L3_iter fr ax bx i (Z.of_nat 1) c fl m) as (fl1 & H1); try lia.
    cbn [rip] in HG. apply pair_eq_inv in HG as [E1 E2]. subst cf mf.
    destruct (Z.ltb_spec 1 (Z.of_nat 1)); [lia|].
    exists 10%nat. do 2 eexists. rewrite H1.
    replace (i + 1) with n by lia. reflexivity.
  - destruct (add10VW_L3_iter fr ax bx i (Z.of_nat (S (S r))) c fl m) as (fl1 & H1); try lia.
    destruct (Z.ltb_spec 1 (Z.of_nat (S (S r)))); [|lia].
    replace (Z.of_nat (S (S r)) - 1) with (Z.of_nat (S r)) in H1 by lia.
    destruct (IH fr ax (neg64 (1 - snd (rw (m (x + i)) c))) (i + 1) _ fl1 _ cf mf HG)
      as (N & b2 & fl2 & HS2); try lia.
    { apply wfrom_upd; [exact Ha | lia | exact Hw]. }
    exists (10 + N)%nat, b2, fl2.
    rewrite (steps_add 10 N _ _ _ _ H1). exact HS2.
Qed.

(* V3: fewer than four words left *)
Lemma add10VW_tail (r : nat) fr ax bx c fl m cf mf :
  rip r z x (n - Z.of_nat r) c m = (cf, mf) ->
  (r < 4)%nat -> Z.of_nat r <= n -> 0 <= c <= 1 -> wfrom x n m (n - Z.of_nat r) ->
  exists N s', steps N E P (stA fr ax bx c B (n - Z.of_nat r) (sub_lo (Z.of_nat r) 4 0) fl m 60) = Some s' /\
               nth_error P (st_pc s') = Some RET /\ st_frame s' = upd fr 7 cf /\ st_mem s' = mf.
Proof.
  intros HG Hr Hrn Hc Hw. bw.
  assert (Esub : sub_lo (Z.of_nat r) 4 0 = Z.of_nat r - 4 + W64) by (rewrite sub_lo_under; lia).
  assert (Pre : steps 3 E P (stA fr ax bx c B (n - Z.of_nat r) (sub_lo (Z.of_nat r) 4 0) fl m 60) =
          Some (stA fr ax bx c B (n - Z.of_nat r) (Z.of_nat r)
                    (flags_add (sub_lo (Z.of_nat r) 4 0) 4 0) m (if Z.of_nat r <=? 0 then 73%nat else 63%nat))).
  { pose proof (sub_lo_range (Z.of_nat r) 4 0) as Hsr. pose proof HALF64_ge.
    unfold stV. step'' P. step'' P.
    replace (add_lo (sub_lo (Z.of_nat r) 4 0) 4 0) with (Z.of_nat r) by (rewrite Esub, add_lo_over; lia).
    step'' P. rewrite cond_le_add by lia.
    replace (signed (sub_lo (Z.of_nat r) 4 0)) with (Z.of_nat r - 4)
      by (rewrite Esub; destruct (signed_cases (Z.of_nat r - 4 + W64)) as [[? ?] | [? ->]]; lia).
    rewrite (signed_small 4) by lia. replace (Z.of_nat r - 4 + 4) with (Z.of_nat r) by lia.
    destruct (Z.of_nat r <=? 0); reflexivity. }
  destruct r as [|r].
  - cbn [rip] in HG. apply pair_eq_inv in HG as [E1 E2]. subst cf mf.
    change (Z.of_nat 0 <=? 0) with true in Pre. cbv iota in Pre.
    destruct (add10VW_E3 fr ax bx c B (n - Z.of_nat 0) (Z.of_nat 0) (flags_add (sub_lo (Z.of_nat 0) 4 0) 4 0) m)
      as (s' & HS & HR & HF & HM).
    exists (3 + 2)%nat, s'. split; [|auto].
    rewrite (steps_add 3 2 _ _ _ _ Pre). exact HS.
  - destruct (Z.leb_spec (Z.of_nat (S r)) 0); [lia|].
    destruct (add10VW_L3_loop r fr ax bx (n - Z.of_nat (S r)) c
                (flags_add (sub_lo (Z.of_nat (S r)) 4 0) 4 0) m cf mf HG)
      as (N & b2 & fl2 & HS2); try lia; try assumption.
    destruct (add10VW_E3 fr ax b2 cf B n 0 fl2 mf) as (s' & HS & HR & HF & HM).
    exists (3 + (N + 2))%nat, s'. split; [|auto].
    rewrite (steps_add 3 (N + 2) _ _ _ _ Pre). rewrite (steps_add N 2 _ _ _ _ HS2). exact HS.
Qed.

(* U3: the unrolled loop, left through C3 (carry absorbed) or V3 *)
Lemma add10VW_U3_loop q : forall (r : nat) fr ax bx i c fl m cf mf,
  rip (4 * S q + r) z x i c m = (cf, mf) ->
  (r < 4)%nat -> 0 <= i -> i + 4 * Z.of_nat (S q) + Z.of_nat r = n ->
  0 <= c <= 1 -> wfrom x n m i ->
  exists N s', steps N E P (stA fr ax bx c B i (4 * Z.of_nat q + Z.of_nat r) fl m 30) = Some s' /\
               nth_error P (st_pc s') = Some RET /\ st_frame s' 7 = cf /\ mem_eq (st_mem s') mf.
Proof.
  induction q as [|q IH]; intros r fr ax bx i c fl m cf mf HG Hr Hi0 Hn Hc Hw; bw; pose proof HALF64_ge.
  - replace (4 * 1 + r)%nat with (S (S (S (S r)))) in HG by lia.
    replace (4 * Z.of_nat 0 + Z.of_nat r) with (Z.of_nat r) by lia.
    rewrite (rip_4 r i c m Hi0 ltac:(lia)) in HG.
    destruct (add10VW_block fr ax bx i (Z.of_nat r) c fl m Hi0 ltac:(lia) Hc Hw) as (fl1 & HB1).
    cbv zeta in HB1, HG.
    set (w3 := rw (m (x + i + 3)) _) in *. pose proof (rw_carry (m (x + i + 3)) (snd (rw (m (x + i + 2)) (snd (rw (m (x + i + 1)) (snd (rw (m (x + i)) c))))))) as Hc3.
    fold w3 in Hc3.
    match type of HB1 with _ = Some (stV _ _ _ _ _ _ _ _ _ _ _ _ _ _ _ ?mm _) => set (m4 := mm) in * end.
    assert (Hw4 : wfrom x n m4 (i + 4)) by (apply wfrom_upd4; assumption).
    destruct (Z.eqb_spec (snd w3) 0) as [E0 | N0].
    + rewrite E0 in HB1, HG. change (1 - 0) with 1 in HB1.
      destruct (add10VW_absorbed r fr ax (neg64 1) B (i + 4) fl1 m4 cf mf HG ltac:(lia) ltac:(lia) Hw4)
        as (N & s' & HS & HR & HF & HM).
      exists (28 + N)%nat, s'. split; [|auto]. rewrite (steps_add 28 N _ _ _ _ HB1). exact HS.
    + assert (P2 : steps 2 E P (stA fr ax (neg64 (1 - snd w3)) (snd w3) B (i + 4) (Z.of_nat r) fl1 m4 58) =
                   Some (stA fr ax (neg64 (1 - snd w3)) (snd w3) B (i + 4) (sub_lo (Z.of_nat r) 4 0)
                             (flags_sub (Z.of_nat r) 4 0) m4 60)).
      { unfold stV. step'' P. step'' P. rewrite cond_ge_sub by lia.
        rewrite (signed_small 4), (signed_small (Z.of_nat r)) by lia.
        destruct (Z.leb_spec 4 (Z.of_nat r)); [lia|]. cbv beta iota. cbn [steps].
        reflexivity. }
      replace (i + 4) with (n - Z.of_nat r) in * by lia.
      destruct (add10VW_tail r fr ax (neg64 (1 - snd w3)) (snd w3) (flags_sub (Z.of_nat r) 4 0) m4 cf mf HG Hr ltac:(lia) Hc3 Hw4)
        as (N & s' & HS & HR & HF & HM).
      exists (28 + (2 + N))%nat, s'. split; [|split; [exact HR|split]].
      * rewrite (steps_add 28 (2 + N) _ _ _ _ HB1). rewrite (steps_add 2 N _ _ _ _ P2). exact HS.
      * rewrite HF. apply upd_same.
      * rewrite HM. intro; reflexivity.
  - replace (4 * S (S q) + r)%nat with (S (S (S (S (4 * S q + r))))) in HG by lia.
    rewrite (rip_4 _ i c m Hi0 ltac:(lia)) in HG.
    destruct (add10VW_block fr ax bx i (4 * Z.of_nat (S q) + Z.of_nat r) c fl m Hi0 ltac:(lia) Hc Hw) as (fl1 & HB1).
    cbv zeta in HB1, HG.
    set (w3 := rw (m (x + i + 3)) _) in *. pose proof (rw_carry (m (x + i + 3)) (snd (rw (m (x + i + 2)) (snd (rw (m (x + i + 1)) (snd (rw (m (x + i)) c))))))) as Hc3.
    fold w3 in Hc3.
    match type of HB1 with _ = Some (stV _ _ _ _ _ _ _ _ _ _ _ _ _ _ _ ?mm _) => set (m4 := mm) in * end.
    assert (Hw4 : wfrom x n m4 (i + 4)) by (apply wfrom_upd4; assumption).
    destruct (Z.eqb_spec (snd w3) 0) as [E0 | N0].
    + rewrite E0 in HB1, HG. change (1 - 0) with 1 in HB1.
      destruct (add10VW_absorbed (4 * S q + r) fr ax (neg64 1) B (i + 4) fl1 m4 cf mf HG ltac:(lia) ltac:(lia) Hw4)
        as (N & s' & HS & HR & HF & HM).
      replace (Z.of_nat (4 * S q + r)) with (4 * Z.of_nat (S q) + Z.of_nat r) in HS by lia.
      exists (28 + N)%nat, s'. split; [|auto]. rewrite (steps_add 28 N _ _ _ _ HB1). exact HS.
    + assert (P2 : steps 2 E P (stA fr ax (neg64 (1 - snd w3)) (snd w3) B (i + 4) (4 * Z.of_nat (S q) + Z.of_nat r) fl1 m4 58) =
                   Some (stA fr ax (neg64 (1 - snd w3)) (snd w3) B (i + 4) (4 * Z.of_nat q + Z.of_nat r)
                             (flags_sub (4 * Z.of_nat (S q) + Z.of_nat r) 4 0) m4 30)).
      { unfold stV. step'' P. step'' P. rewrite cond_ge_sub by lia.
        rewrite (signed_small 4), (signed_small (4 * Z.of_nat (S q) + Z.of_nat r)) by lia.
        destruct (Z.leb_spec 4 (4 * Z.of_nat (S q) + Z.of_nat r)); [|lia]. cbv beta iota. cbn [steps].
        rewrite (sub_lo_small (4 * Z.of_nat (S q) + Z.of_nat r) 4 0) by lia.
        replace (4 * Z.of_nat (S q) + Z.of_nat r - 4 - 0) with (4 * Z.of_nat q + Z.of_nat r) by lia. reflexivity. }
      destruct (IH r fr ax (neg64 (1 - snd w3)) (i + 4) (snd w3) (flags_sub (4 * Z.of_nat (S q) + Z.of_nat r) 4 0) m4 cf mf HG Hr
                  ltac:(lia) ltac:(lia) Hc3 Hw4) as (N & s' & HS & HR & HF & HM).
      exists (28 + (2 + N))%nat, s'. split; [|auto].
      rewrite (steps_add 28 (2 + N) _ _ _ _ HB1). rewrite (steps_add 2 N _ _ _ _ P2). exact HS.
Qed.

(* everything after the first word: SI = 1, DI = n - 1, CX = carry *)
Lemma add10VW_rest (n1 : nat) fr ax bx c fl m cf mf :
  rip n1 z x 1 c m = (cf, mf) -> 1 + Z.of_nat n1 = n -> 0 <= c <= 1 -> wfrom x n m 1 ->
  exists N s', steps N E P (stA fr ax bx c B 1 (Z.of_nat n1) fl m 21) = Some s' /\
               nth_error P (st_pc s') = Some RET /\ st_frame s' 7 = cf /\ mem_eq (st_mem s') mf.
Proof.
  intros HG Hn Hc Hw. bw. pose proof HALF64_ge.
  assert (Pre : steps 2 E P (stA fr ax bx c B 1 (Z.of_nat n1) fl m 21) =
                Some (stA fr ax bx c B 1 (sub_lo (Z.of_nat n1) 4 0) (flags_sub (Z.of_nat n1) 4 0) m
                          (if Z.of_nat n1 <? 4 then 60%nat else 23%nat))).
  { unfold stV. step'' P.
    step'' P. rewrite cond_l_sub by lia. rewrite (signed_small (Z.of_nat n1)), (signed_small 4) by lia.
    destruct (Z.of_nat n1 <? 4); reflexivity. }
  destruct (Z.ltb_spec (Z.of_nat n1) 4) as [Hlt | Hge].
  - replace 1 with (n - Z.of_nat n1) in HG, Hw, Pre by lia.
    destruct (add10VW_tail n1 fr ax bx c (flags_sub (Z.of_nat n1) 4 0) m cf mf HG ltac:(lia) ltac:(lia) Hc Hw)
      as (N & s' & HS & HR & HF & HM).
    replace 1 with (n - Z.of_nat n1) by lia.
    exists (2 + N)%nat, s'. split; [|split; [exact HR|split]].
    + rewrite (steps_add 2 N _ _ _ _ Pre). exact HS.
    + rewrite HF. apply upd_same.
    + rewrite HM. intro; reflexivity.
  - rewrite (sub_lo_small (Z.of_nat n1) 4 0) in Pre by lia.
    assert (c = 0 \/ c = 1) as [-> | ->] by lia.
    + (* no carry out of the first word *)
      assert (P2 : steps 4 E P (stA fr ax bx 0 B 1 (Z.of_nat n1 - 4 - 0) (flags_sub (Z.of_nat n1) 4 0) m 23) =
                   Some (stA fr ax bx 0 B 1 (Z.of_nat n1 - 4 - 0) (flags_sub (8 * x) (8 * z) 0) m
                             (if 8 * x =? 8 * z then 73%nat else 27%nat))).
      { unfold stV. step'' P. step'' P. rewrite cond_ne_logic. change (negb (Z.land 0 0 =? 0)) with false. cbv beta iota.
        step'' P.
        step'' P. rewrite cond_eq_sub by lia. destruct (8 * x =? 8 * z); reflexivity. }
      destruct (Z.eqb_spec (8 * x) (8 * z)) as [Ezx | Nzx].
      * destruct (add10VW_fin_inplace n1 1 m cf mf HG ltac:(lia) Hn Hw ltac:(lia)) as [Ecf Em].
        destruct (add10VW_E3 fr ax bx 0 B 1 (Z.of_nat n1 - 4 - 0) (flags_sub (8 * x) (8 * z) 0) m) as (s' & HS & HR & HF & HM).
        exists (2 + (4 + 2))%nat, s'. split; [|split; [exact HR|split]].
        -- rewrite (steps_add 2 (4 + 2) _ _ _ _ Pre). rewrite (steps_add 4 2 _ _ _ _ P2). exact HS.
        -- rewrite HF, upd_same. auto.
        -- rewrite HM. exact Em.
      * assert (P3 : steps 3 E P (stA fr ax bx 0 B 1 (Z.of_nat n1 - 4 - 0) (flags_sub (8 * x) (8 * z) 0) m 27) =
                     Some (stA (upd fr 7 0) ax bx 0 B 1 (Z.of_nat n1) (flags_add (Z.of_nat n1 - 4 - 0) 4 0) m 81)).
        { unfold stV. step'' P. rewrite (add_lo_small (Z.of_nat n1 - 4 - 0) 4 0) by lia.
          replace (Z.of_nat n1 - 4 - 0 + 4 + 0) with (Z.of_nat n1) by lia.
          step'' P. step'' P. reflexivity. }
        destruct (add10VW_fin_copy n1 (upd fr 7 0) ax bx 0 B 1 (flags_add (Z.of_nat n1 - 4 - 0) 4 0) m cf mf HG ltac:(lia) Hn Hw)
          as (N & s' & HS & HR & HF & Ecf & Em).
        exists (2 + (4 + (3 + N)))%nat, s'. split; [|split; [exact HR|split]].
        -- rewrite (steps_add 2 (4 + (3 + N)) _ _ _ _ Pre). rewrite (steps_add 4 (3 + N) _ _ _ _ P2).
           rewrite (steps_add 3 N _ _ _ _ P3). exact HS.
        -- rewrite HF, upd_same. auto.
        -- exact Em.
    + (* carry: the unrolled loop *)
      assert (P2 : steps 2 E P (stA fr ax bx 1 B 1 (Z.of_nat n1 - 4 - 0) (flags_sub (Z.of_nat n1) 4 0) m 23) =
                   Some (stA fr ax bx 1 B 1 (Z.of_nat n1 - 4 - 0) (flags_logic (Z.land 1 1)) m 30)).
      { unfold stV. step'' P. step'' P. rewrite cond_ne_logic. change (negb (Z.land 1 1 =? 0)) with true. cbv beta iota.
        reflexivity. }
      set (q := (n1 / 4 - 1)%nat). set (r := (n1 mod 4)%nat).
      assert (En : n1 = (4 * S q + r)%nat).
      { unfold q, r. pose proof (Nat.div_mod n1 4 ltac:(lia)).
        assert (1 <= n1 / 4)%nat by (apply Nat.div_le_lower_bound; lia). lia. }
      assert (Hr : (r < 4)%nat) by (unfold r; apply Nat.mod_upper_bound; lia).
      rewrite En in HG.
      destruct (add10VW_U3_loop q r fr ax bx 1 1 (flags_logic (Z.land 1 1)) m cf mf HG Hr ltac:(lia) ltac:(lia) ltac:(lia) Hw)
        as (N & s' & HS & HR & HF & HM).
      replace (Z.of_nat n1 - 4 - 0) with (4 * Z.of_nat q + Z.of_nat r) in P2, Pre by lia.
      exists (2 + (2 + N))%nat, s'. split; [|auto].
      rewrite (steps_add 2 (2 + N) _ _ _ _ Pre). rewrite (steps_add 2 N _ _ _ _ P2). exact HS.
Qed.
End Add10VW.

Theorem asm_add10VW_correct E n z x y rs m :
  8 * e_msize E <= W64 ->
  0 <= z -> z + Z.of_nat n <= e_msize E -> 0 <= x -> x + Z.of_nat n <= e_msize E ->
  asc_ok z x (Z.of_nat n) -> 0 <= y < B -> words_ok (rd m x n) = true ->
  exists N s', (forall f, run (N + S f) E prog_add10VW
                             (init_state rs (slice z n ++ slice x n ++ [y]) m) = Some s') /\
               st_frame s' 7 = snd (spec_add10VW (rd m x n) y) /\
               mem_eq (st_mem s') (wr m z (fst (spec_add10VW (rd m x n) y))).
Proof.
  intros Hm Hz0 Hz1 Hx0 Hx1 Ha Hy Hwx. bw. pose proof HALF64_ge.
  assert (HnH : Z.of_nat n < HALF64) by lia.
  destruct rs as [ax bx cx dx si di r8 r9 r10 r11 r12 r13 r14].
  unfold init_state.
  set (fr := frame_of (slice z n ++ slice x n ++ [y])).
  assert (F0 : fr 0 = 8 * z) by reflexivity. assert (F1 : fr 1 = Z.of_nat n) by reflexivity.
  assert (F3 : fr 3 = 8 * x) by reflexivity. assert (F6 : fr 6 = y) by reflexivity. clearbody fr.
  unfold spec_add10VW, nlen, Bn. cbn [fst snd]. rewrite rd_length, zlen_rd.
  assert (Goal' : exists N s', steps N E prog_add10VW
                    (mkState (mkRegs ax bx cx dx si di r8 r9 r10 r11 r12 r13 r14) flags0 m fr 0) = Some s' /\
                  nth_error prog_add10VW (st_pc s') = Some RET /\
                  st_frame s' 7 = (val (rd m x n) + y) / B ^ Z.of_nat n /\
                  mem_eq (st_mem s') (wr m z (to_words n (val (rd m x n) + y)))).
  { destruct n as [|n1].
    - (* empty vector: return y *)
      eexists 10%nat, _. split.
      + step'' prog_add10VW. rewrite F1. step'' prog_add10VW. rewrite F3.
        step'' prog_add10VW. rewrite F6. step'' prog_add10VW. rewrite F0.
        step'' prog_add10VW. step'' prog_add10VW. step'' prog_add10VW.
        step'' prog_add10VW. rewrite cond_l_sub by (change (Z.of_nat 0) with 0; lia).
        change (Z.of_nat 0) with 0. rewrite (signed_small 0), (signed_small 1) by lia.
        change (0 <? 1) with true. cbv beta iota.
        step'' prog_add10VW. step'' prog_add10VW. reflexivity.
      + cbn [st_pc st_frame st_mem]. rewrite upd_same.
        cbn [rd val to_words wr]. change (B ^ Z.of_nat 0) with 1. rewrite Z.div_1_r.
        split; [reflexivity|]. split; [lia|]. intro; reflexivity.
    - (* first word, then the rest *)
      pose proof (rd_words_ok_nth m x (S n1) Hwx) as Hwn.
      assert (Hw0 : wfrom x (Z.of_nat (S n1)) m 0) by (intros j Hj; apply Hwn; lia).
      pose proof (Hw0 0 ltac:(lia)) as Hx_0. rewrite Z.add_0_r in Hx_0.
      set (w0 := (m x + y) mod B). set (c0 := (m x + y) / B).
      assert (Hc0 : 0 <= c0 <= 1).
      { unfold c0. split; [apply Z.div_pos; lia|].
        assert ((m x + y) / B < 2) by (apply Z.div_lt_upper_bound; lia). lia. }
      assert (Pre : exists bx' fl', steps 21 E prog_add10VW
                (mkState (mkRegs ax bx cx dx si di r8 r9 r10 r11 r12 r13 r14) flags0 m fr 0) =
              Some (stV z x r9 r12 r13 r14 fr r11 (Z.land B bx') c0 c0 B 1 (Z.of_nat n1) fl' (upd m z w0) 21)).
      { unfold stV. do 2 eexists.
        step'' prog_add10VW. rewrite F1. step'' prog_add10VW. rewrite F3.
        step'' prog_add10VW. rewrite F6. step'' prog_add10VW. rewrite F0.
        step'' prog_add10VW. step'' prog_add10VW. replace 10000000000000000000 with B by (rewrite B_eq; reflexivity).
        step'' prog_add10VW. rewrite (sub_lo_small (Z.of_nat (S n1)) 1 0) by lia.
        replace (Z.of_nat (S n1) - 1 - 0) with (Z.of_nat n1) by lia.
        step'' prog_add10VW. rewrite cond_l_sub by lia. rewrite (signed_small (Z.of_nat (S n1))), (signed_small 1) by lia.
        destruct (Z.ltb_spec (Z.of_nat (S n1)) 1); [lia|]. cbv beta iota.
        step'' prog_add10VW. ld x.
        step'' prog_add10VW. step'' prog_add10VW. step'' prog_add10VW. step'' prog_add10VW.
        step'' prog_add10VW. step'' prog_add10VW. step'' prog_add10VW. step'' prog_add10VW.
        step'' prog_add10VW.
        step'' prog_add10VW. st z.
        step'' prog_add10VW.
        step'' prog_add10VW. rewrite (add_lo_small 0 1 0) by lia. change (0 + 1 + 0) with 1.
        destruct (addw0_eq (m x) y bx Hx_0 Hy) as [E1 E2]. cbv zeta in E1, E2. fold w0 c0 in E1, E2.
        rewrite E1, E2. reflexivity. }
      destruct Pre as (bx' & fl' & Pre).
      destruct (rip n1 z x 1 c0 (upd m z w0)) as [cf mf] eqn:EL.
      assert (Hw1 : wfrom x (Z.of_nat (S n1)) (upd m z w0) 1).
      { replace z with (z + 0) by lia. apply (wfrom_upd z x (Z.of_nat (S n1)) m 0 w0 Ha ltac:(lia) Hw0). }
      destruct (add10VW_rest E z x (Z.of_nat (S n1)) r9 r11 r12 r13 r14 Hm Ha Hx0 Hz0 Hx1 Hz1 HnH
                  n1 fr (Z.land B bx') c0 c0 fl' (upd m z w0) cf mf EL ltac:(lia) Hc0 Hw1)
        as (N & s' & HS & HR & HF & HM).
      exists (21 + N)%nat, s'. split; [|split; [exact HR|]].
      { rewrite (steps_add 21 N _ _ _ _ Pre). exact HS. }
      (* arithmetic: first word + propagation = the specification *)
      apply words_ok_rd_S in Hwx as [_ Wx].
      assert (Ex : rd (upd m z w0) (x + 1) n1 = rd m (x + 1) n1)
        by (apply rd_upd_outside; unfold asc_ok in Ha; lia).
      destruct (rip_spec (Z.of_nat (S n1)) z x Ha n1 1 c0 (upd m z w0)) as [IHc IHm]; try lia;
        try (rewrite Ex; assumption).
      rewrite EL in IHc, IHm. cbn [fst snd] in IHc, IHm. rewrite Ex in IHc, IHm.
      rewrite rd_S. cbn [val]. set (X := val (rd m (x + 1) n1)) in *.
      destruct (div_mod_step (m x + y) X) as [Ed Em].
      replace (m x + B * X + y) with (m x + y + B * X) by ring.
      rewrite pow_S_div, to_words_S, Ed, Em. fold c0 w0.
      replace (c0 + X) with (X + c0) by ring.
      split; [rewrite HF; exact IHc|]. cbn [wr]. intros a. rewrite HM. apply IHm. }
  destruct Goal' as (N & s' & HS & HR & HF & HM).
  exists N, s'. split.
  - intros f. rewrite (run_steps N (S f) _ _ _ _ HS). now apply run_ret.
  - split; assumption.
Qed.

(* ================================================================ sub10VW *)
(* MOVQ x[i], r; SUBQ CX, r; SBBQ CX, CX; MOVQ DX, AX; ANDQ CX, AX; ADDQ AX, r; NEGQ CX *)
Lemma subw_eq xi c : 0 <= xi < B -> 0 <= c < B ->
  let k := b2z (xi - c - 0 <? 0) in
  k = snd (rws xi c) /\ add_lo (sub_lo xi c 0) (Z.land B (neg64 k)) 0 = fst (rws xi c).
Proof.
  intros Hx Hc k. bw. subst k. unfold rws. rewrite Z.sub_0_r.
  destruct (Z.ltb_spec (xi - c) 0); cbn [b2z fst snd]; split; try reflexivity.
  - rewrite neg64_1, land_max_r by lia. rewrite sub_lo_under by lia. rewrite add_lo_over by lia. lia.
  - rewrite neg64_0, Z.land_0_r. rewrite sub_lo_small by lia. rewrite add_lo_small by lia. lia.
Qed.

Lemma mask_zero c : 0 <= c <= 1 -> (neg64 c =? 0) = (c =? 0).
Proof.
  intros H. w64. destruct (neg64_cases c H) as [[-> ->] | [-> ->]]; [reflexivity|].
  destruct (Z.eqb_spec MAX64 0); [lia | reflexivity].
Qed.

Lemma cond_cc_neg c a b d : 0 <= c <= 1 ->
  cond_holds CondCC (mkFlags (Some (negb (neg64 c =? 0))) a b d) = Some (c =? 0).
Proof. intros H. cbn [cond_holds fCF option_map]. rewrite negb_involutive, mask_zero by assumption. reflexivity. Qed.

Section Sub10VW.
Variables (E : env) (z x n : Z).
Variables (r9 r12 r13 r14 : Z).
Hypothesis Hm : 8 * e_msize E <= W64.
Hypothesis Ha : asc_ok z x n.
Hypothesis Hx0 : 0 <= x.
Hypothesis Hz0 : 0 <= z.
Hypothesis Hx1 : x + n <= e_msize E.
Hypothesis Hz1 : z + n <= e_msize E.
Hypothesis HnH : n < HALF64.

Notation stS fr r11 := (stV z x r9 r12 r13 r14 fr r11).
Notation P := prog_sub10VW.

(* the eight-instruction word step of the unrolled loop; xi names the loaded word *)
Ltac subw ax az xi c Hxi Hc :=
  step'' P; ld ax; rewrite ?upd_other by (unfold asc_ok in Ha; lia); fold xi;
  step'' P;
  step'' P; rewrite sbb_self by apply b2z_01;
  step'' P;
  step'' P;
  step'' P;
  step'' P; st az;
  step'' P;
  let E0 := fresh "E" in let E1 := fresh "E" in
  destruct (subw_eq xi c Hxi Hc) as (E0 & E1); cbv zeta in E0, E1;
  rewrite E1, E0; clear E0 E1; rewrite neg64_neg64 by apply rws_carry.

Lemma rips_4 k i c m : 0 <= i -> i + 4 <= n ->
  let w0 := rws (m (x + i)) c in
  let w1 := rws (m (x + i + 1)) (snd w0) in
  let w2 := rws (m (x + i + 2)) (snd w1) in
  let w3 := rws (m (x + i + 3)) (snd w2) in
  rips (S (S (S (S k)))) z x i c m =
  rips k z x (i + 4) (snd w3)
    (upd (upd (upd (upd m (z + i) (fst w0)) (z + i + 1) (fst w1)) (z + i + 2) (fst w2)) (z + i + 3) (fst w3)).
Proof.
  intros Hi0 Hi4 w0 w1 w2 w3. unfold asc_ok in Ha.
  rewrite !rips_S.
  rewrite !upd_other by lia.
  replace (x + (i + 1)) with (x + i + 1) by lia.
  replace (x + (i + 1 + 1)) with (x + i + 2) by lia.
  replace (x + (i + 1 + 1 + 1)) with (x + i + 3) by lia.
  replace (z + (i + 1)) with (z + i + 1) by lia. replace (z + (i + 1 + 1)) with (z + i + 2) by lia.
  replace (z + (i + 1 + 1 + 1)) with (z + i + 3) by lia. replace (i + 1 + 1 + 1 + 1) with (i + 4) by lia.
  reflexivity.
Qed.

(* L4: one word (through R11) *)
Lemma sub10VW_L4_iter fr r11 ax bx i k c fl m :
  0 <= i < n -> 1 <= k < HALF64 -> 0 <= c < B -> 0 <= m (x + i) < B ->
  let w := rws (m (x + i)) c in
  exists fl',
    steps 12 E P (stS fr r11 ax bx c B i k fl m 48) =
    Some (stS fr (fst w) (Z.land B (neg64 (snd w))) bx (snd w) B (i + 1) (k - 1) fl' (upd m (z + i) (fst w))
              (if 1 <? k then 48%nat else 60%nat)).
Proof.
  intros Hi Hk Hc Hxi w. bw. pose proof HALF64_ge. unfold stV.
  set (xi := m (x + i)) in *. eexists.
  step'' P.
  step'' P. ld (x + i). fold xi.
  step'' P.
  step'' P. rewrite sbb_self by apply b2z_01.
  step'' P.
  step'' P.
  step'' P.
  step'' P.
  step'' P. st (z + i).
  destruct (subw_eq xi c Hxi Hc) as (E0 & E1). cbv zeta in E0, E1.
  rewrite E1, E0. clear E0 E1. rewrite neg64_neg64 by apply rws_carry. fold w.
  step'' P. rewrite (add_lo_small i 1 0) by lia. replace (i + 1 + 0) with (i + 1) by lia.
  step'' P. rewrite (sub_lo_small k 1 0) by lia. replace (k - 1 - 0) with (k - 1) by lia.
  step'' P. rewrite cond_g_sub by lia. rewrite (signed_small 1), (signed_small k) by lia.
  destruct (1 <? k); cbv beta iota; cbn [steps]; reflexivity.
Qed.

(* U4: four words, then JCC on the carry flag left by the last NEGQ *)
Lemma sub10VW_block fr r11 ax bx i d c fl m :
  0 <= i -> i + 4 <= n -> 0 <= c < B -> wfrom x n m i ->
  let w0 := rws (m (x + i)) c in
  let w1 := rws (m (x + i + 1)) (snd w0) in
  let w2 := rws (m (x + i + 2)) (snd w1) in
  let w3 := rws (m (x + i + 3)) (snd w2) in
  exists fl',
    steps 35 E P (stS fr r11 ax bx c B i d fl m 8) =
    Some (stS fr r11 (Z.land B (neg64 (snd w3))) (fst w3) (snd w3) B (i + 4) d fl'
              (upd (upd (upd (upd m (z + i) (fst w0)) (z + i + 1) (fst w1)) (z + i + 2) (fst w2)) (z + i + 3) (fst w3))
              (if snd w3 =? 0 then 63%nat else 43%nat)).
Proof.
  intros Hi Hi4 Hc Hw w0 w1 w2 w3. bw. pose proof HALF64_ge. unfold stV.
  pose proof (Hw i ltac:(lia)) as Hx_0. pose proof (Hw (i + 1) ltac:(lia)) as Hx_1.
  pose proof (Hw (i + 2) ltac:(lia)) as Hx_2. pose proof (Hw (i + 3) ltac:(lia)) as Hx_3.
  rewrite !Z.add_assoc in Hx_1, Hx_2, Hx_3.
  set (x0 := m (x + i)) in *. set (x1 := m (x + i + 1)) in *.
  set (x2 := m (x + i + 2)) in *. set (x3 := m (x + i + 3)) in *.
  pose proof (rws_carry x0 c) as Hc0. fold w0 in Hc0.
  pose proof (rws_carry x1 (snd w0)) as Hc1. fold w1 in Hc1.
  pose proof (rws_carry x2 (snd w1)) as Hc2. fold w2 in Hc2.
  pose proof (rws_carry x3 (snd w2)) as Hc3. fold w3 in Hc3.
  assert (Hb0 : 0 <= snd w0 < B) by lia. assert (Hb1 : 0 <= snd w1 < B) by lia.
  assert (Hb2 : 0 <= snd w2 < B) by lia.
  eexists.
  step'' P.
  subw (x + i) (z + i) x0 c Hx_0 Hc. fold w0.
  subw (x + i + 1) (z + i + 1) x1 (snd w0) Hx_1 Hb0. fold w1.
  subw (x + i + 2) (z + i + 2) x2 (snd w1) Hx_2 Hb1. fold w2.
  subw (x + i + 3) (z + i + 3) x3 (snd w2) Hx_3 Hb2. fold w3.
  step'' P. replace (wrap (4 + i + 0)) with (i + 4) by (rewrite wrap_small; lia).
  step'' P. rewrite cond_cc_neg by assumption.
  destruct (snd w3 =? 0); cbv beta iota; cbn [steps]; reflexivity.
Qed.

(* the borrow is absorbed: nothing more to do in place, decCpy otherwise *)
Lemma sub10VW_fin_inplace (k : nat) i m cf mf :
  rips k z x i 0 m = (cf, mf) -> 0 <= i -> i + Z.of_nat k = n -> wfrom x n m i ->
  z = x -> cf = 0 /\ mem_eq m mf.
Proof.
  intros HG Hi Hk Hw Ezx.
  destruct (cpa_rips z x n m i k m Ha Hw Hi Hk) as [E1 E2].
  { rewrite Ezx. apply cpa_self. }
  rewrite HG in E1, E2. cbn [fst snd] in *. auto.
Qed.

Lemma sub10VW_fin_copy (k : nat) fr r11 ax bx cx dx i fl m cf mf :
  rips k z x i 0 m = (cf, mf) -> 0 <= i -> i + Z.of_nat k = n -> wfrom x n m i ->
  exists N s', steps N E P (stS fr r11 ax bx cx dx i (Z.of_nat k) fl m 68) = Some s' /\
               nth_error P (st_pc s') = Some RET /\ st_frame s' = fr /\ cf = 0 /\ mem_eq (st_mem s') mf.
Proof.
  intros HG Hi Hk Hw.
  destruct (cpyS_all E z x n fr m r9 r11 r12 r13 r14 Hm Ha Hx0 Hz0 Hx1 Hz1 HnH k i ax bx cx dx fl Hi Hk)
    as (N & s' & HS & HR & HF & HC).
  destruct (cpa_rips z x n m i k (st_mem s') Ha Hw Hi Hk HC) as [E1 E2].
  rewrite HG in E1, E2. cbn [fst snd] in *.
  exists N, s'. auto.
Qed.

(* E4: MOVQ CX, c+56(FP); RET *)
Lemma sub10VW_E4 fr r11 ax bx cx dx si di fl m :
  exists s', steps 2 E P (stS fr r11 ax bx cx dx si di fl m 60) = Some s' /\
             nth_error P (st_pc s') = Some RET /\ st_frame s' = upd fr 7 cx /\ st_mem s' = m.
Proof.
  eexists. split.
  - unfold stV. step'' P. step'' P. reflexivity.
  - cbn [st_pc st_frame st_mem]. repeat split.
Qed.

(* C4: no borrow out of a block *)
Lemma sub10VW_absorbed (k : nat) fr r11 ax bx dx i fl m cf mf :
  rips k z x i 0 m = (cf, mf) -> 1 <= i -> i + Z.of_nat k = n -> wfrom x n m i ->
  exists N s', steps N E P (stS fr r11 ax bx 0 dx i (Z.of_nat k) fl m 63) = Some s' /\
               nth_error P (st_pc s') = Some RET /\ st_frame s' 7 = cf /\ mem_eq (st_mem s') mf.
Proof.
  intros HG Hi1 Hk Hw. bw. pose proof HALF64_ge. assert (Hi : 0 <= i) by lia.
  assert (Pre : steps 3 E P (stS fr r11 ax bx 0 dx i (Z.of_nat k) fl m 63) =
                Some (stS fr r11 ax bx 0 dx i (Z.of_nat k) (flags_sub (8 * x) (8 * z) 0) m
                          (if 8 * x =? 8 * z then 60%nat else 66%nat))).
  { unfold stV. step'' P. step'' P.
    step'' P. rewrite cond_eq_sub by lia. destruct (8 * x =? 8 * z); reflexivity. }
  destruct (Z.eqb_spec (8 * x) (8 * z)) as [Ezx | Nzx].
  - destruct (sub10VW_fin_inplace k i m cf mf HG Hi Hk Hw ltac:(lia)) as [Ecf Em].
    destruct (sub10VW_E4 fr r11 ax bx 0 dx i (Z.of_nat k) (flags_sub (8 * x) (8 * z) 0) m) as (s' & HS & HR & HF & HM).
    exists (3 + 2)%nat, s'. split; [|split; [exact HR|split]].
    + rewrite (steps_add 3 2 _ _ _ _ Pre). exact HS.
    + rewrite HF, upd_same. auto.
    + rewrite HM. exact Em.
  - assert (P2 : steps 2 E P (stS fr r11 ax bx 0 dx i (Z.of_nat k) (flags_sub (8 * x) (8 * z) 0) m 66) =
                 Some (stS (upd fr 7 0) r11 ax bx 0 dx i (Z.of_nat k) (flags_sub (8 * x) (8 * z) 0) m 68)).
    { unfold stV. step'' P. step'' P. reflexivity. }
    destruct (sub10VW_fin_copy k (upd fr 7 0) r11 ax bx 0 dx i (flags_sub (8 * x) (8 * z) 0) m cf mf HG Hi Hk Hw)
      as (N & s' & HS & HR & HF & Ecf & Em).
    exists (3 + (2 + N))%nat, s'. split; [|split; [exact HR|split]].
    + rewrite (steps_add 3 (2 + N) _ _ _ _ Pre). rewrite (steps_add 2 N _ _ _ _ P2). exact HS.
    + rewrite HF, upd_same. auto.
    + exact Em.
Qed.

(* L4: the single-word loop *)
Lemma sub10VW_L4_loop r : forall fr r11 ax bx i c fl m cf mf,
  rips (S r) z x i c m = (cf, mf) ->
  0 <= i -> i + Z.of_nat (S r) = n -> 0 <= c < B -> wfrom x n m i ->
  exists N r11' ax' fl',
    steps N E P (stS fr r11 ax bx c B i (Z.of_nat (S r)) fl m 48) =
    Some (stS fr r11' ax' bx cf B n 0 fl' mf 60).
Proof.
  induction r as [|r IH]; intros fr r11 ax bx i c fl m cf mf HG Hi0 Hn Hc Hw;
    rewrite rips_S in HG; pose proof (Hw i ltac:(lia)) as Wx0;
    pose proof (rws_carry (m (x + i)) c) as Hc0; pose proof B_pos as HB; pose proof HALF64_lt_B; pose proof HALF64_ge.
  - destruct (sub10VW_L4_iter fr r11 ax bx i (Z.of_nat 1) c fl m) as (fl1 & HB1); try lia.
    cbn [rips] in HG. apply pair_eq_inv in HG as [E1 E2]. subst cf mf.
    destruct (Z.ltb_spec 1 (Z.of_nat 1)); [lia|].
    exists 12%nat. do 3 eexists. rewrite HB1.
    replace (i + 1) with n by lia. reflexivity.
  - destruct (sub10VW_L4_iter fr r11 ax bx i (Z.of_nat (S (S r))) c fl m) as (fl1 & HB1); try lia.
    destruct (Z.ltb_spec 1 (Z.of_nat (S (S r)))); [|lia].
    replace (Z.of_nat (S (S r)) - 1) with (Z.of_nat (S r)) in HB1 by lia.
    destruct (IH fr (fst (rws (m (x + i)) c)) (Z.land B (neg64 (snd (rws (m (x + i)) c)))) bx (i + 1) _ fl1 _ cf mf HG)
      as (N & e2 & a2 & fl2 & HS2); try lia.
    { apply wfrom_upd; [exact Ha | lia | exact Hw]. }
    exists (12 + N)%nat, e2, a2, fl2.
    rewrite (steps_add 12 N _ _ _ _ HB1). exact HS2.
Qed.

(* V4: fewer than four words left *)
Lemma sub10VW_tail (r : nat) fr r11 ax bx c fl m cf mf :
  rips r z x (n - Z.of_nat r) c m = (cf, mf) ->
  (r < 4)%nat -> Z.of_nat r <= n -> 0 <= c < B -> wfrom x n m (n - Z.of_nat r) ->
  exists N s', steps N E P (stS fr r11 ax bx c B (n - Z.of_nat r) (sub_lo (Z.of_nat r) 4 0) fl m 45) = Some s' /\
               nth_error P (st_pc s') = Some RET /\ st_frame s' = upd fr 7 cf /\ st_mem s' = mf.
Proof.
  intros HG Hr Hrn Hc Hw. bw.
  assert (Esub : sub_lo (Z.of_nat r) 4 0 = Z.of_nat r - 4 + W64) by (rewrite sub_lo_under; lia).
  assert (Pre : steps 3 E P (stS fr r11 ax bx c B (n - Z.of_nat r) (sub_lo (Z.of_nat r) 4 0) fl m 45) =
          Some (stS fr r11 ax bx c B (n - Z.of_nat r) (Z.of_nat r)
                    (flags_add (sub_lo (Z.of_nat r) 4 0) 4 0) m (if Z.of_nat r <=? 0 then 60%nat else 48%nat))).
  { pose proof (sub_lo_range (Z.of_nat r) 4 0) as Hsr. pose proof HALF64_ge.
    unfold stV. step'' P. step'' P.
    replace (add_lo (sub_lo (Z.of_nat r) 4 0) 4 0) with (Z.of_nat r) by (rewrite Esub, add_lo_over; lia).
    step'' P. rewrite cond_le_add by lia.
    replace (signed (sub_lo (Z.of_nat r) 4 0)) with (Z.of_nat r - 4)
      by (rewrite Esub; destruct (signed_cases (Z.of_nat r - 4 + W64)) as [[? ?] | [? ->]]; lia).
    rewrite (signed_small 4) by lia. replace (Z.of_nat r - 4 + 4) with (Z.of_nat r) by lia.
    destruct (Z.of_nat r <=? 0); reflexivity. }
  destruct r as [|r].
  - cbn [rips] in HG. apply pair_eq_inv in HG as [E1 E2]. subst cf mf.
    change (Z.of_nat 0 <=? 0) with true in Pre. cbv iota in Pre.
    destruct (sub10VW_E4 fr r11 ax bx c B (n - Z.of_nat 0) (Z.of_nat 0) (flags_add (sub_lo (Z.of_nat 0) 4 0) 4 0) m)
      as (s' & HS & HR & HF & HM).
    exists (3 + 2)%nat, s'. split; [|auto].
    rewrite (steps_add 3 2 _ _ _ _ Pre). exact HS.
  - destruct (Z.leb_spec (Z.of_nat (S r)) 0); [lia|].
    destruct (sub10VW_L4_loop r fr r11 ax bx (n - Z.of_nat (S r)) c
                (flags_add (sub_lo (Z.of_nat (S r)) 4 0) 4 0) m cf mf HG)
      as (N & e2 & a2 & fl2 & HS2); try lia; try assumption.
    destruct (sub10VW_E4 fr e2 a2 bx cf B n 0 fl2 mf) as (s' & HS & HR & HF & HM).
    exists (3 + (N + 2))%nat, s'. split; [|auto].
    rewrite (steps_add 3 (N + 2) _ _ _ _ Pre). rewrite (steps_add N 2 _ _ _ _ HS2). exact HS.
Qed.

(* U4: the unrolled loop, left through C4 (borrow absorbed) or V4 *)
Lemma sub10VW_U4_loop q : forall (r : nat) fr r11 ax bx i c fl m cf mf,
  rips (4 * S q + r) z x i c m = (cf, mf) ->
  (r < 4)%nat -> 0 <= i -> i + 4 * Z.of_nat (S q) + Z.of_nat r = n ->
  0 <= c < B -> wfrom x n m i ->
  exists N s', steps N E P (stS fr r11 ax bx c B i (4 * Z.of_nat q + Z.of_nat r) fl m 8) = Some s' /\
               nth_error P (st_pc s') = Some RET /\ st_frame s' 7 = cf /\ mem_eq (st_mem s') mf.
Proof.
  induction q as [|q IH]; intros r fr r11 ax bx i c fl m cf mf HG Hr Hi0 Hn Hc Hw; bw; pose proof HALF64_ge.
  - replace (4 * 1 + r)%nat with (S (S (S (S r)))) in HG by lia.
    replace (4 * Z.of_nat 0 + Z.of_nat r) with (Z.of_nat r) by lia.
    rewrite (rips_4 r i c m Hi0 ltac:(lia)) in HG.
    destruct (sub10VW_block fr r11 ax bx i (Z.of_nat r) c fl m Hi0 ltac:(lia) Hc Hw) as (fl1 & HB1).
    cbv zeta in HB1, HG.
    set (w3 := rws (m (x + i + 3)) _) in *. pose proof (rws_carry (m (x + i + 3)) (snd (rws (m (x + i + 2)) (snd (rws (m (x + i + 1)) (snd (rws (m (x + i)) c))))))) as Hc3.
    fold w3 in Hc3.
    match type of HB1 with _ = Some (stV _ _ _ _ _ _ _ _ _ _ _ _ _ _ _ ?mm _) => set (m4 := mm) in * end.
    assert (Hw4 : wfrom x n m4 (i + 4)) by (apply wfrom_upd4; assumption).
    destruct (Z.eqb_spec (snd w3) 0) as [E0 | N0].
    + rewrite E0 in HB1, HG.
      destruct (sub10VW_absorbed r fr r11 (Z.land B (neg64 0)) (fst w3) B (i + 4) fl1 m4 cf mf HG ltac:(lia) ltac:(lia) Hw4)
        as (N & s' & HS & HR & HF & HM).
      exists (35 + N)%nat, s'. split; [|auto]. rewrite (steps_add 35 N _ _ _ _ HB1). exact HS.
    + assert (P2 : steps 2 E P (stS fr r11 (Z.land B (neg64 (snd w3))) (fst w3) (snd w3) B (i + 4) (Z.of_nat r) fl1 m4 43) =
                   Some (stS fr r11 (Z.land B (neg64 (snd w3))) (fst w3) (snd w3) B (i + 4) (sub_lo (Z.of_nat r) 4 0)
                             (flags_sub (Z.of_nat r) 4 0) m4 45)).
      { unfold stV. step'' P. step'' P. rewrite cond_ge_sub by lia.
        rewrite (signed_small 4), (signed_small (Z.of_nat r)) by lia.
        destruct (Z.leb_spec 4 (Z.of_nat r)); [lia|]. cbv beta iota. cbn [steps].
        reflexivity. }
      replace (i + 4) with (n - Z.of_nat r) in * by lia.
      destruct (sub10VW_tail r fr r11 (Z.land B (neg64 (snd w3))) (fst w3) (snd w3) (flags_sub (Z.of_nat r) 4 0) m4 cf mf HG Hr ltac:(lia) ltac:(lia) Hw4)
        as (N & s' & HS & HR & HF & HM).
      exists (35 + (2 + N))%nat, s'. split; [|split; [exact HR|split]].
      * rewrite (steps_add 35 (2 + N) _ _ _ _ HB1). rewrite (steps_add 2 N _ _ _ _ P2). exact HS.
      * rewrite HF. apply upd_same.
      * rewrite HM. intro; reflexivity.
  - replace (4 * S (S q) + r)%nat with (S (S (S (S (4 * S q + r))))) in HG by lia.
    rewrite (rips_4 _ i c m Hi0 ltac:(lia)) in HG.
    destruct (sub10VW_block fr r11 ax bx i (4 * Z.of_nat (S q) + Z.of_nat r) c fl m Hi0 ltac:(lia) Hc Hw) as (fl1 & HB1).
    cbv zeta in HB1, HG.
    set (w3 := rws (m (x + i + 3)) _) in *. pose proof (rws_carry (m (x + i + 3)) (snd (rws (m (x + i + 2)) (snd (rws (m (x + i + 1)) (snd (rws (m (x + i)) c))))))) as Hc3.
    fold w3 in Hc3.
    match type of HB1 with _ = Some (stV _ _ _ _ _ _ _ _ _ _ _ _ _ _ _ ?mm _) => set (m4 := mm) in * end.
    assert (Hw4 : wfrom x n m4 (i + 4)) by (apply wfrom_upd4; assumption).
    destruct (Z.eqb_spec (snd w3) 0) as [E0 | N0].
    + rewrite E0 in HB1, HG.
      destruct (sub10VW_absorbed (4 * S q + r) fr r11 (Z.land B (neg64 0)) (fst w3) B (i + 4) fl1 m4 cf mf HG ltac:(lia) ltac:(lia) Hw4)
        as (N & s' & HS & HR & HF & HM).
      replace (Z.of_nat (4 * S q + r)) with (4 * Z.of_nat (S q) + Z.of_nat r) in HS by lia.
      exists (35 + N)%nat, s'. split; [|auto]. rewrite (steps_add 35 N _ _ _ _ HB1). exact HS.
    + assert (P2 : steps 2 E P (stS fr r11 (Z.land B (neg64 (snd w3))) (fst w3) (snd w3) B (i + 4) (4 * Z.of_nat (S q) + Z.of_nat r) fl1 m4 43) =
                   Some (stS fr r11 (Z.land B (neg64 (snd w3))) (fst w3) (snd w3) B (i + 4) (4 * Z.of_nat q + Z.of_nat r)
                             (flags_sub (4 * Z.of_nat (S q) + Z.of_nat r) 4 0) m4 8)).
      { unfold stV. step'' P. step'' P. rewrite cond_ge_sub by lia.
        rewrite (signed_small 4), (signed_small (4 * Z.of_nat (S q) + Z.of_nat r)) by lia.
        destruct (Z.leb_spec 4 (4 * Z.of_nat (S q) + Z.of_nat r)); [|lia]. cbv beta iota. cbn [steps].
        rewrite (sub_lo_small (4 * Z.of_nat (S q) + Z.of_nat r) 4 0) by lia.
        replace (4 * Z.of_nat (S q) + Z.of_nat r - 4 - 0) with (4 * Z.of_nat q + Z.of_nat r) by lia. reflexivity. }
      destruct (IH r fr r11 (Z.land B (neg64 (snd w3))) (fst w3) (i + 4) (snd w3) (flags_sub (4 * Z.of_nat (S q) + Z.of_nat r) 4 0) m4 cf mf HG Hr
                  ltac:(lia) ltac:(lia) ltac:(lia) Hw4) as (N & s' & HS & HR & HF & HM).
      exists (35 + (2 + N))%nat, s'. split; [|auto].
      rewrite (steps_add 35 (2 + N) _ _ _ _ HB1). rewrite (steps_add 2 N _ _ _ _ P2). exact HS.
Qed.
End Sub10VW.

Theorem asm_sub10VW_correct E n z x y rs m :
  8 * e_msize E <= W64 ->
  0 <= z -> z + Z.of_nat n <= e_msize E -> 0 <= x -> x + Z.of_nat n <= e_msize E ->
  asc_ok z x (Z.of_nat n) -> 0 <= y < B -> words_ok (rd m x n) = true ->
  exists N s', (forall f, run (N + S f) E prog_sub10VW
                             (init_state rs (slice z n ++ slice x n ++ [y]) m) = Some s') /\
               st_frame s' 7 = snd (spec_sub10VW (rd m x n) y) /\
               mem_eq (st_mem s') (wr m z (fst (spec_sub10VW (rd m x n) y))).
Proof.
  intros Hm Hz0 Hz1 Hx0 Hx1 Ha Hy Hwx. bw. pose proof HALF64_ge.
  assert (HnH : Z.of_nat n < HALF64) by lia.
  destruct rs as [ax bx cx dx si di r8 r9 r10 r11 r12 r13 r14].
  unfold init_state.
  set (fr := frame_of (slice z n ++ slice x n ++ [y])).
  assert (F0 : fr 0 = 8 * z) by reflexivity. assert (F1 : fr 1 = Z.of_nat n) by reflexivity.
  assert (F3 : fr 3 = 8 * x) by reflexivity. assert (F6 : fr 6 = y) by reflexivity. clearbody fr.
  unfold spec_sub10VW, nlen, Bn. cbn [fst snd]. rewrite rd_length, zlen_rd.
  destruct (rips_spec (Z.of_nat n) z x Ha n 0 y m) as [Gr Gm]; try lia; rewrite ?Z.add_0_r; try assumption.
  cbv zeta in Gr, Gm. rewrite (Z.add_0_r x) in Gr. rewrite (Z.add_0_r x), (Z.add_0_r z) in Gm.
  destruct (rips n z x 0 y m) as [cf mf] eqn:EL. cbn [fst snd] in Gr, Gm.
  pose proof (rd_words_ok_nth m x n Hwx) as Hwn.
  assert (Hw0 : wfrom x (Z.of_nat n) m 0) by (intros j Hj; apply Hwn; lia).
  assert (Pre : steps 8 E prog_sub10VW
            (mkState (mkRegs ax bx cx dx si di r8 r9 r10 r11 r12 r13 r14) flags0 m fr 0) =
          Some (stV z x r9 r12 r13 r14 fr r11 ax bx y B 0 (sub_lo (Z.of_nat n) 4 0)
                    (flags_sub (Z.of_nat n) 4 0) m (if Z.of_nat n <? 4 then 45%nat else 8%nat))).
  { unfold stV.
    step'' prog_sub10VW. rewrite F1. step'' prog_sub10VW. rewrite F3.
    step'' prog_sub10VW. rewrite F6. step'' prog_sub10VW. rewrite F0.
    step'' prog_sub10VW. rewrite Z.lxor_nilpotent.
    step'' prog_sub10VW. replace 10000000000000000000 with B by (rewrite B_eq; reflexivity).
    step'' prog_sub10VW.
    step'' prog_sub10VW. rewrite cond_l_sub by lia. rewrite (signed_small (Z.of_nat n)), (signed_small 4) by lia.
    destruct (Z.of_nat n <? 4); reflexivity. }
  assert (Tail : exists N s', steps N E prog_sub10VW
                    (mkState (mkRegs ax bx cx dx si di r8 r9 r10 r11 r12 r13 r14) flags0 m fr 0) = Some s' /\
                  nth_error prog_sub10VW (st_pc s') = Some RET /\ st_frame s' 7 = cf /\ mem_eq (st_mem s') mf).
  { destruct (Z.ltb_spec (Z.of_nat n) 4) as [Hlt | Hge].
    - (* short vector: only the single-word loop *)
      destruct (sub10VW_tail E z x (Z.of_nat n) r9 r12 r13 r14 Hm Ha Hx0 Hz0 Hx1 Hz1 HnH n fr r11 ax bx y
                  (flags_sub (Z.of_nat n) 4 0) m cf mf) as (N & s' & HS & HR & HF & HM); try lia.
      { now rewrite Z.sub_diag. } { now rewrite Z.sub_diag. }
      rewrite Z.sub_diag in HS.
      exists (8 + N)%nat, s'. split; [|split; [exact HR|split]].
      + rewrite (steps_add 8 N _ _ _ _ Pre). exact HS.
      + rewrite HF. apply upd_same.
      + rewrite HM. intro; reflexivity.
    - (* n = 4 (q + 1) + r *)
      set (q := (n / 4 - 1)%nat). set (r := (n mod 4)%nat).
      assert (En : n = (4 * S q + r)%nat).
      { unfold q, r. pose proof (Nat.div_mod n 4 ltac:(lia)).
        assert (1 <= n / 4)%nat by (apply Nat.div_le_lower_bound; lia). lia. }
      assert (Hr : (r < 4)%nat) by (unfold r; apply Nat.mod_upper_bound; lia).
      rewrite En in EL.
      destruct (sub10VW_U4_loop E z x (Z.of_nat n) r9 r12 r13 r14 Hm Ha Hx0 Hz0 Hx1 Hz1 HnH q r
                  fr r11 ax bx 0 y (flags_sub (Z.of_nat n) 4 0) m cf mf EL)
        as (N1 & s' & HS1 & HR & HF & HM); try lia; try assumption.
      exists (8 + N1)%nat, s'. split; [|auto].
      rewrite (steps_add 8 N1 _ _ _ _ Pre).
      rewrite (sub_lo_small (Z.of_nat n) 4 0) by lia.
      replace (Z.of_nat n - 4 - 0) with (4 * Z.of_nat q + Z.of_nat r) by lia.
      exact HS1. }
  destruct Tail as (N & s' & HS & HR & HF & HM).
  exists N, s'. split.
  - intros f. rewrite (run_steps N (S f) _ _ _ _ HS). now apply run_ret.
  - split; [rewrite HF; exact Gr|]. intros a. rewrite HM. apply Gm.
Qed.
