(* L1/KernAsm.v — calling the generated assembly programs (gen/AsmProgs.v)
   through the interpreter of L1/X86.v with the Go calling convention of
   dec_arith_decl.go (ABI0: arguments then results in consecutive frame
   slots; a slice is base pointer, len, cap).  Definitions only. *)
From Dec Require Export L1.X86 L1.KernSpec.
From Dec Require Import gen.Tables gen.AsmProgs.
Open Scope Z_scope.

(* byte address of the table segment used by the executable harness; the
   theorems of L1/AsmProofs.v are stated for an arbitrary environment *)
Definition harness_tbase : Z := 8 * 1099511627776.

Definition kenv (msize : Z) : env := mkEnv msize harness_tbase (table_words pow10DivTab64).

(* what the assembly assumes about the read-only segment: it holds the table,
   8-aligned, above the data memory and inside the 64-bit address space *)
Definition tab_ok (E : env) : Prop :=
  e_table E = table_words pow10DivTab64 /\ e_tbase E mod 8 = 0 /\
  8 * e_msize E <= e_tbase E /\ e_tbase E + 8 * 54 <= W64.

(* initial register contents of the executable harness: junk, so that a kernel
   depending on a register it did not set would be noticed *)
Definition junk : Z := 12297829382473034410.   (* 0xAAAA...AA *)
Definition regs_junk : regs := mkRegs junk junk junk junk junk junk junk junk junk junk junk junk junk.

Definition slice (base : Z) (n : nat) : list Z := [8 * base; Z.of_nat n; Z.of_nat n].

Definition fuel_for (n : nat) : nat := (64 * (n + 8))%nat.

(* run a program on arguments; results are the nres slots after the nargs arguments *)
Definition call (p : program) (msize : Z) (args : list Z) (nres : nat) (n : nat) (m : mem)
  : option (list Z * mem) :=
  match run (fuel_for n) (kenv msize) p (init_state regs_junk args m) with
  | Some s => Some (rd (st_frame s) (Z.of_nat (length args)) nres, st_mem s)
  | None => None
  end.

(* None = fault; kernels without an assembly version answer with Some None *)
Definition asm_call (k : kcall) (msize : Z) (m : mem) : option (option (list Z * mem)) :=
  match k with
  | KMul10WW x y => Some (call prog_mul10WW msize [x; y] 2 0 m)
  | KDiv10WW x1 x0 y => Some (call prog_div10WW msize [x1; x0; y] 2 0 m)
  | KDiv10W n1 n0 => Some (call prog_div10W msize [n1; n0] 2 0 m)
  | KAdd10VV n z x y => Some (call prog_add10VV msize (slice z n ++ slice x n ++ slice y n) 1 n m)
  | KSub10VV n z x y => Some (call prog_sub10VV msize (slice z n ++ slice x n ++ slice y n) 1 n m)
  | KAdd10VW n z x y => Some (call prog_add10VW msize (slice z n ++ slice x n ++ [y]) 1 n m)
  | KSub10VW n z x y => Some (call prog_sub10VW msize (slice z n ++ slice x n ++ [y]) 1 n m)
  | KShl10VU n z x s => Some (call prog_shl10VU msize (slice z n ++ slice x n ++ [s]) 1 n m)
  | KShr10VU n z x s => Some (call prog_shr10VU msize (slice z n ++ slice x n ++ [s]) 1 n m)
  | KMulAdd10VWW n z x y r => Some (call prog_mulAdd10VWW msize (slice z n ++ slice x n ++ [y; r]) 1 n m)
  | KAddMul10VVW n z x y => Some (call prog_addMul10VVW msize (slice z n ++ slice x n ++ [y]) 1 n m)
  | KDiv10VWW n z x y xn => Some (call prog_div10VWW msize (slice z n ++ slice x n ++ [y; xn]) 1 n m)
  | KDivWVW n z xn x y => Some (call prog_divWVW msize (slice z n ++ [xn] ++ slice x n ++ [y]) 1 n m)
  | _ => None
  end.

