(* L1/KernG.v — Gallina models of the portable Go kernels (`*_g` of
   dec_arith.go, mulAddWWW_g / divWW_g / divWVW_g of arith.go), written statement
   by statement with explicit uint64 wrap-around (the primitives of L1/U64.v
   are bits.Add / bits.Sub / bits.Mul / bits.Div and the wrapping + - on
   uint).  Slices are windows of one word-addressed array (`mem`), identified
   by the word index of their base, so that writes through z are visible
   through x and y when the slices overlap, exactly as in Go; `copy` has
   memmove semantics.  Loops are recursions on the remaining trip count.
   Constants and tables are the generated ones (gen/Consts.v, gen/Tables.v).
   Definitions only; the theorems are in L1/KernGProofs.v. *)
From Dec Require Export L1.KernSpec.
From Dec Require Import gen.Consts gen.Tables.
Open Scope Z_scope.

(* Go shifts of a uint by a constant or variable count: zero when the count
   reaches the width *)
Definition go_shl (x c : Z) : Z := if c <? 64 then shl64 x c else 0.
Definition go_shr (x c : Z) : Z := if c <? 64 then shr64 x c else 0.

(* arith.go *)
Definition g_mulAddWWW (x y c : Z) : Z * Z :=
  let hi := mul_hi x y in
  let lo := mul_lo x y in
  let lo' := add_lo lo c 0 in
  let cc := add_c lo c 0 in
  (add_lo hi cc 0, lo').

Definition g_divWW (u1 u0 v : Z) : Z * Z := (div_q u1 u0 v, div_r u1 u0 v).

(* dec_arith.go: tables *)
Definition g_pow10 (n : Z) : Z := znth pow10tab n.
Definition g_divisorPow10 (n : Z) : Z * Z * Z * Z :=
  nth (Z.to_nat (n - 1)) pow10DivTab64 (0, 0, 0, 0).

Definition g_decDigits64 (x : Z) : Z :=
  let n := znth pow2digitsTab (len64 x) in
  if x <? znth pow10tab (n - 1) then n - 1 else n.

Definition g_nlz10 (x : Z) : Z := c_DW - g_decDigits64 x.

Definition g_trailingZeroDigits (n : Z) : Z :=
  let '(n, d) := if n mod 10000000000000000 =? 0 then (n / 10000000000000000, 16) else (n, 0) in
  let '(n, d) := if n mod 100000000 =? 0 then (n / 100000000, d + 8) else (n, d) in
  let '(n, d) := if n mod 10000 =? 0 then (n / 10000, d + 4) else (n, d) in
  let '(n, d) := if n mod 100 =? 0 then (n / 100, d + 2) else (n, d) in
  if n mod 10 =? 0 then d + 1 else d.

(* func (m magic) div(n Word) (q, r Word) *)
Definition g_magic_div (mg : Z * Z * Z * Z) (n : Z) : Z * Z :=
  match mg with
  | (d, mm, pre, post) =>
      let h := mul_hi (go_shr n pre) mm in
      let q := go_shr h post in
      (q, sub_lo n (mul_lo q d) 0)
  end.

(* div10W_g: Granlund-Montgomery udword / uword division by d = _DB with the
   generated constants N, l, mP, dNorm *)
Definition g_div10W (n1 n0 : Z) : Z * Z :=
  let N := c_div10W_N in
  let d := c_div10W_d in
  let l := c_l in
  let n2 := add_lo (go_shl n1 (N - l)) (go_shr n0 l) 0 in
  let n10 := go_shl n0 (N - l) in
  let _n1 := sar64 n10 (N - 1) in
  let nAdj := add_lo n10 (Z.land _n1 c_dNorm) 0 in
  let q1 := fst (g_mulAddWWW c_mP (sub_lo n2 _n1 0) nAdj) in
  let q1 := add_lo q1 n2 0 in
  let t := not64 q1 in
  let dr := g_mulAddWWW t d n0 in
  let drHi := add_lo (fst dr) (sub_lo n1 d 0) 0 in
  (sub_lo drHi t 0, add_lo (snd dr) (Z.land d drHi) 0).

Definition g_mul10WW (x y : Z) : Z * Z := g_div10W (mul_hi x y) (mul_lo x y).

Definition g_div10WW (u1 u0 v : Z) : Z * Z :=
  let hl := g_mulAddWWW u1 c_DB u0 in
  g_divWW (fst hl) (snd hl) v.

Definition g_add10WWW (x y cIn : Z) : Z * Z :=
  let r := add_lo x y cIn in
  let cc := add_c x y cIn in
  let c1 := if c_DB <=? r then 1 else 0 in
  let cc := Z.lor cc c1 in
  let r := sub_lo r (Z.land c_DB (neg64 cc)) 0 in
  (r, cc).

Definition g_sub10WWW (x y b : Z) : Z * Z :=
  let dd := sub_lo x y b in
  let cc := sub_b x y b in
  let dd := if cc =? 0 then dd else add_lo dd c_DB 0 in
  (dd, cc).

(* copy(z[..k], x[..k]) *)
Definition g_copy (m : mem) (z x : Z) (k : nat) : mem := wr m z (rd m x k).

(* for i := 0; i < n; i++ { z[i], c = add10WWW_g(x[i], y[i], c) } *)
Fixpoint g_add10VV_loop (k : nat) (z x y i c : Z) (m : mem) : Z * mem :=
  match k with
  | O => (c, m)
  | S k' =>
      let r := g_add10WWW (m (x + i)) (m (y + i)) c in
      g_add10VV_loop k' z x y (i + 1) (snd r) (upd m (z + i) (fst r))
  end.
Definition g_add10VV (n : nat) (z x y : Z) (m : mem) : Z * mem := g_add10VV_loop n z x y 0 0 m.

Fixpoint g_sub10VV_loop (k : nat) (z x y i c : Z) (m : mem) : Z * mem :=
  match k with
  | O => (c, m)
  | S k' =>
      let r := g_sub10WWW (m (x + i)) (m (y + i)) c in
      g_sub10VV_loop k' z x y (i + 1) (snd r) (upd m (z + i) (fst r))
  end.
Definition g_sub10VV (n : nat) (z x y : Z) (m : mem) : Z * mem := g_sub10VV_loop n z x y 0 0 m.

(* the carry-propagation loop of add10VW_g, from index i with k words left *)
Fixpoint g_add10VW_loop (k : nat) (z x i c : Z) (m : mem) : Z * mem :=
  match k with
  | O => (c, m)
  | S k' =>
      let s := add_lo (m (x + i)) c 0 in
      if s <? c_DB then (0, g_copy (upd m (z + i) s) (z + i + 1) (x + i + 1) k')
      else g_add10VW_loop k' z x (i + 1) c (upd m (z + i) 0)
  end.
Definition g_add10VW (n : nat) (z x y : Z) (m : mem) : Z * mem :=
  match n with
  | O => (y, m)
  | S n' =>
      let r := g_add10WWW (m x) y 0 in
      g_add10VW_loop n' z x 1 (snd r) (upd m z (fst r))
  end.

Fixpoint g_sub10VW_loop (k : nat) (z x i c : Z) (m : mem) : Z * mem :=
  match k with
  | O => (c, m)
  | S k' =>
      let zi := sub_lo (m (x + i)) c 0 in
      let c' := sub_b (m (x + i)) c 0 in
      if c' =? 0 then (c', g_copy (upd m (z + i) zi) (z + i + 1) (x + i + 1) k')
      else g_sub10VW_loop k' z x (i + 1) c' (upd m (z + i) (add_lo zi c_DB 0))
  end.
Definition g_sub10VW (n : nat) (z x y : Z) (m : mem) : Z * mem := g_sub10VW_loop n z x 0 y m.

(* for i := len(z)-1; i > 0; i-- { t := l; h, l = d.div(x[i-1]); z[i] = t*m + h } ; z[0] = l*m
   k = i of the Go loop *)
Fixpoint g_shl10VU_loop (k : nat) (z x : Z) (d : Z * Z * Z * Z) (mm l : Z) (m : mem) : mem :=
  match k with
  | O => upd m z (mul_lo l mm)
  | S k' =>
      let i := Z.of_nat k in
      let hl := g_magic_div d (m (x + i - 1)) in
      g_shl10VU_loop k' z x d mm (snd hl) (upd m (z + i) (add_lo (mul_lo l mm) (fst hl) 0))
  end.
Definition g_shl10VU (n : nat) (z x s : Z) (m : mem) : Z * mem :=
  if s =? 0 then (0, g_copy m z x n)
  else match n with
       | O => (0, m)
       | S n' =>
           let d := g_divisorPow10 (c_DW - s) in
           let mm := g_pow10 s in
           let rl := g_magic_div d (m (x + Z.of_nat n')) in
           (fst rl, g_shl10VU_loop n' z x d mm (snd rl) m)
       end.

(* for i := 1; i < n; i++ { t := h; h, l = d.div(x[i]); z[i-1] = t + l*m } ; z[n-1] = h *)
Fixpoint g_shr10VU_loop (k : nat) (z x i : Z) (d : Z * Z * Z * Z) (mm h : Z) (m : mem) : mem :=
  match k with
  | O => upd m (z + i - 1) h
  | S k' =>
      let hl := g_magic_div d (m (x + i)) in
      g_shr10VU_loop k' z x (i + 1) d mm (fst hl)
        (upd m (z + i - 1) (add_lo h (mul_lo (snd hl) mm) 0))
  end.
Definition g_shr10VU (n : nat) (z x s : Z) (m : mem) : Z * mem :=
  if s =? 0 then (0, g_copy m z x n)
  else match n with
       | O => (0, m)
       | S n' =>
           let d := g_divisorPow10 s in
           let mm := g_pow10 (c_DW - s) in
           let hr := g_magic_div d (m x) in
           (mul_lo (snd hr) mm, g_shr10VU_loop n' z x 1 d mm (fst hr) m)
       end.

Fixpoint g_mulAdd10VWW_loop (k : nat) (z x y i c : Z) (m : mem) : Z * mem :=
  match k with
  | O => (c, m)
  | S k' =>
      let hl := g_mulAddWWW (m (x + i)) y c in
      let qr := g_div10W (fst hl) (snd hl) in
      g_mulAdd10VWW_loop k' z x y (i + 1) (fst qr) (upd m (z + i) (snd qr))
  end.
Definition g_mulAdd10VWW (n : nat) (z x y r : Z) (m : mem) : Z * mem :=
  g_mulAdd10VWW_loop n z x y 0 r m.

Fixpoint g_addMul10VVW_loop (k : nat) (z x y i c : Z) (m : mem) : Z * mem :=
  match k with
  | O => (c, m)
  | S k' =>
      let hz := g_mulAddWWW (m (x + i)) y (m (z + i)) in
      let lo := add_lo (snd hz) c 0 in
      let cc := add_c (snd hz) c 0 in
      let qr := g_div10W (add_lo (fst hz) cc 0) lo in
      g_addMul10VVW_loop k' z x y (i + 1) (fst qr) (upd m (z + i) (snd qr))
  end.
Definition g_addMul10VVW (n : nat) (z x y : Z) (m : mem) : Z * mem :=
  g_addMul10VVW_loop n z x y 0 0 m.

(* for i := n-1; i >= 0; i-- { z[i], r = div10WW_g(r, x[i], y) } ; k = i+1 *)
Fixpoint g_div10VWW_loop (k : nat) (z x y r : Z) (m : mem) : Z * mem :=
  match k with
  | O => (r, m)
  | S k' =>
      let i := Z.of_nat k' in
      let qr := g_div10WW r (m (x + i)) y in
      g_div10VWW_loop k' z x y (snd qr) (upd m (z + i) (fst qr))
  end.
Definition g_div10VWW (n : nat) (z x y xn : Z) (m : mem) : Z * mem := g_div10VWW_loop n z x y xn m.

Fixpoint g_divWVW_loop (k : nat) (z x y r : Z) (m : mem) : Z * mem :=
  match k with
  | O => (r, m)
  | S k' =>
      let i := Z.of_nat k' in
      let qr := g_divWW r (m (x + i)) y in
      g_divWVW_loop k' z x y (snd qr) (upd m (z + i) (fst qr))
  end.
Definition g_divWVW (n : nat) (z xn x y : Z) (m : mem) : Z * mem := g_divWVW_loop n z x y xn m.

Definition gres (r : Z * mem) : list Z * mem := ([fst r], snd r).

Definition g_call (k : kcall) (m : mem) : list Z * mem :=
  match k with
  | KMul10WW x y => let r := g_mul10WW x y in ([fst r; snd r], m)
  | KDiv10WW x1 x0 y => let r := g_div10WW x1 x0 y in ([fst r; snd r], m)
  | KDiv10W n1 n0 => let r := g_div10W n1 n0 in ([fst r; snd r], m)
  | KAdd10VV n z x y => gres (g_add10VV n z x y m)
  | KSub10VV n z x y => gres (g_sub10VV n z x y m)
  | KAdd10VW n z x y => gres (g_add10VW n z x y m)
  | KSub10VW n z x y => gres (g_sub10VW n z x y m)
  | KShl10VU n z x s => gres (g_shl10VU n z x s m)
  | KShr10VU n z x s => gres (g_shr10VU n z x s m)
  | KMulAdd10VWW n z x y r => gres (g_mulAdd10VWW n z x y r m)
  | KAddMul10VVW n z x y => gres (g_addMul10VVW n z x y m)
  | KDiv10VWW n z x y xn => gres (g_div10VWW n z x y xn m)
  | KDivWVW n z xn x y => gres (g_divWVW n z xn x y m)
  | KDecDigits64 x => ([g_decDigits64 x], m)
  | KNlz10 x => ([g_nlz10 x], m)
  | KTrailingZeroDigits x => ([g_trailingZeroDigits x], m)
  | KMagicDiv n x => let r := g_magic_div (g_divisorPow10 n) x in ([fst r; snd r], m)
  end.
