(* Props/C18.v — read-only sharing between goroutines: the part that a model
   can carry.  Statements only.  `pstep` (Conc/Pool.v) are the transitions of
   the scratch-buffer pool for any number of threads: take a pooled buffer,
   allocate a fresh one, put a held buffer back, and the collector dropping a
   pooled buffer at any time; `reach` = any interleaving of them. *)
From Coq Require Import List.
Import ListNotations.
From Dec Require Import Conc.Pool.

(* no scratch buffer is ever held by two goroutines, nor held while pooled *)
Theorem C18_pool_exclusive_ownership : forall s, reach s ->
  NoDup (map snd (held s)) /\ forall t b, In (t, b) (held s) -> ~ In b (pool s).
Proof. exact exclusive_ownership. Qed.
Print Assumptions C18_pool_exclusive_ownership.

Theorem C18_pool_no_two_holders : forall s t1 t2 b, reach s ->
  In (t1, b) (held s) -> In (t2, b) (held s) -> t1 = t2.
Proof. exact no_two_holders. Qed.
Print Assumptions C18_pool_no_two_holders.

(* C18_sequential_results (partial, by construction of the model): every modelled operation
   is a function of its operand values and the receiver's precision and mode and writes only
   its receiver (L3/Store.v `put`), so at the model level any schedule in which each goroutine
   writes only its own receiver yields the sequential results.  Data races on words, the Go
   memory model, sync.Pool internals and the garbage collector cannot be exhibited by the model. *)

(* non-vacuity: a thread allocates a buffer, puts it back, another thread takes it *)
Example C18_reachable : reach (mkP [] [(9, 0)] 1).
Proof.
  apply reachS with (mkP [0] [] 1).
  - apply reachS with (mkP [] [(5, 0)] 1).
    + apply reachS with (mkP [] [] 0); [constructor|apply (get_fresh 5 [] [] 0)].
    + apply (put 5 0 [] [] [] 1).
  - apply (get_pooled 9 0 [] [] [] 1).
Qed.
