(* Props/C08b.v — every reachable Decimal is in canonical normalized form:
   the program-level theorem of Props/C08.v widened to ALL 35 operations of the
   store model (L3/Store.v).  Statements only.  `valid_op2` (L3/StoreProofs2.v)
   is `valid_op` for the 28 operations already covered and adds:
     Sub          fin_short x, fin_short y, and for finite x, y the Add bound
                  add_span x y + 40 < 2^32 - 18            (addsub_valid)
     FMA          fin_short u; for finite x, y: digits x + digits y < 2^32 - 18;
                  for finite x, y, u: fma_span x y u + 58 < 2^32 - 18
                  (fma_valid; NO condition on the magnitude of x*y: outside the
                  exponent range the value is wrong, finding K3, but canonical)
     SetRat       den > 0; |num| < 10^Dn, den < 10^Dd with
                  Dn + Dd + precision + 76 < 2^32 - 18     (setrat_valid)
     MantExp      none (with or without out-parameter)
     GobDecode    buffer of bytes; shorter than 2^30 unless prec z = 0
     GobRoundTrip the same length bound on the encoding of x
   No operation is left outside the theorem. *)
From Coq Require Import ZArith List QArith.
From Dec Require Import L3.Decimal L3.Cmp L3.Round L3.Arith L3.Convert L4.Gob L4.GobProofs
  L3.ArithProofs L3.FmaProofs L3.ConvProofs2 L3.Store L3.StoreProofs L3.StoreProofs2.
Import ListNotations.
Open Scope Z_scope.

Theorem C08b_step_invariant : forall s o, WFstore s -> valid_op2 s o ->
  WFstore (fst (step s o)) /\ r_out (snd (step s o)) <> Crash.
Proof. exact step_preserves_WF2. Qed.
Print Assumptions C08b_step_invariant.

(* all finite sequences of operations *)
Theorem C08b_invariant : forall p s, WFstore s -> valid_prog2 s p ->
  Forall (fun rs => WFstore (snd rs) /\ r_out (fst rs) <> Crash) (run s p).
Proof. exact run_preserves_WF2. Qed.
Print Assumptions C08b_invariant.

(* the widened side conditions contain the old ones *)
Theorem C08b_extends_C08 : forall s o, valid_op s o -> valid_op2 s o.
Proof. exact valid_op_valid_op2. Qed.
Print Assumptions C08b_extends_C08.

(* the side conditions of the newly covered operations, spelled out *)
Theorem C08b_new_conditions : forall s,
  (forall z x y, valid_op2 s (OSub z x y) <->
     fin_short (get s x) /\ fin_short (get s y) /\
     (dform (get s x) = Ffinite -> dform (get s y) = Ffinite -> add_span (get s x) (get s y) + 40 < 4294967296 - 18)) /\
  (forall z x y u, valid_op2 s (OFMA z x y u) <->
     fin_short (get s u) /\
     (dform (get s x) = Ffinite -> dform (get s y) = Ffinite ->
        mdigits (mant (get s x)) + mdigits (mant (get s y)) < 4294967296 - 18) /\
     (dform (get s x) = Ffinite -> dform (get s y) = Ffinite -> dform (get s u) = Ffinite ->
        fma_span (get s x) (get s y) (get s u) + 58 < 4294967296 - 18)) /\
  (forall z num den, valid_op2 s (OSetRat z num den) <->
     0 < den /\ exists Dn Dd, Z.abs num < 10 ^ Dn /\ den < 10 ^ Dd /\ 0 <= Dn <= MaxExp /\ 0 <= Dd <= MaxExp /\
                              Dn + Dd + setrat_prec (get s z) num den + 76 < 4294967296 - 18) /\
  (forall x m, valid_op2 s (OMantExp x m) <-> True) /\
  (forall z buf, valid_op2 s (OGobDecode z buf) <->
     Forall (fun b => 0 <= b < 256) buf /\ (prec (get s z) = 0 \/ zlen buf < 1073741824)) /\
  (forall z x, valid_op2 s (OGobRoundTrip z x) <->
     prec (get s z) = 0 \/ (dform (get s x) = Ffinite -> 10 + 8 * zlen (mant (get s x)) < 1073741824)).
Proof. intros s. repeat (split; [intros; reflexivity|]). intros; reflexivity. Qed.
Print Assumptions C08b_new_conditions.

(* the per-operation facts behind the new cases *)
Theorem C08b_sub_canonical : forall zx zy z x y,
  WF x -> WF y -> 0 <= prec z <= MaxPrec -> (zx = true -> z = x) -> (zy = true -> z = y) ->
  addsub_valid x y -> ores_WF (Sub zx zy z x y).
Proof. exact Sub_WF. Qed.
Print Assumptions C08b_sub_canonical.

Theorem C08b_fma_canonical : forall zu z x y u,
  WF x -> WF y -> WF u -> 0 <= prec z <= MaxPrec -> (zu = true -> z = u) ->
  fma_valid x y u -> ores_WF (FMA zu z x y u).
Proof. exact FMA_WF. Qed.
Print Assumptions C08b_fma_canonical.

Theorem C08b_setrat_canonical : forall z num den,
  0 <= prec z <= MaxPrec -> setrat_valid z num den -> ores_WF (SetRat z num den).
Proof. exact SetRat_WF. Qed.
Print Assumptions C08b_setrat_canonical.

(* Non-vacuity: a program through every newly covered operation (Sub, FMA with and without
   the receiver aliasing the addend, SetRat, MantExp with and without out-parameter,
   GobDecode of a valid and of an invalid buffer, GobRoundTrip) satisfies the side
   conditions on a canonical store, so the invariant theorem applies to it. *)
Definition C08b_store : store :=
  [dec_zero;
   mkDec [1000000000000000000] 1 1 ToNearestEven Exact Ffinite false;     (* 1 *)
   mkDec [2000000000000000000] 1 2 ToNearestEven Exact Ffinite false].    (* 2 *)
Definition C08b_prog : list op :=
  [OSub 0%nat 1%nat 2%nat; OFMA 0%nat 1%nat 2%nat 1%nat; OFMA 1%nat 1%nat 2%nat 1%nat; OSetRat 0%nat 1 3;
   OMantExp 2%nat (Some 0%nat); OMantExp 2%nat None;
   OGobDecode 0%nat [1; 10; 0; 0; 0; 1; 0; 0; 0; 1; 13; 224; 182; 179; 167; 100; 0; 0];
   OGobRoundTrip 0%nat 2%nat; OGobDecode 0%nat [7]].

Ltac c08b_next :=
  match goal with |- context [fst (step ?s ?o)] =>
    let v := eval vm_compute in (fst (step s o)) in
    let E := fresh "E" in
    assert (E : fst (step s o) = v) by (vm_compute; reflexivity); rewrite E; clear E
  end.
Ltac c08b_bytes := repeat (constructor; [split; [vm_compute; congruence|vm_compute; reflexivity]|]); constructor.

Example C08b_examples :
  WFstore C08b_store /\ valid_prog2 C08b_store C08b_prog /\
  map (fun rs => (r_out (fst rs), r_ints (fst rs))) (run C08b_store C08b_prog) =
    [(Ok, []); (Ok, []); (Ok, []); (Ok, []); (Ok, [1]); (Ok, [1]); (Ok, [0]); (Ok, [0]); (Ok, [1])].
Proof.
  split; [repeat constructor|]. split; [|vm_compute; reflexivity].
  unfold C08b_prog. cbn [valid_prog2].
  (* Sub *)
  split; [vm_compute; repeat split; intros; reflexivity|]. c08b_next.
  (* FMA, receiver distinct from the addend *)
  split; [vm_compute; repeat split; intros; reflexivity|]. c08b_next.
  (* FMA, receiver = addend *)
  split; [vm_compute; repeat split; intros; reflexivity|]. c08b_next.
  (* SetRat 1/3 *)
  split.
  { split; [reflexivity|]. exists 1, 1. repeat split; try (vm_compute; congruence). }
  c08b_next.
  (* MantExp *)
  split; [exact I|]. c08b_next. split; [exact I|]. c08b_next.
  (* GobDecode of the encoding of 1 *)
  split; [split; [c08b_bytes|right; vm_compute; reflexivity]|]. c08b_next.
  (* GobRoundTrip *)
  split; [right; intros _; vm_compute; reflexivity|]. c08b_next.
  (* GobDecode of a buffer with a wrong version byte: error, receiver untouched *)
  split; [split; [c08b_bytes|right; vm_compute; reflexivity]|].
  exact I.
Qed.
