(* Props/C17.v — Gob encoding (theorems to follow). *)
From Coq Require Import ZArith.
From Dec Require Import L3.Decimal L3.Arith L4.Gob.
Open Scope Z_scope.

Example C17_examples :
  let x := mkDec [1500000000000000000] 1 2 ToZero Below Ffinite true in
  GobEncode x = [1; 67; 0; 0; 0; 2; 0; 0; 0; 1; 20; 209; 18; 13; 123; 22; 0; 0] /\
  GobDecode dec_zero (GobEncode x) = GobOk x /\
  GobDecode dec_zero [1; 2; 3] = GobErr dec_zero.
Proof. vm_compute. repeat split. Qed.
