(* Props/C17.v — Gob encoding round-trips value and all attributes; decoding
   arbitrary bytes is total and never yields a non-canonical value.
   Statements only (proofs in L4/GobProofs.v, model in L4/Gob.v).
   `WF` = canonical form (L3/Decimal.v); `oeq` = observational equality (class,
   sign, precision, mode, accuracy, and for finite values exponent and mantissa
   words up to low zero words); `result_spec p m ng v z'` = z' is v correctly
   rounded once to p digits under mode m (Spec/Rounding.v). *)
From Coq Require Import ZArith List QArith.
From Dec Require Import Base.Words L3.Decimal L3.Round L3.Arith Spec.Rounding L3.IndepProofs L4.Gob L4.GobProofs.
Open Scope Z_scope.

(* Decoding the encoding of any canonical x into a fresh Decimal succeeds and
   gives back x: same class, sign, precision, mode and accuracy; for a finite x
   the same exponent and the same mantissa except that low zero words beyond
   ceil(prec/19) words are not transmitted (so the magnitude is identical), and
   exactly x when its mantissa has at most ceil(prec/19) words.  No hypothesis
   besides WF x is needed. *)
Theorem C17_roundtrip : forall x, WF x ->
  exists x', GobDecode dec_zero (GobEncode x) = GobOk x' /\ WF x' /\ oeq x x' /\
    dform x' = dform x /\ neg x' = neg x /\ prec x' = prec x /\ dmode x' = dmode x /\ acc x' = acc x /\
    (dform x = Ffinite ->
       exp x' = exp x /\ (exists k, mant x = repeat 0 k ++ mant x') /\ (mag x' == mag x)%Q /\
       (zlen (mant x) <= (prec x + 18) / 19 -> x' = x)).
Proof. exact Gob_roundtrip. Qed.
Print Assumptions C17_roundtrip.

(* Decoding into a receiver z whose precision is not 0: z keeps its precision
   and mode; if the bytes describe the finite value d (what a fresh Decimal
   would decode to), z becomes d rounded once to prec z under z's mode, with
   the accuracy of that rounding; a zero or an infinity keeps its sign and
   becomes Exact (z's mantissa and exponent fields are left as they were). *)
Theorem C17_receiver : forall z buf d,
  Forall (fun b => 0 <= b < 256) buf -> buf <> [] -> zlen buf < 1073741824 ->
  WF z -> prec z <> 0 ->
  GobDecode dec_zero buf = GobOk d ->
  exists z', GobDecode z buf = GobOk z' /\ prec z' = prec z /\ dmode z' = dmode z /\ WF z' /\
    match dform d with
    | Ffinite => result_spec (prec z) (dmode z) (neg d) (mag d) z'
    | f => z' = mkDec (mant z) (exp z) (prec z) (dmode z) Exact f (neg d)
    end.
Proof. exact Gob_receiver. Qed.
Print Assumptions C17_receiver.

(* Decoding any byte string into any canonical receiver never panics, leaves
   the receiver untouched when it reports an error, and otherwise yields a
   canonical value.  The length bound (1 GiB) is only needed when the receiver
   has a precision: SetPrec is then applied to the decoded mantissa, whose digit
   count must fit the uint32 arithmetic of round. *)
Theorem C17_total : forall z buf,
  Forall (fun b => 0 <= b < 256) buf -> WF z -> (prec z = 0 \/ zlen buf < 1073741824) ->
  GobDecode z buf <> GobCrash /\
  (forall z', GobDecode z buf = GobErr z' -> z' = z) /\
  (forall z', GobDecode z buf = GobOk z' -> WF z').
Proof. exact Gob_total. Qed.
Print Assumptions C17_total.

Example C17_examples :
  let x := mkDec [1500000000000000000] 1 2 ToZero Below Ffinite true in
  GobEncode x = [1; 67; 0; 0; 0; 2; 0; 0; 0; 1; 20; 209; 18; 13; 123; 22; 0; 0] /\
  GobDecode dec_zero (GobEncode x) = GobOk x /\
  GobDecode dec_zero [1; 2; 3] = GobErr dec_zero.
Proof. vm_compute. repeat split. Qed.

(* round trip: a canonical value with a low zero word beyond its precision loses
   only that word; an infinity and a negative exponent come back unchanged *)
Example C17_roundtrip_example :
  let x := mkDec [0; 1500000000000000000] (-7) 2 ToNearestAway Above Ffinite false in
  let i := mkDec [] 0 5 ToPositiveInf Exact Finf true in
  wf_b x = true /\ wf_b i = true /\
  GobDecode dec_zero (GobEncode x) = GobOk (mkDec [1500000000000000000] (-7) 2 ToNearestAway Above Ffinite false) /\
  GobDecode dec_zero (GobEncode i) = GobOk i.
Proof. vm_compute. repeat split. Qed.

(* receiver with precision 1 and mode ToZero: 0.15e1 (prec 2) is rounded to 0.1e1, Below;
   with mode AwayFromZero to 0.2e1, Above; precision and mode of the receiver are kept *)
Example C17_receiver_example :
  let x := mkDec [1500000000000000000] 1 2 ToNearestEven Exact Ffinite false in
  let z := mkDec [] 0 1 ToZero Exact Fzero false in
  let z2 := mkDec [] 0 1 AwayFromZero Exact Fzero false in
  wf_b z = true /\ prec z <> 0 /\ GobEncode x <> [] /\
  GobDecode dec_zero (GobEncode x) = GobOk x /\
  GobDecode z (GobEncode x) = GobOk (mkDec [1000000000000000000] 1 1 ToZero Below Ffinite false) /\
  GobDecode z2 (GobEncode x) = GobOk (mkDec [2000000000000000000] 1 1 AwayFromZero Above Ffinite false).
Proof. vm_compute. repeat split; discriminate. Qed.

(* arbitrary bytes: a zero with precision 2^32-1 is accepted (and is canonical: MaxPrec = 2^32-1);
   an unnormalised mantissa, a word >= 10^19, digits beyond the precision, an invalid
   mode and a short buffer are rejected with the receiver untouched; a 3-byte
   mantissa is accepted when it is a normalised one-word mantissa only, so here rejected *)
Example C17_total_example :
  let z := mkDec [1230000000000000000] 3 3 ToZero Exact Ffinite true in
  wf_b z = true /\
  (let z' := mkDec [] 0 MaxPrec ToNearestEven Below Fzero false in
   GobDecode dec_zero [1; 0; 255; 255; 255; 255] = GobOk z' /\ wf_b z' = true) /\
  GobDecode z [1; 2; 0; 0; 0; 5; 0; 0; 0; 1; 0; 0; 0; 0; 0; 0; 0; 1] = GobErr z /\
  GobDecode z [1; 2; 0; 0; 0; 20; 0; 0; 0; 1; 255; 255; 255; 255; 255; 255; 255; 255] = GobErr z /\
  GobDecode z [1; 2; 0; 0; 0; 1; 0; 0; 0; 1; 20; 209; 18; 13; 123; 22; 0; 0] = GobErr z /\
  GobDecode z [1; 194; 0; 0; 0; 2] = GobErr z /\
  GobDecode z [1; 2; 0; 0; 0; 2; 0; 0] = GobErr z /\
  GobDecode z [1; 2; 0; 0; 0; 2; 0; 0; 0; 1; 1; 2; 3] = GobErr z /\
  GobDecode z [1; 3; 0; 0; 0; 2; 255; 255; 255; 255; 20; 209; 18; 13; 123; 22; 0; 0] =
    GobOk (mkDec [1500000000000000000] (-1) 3 ToZero Exact Ffinite true).
Proof. vm_compute. repeat split. Qed.
