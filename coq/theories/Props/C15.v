(* Props/C15.v — binary floating-point conversions: nearest on output, faithful
   on input.  Statements only.

   Models (L3/Float.v): SetFloat64 z bits (float64 given by its bit pattern),
   SetFloat z x (x : BF, a big.Float), Float, Float64, Float32; math/big.Float
   operations are modelled as "exact result rounded once" (L3/Bin.v) — that
   math/big is correctly rounded is an assumption of this property.

   Proved: special values and receiver attributes of SetFloat64 / SetFloat.
   Refuted by computed witnesses, both recorded as known findings:
   - Float64 returns the binary64 value nearest to x with the sign of
     (returned - x) as accuracy                                  (K2);
   - SetFloat64 stores the value exactly whenever the precision holds its
     decimal expansion                                           (K8).
   Statements kept here and checked by predicate on the implementation's
   outputs on every run (harness/props/C15.py):

     C15_setfloat64_exact_partial (not closed): forall z bits s m e M exp2 r,
       0 <= prec z <= MaxPrec -> fl_of_bits binary64 bits = FlFin s m e ->
       fl_frexp_int binary64 m e = (M, exp2) ->
       let p := sf64_prec z in
       (the decimal expansion of M * 2^exp2 has at most p digits) ->
       p < MaxPrec -> 10 ^ (p + 1) > 2 ^ |exp2|   (* prec+1 >= digits of 2^|exp2|: pow2 is exact *) ->
       SetFloat64 z bits = OkR r ->
       dform r = Ffinite /\ neg r = s /\ (mag r == M * 2^exp2)%Q /\ acc r = Exact.
     (Without the last hypothesis the statement is false: C15_setfloat64_exact_refuted.)
     C15_setfloat64_1ulp, C15_setfloat_32ulp, C15_float_32ulp: error bounds, by predicate only.
     C15_float64_partial: Float64 x is one of the two binary64 neighbours of x, by predicate only. *)
From Coq Require Import ZArith.
From Dec Require Import L3.Decimal L3.Arith L3.Bin L3.Float L3.FloatProofs.
Open Scope Z_scope.

(* SetFloat64(±0) = ±0, SetFloat64(±Inf) = ±Inf, SetFloat64(NaN) panics with ErrNaN *)
Theorem C15_setfloat64_special_zero : forall z bits s, fl_of_bits binary64 bits = FlZero s ->
  exists r, SetFloat64 z bits = OkR r /\ dform r = Fzero /\ neg r = s /\ acc r = Exact /\
            prec r = sf64_prec z /\ dmode r = dmode z.
Proof. exact SetFloat64_zero. Qed.
Print Assumptions C15_setfloat64_special_zero.

Theorem C15_setfloat64_special_inf : forall z bits s, fl_of_bits binary64 bits = FlInf s ->
  exists r, SetFloat64 z bits = OkR r /\ dform r = Finf /\ neg r = s /\ acc r = Exact /\
            prec r = sf64_prec z /\ dmode r = dmode z.
Proof. exact SetFloat64_inf. Qed.
Print Assumptions C15_setfloat64_special_inf.

Theorem C15_setfloat64_special_nan : forall z bits, fl_of_bits binary64 bits = FlNaN ->
  exists r, SetFloat64 z bits = NaNR r.
Proof. exact SetFloat64_nan. Qed.
Print Assumptions C15_setfloat64_special_nan.

(* the decoding used above is the IEEE-754 one: sign = top bit; the other 63
   bits 0 -> zero, 0x7ff0000000000000 -> infinity, above -> NaN, else finite *)
Theorem C15_float64_bits : forall bits, 0 <= bits < 2 ^ 64 ->
  let s := 2 ^ 63 <=? bits in
  let r := bits mod 2 ^ 63 in
  (r = 0 -> fl_of_bits binary64 bits = FlZero s) /\
  (r = 2047 * 2 ^ 52 -> fl_of_bits binary64 bits = FlInf s) /\
  (2047 * 2 ^ 52 < r -> fl_of_bits binary64 bits = FlNaN) /\
  (0 < r < 2047 * 2 ^ 52 -> exists m e, fl_of_bits binary64 bits = FlFin s m e /\ 0 < m < 2 ^ 53 /\ -1074 <= e <= 971).
Proof. exact fl_of_bits_cases. Qed.
Print Assumptions C15_float64_bits.

(* SetFloat of ±0 / ±Inf of any precision *)
Theorem C15_setfloat_special : forall z x, bform x <> Ffinite ->
  exists r, SetFloat z x = OkR r /\ dform r = bform x /\ neg r = bneg x /\ acc r = Exact /\ dmode r = dmode z /\
            (prec z <> 0 -> prec r = prec z).
Proof. exact SetFloat_special. Qed.
Print Assumptions C15_setfloat_special.

(* precision (17 if it was 0) and mode of the receiver after SetFloat64, for
   every bit pattern on which the model returns normally *)
Theorem C15_setfloat64_attrs : forall z bits z', 0 <= prec z <= MaxPrec ->
  SetFloat64 z bits = OkR z' -> prec z' = sf64_prec z /\ dmode z' = dmode z.
Proof. exact SetFloat64_attrs. Qed.
Print Assumptions C15_setfloat64_attrs.

(* K2: x = 6948775829277607844661e-26: Float64 x is not the binary64 value
   nearest to x (nearest64 rounds the exact rational once, ties to even) *)
Theorem C15_float64_nearest_refuted :
  wf_b k2_x = true /\
  exists r a, Float64 k2_x = Some (r, a) /\ fst (nearest64 k2_x) <> r.
Proof. exact Float64_not_nearest. Qed.
Print Assumptions C15_float64_nearest_refuted.

(* K2: x = 918521352053565e9: the nearest value is returned but reported Exact *)
Theorem C15_float64_accuracy_refuted :
  wf_b k2_y = true /\
  exists r a, Float64 k2_y = Some (r, a) /\ fst (nearest64 k2_y) = r /\ a = Exact /\ snd (nearest64 k2_y) <> Exact.
Proof. exact Float64_wrong_accuracy. Qed.
Print Assumptions C15_float64_accuracy_refuted.

(* K8: SetPrec(1).SetMode(ToPositiveInf).SetFloat64(1.0) = 2 (Above) *)
Theorem C15_setfloat64_exact_refuted :
  fl_of_bits binary64 k8_bits = FlFin false (2 ^ 52) (-52) /\
  SetFloat64 k8_z k8_bits = OkR k8_r /\ wf_b k8_r = true /\
  mant k8_r = (2000000000000000000 :: nil) /\ exp k8_r = 1 /\ acc k8_r = Above.
Proof. exact SetFloat64_exact_refuted. Qed.
Print Assumptions C15_setfloat64_exact_refuted.

(* non-vacuity: 0.1 at 17 digits and at full precision (exact; Float64 returns 0.1 again), 2^60 exactly *)
Example C15_model_examples :
  let z17 := mkDec nil 0 0 ToNearestEven Exact Fzero false in
  let z60 := mkDec nil 0 60 ToNearestEven Exact Fzero false in
  let tenth := 4591870180066957722 in                 (* 0x3fb999999999999a *)
  let get r := match r with OkR d => d | _ => z17 end in
  SetFloat64 z17 tenth = OkR (get (SetFloat64 z17 tenth)) /\
  prec (get (SetFloat64 z17 tenth)) = 17 /\ exp (get (SetFloat64 z17 tenth)) = 0 /\
  mant (get (SetFloat64 z17 tenth)) = (1000000000000000100 :: nil)%list /\ acc (get (SetFloat64 z17 tenth)) = Above /\
  acc (get (SetFloat64 z60 tenth)) = Exact /\ dform (get (SetFloat64 z60 tenth)) = Ffinite /\
  Float64 (get (SetFloat64 z60 tenth)) = Some (fl_of_bits binary64 tenth, Below) /\   (* K2: the value comes back, the accuracy does not *)
  acc (get (SetFloat64 z60 4877398396442247168)) = Exact /\ exp (get (SetFloat64 z60 4877398396442247168)) = 19 /\
  mant (get (SetFloat64 z60 4877398396442247168)) = (0 :: 1152921504606846976 :: nil)%list.
Proof. vm_compute. repeat split. Qed.
