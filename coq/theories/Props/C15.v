(* Props/C15.v — binary floating-point conversions: nearest on output, faithful
   on input.  Statements only.

   Models (L3/Float.v): SetFloat64 z bits (float64 given by its bit pattern),
   SetFloat z x (x : BF, a big.Float), Float, Float64, Float32; math/big.Float
   operations are modelled as "exact result rounded once" (L3/Bin.v) — that
   math/big is correctly rounded is an assumption of this property.

   Proved: special values and receiver attributes of SetFloat64 / SetFloat.
   Refuted by computed witnesses, both recorded as known findings:
   - Float64 returns the binary64 value nearest to x with the sign of
     (returned - x) as accuracy                                  (K2);
   - SetFloat64 stores the value exactly whenever the precision holds its
     decimal expansion                                           (K8).
   Statements kept here and checked by predicate on the implementation's
   outputs on every run (harness/props/C15.py):

     (C15_setfloat64_exact_partial below is the planned C15_setfloat64_exact with the one
      extra hypothesis 2^|exp2| < 10^(p+1); without it the statement is false:
      C15_setfloat64_exact_refuted.)
     C15_setfloat64_1ulp, C15_setfloat_32ulp, C15_float_32ulp: error bounds, by predicate only.
     C15_float64_partial: Float64 x is one of the two binary64 neighbours of x, by predicate only. *)
From Coq Require Import ZArith.
From Coq Require Import QArith.
From Dec Require Import Base.QPow L3.Decimal L3.Arith L3.Bin L3.Float L3.FloatProofs L3.ArithProofs L3.FloatExact L3.FloatExact2.
Open Scope Z_scope.

(* SetFloat64(±0) = ±0, SetFloat64(±Inf) = ±Inf, SetFloat64(NaN) panics with ErrNaN *)
Theorem C15_setfloat64_special_zero : forall z bits s, fl_of_bits binary64 bits = FlZero s ->
  exists r, SetFloat64 z bits = OkR r /\ dform r = Fzero /\ neg r = s /\ acc r = Exact /\
            prec r = sf64_prec z /\ dmode r = dmode z.
Proof. exact SetFloat64_zero. Qed.
Print Assumptions C15_setfloat64_special_zero.

Theorem C15_setfloat64_special_inf : forall z bits s, fl_of_bits binary64 bits = FlInf s ->
  exists r, SetFloat64 z bits = OkR r /\ dform r = Finf /\ neg r = s /\ acc r = Exact /\
            prec r = sf64_prec z /\ dmode r = dmode z.
Proof. exact SetFloat64_inf. Qed.
Print Assumptions C15_setfloat64_special_inf.

Theorem C15_setfloat64_special_nan : forall z bits, fl_of_bits binary64 bits = FlNaN ->
  exists r, SetFloat64 z bits = NaNR r.
Proof. exact SetFloat64_nan. Qed.
Print Assumptions C15_setfloat64_special_nan.

(* the decoding used above is the IEEE-754 one: sign = top bit; the other 63
   bits 0 -> zero, 0x7ff0000000000000 -> infinity, above -> NaN, else finite *)
Theorem C15_float64_bits : forall bits, 0 <= bits < 2 ^ 64 ->
  let s := 2 ^ 63 <=? bits in
  let r := bits mod 2 ^ 63 in
  (r = 0 -> fl_of_bits binary64 bits = FlZero s) /\
  (r = 2047 * 2 ^ 52 -> fl_of_bits binary64 bits = FlInf s) /\
  (2047 * 2 ^ 52 < r -> fl_of_bits binary64 bits = FlNaN) /\
  (0 < r < 2047 * 2 ^ 52 -> exists m e, fl_of_bits binary64 bits = FlFin s m e /\ 0 < m < 2 ^ 53 /\ -1074 <= e <= 971).
Proof. exact fl_of_bits_cases. Qed.
Print Assumptions C15_float64_bits.

(* SetFloat of ±0 / ±Inf of any precision *)
Theorem C15_setfloat_special : forall z x, bform x <> Ffinite ->
  exists r, SetFloat z x = OkR r /\ dform r = bform x /\ neg r = bneg x /\ acc r = Exact /\ dmode r = dmode z /\
            (prec z <> 0 -> prec r = prec z).
Proof. exact SetFloat_special. Qed.
Print Assumptions C15_setfloat_special.

(* precision (17 if it was 0) and mode of the receiver after SetFloat64, for
   every bit pattern on which the model returns normally *)
Theorem C15_setfloat64_attrs : forall z bits z', 0 <= prec z <= MaxPrec ->
  SetFloat64 z bits = OkR z' -> prec z' = sf64_prec z /\ dmode z' = dmode z.
Proof. exact SetFloat64_attrs. Qed.
Print Assumptions C15_setfloat64_attrs.

(* SetFloat64 of a float64 whose 53-bit integer mantissa M needs no scaling
   (x = +-M, 2^52 <= |x| < 2^53): M rounded once to the receiver's precision
   under its mode — OpPost of Props/C01.v: canonical result of the documented
   precision and mode holding the correctly rounded value, accuracy included *)
Theorem C15_setfloat64_int53 : forall z bits s m e M,
  0 <= prec z <= MaxPrec ->
  fl_of_bits binary64 bits = FlFin s m e -> fl_frexp_int binary64 m e = (M, 0) -> 0 < M < 2 ^ 53 ->
  OpPost (sf64_prec z) (dmode z) s (scaled M 0) (SetFloat64 z bits).
Proof. exact SetFloat64_int53_correct. Qed.
Print Assumptions C15_setfloat64_int53.

(* SetFloat64 stores x = +-M * 2^exp2 EXACTLY (value, Exact accuracy, canonical
   form, precision and mode kept), for every finite float64 (normal or
   subnormal: M is the integer mantissa normalised to 53 bits, -1126 <= exp2 <= 971),
   when the value has at most p digits (x = N * 10^e10 with N < 10^p) and the
   power of two it is scaled with fits the working precision p+1
   (2^|exp2| < 10^(p+1); then every step of pow2's square-and-multiply loop is
   exact).  pow2Q exp2 = 2^exp2 as a rational; the case exp2 = 0 is
   C15_setfloat64_int53. *)
Theorem C15_setfloat64_exact_partial : forall z bits s m e M exp2 N e10,
  0 <= prec z <= 1073741824 ->
  fl_of_bits binary64 bits = FlFin s m e -> fl_frexp_int binary64 m e = (M, exp2) -> 0 < M < 2 ^ 53 ->
  exp2 <> 0 -> -2000 <= exp2 <= 2000 ->
  let p := sf64_prec z in
  2 ^ Z.abs exp2 < 10 ^ (p + 1) ->
  (inject_Z M * pow2Q exp2 == scaled N e10)%Q -> 1 <= N < 10 ^ p -> -2000 <= e10 <= 2000 ->
  exists r, SetFloat64 z bits = OkR r /\ dform r = Ffinite /\ neg r = s /\ (mag r == scaled N e10)%Q /\
            acc r = Exact /\ prec r = p /\ dmode r = dmode z /\ WF r.
Proof. exact SetFloat64_exact. Qed.
Print Assumptions C15_setfloat64_exact_partial.

(* K2: x = 6948775829277607844661e-26: Float64 x is not the binary64 value
   nearest to x (nearest64 rounds the exact rational once, ties to even) *)
Theorem C15_float64_nearest_refuted :
  wf_b k2_x = true /\
  exists r a, Float64 k2_x = Some (r, a) /\ fst (nearest64 k2_x) <> r.
Proof. exact Float64_not_nearest. Qed.
Print Assumptions C15_float64_nearest_refuted.

(* K2: x = 918521352053565e9: the nearest value is returned but reported Exact *)
Theorem C15_float64_accuracy_refuted :
  wf_b k2_y = true /\
  exists r a, Float64 k2_y = Some (r, a) /\ fst (nearest64 k2_y) = r /\ a = Exact /\ snd (nearest64 k2_y) <> Exact.
Proof. exact Float64_wrong_accuracy. Qed.
Print Assumptions C15_float64_accuracy_refuted.

(* K8: SetPrec(1).SetMode(ToPositiveInf).SetFloat64(1.0) = 2 (Above) *)
Theorem C15_setfloat64_exact_refuted :
  fl_of_bits binary64 k8_bits = FlFin false (2 ^ 52) (-52) /\
  SetFloat64 k8_z k8_bits = OkR k8_r /\ wf_b k8_r = true /\
  mant k8_r = (2000000000000000000 :: nil) /\ exp k8_r = 1 /\ acc k8_r = Above.
Proof. exact SetFloat64_exact_refuted. Qed.
Print Assumptions C15_setfloat64_exact_refuted.

(* non-vacuity: 0.1 at 17 digits and at full precision (exact; Float64 returns 0.1 again), 2^60 exactly *)
Example C15_model_examples :
  let z17 := mkDec nil 0 0 ToNearestEven Exact Fzero false in
  let z60 := mkDec nil 0 60 ToNearestEven Exact Fzero false in
  let tenth := 4591870180066957722 in                 (* 0x3fb999999999999a *)
  let get r := match r with OkR d => d | _ => z17 end in
  SetFloat64 z17 tenth = OkR (get (SetFloat64 z17 tenth)) /\
  prec (get (SetFloat64 z17 tenth)) = 17 /\ exp (get (SetFloat64 z17 tenth)) = 0 /\
  mant (get (SetFloat64 z17 tenth)) = (1000000000000000100 :: nil)%list /\ acc (get (SetFloat64 z17 tenth)) = Above /\
  acc (get (SetFloat64 z60 tenth)) = Exact /\ dform (get (SetFloat64 z60 tenth)) = Ffinite /\
  Float64 (get (SetFloat64 z60 tenth)) = Some (fl_of_bits binary64 tenth, Below) /\   (* K2: the value comes back, the accuracy does not *)
  acc (get (SetFloat64 z60 4877398396442247168)) = Exact /\ exp (get (SetFloat64 z60 4877398396442247168)) = 19 /\
  mant (get (SetFloat64 z60 4877398396442247168)) = (0 :: 1152921504606846976 :: nil)%list.
Proof. vm_compute. repeat split. Qed.

(* the hypotheses of C15_setfloat64_exact_partial are satisfiable: -1.5 into a
   16-digit ToZero receiver (M = 3 * 2^51, exp2 = -52, value 15 * 10^-1) *)
Example C15_exact_partial_instance :
  let z := mkDec nil 0 16 ToZero Above Fzero false in
  exists r, SetFloat64 z 13832806255468478464 = OkR r /\ dform r = Ffinite /\ neg r = true /\
            (mag r == scaled 15 (-1))%Q /\ acc r = Exact /\ prec r = 16 /\ dmode r = ToZero /\ WF r.
Proof.
  intros z.
  apply (C15_setfloat64_exact_partial z 13832806255468478464 true 6755399441055744 (-52) 6755399441055744 (-52) 15 (-1));
    try (vm_compute; intuition congruence); try reflexivity.
Qed.

(* ... and beyond the table path of pow2 (|exp2| >= 64): 2^-70 = 5^70 * 10^-70
   (49 digits) into a 50-digit AwayFromZero receiver (M = 2^52, exp2 = -122) *)
Example C15_exact_partial_instance_loop :
  let z := mkDec nil 0 50 AwayFromZero Exact Fzero false in
  exists r, SetFloat64 z 4291930444884082688 = OkR r /\ dform r = Ffinite /\ neg r = false /\
            (mag r == scaled (5 ^ 70) (-70))%Q /\ acc r = Exact /\ prec r = 50 /\ dmode r = AwayFromZero /\ WF r.
Proof.
  intros z.
  apply (C15_setfloat64_exact_partial z 4291930444884082688 false 4503599627370496 (-1022 - 52 + 953 - 1) 4503599627370496 (-122) (5 ^ 70) (-70));
    try (vm_compute; intuition congruence); try reflexivity.
Qed.
