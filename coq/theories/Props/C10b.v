(* Props/C10b.v — results are independent of the receiver's previous contents:
   Props/C10.v (Add, Mul, Quo on finite operands) widened to Sub, FMA, Set, Neg,
   Abs, Copy, SetInf, the integer / rational / mantissa setters, and to ALL
   operand classes (zero, finite, infinite, ErrNaN outcomes) of Add, Sub, Mul,
   Quo, FMA.  Statements only.  `sim z z'` = same precision and mode;
   `ores_oeq` = observationally equal outcomes (IndepProofs.v).  The alias flag
   `false` means: the receiver is a variable distinct from that operand (if it
   is the operand itself there is nothing to vary).  SetPrec and SetMode read
   the receiver's value by design and are not in this list.
   No branch of the model reads the receiver's old sign, form, accuracy,
   exponent or mantissa: no finding. *)
From Coq Require Import ZArith.
From Dec Require Import L3.Decimal L3.Convert L3.Round L3.Arith L3.IndepProofs L3.IndepProofs2.
Open Scope Z_scope.

Theorem C10b_sub_receiver_independent : forall zx zy z z' x y,
  sim z z' -> dform x = Ffinite -> dform y = Ffinite -> ores_oeq (Sub zx zy z x y) (Sub zx zy z' x y).
Proof. exact Sub_indep. Qed.
Print Assumptions C10b_sub_receiver_independent.

(* all operand classes: no finiteness hypotheses *)
Theorem C10b_add_all : forall z z' x y, sim z z' -> ores_oeq (Add false false z x y) (Add false false z' x y).
Proof. exact Add_indep_all. Qed.
Print Assumptions C10b_add_all.
Theorem C10b_sub_all : forall z z' x y, sim z z' -> ores_oeq (Sub false false z x y) (Sub false false z' x y).
Proof. exact Sub_indep_all. Qed.
Print Assumptions C10b_sub_all.
Theorem C10b_mul_all : forall z z' x y, sim z z' -> ores_oeq (Mul z x y) (Mul z' x y).
Proof. exact Mul_indep_all. Qed.
Print Assumptions C10b_mul_all.
Theorem C10b_quo_all : forall z z' x y, sim z z' -> ores_oeq (Quo z x y) (Quo z' x y).
Proof. exact Quo_indep_all. Qed.
Print Assumptions C10b_quo_all.

(* FMA, receiver distinct from the addend: the product is formed in the receiver itself *)
Theorem C10b_fma_receiver_independent : forall z z' x y u,
  sim z z' -> ores_oeq (FMA false z x y u) (FMA false z' x y u).
Proof. exact FMA_indep. Qed.
Print Assumptions C10b_fma_receiver_independent.

(* FMA, receiver = addend (the code forms the product in a fresh temporary z0): same outcome
   as with any distinct receiver of u's precision and mode *)
Theorem C10b_fma_alias_independent : forall z x y u,
  sim u z -> ores_oeq (FMA true u x y u) (FMA false z x y u).
Proof. exact FMA_alias_indep. Qed.
Print Assumptions C10b_fma_alias_independent.

Theorem C10b_set_receiver_independent : forall z z' x, sim z z' -> ores_oeq (Set_ false z x) (Set_ false z' x).
Proof. exact Set_indep. Qed.
Print Assumptions C10b_set_receiver_independent.
Theorem C10b_neg_receiver_independent : forall z z' x, sim z z' -> ores_oeq (Neg_ false z x) (Neg_ false z' x).
Proof. exact Neg_indep. Qed.
Print Assumptions C10b_neg_receiver_independent.
Theorem C10b_abs_receiver_independent : forall z z' x, sim z z' -> ores_oeq (Abs_ false z x) (Abs_ false z' x).
Proof. exact Abs_indep. Qed.
Print Assumptions C10b_abs_receiver_independent.
Theorem C10b_setinf_receiver_independent : forall z z' sb, sim z z' -> ores_oeq (SetInf z sb) (SetInf z' sb).
Proof. exact SetInf_indep. Qed.
Print Assumptions C10b_setinf_receiver_independent.

(* these three do not read the receiver at all, not even precision and mode *)
Theorem C10b_copy_receiver_independent : forall z z' x, ores_oeq (Copy false z x) (Copy false z' x).
Proof. exact Copy_indep. Qed.
Print Assumptions C10b_copy_receiver_independent.
Theorem C10b_setmantexp_receiver_independent : forall z z' m e,
  ores_oeq (SetMantExp false z m e) (SetMantExp false z' m e).
Proof. exact SetMantExp_indep. Qed.
Print Assumptions C10b_setmantexp_receiver_independent.
Theorem C10b_mantexp_out_independent : forall m m' x, ores_oeq (MantExp_mant false m x) (MantExp_mant false m' x).
Proof. exact MantExp_mant_indep. Qed.
Print Assumptions C10b_mantexp_out_independent.

Theorem C10b_setint64_receiver_independent : forall z z' x, sim z z' -> ores_oeq (SetInt64 z x) (SetInt64 z' x).
Proof. exact SetInt64_indep. Qed.
Print Assumptions C10b_setint64_receiver_independent.
Theorem C10b_setuint64_receiver_independent : forall z z' x, sim z z' -> ores_oeq (SetUint64 z x) (SetUint64 z' x).
Proof. exact SetUint64_indep. Qed.
Print Assumptions C10b_setuint64_receiver_independent.
Theorem C10b_setint_receiver_independent : forall z z' x, sim z z' -> ores_oeq (SetInt z x) (SetInt z' x).
Proof. exact SetInt_indep. Qed.
Print Assumptions C10b_setint_receiver_independent.
Theorem C10b_setrat_receiver_independent : forall z z' num den,
  sim z z' -> ores_oeq (SetRat z num den) (SetRat z' num den).
Proof. exact SetRat_indep. Qed.
Print Assumptions C10b_setrat_receiver_independent.
Theorem C10b_setbitsexp_receiver_independent : forall z z' ws e,
  sim z z' -> ores_oeq (SetBitsExp z ws e) (SetBitsExp z' ws e).
Proof. exact SetBitsExp_indep. Qed.
Print Assumptions C10b_setbitsexp_receiver_independent.

(* the finer relation actually proved: the two results agree on every field, except for the
   (dead) words and exponent of a zero or an infinity *)
Theorem C10b_geq_finite_identical : forall a b, geq a b -> dform a = Ffinite -> a = b.
Proof. exact geq_finite_eq. Qed.
Print Assumptions C10b_geq_finite_identical.
Theorem C10b_fma_geq : forall z z' x y u, sim z z' -> ores_geq (FMA false z x y u) (FMA false z' x y u).
Proof. exact FMA_geq. Qed.
Print Assumptions C10b_fma_geq.

(* Non-vacuity: a receiver full of stale data (negative, large exponent, two junk words, inexact)
   against a clean one of the same precision and mode: identical outcomes for finite results,
   including the ErrNaN outcome of Inf - Inf; and FMA into its own addend against FMA into a
   distinct receiver *)
Example C10b_examples :
  let x := mkDec [1250000000000000000] 1 3 ToNearestEven Exact Ffinite false in      (* 1.25 *)
  let u := mkDec [3000000000000000000] 0 3 ToNearestEven Exact Ffinite true in       (* -0.3 *)
  let inf := mkDec [] 0 3 ToNearestEven Exact Finf false in
  let clean := mkDec [] 0 3 ToNearestEven Exact Fzero false in
  let junk := mkDec [7; 9999999999999999999] 40 3 ToNearestEven Above Ffinite true in
  sim junk clean /\ sim u clean /\
  Sub false false junk x u = Sub false false clean x u /\
  FMA false junk x x u = FMA false clean x x u /\
  FMA true u x x u = FMA false clean x x u /\
  FMA false clean x x u = OkR (mkDec [1260000000000000000] 1 3 ToNearestEven Below Ffinite false) /\  (* 1.5625 - 0.3 *)
  SetRat junk 1 3 = SetRat clean 1 3 /\
  SetInt junk (-12345) = SetInt clean (-12345) /\
  Neg_ false junk x = Neg_ false clean x /\
  (* Inf - Inf: ErrNaN both times; the receivers are left observationally equal (a zero of
     precision 3), though not identical (the stale words stay behind, unobservable) *)
  ores_oeq (Sub false false junk inf inf) (Sub false false clean inf inf) /\
  Sub false false junk inf inf <> Sub false false clean inf inf /\
  Sub false false clean inf inf = NaNR clean.
Proof.
  vm_compute. repeat split; try reflexivity. discriminate.
Qed.
