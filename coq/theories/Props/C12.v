(* Props/C12.v — parsing is exact-then-rounded for decimal literals and total
   on arbitrary input.  Statements only; every proof is `exact <lemma>`.

   Reading guide.  Byte strings are lists of byte values.  `dscan_dec z s base`
   is the model of Decimal.scan on receiver z (L4/Scan.v), `Parse` adds the
   Inf spellings and the end-of-string check.  A result is
   `POk z' b rest` (success: receiver, detected base, unread input),
   `PErr z' dnil` (error; dnil = the returned pointer is nil),
   `PNaN`/`PCrash` (a panic).  `scanSign`, `dec_scan`, `scanExponent` are the
   three scanners the Go code calls in sequence; `ds_val` is the value of the
   mantissa digits, `ds_count` minus the number of fractional digits (or the
   digit count if there is no radix point), `es_exp` the exponent value.
   `result_spec p m ng v z'` is the rounding specification of C01
   (Spec/Rounding.v): z' is v rounded once to p digits under mode m with the
   truthful accuracy. *)
From Coq Require Import ZArith QArith List.
From Dec Require Import Base.Words Base.QPow L3.Decimal L3.Round L3.Arith Spec.Rounding L4.Scan L4.ScanProofs L4.Toa L4.ToaProofs L4.Pow2Proofs.
Import ListNotations.
Open Scope Z_scope.

(* For every string on which the scanners succeed with detected base 10 and a
   decimal exponent: the literal denotes v * 10^e (v = digit value, e =
   exponent - number of fractional digits).  If its normalised exponent
   ndig v + e fits an int32 the receiver gets v * 10^e rounded once to the
   receiver's precision (34 if it was 0) and mode, with truthful accuracy, and
   is canonical; otherwise - and only then - the "exponent overflow" error is
   returned with a nil result. *)
Theorem C12_parse10 : forall z s base ng r1 ds,
  scanSign s = Some (ng, r1) -> dec_scan base r1 = Some ds -> ds_err ds = false -> ds_b ds = 10 ->
  let es := scanExponent (base =? 0) (ds_rest ds) in
  es_err es = false -> es_base es = 10 ->
  0 < ds_val ds -> ndig (ds_val ds) + 18 < 4294967296 - 18 -> - 4294967296 < ds_count ds ->
  0 <= prec z <= MaxPrec ->
  let v := ds_val ds in
  let e := Z.min (ds_count ds) 0 + es_exp es in
  let p := if prec z =? 0 then DefaultDecimalPrec else prec z in
  (MinExp <= ndig v + e <= MaxExp ->
     exists z', dscan_dec z s base = POk z' 10 (es_rest es) /\
       result_spec p (dmode z) ng (scaled v e) z' /\ prec z' = p /\ dmode z' = dmode z /\ WF z') /\
  (~ (MinExp <= ndig v + e <= MaxExp) -> exists z', dscan_dec z s base = PErr z' true).
Proof. exact parse10_correct. Qed.
Print Assumptions C12_parse10.

(* The same at the level of the literal's text, for the base arguments 10 and 0 and the grammar
   [-] digits [ "." digits ] ("e"|"E") ("+"|"-") digits  (I, F, eds are digit
   strings, I and eds non-empty; `digval s 0` is the number a digit string
   writes): Parse stores (I F) * 10^(+-eds - |F|) rounded once and consumes the
   whole string. *)
Theorem C12_parse10_literal : forall base z ng I F fch sg eds, (base = 10 \/ base = 0) ->
  all_digits I = true -> I <> [] -> all_digits F = true -> (fch = 101 \/ fch = 69) ->
  (sg = 43 \/ sg = 45) -> all_digits eds = true -> eds <> [] -> digval eds 0 <= 1099511627776 ->
  let s := sign_bytes ng ++ I ++ opt_frac F ++ fch :: sg :: eds in
  let v := digval (I ++ F) 0 in
  let e := (if sg =? 45 then - digval eds 0 else digval eds 0) - zlen F in
  0 < v -> ndig v + 18 < 4294967296 - 18 -> zlen F < 4294967296 -> 0 <= prec z <= MaxPrec ->
  MinExp <= ndig v + e <= MaxExp ->
  let p := if prec z =? 0 then DefaultDecimalPrec else prec z in
  exists z', Parse z s base = POk z' 10 [] /\
    result_spec p (dmode z) ng (scaled v e) z' /\ prec z' = p /\ dmode z' = dmode z /\ WF z'.
Proof. exact parse_efloat. Qed.
Print Assumptions C12_parse10_literal.

(* ... and without an exponent part:  [-] digits [ "." digits ] *)
Theorem C12_parse10_plain : forall base z ng I F, (base = 10 \/ base = 0) ->
  all_digits I = true -> I <> [] -> all_digits F = true ->
  let s := sign_bytes ng ++ I ++ opt_frac F in
  let v := digval (I ++ F) 0 in
  let e := - zlen F in
  0 < v -> ndig v + 18 < 4294967296 - 18 -> zlen F < 4294967296 -> 0 <= prec z <= MaxPrec ->
  MinExp <= ndig v + e <= MaxExp ->
  let p := if prec z =? 0 then DefaultDecimalPrec else prec z in
  exists z', Parse z s base = POk z' 10 [] /\
    result_spec p (dmode z) ng (scaled v e) z' /\ prec z' = p /\ dmode z' = dmode z /\ WF z'.
Proof. exact parse_plain. Qed.
Print Assumptions C12_parse10_plain.

(* Totality: for the five legal bases, every byte string shorter than 2^29 and
   every receiver precision up to 2^30, Parse neither panics nor raises ErrNaN,
   and every error comes with a nil result (`pgood`: the result is POk, or
   PErr with dnil = true).  This includes the binary-exponent path through
   pow2 / Mul / Quo. *)
Theorem C12_total : forall z s base,
  valid_base base = true -> zlen s < 536870912 -> 0 <= prec z <= 1073741824 ->
  pgood (Parse z s base).
Proof. exact Parse_total_full. Qed.
Print Assumptions C12_total.

(* the scanners always return, with a legal base and bounded results *)
Theorem C12_scan_total : forall base r, valid_base base = true ->
  exists ds, dec_scan base r = Some ds /\
    (ds_b ds = 2 \/ ds_b ds = 8 \/ ds_b ds = 10 \/ ds_b ds = 16) /\
    0 <= ds_val ds < 16 ^ zlen r /\ - zlen r <= ds_count ds <= zlen r.
Proof. exact dec_scan_facts. Qed.
Print Assumptions C12_scan_total.

(* NOT CLOSED (kept with their full statements):

   C12_accepts : forall s base, (exists z' b, Parse z s base = POk z' b []) <-> Grammar base s
   for an inductive transcription of the EBNF.  Not attempted; the acceptance
   set is compared with math/big and with a regular-expression transcription
   of the EBNF by the run (harness/props/C12.py, grammar()).

   C12_pow2_exact_partial : exactness of binary-exponent literals when
   representable.  False as stated for the code (known finding K7). *)

(* non-vacuity: concrete literals meet the hypotheses and produce the expected
   receivers; errors return nil *)
Example C12_witness :
  let z := mkDec [] 0 3 ToNearestEven Exact Fzero false in
  (* "-12.345e1" -> -123 (Above: -123 > -123.45) *)
  Parse z [45; 49; 50; 46; 51; 52; 53; 101; 49] 10 =
    POk (mkDec [1230000000000000000] 3 3 ToNearestEven Above Ffinite true) 10 [] /\
  (* "1e2147483647" : normalised exponent 2^31 leaves int32 *)
  (exists z', Parse z [49; 101; 50; 49; 52; 55; 52; 56; 51; 54; 52; 55] 10 = PErr z' true) /\
  (* "1_0" with base 0 is 10; with base 10 the '_' is a trailing character *)
  Parse z [49; 95; 48] 0 = POk (mkDec [1000000000000000000] 2 3 ToNearestEven Exact Ffinite false) 10 [] /\
  (exists z', Parse z [49; 95; 48] 10 = PErr z' true) /\
  (* "0x1p-1" = 0.5 through the binary-exponent path *)
  Parse z [48; 120; 49; 112; 45; 49] 0 = POk (mkDec [5000000000000000000] 0 3 ToNearestEven Exact Ffinite false) 16 [] /\
  Parse z [45; 73; 110; 102] 0 = POk (mkDec [] 0 3 ToNearestEven Exact Finf true) 0 [].
Proof. vm_compute. repeat split; eexists; reflexivity. Qed.
