(* Props/C04.v — zeros, infinities and NaN cases follow IEEE-754; only ErrNaN
   ever panics.  Statements only.

   `add_table` ... `quo_table` (L3/SpecialProofs.v) are the IEEE-754 tables for
   operands of which at least one is a zero or an infinity: SNaN = invalid
   operation, SVal f s = an exact zero/infinity of sign s, SCopyX/SCopyY/SNegY =
   the finite operand itself (rounded: C01_set), SFinite = both finite (C01).
   `SpecialPost z p t res` says that the model returned what t prescribes, with
   a canonical receiver of precision p and unchanged mode (after an ErrNaN too).
   In the model a panic other than ErrNaN is the result CrashR. *)
From Coq Require Import ZArith QArith.
From Dec Require Import Base.QPow L3.Decimal L3.Round L3.Arith L3.ArithProofs L3.SpecialProofs L3.FmaProofs L3.SpecialProofs2.
Open Scope Z_scope.

Theorem C04_add_special : forall zx zy z x y,
  WF x -> WF y -> 0 <= prec z <= MaxPrec -> (zx = true -> z = x) -> (zy = true -> z = y) ->
  SpecialPost z (eff_prec z x y) (add_table (dmode z) x y) (Add zx zy z x y).
Proof. exact Add_special. Qed.
Print Assumptions C04_add_special.

Theorem C04_sub_special : forall zx zy z x y,
  WF x -> WF y -> 0 <= prec z <= MaxPrec -> (zx = true -> z = x) -> (zy = true -> z = y) ->
  SpecialPost z (eff_prec z x y) (sub_table (dmode z) x y) (Sub zx zy z x y).
Proof. exact Sub_special. Qed.
Print Assumptions C04_sub_special.

Theorem C04_mul_special : forall z x y,
  WF x -> WF y -> 0 <= prec z <= MaxPrec ->
  SpecialPost z (eff_prec z x y) (mul_table x y) (Mul z x y).
Proof. exact Mul_special. Qed.
Print Assumptions C04_mul_special.

Theorem C04_quo_special : forall z x y,
  WF x -> WF y -> 0 <= prec z <= MaxPrec ->
  SpecialPost z (eff_prec z x y) (quo_table x y) (Quo z x y).
Proof. exact Quo_special. Qed.
Print Assumptions C04_quo_special.

(* exactly the invalid operations raise ErrNaN (for ALL operands, canonical or not) *)
Theorem C04_add_nan_iff : forall zx zy z x y,
  (exists z', Add zx zy z x y = NaNR z') <-> dform x = Finf /\ dform y = Finf /\ neg x <> neg y.
Proof. exact Add_nan_iff. Qed.
Print Assumptions C04_add_nan_iff.

Theorem C04_sub_nan_iff : forall zx zy z x y,
  (exists z', Sub zx zy z x y = NaNR z') <-> dform x = Finf /\ dform y = Finf /\ neg x = neg y.
Proof. exact Sub_nan_iff. Qed.
Print Assumptions C04_sub_nan_iff.

Theorem C04_mul_nan_iff : forall z x y,
  (exists z', Mul z x y = NaNR z') <->
  (dform x = Fzero /\ dform y = Finf) \/ (dform x = Finf /\ dform y = Fzero).
Proof. exact Mul_nan_iff. Qed.
Print Assumptions C04_mul_nan_iff.

Theorem C04_quo_nan_iff : forall z x y,
  (exists z', Quo z x y = NaNR z') <->
  (dform x = Fzero /\ dform y = Fzero) \/ (dform x = Finf /\ dform y = Finf).
Proof. exact Quo_nan_iff. Qed.
Print Assumptions C04_quo_nan_iff.

(* no operation on canonical arguments panics with anything else *)
Theorem C04_add_no_other_panic : forall zx zy z x y,
  WF x -> WF y -> 0 <= prec z <= MaxPrec -> (zx = true -> z = x) -> (zy = true -> z = y) ->
  add_span x y + 40 < 4294967296 - 18 -> Add zx zy z x y <> CrashR.
Proof. exact Add_no_crash. Qed.
Print Assumptions C04_add_no_other_panic.

Theorem C04_mul_no_other_panic : forall z x y,
  WF x -> WF y -> 0 <= prec z <= MaxPrec ->
  mdigits (mant x) + mdigits (mant y) < 4294967296 - 18 -> Mul z x y <> CrashR.
Proof. exact Mul_no_crash. Qed.
Print Assumptions C04_mul_no_other_panic.

Theorem C04_quo_no_other_panic : forall z x y,
  WF x -> WF y -> 0 <= prec z <= MaxPrec ->
  mdigits (mant x) + mdigits (mant y) + eff_prec z x y + 38 < 4294967296 - 18 -> Quo z x y <> CrashR.
Proof. exact Quo_no_crash. Qed.
Print Assumptions C04_quo_no_other_panic.

Theorem C04_sub_no_other_panic : forall zx zy z x y,
  WF x -> WF y -> 0 <= prec z <= MaxPrec -> (zx = true -> z = x) -> (zy = true -> z = y) ->
  add_span x y + 40 < 4294967296 - 18 -> Sub zx zy z x y <> CrashR.
Proof. exact Sub_no_crash. Qed.
Print Assumptions C04_sub_no_other_panic.

(* FMA(x, y, u) with zu = "the receiver is u".  `fma_table` (L3/SpecialProofs2.v) is
   mul_table for x*y followed by add_table for (x*y) + u: an invalid product is SNaN
   whatever u; an infinite product gives that infinity unless u is the opposite infinity
   (SNaN); an exact zero product gives u (infinite u: SVal; +-0: the zero-sum sign rule;
   finite u: SCopyY, see C04_fma_zero_product); x and y both finite: an infinite u is the
   result (C04_fma_finite_inf states that row on its own), otherwise SFinite (C03).  eff_prec3 = the receiver's precision or, if 0,
   the largest operand precision. *)
Theorem C04_fma_special : forall zu z x y u,
  WF x -> WF y -> WF u -> 0 <= prec z <= MaxPrec -> (zu = true -> z = u) ->
  SpecialPost z (eff_prec3 z x y u) (fma_table (dmode z) x y u) (FMA zu z x y u).
Proof. exact FMA_special. Qed.
Print Assumptions C04_fma_special.

Theorem C04_fma_zero_product : forall zu z x y u,
  WF x -> WF y -> WF u -> dform u = Ffinite ->
  (dform x = Fzero /\ dform y <> Finf) \/ (dform y = Fzero /\ dform x <> Finf) ->
  mdigits (mant u) < 4294967296 - 18 -> 0 <= prec z <= MaxPrec -> (zu = true -> z = u) ->
  OpPost (eff_prec3 z x y u) (dmode z) (neg u) (mag u) (FMA zu z x y u).
Proof. exact FMA_zero_product. Qed.
Print Assumptions C04_fma_zero_product.

Theorem C04_fma_finite_inf : forall zu z x y u,
  WF x -> WF y -> WF u -> dform x = Ffinite -> dform y = Ffinite -> dform u = Finf ->
  0 <= prec z <= MaxPrec -> (zu = true -> z = u) ->
  SpecialPost z (eff_prec3 z x y u) (SVal Finf (neg u)) (FMA zu z x y u).
Proof. exact FMA_finite_inf. Qed.
Print Assumptions C04_fma_finite_inf.

(* FMA raises ErrNaN exactly for 0*Inf, Inf*0, and an infinite product plus the opposite
   infinity: for ALL operands, canonical or not.  (Before repair F19 a finite product that
   overflowed the exponent range plus the opposite infinity also raised ErrNaN; regression
   witness FMA_overflow_inf_ok in L3/SpecialProofs2.v.) *)
Theorem C04_fma_nan_iff : forall zu z x y u,
  (exists z', FMA zu z x y u = NaNR z') <->
  (dform x = Fzero /\ dform y = Finf) \/ (dform x = Finf /\ dform y = Fzero) \/
  ((dform x = Finf \/ dform y = Finf) /\ dform u = Finf /\ xorb (neg x) (neg y) <> neg u).
Proof. exact FMA_nan_iff. Qed.
Print Assumptions C04_fma_nan_iff.

(* FMA on canonical operands never panics with anything else; for finite x, y, u under the
   preconditions of C03 (exact product within the exponent range, else known finding K3;
   digit span of the final addition within the uint32 arithmetic: `fma_span`, L3/FmaProofs.v,
   = max(digits x + digits y, digits u) + distance of the lowest digit positions) *)
Theorem C04_fma_no_other_panic : forall zu z x y u,
  WF x -> WF y -> WF u -> 0 <= prec z <= MaxPrec -> (zu = true -> z = u) ->
  (dform u = Ffinite -> mdigits (mant u) < 4294967296 - 18) ->
  (dform x = Ffinite -> dform y = Ffinite -> mdigits (mant x) + mdigits (mant y) < 4294967296 - 18) ->
  (dform x = Ffinite -> dform y = Ffinite -> dform u = Ffinite ->
     (scaled 1 (MinExp - 1) <= mag x * mag y)%Q /\ (mag x * mag y < scaled 1 MaxExp)%Q /\
     fma_span x y u + 58 < 4294967296 - 18) ->
  FMA zu z x y u <> CrashR.
Proof. exact FMA_no_crash. Qed.
Print Assumptions C04_fma_no_other_panic.

(* Not yet stated as theorems (covered by the correspondence run and the
   independent class table of harness/props/C04.py only):
   C04_sqrt_negative, C04_setfloat64_nan. *)

Example C04_witness :
  let pinf := mkDec [] 0 0 ToNearestEven Exact Finf false in
  let ninf := mkDec [] 0 0 ToNearestEven Exact Finf true in
  let pz := mkDec [] 0 0 ToNegativeInf Exact Fzero false in
  let nz := mkDec [] 0 0 ToNegativeInf Exact Fzero true in
  (exists d, Add false false pz pinf ninf = NaNR d) /\
  (exists d, Add false false pz pz nz = OkR d /\ neg d = true) /\
  (exists d, Quo pz pz nz = NaNR d) /\ (exists d, Mul pz pinf nz = NaNR d).
Proof. vm_compute. repeat split; eexists; repeat split. Qed.
