(* Props/C07b.v — assembly kernels = portable Go kernels = mathematics, the two
   kernels left open in Props/C07.v: add10VW and sub10VW, including the copy of
   decCpy each of them tail-jumps to once the carry / borrow is absorbed.
   Statements only; every proof is `exact <lemma>` (proofs: L1/AsmProofsVW.v).
   Vocabulary as in Props/C07.v.  The argument frame is z (base, len, cap),
   x (base, len, cap), y; the result c is slot 7.

   Hypotheses, and why the real callers satisfy them (dec.go, decimal.go):
     asc_ok z x n    z <= x \/ x + n <= z: every call site passes z = x (in
                     place: dec.go 885-964, decimal.go 1626) or a destination
                     that is the same buffer or a fresh one (dec.add / dec.sub,
                     dec.go 258 and 284): the assembly and decCpy run upwards.
     0 <= y < B      the contract of add10VW_g / sub10VW_g (y is a carry, a
                     borrow, 1, or a rounding digit); in particular every y for
                     which x[0] + y exceeds 2^64 is covered: the
                     SBBQ BX,BX ... ORQ AX,BX pair that folds the hardware carry
                     of the first word into the decimal carry is exercised by
                     the theorem (x[0] + y ranges up to 2*B - 2 > 2^64).
     words_ok        the words of x are decimal words (0 <= w < B).
   The Go-side theorems C07_g_add10VW / C07_g_sub10VW (Props/C07.v) have the
   same three hypotheses. *)
From Coq Require Import ZArith List.
From Dec Require Import Base.Words L1.U64 L1.X86 L1.KernSpec L1.KernG L1.KernAsm
  L1.AsmProofsVW gen.AsmProgs.
Import ListNotations.
Open Scope Z_scope.

Theorem C07_asm_add10VW : forall E n z x y rs m,
  8 * e_msize E <= W64 ->
  0 <= z -> z + Z.of_nat n <= e_msize E -> 0 <= x -> x + Z.of_nat n <= e_msize E ->
  asc_ok z x (Z.of_nat n) -> 0 <= y < B -> words_ok (rd m x n) = true ->
  exists N s', (forall f, run (N + S f) E prog_add10VW
                             (init_state rs (slice z n ++ slice x n ++ [y]) m) = Some s') /\
               st_frame s' 7 = snd (spec_add10VW (rd m x n) y) /\
               mem_eq (st_mem s') (wr m z (fst (spec_add10VW (rd m x n) y))).
Proof. exact asm_add10VW_correct. Qed.
Print Assumptions C07_asm_add10VW.

Theorem C07_asm_sub10VW : forall E n z x y rs m,
  8 * e_msize E <= W64 ->
  0 <= z -> z + Z.of_nat n <= e_msize E -> 0 <= x -> x + Z.of_nat n <= e_msize E ->
  asc_ok z x (Z.of_nat n) -> 0 <= y < B -> words_ok (rd m x n) = true ->
  exists N s', (forall f, run (N + S f) E prog_sub10VW
                             (init_state rs (slice z n ++ slice x n ++ [y]) m) = Some s') /\
               st_frame s' 7 = snd (spec_sub10VW (rd m x n) y) /\
               mem_eq (st_mem s') (wr m z (fst (spec_sub10VW (rd m x n) y))).
Proof. exact asm_sub10VW_correct. Qed.
Print Assumptions C07_asm_sub10VW.

(* non-vacuity: the hypotheses are satisfiable and interpreter = specification
   on concrete calls evaluated in the kernel (21-word array: x1 = words 0..6,
   x2 = words 7..13, scratch 14..20).  k1: in place, x[0] + y >= 2^64 (the
   hardware carry of the first word), carry absorbed inside the first block;
   k2: same operands into a disjoint destination (decCpy after the block);
   k3: sub10VW, no borrow out of the first block, copy; k4: sub10VW in place,
   borrow through a whole block and the single-word loop; k5: short vector. *)
Example C07b_witness :
  let m := mem_of_list [9999999999999999999; 9999999999999999999; 5; 7; 1; 2; 3;
                        0; 0; 0; 0; 0; 1; 2;  8; 8; 8; 8; 8; 8; 8] in
  let ok k := match asm_call k 21 m with
              | Some (Some (r, m')) => r = fst (spec_call k m) /\ rd m' 0 21 = rd (snd (spec_call k m)) 0 21
              | _ => False
              end in
  W64 <= 9999999999999999999 + 9999999999999999999 /\
  asc_ok 0 0 7 /\ asc_ok 14 0 7 /\ words_ok (rd m 0 14) = true /\
  ok (KAdd10VW 7 0 0 9999999999999999999) /\ ok (KAdd10VW 7 14 0 9999999999999999999) /\
  ok (KSub10VW 7 14 0 3) /\ ok (KSub10VW 7 7 7 1) /\ ok (KAdd10VW 2 14 0 1) /\
  fst (spec_call (KAdd10VW 7 0 0 9999999999999999999) m) = [0] /\
  fst (spec_call (KAdd10VW 2 14 0 1) m) = [1].
Proof. vm_compute. repeat split; try (left; discriminate); try (right; discriminate); discriminate. Qed.
