(* Props/C05.v — Sqrt is correctly rounded and respects the receiver's
   precision and mode.  Statements only.

   `Sqrt same z x` is the model of z.Sqrt(x) (L3/Sqrt.v; `same`: z and x are the
   same variable): Newton iteration on 1/sqrt(x) seeded by the float64 expression
   of the code (IEEE-754 binary64 operations of L3/Bin.v), final rounding
   multiplication, exponent re-attached by SetMantExp.  `OkR r`: normal return
   with the receiver in state r; `NaNR r`: panic(ErrNaN).

   Proved for every receiver and operand: the special-value table and the
   receiver's attributes.  The clause "rounded once to the receiver's precision
   under the receiver's mode" is FALSE on the tree (known finding K1):
   C05_sqrt_correct_refuted is a computed witness.  The full statement, kept
   here, is checked by predicate on the implementation's outputs on every run
   (harness/props/C05.py, the same integer-square test as sqrt_rounds_b):

     C05_sqrt_correct (refuted): forall same z x r, WF z -> WF x ->
       dform x = Ffinite -> neg x = false -> Sqrt same z x = OkR r ->
       dform r = Ffinite /\ neg r = false /\ sqrt_result_ok (dmode z) x r = true.
     C05_sqrt_1ulp (not attempted): ... -> the result is one of the two
       p-digit neighbours of the correctly rounded root. *)
From Coq Require Import ZArith QArith.
From Dec Require Import Base.QPow L3.Decimal L3.Cmp L3.Arith L3.Convert L3.Float L3.Sqrt L3.SqrtProofs.
Open Scope Z_scope.

(* Sqrt(±0) = ±0 *)
Theorem C05_special_zero : forall same z x, dform x = Fzero ->
  exists r, Sqrt same z x = OkR r /\ dform r = Fzero /\ neg r = neg x /\ acc r = Exact /\
            prec r = sqrt_prec z x /\ dmode r = dmode z.
Proof. exact Sqrt_zero. Qed.
Print Assumptions C05_special_zero.

(* Sqrt(+Inf) = +Inf *)
Theorem C05_special_inf : forall same z x, dform x = Finf -> neg x = false ->
  exists r, Sqrt same z x = OkR r /\ dform r = Finf /\ neg r = false /\ acc r = Exact /\
            prec r = sqrt_prec z x /\ dmode r = dmode z.
Proof. exact Sqrt_posinf. Qed.
Print Assumptions C05_special_inf.

(* negative operands, finite or -Inf, panic with ErrNaN whatever the receiver *)
Theorem C05_special_negative : forall same z x, dform x <> Fzero -> neg x = true ->
  exists r, Sqrt same z x = NaNR r.
Proof. exact Sqrt_negative. Qed.
Print Assumptions C05_special_negative.

(* precision and mode after the call: the receiver's own (x's precision if the
   receiver's was 0), for every input on which the model returns normally *)
Theorem C05_attrs : forall same z x z',
  Sqrt same z x = OkR z' ->
  (dform x = Ffinite -> sqrt_prec z x <> 0) ->
  prec z' = sqrt_prec z x /\ dmode z' = dmode z.
Proof. exact Sqrt_attrs. Qed.
Print Assumptions C05_attrs.

(* the exponent split: for finite x >= 0 with exponent b (x = 0.m * 10^b), Sqrt
   runs the Newton iteration (sqrtInverse) on z4 = x's mantissa with exponent
   b rem 2, receiver precision and mode — a value in [0.01, 10) with
   x = z4 * 10^(2 * (b quot 2)) — and re-attaches b quot 2 with SetMantExp.
   (`same = true` models z and x being the same variable.) *)
Theorem C05_exponent : forall same z x,
  WF x -> dform x = Ffinite -> neg x = false -> (same = true -> z = x) ->
  exists z4,
    Sqrt same z x = bindR (sqrtInverse z4) (fun r => SetMantExp true r r (Z.quot (exp x) 2)) /\
    mant z4 = mant x /\ exp z4 = Z.rem (exp x) 2 /\ dform z4 = Ffinite /\ neg z4 = false /\
    prec z4 = sqrt_prec z x /\ dmode z4 = dmode z /\
    (mag x == mag z4 * Qpow10 (2 * Z.quot (exp x) 2))%Q /\
    (scaled 1 (-2) <= mag z4)%Q /\ (mag z4 < scaled 1 1)%Q.
Proof. exact Sqrt_exponent. Qed.
Print Assumptions C05_exponent.

(* K1: x = 773288910932290629180064891113.1, 30 digits, ToNearestEven: the model
   returns a canonical 30-digit value that fails the integer-square test of
   correct rounding *)
Theorem C05_sqrt_correct_refuted :
  wf_b k1_x = true /\ Sqrt false k1_z k1_x = OkR k1_r /\ wf_b k1_r = true /\
  dform k1_r = Ffinite /\ prec k1_r = 30 /\ sqrt_result_ok ToNearestEven k1_x k1_r = false.
Proof. exact Sqrt_not_correctly_rounded. Qed.
Print Assumptions C05_sqrt_correct_refuted.

(* K1 on a perfect square ("perfect squares give their exact root in every
   mode" fails): Sqrt(9) is 2.999 in a 4-digit ToZero receiver and
   3.000000000000000000000000000000001 in a 34-digit ToPositiveInf receiver *)
Theorem C05_perfect_square_refuted :
  Sqrt false (mkDec nil 0 4 ToZero Exact Fzero false) nine = OkR k1_sq_r /\
  mant k1_sq_r = (2999000000000000000 :: nil)%list /\ exp k1_sq_r = 1 /\
  sqrt_result_ok ToZero nine k1_sq_r = false /\
  Sqrt false (mkDec nil 0 34 ToPositiveInf Exact Fzero false) nine = OkR k1_sq_r' /\
  mant k1_sq_r' = (10000 :: 3000000000000000000 :: nil)%list /\ exp k1_sq_r' = 1 /\ prec k1_sq_r' = 34 /\
  sqrt_result_ok ToPositiveInf nine k1_sq_r' = false.
Proof. exact Sqrt_perfect_square_not_exact. Qed.
Print Assumptions C05_perfect_square_refuted.

(* non-vacuity: the decision procedure accepts correctly rounded roots and
   rejects their neighbours; the model computes sqrt(4) = 2 and sqrt(2) *)
Example C05_sqrt_rounds_b_examples :
  sqrt_rounds_b ToNearestEven 5 2 0 14142 (-4) = true /\
  sqrt_rounds_b ToNearestEven 5 2 0 14143 (-4) = false /\
  sqrt_rounds_b ToPositiveInf 5 2 0 14143 (-4) = true /\
  sqrt_rounds_b ToZero 5 2 0 14142 (-4) = true /\
  sqrt_rounds_b ToZero 3 4 0 200 (-2) = true /\
  sqrt_rounds_b AwayFromZero 3 4 0 201 (-2) = false /\
  sqrt_rounds_b ToNearestEven 30 7732889109322906291800648911131 (-1) 879368472787312650299454721519 (-15) = true.
Proof. vm_compute. repeat split. Qed.

Example C05_model_examples :
  let z := mkDec [] 0 5 ToNearestEven Exact Fzero false in
  let four := mkDec [4000000000000000000] 1 1 ToZero Exact Ffinite false in
  let two := mkDec [2000000000000000000] 1 1 ToZero Exact Ffinite false in
  (exists r, Sqrt false z four = OkR r /\ mant r = [2000000000000000000] /\ exp r = 1 /\ prec r = 5 /\ dmode r = ToNearestEven) /\
  (exists r, Sqrt false z two = OkR r /\ mant r = [1414200000000000000] /\ exp r = 1) /\
  (exists r, Sqrt true two two = OkR r /\ mant r = [1000000000000000000] /\ exp r = 1 /\ prec r = 1 /\ dmode r = ToZero).
Proof. vm_compute. repeat split; eexists; repeat split. Qed.
