(* Props/C05.v — the repaired Sqrt is correctly rounded and respects the
   receiver's precision and mode.  Statements only.

   `Sqrt same z x` is the model of z.Sqrt(x) after the repair (L3/Sqrt.v; `same`:
   z and x are the same variable): Newton iteration on 1/sqrt(x0) with two guard
   digits and truncation (sqrtInverse), the correction step sqrtRound — with
   ulp = one unit of the last of the p+2 digits and one more digit of precision
   on z (so that stepping over a power of ten stays exact), walk z down while
   z^2 > x0, up while (z+ulp)^2 <= x0, add half an ulp as a sticky digit when
   z^2 <> x0, one SetPrec to the requested precision and mode — and
   the exponent re-attached by SetMantExp with the accuracy of that rounding.
   `OkR r`: normal return with the receiver in state r; `NaNR r`: panic(ErrNaN);
   `CrashR`: any other panic, or a correction loop that needs more than
   sqrt_fuel = 200 iterations.

   "Rounded once" is stated without real numbers (Spec/SqrtSpec.v):
     RoundedTo md p v r      mag r is the rational v rounded once to p digits
                             under md (Spec/Rounding.v), acc r = sign (mag r - v);
     IsSqrtRounding md p q r either q = v^2 for a rational v >= 0 and
                             RoundedTo md p v r, or there are rationals
                             lo < hi with lo^2 < q < hi^2 such that
                             RoundedTo md p v r for EVERY rational v in
                             (lo, hi): rounding is constant, accuracy included,
                             on an open interval around the root.
   C05_accuracy spells out the consequence on squares.

   The proof uses only the exit conditions of the correction loops, not the
   accuracy of the Newton iteration.  What it needs from the Newton stage is
   ApproxOK z1 (L3/SqrtProofs.v), in plain terms: the Newton stage returned a
   canonical (WF) positive finite value below 10 with a bounded exponent, i.e.
     WF z1, dform z1 = Ffinite, neg z1 = false,
     exp z1 <= 1            (z1 < 10; the root of x0 < 10 is below 3.17),
     - 10^6 <= exp z1       (not absurdly small),
     mdigits (mant z1) <= prec z1 + 18   (the mantissa slice is not longer
                                          than the precision plus one word).
   Nothing is asked about how close z1 is to the root.  That condition is a
   hypothesis of C05_sqrt_correct (checked by computation in the examples and
   on every run of the differential test); C05_sqrtRound_correct is the
   unconditional statement about the correction step. *)
From Coq Require Import ZArith QArith List.
From Dec Require Import Base.QPow L3.Decimal L3.Cmp L3.Arith L3.Convert L3.Float
  Spec.Rounding Spec.SqrtSpec L3.Sqrt L3.SqrtProofs.
Import ListNotations.
Open Scope Z_scope.

(* Sqrt(±0) = ±0 *)
Theorem C05_special_zero : forall same z x, dform x = Fzero ->
  exists r, Sqrt same z x = OkR r /\ dform r = Fzero /\ neg r = neg x /\ acc r = Exact /\
            prec r = sqrt_prec z x /\ dmode r = dmode z.
Proof. exact Sqrt_zero. Qed.
Print Assumptions C05_special_zero.

(* Sqrt(+Inf) = +Inf *)
Theorem C05_special_inf : forall same z x, dform x = Finf -> neg x = false ->
  exists r, Sqrt same z x = OkR r /\ dform r = Finf /\ neg r = false /\ acc r = Exact /\
            prec r = sqrt_prec z x /\ dmode r = dmode z.
Proof. exact Sqrt_posinf. Qed.
Print Assumptions C05_special_inf.

(* negative operands, finite or -Inf, panic with ErrNaN whatever the receiver *)
Theorem C05_special_negative : forall same z x, dform x <> Fzero -> neg x = true ->
  exists r, Sqrt same z x = NaNR r.
Proof. exact Sqrt_negative. Qed.
Print Assumptions C05_special_negative.

(* precision and mode after the call: the receiver's own (x's precision if the
   receiver's was 0), for every input on which the model returns normally *)
Theorem C05_attrs : forall same z x z',
  Sqrt same z x = OkR z' ->
  (dform x = Ffinite -> 1 <= sqrt_prec z x <= MaxPrec) ->
  prec z' = sqrt_prec z x /\ dmode z' = dmode z.
Proof. exact Sqrt_attrs. Qed.
Print Assumptions C05_attrs.

(* the exponent split: for finite x >= 0, Sqrt runs sqrtInverse and sqrtRound on
   x0 = x's mantissa with exponent (exp x) rem 2 and re-attaches (exp x) quot 2
   keeping the accuracy of sqrtRound's rounding; x0 is in [0.01, 10) and
   x = x0 * 100^((exp x) quot 2) *)
Theorem C05_exponent : forall same z x,
  dform x = Ffinite -> neg x = false -> (same = true -> z = x) ->
  Sqrt same z x =
    bindR (sqrtInverse (sqrt_zN z x) (sqrt_x0 z x)) (fun z1 =>
    bindR (sqrtRound z1 (sqrt_x0 z x) (sqrt_prec z x) (dmode z)) (fun z2 =>
    bindR (SetMantExp true z2 z2 (Z.quot (exp x) 2)) (fun z3 => OkR (with_acc z3 (acc z2))))).
Proof. exact Sqrt_unfold. Qed.
Print Assumptions C05_exponent.

Theorem C05_exponent_value : forall z x, WF x -> dform x = Ffinite ->
  WF (with_prec (sqrt_x0 z x) (prec x)) /\
  (mag x == mag (sqrt_x0 z x) * Qpow10 (2 * Z.quot (exp x) 2))%Q /\
  (scaled 1 (-2) <= mag (sqrt_x0 z x))%Q /\ (mag (sqrt_x0 z x) < scaled 1 1)%Q.
Proof. exact sqrt_x0_facts. Qed.
Print Assumptions C05_exponent_value.

(* the correction step: from ANY canonical positive approximation z with p + 2
   digits (any rounding mode) whose exponent is at most two above the root's
   (10^(exp z - 2) <= sqrt x), whenever sqrtRound returns, the result is sqrt(x)
   rounded once to p digits under md, with truthful accuracy *)
Theorem C05_sqrtRound_correct : forall z x p md r,
  WF z -> dform z = Ffinite -> neg z = false -> prec z = p + 2 ->
  mdigits (mant z) <= prec z + 18 ->
  1 <= p <= 1000000000 -> - 1000000 <= exp z <= 1000 ->
  WF x -> dform x = Ffinite -> neg x = false ->
  (scaled 1 (2 * (exp z - 2)) <= mag x)%Q ->
  sqrtRound z x p md = OkR r ->
  WF r /\ dform r = Ffinite /\ neg r = false /\ prec r = p /\ dmode r = md /\
  IsSqrtRounding md p (mag x) r /\
  (scaled 1 (exp z - 2) <= mag r)%Q /\ (mag r <= scaled 1 (exp z + 2))%Q /\
  mdigits (mant r) <= p + 23.
Proof. exact sqrtRound_correct. Qed.
Print Assumptions C05_sqrtRound_correct.

(* Sqrt: for every receiver and every canonical finite x >= 0, with effective
   precision p = sqrt_prec z x <= 10^9: if the Newton stage hands a sane value
   to the correction step (ApproxOK) and the model returns r, then r is
   canonical, finite, non-negative, has precision p and the receiver's mode, and
   is sqrt(x) rounded once to p digits under that mode with truthful accuracy.
   Hypothesis on the Newton stage, in plain terms: whenever sqrtInverse returns
   z1, z1 is a canonical positive finite value below 10 (exp z1 <= 1) with a
   bounded exponent (>= -10^6) and a mantissa of at most prec + 18 digits. *)
Theorem C05_sqrt_correct : forall same z x r,
  WF x -> dform x = Ffinite -> neg x = false -> (same = true -> z = x) ->
  0 <= prec z -> sqrt_prec z x <= 1000000000 ->
  (forall z1, sqrtInverse (sqrt_zN z x) (sqrt_x0 z x) = OkR z1 -> ApproxOK z1) ->
  Sqrt same z x = OkR r ->
  WF r /\ dform r = Ffinite /\ neg r = false /\
  prec r = sqrt_prec z x /\ dmode r = dmode z /\
  IsSqrtRounding (dmode z) (sqrt_prec z x) (mag x) r.
Proof. exact Sqrt_correct_partial. Qed.
Print Assumptions C05_sqrt_correct.

(* what IsSqrtRounding says on squares: the accuracy is the sign of r^2 - x; in
   particular a result marked Exact is an exact root *)
Theorem C05_accuracy : forall md p xq r, 1 <= p ->
  IsSqrtRounding md p xq r ->
  match acc r with
  | Below => (mag r * mag r < xq)%Q
  | Exact => (mag r * mag r == xq)%Q
  | Above => (xq < mag r * mag r)%Q
  end.
Proof. exact IsSqrtRounding_accuracy. Qed.
Print Assumptions C05_accuracy.

(* ---- non-vacuity ---- *)
(* the model returns, with the expected digits and accuracies: sqrt 4 = 2 (Exact),
   sqrt 2 = 1.4142 (Below), sqrt 9 = 3 exactly in the two receivers where the
   unrepaired code returned 2.999 and 3.000...001, and the 30-digit witness of K1
   now gives 879368472787312.650299454721519 *)
Example C05_model_examples :
  (exists r, Sqrt false ex_z5 ex_four = OkR r /\ mant r = [2000000000000000000] /\ exp r = 1 /\ prec r = 5 /\
             dmode r = ToNearestEven /\ acc r = Exact) /\
  (exists r, Sqrt false ex_z5 ex_two = OkR r /\ mant r = [1414200000000000000] /\ exp r = 1 /\ acc r = Below) /\
  (exists r, Sqrt true ex_two ex_two = OkR r /\ mant r = [1000000000000000000] /\ exp r = 1 /\ prec r = 1 /\
             dmode r = ToZero /\ acc r = Below) /\
  (exists r, Sqrt false (mkDec [] 0 4 ToZero Exact Fzero false) ex_nine = OkR r /\
             mant r = [3000000000000000000] /\ exp r = 1 /\ acc r = Exact) /\
  (exists r, Sqrt false (mkDec [] 0 34 ToPositiveInf Exact Fzero false) ex_nine = OkR r /\
             mant r = [0; 3000000000000000000] /\ exp r = 1 /\ acc r = Exact) /\
  (exists r, Sqrt false ex_k1_z ex_k1_x = OkR r /\
             mant r = [9945472151900000000; 8793684727873126502] /\ exp r = 15 /\ prec r = 30 /\ acc r = Below).
Proof. vm_compute. repeat split; eexists; repeat split. Qed.

(* the hypothesis of C05_sqrt_correct holds on these inputs: the Newton stage
   returns 1.414213 (7 digits) and 0.87936847278731265029945472151948 (32 digits) *)
Example C05_newton_sane_examples :
  (exists z1, sqrtInverse (sqrt_zN ex_z5 ex_two) (sqrt_x0 ex_z5 ex_two) = OkR z1 /\
              mant z1 = [1414213000000000000] /\ exp z1 = 1 /\ prec z1 = 7 /\ wf_b z1 = true /\
              dform z1 = Ffinite /\ neg z1 = false /\ (mdigits (mant z1) <=? prec z1 + 18) = true) /\
  (exists z1, sqrtInverse (sqrt_zN ex_k1_z ex_k1_x) (sqrt_x0 ex_k1_z ex_k1_x) = OkR z1 /\
              mant z1 = [9945472151948000000; 8793684727873126502] /\ exp z1 = 0 /\ prec z1 = 32 /\
              wf_b z1 = true /\ dform z1 = Ffinite /\ neg z1 = false /\
              (mdigits (mant z1) <=? prec z1 + 18) = true).
Proof. split; (eexists; split; [vm_compute; reflexivity|vm_compute; repeat split]). Qed.

(* the former stuck input of the correction step (z one unit below a power of
   ten, the root more than one unit above it: without the extra digit z.Set(t)
   truncated back and the loop never ended): sqrtRound on z = 0.9999999 (7
   digits, ToZero), x = 1.0000003, p = 5 returns 1.0000, Below *)
Example C05_sqrtRound_power_crossing :
  exists r, sqrtRound (mkDec [9999999000000000000] 0 7 ToZero Exact Ffinite false)
                      (mkDec [1000000300000000000] 1 8 ToNearestEven Exact Ffinite false) 5 ToNearestEven = OkR r /\
            mant r = [1000000000000000000] /\ exp r = 1 /\ prec r = 5 /\ dmode r = ToNearestEven /\
            acc r = Below /\ dform r = Ffinite /\ neg r = false.
Proof. vm_compute. eexists; repeat split. Qed.

(* hence the conclusion of C05_sqrt_correct holds for sqrt 2 at 5 digits *)
Example C05_sqrt_correct_instance :
  exists r, Sqrt false ex_z5 ex_two = OkR r /\ IsSqrtRounding ToNearestEven 5 (mag ex_two) r.
Proof. exact Sqrt_correct_instance. Qed.
