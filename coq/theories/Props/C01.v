(* Props/C01.v — Add, Sub, Mul, Quo, Set, SetPrec, Neg, Abs return the exact
   result rounded once.  Statements only; every proof is `exact <lemma>`.

   Reading guide.  `result_spec p m ng v z'` (Spec/Rounding.v) says: z' has sign
   ng and is  - a zero with accuracy relative to the exact value when
   v < 10^(MinExp-1),  - otherwise the finite value of magnitude r, where r is v
   rounded once to p significant digits under mode m (`Rounds`), with the
   accuracy acc_of ng r v, unless r >= 10^MaxExp, in which case z' is an
   infinity.  `OpPost p m ng v res` = the operation returned normally with a
   canonical (WF) receiver z' of precision p and mode m satisfying result_spec.
   `AddPost` adds the IEEE rule for an exactly zero sum.  Hypotheses that are
   not in the property text: operands are canonical (C08), and the digit span of
   the operation stays below 2^32 (the code computes digit counts in uint32). *)
From Coq Require Import ZArith QArith Qabs.
From Dec Require Import Base.QPow L3.Decimal L3.Round L3.Arith Spec.Rounding Spec.RoundingFacts L3.ArithProofs.
Open Scope Z_scope.

Theorem C01_add : forall zx zy z x y,
  WF x -> WF y -> dform x = Ffinite -> dform y = Ffinite -> 0 <= prec z <= MaxPrec ->
  add_span x y + 40 < 4294967296 - 18 ->
  AddPost (eff_prec z x y) (dmode z) (sval x + sval y) (Add zx zy z x y).
Proof. exact Add_correct. Qed.
Print Assumptions C01_add.

Theorem C01_sub : forall zx zy z x y,
  WF x -> WF y -> dform x = Ffinite -> dform y = Ffinite -> 0 <= prec z <= MaxPrec ->
  add_span x y + 40 < 4294967296 - 18 ->
  AddPost (eff_prec z x y) (dmode z) (sval x - sval y) (Sub zx zy z x y).
Proof. exact Sub_correct. Qed.
Print Assumptions C01_sub.

Theorem C01_mul : forall z x y,
  WF x -> WF y -> dform x = Ffinite -> dform y = Ffinite -> 0 <= prec z <= MaxPrec ->
  mdigits (mant x) + mdigits (mant y) < 4294967296 - 18 ->
  OpPost (eff_prec z x y) (dmode z) (xorb (neg x) (neg y)) (mag x * mag y) (Mul z x y).
Proof. exact Mul_correct. Qed.
Print Assumptions C01_mul.

Theorem C01_quo : forall z x y,
  WF x -> WF y -> dform x = Ffinite -> dform y = Ffinite -> 0 <= prec z <= MaxPrec ->
  mdigits (mant x) + mdigits (mant y) + eff_prec z x y + 38 < 4294967296 - 18 ->
  OpPost (eff_prec z x y) (dmode z) (xorb (neg x) (neg y)) (mag x / mag y) (Quo z x y).
Proof. exact Quo_correct. Qed.
Print Assumptions C01_quo.

(* same = the receiver is the operand itself (z.Set(z)) *)
Theorem C01_set : forall same z x,
  WF x -> dform x = Ffinite -> mdigits (mant x) < 4294967296 - 18 ->
  0 <= prec z <= MaxPrec -> (same = true -> z = x) ->
  let p := if prec z =? 0 then prec x else prec z in
  OpPost p (dmode z) (neg x) (mag x) (Set_ same z x).
Proof. exact Set_correct. Qed.
Print Assumptions C01_set.

Theorem C01_setprec : forall z p',
  WF z -> dform z = Ffinite -> mdigits (mant z) < 4294967296 - 18 -> 1 <= p' ->
  let p := if MaxPrec <? p' then MaxPrec else p' in
  OpPost p (dmode z) (neg z) (mag z) (SetPrec z p').
Proof. exact SetPrec_correct. Qed.
Print Assumptions C01_setprec.

(* Neg and Abs round x with x's sign, then change the sign *)
Theorem C01_neg : forall same z x,
  WF x -> dform x = Ffinite -> mdigits (mant x) < 4294967296 - 18 ->
  0 <= prec z <= MaxPrec -> (same = true -> z = x) ->
  let p := if prec z =? 0 then prec x else prec z in
  exists z', Neg_ same z x = OkR (with_neg z' (negb (neg x))) /\
    result_spec p (dmode z) (neg x) (mag x) z' /\ prec z' = p /\ dmode z' = dmode z /\ WF z'.
Proof. exact Neg_correct. Qed.
Print Assumptions C01_neg.

Theorem C01_abs : forall same z x,
  WF x -> dform x = Ffinite -> mdigits (mant x) < 4294967296 - 18 ->
  0 <= prec z <= MaxPrec -> (same = true -> z = x) ->
  let p := if prec z =? 0 then prec x else prec z in
  exists z', Abs_ same z x = OkR (with_neg z' false) /\
    result_spec p (dmode z) (neg x) (mag x) z' /\ prec z' = p /\ dmode z' = dmode z /\ WF z'.
Proof. exact Abs_correct. Qed.
Print Assumptions C01_abs.

(* the relation that defines "rounded once" is functional up to equality of
   rationals: any two results allowed by it coincide *)
Theorem C01_rounds_unique : forall m ng p v r r',
  (0 < v)%Q -> 1 <= p -> Rounds m ng p v r -> Rounds m ng p v r' -> (r == r')%Q.
Proof. exact Rounds_unique. Qed.
Print Assumptions C01_rounds_unique.

(* non-vacuity: concrete canonical operands meet every hypothesis, and the
   model computes the expected rounded results *)
Example C01_witness :
  let x := mkDec [1250000000000000000] 1 3 ToNearestEven Exact Ffinite false in   (* 1.25 *)
  let y := mkDec [3000000000000000000] 1 1 ToNearestEven Exact Ffinite true in    (* -3   *)
  let z := mkDec [] 0 2 ToPositiveInf Exact Fzero false in
  WF x /\ WF y /\
  Add false false z x y = OkR (mkDec [1700000000000000000] 1 2 ToPositiveInf Above Ffinite true) /\ (* -1.75 -> -1.7 *)
  Mul z x y = OkR (mkDec [3700000000000000000] 1 2 ToPositiveInf Above Ffinite true) /\             (* -3.75 -> -3.7 *)
  Quo z x y = OkR (mkDec [4100000000000000000] 0 2 ToPositiveInf Above Ffinite true).               (* -0.41666 -> -0.41 *)
Proof. vm_compute. repeat split. Qed.
