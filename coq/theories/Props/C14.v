(* Props/C14.v — integer and rational conversions are exact, with documented
   saturation.  Statements only.  `OpPost p m s v res` (see Props/C01.v): the
   call returned a canonical receiver of precision p and mode m holding the
   exact value (sign s, magnitude v) rounded once, +-0 / +-Inf outside the
   exponent range.  `scaled a e` = a * 10^e as a rational. *)
From Coq Require Import ZArith QArith.
From Dec Require Import Base.QPow L3.Decimal L3.CmpProofs L3.Round L3.Arith L3.Convert Spec.Rounding L3.ArithProofs L3.ConvertProofs.
Open Scope Z_scope.

Theorem C14_setint64 : forall z x, MinInt64 <= x <= MaxInt64 -> x <> 0 -> 0 <= prec z <= MaxPrec ->
  OpPost (if prec z =? 0 then DefaultDecimalPrec else prec z) (dmode z) (x <? 0) (scaled (Z.abs x) 0) (SetInt64 z x).
Proof. exact SetInt64_correct. Qed.
Print Assumptions C14_setint64.

Theorem C14_setuint64 : forall z x, 0 < x <= MaxUint64 -> 0 <= prec z <= MaxPrec ->
  OpPost (if prec z =? 0 then DefaultDecimalPrec else prec z) (dmode z) false (scaled x 0) (SetUint64 z x).
Proof. exact SetUint64_correct. Qed.
Print Assumptions C14_setuint64.

(* NewDecimal(x, e) for EVERY integer exponent e: x * 10^e rounded to 34 digits,
   saturating to +-0 / +-Inf (result_spec) when it leaves the exponent range *)
Theorem C14_newdecimal : forall x e, MinInt64 <= x <= MaxInt64 -> x <> 0 ->
  OpPost DefaultDecimalPrec ToNearestEven (x <? 0) (scaled (Z.abs x) e) (NewDecimal x e).
Proof. exact NewDecimal_correct. Qed.
Print Assumptions C14_newdecimal.

Theorem C14_set_zero : forall z ng e, 0 <= prec z <= MaxPrec ->
  exists z', setBits64 z ng 0 e = OkR z' /\ dform z' = Fzero /\ neg z' = ng /\ acc z' = Exact /\
    prec z' = (if prec z =? 0 then DefaultDecimalPrec else prec z) /\ dmode z' = dmode z /\ WF z'.
Proof. exact setBits64_zero. Qed.
Print Assumptions C14_set_zero.

(* SetInt: precision 0 becomes max(number of digits, 34), so integers are stored exactly *)
Theorem C14_setint : forall z x D,
  x <> 0 -> Z.abs x < 10 ^ D -> 0 <= D -> D + 19 < 4294967296 - 18 -> 0 <= prec z <= MaxPrec ->
  OpPost (setint_prec z x) (dmode z) (x <? 0) (scaled (Z.abs x) 0) (SetInt z x).
Proof. exact SetInt_correct. Qed.
Print Assumptions C14_setint.

(* Int: truncation toward zero, Exact iff nothing was discarded, else the sign of the discarded part *)
Theorem C14_int : forall x, WF x -> dform x = Ffinite -> 0 < exp x ->
  exists t a, Int x = (Some t, a) /\
    (scaled (Z.abs t) 0 <= mag x)%Q /\ (mag x < scaled (Z.abs t + 1) 0)%Q /\
    (t < 0 -> neg x = true) /\ (0 < t -> neg x = false) /\
    (a = Exact <-> (mag x == scaled (Z.abs t) 0)%Q) /\ (a <> Exact -> a = makeAcc (neg x)).
Proof. exact Int_correct. Qed.
Print Assumptions C14_int.

(* Rat returns exactly x, in lowest terms *)
Theorem C14_rat : forall x, WF x -> dform x = Ffinite ->
  exists n d, Rat x = (Some (n, d), Exact) /\ 0 < d /\ Z.gcd n d = 1 /\ (inject_Z n / inject_Z d == sval x)%Q.
Proof. exact Rat_exact. Qed.
Print Assumptions C14_rat.

(* MinPrec is the number of significant digits: 10^k divides the mantissa integer iff
   k <= (digits held) - MinPrec; and 1 <= MinPrec <= Prec *)
Theorem C14_minprec : forall x, WFfin x -> dform x = Ffinite ->
  1 <= MinPrec x <= mdigits (mant x) /\ MinPrec x <= prec x /\
  forall k, 0 <= k -> (val (mant x) mod 10 ^ k = 0 <-> k <= mdigits (mant x) - MinPrec x).
Proof. exact MinPrec_spec. Qed.
Print Assumptions C14_minprec.

(* Not yet closed as theorems (decided by the correspondence run and the independent
   oracle of harness/props/C14.py): C14_int64 / C14_uint64 (saturation at the type's
   bounds), C14_isint, C14_setrat. *)

Example C14_examples :
  let x := mkDec [9223372036854775807] 19 19 ToNearestEven Exact Ffinite false in   (* 2^63-1 *)
  let y := mkDec [5000000000000000000; 9223372036854775807] 19 38 ToNearestEven Exact Ffinite true in (* -(2^63-1).5 *)
  Int64 x = (9223372036854775807, Exact) /\ Int64 y = (-9223372036854775807, Above) /\
  Uint64 y = (0, Above) /\ IsInt x = true /\ IsInt y = false /\ MinPrec y = 20.
Proof. vm_compute. repeat split. Qed.
