(* Props/C14.v — integer and rational conversions are exact, with documented
   saturation.  Statements only.  `OpPost p m s v res` (see Props/C01.v): the
   call returned a canonical receiver of precision p and mode m holding the
   exact value (sign s, magnitude v) rounded once, +-0 / +-Inf outside the
   exponent range.  `scaled a e` = a * 10^e as a rational. *)
From Coq Require Import ZArith QArith.
From Dec Require Import Base.QPow L3.Decimal L3.CmpProofs L3.Round L3.Arith L3.Convert Spec.Rounding L3.ArithProofs L3.ConvertProofs L3.ConvProofs2.
Open Scope Z_scope.

Theorem C14_setint64 : forall z x, MinInt64 <= x <= MaxInt64 -> x <> 0 -> 0 <= prec z <= MaxPrec ->
  OpPost (if prec z =? 0 then DefaultDecimalPrec else prec z) (dmode z) (x <? 0) (scaled (Z.abs x) 0) (SetInt64 z x).
Proof. exact SetInt64_correct. Qed.
Print Assumptions C14_setint64.

Theorem C14_setuint64 : forall z x, 0 < x <= MaxUint64 -> 0 <= prec z <= MaxPrec ->
  OpPost (if prec z =? 0 then DefaultDecimalPrec else prec z) (dmode z) false (scaled x 0) (SetUint64 z x).
Proof. exact SetUint64_correct. Qed.
Print Assumptions C14_setuint64.

(* NewDecimal(x, e) for EVERY integer exponent e: x * 10^e rounded to 34 digits,
   saturating to +-0 / +-Inf (result_spec) when it leaves the exponent range *)
Theorem C14_newdecimal : forall x e, MinInt64 <= x <= MaxInt64 -> x <> 0 ->
  OpPost DefaultDecimalPrec ToNearestEven (x <? 0) (scaled (Z.abs x) e) (NewDecimal x e).
Proof. exact NewDecimal_correct. Qed.
Print Assumptions C14_newdecimal.

Theorem C14_set_zero : forall z ng e, 0 <= prec z <= MaxPrec ->
  exists z', setBits64 z ng 0 e = OkR z' /\ dform z' = Fzero /\ neg z' = ng /\ acc z' = Exact /\
    prec z' = (if prec z =? 0 then DefaultDecimalPrec else prec z) /\ dmode z' = dmode z /\ WF z'.
Proof. exact setBits64_zero. Qed.
Print Assumptions C14_set_zero.

(* SetInt: precision 0 becomes max(number of digits, 34), so integers are stored exactly *)
Theorem C14_setint : forall z x D,
  x <> 0 -> Z.abs x < 10 ^ D -> 0 <= D -> D + 19 < 4294967296 - 18 -> 0 <= prec z <= MaxPrec ->
  OpPost (setint_prec z x) (dmode z) (x <? 0) (scaled (Z.abs x) 0) (SetInt z x).
Proof. exact SetInt_correct. Qed.
Print Assumptions C14_setint.

(* Int: truncation toward zero, Exact iff nothing was discarded, else the sign of the discarded part *)
Theorem C14_int : forall x, WF x -> dform x = Ffinite -> 0 < exp x ->
  exists t a, Int x = (Some t, a) /\
    (scaled (Z.abs t) 0 <= mag x)%Q /\ (mag x < scaled (Z.abs t + 1) 0)%Q /\
    (t < 0 -> neg x = true) /\ (0 < t -> neg x = false) /\
    (a = Exact <-> (mag x == scaled (Z.abs t) 0)%Q) /\ (a <> Exact -> a = makeAcc (neg x)).
Proof. exact Int_correct. Qed.
Print Assumptions C14_int.

(* Rat returns exactly x, in lowest terms *)
Theorem C14_rat : forall x, WF x -> dform x = Ffinite ->
  exists n d, Rat x = (Some (n, d), Exact) /\ 0 < d /\ Z.gcd n d = 1 /\ (inject_Z n / inject_Z d == sval x)%Q.
Proof. exact Rat_exact. Qed.
Print Assumptions C14_rat.

(* MinPrec is the number of significant digits: 10^k divides the mantissa integer iff
   k <= (digits held) - MinPrec; and 1 <= MinPrec <= Prec *)
Theorem C14_minprec : forall x, WFfin x -> dform x = Ffinite ->
  1 <= MinPrec x <= mdigits (mant x) /\ MinPrec x <= prec x /\
  forall k, 0 <= k -> (val (mant x) mod 10 ^ k = 0 <-> k <= mdigits (mant x) - MinPrec x).
Proof. exact MinPrec_spec. Qed.
Print Assumptions C14_minprec.

(* Int64 / Uint64.  For every canonical finite x there are t and a with: t is x truncated
   toward zero (|t| = floor |x|, the sign of x), a = Exact iff x is an integer and otherwise
   a = Above for x < 0, Below for x > 0 (the accuracy of t with respect to x); the call
   returns (t, a) when t fits the type and saturates as documented otherwise.  This covers
   the model's shortcuts (exp > 20 means |x| >= 10^20 > 2^64; toUint64's two-word limit). *)
Theorem C14_int64 : forall x, WF x -> dform x = Ffinite ->
  exists t a,
    ((scaled (Z.abs t) 0 <= mag x)%Q /\ (mag x < scaled (Z.abs t + 1) 0)%Q /\
     (t < 0 -> neg x = true) /\ (0 < t -> neg x = false) /\
     (a = Exact <-> (mag x == scaled (Z.abs t) 0)%Q) /\ (a <> Exact -> a = makeAcc (neg x))) /\
    Int64 x = (if t <? MinInt64 then (MinInt64, Above)
               else if MaxInt64 <? t then (MaxInt64, Below) else (t, a)).
Proof. exact Int64_correct. Qed.
Print Assumptions C14_int64.

Theorem C14_int64_nonfinite : forall x,
  (dform x = Fzero -> Int64 x = (0, Exact)) /\
  (dform x = Finf -> Int64 x = if neg x then (MinInt64, Above) else (MaxInt64, Below)).
Proof. exact Int64_nonfinite. Qed.
Print Assumptions C14_int64_nonfinite.

Theorem C14_uint64 : forall x, WF x -> dform x = Ffinite ->
  exists t a,
    ((scaled (Z.abs t) 0 <= mag x)%Q /\ (mag x < scaled (Z.abs t + 1) 0)%Q /\
     (t < 0 -> neg x = true) /\ (0 < t -> neg x = false) /\
     (a = Exact <-> (mag x == scaled (Z.abs t) 0)%Q) /\ (a <> Exact -> a = makeAcc (neg x))) /\
    Uint64 x = (if t <? 0 then (0, Above)
                else if MaxUint64 <? t then (MaxUint64, Below) else (t, a)).
Proof. exact Uint64_correct. Qed.
Print Assumptions C14_uint64.

Theorem C14_uint64_nonfinite : forall x,
  (dform x = Fzero -> Uint64 x = (0, Exact)) /\
  (dform x = Finf -> Uint64 x = if neg x then (0, Above) else (MaxUint64, Below)).
Proof. exact Uint64_nonfinite. Qed.
Print Assumptions C14_uint64_nonfinite.

(* IsInt: true exactly when the value is an integer; +-0 is, +-Inf is not *)
Theorem C14_isint : forall x, WF x -> dform x = Ffinite ->
  (IsInt x = true <-> exists n, (mag x == scaled n 0)%Q).
Proof. exact IsInt_correct. Qed.
Print Assumptions C14_isint.

Theorem C14_isint_nonfinite : forall x,
  (dform x = Fzero -> IsInt x = true) /\ (dform x = Finf -> IsInt x = false).
Proof. exact IsInt_nonfinite. Qed.
Print Assumptions C14_isint_nonfinite.

(* SetRat(num/den), den > 1 (big.Rat keeps den > 0; gcd(num, den) = 1 is not needed):
   num/den rounded ONCE to the receiver's precision and mode; a receiver of precision 0
   takes max(34, digits of num, digits of den) (setrat_prec, from setint_prec).  Size
   conditions: both integers below 10^MaxExp (a larger one already overflows to Inf in the
   intermediate SetInt) and digit counts + precision within the uint32 arithmetic of Quo. *)
Theorem C14_setrat : forall z num den Dn Dd,
  num <> 0 -> 1 < den -> Z.abs num < 10 ^ Dn -> den < 10 ^ Dd ->
  0 <= Dn <= MaxExp -> 0 <= Dd <= MaxExp -> 0 <= prec z <= MaxPrec ->
  Dn + Dd + setrat_prec z num den + 76 < 4294967296 - 18 ->
  OpPost (setrat_prec z num den) (dmode z) (num <? 0) (inject_Z (Z.abs num) / inject_Z den) (SetRat z num den).
Proof. exact SetRat_correct. Qed.
Print Assumptions C14_setrat.

Theorem C14_setrat_zero : forall z den Dd,
  1 < den -> den < 10 ^ Dd -> 0 <= Dd <= MaxExp -> 0 <= prec z <= MaxPrec ->
  exists z', SetRat z 0 den = OkR z' /\ dform z' = Fzero /\ neg z' = false /\ acc z' = Exact /\
    prec z' = (if prec z =? 0 then Z.max DefaultDecimalPrec (setint_prec dec_zero den) else prec z) /\
    dmode z' = dmode z /\ WF z'.
Proof. exact SetRat_zero. Qed.
Print Assumptions C14_setrat_zero.

(* an integer rational is set by SetInt (C14_setint) *)
Theorem C14_setrat_int : forall z num, SetRat z num 1 = SetInt z num.
Proof. exact SetRat_den1. Qed.
Print Assumptions C14_setrat_int.

(* All C14 statements are closed as theorems. *)

Example C14_examples :
  let x := mkDec [9223372036854775807] 19 19 ToNearestEven Exact Ffinite false in   (* 2^63-1 *)
  let y := mkDec [5000000000000000000; 9223372036854775807] 19 38 ToNearestEven Exact Ffinite true in (* -(2^63-1).5 *)
  Int64 x = (9223372036854775807, Exact) /\ Int64 y = (-9223372036854775807, Above) /\
  Uint64 y = (0, Above) /\ IsInt x = true /\ IsInt y = false /\ MinPrec y = 20.
Proof. vm_compute. repeat split. Qed.
