(* Props/C14.v — integer and rational conversions (placeholder until the
   conversion theorems are proved; see the list at the end). *)
From Coq Require Import ZArith.
From Dec Require Import L3.Decimal L3.Convert.
Open Scope Z_scope.

(* non-vacuity / regression examples evaluated by the kernel *)
Example C14_examples :
  let x := mkDec [9223372036854775807] 19 19 ToNearestEven Exact Ffinite false in   (* 2^63-1 *)
  let y := mkDec [5000000000000000000; 9223372036854775807] 19 38 ToNearestEven Exact Ffinite true in (* -(2^63-1).5 *)
  Int64 x = (9223372036854775807, Exact) /\ Int64 y = (-9223372036854775807, Above) /\
  Uint64 y = (0, Above) /\ IsInt x = true /\ IsInt y = false /\ MinPrec y = 20.
Proof. vm_compute. repeat split. Qed.
