(* Props/C10.v — independence of aliasing and of the receiver's previous contents (theorems to follow). *)
From Coq Require Import ZArith.
From Dec Require Import L3.Decimal L3.Arith.
Open Scope Z_scope.
Example C10_examples :
  let x := mkDec [1250000000000000000] 1 3 ToNearestEven Exact Ffinite false in
  let junk := mkDec [7; 9999999999999999999] 40 3 ToNearestEven Above Ffinite true in
  Add false false (mkDec [] 0 3 ToNearestEven Exact Fzero false) x x = Add true true x x x /\
  Mul junk x x = Mul (mkDec [] 0 3 ToNearestEven Exact Fzero false) x x.
Proof. vm_compute. split; reflexivity. Qed.
