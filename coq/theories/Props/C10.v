(* Props/C10.v — results are independent of aliasing and of the receiver's
   previous contents.  Statements only.  `sim z z'` = the two receivers have the
   same precision and mode; `ores_oeq` = the results are observationally equal
   (class, sign, precision, mode, accuracy, and for finite values exponent and
   digits).  The buffer clause of the property (capacity, stale words, in-place
   word movement inside the dec methods) is exercised by the correspondence run only. *)
From Coq Require Import ZArith.
From Dec Require Import L3.Decimal L3.Round L3.Arith L3.IndepProofs.
Open Scope Z_scope.

Theorem C10_add_receiver_independent : forall zx zy z z' x y,
  sim z z' -> dform x = Ffinite -> dform y = Ffinite -> ores_oeq (Add zx zy z x y) (Add zx zy z' x y).
Proof. exact Add_indep. Qed.
Print Assumptions C10_add_receiver_independent.

Theorem C10_mul_receiver_independent : forall z z' x y,
  sim z z' -> dform x = Ffinite -> dform y = Ffinite -> ores_oeq (Mul z x y) (Mul z' x y).
Proof. exact Mul_indep. Qed.
Print Assumptions C10_mul_receiver_independent.

Theorem C10_quo_receiver_independent : forall z z' x y,
  sim z z' -> dform x = Ffinite -> dform y = Ffinite -> ores_oeq (Quo z x y) (Quo z' x y).
Proof. exact Quo_indep. Qed.
Print Assumptions C10_quo_receiver_independent.

(* the aliasing flags are not read for finite operands: the outcome is identical whether or
   not the receiver is one (or both) of the operands *)
Theorem C10_add_alias_independent : forall zx zy zx' zy' z x y, dform x = Ffinite -> dform y = Ffinite ->
  Add zx zy z x y = Add zx' zy' z x y.
Proof. exact Add_alias_flags_irrelevant. Qed.
Print Assumptions C10_add_alias_independent.

Example C10_examples :
  let x := mkDec [1250000000000000000] 1 3 ToNearestEven Exact Ffinite false in
  let junk := mkDec [7; 9999999999999999999] 40 3 ToNearestEven Above Ffinite true in
  Add false false (mkDec [] 0 3 ToNearestEven Exact Fzero false) x x = Add true true x x x /\
  Mul junk x x = Mul (mkDec [] 0 3 ToNearestEven Exact Fzero false) x x.
Proof. vm_compute. split; reflexivity. Qed.
