(* Props/C16.v — Cmp is a total order that agrees with the exact values.
   Statements only; every proof is `exact <lemma>`. *)
From Coq Require Import ZArith QArith.
From Dec Require Import L3.Decimal L3.Cmp L3.CmpProofs.
Open Scope Z_scope.

(* Cmp is the sign of the real difference, -Inf/+Inf bottom/top, -0 = +0;
   `value` ignores precision, mode, accuracy and the mantissa's length. *)
Theorem C16_cmp : forall x y, WF x -> WF y -> Cmp x y = xcmp (value x) (value y).
Proof. exact Cmp_correct. Qed.
Print Assumptions C16_cmp.

Theorem C16_value_only : forall x x' y y', WF x -> WF x' -> WF y -> WF y' ->
  xeq (value x) (value x') -> xeq (value y) (value y') -> Cmp x y = Cmp x' y'.
Proof. exact Cmp_value_only. Qed.
Print Assumptions C16_value_only.

Theorem C16_antisym : forall x y, WF x -> WF y -> Cmp y x = - Cmp x y.
Proof. exact Cmp_antisym. Qed.
Print Assumptions C16_antisym.

Theorem C16_total : forall x y, Cmp x y = -1 \/ Cmp x y = 0 \/ Cmp x y = 1.
Proof. exact Cmp_range. Qed.
Print Assumptions C16_total.

Theorem C16_trans : forall x y z, WF x -> WF y -> WF z ->
  Cmp x y <= 0 -> Cmp y z <= 0 -> Cmp x z <= 0.
Proof. exact Cmp_trans. Qed.
Print Assumptions C16_trans.

Theorem C16_lt_trans : forall x y z, WF x -> WF y -> WF z ->
  Cmp x y = -1 -> Cmp y z = -1 -> Cmp x z = -1.
Proof. exact Cmp_lt_trans. Qed.
Print Assumptions C16_lt_trans.

Theorem C16_sign : forall x, WF x -> Sign x = Cmp x dzero.
Proof. exact Sign_Cmp. Qed.
Print Assumptions C16_sign.

Theorem C16_iszero : forall x, WF x -> (IsZero x = true <-> Cmp x dzero = 0).
Proof. exact IsZero_Cmp. Qed.
Print Assumptions C16_iszero.

Theorem C16_isinf : forall x, WF x ->
  (IsInf x = true <-> Cmp x (dinf false) = 0 \/ Cmp x (dinf true) = 0).
Proof. exact IsInf_Cmp. Qed.
Print Assumptions C16_isinf.

Theorem C16_signbit : forall x, WF x ->
  (Signbit x = true -> Cmp x dzero <= 0) /\ (Signbit x = false -> 0 <= Cmp x dzero).
Proof. exact Signbit_spec. Qed.
Print Assumptions C16_signbit.

(* non-vacuity: WF values of different lengths and attributes that compare equal *)
Example C16_witness :
  let x := mkDec [0; 1230000000000000000] 5 34 ToNearestEven Exact Ffinite false in
  let y := mkDec [1230000000000000000] 5 3 ToZero Below Ffinite false in
  WF x /\ WF y /\ Cmp x y = 0 /\ Cmp x (dinf false) = -1.
Proof. vm_compute. repeat split. Qed.
