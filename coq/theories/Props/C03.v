(* Props/C03.v — FMA computes x*y+u with a single rounding.  Statements only
   (AddPost / OpPost / result_spec as in Props/C01.v). *)
From Coq Require Import ZArith QArith.
From Dec Require Import Base.QPow L3.Decimal L3.Round L3.Arith Spec.Rounding L3.ArithProofs L3.FmaProofs.
Open Scope Z_scope.

(* finite x, y, u (u non-zero): the receiver holds the exact x*y+u rounded once, with the
   IEEE sign rule for an exactly zero sum; the same statement covers the receiver being u
   itself (zu = true).  Hypothesis forced by the code and kept visible: the exact product's
   magnitude lies in the finite range (outside it: known finding K3). *)
Theorem C03_fma : forall zu z x y u,
  WF x -> WF y -> WF u -> dform x = Ffinite -> dform y = Ffinite -> dform u = Ffinite ->
  0 <= prec z <= MaxPrec -> (zu = true -> z = u) ->
  mdigits (mant x) + mdigits (mant y) < 4294967296 - 18 ->
  (scaled 1 (MinExp - 1) <= mag x * mag y)%Q -> (mag x * mag y < scaled 1 MaxExp)%Q ->
  (forall p', WF p' -> dform p' = Ffinite -> (mag p' == mag x * mag y)%Q -> add_span p' u + 40 < 4294967296 - 18) ->
  AddPost (eff_prec3 z x y u) (dmode z)
          ((if xorb (neg x) (neg y) then - (mag x * mag y) else mag x * mag y) + sval u)
          (FMA zu z x y u).
Proof. exact FMA_correct. Qed.
Print Assumptions C03_fma.

Theorem C03_fma_zero_addend : forall zu z x y u,
  WF x -> WF y -> dform x = Ffinite -> dform y = Ffinite -> dform u = Fzero ->
  0 <= prec z <= MaxPrec -> 0 <= prec u <= MaxPrec ->
  mdigits (mant x) + mdigits (mant y) < 4294967296 - 18 ->
  OpPost (eff_prec3 z x y u) (dmode z) (xorb (neg x) (neg y)) (mag x * mag y) (FMA zu z x y u).
Proof. exact FMA_zero_addend. Qed.
Print Assumptions C03_fma_zero_addend.

(* C03_fma_refuted_range (K3): outside the range hypothesis the statement is false; the witness
   FMA(1e1073741824, 1e1073741823, -5e2147483646) = +Inf is replayed by harness/props/C03.py
   against the code on every run (KNOWN-FINDING K3).  Aliasing of z with x or y does not occur in
   the value-level model (operands are read before the receiver is written); z == u is the zu flag. *)

(* FMA differs from Mul followed by Add exactly when the intermediate rounding matters *)
Example C03_examples :
  let x := mkDec [1100000000000000000] 1 2 ToNearestEven Exact Ffinite false in     (* 1.1 *)
  let u := mkDec [1200000000000000000] 1 2 ToNearestEven Exact Ffinite true in      (* -1.2 *)
  let z := mkDec [] 0 2 ToNearestEven Exact Fzero false in
  let m := mkDec [1200000000000000000] 1 2 ToNearestEven Below Ffinite false in     (* 1.21 -> 1.2 *)
  FMA false z x x u = OkR (mkDec [1000000000000000000] (-1) 2 ToNearestEven Exact Ffinite false) /\   (* 1.21 - 1.2 = 0.01 *)
  Mul z x x = OkR m /\
  Add true false m m u = OkR (mkDec [] 1 2 ToNearestEven Exact Fzero false).                          (* 1.2 - 1.2 = 0 *)
Proof. vm_compute. repeat split. Qed.
