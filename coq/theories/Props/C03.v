(* Props/C03.v — FMA (theorems to follow). *)
From Coq Require Import ZArith.
From Dec Require Import L3.Decimal L3.Arith.
Open Scope Z_scope.
(* FMA differs from Mul followed by Add exactly when the intermediate rounding matters *)
Example C03_examples :
  let x := mkDec [1100000000000000000] 1 2 ToNearestEven Exact Ffinite false in     (* 1.1 *)
  let u := mkDec [1200000000000000000] 1 2 ToNearestEven Exact Ffinite true in      (* -1.2 *)
  let z := mkDec [] 0 2 ToNearestEven Exact Fzero false in
  let m := mkDec [1200000000000000000] 1 2 ToNearestEven Below Ffinite false in     (* 1.21 -> 1.2 *)
  FMA false z x x u = OkR (mkDec [1000000000000000000] (-1) 2 ToNearestEven Exact Ffinite false) /\   (* 1.21 - 1.2 = 0.01 *)
  Mul z x x = OkR m /\
  Add true false m m u = OkR (mkDec [] 1 2 ToNearestEven Exact Fzero false).                          (* 1.2 - 1.2 = 0 *)
Proof. vm_compute. repeat split. Qed.
