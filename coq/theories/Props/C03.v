(* Props/C03.v — FMA computes x*y+u with a single rounding.  Statements only
   (AddPost / OpPost / result_spec as in Props/C01.v). *)
From Coq Require Import ZArith QArith.
From Dec Require Import Base.QPow L3.Decimal L3.Round L3.Arith Spec.Rounding L3.ArithProofs L3.FmaProofs.
Open Scope Z_scope.

(* finite x, y, u (u non-zero): the receiver holds the exact x*y+u rounded once, with the
   IEEE sign rule for an exactly zero sum; the same statement covers the receiver being u
   itself (zu = true).  Hypothesis forced by the code and kept visible: the exact product's
   magnitude lies in the finite range (outside it: known finding K3).  Resource bounds
   (the code counts digits in uint32): digits x + digits y, and `fma_span x y u` =
   max(digits x + digits y, digits u) + |(exp x + exp y - digits x - digits y) - (exp u - digits u)|,
   the width of the aligned final addition (L3/FmaProofs.v). *)
Theorem C03_fma : forall zu z x y u,
  WF x -> WF y -> WF u -> dform x = Ffinite -> dform y = Ffinite -> dform u = Ffinite ->
  0 <= prec z <= MaxPrec -> (zu = true -> z = u) ->
  mdigits (mant x) + mdigits (mant y) < 4294967296 - 18 ->
  (scaled 1 (MinExp - 1) <= mag x * mag y)%Q -> (mag x * mag y < scaled 1 MaxExp)%Q ->
  fma_span x y u + 58 < 4294967296 - 18 ->
  AddPost (eff_prec3 z x y u) (dmode z)
          ((if xorb (neg x) (neg y) then - (mag x * mag y) else mag x * mag y) + sval u)
          (FMA zu z x y u).
Proof. exact FMA_correct. Qed.
Print Assumptions C03_fma.

Theorem C03_fma_zero_addend : forall zu z x y u,
  WF x -> WF y -> dform x = Ffinite -> dform y = Ffinite -> dform u = Fzero ->
  0 <= prec z <= MaxPrec -> 0 <= prec u <= MaxPrec ->
  mdigits (mant x) + mdigits (mant y) < 4294967296 - 18 ->
  OpPost (eff_prec3 z x y u) (dmode z) (xorb (neg x) (neg y)) (mag x * mag y) (FMA zu z x y u).
Proof. exact FMA_zero_addend. Qed.
Print Assumptions C03_fma_zero_addend.

(* C03_fma_refuted_range (K3): outside the range hypothesis the statement is false; the witness
   FMA(1e1073741824, 1e1073741823, -5e2147483646) = +Inf is replayed by harness/props/C03.py
   against the code on every run (KNOWN-FINDING K3).  Aliasing of z with x or y does not occur in
   the value-level model (operands are read before the receiver is written); z == u is the zu flag. *)

(* a concrete sufficient condition for the two range hypotheses *)
Theorem C03_fma_range_sufficient : forall x y, WF x -> WF y -> dform x = Ffinite -> dform y = Ffinite ->
  MinExp + 1 <= exp x + exp y <= MaxExp ->
  (scaled 1 (MinExp - 1) <= mag x * mag y)%Q /\ (mag x * mag y < scaled 1 MaxExp)%Q.
Proof. exact FMA_range_sufficient. Qed.
Print Assumptions C03_fma_range_sufficient.

(* Non-vacuity of C03_fma: the theorem is APPLIED to concrete operands (1.1 * 1.1 - 1.2 at
   precision 2, receiver distinct from and equal to the addend) and every hypothesis is
   discharged; the conclusion then pins the result down *)
Example C03_fma_instance :
  let x := mkDec [1100000000000000000] 1 2 ToNearestEven Exact Ffinite false in     (* 1.1 *)
  let u := mkDec [1200000000000000000] 1 2 ToNearestEven Exact Ffinite true in      (* -1.2 *)
  let z := mkDec [] 0 2 ToNearestEven Exact Fzero false in
  AddPost 2 ToNearestEven (mag x * mag x + sval u) (FMA false z x x u) /\
  AddPost 2 ToNearestEven (mag x * mag x + sval u) (FMA true u x x u).
Proof.
  intros x u z.
  assert (Wx : WF x) by reflexivity. assert (Wu : WF u) by reflexivity.
  destruct (C03_fma_range_sufficient x x Wx Wx eq_refl eq_refl ltac:(cbn [exp x]; unfold MinExp, MaxExp; lia)) as [Hlo Hhi].
  split.
  - apply (C03_fma false z x x u); try assumption; try reflexivity.
    + cbn [prec z]. unfold MaxPrec. lia.
    + discriminate.
  - apply (C03_fma true u x x u); try assumption; try reflexivity.
    cbn [prec u]. unfold MaxPrec. lia.
Qed.

(* FMA differs from Mul followed by Add exactly when the intermediate rounding matters *)
Example C03_examples :
  let x := mkDec [1100000000000000000] 1 2 ToNearestEven Exact Ffinite false in     (* 1.1 *)
  let u := mkDec [1200000000000000000] 1 2 ToNearestEven Exact Ffinite true in      (* -1.2 *)
  let z := mkDec [] 0 2 ToNearestEven Exact Fzero false in
  let m := mkDec [1200000000000000000] 1 2 ToNearestEven Below Ffinite false in     (* 1.21 -> 1.2 *)
  FMA false z x x u = OkR (mkDec [1000000000000000000] (-1) 2 ToNearestEven Exact Ffinite false) /\   (* 1.21 - 1.2 = 0.01 *)
  Mul z x x = OkR m /\
  Add true false m m u = OkR (mkDec [] 1 2 ToNearestEven Exact Fzero false).                          (* 1.2 - 1.2 = 0 *)
Proof. vm_compute. repeat split. Qed.
