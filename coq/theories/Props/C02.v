(* Props/C02.v — Acc() truthfully reports the direction of the rounding error.
   Statements only.

   `result_spec` (see Props/C01.v) already carries the accuracy; here it is
   turned into the property's wording: the accuracy delivered with a result is
   the sign of (stored value - exact value), infinities counting as above/below
   every finite value, and it is Exact iff the stored value equals the exact
   value.  Instantiated with the C01 theorems this covers Add, Sub, Mul, Quo,
   Set, SetPrec; the integer/rational setters and SetMantExp follow below
   (C02_setint64 ... C02_setmantexp); FMA and base-10 Parse carry the same
   `result_spec` conclusion in C03_fma / C12_parse_decimal, to which
   C02_acc_is_sign_of_error applies verbatim. *)
From Coq Require Import ZArith QArith Qabs.
From Dec Require Import Base.QPow L3.Decimal L3.Round L3.Convert L3.Arith Spec.Rounding L3.ArithProofs L3.AccProofs
  L3.ConvertProofs L3.ConvProofs2 L3.AccProofs2.
Open Scope Z_scope.

Theorem C02_acc_is_sign_of_error : forall p md ng v z,
  result_spec p md ng v z -> (0 < v)%Q ->
  acc z = xacc (value z) (if ng then - v else v).
Proof. exact acc_truthful. Qed.
Print Assumptions C02_acc_is_sign_of_error.

Theorem C02_exact_iff_nothing_lost : forall p md ng v z,
  result_spec p md ng v z -> (0 < v)%Q ->
  (acc z = Exact <-> exists q, value z = XFin q /\ (q == (if ng then - v else v))%Q).
Proof. exact acc_exact_iff. Qed.
Print Assumptions C02_exact_iff_nothing_lost.

(* the four arithmetic operations: accuracy of the product and quotient *)
Theorem C02_mul : forall z x y z',
  WF x -> WF y -> dform x = Ffinite -> dform y = Ffinite -> 0 <= prec z <= MaxPrec ->
  mdigits (mant x) + mdigits (mant y) < 4294967296 - 18 ->
  Mul z x y = OkR z' ->
  acc z' = xacc (value z') (if xorb (neg x) (neg y) then - (mag x * mag y) else mag x * mag y).
Proof. exact Mul_acc. Qed.
Print Assumptions C02_mul.

Theorem C02_quo : forall z x y z',
  WF x -> WF y -> dform x = Ffinite -> dform y = Ffinite -> 0 <= prec z <= MaxPrec ->
  mdigits (mant x) + mdigits (mant y) + eff_prec z x y + 38 < 4294967296 - 18 ->
  Quo z x y = OkR z' ->
  acc z' = xacc (value z') (if xorb (neg x) (neg y) then - (mag x / mag y) else mag x / mag y).
Proof. exact Quo_acc. Qed.
Print Assumptions C02_quo.

(* sums and differences: sval = signed exact value; an exactly zero sum is Exact *)
Theorem C02_add : forall zx zy z x y z',
  WF x -> WF y -> dform x = Ffinite -> dform y = Ffinite -> 0 <= prec z <= MaxPrec ->
  add_span x y + 40 < 4294967296 - 18 ->
  Add zx zy z x y = OkR z' ->
  acc z' = xacc (value z') (sval x + sval y).
Proof. exact Add_acc. Qed.
Print Assumptions C02_add.

Theorem C02_sub : forall zx zy z x y z',
  WF x -> WF y -> dform x = Ffinite -> dform y = Ffinite -> 0 <= prec z <= MaxPrec ->
  add_span x y + 40 < 4294967296 - 18 ->
  Sub zx zy z x y = OkR z' ->
  acc z' = xacc (value z') (sval x - sval y).
Proof. exact Sub_acc. Qed.
Print Assumptions C02_sub.

Theorem C02_set : forall same z x z',
  WF x -> dform x = Ffinite -> mdigits (mant x) < 4294967296 - 18 ->
  0 <= prec z <= MaxPrec -> (same = true -> z = x) ->
  Set_ same z x = OkR z' ->
  acc z' = xacc (value z') (sval x).
Proof. exact Set_acc. Qed.
Print Assumptions C02_set.

Theorem C02_setprec : forall z p' z',
  WF z -> dform z = Ffinite -> mdigits (mant z) < 4294967296 - 18 -> 1 <= p' ->
  SetPrec z p' = OkR z' ->
  acc z' = xacc (value z') (sval z).
Proof. exact SetPrec_acc. Qed.
Print Assumptions C02_setprec.

(* non-vacuity: an inexact quotient reports Below, an exact one Exact, an
   overflowing product Above *)
(* the setters named by the property: the stored value is compared with the exact argument *)
Theorem C02_setint64 : forall z x z', MinInt64 <= x <= MaxInt64 -> x <> 0 -> 0 <= prec z <= MaxPrec ->
  SetInt64 z x = OkR z' ->
  acc z' = xacc (value z') (if x <? 0 then - scaled (Z.abs x) 0 else scaled (Z.abs x) 0).
Proof. exact SetInt64_acc. Qed.
Print Assumptions C02_setint64.

Theorem C02_setuint64 : forall z x z', 0 < x <= MaxUint64 -> 0 <= prec z <= MaxPrec ->
  SetUint64 z x = OkR z' -> acc z' = xacc (value z') (scaled x 0).
Proof. exact SetUint64_acc. Qed.
Print Assumptions C02_setuint64.

Theorem C02_newdecimal : forall x e z', MinInt64 <= x <= MaxInt64 -> x <> 0 ->
  NewDecimal x e = OkR z' ->
  acc z' = xacc (value z') (if x <? 0 then - scaled (Z.abs x) e else scaled (Z.abs x) e).
Proof. exact NewDecimal_acc. Qed.
Print Assumptions C02_newdecimal.

Theorem C02_setint : forall z x D z',
  x <> 0 -> Z.abs x < 10 ^ D -> 0 <= D -> D + 19 < 4294967296 - 18 -> 0 <= prec z <= MaxPrec ->
  SetInt z x = OkR z' ->
  acc z' = xacc (value z') (if x <? 0 then - scaled (Z.abs x) 0 else scaled (Z.abs x) 0).
Proof. exact SetInt_acc. Qed.
Print Assumptions C02_setint.

Theorem C02_setrat : forall z num den Dn Dd z',
  num <> 0 -> 1 < den -> Z.abs num < 10 ^ Dn -> den < 10 ^ Dd ->
  0 <= Dn <= MaxExp -> 0 <= Dd <= MaxExp -> 0 <= prec z <= MaxPrec ->
  Dn + Dd + setrat_prec z num den + 76 < 4294967296 - 18 ->
  SetRat z num den = OkR z' ->
  acc z' = xacc (value z') (if num <? 0 then - (inject_Z (Z.abs num) / inject_Z den) else inject_Z (Z.abs num) / inject_Z den).
Proof. exact SetRat_acc. Qed.
Print Assumptions C02_setrat.

Theorem C02_setmantexp : forall same z m e z',
  WF m -> dform m = Ffinite -> mdigits (mant m) < 4294967296 - 18 -> (same = true -> z = m) ->
  SetMantExp same z m e = OkR z' ->
  acc z' = xacc (value z') (if neg m then - (mag m * Qpow10 e) else mag m * Qpow10 e).
Proof. exact SetMantExp_acc. Qed.
Print Assumptions C02_setmantexp.

Example C02_witness :
  let one := mkDec [1000000000000000000] 1 1 ToNearestEven Exact Ffinite false in
  let three := mkDec [3000000000000000000] 1 1 ToNearestEven Exact Ffinite false in
  let four := mkDec [4000000000000000000] 1 1 ToNearestEven Exact Ffinite false in
  let big := mkDec [9000000000000000000] MaxExp 1 ToNearestEven Exact Ffinite false in
  let z := mkDec [] 0 5 ToNearestEven Exact Fzero false in
  (exists d, Quo z one three = OkR d /\ acc d = Below) /\
  (exists d, Quo z one four = OkR d /\ acc d = Exact) /\
  (exists d, Mul z big big = OkR d /\ acc d = Above /\ dform d = Finf).
Proof. vm_compute. repeat split; eexists; repeat split. Qed.
