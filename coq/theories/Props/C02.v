(* Props/C02.v — Acc() truthfully reports the direction of the rounding error.
   Statements only.

   `result_spec` (see Props/C01.v) already carries the accuracy; here it is
   turned into the property's wording: the accuracy delivered with a result is
   the sign of (stored value - exact value), infinities counting as above/below
   every finite value, and it is Exact iff the stored value equals the exact
   value.  Instantiated with the C01 theorems this covers Add, Sub, Mul, Quo,
   Set, SetPrec; the setters and FMA instantiate the same lemma in C03/C14. *)
From Coq Require Import ZArith QArith Qabs.
From Dec Require Import Base.QPow L3.Decimal L3.Round L3.Arith Spec.Rounding L3.ArithProofs L3.AccProofs.
Open Scope Z_scope.

Theorem C02_acc_is_sign_of_error : forall p md ng v z,
  result_spec p md ng v z -> (0 < v)%Q ->
  acc z = xacc (value z) (if ng then - v else v).
Proof. exact acc_truthful. Qed.
Print Assumptions C02_acc_is_sign_of_error.

Theorem C02_exact_iff_nothing_lost : forall p md ng v z,
  result_spec p md ng v z -> (0 < v)%Q ->
  (acc z = Exact <-> exists q, value z = XFin q /\ (q == (if ng then - v else v))%Q).
Proof. exact acc_exact_iff. Qed.
Print Assumptions C02_exact_iff_nothing_lost.

(* the four arithmetic operations: accuracy of the product and quotient *)
Theorem C02_mul : forall z x y z',
  WF x -> WF y -> dform x = Ffinite -> dform y = Ffinite -> 0 <= prec z <= MaxPrec ->
  mdigits (mant x) + mdigits (mant y) < 4294967296 - 18 ->
  Mul z x y = OkR z' ->
  acc z' = xacc (value z') (if xorb (neg x) (neg y) then - (mag x * mag y) else mag x * mag y).
Proof. exact Mul_acc. Qed.
Print Assumptions C02_mul.

Theorem C02_quo : forall z x y z',
  WF x -> WF y -> dform x = Ffinite -> dform y = Ffinite -> 0 <= prec z <= MaxPrec ->
  mdigits (mant x) + mdigits (mant y) + eff_prec z x y + 38 < 4294967296 - 18 ->
  Quo z x y = OkR z' ->
  acc z' = xacc (value z') (if xorb (neg x) (neg y) then - (mag x / mag y) else mag x / mag y).
Proof. exact Quo_acc. Qed.
Print Assumptions C02_quo.

(* sums and differences: sval = signed exact value; an exactly zero sum is Exact *)
Theorem C02_add : forall zx zy z x y z',
  WF x -> WF y -> dform x = Ffinite -> dform y = Ffinite -> 0 <= prec z <= MaxPrec ->
  add_span x y + 40 < 4294967296 - 18 ->
  Add zx zy z x y = OkR z' ->
  acc z' = xacc (value z') (sval x + sval y).
Proof. exact Add_acc. Qed.
Print Assumptions C02_add.

Theorem C02_sub : forall zx zy z x y z',
  WF x -> WF y -> dform x = Ffinite -> dform y = Ffinite -> 0 <= prec z <= MaxPrec ->
  add_span x y + 40 < 4294967296 - 18 ->
  Sub zx zy z x y = OkR z' ->
  acc z' = xacc (value z') (sval x - sval y).
Proof. exact Sub_acc. Qed.
Print Assumptions C02_sub.

Theorem C02_set : forall same z x z',
  WF x -> dform x = Ffinite -> mdigits (mant x) < 4294967296 - 18 ->
  0 <= prec z <= MaxPrec -> (same = true -> z = x) ->
  Set_ same z x = OkR z' ->
  acc z' = xacc (value z') (sval x).
Proof. exact Set_acc. Qed.
Print Assumptions C02_set.

Theorem C02_setprec : forall z p' z',
  WF z -> dform z = Ffinite -> mdigits (mant z) < 4294967296 - 18 -> 1 <= p' ->
  SetPrec z p' = OkR z' ->
  acc z' = xacc (value z') (sval z).
Proof. exact SetPrec_acc. Qed.
Print Assumptions C02_setprec.

(* non-vacuity: an inexact quotient reports Below, an exact one Exact, an
   overflowing product Above *)
Example C02_witness :
  let one := mkDec [1000000000000000000] 1 1 ToNearestEven Exact Ffinite false in
  let three := mkDec [3000000000000000000] 1 1 ToNearestEven Exact Ffinite false in
  let four := mkDec [4000000000000000000] 1 1 ToNearestEven Exact Ffinite false in
  let big := mkDec [9000000000000000000] MaxExp 1 ToNearestEven Exact Ffinite false in
  let z := mkDec [] 0 5 ToNearestEven Exact Fzero false in
  (exists d, Quo z one three = OkR d /\ acc d = Below) /\
  (exists d, Quo z one four = OkR d /\ acc d = Exact) /\
  (exists d, Mul z big big = OkR d /\ acc d = Above /\ dform d = Finf).
Proof. vm_compute. repeat split; eexists; repeat split. Qed.
