(* Props/C06.v — long multiplication, squaring and division are exact at every
   size and tuning.  Statements only; every proof is `exact <lemma>`.
   Algorithmic models: L2/Nat.v Mul.v Sqr.v Div.v (mirroring dec.go);
   value-level routines: Base/Words.v (dec_mul, dec_quo, dec_rem);
   the word kernels are taken at their value-level specification L2/KernV.v. *)
From Coq Require Import ZArith List Bool.
From Dec Require Import Base.Words L2.KernV L2.Nat L2.Mul L2.Sqr L2.Div
  L2.NatProofs L2.MulProofs L2.DivProofs L2.SqrProofs.
Open Scope Z_scope.

(* decBasicMul: for every previous contents of z, z[0:len x+len y] = x*y and the
   rest of z is untouched *)
Theorem C06_basicMul : forall z x y, words_ok x = true -> words_ok y = true ->
  exists R, basicMul z x y = R ++ skipn (length x + length y) z /\
            length R = (length x + length y)%nat /\ words_ok R = true /\ val R = val x * val y.
Proof. exact basicMul_spec. Qed.
Print Assumptions C06_basicMul.

(* decKaratsubaAdd/Sub drop the carry out of their window z[0:n+n/2]: the
   window ends up holding the sum modulo B^(n+n/2) *)
Theorem C06_karatsubaAdd_window : forall zt x n,
  (n + n / 2 <= length zt)%nat -> (n <= length x)%nat ->
  words_ok (firstn (n + n / 2) zt) = true -> words_ok (firstn n x) = true ->
  exists W, karatsubaAdd zt x n = W ++ skipn (n + n / 2) zt /\ length W = (n + n / 2)%nat /\
            words_ok W = true /\
            val W = (val (firstn (n + n / 2) zt) + val (firstn n x)) mod B ^ Z.of_nat (n + n / 2).
Proof. exact karatsubaAdd_spec. Qed.
Print Assumptions C06_karatsubaAdd_window.

(* decKaratsuba: for every recursion fuel, every threshold (also nonsensical
   ones), every length n (odd lengths fall back to decBasicMul) and every
   contents of the 6n-word work area z: z[0:2n] = x*y exactly; the dropped
   carries are justified because the product fits 2n words *)
Theorem C06_karatsuba : forall fuel thr z x y,
  length x = length y -> words_ok x = true -> words_ok y = true -> (6 * length y <= length z)%nat ->
  exists R S, karatsuba fuel thr z x y = R ++ S /\ length R = (2 * length y)%nat /\
              (length S + 2 * length y = length z)%nat /\ words_ok R = true /\ val R = val x * val y.
Proof. exact karatsuba_spec. Qed.
Print Assumptions C06_karatsuba.

(* dec.mul: for all lengths (balanced or not, normalised or not), all word
   contents, every decKaratsubaThreshold >= 1 and every contents of recycled
   buffers, the algorithmic model is the value-level product *)
Theorem C06_mul : forall thr junk x y, 1 <= thr -> words_ok x = true -> words_ok y = true ->
  mul thr junk x y = dec_mul x y.
Proof. exact mul_spec. Qed.
Print Assumptions C06_mul.

(* decBasicSqr: z[0:2n] = x*x whatever z held before; the rest of z untouched *)
Theorem C06_basicSqr : forall z x,
  (1 <= length x)%nat -> words_ok x = true -> (2 * length x <= length z)%nat ->
  exists R, basicSqr z x = R ++ skipn (2 * length x) z /\
            length R = (2 * length x)%nat /\ words_ok R = true /\ val R = val x * val x.
Proof. exact basicSqr_spec. Qed.
Print Assumptions C06_basicSqr.

(* decKaratsubaSqr: every fuel, threshold, length and work-area contents *)
Theorem C06_karatsubaSqr : forall fuel thr z x,
  (1 <= length x)%nat -> words_ok x = true -> (6 * length x <= length z)%nat ->
  exists R S, karatsubaSqr fuel thr z x = R ++ S /\ length R = (2 * length x)%nat /\
              (length S + 2 * length x = length z)%nat /\ words_ok R = true /\ val R = val x * val x.
Proof. exact karatsubaSqr_spec. Qed.
Print Assumptions C06_karatsubaSqr.

(* dec.sqr: all lengths and contents, every decBasicSqrThreshold, every
   decKaratsubaSqrThreshold >= 1 and decKaratsubaThreshold >= 1 *)
Theorem C06_sqr : forall thrM thrB thrK junk x, 1 <= thrM -> 1 <= thrK -> words_ok x = true ->
  sqr thrM thrB thrK junk x = dec_mul x x.
Proof. exact sqr_spec. Qed.
Print Assumptions C06_sqr.

(* the small routines the long ones are built from *)
Theorem C06_add : forall x y, words_ok x = true -> words_ok y = true -> norm x = x -> norm y = y ->
  nat_add x y = dec_add x y.
Proof. exact nat_add_spec. Qed.
Print Assumptions C06_add.

Theorem C06_sub : forall x y, words_ok x = true -> words_ok y = true -> norm x = x -> norm y = y ->
  nat_sub x y = if val x <? val y then None else Some (dec_sub x y).
Proof. exact nat_sub_spec. Qed.
Print Assumptions C06_sub.

Theorem C06_cmp : forall x y, words_ok x = true -> words_ok y = true -> norm x = x -> norm y = y ->
  nat_cmp x y = zsgn (val x) (val y).
Proof. exact nat_cmp_spec. Qed.
Print Assumptions C06_cmp.

Theorem C06_mulAddWW : forall x y r, words_ok x = true -> 0 <= y < B -> 0 <= r < B ->
  nat_mulAddWW x y r = of_Z (val x * y + r).
Proof. exact nat_mulAddWW_spec. Qed.
Print Assumptions C06_mulAddWW.

(* decAddAt never loses a carry when the sum fits z *)
Theorem C06_decAddAt : forall z x i,
  words_ok z = true -> words_ok x = true -> (i + length x <= length z)%nat ->
  val z + B ^ Z.of_nat i * val x < B ^ Z.of_nat (length z) ->
  val (decAddAt z x i) = val z + B ^ Z.of_nat i * val x.
Proof. exact decAddAt_exact. Qed.
Print Assumptions C06_decAddAt.

(* dec.divW *)
Theorem C06_divW : forall x y, words_ok x = true -> norm x = x -> 0 <= y < B ->
  nat_divW x y = if y =? 0 then None else Some (of_Z (val x / y), val x mod y).
Proof. exact nat_divW_spec. Qed.
Print Assumptions C06_divW.

(* divBasic (Knuth D): the accounting invariant  u0 = q·v + u_final  that the
   unwrapped add-back of the unrepaired code (F1) broke *)
Theorem C06_divBasic_accounting : forall q u v,
  let n := length v in
  let m := (length u - n)%nat in
  let Lq := Nat.min (S m) (length q) in
  (2 <= n)%nat -> (n <= length u)%nat -> words_ok u = true -> words_ok v = true ->
  B <= 2 * nthw v (n - 1) -> (m <= length q)%nat -> (length q = m -> val (skipn m u) < val v) ->
  exists q' u', divBasic q u v = Some (q', u') /\
    val u = val (firstn Lq q') * val v + val u'.
Proof. exact divBasic_accounting. Qed.
Print Assumptions C06_divBasic_accounting.

(* divBasic: no panic, the quotient digits are decimal words, the words of q
   beyond them are untouched, u0 = q·v + r and 0 <= r < v (Theorem B and the
   two-word refinement of q̂ are inside the proof: qhat_calc_spec) *)
Theorem C06_divBasic : forall q u v,
  let n := length v in
  let m := (length u - n)%nat in
  let Lq := Nat.min (S m) (length q) in
  (2 <= n)%nat -> (n <= length u)%nat -> words_ok u = true -> words_ok v = true ->
  B <= 2 * nthw v (n - 1) -> (m <= length q)%nat -> (length q = m -> val (skipn m u) < val v) ->
  exists q' u', divBasic q u v = Some (q', u') /\
    length q' = length q /\ length u' = length u /\ words_ok u' = true /\
    words_ok (firstn Lq q') = true /\ skipn Lq q' = skipn Lq q /\
    val u = val (firstn Lq q') * val v + val u' /\ 0 <= val u' < val v.
Proof. exact divBasic_spec. Qed.
Print Assumptions C06_divBasic.

(* the quotient estimate: with a normalised divisor (2·v1 >= B) the estimate
   after the refinement loop is the true digit or one more, the loop never runs
   out of its two iterations and div10WW never overflows *)
Theorem C06_qhat : forall v1 v2 P Vlow ujn ujn1 ujn2 Ulow,
  1 <= v1 < B -> 0 <= v2 < B -> 1 <= P -> 0 <= Vlow < P ->
  0 <= ujn < B -> 0 <= ujn1 < B -> 0 <= ujn2 < B -> 0 <= Ulow < P ->
  B <= 2 * v1 ->
  ((ujn * B + ujn1) * B + ujn2) * P + Ulow < B * ((v1 * B + v2) * P + Vlow) ->
  exists qhat, qhat_calc v1 v2 ujn ujn1 ujn2 = Some qhat /\ 0 <= qhat < B /\
    ((ujn * B + ujn1) * B + ujn2) * P + Ulow < (qhat + 1) * ((v1 * B + v2) * P + Vlow) /\
    (qhat - 1) * ((v1 * B + v2) * P + Vlow) <= ((ujn * B + ujn1) * B + ujn2) * P + Ulow /\
    (ujn = 0 -> qhat <= 1).
Proof. exact qhat_calc_spec. Qed.
Print Assumptions C06_qhat.

(* divLarge D1: d = B/(v_top+1) scales the divisor without overflow into one
   whose top word is at least B/2 *)
Theorem C06_divLarge_norm : forall vIn, words_ok vIn = true -> norm vIn = vIn -> vIn <> [] ->
  let n := length vIn in
  let d := B / (nthw vIn (n - 1) + 1) in
  let v := fst (mulAdd10VWW_v vIn d 0) in
  1 <= d < B /\ length v = n /\ words_ok v = true /\ val v = val vIn * d /\
  snd (mulAdd10VWW_v vIn d 0) = 0 /\ B <= 2 * nthw v (n - 1).
Proof. exact divLarge_norm_spec. Qed.
Print Assumptions C06_divLarge_norm.

(* dec.div for divisors shorter than divRecursiveThreshold (whatever its
   value): quotient and remainder are the value-level ones; the only panic is
   the division by zero *)
Theorem C06_div_basic : forall thrD thrK junk u v,
  words_ok u = true -> words_ok v = true -> norm u = u -> norm v = v ->
  Z.of_nat (length v) < thrD ->
  div thrD thrK junk u v =
    if (length v =? 0)%nat then None else Some (dec_quo u v, dec_rem u v).
Proof. exact div_basic_spec. Qed.
Print Assumptions C06_div_basic.

(* the results do not depend on the tuning thresholds (nor on what recycled
   scratch buffers contain) *)
Theorem C06_mul_tuning : forall thr1 thr2 junk1 junk2 x y,
  1 <= thr1 -> 1 <= thr2 -> words_ok x = true -> words_ok y = true ->
  mul thr1 junk1 x y = mul thr2 junk2 x y.
Proof. exact mul_threshold_independent. Qed.
Print Assumptions C06_mul_tuning.

Theorem C06_sqr_tuning : forall m1 b1 k1 j1 m2 b2 k2 j2 x,
  1 <= m1 -> 1 <= k1 -> 1 <= m2 -> 1 <= k2 -> words_ok x = true ->
  sqr m1 b1 k1 j1 x = sqr m2 b2 k2 j2 x.
Proof. exact sqr_threshold_independent. Qed.
Print Assumptions C06_sqr_tuning.

Theorem C06_div_tuning : forall d1 k1 j1 d2 k2 j2 u v,
  words_ok u = true -> words_ok v = true -> norm u = u -> norm v = v ->
  Z.of_nat (length v) < d1 -> Z.of_nat (length v) < d2 ->
  div d1 k1 j1 u v = div d2 k2 j2 u v.
Proof. exact div_threshold_independent. Qed.
Print Assumptions C06_div_tuning.

(* CLOSED in Props/C06b.v (L2/DivRecLemmas.v, L2/DivRecProofs.v): C06_div for every
   divisor length, C06_divRecursive, C06_divRecursiveStep, C06_divLarge_full.  Proving
   them exposed defect F21 (final shift B instead of B-1 in divRecursiveStep), repaired
   in /repo commit c57c937; the unrepaired step is refuted there by a computed witness. *)

(* non-vacuity: concrete instances evaluated in the kernel *)
Example C06_mul_witness :
  let x := [B - 1; 0; B - 1; 5; B / 2; 7; B - 1] in
  let y := [B / 2 + 1; B - 1; B - 1; 3; 9] in
  mul 2 77 x y = dec_mul x y /\ mul 2 77 x y <> [] /\ mul 40 0 x y = mul 2 77 x y.
Proof. vm_compute. repeat split; discriminate. Qed.

Example C06_sqr_witness :
  let x := [B - 1; 0; B - 1; 5; B / 2; 7; B - 1; 1; 2] in
  sqr 2 3 4 77 x = dec_mul x x /\ sqr 30 10 50 0 x = sqr 2 3 4 77 x /\ sqr 2 3 4 77 x <> [].
Proof. vm_compute. repeat split; discriminate. Qed.

(* the first witness of defect F1 (exact quotient, divisor with long runs of 9s) *)
Example C06_div_witness :
  let v := of_Z 9999999999965690540527656940708383153099999999999999999999999999999999999999 in
  let q := of_Z 99999999999999999999999999999999999999 in
  let u := dec_mul q v in
  div 100 30 12345 u v = Some (q, []).
Proof. vm_compute. reflexivity. Qed.
