(* Props/C07.v — assembly kernels = portable Go kernels = mathematics.
   Statements only; every proof is `exact <lemma>`.

   Vocabulary (definitions in L1/U64.v, L1/KernSpec.v, L1/KernG.v, L1/X86.v,
   L1/KernAsm.v; constants, tables and programs generated on every check by
   tools/go2coq and tools/asm2coq.py into gen/):
     spec_*          the mathematical definition of a kernel on word lists
     g_*             Gallina model of the portable Go `_g` function, on one
                     word-addressed array `m` (slices = base index + length, so
                     overlapping windows alias exactly as in Go)
     prog_*          the program generated from dec_arith_amd64.s / arith_amd64.s
     run f E p s     the x86-64 interpreter; init_state rs args m = call with
                     arbitrary initial registers rs, Go ABI0 argument frame
     rd m a n        the n words of m at index a;  wr m z l  m with l stored at z
     asc_ok z x n    z <= x \/ x + n <= z   (dst = src, dst below an overlapping
                     src as dec.shr calls shr10VU, or disjoint)
     desc_ok z x n   x <= z \/ z + n <= x   (dst = src, dst above an overlapping
                     src as dec.shl calls shl10VU, or disjoint)
   A theorem about a vector kernel says: the returned word is the carry /
   borrow / remainder of the specification and the array after the call is
   the array before the call with the specification's n result words stored
   at z (mem_eq = pointwise equality; no extensionality axiom is used).

   The assembly theorems for add10VW and sub10VW (including the copies of decCpy they
   tail-jump to and the fold of the 2^64 hardware carry) are in Props/C07b.v
   (L1/AsmProofsVW.v); with them every assembly kernel has a closed theorem.
   The digit helpers decDigits64, nlz10, trailingZeroDigits have Gallina
   models (L1/KernG.v) tied by the correspondence run only. *)
From Coq Require Import ZArith List.
From Dec Require Import Base.Words L1.U64 L1.X86 L1.KernSpec L1.KernG L1.KernAsm
  L1.KernGScalar L1.KernGProofs L1.AsmProofs L1.AsmProofsVV L1.AsmProofsSh gen.Consts gen.Tables gen.AsmProgs.
Import ListNotations.
Open Scope Z_scope.

(* ------------------------------------------------------------------------
   Portable Go kernels = mathematical definition, all lengths and contents *)

Theorem C07_g_div10W : forall n1 n0, 0 <= n1 < B -> 0 <= n0 < W64 ->
  g_div10W n1 n0 = spec_div10W n1 n0.
Proof. exact g_div10W_correct. Qed.
Print Assumptions C07_g_div10W.

Theorem C07_g_mul10WW : forall x y, 0 <= x < W64 -> 0 <= y < W64 -> x * y < B * W64 ->
  g_mul10WW x y = spec_mul10WW x y.
Proof. exact g_mul10WW_correct. Qed.
Print Assumptions C07_g_mul10WW.

Theorem C07_g_div10WW : forall x1 x0 y, 0 <= x1 < W64 -> 0 <= x0 < W64 ->
  g_div10WW x1 x0 y = spec_div10WW x1 x0 y.
Proof. exact g_div10WW_correct. Qed.
Print Assumptions C07_g_div10WW.

(* magic.div on every row of the generated table pow10DivTab64 *)
Theorem C07_g_magic_div : forall n x, 1 <= n <= 18 -> 0 <= x < W64 ->
  g_magic_div (g_divisorPow10 n) x = (x / 10 ^ n, x mod 10 ^ n).
Proof. exact magic_div_correct. Qed.
Print Assumptions C07_g_magic_div.

Theorem C07_g_add10VV : forall n z x y m,
  asc_ok z x (Z.of_nat n) -> asc_ok z y (Z.of_nat n) ->
  words_ok (rd m x n) = true -> words_ok (rd m y n) = true ->
  let r := spec_add10VV (rd m x n) (rd m y n) in
  fst (g_add10VV n z x y m) = snd r /\ mem_eq (snd (g_add10VV n z x y m)) (wr m z (fst r)).
Proof. exact g_add10VV_correct. Qed.
Print Assumptions C07_g_add10VV.

Theorem C07_g_sub10VV : forall n z x y m,
  asc_ok z x (Z.of_nat n) -> asc_ok z y (Z.of_nat n) ->
  words_ok (rd m x n) = true -> words_ok (rd m y n) = true ->
  let r := spec_sub10VV (rd m x n) (rd m y n) in
  fst (g_sub10VV n z x y m) = snd r /\ mem_eq (snd (g_sub10VV n z x y m)) (wr m z (fst r)).
Proof. exact g_sub10VV_correct. Qed.
Print Assumptions C07_g_sub10VV.

Theorem C07_g_add10VW : forall n z x y m,
  asc_ok z x (Z.of_nat n) -> 0 <= y < B -> words_ok (rd m x n) = true ->
  let s := spec_add10VW (rd m x n) y in
  fst (g_add10VW n z x y m) = snd s /\ mem_eq (snd (g_add10VW n z x y m)) (wr m z (fst s)).
Proof. exact g_add10VW_correct. Qed.
Print Assumptions C07_g_add10VW.

Theorem C07_g_sub10VW : forall n z x y m,
  asc_ok z x (Z.of_nat n) -> 0 <= y < B -> words_ok (rd m x n) = true ->
  let s := spec_sub10VW (rd m x n) y in
  fst (g_sub10VW n z x y m) = snd s /\ mem_eq (snd (g_sub10VW n z x y m)) (wr m z (fst s)).
Proof. exact g_sub10VW_correct. Qed.
Print Assumptions C07_g_sub10VW.

Theorem C07_g_shl10VU : forall n z x s m,
  desc_ok z x (Z.of_nat n) -> 0 <= s <= 18 -> words_ok (rd m x n) = true ->
  let r := spec_shl10VU (rd m x n) s in
  fst (g_shl10VU n z x s m) = snd r /\ mem_eq (snd (g_shl10VU n z x s m)) (wr m z (fst r)).
Proof. exact g_shl10VU_correct. Qed.
Print Assumptions C07_g_shl10VU.

Theorem C07_g_shr10VU : forall n z x s m,
  asc_ok z x (Z.of_nat n) -> 0 <= s <= 18 -> words_ok (rd m x n) = true ->
  let r := spec_shr10VU (rd m x n) s in
  fst (g_shr10VU n z x s m) = snd r /\ mem_eq (snd (g_shr10VU n z x s m)) (wr m z (fst r)).
Proof. exact g_shr10VU_correct. Qed.
Print Assumptions C07_g_shr10VU.

Theorem C07_g_mulAdd10VWW : forall n z x y r m,
  asc_ok z x (Z.of_nat n) -> 0 <= y < B -> 0 <= r < B -> words_ok (rd m x n) = true ->
  let s := spec_mulAdd10VWW (rd m x n) y r in
  fst (g_mulAdd10VWW n z x y r m) = snd s /\ mem_eq (snd (g_mulAdd10VWW n z x y r m)) (wr m z (fst s)).
Proof. exact g_mulAdd10VWW_correct. Qed.
Print Assumptions C07_g_mulAdd10VWW.

Theorem C07_g_addMul10VVW : forall n z x y m,
  asc_ok z x (Z.of_nat n) -> 0 <= y < B ->
  words_ok (rd m x n) = true -> words_ok (rd m z n) = true ->
  let s := spec_addMul10VVW (rd m z n) (rd m x n) y in
  fst (g_addMul10VVW n z x y m) = snd s /\ mem_eq (snd (g_addMul10VVW n z x y m)) (wr m z (fst s)).
Proof. exact g_addMul10VVW_correct. Qed.
Print Assumptions C07_g_addMul10VVW.

Theorem C07_g_div10VWW : forall n z x y xn m,
  desc_ok z x (Z.of_nat n) -> 0 < y < W64 -> 0 <= xn < y -> words_ok (rd m x n) = true ->
  let s := spec_div10VWW (rd m x n) y xn in
  fst (g_div10VWW n z x y xn m) = snd s /\ mem_eq (snd (g_div10VWW n z x y xn m)) (wr m z (fst s)).
Proof. exact g_div10VWW_correct. Qed.
Print Assumptions C07_g_div10VWW.

Theorem C07_g_divWVW : forall n z xn x y m,
  desc_ok z x (Z.of_nat n) -> 0 < y < W64 -> 0 <= xn < y ->
  Forall (fun w => 0 <= w < W64) (rd m x n) ->
  let s := spec_divWVW xn (rd m x n) y in
  fst (g_divWVW n z xn x y m) = snd s /\ mem_eq (snd (g_divWVW n z xn x y m)) (wr m z (fst s)).
Proof. exact g_divWVW_correct. Qed.
Print Assumptions C07_g_divWVW.

(* ------------------------------------------------------------------------
   Generated assembly programs, run by the interpreter from arbitrary initial
   registers, in any environment E (data memory of e_msize E words with
   8 * e_msize E <= 2^64): the call returns (run reaches RET, no fault) and
   the result slots / the array hold the specification's answer.  Together
   with the theorems above: assembly = portable Go = mathematics. *)

Theorem C07_asm_mul10WW : forall E x y rs m,
  0 <= x < W64 -> 0 <= y < W64 -> x * y < B * W64 ->
  exists s', (forall f, run (27 + S f) E prog_mul10WW (init_state rs [x; y] m) = Some s') /\
             st_frame s' 2 = fst (spec_mul10WW x y) /\
             st_frame s' 3 = snd (spec_mul10WW x y) /\
             st_mem s' = m.
Proof. exact asm_mul10WW_correct. Qed.
Print Assumptions C07_asm_mul10WW.

Theorem C07_asm_div10WW : forall E x1 x0 y rs m,
  0 <= x1 < y -> y < W64 -> 0 <= x0 < B ->
  exists s', (forall f, run (8 + S f) E prog_div10WW (init_state rs [x1; x0; y] m) = Some s') /\
             st_frame s' 3 = fst (spec_div10WW x1 x0 y) /\
             st_frame s' 4 = snd (spec_div10WW x1 x0 y) /\
             st_mem s' = m.
Proof. exact asm_div10WW_correct. Qed.
Print Assumptions C07_asm_div10WW.

Theorem C07_asm_div10W : forall E n1 n0 rs m,
  0 <= n1 < B -> 0 <= n0 < W64 ->
  exists s', (forall f, run (25 + S f) E prog_div10W (init_state rs [n1; n0] m) = Some s') /\
             st_frame s' 2 = fst (spec_div10W n1 n0) /\
             st_frame s' 3 = snd (spec_div10W n1 n0) /\
             st_mem s' = m.
Proof. exact asm_div10W_correct. Qed.
Print Assumptions C07_asm_div10W.

Theorem C07_asm_div10VWW : forall E n z x y xn rs m,
  8 * e_msize E <= W64 ->
  0 <= z -> z + Z.of_nat n <= e_msize E -> 0 <= x -> x + Z.of_nat n <= e_msize E ->
  desc_ok z x (Z.of_nat n) -> 0 < y < W64 -> 0 <= xn < y -> words_ok (rd m x n) = true ->
  exists N s', (forall f, run (N + S f) E prog_div10VWW
                             (init_state rs (slice z n ++ slice x n ++ [y; xn]) m) = Some s') /\
               st_frame s' 8 = snd (spec_div10VWW (rd m x n) y xn) /\
               mem_eq (st_mem s') (wr m z (fst (spec_div10VWW (rd m x n) y xn))).
Proof. exact asm_div10VWW_correct. Qed.
Print Assumptions C07_asm_div10VWW.

Theorem C07_asm_divWVW : forall E n z xn x y rs m,
  8 * e_msize E <= W64 ->
  0 <= z -> z + Z.of_nat n <= e_msize E -> 0 <= x -> x + Z.of_nat n <= e_msize E ->
  desc_ok z x (Z.of_nat n) -> 0 < y < W64 -> 0 <= xn < y ->
  Forall (fun w => 0 <= w < W64) (rd m x n) ->
  exists N s', (forall f, run (N + S f) E prog_divWVW
                             (init_state rs (slice z n ++ [xn] ++ slice x n ++ [y]) m) = Some s') /\
               st_frame s' 8 = snd (spec_divWVW xn (rd m x n) y) /\
               mem_eq (st_mem s') (wr m z (fst (spec_divWVW xn (rd m x n) y))).
Proof. exact asm_divWVW_correct. Qed.
Print Assumptions C07_asm_divWVW.

Theorem C07_asm_mulAdd10VWW : forall E n z x y r rs m,
  8 * e_msize E <= W64 ->
  0 <= z -> z + Z.of_nat n <= e_msize E -> 0 <= x -> x + Z.of_nat n <= e_msize E ->
  asc_ok z x (Z.of_nat n) -> 0 <= y < B -> 0 <= r < B -> words_ok (rd m x n) = true ->
  exists N s', (forall f, run (N + S f) E prog_mulAdd10VWW
                             (init_state rs (slice z n ++ slice x n ++ [y; r]) m) = Some s') /\
               st_frame s' 8 = snd (spec_mulAdd10VWW (rd m x n) y r) /\
               mem_eq (st_mem s') (wr m z (fst (spec_mulAdd10VWW (rd m x n) y r))).
Proof. exact asm_mulAdd10VWW_correct. Qed.
Print Assumptions C07_asm_mulAdd10VWW.

Theorem C07_asm_addMul10VVW : forall E n z x y rs m,
  8 * e_msize E <= W64 ->
  0 <= z -> z + Z.of_nat n <= e_msize E -> 0 <= x -> x + Z.of_nat n <= e_msize E ->
  asc_ok z x (Z.of_nat n) -> 0 <= y < B ->
  words_ok (rd m x n) = true -> words_ok (rd m z n) = true ->
  exists N s', (forall f, run (N + S f) E prog_addMul10VVW
                             (init_state rs (slice z n ++ slice x n ++ [y]) m) = Some s') /\
               st_frame s' 7 = snd (spec_addMul10VVW (rd m z n) (rd m x n) y) /\
               mem_eq (st_mem s') (wr m z (fst (spec_addMul10VVW (rd m z n) (rd m x n) y))).
Proof. exact asm_addMul10VVW_correct. Qed.
Print Assumptions C07_asm_addMul10VVW.

Theorem C07_asm_add10VV : forall E n z x y rs m,
  8 * e_msize E <= W64 ->
  0 <= z -> z + Z.of_nat n <= e_msize E -> 0 <= x -> x + Z.of_nat n <= e_msize E ->
  0 <= y -> y + Z.of_nat n <= e_msize E ->
  asc_ok z x (Z.of_nat n) -> asc_ok z y (Z.of_nat n) ->
  words_ok (rd m x n) = true -> words_ok (rd m y n) = true ->
  exists N s', (forall f, run (N + S f) E prog_add10VV
                             (init_state rs (slice z n ++ slice x n ++ slice y n) m) = Some s') /\
               st_frame s' 9 = snd (spec_add10VV (rd m x n) (rd m y n)) /\
               mem_eq (st_mem s') (wr m z (fst (spec_add10VV (rd m x n) (rd m y n)))).
Proof. exact asm_add10VV_correct. Qed.
Print Assumptions C07_asm_add10VV.

Theorem C07_asm_sub10VV : forall E n z x y rs m,
  8 * e_msize E <= W64 ->
  0 <= z -> z + Z.of_nat n <= e_msize E -> 0 <= x -> x + Z.of_nat n <= e_msize E ->
  0 <= y -> y + Z.of_nat n <= e_msize E ->
  asc_ok z x (Z.of_nat n) -> asc_ok z y (Z.of_nat n) ->
  words_ok (rd m x n) = true -> words_ok (rd m y n) = true ->
  exists N s', (forall f, run (N + S f) E prog_sub10VV
                             (init_state rs (slice z n ++ slice x n ++ slice y n) m) = Some s') /\
               st_frame s' 9 = snd (spec_sub10VV (rd m x n) (rd m y n)) /\
               mem_eq (st_mem s') (wr m z (fst (spec_sub10VV (rd m x n) (rd m y n)))).
Proof. exact asm_sub10VV_correct. Qed.
Print Assumptions C07_asm_sub10VV.

(* tab_ok E: the read-only segment of E holds the generated pow10DivTab64 (three
   words per row), 8-aligned, above the data memory, below 2^64 *)
Theorem C07_asm_shl10VU : forall E n z x s rs m,
  tab_ok E -> 8 * e_msize E <= W64 ->
  0 <= z -> z + Z.of_nat n <= e_msize E -> 0 <= x -> x + Z.of_nat n <= e_msize E ->
  desc_ok z x (Z.of_nat n) -> 0 <= s <= 18 -> words_ok (rd m x n) = true ->
  exists N s', (forall f, run (N + S f) E prog_shl10VU
                             (init_state rs (slice z n ++ slice x n ++ [s]) m) = Some s') /\
               st_frame s' 7 = snd (spec_shl10VU (rd m x n) s) /\
               mem_eq (st_mem s') (wr m z (fst (spec_shl10VU (rd m x n) s))).
Proof. exact asm_shl10VU_correct. Qed.
Print Assumptions C07_asm_shl10VU.

Theorem C07_asm_shr10VU : forall E n z x s rs m,
  tab_ok E -> 8 * e_msize E <= W64 ->
  0 <= z -> z + Z.of_nat n <= e_msize E -> 0 <= x -> x + Z.of_nat n <= e_msize E ->
  asc_ok z x (Z.of_nat n) -> 0 <= s <= 18 -> words_ok (rd m x n) = true ->
  exists N s', (forall f, run (N + S f) E prog_shr10VU
                             (init_state rs (slice z n ++ slice x n ++ [s]) m) = Some s') /\
               st_frame s' 7 = snd (spec_shr10VU (rd m x n) s) /\
               mem_eq (st_mem s') (wr m z (fst (spec_shr10VU (rd m x n) s))).
Proof. exact asm_shr10VU_correct. Qed.
Print Assumptions C07_asm_shr10VU.

(* non-vacuity: the theorems' hypotheses are satisfiable and the three
   evaluations agree on a concrete in-place call (computed in the kernel) *)
Example C07_witness :
  let m := mem_of_list [9999999999999999999; 9999999999999999999; 5; 7] in
  asc_ok 0 0 3 /\ words_ok (rd m 0 3) = true /\
  fst (g_mulAdd10VWW 3 0 0 9999999999999999999 77 m) = snd (spec_mulAdd10VWW (rd m 0 3) 9999999999999999999 77) /\
  rd (snd (g_mulAdd10VWW 3 0 0 9999999999999999999 77 m)) 0 4 =
    fst (spec_mulAdd10VWW (rd m 0 3) 9999999999999999999 77) ++ [7] /\
  asm_call (KMulAdd10VWW 3 0 0 9999999999999999999 77) 4 m <> Some None.
Proof. vm_compute. repeat split; try (left; discriminate); discriminate. Qed.

(* the environment of the executable harness satisfies the table hypothesis *)
Example C07_tab_ok_witness : tab_ok (kenv 4096) /\ 8 * e_msize (kenv 4096) <= W64.
Proof. unfold tab_ok. vm_compute. repeat split; discriminate. Qed.
