(* Props/C08.v — every reachable Decimal is canonical (theorems to follow). *)
From Coq Require Import ZArith.
From Dec Require Import L3.Decimal.
Open Scope Z_scope.
Example C08_examples : WF dec_zero. Proof. reflexivity. Qed.
