(* Props/C08.v — every reachable Decimal is in canonical normalized form.
   Statements only.  WF (L3/Decimal.v, `wf_b`) is the canonical-form predicate:
   non-zero leading digit, words below the base, no digit beyond the precision,
   exponent in range.  `valid_op` (L3/StoreProofs.v) collects the documented
   contracts and the resource bounds of one operation; operations for which
   `valid_op` is False (Sub, FMA, SetRat, MantExp with an out-parameter, Gob
   decoding) are NOT covered by the program-level theorem yet and are decided
   by the correspondence run, which evaluates the same predicate on the
   implementation's raw words after every step. *)
From Coq Require Import ZArith List QArith.
From Dec Require Import L3.Decimal L3.Cmp L3.CmpProofs L3.Round L3.Arith L3.Store L3.StoreProofs.
Open Scope Z_scope.

Theorem C08_step_invariant : forall s o, WFstore s -> valid_op s o ->
  WFstore (fst (step s o)) /\ r_out (snd (step s o)) <> Crash.
Proof. exact step_preserves_WF. Qed.
Print Assumptions C08_step_invariant.

(* all finite sequences of operations: by induction over the program *)
Theorem C08_invariant : forall p s, WFstore s -> valid_prog s p ->
  Forall (fun rs => WFstore (snd rs) /\ r_out (fst rs) <> Crash) (run s p).
Proof. exact run_preserves_WF. Qed.
Print Assumptions C08_invariant.

(* numerically equal canonical Decimals compare equal (and conversely): C16_cmp; here the
   consequence for the representation: a canonical finite value satisfies 0.1 <= mantissa < 1 *)
Theorem C08_normalized : forall d, WFfin d -> (scaled 1 (exp d - 1) <= mag d < scaled 1 (exp d))%Q.
Proof. exact mag_bounds. Qed.
Print Assumptions C08_normalized.

Example C08_examples : WF dec_zero /\ WFstore [dec_zero; mkDec [1000000000000000000] 1 1 ToNearestEven Exact Ffinite false].
Proof. split; [reflexivity|repeat constructor]. Qed.
