(* Props/C19.v — Context (theorems to follow). *)
From Coq Require Import ZArith.
From Dec Require Import L3.Decimal L3.Store L5.Context.
Open Scope Z_scope.
Example C19_examples :
  let pinf := mkDec [] 0 0 ToNearestEven Exact Finf false in
  let ninf := mkDec [] 0 0 ToNearestEven Exact Finf true in
  let one := mkDec [1000000000000000000] 1 1 ToNearestEven Exact Ffinite false in
  let s := [dec_zero; pinf; ninf; one] in
  map (fun rs => r_ints (fst rs)) (crun (s, ctx_new 5 ToZero) [CAdd 0 1 2; CAdd 0 3 3; CErr; CErr; CAdd 0 3 3])
  = [[]; []; [1]; [0]; []] /\
  nth 0 (fst (snd (last (crun (s, ctx_new 5 ToZero) [CAdd 0 1 2; CAdd 0 3 3]) (res_none, (s, ctx_new 5 ToZero))))) one
  = mkDec [] 0 5 ToZero Exact Fzero false.
Proof. vm_compute. split; reflexivity. Qed.
