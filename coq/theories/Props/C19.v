(* Props/C19.v — Context operations round to the context and latch the first
   NaN.  Statements only.  `cstep`/`crun` (L5/Context.v) model context.Context:
   apply the context's precision and mode to the receiver, run the Decimal
   operation, record an ErrNaN outcome in the latch `cerr`; `latched_op` are
   the operations that go through the latch. A panic that is not an ErrNaN is
   the outcome Crash. *)
From Coq Require Import ZArith QArith List Bool.
From Dec Require Import L3.Decimal L3.Round L3.Arith L3.Store L3.ArithProofs L5.Context L5.ContextProofs.
Open Scope Z_scope.

(* every later operation returns its receiver untouched while an error is pending,
   over arbitrary sequences of operations *)
Theorem C19_latch_holds : forall ops s c, cerr c = true -> forallb latched_op ops = true ->
  forall r st, In (r, st) (crun (s, c) ops) -> st = (s, c) /\ r = res_none.
Proof. exact latch_holds. Qed.
Print Assumptions C19_latch_holds.

(* ... until Err() is called; the first error wins and Err() reports it *)
Theorem C19_first_error_wins : forall s c ops, cerr c = true -> forallb latched_op ops = true ->
  forall st r, In (r, st) (crun (s, c) (ops ++ [CErr])) -> cerr (snd st) = true \/ (r_ints r = [1] /\ fst st = s).
Proof. exact first_error_wins. Qed.
Print Assumptions C19_first_error_wins.

(* Err() returns the recorded error exactly once and re-arms the context *)
Theorem C19_err_once : forall s c,
  let '(st1, r1) := cstep (s, c) CErr in
  let '(st2, r2) := cstep st1 CErr in
  r_ints r1 = [b2z (cerr c)] /\ r_ints r2 = [0] /\ fst st1 = s /\ fst st2 = s /\ cerr (snd st2) = false.
Proof. exact err_reports_once. Qed.
Print Assumptions C19_err_once.

(* panics that are not ErrNaN are not swallowed: they are never recorded *)
Theorem C19_crash_not_latched : forall s c o st' r,
  cerr c = false -> cstep (s, c) o = (st', r) -> r_out r = Crash -> cerr (snd st') = false.
Proof. exact crash_not_latched. Qed.
Print Assumptions C19_crash_not_latched.

(* a receiver distinct from its operands ends up correctly rounded to the context's
   precision and mode whatever precision and mode it had (Add; the other
   operations go through the same `capply_ok` + C01 theorem) *)
Theorem C19_add_rounds_to_context : forall s c z x y,
  cerr c = false -> z <> x -> z <> y -> (z < length s)%nat ->
  WF (get s z) -> WF (get s x) -> WF (get s y) ->
  dform (get s x) = Ffinite -> dform (get s y) = Ffinite ->
  1 <= cprec c <= MaxPrec ->
  (dform (get s z) = Ffinite -> mdigits (mant (get s z)) < 4294967296 - 18) ->
  add_span (get s x) (get s y) + 40 < 4294967296 - 18 ->
  exists st', cstep (s, c) (CAdd z x y) = (st', res_none) /\ snd st' = c /\
    AddPost (cprec c) (cmode c) (sval (get s x) + sval (get s y)) (OkR (get (fst st') z)).
Proof. exact ctx_add_rounds. Qed.
Print Assumptions C19_add_rounds_to_context.

Example C19_examples :
  let pinf := mkDec [] 0 0 ToNearestEven Exact Finf false in
  let ninf := mkDec [] 0 0 ToNearestEven Exact Finf true in
  let one := mkDec [1000000000000000000] 1 1 ToNearestEven Exact Ffinite false in
  let s := [dec_zero; pinf; ninf; one] in
  map (fun rs => r_ints (fst rs)) (crun (s, ctx_new 5 ToZero) [CAdd 0 1 2; CAdd 0 3 3; CErr; CErr; CAdd 0 3 3])
  = [[]; []; [1]; [0]; []].
Proof. vm_compute. reflexivity. Qed.
