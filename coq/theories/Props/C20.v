(* Props/C20.v — raw mantissa access, MantExp/SetMantExp (theorems to follow). *)
From Coq Require Import ZArith.
From Dec Require Import L3.Decimal L3.Arith L3.Convert.
Open Scope Z_scope.

Example C20_examples :
  let z := mkDec [] 0 0 ToNearestEven Exact Fzero false in
  (exists d, SetBitsExp z [1] 1 = OkR d /\ dform d = Ffinite /\ mant d = [1000000000000000000] /\ exp d = -17 /\ prec d = 19) /\
  (exists d, SetBitsExp z [0; 0] 5 = OkR d /\ dform d = Fzero) /\
  (exists d, SetBitsExp z [1] (-9223372036854775808) = OkR d /\ dform d = Fzero /\ acc d = Below).
Proof. vm_compute. repeat split; eexists; repeat split. Qed.
