(* Props/C20.v — raw mantissa access and MantExp/SetMantExp are exact inverses.
   Statements only (OpPost / result_spec as in Props/C01.v). *)
From Coq Require Import ZArith QArith.
From Dec Require Import Base.Words Base.QPow L3.Decimal L3.Round L3.Arith L3.Convert Spec.Rounding L3.ArithProofs L3.ConvertProofs.
Open Scope Z_scope.

(* SetBitsExp(mant, exp) for ANY little-endian slice of words below the base with a
   non-zero value and EVERY integer exponent: the positive value 0.mant x 10^exp
   (= val mant x 10^(exp - 19 len)), leading zero words and digits stripped, rounded to
   the receiver's precision (the slice's digit capacity when that was 0), saturating
   outside the exponent range *)
Theorem C20_setbitsexp : forall z ws e,
  words_ok ws = true -> 0 < val ws -> 19 * zlen ws + 19 < 4294967296 - 18 -> 0 <= prec z <= MaxPrec ->
  OpPost (setbits_prec z ws) (dmode z) false (scaled (val ws) (e - 19 * zlen ws)) (SetBitsExp z ws e).
Proof. exact SetBitsExp_correct. Qed.
Print Assumptions C20_setbitsexp.

Theorem C20_setbitsexp_zero : forall z ws, words_ok ws = true -> val ws = 0 -> 0 <= prec z <= MaxPrec ->
  exists z', SetBitsExp z ws 0 = OkR z' /\ dform z' = Fzero /\ neg z' = false /\ acc z' = Exact /\ prec z' = prec z /\ dmode z' = dmode z.
Proof. exact SetBitsExp_zero. Qed.
Print Assumptions C20_setbitsexp_zero.

(* BitsExp returns a pair denoting exactly the receiver's magnitude *)
Theorem C20_bitsexp : forall x, dform x = Ffinite ->
  (scaled (val (BitsExp_mant x)) (exp x - 19 * zlen (BitsExp_mant x)) == mag x)%Q.
Proof. exact BitsExp_denotes. Qed.
Print Assumptions C20_bitsexp.

(* MantExp: x = mant x 10^exp with 0.1 <= |mant| < 1, attributes copied *)
Theorem C20_mantexp : forall same m x, WF x -> dform x = Ffinite -> (same = true -> m = x) ->
  exists m', MantExp_mant same m x = OkR m' /\ WF m' /\ dform m' = Ffinite /\ exp m' = 0 /\
    neg m' = neg x /\ prec m' = prec x /\ dmode m' = dmode x /\
    (scaled 1 (-1) <= mag m' < scaled 1 0)%Q /\
    (mag m' * Qpow10 (MantExp_exp x) == mag x)%Q.
Proof. exact MantExp_split. Qed.
Print Assumptions C20_mantexp.

(* SetMantExp(mant, e) for EVERY integer e: mant x 10^e with mant's precision and mode;
   +-0 / +-Inf exactly when the resulting exponent leaves [MinExp, MaxExp] (result_spec) *)
Theorem C20_setmantexp : forall same z m e,
  WF m -> dform m = Ffinite -> mdigits (mant m) < 4294967296 - 18 -> (same = true -> z = m) ->
  OpPost (prec m) (dmode m) (neg m) (mag m * Qpow10 e) (SetMantExp same z m e).
Proof. exact SetMantExp_correct. Qed.
Print Assumptions C20_setmantexp.

(* the inverse law: SetMantExp(mant, MantExp(mant)) rebuilds exactly x *)
Theorem C20_inverse : forall x z m0, WF x -> dform x = Ffinite -> mdigits (mant x) < 4294967296 - 18 ->
  exists m', MantExp_mant false m0 x = OkR m' /\
    OpPost (prec x) (dmode x) (neg x) (mag x) (SetMantExp false z m' (MantExp_exp x)).
Proof. exact MantExp_inverse. Qed.
Print Assumptions C20_inverse.

Example C20_examples :
  let z := mkDec [] 0 0 ToNearestEven Exact Fzero false in
  (exists d, SetBitsExp z [1] 1 = OkR d /\ dform d = Ffinite /\ mant d = [1000000000000000000] /\ exp d = -17 /\ prec d = 19) /\
  (exists d, SetBitsExp z [0; 0] 5 = OkR d /\ dform d = Fzero) /\
  (exists d, SetBitsExp z [1] (-9223372036854775808) = OkR d /\ dform d = Fzero /\ acc d = Below).
Proof. vm_compute. repeat split; eexists; repeat split. Qed.
