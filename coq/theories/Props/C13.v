(* Props/C13.v — formatting prints the correctly rounded digits in
   strconv/fmt layout.  Statements only; every proof is `exact <lemma>`.

   Reading guide.  Append (L4/Toa.v) first rounds x (`round_for_fmt x fmt pr
   digits`, digits = MinPrec x) and then lays the digits out (fmtE / fmtF).
   `rnd_of x fmt pr` is the number of significant digits the format asks for
   (1+pr for e/E, exponent+pr for f, pr for g/G).  `result_spec p m ng v x1`
   is the rounding specification of C01: x1 is v rounded once to p digits
   under mode m.  `SigDigits x D`: D are the MinPrec significant digits of x
   (L4/ToaProofs.v).  Bytes: 101 'e', 69 'E', 102 'f', 46 '.'. *)
From Coq Require Import ZArith QArith List.
From Dec Require Import Base.Words Base.QPow L3.Decimal L3.Round L3.Arith L3.CmpProofs Spec.Rounding
  L4.Scan L4.Toa L4.ToaProofs L4.Format L4.FormatProofs.
Import ListNotations.
Open Scope Z_scope.

(* Rounding position inside the digits of x: the value that is printed is x
   rounded ONCE, under x's own mode, to the requested number of digits. *)
Theorem C13_round_step : forall x fmt pr digits,
  WF x -> dform x = Ffinite -> mdigits (mant x) < 4294967296 - 18 ->
  1 <= rnd_of x fmt pr < digits -> rnd_of x fmt pr <= MaxPrec ->
  exists x1, round_for_fmt x fmt pr digits = Some x1 /\
    result_spec (rnd_of x fmt pr) (dmode x) (neg x) (mag x) x1 /\
    prec x1 = rnd_of x fmt pr /\ dmode x1 = dmode x /\ WF x1.
Proof. exact round_step. Qed.
Print Assumptions C13_round_step.

(* Rounding position at or below the last digit: nothing is rounded. *)
Theorem C13_round_step_id : forall x fmt pr digits,
  digits <= rnd_of x fmt pr -> round_for_fmt x fmt pr digits = Some x.
Proof. exact round_step_id. Qed.
Print Assumptions C13_round_step_id.

(* Rounding position at or above the leading digit ('f' with |x| < 10^-pr):
   the printed value is one unit 10^-pr exactly when the correctly rounded
   image of |x| at that unit is (`up_spec`: by direction for the directed
   modes, by comparison with half a unit for the nearest modes, a tie going to
   the even multiple 0), and a zero of x's sign otherwise. *)
Theorem C13_round_at_or_above : forall x pr digits D,
  WF x -> dform x = Ffinite -> SigDigits x D -> digits = zlen D ->
  0 <= pr <= 2147483648 -> exp x + pr <= 0 ->
  exists x1, round_for_fmt x 102 pr digits = Some x1 /\ neg x1 = neg x /\ dmode x1 = dmode x /\
    (up_spec (dmode x) (neg x) (mag x) pr -> dform x1 = Ffinite /\ (mag x1 == scaled 1 (- pr))%Q /\ WF x1) /\
    (~ up_spec (dmode x) (neg x) (mag x) pr -> dform x1 = Fzero).
Proof. exact round_step_zero. Qed.
Print Assumptions C13_round_at_or_above.

(* The 'e'/'E' layout for any precision pr >= 0: first digit, then (if pr > 0)
   a point and exactly pr digits - the next digits of x, zero-filled -, the
   exponent character, the sign of the exponent and at least two digits. *)
Theorem C13_e_layout : forall buf x D fmt pr, SigDigits x D -> dform x = Ffinite -> 0 <= pr ->
  exists d0 tl, D = d0 :: tl /\
    fmtE buf x fmt pr =
      Some (buf ++ [d0] ++
            (if 0 <? pr then 46 :: firstn (Z.to_nat pr) tl ++ zeros (pr - Z.min pr (zlen tl)) else []) ++
            [fmt; e_sign (exp x - 1)] ++ exp_digits (exp x - 1)).
Proof. exact fmtE_layout. Qed.
Print Assumptions C13_e_layout.

Theorem C13_e_digit_count : forall (tl : bytes) pr, 0 < pr ->
  zlen (firstn (Z.to_nat pr) tl ++ zeros (pr - Z.min pr (zlen tl))) = pr.
Proof. exact fmtE_frac_len. Qed.
Print Assumptions C13_e_digit_count.

(* Append for 'e' / 'E' with an explicit precision pr >= 0, end to end: the
   output is the sign of x, then the 'e' layout (first digit, pr fraction
   digits zero-filled, exponent) of the significant digits d0 :: tl of x1,
   where x1 is x itself when x has at most pr+1 digits and otherwise x rounded
   ONCE to pr+1 digits under x's own mode (result_spec).  The hypothesis
   exp x < MaxExp excludes the overflow of the rounded copy (known finding K6). *)
Theorem C13_append_e : forall buf x fmt pr,
  WF x -> dform x = Ffinite -> (fmt = 101 \/ fmt = 69) -> exp x < MaxExp ->
  mdigits (mant x) < 4294967296 - 18 -> 0 <= pr -> pr + 1 <= MaxPrec ->
  exists x1 d0 tl,
    SigDigits x1 (d0 :: tl) /\ dform x1 = Ffinite /\ neg x1 = neg x /\
    ((forall n, MinPrec x = Some n -> n <= pr + 1) /\ x1 = x \/
     (exists n, MinPrec x = Some n /\ pr + 1 < n) /\ result_spec (pr + 1) (dmode x) (neg x) (mag x) x1) /\
    Append buf x fmt pr =
      Some ((buf ++ sign_bytes (neg x)) ++ [d0] ++
            (if 0 <? pr then 46 :: firstn (Z.to_nat pr) tl ++ zeros (pr - Z.min pr (zlen tl)) else []) ++
            [fmt; e_sign (exp x1 - 1)] ++ exp_digits (exp x1 - 1)).
Proof. exact append_e. Qed.
Print Assumptions C13_append_e.

(* The 'f' layout for any precision: integer part f_int (the digits before the
   point, zero-filled up to the exponent, or "0"), then - if pr > 0 - a point
   and exactly pr digits: positions exp, exp+1, ... of the digit string, zero
   outside it (frac_window). *)
Theorem C13_f_layout : forall buf x D pr, SigDigits x D -> dform x = Ffinite -> 0 <= pr ->
  fmtF buf x pr = Some (buf ++ f_int D (exp x) ++ (if 0 <? pr then 46 :: frac_window D (exp x) pr else [])).
Proof. exact fmtF_layout. Qed.
Print Assumptions C13_f_layout.

Theorem C13_f_digit_count : forall D e pr, 0 <= pr -> zlen (frac_window D e pr) = pr.
Proof. exact frac_window_len. Qed.
Print Assumptions C13_f_digit_count.

(* Append for 'f' with an explicit precision, end to end, in the three regimes
   of the rounding position (below the last digit / inside the digits / at or
   above the leading digit); the output is the sign of x and the 'f' layout of
   x1, or "0" "." zeros when x1 is a zero. *)
Theorem C13_append_f : forall buf x pr D,
  WF x -> dform x = Ffinite -> SigDigits x D -> exp x < MaxExp ->
  mdigits (mant x) < 4294967296 - 18 -> 0 <= pr <= 2147483648 -> exp x + pr <= MaxPrec ->
  exists x1,
    neg x1 = neg x /\
    ((zlen D <= exp x + pr /\ x1 = x) \/
     (1 <= exp x + pr < zlen D /\ dform x1 = Ffinite /\ result_spec (exp x + pr) (dmode x) (neg x) (mag x) x1) \/
     (exp x + pr <= 0 /\
      (up_spec (dmode x) (neg x) (mag x) pr -> dform x1 = Ffinite /\ (mag x1 == scaled 1 (- pr))%Q) /\
      (~ up_spec (dmode x) (neg x) (mag x) pr -> dform x1 = Fzero))) /\
    (dform x1 = Ffinite ->
       exists D1, SigDigits x1 D1 /\
         Append buf x 102 pr = Some ((buf ++ sign_bytes (neg x)) ++ f_int D1 (exp x1) ++
                                     (if 0 <? pr then 46 :: frac_window D1 (exp x1) pr else []))) /\
    (dform x1 = Fzero ->
       Append buf x 102 pr = Some ((buf ++ sign_bytes (neg x)) ++ [48] ++ (if 0 <? pr then 46 :: zeros pr else []))).
Proof. exact append_f. Qed.
Print Assumptions C13_append_f.

(* Append for 'g' / 'G' with an explicit precision, end to end: round once to
   P = max(pr,1) digits; the 'e' layout is chosen exactly when the exponent of
   the rounded value is below -4 or at least eprec (P, or the number of digits
   left when trailing zeros were dropped and the value is below 10^digits);
   otherwise the 'f' layout with just enough fraction digits. *)
Theorem C13_append_g : forall buf x fmt pr,
  WF x -> dform x = Ffinite -> (fmt = 103 \/ fmt = 71) -> exp x < MaxExp ->
  mdigits (mant x) < 4294967296 - 18 -> 0 <= pr -> pr + 1 <= MaxPrec ->
  let P := if pr =? 0 then 1 else pr in
  exists x1 D1 d0 tl,
    SigDigits x1 D1 /\ D1 = d0 :: tl /\ dform x1 = Ffinite /\ neg x1 = neg x /\
    ((forall n, MinPrec x = Some n -> n <= P) /\ x1 = x \/
     (exists n, MinPrec x = Some n /\ P < n) /\ result_spec P (dmode x) (neg x) (mag x) x1) /\
    let nd := zlen D1 in
    let eprec := if (nd <? P) && (exp x1 <=? nd) then nd else P in
    let ech := fmt + 101 - 103 in
    Append buf x fmt pr =
      if (exp x1 - 1 <? -4) || (eprec <=? exp x1 - 1) then
        let q := (if nd <? P then nd else P) - 1 in
        Some ((buf ++ sign_bytes (neg x)) ++ [d0] ++
              (if 0 <? q then 46 :: firstn (Z.to_nat q) tl ++ zeros (q - Z.min q (zlen tl)) else []) ++
              [ech; e_sign (exp x1 - 1)] ++ exp_digits (exp x1 - 1))
      else
        let q := Z.max ((if exp x1 <? P then nd else P) - exp x1) 0 in
        Some ((buf ++ sign_bytes (neg x)) ++ f_int D1 (exp x1) ++
              (if 0 <? q then 46 :: frac_window D1 (exp x1) q else [])).
Proof. exact append_g. Qed.
Print Assumptions C13_append_g.

(* Format: for every supported verb the output is at least `width` long. *)
Theorem C13_format_width : forall x s verb out w,
  Format x s verb = Some out -> f_width s = Some w ->
  (verb = 101 \/ verb = 69 \/ verb = 102 \/ verb = 70 \/ verb = 103 \/ verb = 71 \/ verb = 118 \/ verb = 115 \/ verb = 98 \/ verb = 112) ->
  w <= zlen out.
Proof. exact Format_width. Qed.
Print Assumptions C13_format_width.

(* NOT CLOSED (kept with their full statements):

   C13_append as ONE statement against a separate layout specification
   (Layout.fmt_spec): closed per format instead - C13_append_e, C13_append_f,
   C13_append_g state the output explicitly in terms of the significant digits
   of the once-rounded value.  Excluded by hypothesis: exp x = MaxExp (the
   rounded copy can overflow to an infinity and the code then prints "0...":
   known finding K6).  Not derived: that the explicit strings coincide with
   strconv.FormatFloat's for float64 inputs - validated by the run
   (harness/props/textcommon.py spec_text vs strconv/fmt on exactly
   representable inputs, and spec_text vs the implementation on all inputs).

   C13_pb : 'p' and 'b' print the normalized mantissa digits with the matching
   exponent - the strings are characterised by text_p / text_b in
   L4/ToaProofs.v and used in C11_roundtrip_p / C11_roundtrip_b.

   C13_format : sign and padding placement for every flag set as
   Layout.pad_spec.  Only the width theorem is closed; the placement is the
   definition of L4/Format.v, tied to the code by correspondence and compared
   with fmt.Sprintf by the run (known finding K5 for %+v). *)

(* non-vacuity *)
Example C13_witness :
  let x := mkDec [9960000000000000000] 1 3 ToNearestEven Exact Ffinite false in       (* 9.96 *)
  let y := mkDec [8789062500000000000] (-2) 8 ToNearestEven Exact Ffinite false in    (* 0.0087890625 *)
  let h := mkDec [6000000000000000000] 0 1 ToNearestEven Exact Ffinite true in        (* -0.6 *)
  WF x /\ WF y /\
  Text x 101 1 = Some [49; 46; 48; 101; 43; 48; 49] /\                (* "1.0e+01": the carry adds a digit *)
  Text x 102 1 = Some [49; 48; 46; 48] /\                             (* "10.0" *)
  Text y 102 2 = Some [48; 46; 48; 49] /\                             (* "0.01" *)
  Text h 102 0 = Some [45; 49] /\                                     (* "-1" *)
  Text y 103 3 = Some [48; 46; 48; 48; 56; 55; 57] /\                 (* "0.00879" *)
  Format x (mkFS true false true false (Some 8) (Some 2)) 102 = Some [43; 48; 48; 48; 57; 46; 57; 54] /\  (* "+0009.96" *)
  Format x (mkFS false false false true (Some 6) (Some 0)) 101 = Some [49; 101; 43; 48; 49; 32].           (* "1e+01 " *)
Proof. vm_compute. repeat split. Qed.
