(* Props/C11.v — text output parses back to exactly the same Decimal.
   Statements only; every proof is `exact <lemma>`.

   Reading guide.  `Text x fmt prec` is the model of Decimal.Text
   (L4/Toa.v; None = a panic), `Parse z s base` the model of Parse
   (L4/Scan.v).  Byte strings are lists of byte values: 101 = 'e', 69 = 'E',
   46 = '.', 45 = '-', 43 = '+', 48 = '0'.  `digval s 0` is the number written
   by the digit string s, `all_digits s` says every byte is a digit,
   `sign_bytes ng` is "-" or "", `e_frac tl` is "" or "." followed by tl,
   `e_sign e`/`exp_digits e` the exponent sign and its at-least-two digits.
   `mag x` is the exact magnitude of x (L3/Decimal.v). *)
From Coq Require Import ZArith QArith List.
From Dec Require Import Base.Words Base.QPow L3.Decimal L3.Round L3.Arith L3.CmpProofs L4.Scan L4.Toa L4.ToaProofs.
Import ListNotations.
Open Scope Z_scope.

(* Precision -1, formats 'e' and 'E': the output is  sign d0 [. tl] e±dd  where
   d0 :: tl are exactly MinPrec x digits, first and last non-zero, and they are
   the digits of the stored mantissa (no digit dropped, none invented). *)
Theorem C11_digits : forall x fmt, WF x -> dform x = Ffinite -> (fmt = 101 \/ fmt = 69) ->
  exists d0 tl,
    all_digits (d0 :: tl) = true /\ d0 <> 48 /\ last (d0 :: tl) 0 <> 48 /\
    MinPrec x = Some (zlen (d0 :: tl)) /\
    val (mant x) = digval (d0 :: tl) 0 * 10 ^ (mdigits (mant x) - zlen (d0 :: tl)) /\
    Text x fmt (-1) =
      Some (sign_bytes (neg x) ++ [d0] ++ e_frac tl ++ [fmt; e_sign (exp x - 1)] ++ exp_digits (exp x - 1)).
Proof. exact digits_e. Qed.
Print Assumptions C11_digits.

(* Round trip.  For every canonical finite x, every receiver z whose precision
   (34 if 0) is at least MinPrec x, every rounding mode of z and both base
   arguments that accept decimal literals (10 and 0), Parse (Text x fmt (-1))
   succeeds, consumes the whole string and yields a finite value with x's sign
   and exactly x's magnitude, accuracy Exact, z's precision and mode,
   canonical.  One theorem per layout. *)
Theorem C11_roundtrip_e : forall base x z fmt,
  (base = 10 \/ base = 0) -> WF x -> dform x = Ffinite -> (fmt = 101 \/ fmt = 69) ->
  mdigits (mant x) < 4294967296 - 36 -> 0 <= prec z <= MaxPrec ->
  let p := if prec z =? 0 then DefaultDecimalPrec else prec z in
  (forall mp, MinPrec x = Some mp -> mp <= p) ->
  exists t z', Text x fmt (-1) = Some t /\ Parse z t base = POk z' 10 [] /\
    dform z' = Ffinite /\ neg z' = neg x /\ (mag z' == mag x)%Q /\ acc z' = Exact /\
    prec z' = p /\ dmode z' = dmode z /\ WF z'.
Proof. exact roundtrip_e. Qed.
Print Assumptions C11_roundtrip_e.

(* 'f' (102) *)
Theorem C11_roundtrip_f : forall base x z,
  (base = 10 \/ base = 0) -> WF x -> dform x = Ffinite ->
  mdigits (mant x) < 2147483648 - 36 -> 0 <= prec z <= MaxPrec ->
  let p := if prec z =? 0 then DefaultDecimalPrec else prec z in
  (forall mp, MinPrec x = Some mp -> mp <= p) ->
  exists t z', Text x 102 (-1) = Some t /\ Parse z t base = POk z' 10 [] /\
    dform z' = Ffinite /\ neg z' = neg x /\ (mag z' == mag x)%Q /\ acc z' = Exact /\
    prec z' = p /\ dmode z' = dmode z /\ WF z'.
Proof. exact roundtrip_f. Qed.
Print Assumptions C11_roundtrip_f.

(* 'g' (103) and 'G' (71) *)
Theorem C11_roundtrip_g : forall base x z fmt,
  (base = 10 \/ base = 0) -> WF x -> dform x = Ffinite -> (fmt = 103 \/ fmt = 71) ->
  mdigits (mant x) < 2147483648 - 36 -> 0 <= prec z <= MaxPrec ->
  let p := if prec z =? 0 then DefaultDecimalPrec else prec z in
  (forall mp, MinPrec x = Some mp -> mp <= p) ->
  exists t z', Text x fmt (-1) = Some t /\ Parse z t base = POk z' 10 [] /\
    dform z' = Ffinite /\ neg z' = neg x /\ (mag z' == mag x)%Q /\ acc z' = Exact /\
    prec z' = p /\ dmode z' = dmode z /\ WF z'.
Proof. exact roundtrip_g. Qed.
Print Assumptions C11_roundtrip_g.

(* 'p' (112: "0." digits e exponent) *)
Theorem C11_roundtrip_p : forall base x z,
  (base = 10 \/ base = 0) -> WF x -> dform x = Ffinite ->
  mdigits (mant x) < 4294967296 - 36 -> 0 <= prec z <= MaxPrec ->
  let p := if prec z =? 0 then DefaultDecimalPrec else prec z in
  (forall mp, MinPrec x = Some mp -> mp <= p) ->
  exists t z', Text x 112 (-1) = Some t /\ Parse z t base = POk z' 10 [] /\
    dform z' = Ffinite /\ neg z' = neg x /\ (mag z' == mag x)%Q /\ acc z' = Exact /\
    prec z' = p /\ dmode z' = dmode z /\ WF z'.
Proof. exact roundtrip_p. Qed.
Print Assumptions C11_roundtrip_p.

(* 'b' (98: the mantissa padded to prec x digits, then e exponent) *)
Theorem C11_roundtrip_b : forall base x z,
  (base = 10 \/ base = 0) -> WF x -> dform x = Ffinite ->
  mdigits (mant x) < 4294967296 - 36 -> prec x < 4294967296 - 36 -> 0 <= prec z <= MaxPrec ->
  let p := if prec z =? 0 then DefaultDecimalPrec else prec z in
  (forall mp, MinPrec x = Some mp -> mp <= p) ->
  exists t z', Text x 98 (-1) = Some t /\ Parse z t base = POk z' 10 [] /\
    dform z' = Ffinite /\ neg z' = neg x /\ (mag z' == mag x)%Q /\ acc z' = Exact /\
    prec z' = p /\ dmode z' = dmode z /\ WF z'.
Proof. exact roundtrip_b. Qed.
Print Assumptions C11_roundtrip_b.

(* MarshalText / UnmarshalText (the JSON form is this text between quotes) *)
Theorem C11_roundtrip_marshal : forall x z,
  WF x -> dform x = Ffinite ->
  mdigits (mant x) < 2147483648 - 36 -> 0 <= prec z <= MaxPrec ->
  let p := if prec z =? 0 then DefaultDecimalPrec else prec z in
  (forall mp, MinPrec x = Some mp -> mp <= p) ->
  exists t z', MarshalText x = Some t /\ UnmarshalText z t = POk z' 10 [] /\
    dform z' = Ffinite /\ neg z' = neg x /\ (mag z' == mag x)%Q /\ acc z' = Exact /\
    prec z' = p /\ dmode z' = dmode z /\ WF z'.
Proof. exact roundtrip_marshal. Qed.
Print Assumptions C11_roundtrip_marshal.

(* +-0 (whatever the stale exponent field holds) and +-Inf *)
Theorem C11_roundtrip_zero : forall base x z,
  (base = 10 \/ base = 0) -> dform x = Fzero ->
  let p := if prec z =? 0 then DefaultDecimalPrec else prec z in
  exists z', Text x 103 (-1) = Some (sign_bytes (neg x) ++ [48]) /\
    Parse z (sign_bytes (neg x) ++ [48]) base = POk z' 10 [] /\
    dform z' = Fzero /\ neg z' = neg x /\ acc z' = Exact /\ prec z' = p /\ dmode z' = dmode z.
Proof. exact roundtrip_zero. Qed.
Print Assumptions C11_roundtrip_zero.

Theorem C11_roundtrip_inf : forall base x z fmt,
  dform x = Finf ->
  exists z', Text x fmt (-1) = Some (s_Inf_signed (neg x)) /\
    Parse z (s_Inf_signed (neg x)) base = POk z' 0 [] /\
    dform z' = Finf /\ neg z' = neg x /\ acc z' = Exact /\ prec z' = prec z /\ dmode z' = dmode z.
Proof. exact roundtrip_inf. Qed.
Print Assumptions C11_roundtrip_inf.

(* the significant digits behind all formats: for every canonical finite x
   there is a digit string D with MinPrec x = |D|, last digit non-zero,
   val (mant x) = D * 10^(19*len - |D|), and toa x = D followed by zeros *)
Theorem C11_sig_digits : forall x, WFfin x -> dform x = Ffinite -> exists D, SigDigits x D.
Proof. exact sig_digits. Qed.
Print Assumptions C11_sig_digits.

(* ... and how the other formats lay those digits D out (precision -1):
   'f': integer part f_int, fraction f_frac (D split at the exponent, zero
   filled); 'p': "0." D e exponent; 'b': D padded to prec x digits *)
Theorem C11_digits_f : forall x D, SigDigits x D -> dform x = Ffinite ->
  Text x 102 (-1) = Some (sign_bytes (neg x) ++ f_int D (exp x) ++ opt_frac (f_frac D (exp x))).
Proof. exact text_f. Qed.
Print Assumptions C11_digits_f.

Theorem C11_digits_p : forall x D, SigDigits x D -> dform x = Ffinite ->
  Text x 112 (-1) = Some (sign_bytes (neg x) ++ [48] ++ opt_frac D ++ 101 :: pb_sign (exp x) :: itoa_nonneg (Z.abs (exp x))).
Proof. exact text_p. Qed.
Print Assumptions C11_digits_p.

Theorem C11_digits_b : forall x D, WFfin x -> SigDigits x D -> dform x = Ffinite ->
  Text x 98 (-1) = Some (sign_bytes (neg x) ++ (D ++ zeros (prec x - zlen D)) ++ opt_frac [] ++
                         101 :: pb_sign (exp x - prec x) :: itoa_nonneg (Z.abs (exp x - prec x))).
Proof. exact text_b. Qed.
Print Assumptions C11_digits_b.

(* 'g'/'G' with precision -1 print the 'e'/'E' layout when the exponent is
   below -4 or at least 6, else the 'f' layout *)
Theorem C11_digits_g : forall x D, SigDigits x D -> dform x = Ffinite ->
  Text x 103 (-1) = (if (exp x - 1 <? -4) || (6 <=? exp x - 1) then Text x 101 (-1) else Text x 102 (-1)) /\
  Text x 71 (-1) = (if (exp x - 1 <? -4) || (6 <=? exp x - 1) then Text x 69 (-1) else Text x 102 (-1)).
Proof. exact text_g. Qed.
Print Assumptions C11_digits_g.

(* NOT CLOSED:
   the JSON form: json.Marshal/Unmarshal add and strip the quotes around
   MarshalText's output (encoding/json is not modelled beyond that; L4/TRun.v
   `unquote`); covered by correspondence (family roundtrip-marshal, format 1). *)

(* non-vacuity and the special values *)
Example C11_witness :
  let x := mkDec [0; 1234500000000000000] 3 40 ToZero Below Ffinite true in      (* -123.45 *)
  let z := mkDec [] 0 5 ToPositiveInf Above Fzero false in
  let nz := mkDec [] 7 0 ToNearestEven Exact Fzero true in                        (* -0 *)
  let pinf := mkDec [] 0 0 ToNearestEven Exact Finf false in
  WF x /\ MinPrec x = Some 5 /\
  Text x 101 (-1) = Some [45; 49; 46; 50; 51; 52; 53; 101; 43; 48; 50] /\           (* "-1.2345e+02" *)
  Parse z [45; 49; 46; 50; 51; 52; 53; 101; 43; 48; 50] 10 =
    POk (mkDec [1234500000000000000] 3 5 ToPositiveInf Exact Ffinite true) 10 [] /\
  Text x 102 (-1) = Some [45; 49; 50; 51; 46; 52; 53] /\                            (* "-123.45" *)
  Text x 112 (-1) = Some [45; 48; 46; 49; 50; 51; 52; 53; 101; 43; 51] /\           (* "-0.12345e+3" *)
  Text nz 103 (-1) = Some [45; 48] /\                                                (* "-0" *)
  Parse z [45; 48] 10 = POk (mkDec [] 0 5 ToPositiveInf Exact Fzero true) 10 [] /\
  Text pinf 103 (-1) = Some [43; 73; 110; 102] /\                                    (* "+Inf" *)
  Parse z [43; 73; 110; 102] 10 = POk (mkDec [] 0 5 ToPositiveInf Exact Finf false) 0 [].
Proof. vm_compute. repeat split. Qed.
