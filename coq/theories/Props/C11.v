(* Props/C11.v — text output parses back to exactly the same Decimal.
   Statements only; every proof is `exact <lemma>`.

   Reading guide.  `Text x fmt prec` is the model of Decimal.Text
   (L4/Toa.v; None = a panic), `Parse z s base` the model of Parse
   (L4/Scan.v).  Byte strings are lists of byte values: 101 = 'e', 69 = 'E',
   46 = '.', 45 = '-', 43 = '+', 48 = '0'.  `digval s 0` is the number written
   by the digit string s, `all_digits s` says every byte is a digit,
   `sign_bytes ng` is "-" or "", `e_frac tl` is "" or "." followed by tl,
   `e_sign e`/`exp_digits e` the exponent sign and its at-least-two digits.
   `mag x` is the exact magnitude of x (L3/Decimal.v). *)
From Coq Require Import ZArith QArith List.
From Dec Require Import Base.Words Base.QPow L3.Decimal L3.Round L3.Arith L3.CmpProofs L4.Scan L4.Toa L4.ToaProofs.
Import ListNotations.
Open Scope Z_scope.

(* Precision -1, formats 'e' and 'E': the output is  sign d0 [. tl] e±dd  where
   d0 :: tl are exactly MinPrec x digits, first and last non-zero, and they are
   the digits of the stored mantissa (no digit dropped, none invented). *)
Theorem C11_digits : forall x fmt, WF x -> dform x = Ffinite -> (fmt = 101 \/ fmt = 69) ->
  exists d0 tl,
    all_digits (d0 :: tl) = true /\ d0 <> 48 /\ last (d0 :: tl) 0 <> 48 /\
    MinPrec x = Some (zlen (d0 :: tl)) /\
    val (mant x) = digval (d0 :: tl) 0 * 10 ^ (mdigits (mant x) - zlen (d0 :: tl)) /\
    Text x fmt (-1) =
      Some (sign_bytes (neg x) ++ [d0] ++ e_frac tl ++ [fmt; e_sign (exp x - 1)] ++ exp_digits (exp x - 1)).
Proof. exact digits_e. Qed.
Print Assumptions C11_digits.

(* Round trip, formats 'e' and 'E': for every canonical finite x and every
   receiver z whose precision (34 if 0) is at least MinPrec x, under any
   rounding mode of z, Parse (Text x fmt (-1)) succeeds, consumes the whole
   string and yields a finite value with x's sign and exactly x's magnitude,
   accuracy Exact, z's precision and mode, canonical. *)
Theorem C11_roundtrip_e : forall x z fmt,
  WF x -> dform x = Ffinite -> (fmt = 101 \/ fmt = 69) ->
  mdigits (mant x) < 4294967296 - 36 -> 0 <= prec z <= MaxPrec ->
  let p := if prec z =? 0 then DefaultDecimalPrec else prec z in
  (forall mp, MinPrec x = Some mp -> mp <= p) ->
  exists t z', Text x fmt (-1) = Some t /\ Parse z t 10 = POk z' 10 [] /\
    dform z' = Ffinite /\ neg z' = neg x /\ (mag z' == mag x)%Q /\ acc z' = Exact /\
    prec z' = p /\ dmode z' = dmode z /\ WF z'.
Proof. exact roundtrip_e. Qed.
Print Assumptions C11_roundtrip_e.

(* The same for the 'p' format (112: "0." digits e exponent) ... *)
Theorem C11_roundtrip_p : forall x z,
  WF x -> dform x = Ffinite ->
  mdigits (mant x) < 4294967296 - 36 -> 0 <= prec z <= MaxPrec ->
  let p := if prec z =? 0 then DefaultDecimalPrec else prec z in
  (forall mp, MinPrec x = Some mp -> mp <= p) ->
  exists t z', Text x 112 (-1) = Some t /\ Parse z t 10 = POk z' 10 [] /\
    dform z' = Ffinite /\ neg z' = neg x /\ (mag z' == mag x)%Q /\ acc z' = Exact /\
    prec z' = p /\ dmode z' = dmode z /\ WF z'.
Proof. exact roundtrip_p. Qed.
Print Assumptions C11_roundtrip_p.

(* ... and for the 'b' format (98: the mantissa padded to prec x digits, then
   e exponent). *)
Theorem C11_roundtrip_b : forall x z,
  WF x -> dform x = Ffinite ->
  mdigits (mant x) < 4294967296 - 36 -> prec x < 4294967296 - 36 -> 0 <= prec z <= MaxPrec ->
  let p := if prec z =? 0 then DefaultDecimalPrec else prec z in
  (forall mp, MinPrec x = Some mp -> mp <= p) ->
  exists t z', Text x 98 (-1) = Some t /\ Parse z t 10 = POk z' 10 [] /\
    dform z' = Ffinite /\ neg z' = neg x /\ (mag z' == mag x)%Q /\ acc z' = Exact /\
    prec z' = p /\ dmode z' = dmode z /\ WF z'.
Proof. exact roundtrip_b. Qed.
Print Assumptions C11_roundtrip_b.

(* the significant digits behind all formats: for every canonical finite x
   there is a digit string D with MinPrec x = |D|, last digit non-zero,
   val (mant x) = D * 10^(19*len - |D|), and toa x = D followed by zeros *)
Theorem C11_sig_digits : forall x, WFfin x -> dform x = Ffinite -> exists D, SigDigits x D.
Proof. exact sig_digits. Qed.
Print Assumptions C11_sig_digits.

(* NOT CLOSED (kept with their full statements):

   C11_roundtrip : the same statement for fmt in {f, g, G}, for
   MarshalText (= 'g', -1) and the JSON form (MarshalText between quotes), and
   for x = +-0 and +-Inf (where "same value" is: same form and sign).
   Missing: the layout lemma for fmtF (integer/fraction split with zero
   filling) and the 'g' case split (exp-1 < -4 or >= 21 -> 'e' layout, else the
   'f' layout); the scanner side is ready (parse_efloat handles digits [. digits]
   exponent; a variant without exponent is needed for 'f').  The ingredients
   (sig_digits, mant_loop_digits, scanExponent_form, parse10_correct,
   result_spec_exact) are proved in L4/ToaProofs.v and L4/ScanProofs.v.  Zero and infinity are checked by the witness below.
   Covered by correspondence (families text-*, roundtrip-*, directed of
   harness/props/C11.py: the implementation's own round trip is judged on
   every generated value).

   C11_digits for f/g/G: same remark (for p and b the digit strings are in
   text_p / text_b of L4/ToaProofs.v). *)

(* non-vacuity and the special values *)
Example C11_witness :
  let x := mkDec [0; 1234500000000000000] 3 40 ToZero Below Ffinite true in      (* -123.45 *)
  let z := mkDec [] 0 5 ToPositiveInf Above Fzero false in
  let nz := mkDec [] 7 0 ToNearestEven Exact Fzero true in                        (* -0 *)
  let pinf := mkDec [] 0 0 ToNearestEven Exact Finf false in
  WF x /\ MinPrec x = Some 5 /\
  Text x 101 (-1) = Some [45; 49; 46; 50; 51; 52; 53; 101; 43; 48; 50] /\           (* "-1.2345e+02" *)
  Parse z [45; 49; 46; 50; 51; 52; 53; 101; 43; 48; 50] 10 =
    POk (mkDec [1234500000000000000] 3 5 ToPositiveInf Exact Ffinite true) 10 [] /\
  Text x 102 (-1) = Some [45; 49; 50; 51; 46; 52; 53] /\                            (* "-123.45" *)
  Text x 112 (-1) = Some [45; 48; 46; 49; 50; 51; 52; 53; 101; 43; 51] /\           (* "-0.12345e+3" *)
  Text nz 103 (-1) = Some [45; 48] /\                                                (* "-0" *)
  Parse z [45; 48] 10 = POk (mkDec [] 0 5 ToPositiveInf Exact Fzero true) 10 [] /\
  Text pinf 103 (-1) = Some [43; 73; 110; 102] /\                                    (* "+Inf" *)
  Parse z [43; 73; 110; 102] 10 = POk (mkDec [] 0 5 ToPositiveInf Exact Finf false) 0 [].
Proof. vm_compute. repeat split. Qed.
