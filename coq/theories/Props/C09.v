(* Props/C09.v — precision and mode are sticky; operands untouched (theorems to follow;
   the precision/mode conclusions of the C01/C04 theorems already cover Add Sub Mul Quo Set SetPrec Neg Abs). *)
From Coq Require Import ZArith.
From Dec Require Import L3.Decimal L3.Arith.
Open Scope Z_scope.
Example C09_examples :
  let z := mkDec [] 0 0 ToZero Exact Fzero false in
  let x := mkDec [1000000000000000000] 1 7 ToNearestEven Exact Ffinite false in
  let y := mkDec [2000000000000000000] 1 3 ToPositiveInf Exact Ffinite false in
  exists d, Add false false z x y = OkR d /\ prec d = 7 /\ dmode d = ToZero.
Proof. vm_compute. eexists. repeat split. Qed.
