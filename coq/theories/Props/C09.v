(* Props/C09.v — precision and rounding mode are sticky; operands are never
   modified.  Statements only. *)
From Coq Require Import ZArith List QArith.
From Dec Require Import Base.QPow L3.Decimal L3.Round L3.Arith L3.Store Spec.Rounding L3.ArithProofs L3.SpecialProofs L3.StoreProofs.
Open Scope Z_scope.

(* operands that are not the receiver keep value, sign, precision, mode and accuracy: in the
   model every operation writes exactly one variable (for ALL operations of the store) *)
Theorem C09_operands_untouched : forall s o i, receiver o <> Some i -> get (fst (step s o)) i = get s i.
Proof. exact operands_untouched. Qed.
Print Assumptions C09_operands_untouched.

(* the receiver's precision changes only from 0, to the largest operand precision, and its mode
   never changes: these are the `prec z' = eff_prec z x y /\ dmode z' = dmode z` conclusions of
   AddPost / OpPost / SpecialPost.  Restated for Add on arbitrary canonical operands: *)
Theorem C09_add_special_attrs : forall zx zy z x y,
  WF x -> WF y -> 0 <= prec z <= MaxPrec -> (zx = true -> z = x) -> (zy = true -> z = y) ->
  SpecialPost z (eff_prec z x y) (add_table (dmode z) x y) (Add zx zy z x y).
Proof. exact Add_special. Qed.
Print Assumptions C09_add_special_attrs.

Theorem C09_add_attrs : forall zx zy z x y,
  WF x -> WF y -> dform x = Ffinite -> dform y = Ffinite -> 0 <= prec z <= MaxPrec ->
  add_span x y + 40 < 4294967296 - 18 ->
  AddPost (eff_prec z x y) (dmode z) (sval x + sval y) (Add zx zy z x y).
Proof. exact Add_correct. Qed.
Print Assumptions C09_add_attrs.

Theorem C09_set_attrs : forall same z x,
  WF x -> dform x = Ffinite -> mdigits (mant x) < 4294967296 - 18 ->
  0 <= prec z <= MaxPrec -> (same = true -> z = x) ->
  let p := if prec z =? 0 then prec x else prec z in
  OpPost p (dmode z) (neg x) (mag x) (Set_ same z x).
Proof. exact Set_correct. Qed.
Print Assumptions C09_set_attrs.

(* C09 for the remaining operations (Sub Mul Quo FMA SetPrec Neg Abs setters SetMantExp SetBitsExp):
   the same conclusions are part of C01_*, C03_*, C04_*, C14_*, C20_*.  Sqrt and the float setters
   are decided by the correspondence run (documented-attribute table in harness/props/C09.py). *)

Example C09_examples :
  let z := mkDec [] 0 0 ToZero Exact Fzero false in
  let x := mkDec [1000000000000000000] 1 7 ToNearestEven Exact Ffinite false in
  let y := mkDec [2000000000000000000] 1 3 ToPositiveInf Exact Ffinite false in
  exists d, Add false false z x y = OkR d /\ prec d = 7 /\ dmode d = ToZero.
Proof. vm_compute. eexists. repeat split. Qed.
