(* Props/C06b.v — C06, the part Props/C06.v left open: divRecursive /
   divRecursiveStep (Burnikel-Ziegler) and therefore dec.div for every divisor
   length.  Statements only; every proof is `exact <lemma>` (proofs:
   L2/DivRecLemmas.v, L2/DivRecProofs.v).
   The model is Div.v after the fix of dec.go:905 (`s := B - 1` in the final
   step of divRecursiveStep); the code before the fix (L2/DivUnfixed.v) is
   refuted by the witness at the end. *)
From Coq Require Import ZArith List Bool Lia.
From Dec Require Import Base.Words L2.KernV L2.KernVProofs L2.Nat L2.Mul L2.Div
  L2.NatProofs L2.MulProofs L2.DivProofs L2.DivRecLemmas L2.DivRecProofs L2.DivUnfixed gen.Consts.
Import ListNotations.
Open Scope Z_scope.

(* the block quotient estimate: with u = Uh·P + Ul, v = Vh·P + Vl and
   q̂ = ⌊Uh/Vh⌋, q̂ is not below ⌊u/v⌋ ... *)
Theorem C06_block_estimate_upper : forall Uh Ul Vh Vl P q R,
  0 < P -> 0 <= Ul < P -> 0 <= Vl -> 0 <= q -> 0 <= R < Vh -> Uh = q * Vh + R ->
  Uh * P + Ul < (q + 1) * (Vh * P + Vl).
Proof. exact est_upper. Qed.
Print Assumptions C06_block_estimate_upper.

(* ... and at most 2 above it as soon as q̂ <= 2·Vh + 2 *)
Theorem C06_block_estimate_lower : forall Uh Ul Vh Vl P q R,
  0 < P -> 0 <= Ul -> 0 <= Vl < P -> 0 <= R -> 0 < Vh -> 0 <= q -> Uh = q * Vh + R -> q <= 2 * Vh + 2 ->
  (q - 2) * (Vh * P + Vl) <= Uh * P + Ul.
Proof. exact est_lower. Qed.
Print Assumptions C06_block_estimate_lower.

(* the correction `q̂--; q̂v -= v[:s]; uu[s:] += v[s:]` *)
Theorem C06_rec_adjust : forall qhat qhatv uu v s,
  words_ok qhat = true -> words_ok qhatv = true -> words_ok uu = true -> words_ok v = true ->
  (s <= length v)%nat -> (length v <= length uu)%nat ->
  1 <= val qhat -> val qhatv = val qhat * val (firstn s v) ->
  val uu + Bp s * val (skipn s v) < Bp (length uu) ->
  exists qhat' qhatv' uu', rec_adjust qhat qhatv uu v s = (qhat', qhatv', uu') /\
    length qhat' = length qhat /\ length qhatv' = length qhatv /\ length uu' = length uu /\
    words_ok qhat' = true /\ words_ok qhatv' = true /\ words_ok uu' = true /\
    val qhat' = val qhat - 1 /\ val qhatv' = val qhatv - val (firstn s v) /\
    val uu' = val uu + Bp s * val (skipn s v).
Proof. exact rec_adjust_spec. Qed.
Print Assumptions C06_rec_adjust.

(* uu -= q̂v never borrows out of uu when q̂v <= uu *)
Theorem C06_rec_subtract : forall uu qhatv,
  words_ok uu = true -> words_ok qhatv = true -> (length qhatv <= length uu)%nat ->
  val qhatv <= val uu ->
  exists uu', rec_subtract uu qhatv = (uu', 0) /\ length uu' = length uu /\ words_ok uu' = true /\
              val uu' = val uu - val qhatv.
Proof. exact rec_subtract_spec. Qed.
Print Assumptions C06_rec_subtract.

(* one block (or the final step): after the recursive call divided the window W
   of uu = lo ++ W ++ hi by v[s:], s = n/2 - 1, at most two corrections are
   needed: the third comparison is false (panic("impossible") unreachable) and
   the subtraction leaves q̂ = ⌊uu/v⌋ and uu mod v *)
Theorem C06_block_step : forall thrK junk v lo W hi qhat W',
  let n := length v in
  let Bk := (n / 2)%nat in
  let s := (Bk - 1)%nat in
  1 <= thrK -> (4 <= n)%nat -> words_ok v = true -> B <= 2 * nthw v (n - 1) ->
  words_ok lo = true -> words_ok W = true -> words_ok hi = true ->
  length lo = s -> val hi = 0 -> val W < Bp (S n) -> (n <= length (lo ++ W ++ hi))%nat ->
  words_ok qhat = true -> words_ok W' = true -> length W' = length W ->
  val W = val qhat * val (skipn s v) + val W' -> 0 <= val W' < val (skipn s v) ->
  exists qh qhv uu uu',
    adj1 v s (adj1 v s (norm qhat, mul thrK junk (norm qhat) (firstn s v), lo ++ W' ++ hi)) = (qh, qhv, uu) /\
    (0 <? nat_cmp qhv (norm uu)) = false /\
    rec_subtract uu qhv = (uu', 0) /\
    words_ok qh = true /\ length qh = length (norm qhat) /\ 0 <= val qh < 2 * Bp Bk /\
    words_ok uu' = true /\ length uu' = length (lo ++ W ++ hi) /\
    val (lo ++ W ++ hi) = val qh * val v + val uu' /\ 0 <= val uu' < val v.
Proof. exact step_core. Qed.
Print Assumptions C06_block_step.

(* divRecursiveStep at every depth: any fuel above len(v), any scratch table
   with len(v) - 2 <= 2^(len temps - depth), a zeroed quotient buffer that can
   hold the quotient, a divisor of >= 2 words with top word >= B/2, any u *)
Theorem C06_divRecursiveStep : forall thrD thrK junk, 4 <= thrD -> 1 <= thrK ->
  forall fuel depth temps z u v,
    (length v < fuel)%nat ->
    Z.of_nat (length v) - 2 <= 2 ^ (Z.of_nat (length temps) - Z.of_nat depth) ->
    (2 <= length v)%nat -> z = repeat 0 (length z) ->
    words_ok u = true -> words_ok v = true -> B <= 2 * nthw v (length v - 1) ->
    val u < val v * Bp (length z) ->
    exists q u' temps', divRecStep fuel thrD thrK junk depth temps z u v = Some (q, u', temps') /\
      length temps' = length temps /\ length q = length z /\ length u' = length u /\
      words_ok q = true /\ words_ok u' = true /\
      val u = val q * val v + val u' /\ 0 <= val u' < val v.
Proof. exact divRecStep_spec. Qed.
Print Assumptions C06_divRecursiveStep.

(* divRecursive (no fuel hypothesis: the S(len v) of the model and the
   2·bits.Len(len v) scratch slots of the code suffice): no panic, whatever q
   held before, u0 = q·v + r and 0 <= r < v *)
Theorem C06_divRecursive : forall thrD thrK junk q u v,
  4 <= thrD -> 1 <= thrK ->
  (2 <= length v)%nat -> words_ok u = true -> words_ok v = true ->
  B <= 2 * nthw v (length v - 1) -> val u < val v * Bp (length q) ->
  exists q' u', divRecursive thrD thrK junk q u v = Some (q', u') /\
    length q' = length q /\ length u' = length u /\ words_ok q' = true /\ words_ok u' = true /\
    val u = val q' * val v + val u' /\ 0 <= val u' < val v.
Proof. exact divRecursive_spec. Qed.
Print Assumptions C06_divRecursive.

(* the same under the hypotheses of C06_divBasic *)
Theorem C06_divRecursive' : forall thrD thrK junk q u v,
  let n := length v in
  let m := (length u - n)%nat in
  4 <= thrD -> 1 <= thrK ->
  (2 <= n)%nat -> (n <= length u)%nat -> words_ok u = true -> words_ok v = true ->
  B <= 2 * nthw v (n - 1) -> (m <= length q)%nat -> (length q = m -> val (skipn m u) < val v) ->
  exists q' u', divRecursive thrD thrK junk q u v = Some (q', u') /\
    length q' = length q /\ length u' = length u /\ words_ok q' = true /\ words_ok u' = true /\
    val u = val q' * val v + val u' /\ 0 <= val u' < val v.
Proof. exact divRecursive_spec'. Qed.
Print Assumptions C06_divRecursive'.

(* divLarge for every divisor length *)
Theorem C06_divLarge_full : forall thrD thrK junk uIn vIn,
  4 <= thrD -> 1 <= thrK ->
  words_ok uIn = true -> words_ok vIn = true -> norm vIn = vIn ->
  (2 <= length vIn)%nat -> (length vIn <= length uIn)%nat ->
  divLarge thrD thrK junk uIn vIn = Some (dec_quo uIn vIn, dec_rem uIn vIn).
Proof. exact divLarge_spec. Qed.
Print Assumptions C06_divLarge_full.

(* dec.div: the statement Props/C06.v left open *)
Theorem C06_div : forall thrD thrK junk u v, 4 <= thrD -> 1 <= thrK ->
  words_ok u = true -> words_ok v = true -> norm u = u -> norm v = v ->
  div thrD thrK junk u v = if (length v =? 0)%nat then None else Some (dec_quo u v, dec_rem u v).
Proof. exact div_spec. Qed.
Print Assumptions C06_div.

(* with the divRecursiveThreshold extracted from the Go source *)
Theorem C06_div_shipped : forall thrK junk u v, 1 <= thrK ->
  words_ok u = true -> words_ok v = true -> norm u = u -> norm v = v ->
  div c_divRecursiveThreshold thrK junk u v =
    if (length v =? 0)%nat then None else Some (dec_quo u v, dec_rem u v).
Proof. exact div_shipped_spec. Qed.
Print Assumptions C06_div_shipped.

Theorem C06_div_tuning_full : forall d1 k1 j1 d2 k2 j2 u v,
  4 <= d1 -> 1 <= k1 -> 4 <= d2 -> 1 <= k2 ->
  words_ok u = true -> words_ok v = true -> norm u = u -> norm v = v ->
  div d1 k1 j1 u v = div d2 k2 j2 u v.
Proof. exact div_threshold_independent_full. Qed.
Print Assumptions C06_div_tuning_full.

(* ---- non-vacuity ------------------------------------------------------------ *)

(* a 13-word divisor and a 50-word dividend with threshold 4: divRecursiveStep
   recurses (13 -> 8 -> 5 -> divBasic) and runs several blocks per level *)
Example C06_divRecursive_witness :
  let v := [B - 1; 0; B - 1; 5; B / 2; 7; B - 1; 1; 2; 3; B - 5; 77; B / 3] in
  let u := v ++ [1; 2; 3; B - 1; B - 1; 0; 0; 5] ++ v ++ v ++ [B - 1; B - 1; 9] in
  div 4 2 12345 u v = Some (dec_quo u v, dec_rem u v) /\
  div 4 2 12345 u v = div 1000 50 0 u v /\
  length (dec_quo u v) = 37%nat /\ length (dec_rem u v) = 13%nat.
Proof. vm_compute. repeat split; reflexivity. Qed.

(* the divisor and dividend on which the code before the fix panicked *)
Example C06_divRecursive_fixed_witness :
  let v := [B - 1; B - 1; 0; B / 2] in
  let u := [B - 1; B - 1; B - 1; B - 1; B - 1; B - 1] in
  divRecursive 4 2 0 (repeat 7 3) u v =
    Some ([9999999999999999996; 9999999999999999999; 1], [9999999999999999995; 9999999999999999999; 5; 0; 0; 0]) /\
  div 4 2 0 u v = Some ([9999999999999999996; 9999999999999999999; 1], [9999999999999999995; 9999999999999999999; 5]) /\
  div 4 2 0 u v = div 100 2 0 u v.
Proof. vm_compute. repeat split; reflexivity. Qed.

(* REFUTED for the code before the fix (final step with s := B, dec.go:905 as
   ported from math/big 1.14.0): when no block ran (len u - len v = n/2, n even)
   the estimate q̂ = ⌊u[B:]/v[B:]⌋ is 3 too large here (2B²-1 against 2B²-4),
   two corrections do not suffice and the step panics "impossible".  The same
   shape with n = 100 (50 words B-1, 49 words 0, top word B/2; u = 150 words
   B-1) panicked in the Go code at the shipped threshold 100. *)
Example C06_divRecursive_unfixed_refuted :
  let v := [B - 1; B - 1; 0; B / 2] in
  let u := [B - 1; B - 1; B - 1; B - 1; B - 1; B - 1] in
  divRecursive_unfixed 4 2 0 (repeat 7 3) u v = None /\
  (2 <= length v)%nat /\ words_ok u = true /\ words_ok v = true /\
  B <= 2 * nthw v (length v - 1) /\ val u < val v * Bp 3.
Proof.
  cbv zeta. repeat split; try (vm_compute; reflexivity); try (vm_compute; discriminate).
  cbn [length]. lia.
Qed.

(* 4 <= thrD cannot be weakened: a 3-word divisor re-enters divRecursiveStep
   with the same 3 words (s = n/2 - 1 = 0) until the scratch table is exhausted;
   a threshold below 3 hands divBasic a 1-word divisor *)
Example C06_div_thrD_minimal :
  let v := [5; 7; B / 2] in
  let u := [1; 2; 3; 4; 5] in
  div 3 2 0 u v = None /\ div 2 2 0 u v = None /\ div 1 2 0 u v = None /\
  div 4 2 0 u v = Some (dec_quo u v, dec_rem u v).
Proof. vm_compute. repeat split; reflexivity. Qed.
