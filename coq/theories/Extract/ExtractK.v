(* Extract/ExtractK.v — extraction of the kernel-level evaluator of C07
   (specification, Go model and x86 interpreter on the generated programs) to
   OCaml.  Same directives as Extract/Extract.v; trusted for the correspondence
   run only and cross-checked by the vm_compute sample. *)
From Coq Require Extraction.
From Coq Require Import ExtrOcamlBasic ExtrOcamlZBigInt.
From Dec Require Import L1.KernEval.

Extract Constant Z.log2 =>
  "(fun x -> if Big_int_Z.sign_big_int x <= 0 then Big_int_Z.zero_big_int else Big_int_Z.big_int_of_int (Stdlib.pred (Z.numbits x)))".
Extract Constant Z.pow =>
  "(fun x y -> if Big_int_Z.sign_big_int y < 0 then Big_int_Z.zero_big_int else Big_int_Z.power_big_int_positive_big_int x y)".

Extraction Blacklist List String Int Z Big.
Extraction "kmodel.ml" eval3.
