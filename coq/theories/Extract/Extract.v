(* Extract/Extract.v — extraction of the executable model to OCaml.
   Directives used: ExtrOcamlBasic (bool, option, unit, list, prod, sumbool,
   sumor -> OCaml natives) and ExtrOcamlZBigInt (positive, Z, N -> zarith
   big integers).  They are part of the trusted base of the correspondence
   check only (never of a theorem) and are cross-checked on every run against
   vm_compute evaluation of the same model inside Coq. *)
From Coq Require Extraction.
From Coq Require Import ExtrOcamlBasic ExtrOcamlZBigInt.
From Dec Require Import L3.Store L5.Context.

(* Two further constants, for speed on operands of thousands of words (Coq's
   Z.log2 and Z.pow recurse on the binary representation): *)
Extract Constant Z.log2 =>
  "(fun x -> if Big_int_Z.sign_big_int x <= 0 then Big_int_Z.zero_big_int else Big_int_Z.big_int_of_int (Stdlib.pred (Z.numbits x)))".
Extract Constant Z.pow =>
  "(fun x y -> if Big_int_Z.sign_big_int y < 0 then Big_int_Z.zero_big_int else Big_int_Z.power_big_int_positive_big_int x y)".

Extraction Blacklist List String Int Z Big.
Extraction "model.ml" run step get set wf_b strip_low crun cstep ctx_new.
