(* Extract/Extract.v — extraction of the executable model to OCaml.
   Directives used: ExtrOcamlBasic (bool, option, unit, list, prod, sumbool,
   sumor -> OCaml natives) and ExtrOcamlZBigInt (positive, Z, N -> zarith
   big integers).  They are part of the trusted base of the correspondence
   check only (never of a theorem) and are cross-checked on every run against
   vm_compute evaluation of the same model inside Coq. *)
From Coq Require Extraction.
From Coq Require Import ExtrOcamlBasic ExtrOcamlZBigInt.
From Dec Require Import L3.Store.

Extraction Blacklist List String Int Z Big.
Extraction "model.ml" run step get set wf_b strip_low.
