(* Extract/ExtractN.v — extraction of the L2 (natural-number) interpreter for
   the C06 correspondence check: `nrun` evaluates the algorithmic models of
   L2/*.v (with the thresholds of the case) and the value-level routines of
   Base/Words.v they are proved equal to.  Same directives and caveats as
   Extract.v. *)
From Coq Require Extraction.
From Coq Require Import ExtrOcamlBasic ExtrOcamlZBigInt.
From Dec Require Import L2.NRun.

Extract Constant Z.log2 =>
  "(fun x -> if Big_int_Z.sign_big_int x <= 0 then Big_int_Z.zero_big_int else Big_int_Z.big_int_of_int (Stdlib.pred (Z.numbits x)))".
Extract Constant Z.pow =>
  "(fun x y -> if Big_int_Z.sign_big_int y < 0 then Big_int_Z.zero_big_int else Big_int_Z.power_big_int_positive_big_int x y)".

Extraction Blacklist List String Int Z Big Nat.
Extraction "nmodel.ml" nrun.
