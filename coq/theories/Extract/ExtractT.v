(* Extract/ExtractT.v — extraction of the text-codec interpreter (L4/TRun.v)
   for the C11/C12/C13 correspondence checks.  Same directives and caveats as
   Extract.v. *)
From Coq Require Extraction.
From Coq Require Import ExtrOcamlBasic ExtrOcamlZBigInt.
From Dec Require Import L4.TRun.

Extract Constant Z.log2 =>
  "(fun x -> if Big_int_Z.sign_big_int x <= 0 then Big_int_Z.zero_big_int else Big_int_Z.big_int_of_int (Stdlib.pred (Z.numbits x)))".
Extract Constant Z.pow =>
  "(fun x y -> if Big_int_Z.sign_big_int y < 0 then Big_int_Z.zero_big_int else Big_int_Z.power_big_int_positive_big_int x y)".

Extraction Blacklist List String Int Z Big Nat.
Extraction "tmodel.ml" trun tstep.
