(* Extract/ExtractF.v — extraction of the Sqrt / binary floating-point
   interpreter (L3/FRun.v) for the C05/C15 correspondence checks.  Same
   directives and caveats as Extract.v. *)
From Coq Require Extraction.
From Coq Require Import ExtrOcamlBasic ExtrOcamlZBigInt.
From Dec Require Import L3.FRun.

Extract Constant Z.log2 =>
  "(fun x -> if Big_int_Z.sign_big_int x <= 0 then Big_int_Z.zero_big_int else Big_int_Z.big_int_of_int (Stdlib.pred (Z.numbits x)))".
Extract Constant Z.pow =>
  "(fun x y -> if Big_int_Z.sign_big_int y < 0 then Big_int_Z.zero_big_int else Big_int_Z.power_big_int_positive_big_int x y)".
Extract Constant Z.sqrt =>
  "(fun x -> if Big_int_Z.sign_big_int x <= 0 then Big_int_Z.zero_big_int else Big_int_Z.sqrt_big_int x)".

Extraction Blacklist List String Int Z Big Nat.
Extraction "fmodel.ml" frun fstep.
