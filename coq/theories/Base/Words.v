(* Base/Words.v — word lists (little-endian, base 10^19) and their values.
   Definitions only; proofs are in WordsProofs.v. *)
From Coq Require Export ZArith List Bool Lia.
Export ListNotations.
Open Scope Z_scope.

(* Word base on a 64-bit build: _DB = 10^19, _DW = 19. The literal is checked
   against the generated constant in gen/ConstsCheck.v. *)
Definition DW : Z := 19.
Definition B : Z := 10000000000000000000.

(* value of a little-endian word list *)
Fixpoint val (l : list Z) : Z :=
  match l with
  | [] => 0
  | w :: r => w + B * val r
  end.

Definition zlen {A} (l : list A) : Z := Z.of_nat (length l).

(* all words are decimal words *)
Definition word_ok (w : Z) : bool := (0 <=? w) && (w <? B).
Definition words_ok (l : list Z) : bool := forallb word_ok l.

(* dec.norm: strip high (most significant, i.e. last) zero words *)
Fixpoint norm (l : list Z) : list Z :=
  match l with
  | [] => []
  | w :: r =>
      match norm r with
      | [] => if w =? 0 then [] else [w]
      | r' => w :: r'
      end
  end.

(* strip low (least significant, i.e. first) zero words: used only to
   canonicalise observations *)
Fixpoint strip_low (l : list Z) : list Z :=
  match l with
  | 0 :: r => strip_low r
  | _ => l
  end.

(* exactly k words of n (n mod B^k) *)
Fixpoint to_words (k : nat) (n : Z) : list Z :=
  match k with
  | O => []
  | S k' => (n mod B) :: to_words k' (n / B)
  end.

(* number of words needed for n >= 0 : every word holds more than 63 bits *)
Definition words_fuel (n : Z) : nat := S (Z.to_nat (Z.log2 n / 63)).

(* canonical (normalised) word list of n >= 0 *)
Definition of_Z (n : Z) : list Z :=
  if n <=? 0 then [] else norm (to_words (words_fuel n) n).

(* decimal digit count: ndig n = d with 10^(d-1) <= n < 10^d; 0 for n <= 0 *)
Fixpoint ndig_fuel (f : nat) (n : Z) (acc : Z) : Z :=
  match f with
  | O => acc
  | S f' => if n <=? 0 then acc else ndig_fuel f' (n / 10) (acc + 1)
  end.
Definition ndig (n : Z) : Z :=
  if n <=? 0 then 0 else ndig_fuel (S (Z.to_nat (Z.log2 n))) n 0.

(* number of trailing zero decimal digits of n > 0 *)
Fixpoint ntz_fuel (f : nat) (n : Z) (acc : Z) : Z :=
  match f with
  | O => acc
  | S f' => if n mod 10 =? 0 then ntz_fuel f' (n / 10) (acc + 1) else acc
  end.
Definition ntz10 (n : Z) : Z :=
  if n <=? 0 then 0 else ntz_fuel (S (Z.to_nat (Z.log2 n))) n 0.

Definition last_word (l : list Z) : Z := last l 0.

(* nlz10 of the most significant word: _DW - decDigits(w) *)
Definition nlz10 (w : Z) : Z := DW - ndig w.

(* value-level natural-number routines of dec.go (see L2 for the algorithmic
   models and the equivalence theorems) *)
Definition dec_add (x y : list Z) : list Z := of_Z (val x + val y).
Definition dec_sub (x y : list Z) : list Z := of_Z (val x - val y).
Definition dec_mul (x y : list Z) : list Z := of_Z (val x * val y).
Definition dec_shl (x : list Z) (s : Z) : list Z := of_Z (val x * 10 ^ s).
Definition dec_shr (x : list Z) (s : Z) : list Z := of_Z (val x / 10 ^ s).
Definition dec_quo (u v : list Z) : list Z := of_Z (val u / val v).
Definition dec_rem (u v : list Z) : list Z := of_Z (val u mod val v).

(* dec.digit(i): i-th decimal digit (0 = least significant) *)
Definition dec_digit (x : list Z) (i : Z) : Z := (val x / 10 ^ i) mod 10.
(* dec.sticky(i): 1 iff some digit below position i is non-zero *)
Definition dec_sticky (x : list Z) (i : Z) : Z :=
  if val x mod 10 ^ i =? 0 then 0 else 1.
