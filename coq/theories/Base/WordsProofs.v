(* Base/WordsProofs.v — facts about val, norm, to_words, of_Z, ndig. *)
From Coq Require Import ZArith List Bool Lia Znumtheory.
From Dec Require Import Base.Words.
Open Scope Z_scope.

Lemma B_eq : B = 10 ^ 19. Proof. reflexivity. Qed.
Lemma B_pos : 0 < B. Proof. reflexivity. Qed.
Lemma B_gt1 : 1 < B. Proof. reflexivity. Qed.
Lemma DW_eq : DW = 19. Proof. reflexivity. Qed.

Global Opaque B.

Lemma Bpow_pos n : 0 < B ^ Z.of_nat n.
Proof. apply Z.pow_pos_nonneg; [apply B_pos | lia]. Qed.

Lemma zlen_nonneg {A} (l : list A) : 0 <= zlen l.
Proof. unfold zlen; lia. Qed.
Lemma zlen_cons {A} (a : A) l : zlen (a :: l) = zlen l + 1.
Proof. unfold zlen; cbn [length]; lia. Qed.
Lemma zlen_nil {A} : zlen (@nil A) = 0. Proof. reflexivity. Qed.
Lemma zlen_app {A} (l r : list A) : zlen (l ++ r) = zlen l + zlen r.
Proof. unfold zlen; rewrite app_length; lia. Qed.
Lemma zlen_rev {A} (l : list A) : zlen (rev l) = zlen l.
Proof. unfold zlen; now rewrite rev_length. Qed.

Lemma word_ok_iff w : word_ok w = true <-> 0 <= w < B.
Proof. unfold word_ok; rewrite andb_true_iff, Z.leb_le, Z.ltb_lt; tauto. Qed.

Lemma words_ok_cons w l : words_ok (w :: l) = true <-> (0 <= w < B) /\ words_ok l = true.
Proof. unfold words_ok; cbn [forallb]; rewrite andb_true_iff, word_ok_iff; tauto. Qed.

Lemma words_ok_app l r : words_ok (l ++ r) = true <-> words_ok l = true /\ words_ok r = true.
Proof. unfold words_ok; rewrite forallb_app, andb_true_iff; tauto. Qed.

Lemma words_ok_rev l : words_ok (rev l) = true <-> words_ok l = true.
Proof.
  unfold words_ok; rewrite !forallb_forall; split; intros H x Hx; apply H.
  - rewrite <- in_rev. exact Hx.
  - rewrite in_rev. exact Hx.
Qed.

Lemma val_app l r : val (l ++ r) = val l + B ^ zlen l * val r.
Proof.
  induction l as [|w l IH]; cbn [app val].
  - change (zlen (@nil Z)) with 0. rewrite Z.pow_0_r. lia.
  - rewrite IH, zlen_cons, Z.pow_add_r by (pose proof (zlen_nonneg l); lia).
    rewrite Z.pow_1_r; ring.
Qed.

Lemma val_bounds l : words_ok l = true -> 0 <= val l < B ^ zlen l.
Proof.
  induction l as [|w l IH]; intros H.
  - cbn; lia.
  - apply words_ok_cons in H as [Hw Hl]. specialize (IH Hl). cbn [val].
    rewrite zlen_cons, Z.pow_add_r, Z.pow_1_r by (pose proof (zlen_nonneg l); lia).
    pose proof B_pos. nia.
Qed.

Lemma val_nonneg l : words_ok l = true -> 0 <= val l.
Proof. intros H; apply (val_bounds l H). Qed.

(* ---- norm ---- *)
Lemma val_norm l : val (norm l) = val l.
Proof.
  induction l as [|w l IH]; cbn [norm val]; [reflexivity|].
  destruct (norm l) eqn:E.
  - cbn [val] in IH. destruct (Z.eqb_spec w 0); cbn [val]; lia.
  - cbn [val] in *. lia.
Qed.

Lemma words_ok_norm l : words_ok l = true -> words_ok (norm l) = true.
Proof.
  induction l as [|w l IH]; cbn [norm]; intros H; [reflexivity|].
  apply words_ok_cons in H as [Hw Hl]. specialize (IH Hl).
  destruct (norm l) eqn:E.
  - destruct (w =? 0); [reflexivity|]. apply words_ok_cons; split; [lia|reflexivity].
  - apply words_ok_cons; split; [lia|exact IH].
Qed.

Lemma norm_last_nz l : norm l <> [] -> last (norm l) 0 <> 0.
Proof.
  induction l as [|w l IH]; cbn [norm]; [congruence|].
  destruct (norm l) eqn:E.
  - destruct (Z.eqb_spec w 0); [congruence|]. intros _. cbn. exact n.
  - intros _. assert (z :: l0 <> []) by congruence. specialize (IH H).
    cbn [last]. cbn [last] in IH. exact IH.
Qed.

Lemma norm_nil_iff l : words_ok l = true -> (norm l = [] <-> val l = 0).
Proof.
  intros Hok. split.
  - intros H. rewrite <- val_norm, H. reflexivity.
  - induction l as [|w l IH]; cbn [norm val]; intros H; [reflexivity|].
    apply words_ok_cons in Hok as [Hw Hl].
    pose proof (val_nonneg l Hl). pose proof B_pos.
    assert (w = 0 /\ val l = 0) as [-> Hv] by nia.
    rewrite (IH Hl Hv). reflexivity.
Qed.

Lemma norm_idem l : norm (norm l) = norm l.
Proof.
  induction l as [|w l IH]; cbn [norm]; [reflexivity|].
  destruct (norm l) eqn:E.
  - destruct (Z.eqb_spec w 0); cbn [norm]; [reflexivity|].
    destruct (Z.eqb_spec w 0); congruence.
  - cbn [norm]. cbn [norm] in IH. rewrite IH. reflexivity.
Qed.

Lemma zlen_norm_le l : zlen (norm l) <= zlen l.
Proof.
  induction l as [|w l IH]; cbn [norm]; [lia|].
  destruct (norm l) eqn:E.
  - destruct (w =? 0); rewrite ?zlen_cons, ?zlen_nil in *; pose proof (zlen_nonneg l); lia.
  - rewrite !zlen_cons in *. lia.
Qed.

(* a non-empty list whose last word is non-zero is its own normal form *)
Lemma norm_id l : last l 0 <> 0 -> norm l = l.
Proof.
  induction l as [|w l IH]; [reflexivity|].
  destruct l as [|w' l'].
  - cbn. intros H. destruct (Z.eqb_spec w 0); congruence.
  - intros H. change (last (w :: w' :: l') 0) with (last (w' :: l') 0) in H.
    specialize (IH H). cbn [norm] in *. rewrite IH. reflexivity.
Qed.

Lemma last_app_one {A} (l : list A) a d : last (l ++ [a]) d = a.
Proof. apply last_last. Qed.

(* lower bound from the top word *)
Lemma val_ge_last l : words_ok l = true -> l <> [] ->
  last l 0 * B ^ (zlen l - 1) <= val l < (last l 0 + 1) * B ^ (zlen l - 1).
Proof.
  induction l as [|w l IH]; [congruence|]. intros Hok _.
  apply words_ok_cons in Hok as [Hw Hl].
  destruct l as [|w' l'].
  - change (zlen [w] - 1) with 0. cbn [last val]. rewrite Z.pow_0_r. lia.
  - assert (Hne : w' :: l' <> []) by congruence. specialize (IH Hl Hne).
    change (last (w :: w' :: l') 0) with (last (w' :: l') 0).
    set (t := last (w' :: l') 0) in *.
    rewrite zlen_cons. replace (zlen (w' :: l') + 1 - 1) with (zlen (w' :: l') - 1 + 1) by lia.
    assert (0 <= zlen (w' :: l') - 1) by (rewrite zlen_cons; pose proof (zlen_nonneg l'); lia).
    rewrite Z.pow_add_r, Z.pow_1_r by lia.
    change (val (w :: w' :: l')) with (w + B * val (w' :: l')).
    set (P := B ^ (zlen (w' :: l') - 1)) in *. pose proof B_pos. nia.
Qed.

(* ---- to_words ---- *)
Lemma zlen_to_words k n : zlen (to_words k n) = Z.of_nat k.
Proof. revert n; induction k as [|k IH]; intros n; cbn [to_words]; [reflexivity|]. rewrite zlen_cons, IH. lia. Qed.

Lemma length_to_words k n : length (to_words k n) = k.
Proof. revert n; induction k as [|k IH]; intros n; cbn [to_words length]; [reflexivity|]. now rewrite IH. Qed.

Lemma words_ok_to_words k n : words_ok (to_words k n) = true.
Proof.
  revert n; induction k as [|k IH]; intros n; cbn [to_words]; [reflexivity|].
  apply words_ok_cons; split; [apply Z.mod_pos_bound, B_pos | apply IH].
Qed.

Lemma val_to_words k n : val (to_words k n) = n mod B ^ Z.of_nat k.
Proof.
  revert n; induction k as [|k IH]; intros n; cbn [to_words val].
  - cbn. now rewrite Z.mod_1_r.
  - rewrite IH. rewrite Nat2Z.inj_succ, Z.pow_succ_r by lia.
    pose proof B_pos. pose proof (Bpow_pos k).
    rewrite Z.rem_mul_r by lia. lia.
Qed.

Lemma val_to_words_small k n : 0 <= n < B ^ Z.of_nat k -> val (to_words k n) = n.
Proof. intros H. rewrite val_to_words. apply Z.mod_small; exact H. Qed.

(* ---- of_Z ---- *)
Lemma B_gt_2_63 : 2 ^ 63 < B. Proof. rewrite B_eq. reflexivity. Qed.

Lemma words_fuel_enough n : 0 < n -> n < B ^ Z.of_nat (words_fuel n).
Proof.
  intros Hn. unfold words_fuel.
  set (k := Z.log2 n / 63).
  assert (Hk : 0 <= k) by (apply Z.div_pos; [apply Z.log2_nonneg | lia]).
  rewrite Nat2Z.inj_succ, Z2Nat.id by lia.
  pose proof (Z.log2_spec n Hn) as [_ Hlt].
  assert (Z.succ (Z.log2 n) <= 63 * Z.succ k).
  { unfold k. pose proof (Z.mod_pos_bound (Z.log2 n) 63 ltac:(lia)).
    pose proof (Z.div_mod (Z.log2 n) 63 ltac:(lia)). lia. }
  eapply Z.lt_le_trans; [exact Hlt|].
  etransitivity; [apply Z.pow_le_mono_r; [lia| exact H]|].
  rewrite Z.pow_mul_r by lia.
  apply Z.pow_le_mono_l. pose proof B_gt_2_63. lia.
Qed.

Lemma val_of_Z n : 0 <= n -> val (of_Z n) = n.
Proof.
  intros Hn. unfold of_Z. destruct (Z.leb_spec n 0); [cbn; lia|].
  rewrite val_norm. apply val_to_words_small. split; [lia|]. apply words_fuel_enough; lia.
Qed.

Lemma words_ok_of_Z n : words_ok (of_Z n) = true.
Proof. unfold of_Z. destruct (n <=? 0); [reflexivity|]. apply words_ok_norm, words_ok_to_words. Qed.

Lemma of_Z_nil_iff n : 0 <= n -> (of_Z n = [] <-> n = 0).
Proof.
  intros Hn. unfold of_Z. destruct (Z.leb_spec n 0); [split; [lia|reflexivity]|].
  rewrite norm_nil_iff by apply words_ok_to_words.
  rewrite val_to_words_small by (split; [lia| apply words_fuel_enough; lia]). lia.
Qed.

Lemma of_Z_last_nz n : 0 < n -> last (of_Z n) 0 <> 0.
Proof.
  intros Hn. unfold of_Z. destruct (Z.leb_spec n 0); [lia|].
  apply norm_last_nz. intros E.
  apply norm_nil_iff in E; [|apply words_ok_to_words].
  rewrite val_to_words_small in E by (split; [lia| apply words_fuel_enough; lia]). lia.
Qed.

Lemma of_Z_norm n : norm (of_Z n) = of_Z n.
Proof. unfold of_Z. destruct (n <=? 0); [reflexivity|apply norm_idem]. Qed.

(* two normalised word lists with the same value are equal *)
Lemma norm_val_inj l r : words_ok l = true -> words_ok r = true ->
  norm l = l -> norm r = r -> val l = val r -> l = r.
Proof.
  revert r; induction l as [|w l IH]; intros r Hl Hr Nl Nr Hv.
  - cbn in Hv. symmetry in Hv. rewrite <- Nr. symmetry. now apply norm_nil_iff.
  - destruct r as [|w' r].
    + change (val []) with 0 in Hv. rewrite <- Nl. now apply norm_nil_iff.
    + apply words_ok_cons in Hl as [Hw Hl]. apply words_ok_cons in Hr as [Hw' Hr].
      cbn [val] in Hv. pose proof B_pos.
      assert (w = w' /\ val l = val r) as [-> Hv'].
      { assert (w mod B = w' mod B).
        { replace w with (w + B * val l - val l * B) by ring. rewrite Hv.
          replace (w' + B * val r - val l * B) with (w' + (val r - val l) * B) by ring.
          now rewrite Z.mod_add by lia. }
        rewrite !Z.mod_small in H0 by lia. split; [exact H0|nia]. }
      f_equal. apply IH; try assumption.
      * cbn [norm] in Nl. destruct (norm l) eqn:E.
        -- destruct (w' =? 0); [discriminate|]. injection Nl as <-. reflexivity.
        -- injection Nl as <-. reflexivity.
      * cbn [norm] in Nr. destruct (norm r) eqn:E.
        -- destruct (w' =? 0); [discriminate|]. injection Nr as <-. reflexivity.
        -- injection Nr as <-. reflexivity.
Qed.

Lemma of_Z_val l : words_ok l = true -> of_Z (val l) = norm l.
Proof.
  intros H. apply norm_val_inj.
  - apply words_ok_of_Z.
  - now apply words_ok_norm.
  - apply of_Z_norm.
  - apply norm_idem.
  - rewrite val_of_Z by now apply val_nonneg. now rewrite val_norm.
Qed.

(* ---- ndig ---- *)
Lemma ndig_fuel_spec f n a : 0 < n -> n < 2 ^ Z.of_nat f ->
  let d := ndig_fuel f n a - a in 0 < d /\ 10 ^ (d - 1) <= n < 10 ^ d.
Proof.
  revert n a; induction f as [|f IH]; intros n a Hn Hlt.
  - cbn in Hlt. lia.
  - cbn [ndig_fuel]. destruct (Z.leb_spec n 0); [lia|].
    destruct (Z.ltb_spec n 10).
    + (* n / 10 = 0 *)
      assert (n / 10 = 0) as -> by (apply Z.div_small; lia).
      destruct f; cbn [ndig_fuel]; cbn zeta.
      * replace (a + 1 - a) with 1 by lia. cbn. lia.
      * cbn. replace (a + 1 - a) with 1 by lia. cbn. lia.
    + assert (H10 : 0 < n / 10) by (apply Z.div_str_pos; lia).
      assert (Hlt' : n / 10 < 2 ^ Z.of_nat f).
      { rewrite Nat2Z.inj_succ, Z.pow_succ_r in Hlt by lia.
        apply Z.div_lt_upper_bound; [lia|].
        assert (0 < 2 ^ Z.of_nat f) by (apply Z.pow_pos_nonneg; lia). lia. }
      specialize (IH (n / 10) (a + 1) H10 Hlt'). cbn zeta in *.
      destruct IH as [Hd [Hlo Hhi]].
      set (d := ndig_fuel f (n / 10) (a + 1) - (a + 1)) in *.
      replace (ndig_fuel f (n / 10) (a + 1) - a) with (d + 1) by (unfold d; lia).
      split; [lia|]. replace (d + 1 - 1) with (d - 1 + 1) by lia.
      rewrite !Z.pow_add_r, !Z.pow_1_r by lia.
      pose proof (Z.div_mod n 10 ltac:(lia)). pose proof (Z.mod_pos_bound n 10 ltac:(lia)).
      lia.
Qed.

Lemma ndig_spec n : 0 < n -> 0 < ndig n /\ 10 ^ (ndig n - 1) <= n < 10 ^ ndig n.
Proof.
  intros Hn. unfold ndig. destruct (Z.leb_spec n 0); [lia|].
  pose proof (ndig_fuel_spec (S (Z.to_nat (Z.log2 n))) n 0 Hn) as Hs.
  cbn zeta in Hs. rewrite Z.sub_0_r in Hs. apply Hs.
  rewrite Nat2Z.inj_succ, Z2Nat.id by apply Z.log2_nonneg.
  apply Z.log2_spec; lia.
Qed.

Lemma ndig_nonpos n : n <= 0 -> ndig n = 0.
Proof. intros H. unfold ndig. destruct (Z.leb_spec n 0); [reflexivity|lia]. Qed.

Lemma pow10_pos k : 0 <= k -> 0 < 10 ^ k.
Proof. intros; apply Z.pow_pos_nonneg; lia. Qed.

(* ndig is characterised by its bounds *)
Lemma ndig_unique n d : 0 < d -> 10 ^ (d - 1) <= n < 10 ^ d -> ndig n = d.
Proof.
  intros Hd [Hlo Hhi].
  assert (Hn : 0 < n) by (pose proof (pow10_pos (d - 1) ltac:(lia)); lia).
  destruct (ndig_spec n Hn) as [Hp [Hl Hh]].
  destruct (Z.lt_trichotomy (ndig n) d) as [Hc|[Hc|Hc]]; [|exact Hc|].
  - assert (10 ^ ndig n <= 10 ^ (d - 1)) by (apply Z.pow_le_mono_r; lia). lia.
  - assert (10 ^ d <= 10 ^ (ndig n - 1)) by (apply Z.pow_le_mono_r; lia). lia.
Qed.

Lemma ndig_word_le w : 0 <= w < B -> 0 <= ndig w <= 19.
Proof.
  intros [H0 H1]. destruct (Z.eq_dec w 0) as [->|Hn]; [cbn; lia|].
  destruct (ndig_spec w ltac:(lia)) as [Hp [Hl Hh]]. split; [lia|].
  destruct (Z.le_gt_cases (ndig w) 19); [assumption|].
  assert (10 ^ 19 <= 10 ^ (ndig w - 1)) by (apply Z.pow_le_mono_r; lia).
  rewrite B_eq in H1. lia.
Qed.

(* ---- skipn (cutting low words) ---- *)
Lemma val_skipn j l : words_ok l = true ->
  val (skipn j l) = val l / B ^ Z.of_nat j.
Proof.
  revert l; induction j as [|j IH]; intros l Hok.
  - cbn [skipn]. change (Z.of_nat 0) with 0. rewrite Z.pow_0_r, Z.div_1_r. reflexivity.
  - destruct l as [|w l].
    + cbn [skipn val]. now rewrite Z.div_0_l by (pose proof (Bpow_pos (S j)); lia).
    + apply words_ok_cons in Hok as [Hw Hl]. cbn [skipn]. rewrite IH by assumption.
      rewrite Nat2Z.inj_succ, Z.pow_succ_r by lia. cbn [val].
      pose proof B_pos. pose proof (Bpow_pos j).
      rewrite <- Z.div_div by lia.
      replace (w + B * val l) with (val l * B + w) by ring.
      rewrite Z.div_add_l by lia. rewrite (Z.div_small w B) by lia. now rewrite Z.add_0_r.
Qed.

Lemma words_ok_skipn j l : words_ok l = true -> words_ok (skipn j l) = true.
Proof.
  revert l; induction j as [|j IH]; intros l H; [exact H|].
  destruct l as [|w l]; [reflexivity|]. apply words_ok_cons in H as [_ H]. cbn [skipn]. now apply IH.
Qed.

Lemma zlen_skipn {A} j (l : list A) : (j <= length l)%nat -> zlen (skipn j l) = zlen l - Z.of_nat j.
Proof. intros H. unfold zlen. rewrite skipn_length. lia. Qed.

Lemma last_skipn j l : (j < length l)%nat -> last (skipn j l) 0 = last l 0.
Proof.
  revert l; induction j as [|j IH]; intros l H; [reflexivity|].
  destruct l as [|w l]; [cbn in H; lia|]. cbn [skipn]. cbn [length] in H.
  rewrite IH by lia. destruct l; [cbn in H; lia|reflexivity].
Qed.

(* ---- to_words of small numbers ---- *)
Lemma to_words_0 k : to_words k 0 = repeat 0 k.
Proof. induction k as [|k IH]; [reflexivity|]. cbn [to_words repeat]. rewrite Z.mod_0_l, Z.div_0_l by (pose proof B_pos; lia). now rewrite IH. Qed.

Lemma val_repeat0 k : val (repeat 0 k) = 0.
Proof. induction k as [|k IH]; [reflexivity|]. cbn [repeat val]. lia. Qed.

Lemma last_to_words_top k n : 0 <= n < B ^ Z.of_nat (S k) ->
  last (to_words (S k) n) 0 = n / B ^ Z.of_nat k.
Proof.
  revert n; induction k as [|k IH]; intros n Hn.
  - cbn [to_words last]. change (Z.of_nat 0) with 0. rewrite Z.pow_0_r, Z.div_1_r.
    change (Z.of_nat 1) with 1 in Hn. rewrite Z.pow_1_r in Hn. apply Z.mod_small. lia.
  - change (to_words (S (S k)) n) with (n mod B :: to_words (S k) (n / B)).
    assert (last (n mod B :: to_words (S k) (n / B)) 0 = last (to_words (S k) (n / B)) 0) as -> by reflexivity.
    pose proof B_pos. pose proof (Bpow_pos (S k)). pose proof (Bpow_pos k).
    rewrite IH.
    + rewrite Z.div_div by lia. f_equal. rewrite (Nat2Z.inj_succ k), Z.pow_succ_r by lia. reflexivity.
    + rewrite (Nat2Z.inj_succ (S k)), Z.pow_succ_r in Hn by lia. split; [apply Z.div_pos; lia|].
      apply Z.div_lt_upper_bound; lia.
Qed.

(* the value of a word list determines its words once the length is fixed *)
Lemma to_words_val l : words_ok l = true -> to_words (length l) (val l) = l.
Proof.
  induction l as [|w l IH]; intros H; [reflexivity|].
  apply words_ok_cons in H as [Hw Hl]. cbn [length to_words val]. pose proof B_pos.
  replace (w + B * val l) with (w + val l * B) by ring.
  rewrite Z.mod_add, Z.div_add, (Z.mod_small w B), (Z.div_small w B), Z.add_0_l by lia.
  now rewrite IH.
Qed.

Lemma norm_nonempty_last l : l <> [] -> last l 0 <> 0 -> norm l = l.
Proof. intros _ H. now apply norm_id. Qed.

Lemma pow10_19 k : 0 <= k -> 10 ^ (19 * k) = B ^ k.
Proof. intros H. rewrite B_eq, <- Z.pow_mul_r by lia. reflexivity. Qed.
