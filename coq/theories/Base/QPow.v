(* Base/QPow.v — powers of ten in Q and the bridge from comparisons of
   scaled rationals to comparisons of integers. *)
From Coq Require Import ZArith QArith Qpower Lia Lqa.
Open Scope Z_scope.

Definition Qpow10 (e : Z) : Q := Qpower (inject_Z 10) e.

Lemma Q10_nz : ~ (inject_Z 10 == 0)%Q.
Proof. unfold Qeq; cbn; lia. Qed.

Lemma Qpow10_pos e : (0 < Qpow10 e)%Q.
Proof. unfold Qpow10. apply Qpower_pos_lt || (apply Qpower_0_lt; reflexivity). Qed.

Lemma Qpow10_add a b : (Qpow10 (a + b) == Qpow10 a * Qpow10 b)%Q.
Proof. unfold Qpow10. apply Qpower_plus. apply Q10_nz. Qed.

Lemma Qpow10_nonneg k : 0 <= k -> (Qpow10 k == inject_Z (10 ^ k))%Q.
Proof. intros H. unfold Qpow10. symmetry. apply Zpower_Qpower. exact H. Qed.

Lemma Qpow10_0 : (Qpow10 0 == 1)%Q.
Proof. reflexivity. Qed.

Lemma Qpow10_opp e : (Qpow10 (- e) == / Qpow10 e)%Q.
Proof. unfold Qpow10. apply Qpower_opp. Qed.

Lemma Qpow10_sub_mul a b : (Qpow10 (a - b) * Qpow10 b == Qpow10 a)%Q.
Proof. rewrite <- Qpow10_add. replace (a - b + b) with a by lia. reflexivity. Qed.

Lemma Qcompare_mult_pos_r (a b c : Q) : (0 < c)%Q -> ((a * c ?= b * c) = (a ?= b))%Q.
Proof.
  intros Hc. destruct (a ?= b)%Q eqn:E.
  - apply Qeq_alt in E. apply Qeq_alt. rewrite E. reflexivity.
  - apply Qlt_alt in E. apply Qlt_alt. apply Qmult_lt_compat_r; assumption.
  - apply Qgt_alt in E. apply Qgt_alt. apply Qmult_lt_compat_r; assumption.
Qed.

Lemma Qcompare_inject_Z a b : (inject_Z a ?= inject_Z b)%Q = (a ?= b).
Proof. unfold Qcompare; cbn. now rewrite !Z.mul_1_r. Qed.

Global Instance Qcompare_proper : Proper (Qeq ==> Qeq ==> eq) Qcompare.
Proof. exact Qcompare_comp. Qed.

(* value a * 10^e as a rational *)
Definition scaled (a e : Z) : Q := (inject_Z a * Qpow10 e)%Q.

Lemma scaled_shift a e m : m <= e -> (scaled a e == inject_Z (a * 10 ^ (e - m)) * Qpow10 m)%Q.
Proof.
  intros H. unfold scaled. rewrite inject_Z_mult.
  rewrite <- Qpow10_nonneg by lia. rewrite <- Qmult_assoc, Qpow10_sub_mul. reflexivity.
Qed.

(* the bridge: comparing a*10^ea with b*10^eb is comparing integers after
   aligning to the smaller exponent *)
Lemma scaled_compare a ea b eb :
  (scaled a ea ?= scaled b eb)%Q =
  (a * 10 ^ (ea - Z.min ea eb) ?= b * 10 ^ (eb - Z.min ea eb)).
Proof.
  set (m := Z.min ea eb).
  rewrite (scaled_shift a ea m), (scaled_shift b eb m) by (unfold m; lia).
  rewrite Qcompare_mult_pos_r by apply Qpow10_pos.
  apply Qcompare_inject_Z.
Qed.

Lemma scaled_pos a e : 0 < a -> (0 < scaled a e)%Q.
Proof.
  intros H. unfold scaled. apply Qmult_lt_0_compat; [|apply Qpow10_pos].
  unfold Qlt; cbn; lia.
Qed.

Lemma scaled_opp a e : (- scaled a e == scaled (- a) e)%Q.
Proof. unfold scaled. rewrite inject_Z_opp. ring. Qed.

Lemma scaled_0 e : (scaled 0 e == 0)%Q.
Proof. unfold scaled. ring. Qed.

(* generalisation: any common lower exponent works *)
Lemma scaled_compare_gen a ea b eb m : m <= ea -> m <= eb ->
  (scaled a ea ?= scaled b eb)%Q = (a * 10 ^ (ea - m) ?= b * 10 ^ (eb - m)).
Proof.
  intros Ha Hb.
  rewrite (scaled_shift a ea m), (scaled_shift b eb m) by lia.
  rewrite Qcompare_mult_pos_r by apply Qpow10_pos.
  apply Qcompare_inject_Z.
Qed.

Lemma scaled_eq_gen a ea b eb m : m <= ea -> m <= eb ->
  (scaled a ea == scaled b eb)%Q <-> a * 10 ^ (ea - m) = b * 10 ^ (eb - m).
Proof.
  intros Ha Hb. rewrite Qeq_alt, (scaled_compare_gen a ea b eb m Ha Hb). apply Z.compare_eq_iff.
Qed.

Lemma scaled_lt_gen a ea b eb m : m <= ea -> m <= eb ->
  (scaled a ea < scaled b eb)%Q <-> a * 10 ^ (ea - m) < b * 10 ^ (eb - m).
Proof.
  intros Ha Hb. rewrite Qlt_alt, (scaled_compare_gen a ea b eb m Ha Hb). reflexivity.
Qed.

Lemma scaled_le_gen a ea b eb m : m <= ea -> m <= eb ->
  (scaled a ea <= scaled b eb)%Q <-> a * 10 ^ (ea - m) <= b * 10 ^ (eb - m).
Proof.
  intros Ha Hb. rewrite Qle_alt, (scaled_compare_gen a ea b eb m Ha Hb). reflexivity.
Qed.

Lemma scaled_pow a k e : 0 <= k -> (scaled (a * 10 ^ k) e == scaled a (e + k))%Q.
Proof.
  intros Hk. apply (scaled_eq_gen _ _ _ _ e); try lia.
  rewrite Z.sub_diag, Z.pow_0_r. replace (e + k - e) with k by lia. ring.
Qed.

Lemma Qcompare_opp (a b : Q) : ((- a ?= - b) = (b ?= a))%Q.
Proof.
  unfold Qcompare; cbn. rewrite !Z.mul_opp_l. apply Z.compare_opp.
Qed.

Lemma Qlt_cmp (a b : Q) : (a < b)%Q -> (a ?= b)%Q = Lt.
Proof. intros H. now apply Qlt_alt. Qed.
Lemma Qgt_cmp (a b : Q) : (b < a)%Q -> (a ?= b)%Q = Gt.
Proof. intros H. now apply Qgt_alt. Qed.
Lemma Qeq_cmp (a b : Q) : (a == b)%Q -> (a ?= b)%Q = Eq.
Proof. intros H. now apply Qeq_alt. Qed.
