(* L5/Context.v — model of context.Context (context/context.go): a precision
   and mode applied to the receiver before every operation, and an error latch
   that records the first ErrNaN and turns later operations into no-ops until
   Err() is called. *)
From Dec Require Export L3.Store L3.Sqrt.
Open Scope Z_scope.

Record ctx := mkCtx { cprec : Z; cmode : mode; cerr : bool }.

Definition ctx_setPrec (p : Z) : Z :=
  let p := if p =? 0 then DefaultDecimalPrec else p in
  if MaxPrec <? p then MaxPrec else p.

Definition ctx_new (p : Z) (m : mode) : ctx := mkCtx (ctx_setPrec p) m false.

(* c.apply(z): SetMode, then SetPrec if the precision differs *)
Definition capply (c : ctx) (z : Dec) : ores :=
  match SetMode z (cmode c) with
  | OkR z => if prec z =? cprec c then OkR z else SetPrec z (cprec c)
  | r => r
  end.

Inductive cop :=
| CAdd (z x y : nat) | CSub (z x y : nat) | CMul (z x y : nat) | CQuo (z x y : nat)
| CFMA (z x y u : nat)
| CNeg (z x : nat) | CAbs (z x : nat) | CSet (z x : nat)
| CSqrt (z x : nat)
| CErr
| CSetPrec (p : Z) | CSetMode (m : mode)
| CNew (z : nat) | CNewInt64 (z : nat) (v : Z) | CNewUint64 (z : nat) (v : Z)
| CNilOperand (z : nat)              (* c.Add(z, nil, z): a run-time error that is not an ErrNaN *)
| CPlain (o : op).                   (* an ordinary Decimal operation *)

Definition cstate := (store * ctx)%type.

(* operations that recover ErrNaN: apply, then run f on the updated store *)
Definition guarded (st : cstate) (z : nat) (f : store -> ores) : cstate * result :=
  let '(s, c) := st in
  if cerr c then (st, res_none)
  else
    match capply c (get s z) with
    | OkR z1 =>
        let s1 := set s z z1 in
        match f s1 with
        | OkR d => ((set s1 z d, c), res_none)
        | NaNR d => ((set s1 z d, mkCtx (cprec c) (cmode c) true), res_none)
        | CrashR => ((s1, c), mkRes Crash [] [])
        end
    | _ => (st, mkRes Crash [] [])
    end.

(* operations without a recover (they cannot raise ErrNaN) *)
Definition unguarded (st : cstate) (z : nat) (pre : bool) (f : store -> ores) : cstate * result :=
  let '(s, c) := st in
  if cerr c then (st, res_none)
  else
    if pre then
      match capply c (get s z) with
      | OkR z1 =>
          let s1 := set s z z1 in
          match f s1 with
          | OkR d => ((set s1 z d, c), res_none)
          | _ => ((s1, c), mkRes Crash [] [])
          end
      | _ => (st, mkRes Crash [] [])
      end
    else
      match f s with
      | OkR d => match capply c d with
                 | OkR d' => ((set s z d', c), res_none)
                 | _ => (st, mkRes Crash [] [])
                 end
      | _ => (st, mkRes Crash [] [])
      end.

Definition cstep (st : cstate) (o : cop) : cstate * result :=
  let '(s, c) := st in
  match o with
  | CAdd z x y => guarded st z (fun s => Arith.Add (Nat.eqb z x) (Nat.eqb z y) (get s z) (get s x) (get s y))
  | CSub z x y => guarded st z (fun s => Sub (Nat.eqb z x) (Nat.eqb z y) (get s z) (get s x) (get s y))
  | CMul z x y => guarded st z (fun s => Mul (get s z) (get s x) (get s y))
  | CQuo z x y => guarded st z (fun s => Quo (get s z) (get s x) (get s y))
  | CFMA z x y u => guarded st z (fun s => FMA (Nat.eqb z u) (get s z) (get s x) (get s y) (get s u))
  | CSqrt z x => guarded st z (fun s => Sqrt (Nat.eqb z x) (get s z) (get s x))
  | CNeg z x => unguarded st z true (fun s => Neg_ (Nat.eqb z x) (get s z) (get s x))
  | CAbs z x => unguarded st z true (fun s => Abs_ (Nat.eqb z x) (get s z) (get s x))
  | CSet z x => unguarded st z false (fun s => Copy (Nat.eqb z x) (get s z) (get s x))
  | CErr => ((s, mkCtx (cprec c) (cmode c) false), res_ok [b2z (cerr c)])
  | CSetPrec p => ((s, mkCtx (ctx_setPrec p) (cmode c) (cerr c)), res_none)
  | CSetMode m => ((s, mkCtx (cprec c) m (cerr c)), res_none)
  | CNew z =>
      match capply c dec_zero with
      | OkR d => ((set s z d, c), res_none)
      | _ => (st, mkRes Crash [] [])
      end
  | CNewInt64 z v =>
      match capply c dec_zero with
      | OkR d => match SetInt64 d v with OkR d' => ((set s z d', c), res_none) | _ => (st, mkRes Crash [] []) end
      | _ => (st, mkRes Crash [] [])
      end
  | CNewUint64 z v =>
      match capply c dec_zero with
      | OkR d => match SetUint64 d v with OkR d' => ((set s z d', c), res_none) | _ => (st, mkRes Crash [] []) end
      | _ => (st, mkRes Crash [] [])
      end
  | CNilOperand z =>
      (* apply runs first, then the nil dereference panics; the panic is not latched *)
      if cerr c then (st, res_none)
      else match capply c (get s z) with
           | OkR z1 => ((set s z z1, c), mkRes Crash [] [])
           | _ => (st, mkRes Crash [] [])
           end
  | CPlain o => let '(s', r) := step s o in ((s', c), r)
  end.

(* run a context program; unlike `run`, a Crash does not stop the program
   (the harness recovers and goes on, to observe Err() afterwards) *)
Fixpoint crun (st : cstate) (p : list cop) : list (result * cstate) :=
  match p with
  | [] => []
  | o :: p' => let '(st', r) := cstep st o in (r, st') :: crun st' p'
  end.
