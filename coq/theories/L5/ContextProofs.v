(* L5/ContextProofs.v — the error latch of context.Context (C19). *)
From Coq Require Import ZArith List Bool Lia.
From Dec Require Import L3.Decimal L3.Round L3.Arith L3.Store L5.Context.
Open Scope Z_scope.

(* context operations that go through the latch (everything except Err, the
   attribute setters, the constructors and plain Decimal operations) *)
Definition latched_op (o : cop) : bool :=
  match o with
  | CAdd _ _ _ | CSub _ _ _ | CMul _ _ _ | CQuo _ _ _ | CFMA _ _ _ _
  | CNeg _ _ | CAbs _ _ | CSet _ _ | CSqrt _ _ | CNilOperand _ => true
  | _ => false
  end.

(* while an error is pending, a latched operation changes nothing and reports nothing *)
Theorem latched_noop s c o : cerr c = true -> latched_op o = true ->
  cstep (s, c) o = ((s, c), res_none).
Proof.
  intros He Hl. destruct o; try discriminate; cbn [cstep guarded unguarded]; rewrite He; reflexivity.
Qed.

(* Err() reports the pending error exactly once and re-arms the context *)
Theorem err_reports_once s c :
  let '(st1, r1) := cstep (s, c) CErr in
  let '(st2, r2) := cstep st1 CErr in
  r_ints r1 = [b2z (cerr c)] /\ r_ints r2 = [0] /\ fst st1 = s /\ fst st2 = s /\ cerr (snd st2) = false.
Proof. cbn. repeat split. Qed.

(* an operation raises the latch only by an ErrNaN outcome of the underlying
   Decimal operation; a Crash (any other panic) is never latched *)
Theorem crash_not_latched s c o st' r :
  cerr c = false -> cstep (s, c) o = (st', r) -> r_out r = Crash -> cerr (snd st') = false.
Proof.
  intros He E Hc. destruct o; cbn [cstep guarded unguarded] in E; rewrite ?He in E;
    repeat match type of E with
    | context [match ?x with _ => _ end] => destruct x eqn:?
    | context [if ?b then _ else _] => destruct b eqn:?
    end; try (injection E as <- <-); cbn in *; try congruence; try discriminate.
Qed.

(* over whole sequences: once latched, a run of latched operations leaves the
   store and the context untouched, whatever the operations are *)
Theorem latch_holds ops : forall s c, cerr c = true -> forallb latched_op ops = true ->
  forall r st, In (r, st) (crun (s, c) ops) -> st = (s, c) /\ r = res_none.
Proof.
  induction ops as [|o ops IH]; intros s c He Hall r st Hin; [contradiction|].
  cbn [forallb] in Hall. apply andb_true_iff in Hall as [Ho Hrest].
  cbn [crun] in Hin. rewrite (latched_noop s c o He Ho) in Hin.
  destruct Hin as [E|Hin].
  - injection E as <- <-. split; reflexivity.
  - exact (IH s c He Hrest r st Hin).
Qed.

(* the first error wins: a latched context ignores further NaN-producing calls *)
Corollary first_error_wins s c ops : cerr c = true -> forallb latched_op ops = true ->
  forall st r, In (r, st) (crun (s, c) (ops ++ [CErr])) -> cerr (snd st) = true \/ (r_ints r = [1] /\ fst st = s).
Proof.
  intros He Hall st r Hin.
  assert (H : forall ops s c, cerr c = true -> forallb latched_op ops = true ->
              crun (s, c) (ops ++ [CErr]) = crun (s, c) ops ++ [(res_ok [1], (s, mkCtx (cprec c) (cmode c) false))]).
  { clear. induction ops as [|o ops IH]; intros s c He Hall.
    - cbn. rewrite He. reflexivity.
    - cbn [forallb] in Hall. apply andb_true_iff in Hall as [Ho Hrest].
      cbn [app crun]. rewrite (latched_noop s c o He Ho). rewrite (IH s c He Hrest). reflexivity. }
  rewrite (H ops s c He Hall) in Hin. apply in_app_or in Hin as [Hin|Hin].
  - left. destruct (latch_holds ops s c He Hall r st Hin) as [-> _]. exact He.
  - destruct Hin as [E|[]]. injection E as <- <-. right. split; reflexivity.
Qed.

(* the rounding attributes: after apply the receiver carries the context's
   precision and mode, whatever it had before *)
Theorem capply_attrs c z z' : capply c z = OkR z' -> 1 <= cprec c <= MaxPrec ->
  dform z <> Ffinite -> prec z' = cprec c /\ dmode z' = cmode c.
Proof.
  unfold capply, SetMode. cbn [prec with_acc with_mode].
  intros E Hp Hf. destruct (Z.eqb_spec (prec z) (cprec c)) as [Ep|Ep].
  - injection E as <-. split; [exact Ep|reflexivity].
  - unfold SetPrec in E. destruct (Z.eqb_spec (cprec c) 0); [lia|].
    destruct (Z.ltb_spec MaxPrec (cprec c)); [lia|].
    cbn [prec with_acc with_mode with_prec] in E.
    destruct (cprec c <? prec z).
    + unfold round in E. cbn [dform with_acc with_mode with_prec] in E.
      destruct (dform z) eqn:F; try congruence; cbn [of_opt] in E; injection E as <-; split; reflexivity.
    + injection E as <-. split; reflexivity.
Qed.

(* ---- results are rounded to the context, whatever the receiver's attributes ---- *)
From Coq Require Import QArith.
From Dec Require Import Base.Words Base.QPow L3.Cmp L3.CmpProofs Spec.Rounding L3.RoundProofs L3.ArithProofs L3.SpecialProofs.

Lemma get_set_same s i d : (i < length s)%nat -> get (set s i d) i = d.
Proof.
  revert i; induction s as [|a s IH]; intros i H; [cbn in H; lia|].
  destruct i; [reflexivity|]. cbn [set get nth]. cbn [length] in H. apply IH. lia.
Qed.
Lemma get_set_other s i j d : i <> j -> get (set s i d) j = get s j.
Proof.
  revert i j; induction s as [|a s IH]; intros i j H; [destruct i; reflexivity|].
  destruct i, j; try reflexivity; try congruence. cbn [set get nth]. apply IH. congruence.
Qed.

Lemma capply_ok c z : WF z -> 1 <= cprec c <= MaxPrec ->
  (dform z = Ffinite -> mdigits (mant z) < 4294967296 - 18) ->
  exists z1, capply c z = OkR z1 /\ prec z1 = cprec c /\ dmode z1 = cmode c /\ WF z1.
Proof.
  intros Wz Hp Hl. unfold capply, SetMode. cbn [prec with_acc with_mode].
  assert (Wz1 : WF (with_acc (with_mode z (cmode c)) Exact)) by exact Wz.
  destruct (Z.eqb_spec (prec z) (cprec c)) as [Ep|Ep].
  - eexists. split; [reflexivity|]. repeat split; assumption.
  - destruct (dform z) eqn:Fz.
    + eexists. split.
      * unfold SetPrec. destruct (Z.eqb_spec (cprec c) 0); [lia|]. destruct (Z.ltb_spec MaxPrec (cprec c)); [lia|].
        cbn [prec with_acc with_mode with_prec]. unfold round. cbn [dform with_acc with_mode with_prec]. rewrite Fz.
        destruct (cprec c <? prec z); reflexivity.
      * destruct (cprec c <? prec z); cbn [of_opt]; repeat split; try reflexivity;
          apply WF_nonfinite; cbn [dform prec with_acc with_mode with_prec]; try (rewrite Fz; discriminate); lia.
    + pose proof (SetPrec_correct (with_acc (with_mode z (cmode c)) Exact) (cprec c) Wz1 Fz (Hl eq_refl) ltac:(lia)) as H.
      cbn zeta in H. destruct (Z.ltb_spec MaxPrec (cprec c)); [lia|].
      destruct H as (z1 & E & _ & Hp1 & Hm1 & W1). exists z1. repeat split; assumption.
    + eexists. split.
      * unfold SetPrec. destruct (Z.eqb_spec (cprec c) 0); [lia|]. destruct (Z.ltb_spec MaxPrec (cprec c)); [lia|].
        cbn [prec with_acc with_mode with_prec]. unfold round. cbn [dform with_acc with_mode with_prec]. rewrite Fz.
        destruct (cprec c <? prec z); reflexivity.
      * destruct (cprec c <? prec z); cbn [of_opt]; repeat split; try reflexivity;
          apply WF_nonfinite; cbn [dform prec with_acc with_mode with_prec]; try (rewrite Fz; discriminate); lia.
Qed.

(* Context.Add with a receiver distinct from its finite operands: the exact sum
   rounded once to the context's precision and mode *)
Theorem ctx_add_rounds s c z x y :
  cerr c = false -> z <> x -> z <> y -> (z < length s)%nat ->
  WF (get s z) -> WF (get s x) -> WF (get s y) ->
  dform (get s x) = Ffinite -> dform (get s y) = Ffinite ->
  1 <= cprec c <= MaxPrec ->
  (dform (get s z) = Ffinite -> mdigits (mant (get s z)) < 4294967296 - 18) ->
  add_span (get s x) (get s y) + 40 < 4294967296 - 18 ->
  exists st', cstep (s, c) (CAdd z x y) = (st', res_none) /\ snd st' = c /\
    AddPost (cprec c) (cmode c) (sval (get s x) + sval (get s y)) (OkR (get (fst st') z)).
Proof.
  intros He Hzx Hzy Hlen Wz Wx Wy Fx Fy Hp Hl Hsp.
  destruct (capply_ok c (get s z) Wz Hp Hl) as (z1 & E1 & P1 & M1 & W1).
  cbn [cstep guarded]. rewrite He, E1.
  rewrite get_set_same by assumption. rewrite !get_set_other by congruence.
  destruct (Nat.eqb_spec z x); [congruence|]. destruct (Nat.eqb_spec z y); [congruence|].
  pose proof (Add_correct false false z1 (get s x) (get s y) Wx Wy Fx Fy ltac:(lia) Hsp) as H.
  assert (Ee : eff_prec z1 (get s x) (get s y) = cprec c).
  { unfold eff_prec. rewrite P1. destruct (Z.eqb_spec (cprec c) 0); [lia|reflexivity]. }
  rewrite Ee, M1 in H. destruct H as (z' & E & H).
  rewrite E. eexists. split; [reflexivity|]. split; [reflexivity|].
  cbn [fst]. rewrite get_set_same by (clear - Hlen; revert z Hlen; induction s as [|a s IH]; intros z H; [cbn in H; lia|destruct z; cbn [set length] in *; [lia|specialize (IH z); lia]]).
  exists z'. split; [reflexivity|exact H].
Qed.
