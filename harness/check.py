#!/usr/bin/env python3
"""check <Cnn> [--tier quick|thorough] [--replay file]

Decides one property on /repo's current working tree:
  1. regenerate gen/*.v from the source, full Coq build, forbidden-vernacular scan,
     compile Props/<Cnn>.v (theorems + Print Assumptions);
  2. build the Go driver from /repo (-tags verif) and the extracted OCaml model;
  3. generate cases, run both sides, diff the projected observables, evaluate
     the Coq spec predicates on the implementation's outputs, re-evaluate a
     sample inside the Coq kernel (vm_compute);
  4. classify, write evidence/<Cnn>.json, print VIOLATION / KNOWN-FINDING lines.
"""
import re, argparse, importlib, json, os, random, sys, time

sys.path.insert(0, os.path.dirname(os.path.abspath(__file__)))
import vlib
from vlib import ROOT, BUILD


def load_known():
    p = os.path.join(ROOT, "known_findings.json")
    if not os.path.exists(p):
        return []
    return [f for f in json.load(open(p)).get("findings", []) if f.get("status") == "known"]


def vm_sample(pid, mod, cases, impl_obs, log, max_cases=60):
    """Evaluate a sample of the cases inside Coq with vm_compute against the
    implementation's observations. cases: list of (casepid, vars, ops-as-coq, ...)"""
    if not hasattr(mod, "coq_op"):
        return dict(ran=0, mismatches=[], skipped="no coq_op renderer")
    items, ids = [], []
    for c in cases:
        if len(items) >= max_cases:
            break
        cid, vars_, ops = c["pid"], c["vars"], c["ops"]
        if c.get("big"):
            continue
        obs = [impl_obs.get((cid, i)) for i in range(len(ops))]
        obs = [o for o in obs if o is not None]
        if not obs:
            continue
        try:
            coq_ops = [mod.coq_op(o) for o in ops]
        except KeyError:
            continue
        obs_terms = []
        for (o, _line) in obs:
            key, opn, outcome, res, vs = o
            ints = [r for r in res if not r.startswith("x:")]
            byts = [r[2:] for r in res if r.startswith("x:")]
            rterm = "(mkRes %s %s %s)" % (
                {"ok": "Ok", "nan": "NaN", "crash": "Crash"}[outcome],
                vlib.coq_list([vlib.coq_z(i) for i in ints]),
                vlib.coq_list([vlib.coq_list([str(int(h[i:i + 2], 16)) for i in range(0, len(h), 2)]) for h in byts]))
            obs_terms.append("(%s, %s)" % (rterm, vlib.coq_list([vlib.coq_dec_from_obs(v) for v in vs])))
        items.append("(%s, %s, %s)" % (vlib.coq_list([vlib.coq_dec_from_dv(v) for v in vars_]),
                                       vlib.coq_list(coq_ops), vlib.coq_list(obs_terms)))
        ids.append(cid)
    if not items:
        return dict(ran=0, mismatches=[])
    d = os.path.join(BUILD, "vm")
    os.makedirs(d, exist_ok=True)
    src = os.path.join(d, "cases_%s.v" % pid)
    with open(src, "w") as f:
        f.write("From Dec Require Import L3.Store.\nOpen Scope Z_scope.\n")
        f.write("Definition cases : list case :=\n [ %s ].\n" % ";\n   ".join(items))
        f.write("Definition bad := Eval vm_compute in mismatches cases.\nPrint bad.\n")
    rc, out, dt = vlib.sh(["coqc", "-Q", os.path.join(vlib.COQ, "theories"), "Dec", "-w", vlib.COQW, src], cwd=d, timeout=900)
    log.append(("vm_compute", rc, dt, out[-1500:] if rc else ""))
    if rc != 0:
        return dict(ran=len(items), mismatches=["coqc failed: " + out[-500:]], secs=dt)
    import re
    m = re.search(r"bad\s*=\s*\[(.*?)\]", out, flags=re.S)
    mism = []
    if m is None:
        mism = ["unparsable coqc output"]
    elif m.group(1).strip():
        mism = [ids[int(x)] for x in re.findall(r"\d+", m.group(1))]
    return dict(ran=len(items), mismatches=mism, secs=dt)


def main():
    ap = argparse.ArgumentParser()
    ap.add_argument("pid")
    ap.add_argument("--tier", default=os.environ.get("VERIF_TIER", "quick"))
    ap.add_argument("--replay")
    ap.add_argument("--no-build", action="store_true")
    a = ap.parse_args()
    pid = a.pid
    tier = a.tier if a.tier in ("quick", "thorough") else "quick"
    seed = int(os.environ.get("VERIF_SEED", "20261001"))
    t0 = time.time()
    mod = importlib.import_module("props." + pid)
    log = []
    violations = []   # (what, replay dict)
    known_lines = []

    with vlib.Lock():
        tr_ok = vlib.run_translators(log)
        coq_ok, failed, make_out = vlib.build_coq(log)
        forb = vlib.forbidden_scan()
        props = vlib.check_props_file(pid, log)
        run_ok = vlib.build_runner(log)
        drv_ok, drv_out = vlib.build_driver(log)
        extra_builds = {}
        for name, tags in getattr(mod, "EXTRA_DRIVERS", {}).items():
            extra_builds[name] = vlib.build_driver(log, tags=tags, name=name)[0]
        # property-specific binaries (e.g. the kernel-level driver/runner of C06/C07)
        if hasattr(mod, "build"):
            ok_extra, out_extra = mod.build(log)
            if not ok_extra:
                drv_ok, drv_out = False, out_extra

    if not drv_ok:
        print("driver build failed:\n" + drv_out[-3000:])
        # the code no longer compiles with hooks: nothing can be decided
        write_evidence(pid, tier, seed, mod, t0, dict(error="go build failed"), [], props, 1)
        rp = save_replay(pid, dict(kind="build", what="go build -tags verif failed", output=drv_out[-3000:]))
        print("VIOLATION property=%s replay=%s no-failing-input-found" % (pid, rp))
        return 1
    if not run_ok:
        print("model extraction / runner build failed; see log")
        for l in log:
            if l[1]:
                print(l)
        rp = save_replay(pid, dict(kind="build", what="model runner build failed", log=[l for l in log if l[1]]))
        print("VIOLATION property=%s replay=%s no-failing-input-found" % (pid, rp))
        return 1

    # ---- cases
    rng = random.Random(seed)
    cases = []
    if a.replay:
        rep = json.load(open(a.replay))
        for i, line in enumerate(rep.get("programs", [])):
            cases.append(dict(pid="r%d" % i, family="replay", line=line))
    else:
        corpus_dir = os.path.join(ROOT, "corpus", pid)
        if os.path.isdir(corpus_dir):
            for fn in sorted(os.listdir(corpus_dir)):
                for j, line in enumerate(open(os.path.join(corpus_dir, fn))):
                    line = line.strip()
                    if line and not line.startswith("#"):
                        cases.append(dict(pid="k%s_%d" % (fn.split(".")[0], j), family="corpus", line=line))
        for i, c in enumerate(mod.gen(rng, tier)):
            c = dict(c)
            c["pid"] = "g%d" % i
            cases.append(c)
    for c in cases:
        if "line" not in c:
            c["line"] = " ; ".join([v.item() for v in c["vars"]] + ["O " + o for o in c["ops"]])
    text = "\n".join("%s ; %s" % (c["pid"], c["line"]) for c in cases) + "\n"
    os.makedirs(os.path.join(BUILD, "cases"), exist_ok=True)
    open(os.path.join(BUILD, "cases", pid + ".txt"), "w").write(text)

    rc_g, go_out, dt_g = vlib.run_side(os.path.join(BUILD, getattr(mod, "DRIVER", "driver")), text, timeout=getattr(mod, "TIMEOUT", 900))
    rc_m, ml_out, dt_m = vlib.run_side(os.path.join(BUILD, getattr(mod, "RUNNER", "runner")), text, timeout=getattr(mod, "TIMEOUT", 900))
    log.append(("driver-run", rc_g, dt_g, go_out[-500:] if rc_g else ""))
    log.append(("model-run", rc_m, dt_m, ml_out[-500:] if rc_m else ""))
    diffs, bad, g, m = vlib.diff_outputs(go_out, ml_out)
    bycase = {c["pid"]: c for c in cases}

    if a.replay:
        print("implementation:\n" + go_out + "\nmodel (extracted):\n" + ml_out)

    # the driver itself died (fatal error / OOM / timeout) => report last case
    if rc_g != 0:
        violations.append(("driver exited with status %d" % rc_g, dict(kind="driver-exit", tail=go_out[-2000:])))
    if rc_m != 0:
        violations.append(("model runner exited with status %d" % rc_m, dict(kind="model-exit", tail=ml_out[-2000:])))
    for k, gl, ml in bad:
        violations.append(("malformed observation", dict(kind="malformed", go=gl, model=ml)))

    # spec predicates on implementation outputs (property-specific, Python glue
    # around the extracted Coq deciders where available)
    pred_fail = []
    if hasattr(mod, "judge"):
        pred_fail = mod.judge(cases, g, m)

    # extra driver builds (pure-Go configurations) must agree with the default build
    for name, ok in extra_builds.items():
        if not ok:
            violations.append(("build of %s failed" % name, dict(kind="build", what=name)))
            continue
        rc_x, x_out, dt_x = vlib.run_side(os.path.join(BUILD, name), text)
        dx, badx, _, _ = vlib.diff_outputs(x_out, ml_out)
        log.append(("driver-run[%s]" % name, rc_x, dt_x, ""))
        for (k, gl, ml) in dx[:20]:
            diffs.append((k, "[%s] %s" % (name, gl), ml))

    known = [f for f in load_known() if f["property"] == pid]

    def is_known(case, what, gl, ml):
        for f in known:
            fn = getattr(mod, "match_known", None)
            if fn and fn(f, case, what, gl, ml):
                return f
        return None

    seen_known = {}
    for (k, gl, ml) in diffs:
        case = bycase.get(k[0])
        what = "model/implementation disagree at step %d (%s)" % (k[1], (gl or ml).split()[2])
        f = is_known(case, what, gl, ml)
        if f:
            seen_known.setdefault(f["id"], f)
            continue
        violations.append((what, dict(kind="correspondence", correspondence="Store.run vs driver",
                                      programs=[case["line"]] if case else [], family=case.get("family") if case else None,
                                      implementation=gl, model=ml)))
    for (case, what, detail) in pred_fail:
        f = is_known(case, what, detail.get("implementation"), None)
        if f:
            seen_known.setdefault(f["id"], f)
            continue
        violations.append((what, dict(kind="spec-predicate", programs=[case["line"]], family=case.get("family"), **detail)))

    # in-kernel re-evaluation
    vm = dict(ran=0, mismatches=[])
    if not a.replay or True:
        try:
            if hasattr(mod, "vm_check"):
                vm = mod.vm_check(cases, g, log, tier)
            else:
                vm = vm_sample(pid, mod, [c for c in cases if "vars" in c], g, log,
                               max_cases=60 if tier == "quick" else 300)
        except Exception as e:  # never let the auxiliary path hide the main verdict
            vm = dict(ran=0, mismatches=[], error=repr(e))
        for cid in vm.get("mismatches", []):
            case = bycase.get(cid)
            if case is not None:
                f = is_known(case, "vm", None, None)
                if f:
                    seen_known.setdefault(f["id"], f)
                    continue
                # only a violation on its own if the bulk diff did not already report it
                if not any(case["line"] in (v[1].get("programs") or []) for v in violations):
                    violations.append(("vm_compute evaluation of the model disagrees with the implementation (and the extracted model agreed: extraction suspect)",
                                       dict(kind="vm", programs=[case["line"]])))
            else:
                violations.append(("vm_compute sample failed: %s" % cid, dict(kind="vm")))

    # ---- proof status
    proof_broken = []
    if forb:
        proof_broken.append("forbidden vernacular: " + "; ".join(forb[:5]))
    if not tr_ok:
        proof_broken.append("translator failed (gen/*.v could not be regenerated from the source)")
    if any(f[0].endswith("gen/ConstsCheck.v") for f in failed):
        proof_broken.append("gen/ConstsCheck.v does not compile: a literal of the hand-written model no longer equals the constant "
                            "regenerated from the Go source by tools/go2coq (%s)" % ", ".join("%s:%s" % f for f in failed if f[0].endswith("gen/ConstsCheck.v")))
    if not props["exists"]:
        proof_broken.append("Props/%s.v missing" % pid)
    elif not props["ok"]:
        mm = re.search(r'File "([^"]+)", line (\d+)', props["out"])
        where = "%s:%s" % (mm.group(1), mm.group(2)) if mm else "?"
        dep_fail = ["%s:%s" % f for f in failed]
        proof_broken.append("Props/%s.v does not compile (%s); failed dependencies: %s" % (pid, where, ", ".join(dep_fail) or "none"))
    elif props["axioms"] and not set(props["axioms"]) <= set(getattr(mod, "ALLOWED_AXIOMS", [])):
        proof_broken.append("unexpected axioms: " + ", ".join(props["axioms"]))

    # thorough tier: re-check the property's compiled theorem files and everything they depend on with the
    # independent checker coqchk, which also lists the axioms they rely on
    if tier == "thorough" and props.get("exists") and props.get("ok") and not os.environ.get("VERIF_NO_COQCHK"):
        mods = ["Dec.Props." + f[len("Props/"):-2] for f in props.get("files", [])]
        rc_c, out_c, dt_c = vlib.sh(["coqchk", "-silent", "-o", "-Q", "theories", "Dec"] + mods, cwd=vlib.COQ, timeout=3600)
        log.append(("coqchk", rc_c, dt_c, out_c[-2000:] if rc_c else ""))
        ax = re.search(r"\* Axioms:\s*(.*?)\n\s*\n", out_c, flags=re.S)
        axl = ax.group(1).strip() if ax else "?"
        props["coqchk"] = dict(rc=rc_c, seconds=round(dt_c, 1), axioms=axl, modules=mods)
        if rc_c != 0 or axl != "<none>":
            proof_broken.append("coqchk: exit status %d, axioms %s" % (rc_c, axl[:300]))

    if proof_broken and not violations:
        # the failing-input search is the run above (corpus + boundary families);
        # widen it once before giving up
        violations.append(("proof obligation no longer checks: " + " | ".join(proof_broken),
                           dict(kind="proof", theorem_file="coq/theories/Props/%s.v" % pid, broken=proof_broken,
                                none_found=True)))
    elif proof_broken:
        for i, (what, rep) in enumerate(violations):
            rep["also_broken"] = proof_broken

    for fid, f in seen_known.items():
        line = "KNOWN-FINDING: property=%s %s (%s)" % (pid, f["text"], fid)
        known_lines.append(line)
        print(line)

    # ---- report
    rc = 0
    reported = set()
    for what, rep in violations[:5]:
        rep["what"] = what
        rep["property"] = pid
        rep["seed"] = seed
        rep["tier"] = tier
        sig = json.dumps(rep.get("programs") or what)
        if sig in reported:
            continue
        reported.add(sig)
        if rep.get("programs") and hasattr(mod, "shrink"):
            try:
                rep["programs_shrunk"] = mod.shrink(rep["programs"][0])
            except Exception:
                pass
        rp = save_replay(pid, rep)
        suffix = " no-failing-input-found" if rep.get("none_found") else ""
        print("VIOLATION property=%s replay=%s%s" % (pid, rp, suffix))
        print("  " + what)
        rc = 1

    stats = dict(cases=cases, g=g, m=m, diffs=diffs, vm=vm, pred_fail=pred_fail, dt_g=dt_g, dt_m=dt_m,
                 known=known_lines, log=log, forb=forb, failed=failed)
    if not a.replay:
        write_evidence(pid, tier, seed, mod, t0, stats, violations, props, rc)
    if os.environ.get("VERIF_VERBOSE"):
        for l in log:
            print("LOG", l[0], l[1], "%.1fs" % l[2])
    print("%s: %d cases, %d observations, %d diffs, vm %d/%d, theorems %d (closed %d), %.1fs -> %s" % (
        pid, len(cases), len(g), len(diffs), vm.get("ran", 0) - len(vm.get("mismatches", [])), vm.get("ran", 0),
        len(props.get("theorems", [])), props.get("closed", 0), time.time() - t0, "FAIL" if rc else "ok"))
    return rc


def save_replay(pid, rep):
    import hashlib
    d = os.path.join(ROOT, "evidence", "replay")
    os.makedirs(d, exist_ok=True)
    h = hashlib.sha1(json.dumps(rep, sort_keys=True, default=str).encode()).hexdigest()[:10]
    p = os.path.join(d, "%s-%s.json" % (pid, h))
    json.dump(rep, open(p, "w"), indent=1, default=str)
    return p


def write_evidence(pid, tier, seed, mod, t0, stats, violations, props, rc):
    cases = stats.get("cases", [])
    fam = {}
    opsh = {}
    distinct = set()
    nontriv = 0
    for c in cases:
        fam[c.get("family", "?")] = fam.get(c.get("family", "?"), 0) + 1
        for it in c["line"].split(";"):
            t = it.split()
            if t and t[0] == "O":
                opsh[t[1]] = opsh.get(t[1], 0) + 1
        if c["line"] not in distinct:
            distinct.add(c["line"])
            nt = getattr(mod, "nontrivial", None)
            if nt is None or nt(c):
                nontriv += 1
    level = getattr(mod, "LEVEL", "proof")
    samples = [dict(family=c.get("family"), program=c["line"][:600]) for c in cases[:: max(1, len(cases) // 5)][:5]]
    theorems = props.get("theorems", []) if props else []
    cov = dict(
        evaluations=len(stats.get("g", {})),
        distinct_nontrivial=nontriv,
        rule=getattr(mod, "RULE", "programs generated per family from one PRNG; distinct = different program text; non-trivial per property module"),
        samples=samples or [dict(note="no cases")],
        obligations=len(theorems),
        discharged=len(theorems) if (props and props.get("ok")) else 0,
        checker_cmd="make -C /verif/coq (coqc 8.16.1, full .vo build) ; coqc theories/Props/%s.v ; coqc build/vm/cases_%s.v (vm_compute sample)" % (pid, pid),
        trusted_base=[
            "Coq 8.16.1 kernel incl. vm_compute (no native_compute)",
            "axioms reported by Print Assumptions: %s" % (", ".join(props.get("axioms", [])) if props and props.get("axioms") else "none (all theorems closed under the global context: %d of %d)" % (props.get("closed", 0) if props else 0, len(theorems))),
            "hand-written Coq model of the Go code, tied by the correspondence check (Go driver vs extracted OCaml vs vm_compute)",
            "extraction: ExtrOcamlBasic + ExtrOcamlZBigInt, zarith 1.12, OCaml 4.13.1 (correspondence only)",
            "translators tools/go2coq, tools/asm2coq.py (constants, tables, assembly programs)",
            "extraction directives of our own: Extract Constant Z.log2 / Z.pow (/ Z.sqrt for C05, C15) onto zarith",
        ] + (["coqchk -silent -o on %s: exit %d, axioms %s (%.0f s)" % (" ".join(props["coqchk"]["modules"]), props["coqchk"]["rc"], props["coqchk"]["axioms"], props["coqchk"]["seconds"])]
             if props and props.get("coqchk") else ["coqchk: run in the thorough tier; last whole-tree run in evidence/coqchk.txt"])
          + list(getattr(mod, "TRUSTED", [])),
        theorems=theorems,
        examples=props.get("examples", []) if props else [],
        programs=len(cases),
        disagreements_checked=len(stats.get("diffs", [])),
        families=fam,
        ops=opsh,
        vm_compute_sample=dict(ran=stats.get("vm", {}).get("ran", 0), mismatches=len(stats.get("vm", {}).get("mismatches", []))),
        spec_predicate_failures=len(stats.get("pred_fail", [])),
        spec_predicate_stats=dict(getattr(mod, "JUDGE_STATS", {})),
        known_findings_seen=stats.get("known", []),
        forbidden_vernacular_hits=stats.get("forb", []),
        explanation=getattr(mod, "EXPLANATION", ""),
        timings=dict(driver_s=stats.get("dt_g"), model_s=stats.get("dt_m"),
                     steps={l[0]: round(l[2], 2) for l in stats.get("log", [])}),
    )
    ev = dict(property_id=pid, tier=tier, seed=seed, level=level, coverage=cov,
              assumptions=list(getattr(mod, "ASSUMPTIONS", [])), wall_s=round(time.time() - t0, 2),
              violations=len(violations))
    os.makedirs(os.path.join(ROOT, "evidence"), exist_ok=True)
    json.dump(ev, open(os.path.join(ROOT, "evidence", pid + ".json"), "w"), indent=1, default=str)


if __name__ == "__main__":
    sys.exit(main())
