// Go side of the C07 correspondence check at kernel level.  For every call
// line it runs the build's kernel (the assembly routine on the default amd64
// build) and the portable `_g` twin on copies of the same array, with the
// destination placed where the case says (dst = src, overlapping or disjoint),
// prints the build kernel's results and the array after the call, and appends
// a mismatch token if the `_g` twin returned anything different.
package main

import (
	"bufio"
	"fmt"
	"os"
	"strconv"
	"strings"

	"github.com/db47h/decimal"
)

type W = decimal.Word

func atoi(s string) int {
	n, err := strconv.ParseInt(s, 10, 64)
	if err != nil {
		panic("bad int " + s)
	}
	return int(n)
}

func atow(s string) W {
	n, err := strconv.ParseUint(s, 10, 64)
	if err != nil {
		panic("bad uint " + s)
	}
	return W(n)
}

func words(t []string) []W {
	r := make([]W, len(t))
	for i, s := range t {
		r[i] = atow(s)
	}
	return r
}

// one implementation of a call: returns scalar results; mutates buf
type impl func(buf []W) []W

func sl(buf []W, off, n int) []W { return buf[off : off+n : off+n] }

// parse returns the assembly-build implementation, the _g twin and the array
func parse(t []string) (a, g impl, mem []W) {
	switch t[0] {
	case "mul10WW":
		x, y := atow(t[1]), atow(t[2])
		a = func([]W) []W { p, q := decimal.VerifMul10WW(x, y); return []W{p, q} }
		g = func([]W) []W { p, q := decimal.VerifMul10WWg(x, y); return []W{p, q} }
	case "div10WW":
		x1, x0, y := atow(t[1]), atow(t[2]), atow(t[3])
		a = func([]W) []W { p, q := decimal.VerifDiv10WW(x1, x0, y); return []W{p, q} }
		g = func([]W) []W { p, q := decimal.VerifDiv10WWg(x1, x0, y); return []W{p, q} }
	case "div10W":
		n1, n0 := atow(t[1]), atow(t[2])
		a = func([]W) []W { p, q := decimal.VerifDiv10W(n1, n0); return []W{p, q} }
		g = func([]W) []W { p, q := decimal.VerifDiv10Wg(n1, n0); return []W{p, q} }
	case "add10VV", "sub10VV":
		n, z, x, y := atoi(t[1]), atoi(t[2]), atoi(t[3]), atoi(t[4])
		mem = words(t[5:])
		fa, fg := decimal.VerifAdd10VV, decimal.VerifAdd10VVg
		if t[0] == "sub10VV" {
			fa, fg = decimal.VerifSub10VV, decimal.VerifSub10VVg
		}
		a = func(b []W) []W { return []W{fa(sl(b, z, n), sl(b, x, n), sl(b, y, n))} }
		g = func(b []W) []W { return []W{fg(sl(b, z, n), sl(b, x, n), sl(b, y, n))} }
	case "add10VW", "sub10VW", "addMul10VVW":
		n, z, x, y := atoi(t[1]), atoi(t[2]), atoi(t[3]), atow(t[4])
		mem = words(t[5:])
		var fa, fg func(z, x []W, y W) W
		switch t[0] {
		case "add10VW":
			fa, fg = decimal.VerifAdd10VW, decimal.VerifAdd10VWg
		case "sub10VW":
			fa, fg = decimal.VerifSub10VW, decimal.VerifSub10VWg
		default:
			fa, fg = decimal.VerifAddMul10VVW, decimal.VerifAddMul10VVWg
		}
		a = func(b []W) []W { return []W{fa(sl(b, z, n), sl(b, x, n), y)} }
		g = func(b []W) []W { return []W{fg(sl(b, z, n), sl(b, x, n), y)} }
	case "shl10VU", "shr10VU":
		n, z, x, s := atoi(t[1]), atoi(t[2]), atoi(t[3]), uint(atoi(t[4]))
		mem = words(t[5:])
		fa, fg := decimal.VerifShl10VU, decimal.VerifShl10VUg
		if t[0] == "shr10VU" {
			fa, fg = decimal.VerifShr10VU, decimal.VerifShr10VUg
		}
		a = func(b []W) []W { return []W{fa(sl(b, z, n), sl(b, x, n), s)} }
		g = func(b []W) []W { return []W{fg(sl(b, z, n), sl(b, x, n), s)} }
	case "mulAdd10VWW", "div10VWW":
		n, z, x, y, r := atoi(t[1]), atoi(t[2]), atoi(t[3]), atow(t[4]), atow(t[5])
		mem = words(t[6:])
		fa, fg := decimal.VerifMulAdd10VWW, decimal.VerifMulAdd10VWWg
		if t[0] == "div10VWW" {
			fa, fg = decimal.VerifDiv10VWW, decimal.VerifDiv10VWWg
		}
		a = func(b []W) []W { return []W{fa(sl(b, z, n), sl(b, x, n), y, r)} }
		g = func(b []W) []W { return []W{fg(sl(b, z, n), sl(b, x, n), y, r)} }
	case "divWVW":
		n, z, xn, x, y := atoi(t[1]), atoi(t[2]), atow(t[3]), atoi(t[4]), atow(t[5])
		mem = words(t[6:])
		a = func(b []W) []W { return []W{decimal.VerifDivWVW(sl(b, z, n), xn, sl(b, x, n), y)} }
		g = func(b []W) []W { return []W{decimal.VerifDivWVWg(sl(b, z, n), xn, sl(b, x, n), y)} }
	case "decDigits64":
		x := atow(t[1])
		a = func([]W) []W { return []W{W(decimal.VerifDecDigits64(uint64(x)))} }
		g = a
	case "nlz10":
		x := atow(t[1])
		a = func([]W) []W { return []W{W(decimal.VerifNlz10(x))} }
		g = a
	case "trailingZeroDigits":
		x := atow(t[1])
		a = func([]W) []W { return []W{W(decimal.VerifTrailingZeroDigits(uint(x)))} }
		g = a
	case "magicDiv":
		n, x := uint(atoi(t[1])), atow(t[2])
		a = func([]W) []W { q, r := decimal.VerifMagicDiv(n, x); return []W{q, r} }
		g = a
	default:
		panic("unknown kernel " + t[0])
	}
	return
}

func runImpl(f impl, mem []W) (outcome string, res, buf []W, msg string) {
	buf = append([]W(nil), mem...)
	outcome = "ok"
	defer func() {
		if e := recover(); e != nil {
			outcome = "crash"
			msg = fmt.Sprint(e)
		}
	}()
	res = f(buf)
	return
}

func eq(a, b []W) bool {
	if len(a) != len(b) {
		return false
	}
	for i := range a {
		if a[i] != b[i] {
			return false
		}
	}
	return true
}

func processLine(line string, w *bufio.Writer) {
	parts := strings.Split(line, ";")
	pid := strings.TrimSpace(parts[0])
	step := 0
	for _, it := range parts[1:] {
		if t := strings.Fields(it); len(t) > 0 && t[0] == "V" {
			return // a library-level program (replay of the three-builds comparison): not a kernel call
		}
	}
	for _, it := range parts[1:] {
		t := strings.Fields(it)
		if len(t) == 0 {
			continue
		}
		if t[0] != "O" {
			panic("bad item " + it)
		}
		a, g, mem := parse(t[1:])
		oa, ra, ba, msg := runImpl(a, mem)
		og, rg, bg, _ := runImpl(g, mem)
		var b strings.Builder
		fmt.Fprintf(&b, "%s %d %s %s", pid, step, t[1], oa)
		if oa == "ok" {
			for _, v := range ra {
				fmt.Fprintf(&b, " %d", uint64(v))
			}
			for _, v := range ba {
				fmt.Fprintf(&b, " %d", uint64(v))
			}
		} else {
			fmt.Fprintf(&b, " #%s", strings.ReplaceAll(msg, " ", "_"))
		}
		if oa != og || (oa == "ok" && (!eq(ra, rg) || !eq(ba, bg))) {
			b.WriteString(" PORTABLE_GO_TWIN_DIFFERS")
		}
		w.WriteString(b.String())
		w.WriteByte('\n')
		step++
	}
}

func main() {
	sc := bufio.NewScanner(os.Stdin)
	sc.Buffer(make([]byte, 1<<20), 1<<30)
	w := bufio.NewWriterSize(os.Stdout, 1<<20)
	defer w.Flush()
	for sc.Scan() {
		line := sc.Text()
		if len(line) == 0 || line[0] == '#' {
			continue
		}
		processLine(line, w)
	}
}
