// Go side of the C06 correspondence check: executes natural-number operation
// lines against the real `dec` routines of /repo (built with -tags verif,
// through the hooks of verif_hooks.go) and prints observations in the same
// format as the extracted Coq interpreter (harness/ocaml/nmain.ml).
//
// line:   <caseid> ; O <op> <args...> ; O <op> <args...> ...
// output: <caseid> <step> <op> ok|crash <tokens...>
// A word list is written as its length followed by the words.
package main

import (
	"bufio"
	"encoding/hex"
	"fmt"
	"math/big"
	"os"
	"strconv"
	"strings"

	"github.com/db47h/decimal"
)

type Word = decimal.Word

func atoi(s string) int {
	n, err := strconv.ParseInt(s, 10, 64)
	if err != nil {
		panic("bad int " + s)
	}
	return int(n)
}

func atou(s string) uint64 {
	n, err := strconv.ParseUint(s, 10, 64)
	if err != nil {
		panic("bad uint " + s)
	}
	return n
}

// takeList reads "<n> w1 .. wn" from t.
func takeList(t []string) ([]Word, []string) {
	n := atoi(t[0])
	var l []Word
	if n > 0 {
		// exact capacity: the routines must not rely on spare room
		l = make([]Word, n)
	}
	for i := 0; i < n; i++ {
		l[i] = Word(atou(t[1+i]))
	}
	return l, t[1+n:]
}

func putList(res []string, l []Word) []string {
	res = append(res, strconv.Itoa(len(l)))
	for _, w := range l {
		res = append(res, strconv.FormatUint(uint64(w), 10))
	}
	return res
}

var defK, defB, defKS int

func execOp(t []string) (outcome string, res []string) {
	outcome = "ok"
	defer func() {
		if e := recover(); e != nil {
			outcome = "crash"
			res = []string{"#" + strings.ReplaceAll(fmt.Sprint(e), " ", "_")}
		}
	}()
	switch t[0] {
	case "thresholds":
		decimal.VerifThresholds(atoi(t[1]), atoi(t[2]), atoi(t[3]))
	case "poison":
		decimal.VerifPoisonPool(atoi(t[1]), atoi(t[2]), Word(atou(t[3])))
	case "mul":
		x, r := takeList(t[1:])
		y, _ := takeList(r)
		res = putList(res, decimal.VerifDecMul(x, y))
	case "sqr":
		x, _ := takeList(t[1:])
		res = putList(res, decimal.VerifDecSqr(x))
	case "div":
		u, r := takeList(t[1:])
		v, _ := takeList(r)
		q, rem := decimal.VerifDecDiv(u, v)
		res = putList(putList(res, q), rem)
	case "divW":
		x, r := takeList(t[1:])
		q, rem := decimal.VerifDecDivW(x, Word(atou(r[0])))
		res = append(putList(res, q), strconv.FormatUint(uint64(rem), 10))
	case "add":
		x, r := takeList(t[1:])
		y, _ := takeList(r)
		res = putList(res, decimal.VerifDecAdd(x, y))
	case "sub":
		x, r := takeList(t[1:])
		y, _ := takeList(r)
		res = putList(res, decimal.VerifDecSub(x, y))
	case "shl":
		x, r := takeList(t[1:])
		res = putList(res, decimal.VerifDecShl(x, uint(atou(r[0]))))
	case "shr":
		x, r := takeList(t[1:])
		res = putList(res, decimal.VerifDecShr(x, uint(atou(r[0]))))
	case "shlip":
		x, r := takeList(t[1:])
		res = putList(res, decimal.VerifDecShlInPlace(x, uint(atou(r[0]))))
	case "shrip":
		x, r := takeList(t[1:])
		res = putList(res, decimal.VerifDecShrInPlace(x, uint(atou(r[0]))))
	case "cmp":
		x, r := takeList(t[1:])
		y, _ := takeList(r)
		res = append(res, strconv.Itoa(decimal.VerifDecCmp(x, y)))
	case "digit":
		x, r := takeList(t[1:])
		res = append(res, strconv.FormatUint(uint64(decimal.VerifDecDigit(x, uint(atou(r[0])))), 10))
	case "sticky":
		x, r := takeList(t[1:])
		res = append(res, strconv.FormatUint(uint64(decimal.VerifDecSticky(x, uint(atou(r[0])))), 10))
	case "digits":
		x, _ := takeList(t[1:])
		res = append(res, strconv.FormatUint(uint64(decimal.VerifDecDigits(x)), 10))
	case "tz":
		x, _ := takeList(t[1:])
		res = append(res, strconv.FormatUint(uint64(decimal.VerifDecTZ(x)), 10))
	case "setUint64":
		res = putList(res, decimal.VerifDecSetUint64(atou(t[1])))
	case "toUint64":
		x, _ := takeList(t[1:])
		lo, ok := decimal.VerifDecToUint64(x)
		b := "0"
		if ok {
			b = "1"
		}
		res = append(res, strconv.FormatUint(lo, 10), b)
	case "toNat":
		x, _ := takeList(t[1:])
		n := decimal.VerifDecToNat(x)
		res = append(res, strconv.Itoa(len(n)))
		for _, w := range n {
			res = append(res, strconv.FormatUint(uint64(w), 10))
		}
	case "setNat":
		n := atoi(t[1])
		x, _ := takeList(t[2:])
		bw := make([]big.Word, len(x))
		for i, w := range x {
			bw[i] = big.Word(w)
		}
		res = putList(res, decimal.VerifDecSetNat(n, bw))
	case "bytes":
		x, _ := takeList(t[1:])
		b := decimal.VerifDecBytes(x)
		res = append(res, strconv.Itoa(len(b)))
		for _, c := range b {
			res = append(res, strconv.Itoa(int(c)))
		}
	case "setBytes":
		s := t[1]
		if s == "-" {
			s = ""
		}
		b, err := hex.DecodeString(s)
		if err != nil {
			panic("bad hex")
		}
		res = putList(res, decimal.VerifDecSetBytes(b))
	default:
		panic("unknown op " + t[0])
	}
	return
}

func main() {
	defK, defB, defKS = decimal.VerifThresholds(30, 10, 50)
	decimal.VerifThresholds(defK, defB, defKS)
	in := bufio.NewReaderSize(os.Stdin, 1<<20)
	out := bufio.NewWriterSize(os.Stdout, 1<<20)
	defer out.Flush()
	for {
		line, err := in.ReadString('\n')
		if s := strings.TrimSpace(line); s != "" && !strings.HasPrefix(s, "#") {
			parts := strings.Split(s, ";")
			pid := strings.TrimSpace(parts[0])
			step := 0
			// every line starts from the library's own thresholds
			decimal.VerifThresholds(defK, defB, defKS)
			for _, it := range parts[1:] {
				t := strings.Fields(it)
				if len(t) == 0 {
					continue
				}
				if t[0] != "O" {
					fmt.Fprintf(out, "ERROR bad item %q\n", it)
					continue
				}
				outcome, res := execOp(t[1:])
				fmt.Fprintf(out, "%s %d %s %s", pid, step, t[1], outcome)
				for _, r := range res {
					out.WriteString(" ")
					out.WriteString(r)
				}
				out.WriteString("\n")
				step++
			}
		}
		if err != nil {
			break
		}
	}
}
