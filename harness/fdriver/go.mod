module verif/fdriver

go 1.14

require github.com/db47h/decimal v0.0.0

replace github.com/db47h/decimal => /repo
