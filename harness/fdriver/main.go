// Go side of the C05/C15 correspondence checks (Sqrt and the binary
// floating-point conversions): executes program lines against the real library
// (built from /repo with -tags verif) and prints observations in the same
// format as the extracted Coq model (harness/ocaml/fmain.ml).
package main

import (
	"bufio"
	"encoding/hex"
	"fmt"
	"math"
	"math/big"
	"os"
	"strconv"
	"strings"

	"github.com/db47h/decimal"
)

type prog struct {
	pid   string
	vars  []*decimal.Decimal
	ops   [][]string
	extra []interface{}
}

func atoi(s string) int {
	n, err := strconv.ParseInt(s, 10, 64)
	if err != nil {
		panic("bad int " + s)
	}
	return int(n)
}

func atou(s string) uint64 {
	n, err := strconv.ParseUint(s, 10, 64)
	if err != nil {
		panic("bad uint " + s)
	}
	return n
}

func parseVar(t []string) *decimal.Decimal {
	var r decimal.VerifRaw
	r.Form = byte(atoi(t[0]))
	r.Neg = t[1] == "1"
	r.Exp = int32(atoi(t[2]))
	r.Prec = uint32(atou(t[3]))
	r.Mode = byte(atoi(t[4]))
	r.Acc = int8(atoi(t[5]))
	n := atoi(t[6])
	if n > 0 {
		r.Mant = make([]decimal.Word, n)
		for i := 0; i < n; i++ {
			r.Mant[i] = decimal.Word(atou(t[7+i]))
		}
	}
	extra, stale := 0, decimal.Word(0)
	if len(t) >= 9+n {
		extra = atoi(t[7+n])
		stale = decimal.Word(atou(t[8+n]))
	}
	d := new(decimal.Decimal)
	decimal.VerifSet(d, r, extra, stale)
	return d
}

func printDec(b *strings.Builder, d *decimal.Decimal) {
	r := decimal.VerifGet(d)
	neg := 0
	if r.Neg {
		neg = 1
	}
	fmt.Fprintf(b, " | %d %d %d %d %d", r.Form, neg, r.Prec, r.Mode, r.Acc)
	if r.Form == 1 {
		fmt.Fprintf(b, " %d %d", r.Exp, len(r.Mant))
		for _, w := range r.Mant {
			fmt.Fprintf(b, " %d", uint64(w))
		}
	}
}

func b2i(b bool) int {
	if b {
		return 1
	}
	return 0
}

var _ = hex.EncodeToString

// bigFloatObs renders a big.Float as form neg prec mode acc mantissa exponent
// with an odd integer mantissa: |z| = mantissa * 2^exponent.
func bigFloatObs(z *big.Float) []string {
	form := 1
	if z.IsInf() {
		form = 2
	} else if z.Sign() == 0 {
		form = 0
	}
	man, exp := "0", 0
	if form == 1 {
		m := new(big.Float)
		e := z.MantExp(m)
		mp := int(m.MinPrec())
		m.SetMantExp(m, mp)
		i, acc := m.Int(nil)
		if acc != big.Exact {
			panic("mantissa extraction inexact")
		}
		man, exp = i.Abs(i).String(), e-mp
	}
	return []string{strconv.Itoa(form), strconv.Itoa(b2i(z.Signbit())), strconv.FormatUint(uint64(z.Prec()), 10),
		strconv.Itoa(int(z.Mode())), strconv.Itoa(int(z.Acc())), man, strconv.Itoa(exp)}
}

// execOp runs one operation; returns outcome and result tokens.
func execOp(p *prog, t []string) (outcome string, res []string) {
	outcome = "ok"
	defer func() {
		if e := recover(); e != nil {
			if _, ok := e.(decimal.ErrNaN); ok {
				outcome = "nan"
				return
			}
			outcome = "crash"
			res = []string{"#" + strings.NewReplacer(" ", "_", "|", "/").Replace(fmt.Sprint(e))}
		}
	}()
	v := func(s string) *decimal.Decimal { return p.vars[atoi(s)] }
	switch t[0] {
	case "Sqrt":
		v(t[1]).Sqrt(v(t[2]))
	case "SetFloat64":
		bits, err := strconv.ParseUint(t[2], 16, 64)
		if err != nil {
			panic("bad float64 bits")
		}
		v(t[1]).SetFloat64(math.Float64frombits(bits))
	case "SetFloat":
		// SetFloat z form neg man exp prec: x = (-1)^neg * man * 2^exp held at precision prec
		man, ok := new(big.Int).SetString(t[4], 10)
		if !ok {
			panic("bad mantissa")
		}
		x := new(big.Float).SetPrec(uint(atou(t[6])))
		switch t[2] {
		case "1":
			x.SetInt(man)
			if x.Acc() != big.Exact {
				panic("mantissa does not fit the precision")
			}
			x.SetMantExp(x, atoi(t[5]))
			if x.IsInf() || x.Sign() == 0 {
				panic("exponent out of range")
			}
		case "2":
			x.SetInf(false)
		}
		if t[3] == "1" {
			x.Neg(x)
		}
		v(t[1]).SetFloat(x)
	case "Float":
		var z *big.Float
		if t[2] != "nil" {
			z = new(big.Float)
			switch t[4] {
			case "1":
				z.SetInt64(1)
			case "2":
				z.SetInf(false)
			}
			if t[5] == "1" {
				z.Neg(z)
			}
			z.SetMode(big.RoundingMode(atoi(t[3])))
			z.SetPrec(uint(atou(t[2])))
		}
		res = bigFloatObs(v(t[1]).Float(z))
	case "Float64":
		f, a := v(t[1]).Float64()
		res = append(res, strconv.FormatUint(math.Float64bits(f), 10), strconv.Itoa(int(a)))
	case "Float32":
		f, a := v(t[1]).Float32()
		res = append(res, strconv.FormatUint(uint64(math.Float32bits(f)), 10), strconv.Itoa(int(a)))
	case "Cmp":
		res = append(res, strconv.Itoa(v(t[1]).Cmp(v(t[2]))))
	case "Sign":
		res = append(res, strconv.Itoa(v(t[1]).Sign()))
	case "Signbit":
		res = append(res, strconv.Itoa(b2i(v(t[1]).Signbit())))
	case "IsZero":
		res = append(res, strconv.Itoa(b2i(v(t[1]).IsZero())))
	case "IsInf":
		res = append(res, strconv.Itoa(b2i(v(t[1]).IsInf())))
	case "Add":
		v(t[1]).Add(v(t[2]), v(t[3]))
	case "Sub":
		v(t[1]).Sub(v(t[2]), v(t[3]))
	case "Mul":
		v(t[1]).Mul(v(t[2]), v(t[3]))
	case "Quo":
		v(t[1]).Quo(v(t[2]), v(t[3]))
	case "FMA":
		v(t[1]).FMA(v(t[2]), v(t[3]), v(t[4]))
	case "Set":
		v(t[1]).Set(v(t[2]))
	case "Neg":
		v(t[1]).Neg(v(t[2]))
	case "Abs":
		v(t[1]).Abs(v(t[2]))
	case "Copy":
		v(t[1]).Copy(v(t[2]))
	case "SetPrec":
		v(t[1]).SetPrec(uint(atou(t[2])))
	case "SetMode":
		v(t[1]).SetMode(decimal.RoundingMode(atoi(t[2])))
	case "SetInf":
		v(t[1]).SetInf(t[2] == "1")
	case "SetInt64":
		n, err := strconv.ParseInt(t[2], 10, 64)
		if err != nil {
			panic("bad int64")
		}
		v(t[1]).SetInt64(n)
	case "SetUint64":
		v(t[1]).SetUint64(atou(t[2]))
	case "SetInt":
		i, ok := new(big.Int).SetString(t[2], 10)
		if !ok {
			panic("bad big.Int")
		}
		v(t[1]).SetInt(i)
	case "SetRat":
		n, ok1 := new(big.Int).SetString(t[2], 10)
		d, ok2 := new(big.Int).SetString(t[3], 10)
		if !ok1 || !ok2 {
			panic("bad big.Rat")
		}
		v(t[1]).SetRat(new(big.Rat).SetFrac(n, d))
	case "NewDecimal":
		x, err1 := strconv.ParseInt(t[2], 10, 64)
		e, err2 := strconv.ParseInt(t[3], 10, 64)
		if err1 != nil || err2 != nil {
			panic("bad NewDecimal args")
		}
		p.vars[atoi(t[1])] = decimal.NewDecimal(x, int(e))
	case "SetMantExp":
		e, err := strconv.ParseInt(t[3], 10, 64)
		if err != nil {
			panic("bad exp")
		}
		v(t[1]).SetMantExp(v(t[2]), int(e))
	case "MantExp":
		var m *decimal.Decimal
		if t[2] != "-" {
			m = v(t[2])
		}
		res = append(res, strconv.Itoa(v(t[1]).MantExp(m)))
	case "SetBitsExp":
		e, err := strconv.ParseInt(t[2], 10, 64)
		if err != nil {
			panic("bad exp")
		}
		n := atoi(t[3])
		ws := make([]decimal.Word, n)
		for i := 0; i < n; i++ {
			ws[i] = decimal.Word(atou(t[4+i]))
		}
		v(t[1]).SetBitsExp(ws, e)
	case "BitsExp":
		x := v(t[1])
		ws, e := x.BitsExp()
		if x.IsZero() || x.IsInf() {
			e = 0
		}
		res = append(res, strconv.Itoa(int(e)), strconv.Itoa(len(ws)))
		for _, w := range ws {
			res = append(res, strconv.FormatUint(uint64(w), 10))
		}
	case "MinPrec":
		res = append(res, strconv.FormatUint(uint64(v(t[1]).MinPrec()), 10))
	case "IsInt":
		res = append(res, strconv.Itoa(b2i(v(t[1]).IsInt())))
	case "Int64":
		i, a := v(t[1]).Int64()
		res = append(res, strconv.FormatInt(i, 10), strconv.Itoa(int(a)))
	case "Uint64":
		u, a := v(t[1]).Uint64()
		res = append(res, strconv.FormatUint(u, 10), strconv.Itoa(int(a)))
	case "Int":
		i, a := v(t[1]).Int(nil)
		if i == nil {
			res = append(res, "0", "0", strconv.Itoa(int(a)))
		} else {
			res = append(res, "1", i.String(), strconv.Itoa(int(a)))
		}
	case "Rat":
		r, a := v(t[1]).Rat(nil)
		if r == nil {
			res = append(res, "0", "0", "1", strconv.Itoa(int(a)))
		} else {
			res = append(res, "1", r.Num().String(), r.Denom().String(), strconv.Itoa(int(a)))
		}
	case "GobEncode":
		b, err := v(t[1]).GobEncode()
		if err != nil {
			panic(err)
		}
		res = append(res, "x:"+hex.EncodeToString(b))
	case "GobDecode":
		h := t[2]
		if h == "-" {
			h = ""
		}
		b, err := hex.DecodeString(h)
		if err != nil {
			panic("bad hex")
		}
		if err := v(t[1]).GobDecode(b); err != nil {
			res = append(res, "1")
		} else {
			res = append(res, "0")
		}
	case "GobRoundTrip":
		b, err := v(t[2]).GobEncode()
		if err != nil {
			panic(err)
		}
		if err := v(t[1]).GobDecode(b); err != nil {
			res = append(res, "1")
		} else {
			res = append(res, "0")
		}
	default:
		panic("unknown op " + t[0])
	}
	return
}

func processLine(line string, w *bufio.Writer) {
	parts := strings.Split(line, ";")
	p := &prog{pid: strings.TrimSpace(parts[0])}
	for _, it := range parts[1:] {
		t := strings.Fields(it)
		if len(t) == 0 {
			continue
		}
		switch t[0] {
		case "V":
			p.vars = append(p.vars, parseVar(t[1:]))
		case "O":
			p.ops = append(p.ops, t[1:])
		default:
			panic("bad item " + it)
		}
	}
	var b strings.Builder
	for i, o := range p.ops {
		outcome, res := execOp(p, o)
		b.Reset()
		fmt.Fprintf(&b, "%s %d %s %s", p.pid, i, o[0], outcome)
		for _, r := range res {
			b.WriteByte(' ')
			b.WriteString(r)
		}
		for _, d := range p.vars {
			printDec(&b, d)
		}
		w.WriteString(b.String())
		w.WriteByte('\n')
		if outcome == "crash" {
			break
		}
	}
}

func main() {
	sc := bufio.NewScanner(os.Stdin)
	sc.Buffer(make([]byte, 1<<20), 1<<30)
	w := bufio.NewWriterSize(os.Stdout, 1<<20)
	defer w.Flush()
	for sc.Scan() {
		line := sc.Text()
		if len(line) == 0 || line[0] == '#' {
			continue
		}
		processLine(line, w)
	}
}
