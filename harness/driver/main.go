// Go side of the correspondence check: executes program lines against the
// real library (built from /repo with -tags verif) and prints observations in
// the same format as the extracted Coq model.
package main

import (
	"bufio"
	"encoding/hex"
	"fmt"
	"math"
	"math/big"
	"os"
	"runtime"
	"strconv"
	"strings"
	"sync"

	"github.com/db47h/decimal"
	"github.com/db47h/decimal/context"
)

type parSpec struct {
	nrecv, k, procs, rounds int
	gc                      bool
}

type prog struct {
	par *parSpec
	// operations run only in the parallel phase (and once sequentially before it, unprinted, for reference):
	// read-only methods and operations the L3 store model does not have (Sqrt, Text ...)
	parops  [][]string
	parwant [][]string
	ctx     *context.Context
	pid     string
	vars    []*decimal.Decimal
	ops     [][]string
	extra   []interface{}
}

func atoi(s string) int {
	n, err := strconv.ParseInt(s, 10, 64)
	if err != nil {
		panic("bad int " + s)
	}
	return int(n)
}

func atou(s string) uint64 {
	n, err := strconv.ParseUint(s, 10, 64)
	if err != nil {
		panic("bad uint " + s)
	}
	return n
}

func parseVar(t []string) *decimal.Decimal {
	var r decimal.VerifRaw
	r.Form = byte(atoi(t[0]))
	r.Neg = t[1] == "1"
	r.Exp = int32(atoi(t[2]))
	r.Prec = uint32(atou(t[3]))
	r.Mode = byte(atoi(t[4]))
	r.Acc = int8(atoi(t[5]))
	n := atoi(t[6])
	if n > 0 {
		r.Mant = make([]decimal.Word, n)
		for i := 0; i < n; i++ {
			r.Mant[i] = decimal.Word(atou(t[7+i]))
		}
	}
	extra, stale := 0, decimal.Word(0)
	if len(t) >= 9+n {
		extra = atoi(t[7+n])
		stale = decimal.Word(atou(t[8+n]))
	}
	d := new(decimal.Decimal)
	decimal.VerifSet(d, r, extra, stale)
	return d
}

func printDec(b *strings.Builder, d *decimal.Decimal) {
	r := decimal.VerifGet(d)
	neg := 0
	if r.Neg {
		neg = 1
	}
	fmt.Fprintf(b, " | %d %d %d %d %d", r.Form, neg, r.Prec, r.Mode, r.Acc)
	if r.Form == 1 {
		fmt.Fprintf(b, " %d %d", r.Exp, len(r.Mant))
		for _, w := range r.Mant {
			fmt.Fprintf(b, " %d", uint64(w))
		}
	}
}

func b2i(b bool) int {
	if b {
		return 1
	}
	return 0
}

var _ = hex.EncodeToString

// execOp runs one operation; returns outcome and result tokens.
func execOp(p *prog, t []string) (outcome string, res []string) {
	outcome = "ok"
	defer func() {
		if e := recover(); e != nil {
			if _, ok := e.(decimal.ErrNaN); ok {
				outcome = "nan"
				return
			}
			outcome = "crash"
			res = []string{"#" + strings.NewReplacer(" ", "_", "|", "/").Replace(fmt.Sprint(e))}
		}
	}()
	v := func(s string) *decimal.Decimal { return p.vars[atoi(s)] }
	if p.ctx != nil && len(t[0]) > 1 && t[0][0] == 'C' && t[0] != "Cmp" && t[0] != "Copy" {
		c := p.ctx
		switch t[0] {
		case "CAdd":
			c.Add(v(t[1]), v(t[2]), v(t[3]))
		case "CSub":
			c.Sub(v(t[1]), v(t[2]), v(t[3]))
		case "CMul":
			c.Mul(v(t[1]), v(t[2]), v(t[3]))
		case "CQuo":
			c.Quo(v(t[1]), v(t[2]), v(t[3]))
		case "CFMA":
			c.FMA(v(t[1]), v(t[2]), v(t[3]), v(t[4]))
		case "CNeg":
			c.Neg(v(t[1]), v(t[2]))
		case "CAbs":
			c.Abs(v(t[1]), v(t[2]))
		case "CSet":
			c.Set(v(t[1]), v(t[2]))
		case "CSqrt":
			c.Sqrt(v(t[1]), v(t[2]))
		case "CErr":
			err := c.Err()
			if err == nil {
				res = append(res, "0")
			} else if _, ok := err.(decimal.ErrNaN); ok {
				res = append(res, "1")
			} else {
				res = append(res, "2")
			}
		case "CSetPrec":
			c.SetPrec(uint(atou(t[1])))
		case "CSetMode":
			c.SetMode(decimal.RoundingMode(atoi(t[1])))
		case "CNew":
			p.vars[atoi(t[1])] = c.New()
		case "CNewInt64":
			n, err := strconv.ParseInt(t[2], 10, 64)
			if err != nil {
				panic("bad int64")
			}
			p.vars[atoi(t[1])] = c.NewInt64(n)
		case "CNewUint64":
			p.vars[atoi(t[1])] = c.NewUint64(atou(t[2]))
		case "CNilOperand":
			// a run-time error that is not an ErrNaN, through each recovering operation
			k := 0
			if len(t) > 2 {
				k = atoi(t[2])
			}
			switch k {
			case 1:
				c.Sub(v(t[1]), nil, v(t[1]))
			case 2:
				c.Mul(v(t[1]), nil, v(t[1]))
			case 3:
				c.Quo(v(t[1]), nil, v(t[1]))
			case 4:
				c.FMA(v(t[1]), nil, v(t[1]), v(t[1]))
			case 5:
				c.Sqrt(v(t[1]), nil)
			default:
				c.Add(v(t[1]), nil, v(t[1]))
			}
		default:
			panic("unknown context op " + t[0])
		}
		return
	}
	switch t[0] {
	case "Sqrt": // parallel-phase only (R items): not an operation of the L3 store model
		v(t[1]).Sqrt(v(t[2]))
	case "Text":
		res = append(res, "x:"+hex.EncodeToString([]byte(v(t[1]).Text(byte(atoi(t[2])), atoi(t[3])))))
	case "MarshalText":
		b, err := v(t[1]).MarshalText()
		if err != nil {
			panic(err)
		}
		res = append(res, "x:"+hex.EncodeToString(b))
	case "Float64":
		f, a := v(t[1]).Float64()
		res = append(res, strconv.FormatUint(math.Float64bits(f), 16), strconv.Itoa(int(a)))
	case "Cmp":
		res = append(res, strconv.Itoa(v(t[1]).Cmp(v(t[2]))))
	case "Sign":
		res = append(res, strconv.Itoa(v(t[1]).Sign()))
	case "Signbit":
		res = append(res, strconv.Itoa(b2i(v(t[1]).Signbit())))
	case "IsZero":
		res = append(res, strconv.Itoa(b2i(v(t[1]).IsZero())))
	case "IsInf":
		res = append(res, strconv.Itoa(b2i(v(t[1]).IsInf())))
	case "Add":
		v(t[1]).Add(v(t[2]), v(t[3]))
	case "Sub":
		v(t[1]).Sub(v(t[2]), v(t[3]))
	case "Mul":
		v(t[1]).Mul(v(t[2]), v(t[3]))
	case "Quo":
		v(t[1]).Quo(v(t[2]), v(t[3]))
	case "FMA":
		v(t[1]).FMA(v(t[2]), v(t[3]), v(t[4]))
	case "Set":
		v(t[1]).Set(v(t[2]))
	case "Neg":
		v(t[1]).Neg(v(t[2]))
	case "Abs":
		v(t[1]).Abs(v(t[2]))
	case "Copy":
		v(t[1]).Copy(v(t[2]))
	case "SetPrec":
		v(t[1]).SetPrec(uint(atou(t[2])))
	case "SetMode":
		v(t[1]).SetMode(decimal.RoundingMode(atoi(t[2])))
	case "SetInf":
		v(t[1]).SetInf(t[2] == "1")
	case "SetInt64":
		n, err := strconv.ParseInt(t[2], 10, 64)
		if err != nil {
			panic("bad int64")
		}
		v(t[1]).SetInt64(n)
	case "SetUint64":
		v(t[1]).SetUint64(atou(t[2]))
	case "SetInt":
		i, ok := new(big.Int).SetString(t[2], 10)
		if !ok {
			panic("bad big.Int")
		}
		v(t[1]).SetInt(i)
	case "SetRat":
		n, ok1 := new(big.Int).SetString(t[2], 10)
		d, ok2 := new(big.Int).SetString(t[3], 10)
		if !ok1 || !ok2 {
			panic("bad big.Rat")
		}
		v(t[1]).SetRat(new(big.Rat).SetFrac(n, d))
	case "NewDecimal":
		x, err1 := strconv.ParseInt(t[2], 10, 64)
		e, err2 := strconv.ParseInt(t[3], 10, 64)
		if err1 != nil || err2 != nil {
			panic("bad NewDecimal args")
		}
		p.vars[atoi(t[1])] = decimal.NewDecimal(x, int(e))
	case "SetMantExp":
		e, err := strconv.ParseInt(t[3], 10, 64)
		if err != nil {
			panic("bad exp")
		}
		v(t[1]).SetMantExp(v(t[2]), int(e))
	case "MantExp":
		var m *decimal.Decimal
		if t[2] != "-" {
			m = v(t[2])
		}
		res = append(res, strconv.Itoa(v(t[1]).MantExp(m)))
	case "SetBitsExp":
		e, err := strconv.ParseInt(t[2], 10, 64)
		if err != nil {
			panic("bad exp")
		}
		n := atoi(t[3])
		ws := make([]decimal.Word, n)
		for i := 0; i < n; i++ {
			ws[i] = decimal.Word(atou(t[4+i]))
		}
		v(t[1]).SetBitsExp(ws, e)
	case "BitsExp":
		x := v(t[1])
		ws, e := x.BitsExp()
		if x.IsZero() || x.IsInf() {
			e = 0
		}
		res = append(res, strconv.Itoa(int(e)), strconv.Itoa(len(ws)))
		for _, w := range ws {
			res = append(res, strconv.FormatUint(uint64(w), 10))
		}
	case "MinPrec":
		res = append(res, strconv.FormatUint(uint64(v(t[1]).MinPrec()), 10))
	case "IsInt":
		res = append(res, strconv.Itoa(b2i(v(t[1]).IsInt())))
	case "Int64":
		i, a := v(t[1]).Int64()
		res = append(res, strconv.FormatInt(i, 10), strconv.Itoa(int(a)))
	case "Uint64":
		u, a := v(t[1]).Uint64()
		res = append(res, strconv.FormatUint(u, 10), strconv.Itoa(int(a)))
	case "Int":
		i, a := v(t[1]).Int(nil)
		// the documented out-parameter form must give the same answer whatever the argument held before
		for _, dirty := range dirtyInts() {
			j, b := v(t[1]).Int(dirty)
			if (i == nil) != (j == nil) || a != b || (i != nil && (i.Cmp(j) != 0 || j != dirty)) {
				panic("Int(reused big.Int) differs from Int(nil)")
			}
		}
		if i == nil {
			res = append(res, "0", "0", strconv.Itoa(int(a)))
		} else {
			res = append(res, "1", i.String(), strconv.Itoa(int(a)))
		}
	case "Rat":
		r, a := v(t[1]).Rat(nil)
		for _, dirty := range dirtyRats() {
			q, b := v(t[1]).Rat(dirty)
			if (r == nil) != (q == nil) || a != b || (r != nil && (r.Cmp(q) != 0 || q != dirty || r.Denom().Cmp(q.Denom()) != 0)) {
				panic("Rat(reused big.Rat) differs from Rat(nil)")
			}
		}
		if r == nil {
			res = append(res, "0", "0", "1", strconv.Itoa(int(a)))
		} else {
			res = append(res, "1", r.Num().String(), r.Denom().String(), strconv.Itoa(int(a)))
		}
	case "GobEncode":
		b, err := v(t[1]).GobEncode()
		if err != nil {
			panic(err)
		}
		res = append(res, "x:"+hex.EncodeToString(b))
	case "GobDecode":
		h := t[2]
		if h == "-" {
			h = ""
		}
		b, err := hex.DecodeString(h)
		if err != nil {
			panic("bad hex")
		}
		if err := v(t[1]).GobDecode(b); err != nil {
			res = append(res, "1")
		} else {
			res = append(res, "0")
		}
	case "GobRoundTrip":
		b, err := v(t[2]).GobEncode()
		if err != nil {
			panic(err)
		}
		if err := v(t[1]).GobDecode(b); err != nil {
			res = append(res, "1")
		} else {
			res = append(res, "0")
		}
	default:
		panic("unknown op " + t[0])
	}
	return
}

func processLine(line string, w *bufio.Writer) {
	parts := strings.Split(line, ";")
	p := &prog{pid: strings.TrimSpace(parts[0])}
	for _, it := range parts[1:] {
		t := strings.Fields(it)
		if len(t) == 0 {
			continue
		}
		switch t[0] {
		case "V":
			p.vars = append(p.vars, parseVar(t[1:]))
		case "O":
			p.ops = append(p.ops, t[1:])
		case "C":
			c := context.New(uint(atou(t[1])), decimal.RoundingMode(atoi(t[2])))
			p.ctx = &c
		case "R":
			p.parops = append(p.parops, t[1:])
		case "P":
			p.par = &parSpec{nrecv: atoi(t[1]), k: atoi(t[2]), procs: atoi(t[3]), rounds: atoi(t[4]), gc: t[5] == "1"}
		default:
			panic("bad item " + it)
		}
	}
	var snap []decimal.VerifRaw
	if p.par != nil {
		for _, d := range p.vars {
			snap = append(snap, decimal.VerifGet(d))
		}
	}
	var b strings.Builder
	for i, o := range p.ops {
		outcome, res := execOp(p, o)
		b.Reset()
		fmt.Fprintf(&b, "%s %d %s %s", p.pid, i, o[0], outcome)
		for _, r := range res {
			b.WriteByte(' ')
			b.WriteString(r)
		}
		for _, d := range p.vars {
			printDec(&b, d)
		}
		w.WriteString(b.String())
		w.WriteByte('\n')
		if outcome == "crash" && p.ctx == nil {
			break
		}
	}
	if p.par != nil {
		mism, opchg := runParallel(p, snap)
		fmt.Fprintf(w, "%s %d Par ok %d %d\n", p.pid, len(p.ops), mism, opchg)
	}
}

func sameRaw(a, b decimal.VerifRaw) bool {
	if a.Form != b.Form || a.Neg != b.Neg || a.Prec != b.Prec || a.Mode != b.Mode || a.Acc != b.Acc {
		return false
	}
	if a.Form != 1 {
		return true
	}
	if a.Exp != b.Exp || len(a.Mant) != len(b.Mant) {
		return false
	}
	for i := range a.Mant {
		if a.Mant[i] != b.Mant[i] {
			return false
		}
	}
	return true
}

// runParallel runs the program's operations in k goroutines that share the
// operand variables (indices >= nrecv) and own private copies of the receiver
// variables (indices < nrecv), and compares every goroutine's receivers with the
// sequential result (p.vars after the sequential run) and the shared operands
// with their initial state.
func runParallel(p *prog, snap []decimal.VerifRaw) (mism, opchg int) {
	ps := p.par
	old := runtime.GOMAXPROCS(ps.procs)
	defer runtime.GOMAXPROCS(old)
	type outcomeT struct {
		crashed bool
		recv    []decimal.VerifRaw
		res     []string
	}
	var outcomes []outcomeT
	shared := p.vars[ps.nrecv:]
	var wg sync.WaitGroup
	var mu sync.Mutex
	done := make(chan struct{})
	if ps.gc {
		go func() {
			for {
				select {
				case <-done:
					return
				default:
					runtime.GC()
				}
			}
		}()
	}
	for g := 0; g < ps.k; g++ {
		wg.Add(1)
		go func(g int) {
			defer wg.Done()
			for r := 0; r < ps.rounds; r++ {
				q := &prog{pid: p.pid}
				for i := 0; i < ps.nrecv; i++ {
					d := new(decimal.Decimal)
					decimal.VerifSet(d, snap[i], (g+r)%3, decimal.Word(g))
					q.vars = append(q.vars, d)
				}
				q.vars = append(q.vars, shared...)
				var oc outcomeT
				for _, o := range p.ops {
					if out, _ := execOp(q, o); out == "crash" {
						oc.crashed = true
						break
					}
				}
				for _, o := range p.parops {
					out, res := execOp(q, o)
					oc.res = append(oc.res, strings.Join(append([]string{out}, res...), " "))
				}
				for i := 0; i < ps.nrecv; i++ {
					oc.recv = append(oc.recv, decimal.VerifGet(q.vars[i]))
				}
				mu.Lock()
				outcomes = append(outcomes, oc)
				mu.Unlock()
			}
		}(g)
	}
	wg.Wait()
	close(done)
	// sequential reference, computed after the parallel phase
	var pwant []string
	for _, o := range p.parops {
		out, res := execOp(p, o)
		pwant = append(pwant, strings.Join(append([]string{out}, res...), " "))
	}
	for _, oc := range outcomes {
		if oc.crashed {
			mism++
		}
		for i := range pwant {
			if i >= len(oc.res) || oc.res[i] != pwant[i] {
				mism++
			}
		}
		for i := 0; i < ps.nrecv; i++ {
			if !sameRaw(oc.recv[i], decimal.VerifGet(p.vars[i])) {
				mism++
			}
		}
	}
	for i, d := range shared {
		if !sameRaw(decimal.VerifGet(d), snap[ps.nrecv+i]) {
			opchg++
		}
	}
	return
}

func main() {
	sc := bufio.NewScanner(os.Stdin)
	sc.Buffer(make([]byte, 1<<20), 1<<30)
	w := bufio.NewWriterSize(os.Stdout, 1<<20)
	defer w.Flush()
	for sc.Scan() {
		line := sc.Text()
		if len(line) == 0 || line[0] == '#' {
			continue
		}
		processLine(line, w)
	}
}

// previously used out-parameters for Int / Rat
func dirtyInts() []*big.Int {
	a, _ := new(big.Int).SetString("-123456789012345678901234567890123456789012345678901234567890123456789", 10)
	return []*big.Int{a, big.NewInt(-7), new(big.Int)}
}

func dirtyRats() []*big.Rat {
	n, _ := new(big.Int).SetString("123456789012345678901234567890123456789012345678901", 10)
	d, _ := new(big.Int).SetString("-98765432109876543210987654321098765432109876543", 10)
	return []*big.Rat{big.NewRat(-22, 7), new(big.Rat).SetFrac(n, d), big.NewRat(5, 4), new(big.Rat)}
}
