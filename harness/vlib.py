"""Shared machinery of the checks: build, run both sides, diff, evidence."""
import sys as _sys
_sys.set_int_max_str_digits(0)
import fcntl, hashlib, json, os, random, re, subprocess, sys, time

ROOT = os.path.dirname(os.path.dirname(os.path.abspath(__file__)))
BUILD = os.path.join(ROOT, "build")
COQ = os.path.join(ROOT, "coq")
REPO = "/repo"
GOENV = dict(os.environ, GOFLAGS="-mod=mod", GOPROXY="off", GOSUMDB="off", GOTOOLCHAIN="local",
             GOCACHE=os.path.join(BUILD, "gocache"))
COQW = "-deprecated-hint-without-locality,-deprecated-syntactic-definition"
B = 10 ** 19
FORBIDDEN = r"\b(Admitted|admit|Axiom|Axioms|Parameter|Parameters|Conjecture|Hypothesis|Variable|Unset Guard|bypass_check|type-in-type|impredicative-set)\b"


def sh(cmd, timeout=600, cwd=None, env=None, inp=None):
    t0 = time.time()
    try:
        p = subprocess.run(cmd, shell=isinstance(cmd, str), cwd=cwd, env=env, input=inp,
                           stdout=subprocess.PIPE, stderr=subprocess.STDOUT, timeout=timeout, text=True)
        return p.returncode, p.stdout, time.time() - t0
    except subprocess.TimeoutExpired as e:
        out = e.stdout if isinstance(e.stdout, str) else (e.stdout or b"").decode("utf8", "replace")
        return 124, (out or "") + "\nTIMEOUT", time.time() - t0


class Lock:
    def __enter__(self):
        os.makedirs(BUILD, exist_ok=True)
        self.f = open(os.path.join(BUILD, ".lock"), "w")
        fcntl.flock(self.f, fcntl.LOCK_EX)
        return self

    def __exit__(self, *a):
        fcntl.flock(self.f, fcntl.LOCK_UN)
        self.f.close()


def file_hash(paths):
    h = hashlib.sha256()
    for p in paths:
        try:
            with open(p, "rb") as f:
                h.update(f.read())
        except OSError:
            h.update(b"<missing>")
    return h.hexdigest()


def write_if_changed(path, content):
    try:
        if open(path).read() == content:
            return False
    except OSError:
        pass
    os.makedirs(os.path.dirname(path), exist_ok=True)
    with open(path, "w") as f:
        f.write(content)
    return True


# ----------------------------------------------------------------------------
# build

def coq_files():
    out = []
    for line in open(os.path.join(COQ, "_CoqProject")):
        line = line.strip()
        if line.endswith(".v"):
            out.append(line)
    return out


def run_translators(log):
    """Regenerate gen/*.v from /repo's current source (tie #1)."""
    ok = True
    gen = os.path.join(ROOT, "tools", "go2coq")
    if os.path.isdir(gen):
        rc, out, dt = sh(["go", "run", ".", "-repo", REPO, "-out", os.path.join(COQ, "theories", "gen")],
                         timeout=300, cwd=gen, env=GOENV)
        log.append(("go2coq", rc, dt, out[-2000:]))
        ok &= rc == 0
    a2c = os.path.join(ROOT, "tools", "asm2coq.py")
    if os.path.exists(a2c):
        rc, out, dt = sh([sys.executable, a2c, "--repo", REPO, "--out", os.path.join(COQ, "theories", "gen", "AsmProgs.v")],
                         timeout=120)
        log.append(("asm2coq", rc, dt, out[-2000:]))
        ok &= rc == 0
    return ok


def build_coq(log):
    """Full .vo build (never -vos). Returns (ok, failed_files)."""
    if not os.path.exists(os.path.join(COQ, "Makefile")) or \
            os.path.getmtime(os.path.join(COQ, "Makefile")) < os.path.getmtime(os.path.join(COQ, "_CoqProject")):
        sh("coq_makefile -f _CoqProject -o Makefile", cwd=COQ)
    # every coqc under a wall-clock and an address-space limit: a runaway file must not stall all checks
    rc, out, dt = sh("ulimit -v 20000000; make -k -j16 COQC='timeout 1500 coqc'", timeout=3000, cwd=COQ)
    failed = re.findall(r'File "\./(theories/[^"]+)", line (\d+)', out)
    log.append(("coq-make", rc, dt, out[-3000:] if rc else ""))
    return rc == 0, failed, out


def build_runner(log):
    """Extract the model and build the OCaml runner if the model changed."""
    ex = os.path.join(BUILD, "extract")
    os.makedirs(ex, exist_ok=True)
    rc, out, dt = sh(["coqc", "-Q", os.path.join(COQ, "theories"), "Dec", "-w", COQW, "-o", "./Extract.vo",
                      os.path.join(COQ, "theories", "Extract", "Extract.v")], cwd=ex, timeout=600)
    log.append(("extract", rc, dt, out[-2000:] if rc else ""))
    if rc:
        return False
    main_src = os.path.join(ROOT, "harness", "ocaml", "main.ml")
    h = file_hash([os.path.join(ex, "model.ml"), main_src])
    stamp = os.path.join(BUILD, "runner.hash")
    runner = os.path.join(BUILD, "runner")
    if os.path.exists(runner) and os.path.exists(stamp) and open(stamp).read() == h:
        return True
    sh(["cp", main_src, os.path.join(ex, "main.ml")])
    rc, out, dt = sh("ocamlfind ocamlopt -package zarith -linkpkg -w -a -inline 100 model.mli model.ml main.ml -o ../runner",
                     cwd=ex, timeout=600)
    log.append(("ocaml", rc, dt, out[-2000:] if rc else ""))
    if rc == 0:
        open(stamp, "w").write(h)
    return rc == 0


def build_driver(log, tags="verif", name="driver"):
    d = os.path.join(ROOT, "harness", "driver")
    if os.path.exists(os.path.join(REPO, "go.sum")):
        sh(["cp", os.path.join(REPO, "go.sum"), d])
    rc, out, dt = sh(["go", "build", "-tags", tags, "-o", os.path.join(BUILD, name), "."], cwd=d, env=GOENV, timeout=600)
    log.append(("go-build[%s]" % tags, rc, dt, out[-3000:] if rc else ""))
    return rc == 0, out


def forbidden_scan():
    hits = []
    for root, _, files in os.walk(os.path.join(COQ, "theories")):
        for fn in files:
            if fn.endswith(".v"):
                p = os.path.join(root, fn)
                txt = open(p).read()
                # strip comments (non-nested is enough: we do not nest)
                txt2 = re.sub(r"\(\*.*?\*\)", lambda m: "\n" * m.group(0).count("\n"), txt, flags=re.S)
                for i, line in enumerate(txt2.split("\n"), 1):
                    m = re.search(FORBIDDEN, line)
                    if m:
                        # Variables/Hypotheses inside sections are allowed
                        if m.group(1) in ("Hypothesis", "Variable") and in_section(txt2, i):
                            continue
                        hits.append("%s:%d: %s" % (os.path.relpath(p, ROOT), i, line.strip()))
    return hits


def in_section(txt, lineno):
    depth = 0
    for i, line in enumerate(txt.split("\n"), 1):
        if i >= lineno:
            break
        if re.match(r"\s*Section\s+\w+", line):
            depth += 1
        elif re.match(r"\s*End\s+\w+", line) and depth > 0:
            depth -= 1
    return depth > 0


def check_props_file(pid, log):
    """Compile Props/<pid>.v and its supplements Props/<pid>[a-z].v on their own and collect theorem names and assumptions."""
    pdir = os.path.join(COQ, "theories", "Props")
    names = [pid] + sorted(f[:-2] for f in os.listdir(pdir) if re.fullmatch(re.escape(pid) + r"[a-z]\.v", f))
    if not os.path.exists(os.path.join(pdir, pid + ".v")):
        return dict(exists=False, ok=False, theorems=[], assumptions=[], out="")
    res = dict(exists=True, ok=True, theorems=[], examples=[], closed=0, axioms=[], out="", secs=0.0, files=[])
    os.makedirs(os.path.join(BUILD, "props"), exist_ok=True)
    for name in names:
        txt = open(os.path.join(pdir, name + ".v")).read()
        res["theorems"] += re.findall(r"^(?:Theorem|Lemma|Corollary)\s+(\w+)", txt, flags=re.M)
        res["examples"] += re.findall(r"^Example\s+(\w+)", txt, flags=re.M)
        rc, out, dt = sh(["coqc", "-Q", "theories", "Dec", "-w", COQW, "-o", os.path.join(BUILD, "props", name + ".vo"),
                          os.path.join("theories", "Props", name + ".v")], cwd=COQ, timeout=900)
        log.append(("props-" + name, rc, dt, out[-3000:] if rc else ""))
        res["ok"] = res["ok"] and rc == 0
        res["closed"] += out.count("Closed under the global context")
        for m in re.finditer(r"Axioms:\n((?:.+\n?)+?)(?:\n|$)", out):
            for l in m.group(1).split("\n"):
                mm = re.match(r"(\S+)\s*:", l)
                if mm:
                    res["axioms"].append(mm.group(1))
        res["out"] += out
        res["secs"] += dt
        res["files"].append("Props/%s.v" % name)
    res["axioms"] = sorted(set(res["axioms"]))
    return res


# ----------------------------------------------------------------------------
# running the two sides

def run_side(binary, case_text, timeout=900, memlimit_kb=12 * 1024 * 1024):
    """Runs one side on the case text.  A death of the process by a runtime resource failure (Go 'fatal error:
    ... out of memory / cannot allocate / failed to create new OS thread', OCaml Out_of_memory at start-up), which
    happens at start-up when many checks share the machine, is retried twice; a failure
    caused by the code under test is deterministic, survives the retries and is reported."""
    total = 0.0
    for attempt in range(3):
        cmd = "ulimit -v %d; ulimit -s 2000000 2>/dev/null; exec %s" % (memlimit_kb, binary)
        rc, out, dt = sh(cmd, timeout=timeout, inp=case_text)
        total += dt
        resource = rc != 0 and rc != 124 and re.search(
            r"failed to create new OS thread|newosproc|runtime: may need to increase max user processes|"
            r"Cannot allocate memory|errno=11|errno=12", out) and dt < 30
        if not resource:
            break
        time.sleep(3 + 5 * attempt)
    return rc, out, total


def parse_obs(line):
    """'<pid> <step> <op> <outcome> res... | var | var' -> (key, outcome, res, vars) canonicalised."""
    parts = line.split(" | ")
    head = parts[0].split()
    key = (head[0], int(head[1]))
    opn, outcome = head[2], head[3]
    res = [t for t in head[4:] if not t.startswith("#")]
    vs = []
    for p in parts[1:]:
        t = p.split()
        form, neg, prec, mode, acc = t[0], t[1], t[2], t[3], t[4]
        if form == "1":
            exp = t[5]
            n = int(t[6])
            words = t[7:7 + n]
            raw = tuple(words)
            i = 0
            while i < len(words) and words[i] == "0":
                i += 1
            vs.append((form, neg, prec, mode, acc, exp, tuple(words[i:]), raw))
        else:
            vs.append((form, neg, prec, mode, acc, None, (), ()))
    return key, opn, outcome, res, vs


def canon_obs(o):
    key, opn, outcome, res, vs = o
    return (opn, outcome, tuple(res), tuple(v[:7] for v in vs))


def diff_outputs(go_out, ml_out):
    """Compare canonical observations; returns list of (key, go_line, ml_line)."""
    g, m = {}, {}
    bad = []
    for line in go_out.split("\n"):
        if line.strip() and not line.startswith("ERROR"):
            try:
                o = parse_obs(line)
                g[o[0]] = (o, line)
            except Exception as e:  # malformed
                bad.append((None, line, "unparsable go line: %s" % e))
    for line in ml_out.split("\n"):
        if line.startswith("ERROR"):
            bad.append((None, "", line))
        elif line.strip():
            try:
                o = parse_obs(line)
                m[o[0]] = (o, line)
            except Exception as e:
                bad.append((None, "", "unparsable model line: %s (%s)" % (line[:200], e)))
    diffs = []
    for k in sorted(set(g) | set(m)):
        if k not in g:
            # model went further than impl (impl crashed) — the crash line itself will differ
            prev = (k[0], k[1] - 1)
            if prev in g and g[prev][0][2] == "crash":
                continue
            diffs.append((k, None, m[k][1]))
        elif k not in m:
            prev = (k[0], k[1] - 1)
            if prev in m and m[prev][0][2] == "crash":
                continue
            diffs.append((k, g[k][1], None))
        elif canon_obs(g[k][0]) != canon_obs(m[k][0]):
            diffs.append((k, g[k][1], m[k][1]))
    return diffs, bad, g, m


# ----------------------------------------------------------------------------
# Decimal values for generators

class Dv:
    """A raw Decimal for the case files."""

    def __init__(self, form=0, neg=0, exp=0, prec=0, mode=0, acc=0, words=(), extracap=0, stale=0):
        self.form, self.neg, self.exp, self.prec, self.mode, self.acc = form, neg, exp, prec, mode, acc
        self.words, self.extracap, self.stale = list(words), extracap, stale

    def item(self):
        return "V %d %d %d %d %d %d %d %s %d %d" % (
            self.form, self.neg, self.exp, self.prec, self.mode, self.acc, len(self.words),
            " ".join(map(str, self.words)), self.extracap, self.stale)


def ndigits(n):
    return len(str(n)) if n > 0 else 0


def to_words(n, k):
    ws = []
    for _ in range(k):
        ws.append(n % B)
        n //= B
    return ws


def fin(coeff, exp10, prec=None, neg=0, mode=0, acc=0, pad=0, extracap=0, stale=0):
    """finite value coeff * 10^exp10 (coeff > 0 integer); `exp` field is set so that
    value = 0.d1d2... * 10^exp; pad = extra low zero words."""
    assert coeff > 0
    nd = ndigits(coeff)
    nw = (nd + 18) // 19 + pad
    m = coeff * 10 ** (19 * nw - nd)
    ws = to_words(m, nw)
    minprec = nd - (len(str(coeff)) - len(str(coeff).rstrip("0")))
    if prec is None:
        prec = max(minprec, 1)
    assert prec >= minprec, (coeff, prec, minprec)
    return Dv(1, neg, exp10 + nd, prec, mode, acc, ws, extracap, stale)


def zero(neg=0, prec=0, mode=0, acc=0):
    return Dv(0, neg, 0, prec, mode, acc, [])


def inf(neg=0, prec=0, mode=0, acc=0):
    return Dv(2, neg, 0, prec, mode, acc, [])


def program(pid, vars_, ops):
    return "%s ; %s ; %s" % (pid, " ; ".join(v.item() for v in vars_), " ; ".join("O " + o for o in ops))


# ----------------------------------------------------------------------------
# Coq literal rendering (for the in-kernel vm_compute sample)

def coq_z(s):
    s = str(s)
    return "(%s)" % s if s.startswith("-") else s


def coq_list(items):
    return "[" + "; ".join(items) + "]"


FORMS = ["Fzero", "Ffinite", "Finf"]
MODES = ["ToNearestEven", "ToNearestAway", "ToZero", "AwayFromZero", "ToNegativeInf", "ToPositiveInf"]
ACCS = {"-1": "Below", "0": "Exact", "1": "Above", -1: "Below", 0: "Exact", 1: "Above"}


def coq_dec_from_dv(d):
    return "(mkDec %s %s %s %s %s %s %s)" % (
        coq_list([coq_z(w) for w in d.words]), coq_z(d.exp), coq_z(d.prec), MODES[d.mode], ACCS[d.acc],
        FORMS[d.form], "true" if d.neg else "false")


def coq_dec_from_obs(v):
    form, neg, prec, mode, acc, exp, stripped, raw = v
    return "(mkDec %s %s %s %s %s %s %s)" % (
        coq_list([coq_z(w) for w in raw]), coq_z(exp if exp is not None else 0), coq_z(prec), MODES[int(mode)],
        ACCS[acc], FORMS[int(form)], "true" if neg == "1" else "false")
