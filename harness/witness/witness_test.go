// Witnesses of the defects found on the pinned tree (DESIGN.md section 8).
// Each test fails on the unrepaired code and passes after the matching
// "fix:" commit in /repo.
package witness

import (
	"bytes"
	"encoding/gob"
	"fmt"
	"math"
	"math/big"
	"strings"
	"testing"

	"github.com/db47h/decimal"
	"github.com/db47h/decimal/context"
)

func dec(s string, prec uint, mode decimal.RoundingMode) *decimal.Decimal {
	z, _, err := new(decimal.Decimal).SetPrec(prec).SetMode(mode).Parse(s, 10)
	if err != nil {
		panic(err)
	}
	return z
}

func str(z *decimal.Decimal) string {
	s := z.Text('g', -1)
	if z.IsZero() && z.Signbit() && s[0] != '-' {
		s = "-" + s
	}
	return fmt.Sprintf("%s/%v", s, z.Acc())
}

// F1: Knuth D add-back does not wrap at 10^19
func TestF1_QuoExact(t *testing.T) {
	for _, c := range [][2]string{
		{"9999999999965690540527656940708383153099999999999999999999999999999999999999", "99999999999999999999999999999999999999"},
		{"782725715221256840099999999999564711629999999999929790292", "99999999999697691039999999999999999999"},
		{"9999999999999999999000000000000000000099999999999999999999999999999999999999", "999999999993944519799999999999999999995353898390342291031"},
	} {
		y := dec(c[0], 400, 0)
		q := dec(c[1], 400, 0)
		x := new(decimal.Decimal).SetPrec(800).Mul(q, y)
		if x.Acc() != decimal.Exact {
			t.Fatal("setup")
		}
		z := new(decimal.Decimal).SetPrec(uint(len(c[1])+5)).Quo(x, y)
		if z.Cmp(q) != 0 || z.Acc() != decimal.Exact {
			t.Errorf("(q*y)/y with y=%s q=%s: got %s", c[0], c[1], str(z))
		}
	}
}

// F2: Sub(±0, y) rounds before negating
func TestF2_SubZero(t *testing.T) {
	z := new(decimal.Decimal).SetPrec(2).SetMode(decimal.ToPositiveInf)
	z.Sub(new(decimal.Decimal), dec("1.25", 3, decimal.ToNearestEven))
	if got := str(z); got != "-1.2/Above" {
		t.Errorf("Sub(0, 1.25) prec 2 ToPositiveInf = %s, want -1.2/Above", got)
	}
}

// F3: FMA with u = ±0 and FMA with z == u buffer-less
func TestF3_FMA(t *testing.T) {
	negz := new(decimal.Decimal).Neg(new(decimal.Decimal))
	z := new(decimal.Decimal).FMA(negz, dec("5", 1, 0), new(decimal.Decimal))
	if z.Signbit() {
		t.Errorf("FMA(-0,5,+0) = -0, want +0")
	}
	z = new(decimal.Decimal).SetMode(decimal.ToNegativeInf).FMA(new(decimal.Decimal), dec("5", 1, 0), negz)
	if !z.Signbit() {
		t.Errorf("FMA(+0,5,-0) ToNegativeInf = +0, want -0")
	}
	z = new(decimal.Decimal).SetInf(false)
	z.FMA(dec("2", 1, 0), dec("5", 1, 0), z)
	if !z.IsInf() {
		t.Errorf("z=+Inf; z.FMA(2,5,z) = %s, want +Inf", str(z))
	}
}

// F4: SetFloat tests the receiver instead of the argument
func TestF4_SetFloatInf(t *testing.T) {
	defer func() {
		if e := recover(); e != nil {
			t.Errorf("SetFloat(+Inf) panicked: %v", e)
		}
	}()
	z := new(decimal.Decimal).SetFloat(new(big.Float).SetInf(false))
	if !z.IsInf() || z.Signbit() {
		t.Errorf("SetFloat(+Inf) = %s", str(z))
	}
	z = new(decimal.Decimal).SetInf(true)
	z.SetFloat(big.NewFloat(1.5))
	if z.IsInf() {
		t.Errorf("(-Inf).SetFloat(1.5) stays Inf")
	}
}

// F13: SetFloat(-0) loses the sign
func TestF13_SetFloatNegZero(t *testing.T) {
	z := new(decimal.Decimal).SetPrec(5).SetFloat(new(big.Float).SetFloat64(math.Copysign(0, -1)))
	if !z.IsZero() || !z.Signbit() || z.Prec() != 5 {
		t.Errorf("SetPrec(5).SetFloat(-0) = %s prec %d, want -0 prec 5", str(z), z.Prec())
	}
}

// F5: Sqrt takes the operand's mode
func TestF5_SqrtMode(t *testing.T) {
	x := dec("2", 10, decimal.ToZero)
	z := new(decimal.Decimal).SetPrec(5).SetMode(decimal.ToPositiveInf)
	z.Sqrt(x)
	if z.Mode() != decimal.ToPositiveInf {
		t.Errorf("Sqrt changed the receiver's mode to %v", z.Mode())
	}
	if got := z.Text('g', -1); got != "1.4143" {
		t.Errorf("Sqrt(2) prec 5 ToPositiveInf = %s, want 1.4143", got)
	}
}

// F6: SetInt(0)/SetRat(0) force precision 34
func TestF6_SetIntZeroPrec(t *testing.T) {
	z := new(decimal.Decimal).SetPrec(5).SetInt(new(big.Int))
	if z.Prec() != 5 {
		t.Errorf("SetPrec(5).SetInt(0).Prec() = %d", z.Prec())
	}
	z = new(decimal.Decimal).SetPrec(7).SetRat(new(big.Rat))
	if z.Prec() != 7 {
		t.Errorf("SetPrec(7).SetRat(0).Prec() = %d", z.Prec())
	}
}

// F7: SetBitsExp on a zero-precision receiver
func TestF7_SetBitsExpPrec0(t *testing.T) {
	defer func() {
		if e := recover(); e != nil {
			t.Errorf("new(Decimal).SetBitsExp([1],1) panicked: %v", e)
		}
	}()
	z := new(decimal.Decimal).SetBitsExp([]decimal.Word{1}, 1)
	if z.Cmp(dec("1e-18", 30, 0)) != 0 {
		t.Errorf("SetBitsExp([1],1) = %s", str(z))
	}
}

// F8: GobDecode on short or malformed input
func TestF8_GobDecode(t *testing.T) {
	for _, b := range [][]byte{{1, 2, 3}, {1}, {1, 2}, {1, 2, 0, 0, 0, 5}, {1, 2, 0, 0, 0, 5, 0, 0, 0}} {
		func() {
			defer func() {
				if e := recover(); e != nil {
					t.Errorf("GobDecode(%v) panicked: %v", b, e)
				}
			}()
			new(decimal.Decimal).GobDecode(b)
		}()
	}
	// word >= 10^19
	b := []byte{1, 2, 0, 0, 0, 5, 0, 0, 0, 1, 0xff, 0xff, 0xff, 0xff, 0xff, 0xff, 0xff, 0xff}
	z := new(decimal.Decimal)
	if err := z.GobDecode(b); err == nil {
		t.Errorf("GobDecode accepted a mantissa word >= 10^19: %s", str(z))
	}
	// form 3
	b = []byte{1, 6, 0, 0, 0, 5}
	if err := new(decimal.Decimal).GobDecode(b); err == nil {
		t.Errorf("GobDecode accepted form 3")
	}
	// mode 7
	b = []byte{1, 7 << 5, 0, 0, 0, 5}
	if err := new(decimal.Decimal).GobDecode(b); err == nil {
		t.Errorf("GobDecode accepted mode 7")
	}
}

func TestF8b_GobEncodeMaxPrec(t *testing.T) {
	x := dec("1.5", 2, 0)
	x.SetPrec(decimal.MaxPrec)
	var buf bytes.Buffer
	if err := gob.NewEncoder(&buf).Encode(x); err != nil {
		t.Fatal(err)
	}
	y := new(decimal.Decimal)
	if err := gob.NewDecoder(&buf).Decode(y); err != nil {
		t.Fatal(err)
	}
	if y.Cmp(x) != 0 {
		t.Errorf("gob round trip at MaxPrec: got %s want 1.5", str(y))
	}
}

// F9: Context latches non-ErrNaN panics
func TestF9_ContextSwallows(t *testing.T) {
	c := context.New(10, decimal.ToNearestEven)
	z := new(decimal.Decimal)
	panicked := false
	func() {
		defer func() {
			if e := recover(); e != nil {
				panicked = true
			}
		}()
		c.Add(z, nil, z)
	}()
	if !panicked {
		t.Errorf("nil-operand panic was swallowed; Err() = %v", c.Err())
	}
	if err := c.Err(); err != nil {
		t.Errorf("Err() = %v after a non-ErrNaN panic", err)
	}
	// a genuine NaN is still latched
	c.Quo(z, new(decimal.Decimal), new(decimal.Decimal))
	if err := c.Err(); err == nil {
		t.Errorf("0/0 not latched")
	}
}

// F10: int64 wrap of exponent sums
func TestF10_ExpWrap(t *testing.T) {
	if z := decimal.NewDecimal(5, math.MaxInt64); !z.IsInf() {
		t.Errorf("NewDecimal(5, MaxInt64) = %s, want +Inf", str(z))
	}
	m := dec("12345", 5, 0)
	if z := new(decimal.Decimal).SetMantExp(m, math.MaxInt64); !z.IsInf() {
		t.Errorf("SetMantExp(12345, MaxInt64) = %s, want +Inf", str(z))
	}
	if z := new(decimal.Decimal).SetPrec(19).SetBitsExp([]decimal.Word{1}, math.MinInt64); !z.IsZero() {
		t.Errorf("SetBitsExp([1], MinInt64) = %s, want 0", str(z))
	}
}

// F12: exact zero sums under ToNegativeInf
func TestF12_ZeroSumSign(t *testing.T) {
	pz := new(decimal.Decimal)
	nz := new(decimal.Decimal).Neg(pz)
	z := new(decimal.Decimal).SetMode(decimal.ToNegativeInf).Add(pz, nz)
	if !z.Signbit() {
		t.Errorf("(+0)+(-0) under ToNegativeInf = +0, want -0")
	}
	z = new(decimal.Decimal).SetMode(decimal.ToNegativeInf).Sub(pz, pz)
	if !z.Signbit() {
		t.Errorf("(+0)-(+0) under ToNegativeInf = +0, want -0")
	}
	z = new(decimal.Decimal).Add(pz, nz)
	if z.Signbit() {
		t.Errorf("(+0)+(-0) = -0 under ToNearestEven")
	}
	z = new(decimal.Decimal).SetMode(decimal.ToNegativeInf).Add(nz, nz)
	if !z.Signbit() {
		t.Errorf("(-0)+(-0) = +0")
	}
	z = new(decimal.Decimal).SetMode(decimal.ToNegativeInf).Add(pz, pz)
	if z.Signbit() {
		t.Errorf("(+0)+(+0) = -0")
	}
}

// F11: formatting with the rounding position at or above the leading digit
func TestF11_FormatAboveLeadingDigit(t *testing.T) {
	for _, c := range []struct {
		s    string
		prec int
		want string
	}{{"0.0087890625", 2, "0.01"}, {"0.6", 0, "1"}, {"0.5", 0, "0"}, {"-0.6", 0, "-1"}, {"0.0049", 2, "0.00"}, {"0.00096", 3, "0.001"}} {
		x := dec(c.s, 30, decimal.ToNearestEven)
		if got := x.Text('f', c.prec); got != c.want {
			t.Errorf("Text('f', %d) of %s = %s, want %s", c.prec, c.s, got, c.want)
		}
	}
}

// F14: a zero keeps a stale exponent that Append used
func TestF14_ZeroStaleExponent(t *testing.T) {
	x := dec("1e100", 5, 0)
	x.Sub(x, x)
	if got := x.String(); got != "0" {
		t.Errorf("x=1e100; x.Sub(x,x).String() = %q, want \"0\"", got)
	}
	y := dec("1e-10", 5, 0)
	y.Sub(y, y)
	if got := y.Text('f', -1); got != "0" {
		t.Errorf("y=1e-10; y.Sub(y,y).Text('f',-1) = %q, want \"0\"", got)
	}
}

// F15: flag combinations
func TestF15_FormatFlags(t *testing.T) {
	inf := new(decimal.Decimal).SetInf(false)
	if got, want := fmt.Sprintf("% +f", inf), fmt.Sprintf("% +f", math.Inf(1)); got != want {
		t.Errorf("%% +f of +Inf = %q, fmt prints %q", got, want)
	}
	x := dec("125", 5, 0)
	if got, want := fmt.Sprintf("%-010.2f", x), fmt.Sprintf("%-010.2f", 125.0); got != want {
		t.Errorf("%%-010.2f of 125 = %q, fmt prints %q", got, want)
	}
}

// F16: Parse must return nil with an error
func TestF16_ParseNilOnError(t *testing.T) {
	d, _, err := new(decimal.Decimal).Parse("1x", 10)
	if err == nil || d != nil {
		t.Errorf("Parse(\"1x\",10) = %v, %v; want nil and an error", d, err)
	}
}

// F11b: unknown formats are not affected by the rounding branch
func TestF11b_UnknownFormat(t *testing.T) {
	x := dec("-0.001", 5, decimal.ToNegativeInf)
	if got := x.Text('x', 0); got != "%x" {
		t.Errorf("Text('x',0) of -0.001 = %q, want \"%%x\"", got)
	}
	y := dec("0.001", 5, decimal.ToNegativeInf)
	if got := y.Text('x', 0); got != "%x" {
		t.Errorf("Text('x',0) of 0.001 = %q", got)
	}
}

// F12b: the zero-sum rule with an aliased receiver
func TestF12b_ZeroSumAlias(t *testing.T) {
	x := new(decimal.Decimal)
	z := new(decimal.Decimal).SetMode(decimal.ToNegativeInf)
	z.Neg(z)    // -0
	z.Sub(x, z) // (+0) - (-0) = +0
	if z.Signbit() {
		t.Errorf("z=-0 (ToNegativeInf); z.Sub(+0, z) = -0, want +0")
	}
	z = new(decimal.Decimal).SetMode(decimal.ToNegativeInf)
	z.Neg(z)
	z.Add(z, x) // (-0) + (+0) = -0 under ToNegativeInf
	if !z.Signbit() {
		t.Errorf("z=-0 (ToNegativeInf); z.Add(z, +0) = +0, want -0")
	}
}

// F17: Float of zero into an infinite big.Float
func TestF17_FloatZeroIntoInf(t *testing.T) {
	f := new(decimal.Decimal).Float(new(big.Float).SetInf(false))
	if f.IsInf() || f.Sign() != 0 {
		t.Errorf("new(Decimal).Float(+Inf big.Float) = %v, want 0", f)
	}
}

// F18: precision MaxPrec must survive SetFloat64/SetFloat
func TestF18_PrecWrap(t *testing.T) {
	z := new(decimal.Decimal).SetPrec(decimal.MaxPrec).SetFloat64(0.5)
	if z.Prec() != decimal.MaxPrec {
		t.Errorf("SetPrec(MaxPrec).SetFloat64(0.5).Prec() = %d", z.Prec())
	}
	z = new(decimal.Decimal).SetPrec(decimal.MaxPrec).SetFloat(big.NewFloat(0.5))
	if z.Prec() != decimal.MaxPrec {
		t.Errorf("SetPrec(MaxPrec).SetFloat(0.5).Prec() = %d", z.Prec())
	}
}

// F19: a finite product plus an infinity is that infinity, also when the product's exponent leaves the range
func TestF19_FMAInfiniteAddend(t *testing.T) {
	x := new(decimal.Decimal).SetPrec(1).SetMantExp(decimal.NewDecimal(1, 0), 2000000000)
	z := new(decimal.Decimal).FMA(x, x, new(decimal.Decimal).SetInf(true))
	if !z.IsInf() || !z.Signbit() {
		t.Errorf("FMA(1e2000000000, 1e2000000000, -Inf) = %v", z)
	}
	u := new(decimal.Decimal).SetInf(false)
	u.SetPrec(5)
	u.FMA(new(decimal.Decimal).Neg(x), x, u)
	if !u.IsInf() || u.Signbit() || u.Prec() != 5 {
		t.Errorf("u.FMA(-x, x, u=+Inf) = %v prec %d", u, u.Prec())
	}
}

// F20: Sqrt is correctly rounded in every mode, perfect squares are exact, Acc() is truthful
func TestF20_SqrtCorrectlyRounded(t *testing.T) {
	nine := decimal.NewDecimal(9, 0)
	for _, m := range []decimal.RoundingMode{decimal.ToNearestEven, decimal.ToNearestAway, decimal.ToZero, decimal.AwayFromZero, decimal.ToNegativeInf, decimal.ToPositiveInf} {
		for _, p := range []uint{1, 4, 34} {
			z := new(decimal.Decimal).SetPrec(p).SetMode(m).Sqrt(nine)
			if z.Cmp(decimal.NewDecimal(3, 0)) != 0 || z.Acc() != decimal.Exact || z.Mode() != m || z.Prec() != p {
				t.Errorf("Sqrt(9) prec %d mode %v = %v (%v)", p, m, z, z.Acc())
			}
		}
	}
	x, _, _ := new(decimal.Decimal).SetPrec(40).Parse("7732889109322906291800648911131e-1", 10)
	z := new(decimal.Decimal).SetPrec(30).Sqrt(x)
	lo := new(decimal.Decimal).SetPrec(70).Mul(z, z)
	if lo.Cmp(x) >= 0 != (z.Acc() == decimal.Above) {
		t.Errorf("Acc %v does not match the sign of z*z - x", z.Acc())
	}
	// z is the nearest 30-digit value: (z-ulp/2)^2 < x < (z+ulp/2)^2
	h := new(decimal.Decimal).SetMantExp(decimal.NewDecimal(5, 0), z.MantExp(nil)-31)
	a := new(decimal.Decimal).SetPrec(40).Sub(z, h)
	b := new(decimal.Decimal).SetPrec(40).Add(z, h)
	if new(decimal.Decimal).SetPrec(90).Mul(a, a).Cmp(x) >= 0 || new(decimal.Decimal).SetPrec(90).Mul(b, b).Cmp(x) <= 0 {
		t.Errorf("Sqrt(%v) at 30 digits = %v is not the nearest value", x, z)
	}
	two := new(decimal.Decimal).SetPrec(5).SetMode(decimal.ToPositiveInf).Sqrt(decimal.NewDecimal(2, 0))
	if two.Text('g', -1) != "1.4143" || two.Acc() != decimal.Above {
		t.Errorf("Sqrt(2) prec 5 ToPositiveInf = %v (%v)", two, two.Acc())
	}
}

// F21: recursive division (divisors of 100 words and more) with a dividend half a block longer than the divisor
func TestF21_DivRecursiveFinalBlock(t *testing.T) {
	us := strings.Repeat("9", 19*150)
	vs := "5" + strings.Repeat("0", 18) + strings.Repeat("0", 19*49) + strings.Repeat("9", 19*50)
	x, _ := new(decimal.Decimal).SetPrec(19 * 150).SetString(us)
	y, _ := new(decimal.Decimal).SetPrec(19 * 100).SetString(vs)
	z := new(decimal.Decimal).SetPrec(34).SetMode(decimal.ToZero)
	z.Quo(x, y) // panicked with "impossible"
	xi, _ := new(big.Int).SetString(us, 10)
	yi, _ := new(big.Int).SetString(vs, 10)
	q := new(big.Int).Quo(xi, yi).String()
	want, _ := new(decimal.Decimal).SetPrec(34).SetMode(decimal.ToZero).SetString(q)
	if z.Cmp(want) != 0 {
		t.Errorf("Quo = %v, want %v", z, want)
	}
}
