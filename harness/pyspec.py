"""Independent executable statement of the rounding specification in exact
rational arithmetic (Python fractions).  Used to judge the implementation's
observed outputs directly against the property text, independently of the Coq
model; it validates that the Coq specification says what the property says.

Values are handled as (sign, N, D, e) = (-1)^sign * N/D * 10^e with integers
so that int32-range exponents never need 10**e to be materialised."""
from fractions import Fraction
import sys
sys.set_int_max_str_digits(0)

MINEXP = -2**31
MAXEXP = 2**31 - 1
B = 10**19

MODES = ["ToNearestEven", "ToNearestAway", "ToZero", "AwayFromZero", "ToNegativeInf", "ToPositiveInf"]


class Val:
    """extended value: kind in {'zero','fin','inf'}, neg, and for fin: frac (Fraction > 0), e10 (int)
    meaning frac * 10^e10"""

    def __init__(self, kind, neg, frac=None, e10=0):
        self.kind, self.neg, self.frac, self.e10 = kind, neg, frac, e10

    def __repr__(self):
        return "Val(%s,%s,%s,%s)" % (self.kind, self.neg, self.frac, self.e10)


def obs_val(v):
    """v: parsed observation tuple (form, neg, prec, mode, acc, exp, stripped, raw)"""
    form, neg = v[0], v[1] == "1"
    if form == "0":
        return Val("zero", neg)
    if form == "2":
        return Val("inf", neg)
    raw = v[7]
    n = 0
    for w in reversed(raw):
        n = n * B + int(w)
    return Val("fin", neg, Fraction(n), int(v[5]) - 19 * len(raw))


def normalize(frac, e10):
    """return (frac', e) with frac' in [1/10, 1) and frac*10^e10 = frac'*10^e"""
    assert frac > 0
    n, d = frac.numerator, frac.denominator
    k = len(str(n)) - len(str(d))
    # frac ~ 10^k; adjust
    f = frac / Fraction(10) ** k if k >= 0 else frac * Fraction(10) ** (-k)
    e = e10 + k
    while f >= 1:
        f /= 10
        e += 1
    while f < Fraction(1, 10):
        f *= 10
        e -= 1
    return f, e


def round_fin(neg, frac, e10, prec, mode):
    """exact magnitude frac*10^e10 > 0 rounded to prec digits.
    returns (form, neg, coefficient M (prec digits) or None, exp (such that value = 0.M * 10^exp), acc)"""
    f, e = normalize(frac, e10)          # magnitude = f * 10^e, f in [0.1,1)
    if e < MINEXP:
        return ("zero", neg, None, None, 1 if neg else -1)
    if e > MAXEXP:
        return ("inf", neg, None, None, -1 if neg else 1)
    s = f * Fraction(10) ** prec         # in [10^(prec-1), 10^prec)
    M = s.numerator // s.denominator
    rem = s - M
    inc = False
    if rem != 0:
        m = MODES[mode]
        if m == "ToZero":
            inc = False
        elif m == "AwayFromZero":
            inc = True
        elif m == "ToNegativeInf":
            inc = neg
        elif m == "ToPositiveInf":
            inc = not neg
        elif m == "ToNearestEven":
            inc = rem > Fraction(1, 2) or (rem == Fraction(1, 2) and M % 2 == 1)
        else:
            inc = rem >= Fraction(1, 2)
    acc = 0
    if rem != 0:
        above = inc != neg        # magnitude up & positive, or magnitude down & negative
        acc = 1 if above else -1
    if inc:
        M += 1
        if M == 10 ** prec:
            M //= 10
            e += 1
            if e > MAXEXP:
                return ("inf", neg, None, None, -1 if neg else 1)
    return ("fin", neg, M, e, acc)


def check_fin_result(obs, neg, frac, e10, prec, mode):
    """compare an observed Decimal with the spec result for exact value (-1)^neg frac*10^e10.
    returns None if ok, else a message"""
    want = round_fin(neg, frac, e10, prec, mode)
    form, oneg, oprec, omode, oacc = obs[0], obs[1] == "1", int(obs[2]), int(obs[3]), int(obs[4])
    kinds = {"0": "zero", "1": "fin", "2": "inf"}
    if kinds[form] != want[0]:
        return "form %s, want %s" % (kinds[form], want[0])
    if oneg != want[1]:
        return "sign %s, want %s" % (oneg, want[1])
    if oacc != want[4]:
        return "acc %d, want %d" % (oacc, want[4])
    if want[0] == "fin":
        raw = obs[7]
        n = 0
        for w in reversed(raw):
            n = n * B + int(w)
        digits = 19 * len(raw)
        # observed value = n * 10^(exp - digits); wanted = M * 10^(e - prec)
        oe = int(obs[5])
        if oe != want[3]:
            return "exp %d, want %d" % (oe, want[3])
        # compare n / 10^digits with M / 10^prec
        if n * 10 ** prec != want[2] * 10 ** digits:
            return "mantissa %d/10^%d, want %d/10^%d" % (n, digits, want[2], prec)
    return None


def wf(obs):
    """canonical-form predicate on a raw observation (C08)"""
    form, prec = obs[0], int(obs[2])
    if not (0 <= prec <= 2**32 - 1):
        return "prec out of range"
    if form != "1":
        return None
    raw = [int(w) for w in obs[7]]
    if not raw:
        return "finite with empty mantissa"
    if any(w < 0 or w >= B for w in raw):
        return "word >= base"
    if raw[-1] < B // 10:
        return "leading digit zero"
    if prec < 1:
        return "finite with precision 0"
    e = int(obs[5])
    if not (MINEXP <= e <= MAXEXP):
        return "exponent out of range"
    n = 0
    for w in reversed(raw):
        n = n * B + w
    digits = 19 * len(raw)
    if digits > prec and n % 10 ** (digits - prec) != 0:
        return "non-zero digit beyond precision"
    return None
