(* OCaml side of the C06 correspondence check: parses the case lines of
   harness/props/C06.py, runs the extracted interpreter Nmodel.nrun (algorithmic
   L2 models + value-level routines) and prints observations in the format of
   harness/ndriver.  All semantics lives in the extracted code; this file only
   parses, keeps the per-line configuration (thresholds, pool junk) and prints. *)
open Nmodel

let zs = Big_int_Z.big_int_of_string
let zstr = Big_int_Z.string_of_big_int
let zi = Big_int_Z.big_int_of_int

(* take a length-prefixed word list from the token list *)
let take_list (t : string list) : Big_int_Z.big_int list * string list =
  match t with
  | n :: rest ->
      let n = int_of_string n in
      let rec go k l acc =
        if k = 0 then (List.rev acc, l)
        else match l with x :: r -> go (k - 1) r (zs x :: acc) | [] -> failwith "short list" in
      go n rest []
  | [] -> failwith "missing list"

let bytes_of_hex (s : string) : Big_int_Z.big_int list =
  let n = String.length s / 2 in
  List.init n (fun i -> zi (int_of_string ("0x" ^ String.sub s (2 * i) 2)))

let split_on c s = List.filter (fun x -> x <> "") (String.split_on_char c s)

type st = { mutable thr : (Big_int_Z.big_int * Big_int_Z.big_int * Big_int_Z.big_int * Big_int_Z.big_int) option;
            mutable junk : Big_int_Z.big_int }

let cfg st =
  match st.thr with
  | None -> failwith "thresholds not set on this line"
  | Some (k, b, ks, d) -> { c_thrM = k; c_thrB = b; c_thrK = ks; c_thrD = d; c_junk = st.junk }

let parse_op (t : string list) : nop =
  match t with
  | "mul" :: r -> let x, r = take_list r in let y, _ = take_list r in NMul (x, y)
  | "sqr" :: r -> let x, _ = take_list r in NSqr x
  | "div" :: r -> let u, r = take_list r in let v, _ = take_list r in NDiv (u, v)
  | "divW" :: r -> (match take_list r with x, [ y ] -> NDivW (x, zs y) | _ -> failwith "divW")
  | "add" :: r -> let x, r = take_list r in let y, _ = take_list r in NAdd (x, y)
  | "sub" :: r -> let x, r = take_list r in let y, _ = take_list r in NSub (x, y)
  | ("shl" | "shlip") :: r -> (match take_list r with x, [ s ] -> NShl (x, zs s) | _ -> failwith "shl")
  | ("shr" | "shrip") :: r -> (match take_list r with x, [ s ] -> NShr (x, zs s) | _ -> failwith "shr")
  | "cmp" :: r -> let x, r = take_list r in let y, _ = take_list r in NCmp (x, y)
  | "digit" :: r -> (match take_list r with x, [ i ] -> NDigit (x, zs i) | _ -> failwith "digit")
  | "sticky" :: r -> (match take_list r with x, [ i ] -> NSticky (x, zs i) | _ -> failwith "sticky")
  | "digits" :: r -> let x, _ = take_list r in NDigits x
  | "tz" :: r -> let x, _ = take_list r in NTZ x
  | [ "setUint64"; x ] -> NSetUint64 (zs x)
  | "toUint64" :: r -> let x, _ = take_list r in NToUint64 x
  | "toNat" :: r -> let x, _ = take_list r in NToNat x
  | "setNat" :: n :: r -> let x, _ = take_list r in NSetNat (zs n, x)
  | "bytes" :: r -> let x, _ = take_list r in NBytes x
  | [ "setBytes"; h ] -> NSetBytes (bytes_of_hex (if h = "-" then "" else h))
  | _ -> failwith ("unknown op: " ^ String.concat " " (match t with a :: _ -> [ a ] | [] -> []))

let process_line (line : string) =
  let parts = List.map String.trim (String.split_on_char ';' line) in
  match parts with
  | [] -> ()
  | pid :: items ->
      let st = { thr = None; junk = Big_int_Z.zero_big_int } in
      let step = ref 0 in
      let buf = Buffer.create 4096 in
      List.iter
        (fun it ->
          match split_on ' ' it with
          | [] -> ()
          | "O" :: t ->
              let name = List.hd t in
              Buffer.clear buf;
              Buffer.add_string buf (Printf.sprintf "%s %d %s" pid !step name);
              (match t with
               | [ "thresholds"; k; b; ks; d ] ->
                   st.thr <- Some (zs k, zs b, zs ks, zs d);
                   Buffer.add_string buf " ok"
               | [ "poison"; _; _; j ] ->
                   st.junk <- zs j;
                   Buffer.add_string buf " ok"
               | _ ->
                   let r = nrun (cfg st) (parse_op t) in
                   if r.o_crash then Buffer.add_string buf " crash"
                   else begin
                     Buffer.add_string buf " ok";
                     List.iter (fun z -> Buffer.add_string buf (" " ^ zstr z)) r.o_toks
                   end;
                   if not r.o_agree then Buffer.add_string buf " ALG-DIFFERS-FROM-VALUE-LEVEL");
              print_endline (Buffer.contents buf);
              incr step
          | _ -> failwith ("bad item: " ^ it))
        items

let () =
  try
    while true do
      let line = input_line stdin in
      if String.length line > 0 && line.[0] <> '#' then
        (try process_line line with
         | Failure m -> Printf.printf "ERROR %s\n" m
         | Stack_overflow -> Printf.printf "ERROR stack overflow\n")
    done
  with End_of_file -> ()
