(* OCaml side of the C07 correspondence check: parses kernel-call lines, runs
   the extracted evaluator (module Kmodel: KernSpec, the KernG model and the
   X86 interpreter on the generated assembly programs) and prints the
   specification's answer in the format of the Go kernel driver, followed by a
   mismatch token when the Go model or the interpreted assembly disagrees with
   the specification.  All semantics lives in the extracted code. *)
open Kmodel

let zs = Big_int_Z.big_int_of_string
let zstr = Big_int_Z.string_of_big_int
let rec nat_of_int n = if n <= 0 then O else S (nat_of_int (n - 1))
let nat s = nat_of_int (int_of_string s)

let parse_call (t : string list) : kcall * Big_int_Z.big_int list =
  let mem r = List.map zs r in
  match t with
  | [ "mul10WW"; x; y ] -> (KMul10WW (zs x, zs y), [])
  | [ "div10WW"; x1; x0; y ] -> (KDiv10WW (zs x1, zs x0, zs y), [])
  | [ "div10W"; n1; n0 ] -> (KDiv10W (zs n1, zs n0), [])
  | "add10VV" :: n :: z :: x :: y :: r -> (KAdd10VV (nat n, zs z, zs x, zs y), mem r)
  | "sub10VV" :: n :: z :: x :: y :: r -> (KSub10VV (nat n, zs z, zs x, zs y), mem r)
  | "add10VW" :: n :: z :: x :: y :: r -> (KAdd10VW (nat n, zs z, zs x, zs y), mem r)
  | "sub10VW" :: n :: z :: x :: y :: r -> (KSub10VW (nat n, zs z, zs x, zs y), mem r)
  | "shl10VU" :: n :: z :: x :: s :: r -> (KShl10VU (nat n, zs z, zs x, zs s), mem r)
  | "shr10VU" :: n :: z :: x :: s :: r -> (KShr10VU (nat n, zs z, zs x, zs s), mem r)
  | "mulAdd10VWW" :: n :: z :: x :: y :: c :: r -> (KMulAdd10VWW (nat n, zs z, zs x, zs y, zs c), mem r)
  | "addMul10VVW" :: n :: z :: x :: y :: r -> (KAddMul10VVW (nat n, zs z, zs x, zs y), mem r)
  | "div10VWW" :: n :: z :: x :: y :: xn :: r -> (KDiv10VWW (nat n, zs z, zs x, zs y, zs xn), mem r)
  | "divWVW" :: n :: z :: xn :: x :: y :: r -> (KDivWVW (nat n, zs z, zs xn, zs x, zs y), mem r)
  | [ "decDigits64"; x ] -> (KDecDigits64 (zs x), [])
  | [ "nlz10"; x ] -> (KNlz10 (zs x), [])
  | [ "trailingZeroDigits"; x ] -> (KTrailingZeroDigits (zs x), [])
  | [ "magicDiv"; n; x ] -> (KMagicDiv (zs n, zs x), [])
  | _ -> failwith ("unknown kernel call: " ^ String.concat " " (match t with a :: _ -> [ a ] | [] -> []))

let split_on c s = List.filter (fun x -> x <> "") (String.split_on_char c s)

let process_line (line : string) =
  let parts = List.map String.trim (String.split_on_char ';' line) in
  match parts with
  | [] -> ()
  | pid :: items when List.exists (fun it -> match split_on ' ' it with "V" :: _ -> true | _ -> false) items -> ()
  | pid :: items ->
      let step = ref 0 in
      List.iter
        (fun it ->
          match split_on ' ' it with
          | "O" :: t ->
              let k, ml = parse_call t in
              let ((res, arr), gok), aok = eval3 k ml in
              let buf = Buffer.create 256 in
              Buffer.add_string buf (Printf.sprintf "%s %d %s ok" pid !step (List.hd t));
              List.iter (fun z -> Buffer.add_string buf (" " ^ zstr z)) res;
              List.iter (fun z -> Buffer.add_string buf (" " ^ zstr z)) arr;
              if not gok then Buffer.add_string buf " KERNG_DISAGREES_WITH_SPEC";
              if not aok then Buffer.add_string buf " ASM_INTERPRETER_DISAGREES_WITH_SPEC";
              print_endline (Buffer.contents buf);
              incr step
          | [] -> ()
          | _ -> failwith ("bad item: " ^ it))
        items

let () =
  try
    while true do
      let line = input_line stdin in
      if String.length line > 0 && line.[0] <> '#' then
        (try process_line line with Failure m -> Printf.printf "ERROR %s\n" m)
    done
  with End_of_file -> ()
