(* OCaml side of the correspondence check: parses program lines, runs the
   extracted Coq model (module Model) and prints observations in the same
   format as the Go driver.  All semantics lives in the extracted code; this
   file only parses and prints. *)
open Model

let zs = Big_int_Z.big_int_of_string
let zstr = Big_int_Z.string_of_big_int
let zi = Big_int_Z.big_int_of_int

let rec nat_of_int n = if n <= 0 then O else S (nat_of_int (n - 1))

let form_of = function "0" -> Fzero | "1" -> Ffinite | "2" -> Finf | s -> failwith ("form " ^ s)
let mode_of = function
  | "0" -> ToNearestEven | "1" -> ToNearestAway | "2" -> ToZero
  | "3" -> AwayFromZero | "4" -> ToNegativeInf | "5" -> ToPositiveInf
  | s -> failwith ("mode " ^ s)
let acc_of = function "-1" -> Below | "0" -> Exact | "1" -> Above | s -> failwith ("acc " ^ s)
let form_s = function Fzero -> "0" | Ffinite -> "1" | Finf -> "2"
let mode_s = function
  | ToNearestEven -> "0" | ToNearestAway -> "1" | ToZero -> "2"
  | AwayFromZero -> "3" | ToNegativeInf -> "4" | ToPositiveInf -> "5"
let acc_s = function Below -> "-1" | Exact -> "0" | Above -> "1"
let bool_of s = s = "1"

let hex_of_bytes (l : Big_int_Z.big_int list) =
  String.concat "" (List.map (fun b -> Printf.sprintf "%02x" (Big_int_Z.int_of_big_int b)) l)
let bytes_of_hex (s : string) : Big_int_Z.big_int list =
  let n = String.length s / 2 in
  List.init n (fun i -> zi (int_of_string ("0x" ^ String.sub s (2 * i) 2)))

(* V form neg exp prec mode acc n w0.. wn-1 extracap stale *)
let parse_var (t : string list) : dec =
  match t with
  | f :: ng :: e :: p :: m :: a :: n :: rest ->
      let n = int_of_string n in
      let rec take k l = if k = 0 then [] else match l with x :: r -> zs x :: take (k - 1) r | [] -> failwith "short V" in
      { mant = take n rest; exp = zs e; prec = zs p; dmode = mode_of m; acc = acc_of a;
        dform = form_of f; neg = bool_of ng }
  | _ -> failwith "bad V"

let v i = nat_of_int (int_of_string i)

let parse_op (t : string list) : op =
  match t with
  | [ "Cmp"; x; y ] -> OCmp (v x, v y)
  | [ "Sign"; x ] -> OSign (v x)
  | [ "Signbit"; x ] -> OSignbit (v x)
  | [ "IsZero"; x ] -> OIsZero (v x)
  | [ "IsInf"; x ] -> OIsInf (v x)
  | [ "Add"; z; x; y ] -> OAdd (v z, v x, v y)
  | [ "Sub"; z; x; y ] -> OSub (v z, v x, v y)
  | [ "Mul"; z; x; y ] -> OMul (v z, v x, v y)
  | [ "Quo"; z; x; y ] -> OQuo (v z, v x, v y)
  | [ "FMA"; z; x; y; u ] -> OFMA (v z, v x, v y, v u)
  | [ "Set"; z; x ] -> OSet (v z, v x)
  | [ "Neg"; z; x ] -> ONeg (v z, v x)
  | [ "Abs"; z; x ] -> OAbs (v z, v x)
  | [ "Copy"; z; x ] -> OCopy (v z, v x)
  | [ "SetPrec"; z; p ] -> OSetPrec (v z, zs p)
  | [ "SetMode"; z; m ] -> OSetMode (v z, mode_of m)
  | [ "SetInf"; z; b ] -> OSetInf (v z, bool_of b)
  | [ "SetInt64"; z; x ] -> OSetInt64 (v z, zs x)
  | [ "SetUint64"; z; x ] -> OSetUint64 (v z, zs x)
  | [ "SetInt"; z; x ] -> OSetInt (v z, zs x)
  | [ "SetRat"; z; n; d ] -> OSetRat (v z, zs n, zs d)
  | [ "NewDecimal"; z; x; e ] -> ONewDecimal (v z, zs x, zs e)
  | [ "SetMantExp"; z; m; e ] -> OSetMantExp (v z, v m, zs e)
  | [ "MantExp"; x; "-" ] -> OMantExp (v x, None)
  | [ "MantExp"; x; m ] -> OMantExp (v x, Some (v m))
  | "SetBitsExp" :: z :: e :: _n :: ws -> OSetBitsExp (v z, zs e, List.map zs ws)
  | [ "BitsExp"; x ] -> OBitsExp (v x)
  | [ "MinPrec"; x ] -> OMinPrec (v x)
  | [ "IsInt"; x ] -> OIsInt (v x)
  | [ "Int64"; x ] -> OInt64 (v x)
  | [ "Uint64"; x ] -> OUint64 (v x)
  | [ "Int"; x ] -> OInt (v x)
  | [ "Rat"; x ] -> ORat (v x)
  | [ "GobEncode"; x ] -> OGobEncode (v x)
  | [ "GobDecode"; z; h ] -> OGobDecode (v z, bytes_of_hex (if h = "-" then "" else h))
  | [ "GobRoundTrip"; z; x ] -> OGobRoundTrip (v z, v x)
  | _ -> failwith ("unknown op: " ^ String.concat " " t)

let parse_cop (t : string list) : cop =
  match t with
  | [ "CAdd"; z; x; y ] -> CAdd (v z, v x, v y)
  | [ "CSub"; z; x; y ] -> CSub (v z, v x, v y)
  | [ "CMul"; z; x; y ] -> CMul (v z, v x, v y)
  | [ "CQuo"; z; x; y ] -> CQuo (v z, v x, v y)
  | [ "CFMA"; z; x; y; u ] -> CFMA (v z, v x, v y, v u)
  | [ "CNeg"; z; x ] -> CNeg (v z, v x)
  | [ "CAbs"; z; x ] -> CAbs (v z, v x)
  | [ "CSet"; z; x ] -> CSet (v z, v x)
  | [ "CSqrt"; z; x ] -> CSqrt (v z, v x)
  | [ "CErr" ] -> CErr
  | [ "CSetPrec"; p ] -> CSetPrec (zs p)
  | [ "CSetMode"; m ] -> CSetMode (mode_of m)
  | [ "CNew"; z ] -> CNew (v z)
  | [ "CNewInt64"; z; x ] -> CNewInt64 (v z, zs x)
  | [ "CNewUint64"; z; x ] -> CNewUint64 (v z, zs x)
  | [ "CNilOperand"; z ] -> CNilOperand (v z)
  | [ "CNilOperand"; z; _ ] -> CNilOperand (v z)      (* second token: which operation receives the nil operand *)
  | _ -> CPlain (parse_op t)

let print_dec buf (d : dec) =
  Buffer.add_string buf
    (Printf.sprintf " | %s %d %s %s %s" (form_s d.dform) (if d.neg then 1 else 0)
       (zstr d.prec) (mode_s d.dmode) (acc_s d.acc));
  (match d.dform with
   | Ffinite ->
       Buffer.add_string buf (" " ^ zstr d.exp);
       Buffer.add_string buf (Printf.sprintf " %d" (List.length d.mant));
       List.iter (fun w -> Buffer.add_string buf (" " ^ zstr w)) d.mant
   | _ -> ())

let out_s = function Ok -> "ok" | NaN -> "nan" | Crash -> "crash"

let split_on c s = List.filter (fun x -> x <> "") (String.split_on_char c s)

let process_line (line : string) =
  (* <pid> ; V ... ; V ... ; O ... ; O ... *)
  let parts = List.map String.trim (String.split_on_char ';' line) in
  match parts with
  | [] -> ()
  | pid :: items ->
      let vars = ref [] and ops = ref [] and names = ref [] and cx = ref None and par = ref false in
      List.iter
        (fun it ->
          match split_on ' ' it with
          | "V" :: t -> vars := parse_var t :: !vars
          | "O" :: t -> ops := t :: !ops; names := List.hd t :: !names
          | [ "C"; p; m ] -> cx := Some (ctx_new (zs p) (mode_of m))
          | "P" :: _ -> par := true
          | "R" :: _ -> ()        (* operations of the parallel phase only: not modelled, not printed *)
          | [] -> ()
          | _ -> failwith ("bad item: " ^ it))
        items;
      let s0 = List.rev !vars and toks = List.rev !ops and names = List.rev !names in
      let rs =
        match !cx with
        | None -> run s0 (List.map parse_op toks)
        | Some c -> List.map (fun (r, (s, _)) -> (r, s)) (crun (s0, c) (List.map parse_cop toks))
      in
      let buf = Buffer.create 256 in
      List.iteri
        (fun i ((r : result), (s : store)) ->
          Buffer.clear buf;
          Buffer.add_string buf (Printf.sprintf "%s %d %s %s" pid i (List.nth names i) (out_s r.r_out));
          List.iter (fun z -> Buffer.add_string buf (" " ^ zstr z)) r.r_ints;
          List.iter (fun b -> Buffer.add_string buf (" x:" ^ hex_of_bytes b)) r.r_bytes;
          List.iter (print_dec buf) s;
          print_endline (Buffer.contents buf))
        rs;
      if !par then Printf.printf "%s %d Par ok 0 0\n" pid (List.length names)

let () =
  let _ = bytes_of_hex in
  try
    while true do
      let line = input_line stdin in
      if String.length line > 0 && line.[0] <> '#' then
        (try process_line line
         with Failure m -> Printf.printf "ERROR %s\n" m)
    done
  with End_of_file -> ()
