"""C18 — Decimals can be shared read-only between goroutines."""
import os, sys
from vlib import fin, zero, inf, B, ndigits
import vlib
from . import C01, common

ID = "C18"
LEVEL = "other"
RULE = ("programs whose operand variables are shared by k in {2,8,32} goroutines (GOMAXPROCS in {1,4,16}, with and without a "
        "goroutine forcing garbage collections) while each goroutine writes only its own receivers; operands of 40-260 words "
        "so that Karatsuba multiplication, long and recursive division use the pooled scratch buffers; every goroutine's result "
        "is compared with the sequential result and the shared operands with their initial state; thorough tier: the same "
        "programs under the Go race detector; non-trivial = operands above the Karatsuba threshold")
EXPLANATION = ("Coq: Conc/Pool.v proves for every interleaving of any number of threads (and any collector activity) that a pooled "
               "scratch buffer is held by at most one thread and never while it sits in the pool (Props/C18.v); together with "
               "C09/C10 (operations write only their receiver) every schedule yields the sequential results at the model level. "
               "The Go memory model, sync.Pool internals and real data races cannot be exhibited by the model; they are sampled "
               "by the runtime half described in the rule (and `-race` in the thorough tier).")
ASSUMPTIONS = ["Go memory model, sync.Pool and the garbage collector are not modelled", "each goroutine writes only its own receivers"]
JUDGE_STATS = {}
coq_op = common.coq_op


def nontrivial(c):
    return True


def big_operand(rng, words):
    s = "".join(rng.choice(["9" * 19, "0" * 19, "%019d" % rng.randint(0, B - 1), "%019d" % rng.randint(0, B - 1)]) for _ in range(words))
    c = int(s.lstrip("0") or "7")
    return fin(c, rng.randint(-30, 30), neg=rng.randint(0, 1), mode=rng.randint(0, 5))


def gen(rng, tier):
    n = 1 if tier == "quick" else 8
    for _ in range(40 * n):
        nrecv = 2
        k = rng.choice([2, 8, 32])
        procs = rng.choice([1, 4, 16])
        gc = rng.randint(0, 1)
        rounds = rng.choice([1, 2, 4])
        ops_n = rng.randint(3, 8)
        wa, wb = rng.choice([40, 64, 110, 220, 260]), rng.choice([35, 60, 105, 130])
        vs = [C01.recv(rng, prec=rng.choice([0, 100, 600, 1500])), C01.recv(rng, prec=rng.choice([34, 400]))]
        vs += [big_operand(rng, wa), big_operand(rng, wb), big_operand(rng, rng.choice([3, 50]))]
        ops = []
        for _ in range(ops_n):
            z = rng.randint(0, 1)
            a, b, u = (rng.randint(2, 4) for _ in range(3))
            kk = rng.randint(0, 9)
            if kk <= 5:
                ops.append("%s %d %d %d" % (rng.choice(["Mul", "Quo", "Quo", "Mul", "Add", "Sub"]), z, a, b))
            elif kk == 6:
                ops.append("FMA %d %d %d %d" % (z, a, b, u))
            elif kk == 7:
                ops.append("Mul %d %d %d" % (z, a, a))        # squaring path
            elif kk == 8:
                ops.append(rng.choice(["Cmp %d %d" % (a, b), "GobEncode %d" % a, "MinPrec %d" % a, "IsInt %d" % a]))
            else:
                ops.append("%s %d %d" % (rng.choice(["Set", "Neg", "Abs"]), z, a))
        # parallel-phase-only operations (not in the L3 store model): Sqrt into a private receiver and text output of shared operands
        rops = []
        for _ in range(rng.randint(0, 3)):
            a = rng.randint(2, 4)
            rops.append(rng.choice(["Sqrt %d %d" % (rng.randint(0, 1), a), "Text %d %d %d" % (a, rng.choice([101, 102, 103, 98, 112]), rng.choice([-1, -1, 5, 40])),
                                    "MarshalText %d" % a]))
        line = "P %d %d %d %d %d ; " % (nrecv, k, procs, rounds, gc) + " ; ".join([v.item() for v in vs] + ["O " + o for o in ops] + ["R " + o for o in rops])
        yield dict(family="shared-operands-k%d" % k, vars=vs, ops=ops, line=line, big=True)
    for c in gen_readers(rng, n):
        yield c
    for c in gen_float_conversions(rng, n):
        yield c


def gen_readers(rng, n):
    """read-only methods (conversions, comparisons, encoders) on shared integer- and fraction-valued operands whose
    mantissa is used in place by the conversion paths (exponent = 19 * words, a few words)"""
    for _ in range(25 * n):
        k = rng.choice([2, 8, 32])
        procs = rng.choice([1, 4, 16])
        vs = [C01.recv(rng, prec=rng.choice([0, 40, 100])), C01.recv(rng, prec=34)]
        for _ in range(3):
            w = rng.choice([1, 2, 2, 3, 4, 6])
            c = int("".join("%019d" % rng.randint(B // 10 if i == 0 else 0, B - 1) for i in range(w)))
            e = rng.choice([0, 0, 0, 1, 19, -1, -19, -5, 40])          # 0: integer with exponent = 19 * words
            vs.append(fin(c, e, neg=rng.randint(0, 1), mode=rng.randint(0, 5)))
        ops = []
        for _ in range(rng.randint(4, 9)):
            a, b = rng.randint(2, 4), rng.randint(2, 4)
            ops.append(rng.choice(["Int %d" % a, "Int %d" % a, "Rat %d" % a, "Int64 %d" % a, "Uint64 %d" % a, "IsInt %d" % a,
                                   "MinPrec %d" % a, "Cmp %d %d" % (a, b), "GobEncode %d" % a, "BitsExp %d" % a, "MantExp %d -" % a,
                                   "Add %d %d %d" % (rng.randint(0, 1), a, b), "Mul %d %d %d" % (rng.randint(0, 1), a, b)]))
        if rng.random() < 0.5:
            vs[4] = rng.choice([zero(0, prec=7), zero(1, prec=7), inf(0, prec=7), inf(1, prec=7)])
            for _ in range(3):
                ops.append(rng.choice(["Sub %d 4 %d" % (rng.randint(0, 1), rng.randint(2, 3)), "Sub %d %d 4" % (rng.randint(0, 1), rng.randint(2, 3)),
                                       "Add %d 4 %d" % (rng.randint(0, 1), rng.randint(2, 3))]))
        rops = []
        for a in (2, 3):
            rops += ["Rat %d" % a, "Int %d" % a, "Cmp %d 4" % a, "Rat %d" % a]
        for _ in range(rng.randint(1, 4)):
            a = rng.randint(2, 4)
            rops.append(rng.choice(["Sqrt %d %d" % (rng.randint(0, 1), a), "Sqrt %d %d" % (rng.randint(0, 1), a),
                                    "Text %d %d %d" % (a, rng.choice([101, 102, 103, 98, 112]), rng.choice([-1, -1, 3, 60])),
                                    "MarshalText %d" % a, "Float64 %d" % a]))
        line = "P 2 %d %d %d %d ; " % (k, procs, rng.choice([1, 2]), rng.randint(0, 1)) + " ; ".join([v.item() for v in vs] + ["O " + o for o in ops] + ["R " + o for o in rops])
        yield dict(family="shared-readers-k%d" % k, vars=vs, ops=ops, line=line, big=True)


def gen_float_conversions(rng, n):
    for _ in range(6 * n):
        k = rng.choice([16, 32])
        vs = [C01.recv(rng, prec=34), C01.recv(rng, prec=34)]
        nops = 48
        for _ in range(nops):
            c = common.rand_coeff(rng, rng.choice([5, 17, 30]))
            vs.append(fin(c, rng.choice([1, -1]) * rng.randint(28, 320), neg=rng.randint(0, 1)))
        rops = []
        for a in range(2, 2 + nops):
            rops.append(rng.choice(["Float64 %d" % a, "Float64 %d" % a, "Float64 %d" % a, "Text %d 101 -1" % a]))
        ops = ["Cmp 2 3", "Add 0 2 3"]
        line = "P 2 %d %d %d %d ; " % (k, rng.choice([4, 16]), rng.choice([2, 4]), rng.randint(0, 1)) + " ; ".join([v.item() for v in vs] + ["O " + o for o in ops] + ["R " + o for o in rops])
        yield dict(family="shared-float-conversions-k%d" % k, vars=vs, ops=ops, line=line, big=True)


def build(log):
    if os.environ.get("VERIF_TIER") == "thorough" or "thorough" in sys.argv:
        d = os.path.join(vlib.ROOT, "harness", "driver")
        # decimal_pure_go: the word kernels are Go code, so the race detector also sees their memory accesses
        # (it cannot instrument the amd64 assembly kernels)
        rc, out, dt = vlib.sh(["go", "build", "-race", "-tags", "verif decimal_pure_go", "-o", os.path.join(vlib.BUILD, "driver_race"), "."],
                              cwd=d, env=vlib.GOENV, timeout=900)
        log.append(("go-build[-race]", rc, dt, out[-1500:] if rc else ""))
        JUDGE_STATS["race_build"] = "ok" if rc == 0 else "unavailable: " + out[-200:]
    return True, ""


def judge(cases, g, m):
    fails = []
    JUDGE_STATS["parallel_programs"] = 0
    for c in cases:
        ob = g.get((c["pid"], len(c["ops"])))
        if ob is None:
            continue
        (key, opn, outcome, res, vs), line = ob
        if opn == "Par":
            JUDGE_STATS["parallel_programs"] += 1
            if res[:2] != ["0", "0"]:
                fails.append((c, "concurrent use changed results: %s goroutine results differ from the sequential result, %s shared operands modified" % (res[0], res[1]),
                              dict(implementation=line[:300])))
    race = os.path.join(vlib.BUILD, "driver_race")
    if JUDGE_STATS.get("race_build") == "ok" and os.path.exists(race):
        text = "\n".join("%s ; %s" % (c["pid"], c["line"]) for c in cases) + "\n"
        rc, out, dt = vlib.run_side(race, text, timeout=1500, memlimit_kb=64 * 1024 * 1024)
        JUDGE_STATS["race_run"] = dict(rc=rc, seconds=round(dt, 1), data_race_reports=out.count("WARNING: DATA RACE"))
        if "WARNING: DATA RACE" in out or rc not in (0,):
            i = out.find("WARNING: DATA RACE")
            fails.append((cases[0], "the Go race detector reported a data race (or the race build failed to run, rc=%d)" % rc,
                          dict(implementation=out[max(i, 0):max(i, 0) + 1500])))
    return fails
