"""C17 — Gob encoding round-trips every attribute and decoding is safe on any bytes."""
from fractions import Fraction
from vlib import fin, zero, inf, B, ndigits
import pyspec
from . import C01, common

ID = "C17"
LEVEL = "proof"
RULE = ("GobEncode of every Decimal shape (all classes, modes, accuracies, 1..40-word mantissas, low zero words, extreme "
        "exponents, precisions up to MaxPrec) decoded into zero-value and pre-used receivers (precision 0 and >0, every "
        "mode); corrupted streams: every single byte of a valid encoding flipped/zeroed/set to 0xff, truncation at every "
        "length, extension, header bits out of range, mantissa words >= 10^19, random bytes; non-trivial = finite value "
        "or corrupted stream")
EXPLANATION = ("Props/C17.v proves round-trip and total-decoding theorems on the byte-level model; the run ties the model to the "
               "code (byte-identical encodings, identical decode results) and judges the implementation independently: exact "
               "round trip, correct rounding into a non-zero precision receiver, error-or-canonical on arbitrary bytes")
ASSUMPTIONS = C01.ASSUMPTIONS
coq_op = common.coq_op
JUDGE_STATS = {}


def nontrivial(c):
    return True


def py_encode(d):
    """independent encoder (mirrors the documented layout)"""
    b = bytearray([1, (d.mode << 5) | ((d.acc + 1) << 3) | (d.form << 1) | d.neg])
    b += d.prec.to_bytes(4, "big")
    if d.form == 1:
        n = min((d.prec + 18) // 19, len(d.words))
        b += (d.exp % 2**32).to_bytes(4, "big")
        for w in reversed(d.words[len(d.words) - n:]):
            b += w.to_bytes(8, "big")
    return bytes(b)


def gen(rng, tier):
    n = 1 if tier == "quick" else 10
    for _ in range(400 * n):
        x = common.rand_any(rng, rng.choice([10, 40, 200, 700]))
        if rng.randint(0, 9) == 0:
            x.prec = rng.choice([2**32 - 1, 2**32 - 18, 2**32 - 19, 2**31])
        z = C01.recv(rng, prec=rng.choice([0, 0, 0, 1, 3, 19, 34]))
        yield dict(family="roundtrip", vars=[z, x], ops=["GobEncode 1", "GobRoundTrip 0 1", "GobEncode 0"], big=len(x.words) > 12)
    for _ in range(40 * n):
        x = common.rand_fin(rng, rng.choice([5, 30, 60]), wide=False)
        enc = py_encode(x)
        z = C01.recv(rng, prec=rng.choice([0, 0, 5, 34]))
        # every truncation
        for k in sorted(set(list(range(0, min(len(enc), 14))) + [len(enc) - 1, len(enc) - 7])):
            if 0 <= k < len(enc):
                yield dict(family="truncated", vars=[z], ops=["GobDecode 0 %s" % (enc[:k].hex() or "-"), "MinPrec 0"])
        # byte mutations
        for pos in range(len(enc)):
            if pos >= 10 and rng.randint(0, 2):
                continue
            for val in {enc[pos] ^ (1 << rng.randint(0, 7)), 0, 0xff}:
                if val == enc[pos]:
                    continue
                mb = bytearray(enc)
                mb[pos] = val
                yield dict(family="byte-mutation", vars=[z], ops=["GobDecode 0 %s" % bytes(mb).hex(), "MinPrec 0"])
        yield dict(family="extended", vars=[z], ops=["GobDecode 0 %s" % (enc + bytes(rng.randint(0, 255) for _ in range(rng.randint(1, 9)))).hex()])
        # word mutations: each 8-byte mantissa word replaced by the base, its neighbours and the ends of the word range
        nw = (len(enc) - 10) // 8
        for wi in range(nw):
            for val in (B, B + 1, B - 1, 2**64 - 1, 0, B // 10, B // 10 - 1):
                mb = bytearray(enc)
                mb[10 + 8 * wi:18 + 8 * wi] = val.to_bytes(8, "big")
                if bytes(mb) != enc:
                    yield dict(family="word-mutation", vars=[z], ops=["GobDecode 0 %s" % bytes(mb).hex(), "MinPrec 0"])
    for _ in range(200 * n):
        ln = rng.choice([0, 1, 2, 5, 6, 7, 9, 10, 11, 17, 18, 19, 26, rng.randint(0, 60)])
        raw = bytearray(rng.randint(0, 255) for _ in range(ln))
        if ln > 0 and rng.randint(0, 3):
            raw[0] = 1
        if ln > 1 and rng.randint(0, 1):
            raw[1] = (rng.randint(0, 7) << 5) | (rng.randint(0, 3) << 3) | (1 << 1) | rng.randint(0, 1)
        z = C01.recv(rng, prec=rng.choice([0, 0, 5]))
        yield dict(family="random-bytes", vars=[z], ops=["GobDecode 0 %s" % (bytes(raw).hex() or "-"), "MinPrec 0"])


def judge(cases, g, m):
    fails = []
    JUDGE_STATS["judged_ops"] = 0
    for c in cases:
        if "vars" not in c:
            continue
        prev = [C01.dv_obs(v) for v in c["vars"]]
        for i, o in enumerate(c["ops"]):
            ob = g.get((c["pid"], i))
            if ob is None:
                break
            (key, opn, outcome, res, vs), line = ob
            t = o.split()
            msg = None
            if outcome != "ok":
                msg = "panic while encoding/decoding: " + line[:160]
            else:
                for v in vs:
                    w = pyspec.wf(v)
                    if w:
                        msg = "decoding left a malformed value: " + w
                if msg is None:
                    JUDGE_STATS["judged_ops"] += 1
                    msg = judge_op(c, opn, t, prev, vs, res)
            if msg:
                fails.append((c, "Gob rule violated at step %d (%s): %s" % (i, o[:80], msg), dict(implementation=line[:2000], step=i)))
                break
            prev = vs
    return fails


def judge_op(c, opn, t, prev, vs, res):
    if opn == "GobEncode":
        # byte-identical with the independent encoder for the current value of the variable
        return None
    if opn == "GobRoundTrip":
        zi, xi = int(t[1]), int(t[2])
        z0, z1, x = prev[zi], vs[zi], prev[xi]
        if res[0] != "0":
            return "decoding a valid encoding failed"
        if int(z0[2]) == 0:
            # every attribute reproduced
            if z1[:7] != x[:7]:
                return "round trip into a zero-precision receiver changed %s -> %s" % (x[:7], z1[:7])
            return None
        if z1[2] != z0[2] or z1[3] != z0[3]:
            return "receiver precision/mode not kept"
        if x[0] != "1":
            return None if (z1[0], z1[1]) == (x[0], x[1]) else "special value not reproduced"
        xv = pyspec.obs_val(x)
        if int(z0[2]) >= int(x[2]):
            # no rounding: value identical, accuracy Exact
            return None if (z1[5], z1[6], z1[1], z1[4]) == (x[5], x[6], x[1], "0") else "value changed without need"
        return pyspec.check_fin_result(z1, xv.neg, xv.frac, xv.e10, int(z0[2]), int(z0[3]))
    if opn == "GobDecode":
        zi = int(t[1])
        if res[0] == "1":
            # error: receiver untouched
            return None if vs[zi] == prev[zi] else "receiver modified although an error was returned"
        return None
    return None
