"""C07 — the amd64 assembly kernels are equivalent to the portable Go kernels and to
their mathematical definition; the three build configurations agree on whole programs.

Kernel level: every case is one kernel call on one array.  `build/kdriver` (Go, -tags
verif) runs the assembly routine on the CPU and the `_g` twin on copies of the array and
prints the assembly's answer (+ a token if the twin differs); `build/krunner` (extracted
from Coq) evaluates L1/KernSpec, the Gallina model L1/KernG of the `_g` code and the x86
interpreter L1/X86 on the program *generated* from dec_arith_amd64.s by tools/asm2coq.py,
prints the KernSpec answer (+ a token if either of the other two differs).  The two
outputs are diffed line by line by check.py.

Library level (judge): the C01 programs are run through the ordinary library driver built
with `verif`, `verif decimal_pure_go` and `verif math_big_pure_go`; the three transcripts
must be identical.
"""
import os, re, subprocess, sys
import vlib
from vlib import ROOT, BUILD, COQ, B

ID = "C07"
LEVEL = "proof"
DRIVER = "kdriver"
RUNNER = "krunner"
TIMEOUT = 1800
W64 = 2 ** 64

RULE = ("one kernel call per case over all 13 kernels (12 decimal + divWVW) and the digit helpers; vector lengths "
        "0..70 exhaustively (every residue mod 4 of the unrolled loops, memcpy fast paths of add10VW/sub10VW, early "
        "exits), up to 1000 in the thorough tier; words from {0,1,B-1,B/2,10^k,10^k+-1,random}; shifts 0..18; "
        "destination equal to a source, overlapping a source the way dec.shl/dec.shr call the shifts, or disjoint, "
        "inside an array with guard words; carries/borrows in and out (runs of B-1 / 0); distinct = different call "
        "text; non-trivial = vector length >= 1 or a scalar kernel")
EXPLANATION = ("Props/C07.v: (a) for all lengths, contents and admissible placements the Gallina model of every portable "
               "Go kernel (12 decimal kernels, divWVW, magic.div on every row of the generated table) equals the "
               "mathematical definition KernSpec; (b) the programs generated from the assembly source, run by the x86 "
               "interpreter from arbitrary registers, return KernSpec's result without fault for mul10WW div10WW div10W "
               "add10VV sub10VV shl10VU shr10VU mulAdd10VWW addMul10VVW div10VWW divWVW (all inputs, all lengths); "
               "add10VW and sub10VW have no closed assembly theorem.  The run ties the Go model to the `_g` code and the "
               "interpreter + generated programs to the CPU for every kernel including those two, and compares "
               "whole-library transcripts of the default, decimal_pure_go and math_big_pure_go builds; "
               "gen/ConstsCheck.v ties the literals of the hand-written model to the constants extracted from the Go source")
ASSUMPTIONS = ["kernel preconditions: words below 10^19 (below 2^64 for divWVW), dividend high word below the divisor, "
               "shift below 19, slices of equal length placed as the library places them",
               "amd64, 64-bit words (_W=64, _DW=19)"]
TRUSTED = ["x86-64 instruction semantics of L1/X86.v (validated only by the comparison with the CPU in this run)",
           "layout of struct magic / Go ABI0 frame layout as emitted by the translators"]

LIB_BUILDS = [("driver_c07_asm", "verif"),
              ("driver_c07_puredec", "verif decimal_pure_go"),
              ("driver_c07_purebig", "verif math_big_pure_go")]

VEC = ["add10VV", "sub10VV", "add10VW", "sub10VW", "shl10VU", "shr10VU", "mulAdd10VWW", "addMul10VVW",
       "div10VWW", "divWVW"]
_built = {}


# ----------------------------------------------------------------------------
# build

def build(log):
    ok, outs = True, []
    # kernel driver
    d = os.path.join(ROOT, "harness", "kdriver")
    if os.path.exists(os.path.join(vlib.REPO, "go.sum")):
        vlib.sh(["cp", os.path.join(vlib.REPO, "go.sum"), d])
    rc, out, dt = vlib.sh(["go", "build", "-tags", "verif", "-o", os.path.join(BUILD, "kdriver"), "."],
                          cwd=d, env=vlib.GOENV, timeout=600)
    log.append(("go-build[kdriver]", rc, dt, out[-3000:] if rc else ""))
    if rc:
        return False, out
    # extracted evaluator
    ex = os.path.join(BUILD, "kextract")
    os.makedirs(ex, exist_ok=True)
    rc, out, dt = vlib.sh(["coqc", "-Q", os.path.join(COQ, "theories"), "Dec", "-w", vlib.COQW, "-o", "./ExtractK.vo",
                           os.path.join(COQ, "theories", "Extract", "ExtractK.v")], cwd=ex, timeout=600)
    log.append(("extract-k", rc, dt, out[-2000:] if rc else ""))
    if rc:
        return False, "extraction of the kernel evaluator failed:\n" + out
    main_src = os.path.join(ROOT, "harness", "ocaml", "kmain.ml")
    h = vlib.file_hash([os.path.join(ex, "kmodel.ml"), main_src])
    stamp = os.path.join(BUILD, "krunner.hash")
    runner = os.path.join(BUILD, "krunner")
    if not (os.path.exists(runner) and os.path.exists(stamp) and open(stamp).read() == h):
        vlib.sh(["cp", main_src, os.path.join(ex, "kmain.ml")])
        rc, out, dt = vlib.sh("ocamlfind ocamlopt -package zarith -linkpkg -w -a -inline 100 kmodel.mli kmodel.ml kmain.ml -o ../krunner",
                              cwd=ex, timeout=600)
        log.append(("ocaml-k", rc, dt, out[-2000:] if rc else ""))
        if rc:
            return False, "krunner build failed:\n" + out
        open(stamp, "w").write(h)
    # the ordinary library driver under the three tag sets
    for name, tags in LIB_BUILDS:
        bok, bout = vlib.build_driver(log, tags=tags, name=name)
        _built[name] = bok
        if not bok:
            ok = False
            outs.append("build with tags %r failed:\n%s" % (tags, bout))
    return ok, "\n".join(outs)


# ----------------------------------------------------------------------------
# generator

POW = [10 ** k for k in range(0, 19)]
EDGE = sorted(set([0, 1, 2, B - 1, B - 2, B // 2, B // 2 - 1, B // 2 + 1] + POW + [p - 1 for p in POW[1:]] + [p + 1 for p in POW]))
EDGE = [w for w in EDGE if 0 <= w < B]
EDGE64 = [0, 1, 2, W64 - 1, W64 - 2, 2 ** 63, 2 ** 63 - 1, 2 ** 63 + 1, 2 ** 32, 2 ** 32 - 1, B, B - 1, B + 1]


def word(rng, base=B):
    k = rng.randint(0, 9)
    if base == B:
        if k <= 2:
            return rng.choice(EDGE)
        if k == 3:
            return rng.choice([0, B - 1])
        if k == 4:
            return rng.randrange(10 ** rng.randint(1, 19))
        return rng.randrange(B)
    if k <= 2:
        return rng.choice(EDGE64)
    if k == 3:
        return rng.randrange(2 ** rng.randint(1, 64))
    return rng.randrange(W64)


def vec(rng, n, base=B, style=None):
    """n words; styles make long carry/borrow chains likely"""
    top = base - 1
    s = rng.randint(0, 9) if style is None else style
    if s == 0:
        return [top] * n
    if s == 1:
        return [0] * n
    if s == 2:   # run of top words then random
        j = rng.randint(0, n)
        return [top] * j + [word(rng, base) for _ in range(n - j)]
    if s == 3:   # run of zeros then random
        j = rng.randint(0, n)
        return [0] * j + [word(rng, base) for _ in range(n - j)]
    if s == 4:
        return [rng.choice([0, top, 1, top - 1]) for _ in range(n)]
    return [word(rng, base) for _ in range(n)]


GUARD = [B - 7, 7777777, B // 3]


def layout(rng, n, regions, base=B):
    """regions: list of (name, offset-group). Builds an array with guard words around and
    between groups. `regions` is a list of lists of names sharing one window or of
    ('name', 'rel', other, delta) handled by the callers; here: list of distinct windows,
    each (names, length). Returns (offsets dict, array)."""
    arr, offs = [], {}
    arr += [rng.choice(GUARD) for _ in range(rng.randint(0, 2))]
    for names, ln, content in regions:
        for nm, delta in names:
            offs[nm] = len(arr) + delta
        arr += content
        arr += [rng.choice(GUARD) for _ in range(rng.randint(0, 2))]
    return offs, arr


def junk(rng, n, base=B):
    return [word(rng, base) for _ in range(n)]


def vv_case(rng, kern, n):
    x = vec(rng, n)
    k = rng.randint(0, 5)
    if kern == "add10VV" and k == 0:
        y = [B - 1 - w for w in x]                        # all-nines sum, no carry
        if n and rng.randint(0, 1):
            y[0] += 1 if y[0] < B - 1 else 0              # ... and a carry through every word
    elif kern == "sub10VV" and k == 0:
        y = list(x)                                       # zero difference
        if n and rng.randint(0, 1) and y[0] < B - 1:
            y[0] += 1                                     # borrow through every word
    else:
        y = vec(rng, n)
    p = rng.randint(0, 5)
    if p == 0:      # z = x
        offs, arr = layout(rng, n, [([("z", 0), ("x", 0)], n, x), ([("y", 0)], n, y)])
        fam = "z=x"
    elif p == 1:    # z = y
        offs, arr = layout(rng, n, [([("x", 0)], n, x), ([("z", 0), ("y", 0)], n, y)])
        fam = "z=y"
    elif p == 2:    # all the same
        offs, arr = layout(rng, n, [([("z", 0), ("x", 0), ("y", 0)], n, x)])
        fam = "z=x=y"
    elif p == 3:    # x = y, z elsewhere
        offs, arr = layout(rng, n, [([("z", 0)], n, junk(rng, n)), ([("x", 0), ("y", 0)], n, x)])
        fam = "x=y"
    else:
        regs = [([("z", 0)], n, junk(rng, n)), ([("x", 0)], n, x), ([("y", 0)], n, y)]
        rng.shuffle(regs)
        offs, arr = layout(rng, n, regs)
        fam = "disjoint"
    return fam, "%s %d %d %d %d %s" % (kern, n, offs["z"], offs["x"], offs["y"], " ".join(map(str, arr)))


def two_region(rng, n, x, inplace_ok=True, base=B):
    if inplace_ok and rng.randint(0, 2) == 0:
        offs, arr = layout(rng, n, [([("z", 0), ("x", 0)], n, x)], base)
        return "z=x", offs, arr
    regs = [([("z", 0)], n, junk(rng, n, base)), ([("x", 0)], n, x)]
    rng.shuffle(regs)
    offs, arr = layout(rng, n, regs, base)
    return "disjoint", offs, arr


def vw_case(rng, kern, n):
    if kern == "add10VW":
        x = vec(rng, n, style=rng.choice([0, 2, 2, 2, 5, 5, None]))
        y = rng.choice([0, 1, 1, 1, B - 1, word(rng)])
    else:
        x = vec(rng, n, style=rng.choice([1, 3, 3, 3, 5, 5, None]))
        y = rng.choice([0, 1, 1, 1, B - 1, word(rng)])
    fam, offs, arr = two_region(rng, n, x)
    return fam, "%s %d %d %d %d %s" % (kern, n, offs["z"], offs["x"], y, " ".join(map(str, arr)))


def shift_case(rng, kern, n, s):
    x = vec(rng, n)
    k = rng.randint(0, 3)
    delta = rng.choice([0, 0, 1, 1, 2, 3, 4, 5, max(0, n - 1), n, n + 1])
    pad = junk(rng, delta)
    pre = [rng.choice(GUARD) for _ in range(rng.randint(0, 2))]
    post = [rng.choice(GUARD) for _ in range(rng.randint(0, 2))]
    if k == 0:
        fam, offs, arr = two_region(rng, n, x, inplace_ok=False)
        zo, xo = offs["z"], offs["x"]
    elif kern == "shl10VU":
        # destination delta words above the source (dec.shl: z[n-m:n] over x = z[0:m])
        arr = pre + x + pad + post
        xo = len(pre)
        zo = xo + delta
        fam = "z=x+%s" % ("0" if delta == 0 else "k")
    else:
        # destination delta words below the source (dec.shr: z[0:n] over x[m-n:])
        arr = pre + pad + x + post
        zo = len(pre)
        xo = zo + delta
        fam = "z=x-%s" % ("0" if delta == 0 else "k")
    return fam, "%s %d %d %d %d %s" % (kern, n, zo, xo, s, " ".join(map(str, arr)))


def vww_case(rng, kern, n):
    if kern == "mulAdd10VWW":
        x = vec(rng, n)
        y, r = rng.choice([0, 1, 2, 10, B - 1, word(rng), word(rng)]), rng.choice([0, 1, B - 1, word(rng)])
        fam, offs, arr = two_region(rng, n, x)
        return fam, "%s %d %d %d %d %d %s" % (kern, n, offs["z"], offs["x"], y, r, " ".join(map(str, arr)))
    if kern == "addMul10VVW":
        x = vec(rng, n)
        z = vec(rng, n)
        y = rng.choice([0, 1, 2, 10, B - 1, B - 1, word(rng), word(rng)])
        if rng.randint(0, 5) == 0:
            offs, arr = layout(rng, n, [([("z", 0), ("x", 0)], n, x)])
            fam = "z=x"
        else:
            regs = [([("z", 0)], n, z), ([("x", 0)], n, x)]
            rng.shuffle(regs)
            offs, arr = layout(rng, n, regs)
            fam = "disjoint"
        return fam, "%s %d %d %d %d %s" % (kern, n, offs["z"], offs["x"], y, " ".join(map(str, arr)))
    if kern == "div10VWW":
        x = vec(rng, n)
        y = rng.choice([1, 2, 3, 10, B - 1, B // 2, max(1, word(rng)), max(1, word(rng))])
        xn = rng.choice([0, y - 1, rng.randrange(y)])
        fam, offs, arr = two_region(rng, n, x)
        return fam, "%s %d %d %d %d %d %s" % (kern, n, offs["z"], offs["x"], y, xn, " ".join(map(str, arr)))
    if kern == "divWVW":
        x = vec(rng, n, base=W64)
        y = rng.choice([1, 2, 3, B, B, W64 - 1, 2 ** 63, max(1, word(rng, W64)), max(1, word(rng, W64))])
        xn = rng.choice([0, y - 1, rng.randrange(y)])
        fam, offs, arr = two_region(rng, n, x, base=W64)
        return fam, "%s %d %d %d %d %d %s" % (kern, n, offs["z"], xn, offs["x"], y, " ".join(map(str, arr)))
    raise KeyError(kern)


def vector_case(rng, kern, n, s=None):
    if kern in ("add10VV", "sub10VV"):
        return vv_case(rng, kern, n)
    if kern in ("add10VW", "sub10VW"):
        return vw_case(rng, kern, n)
    if kern in ("shl10VU", "shr10VU"):
        return shift_case(rng, kern, n, rng.randint(0, 18) if s is None else s)
    return vww_case(rng, kern, n)


def scalar_cases(rng, count):
    for i in range(count):
        x, y = word(rng), word(rng)
        yield "mul10WW", "mul10WW %d %d" % (x, y)
        y = max(1, rng.choice([word(rng), word(rng, W64)]))
        x1 = rng.choice([0, y - 1, rng.randrange(y)])
        yield "div10WW", "div10WW %d %d %d" % (x1, word(rng), y)
        n1 = word(rng)
        n0 = word(rng, W64)
        yield "div10W", "div10W %d %d" % (n1, n0)
    # exhaustive edge products
    for x in EDGE[::3]:
        for y in (0, 1, B - 1, B // 2, 10 ** 9, 10 ** 18 + 1):
            yield "mul10WW", "mul10WW %d %d" % (x, y)
    for n1 in (0, 1, B - 1, B - 2, B // 2, 10 ** 18):
        for n0 in EDGE64:
            yield "div10W", "div10W %d %d" % (n1, n0)
    for y in (1, 2, B - 1, B // 2, 10 ** 10, W64 - 1, 2 ** 63):
        for x1 in sorted(set([0, y - 1, y // 2])):
            for x0 in (0, 1, B - 1, B // 2):
                yield "div10WW", "div10WW %d %d %d" % (x1, x0, y)


def helper_cases(rng, count):
    for k in range(0, 20):
        for d in (-1, 0, 1):
            x = 10 ** k + d
            if 0 <= x < W64:
                yield "decDigits64", "decDigits64 %d" % x
                if x < B:
                    yield "nlz10", "nlz10 %d" % x
                yield "trailingZeroDigits", "trailingZeroDigits %d" % x
    for k in range(0, 65):
        for d in (-1, 0):
            x = 2 ** k + d
            if 0 <= x < W64:
                yield "decDigits64", "decDigits64 %d" % x
    for n in range(1, 19):
        for x in (0, 1, 10 ** n - 1, 10 ** n, 10 ** n + 1, B - 1, W64 - 1, 2 ** 63, word(rng, W64), word(rng)):
            if 0 <= x < W64:
                yield "magicDiv", "magicDiv %d %d" % (n, x)
    for _ in range(count):
        x = word(rng, W64)
        yield "decDigits64", "decDigits64 %d" % x
        yield "nlz10", "nlz10 %d" % word(rng)
        t = word(rng) // 10 ** rng.randint(0, 18) * 10 ** rng.randint(0, 18)
        yield "trailingZeroDigits", "trailingZeroDigits %d" % (t % W64)
        yield "magicDiv", "magicDiv %d %d" % (rng.randint(1, 18), x)


_TIER = ["quick"]


def gen(rng, tier):
    _TIER[0] = tier
    thorough = tier == "thorough"
    reps = 4 if not thorough else 120
    for rep in range(reps):
        for kern in VEC:
            for n in range(0, 71):
                s = (n + 5 * rep) % 19
                fam, line = vector_case(rng, kern, n, s)
                yield dict(family="%s/%s" % (kern, fam), line="O " + line, big=n > 12)
    # all shifts on short vectors, every placement
    for s in range(0, 19):
        for n in (1, 2, 3, 4, 5, 8):
            for kern in ("shl10VU", "shr10VU"):
                fam, line = vector_case(rng, kern, n, s)
                yield dict(family="%s/%s" % (kern, fam), line="O " + line, big=n > 12)
    if thorough:
        for kern in VEC:
            for n in [71, 72, 73, 74, 100, 127, 128, 129, 255, 256, 257, 500, 511, 512, 513, 997, 998, 999, 1000]:
                for _ in range(3):
                    fam, line = vector_case(rng, kern, n)
                    yield dict(family="%s/%s/long" % (kern, fam), line="O " + line, big=True)
    for fam, line in scalar_cases(rng, 150 if not thorough else 4000):
        yield dict(family=fam, line="O " + line)
    for fam, line in helper_cases(rng, 20 if not thorough else 1500):
        yield dict(family=fam, line="O " + line)


def nontrivial(c):
    t = c["line"].split()
    if len(t) > 2 and t[1] in VEC:
        return int(t[2]) >= 1
    return True


# ----------------------------------------------------------------------------
# in-kernel re-evaluation of a sample (vm_compute)

KCTOR = {"mul10WW": "KMul10WW", "div10WW": "KDiv10WW", "div10W": "KDiv10W", "add10VV": "KAdd10VV",
         "sub10VV": "KSub10VV", "add10VW": "KAdd10VW", "sub10VW": "KSub10VW", "shl10VU": "KShl10VU",
         "shr10VU": "KShr10VU", "mulAdd10VWW": "KMulAdd10VWW", "addMul10VVW": "KAddMul10VVW",
         "div10VWW": "KDiv10VWW", "divWVW": "KDivWVW", "decDigits64": "KDecDigits64", "nlz10": "KNlz10",
         "trailingZeroDigits": "KTrailingZeroDigits", "magicDiv": "KMagicDiv"}
NFIXED = {"mul10WW": 2, "div10WW": 3, "div10W": 2, "add10VV": 4, "sub10VV": 4, "add10VW": 4, "sub10VW": 4,
          "shl10VU": 4, "shr10VU": 4, "mulAdd10VWW": 5, "addMul10VVW": 4, "div10VWW": 5, "divWVW": 5,
          "decDigits64": 1, "nlz10": 1, "trailingZeroDigits": 1, "magicDiv": 2}
NRES = {"mul10WW": 2, "div10WW": 2, "div10W": 2, "magicDiv": 2}


def coq_case(line, obs):
    """line: 'O kern args.. mem..' ; obs: parsed observation of the CPU run"""
    t = line.split()
    kern = t[1]
    nf = NFIXED[kern]
    fixed, mem = t[2:2 + nf], t[2 + nf:]
    args = list(fixed)
    if kern in VEC:
        args[0] = "%s%%nat" % args[0]
    call = "(%s %s)" % (KCTOR[kern], " ".join(args))
    res = obs[3]
    nres = NRES.get(kern, 1)
    if obs[2] != "ok" or len(res) != nres + len(mem):
        return None
    return "(%s, %s, (%s, %s))" % (call, vlib.coq_list(mem), vlib.coq_list(res[:nres]), vlib.coq_list(res[nres:]))


def vm_check(cases, g, log, tier):
    want = 50 if tier == "quick" else 200
    # a spread over families, small arrays only
    byfam = {}
    for c in cases:
        if c.get("big") or " V " in c["line"] or len(c["line"]) > 1500:
            continue
        byfam.setdefault(c.get("family", "?").split("/")[0], []).append(c)
    picked = []
    fams = sorted(byfam)
    rnd = 0
    while len(picked) < want and any(rnd * 7 < len(byfam[f]) for f in fams):
        for f in fams:
            if rnd * 7 < len(byfam[f]) and len(picked) < want:
                picked.append(byfam[f][rnd * 7])
        rnd += 1
    items, ids = [], []
    for c in picked:
        o = g.get((c["pid"], 0))
        if o is None:
            continue
        term = coq_case(c["line"], o[0])
        if term is None:
            continue
        items.append(term)
        ids.append(c["pid"])
    if not items:
        return dict(ran=0, mismatches=[])
    d = os.path.join(BUILD, "vm")
    os.makedirs(d, exist_ok=True)
    src = os.path.join(d, "cases_C07.v")
    with open(src, "w") as f:
        f.write("From Dec Require Import L1.KernEval.\nOpen Scope Z_scope.\n")
        f.write("Definition cases : list kcase :=\n [ %s ].\n" % ";\n   ".join(items))
        f.write("Definition bad := Eval vm_compute in kmismatches cases.\nPrint bad.\n")
    rc, out, dt = vlib.sh(["coqc", "-Q", os.path.join(COQ, "theories"), "Dec", "-w", vlib.COQW, src], cwd=d, timeout=900)
    log.append(("vm_compute", rc, dt, out[-1500:] if rc else ""))
    if rc != 0:
        return dict(ran=len(items), mismatches=["coqc failed: " + out[-500:]], secs=dt)
    m = re.search(r"bad\s*=\s*\[(.*?)\]", out, flags=re.S)
    if m is None:
        return dict(ran=len(items), mismatches=["unparsable coqc output"], secs=dt)
    mism = [ids[int(x)] for x in re.findall(r"\d+", m.group(1))] if m.group(1).strip() else []
    return dict(ran=len(items), mismatches=mism, secs=dt)


# ----------------------------------------------------------------------------
# judge: kernel-level tokens + the three library builds on whole programs

def lib_programs(rng_seed, tier, cases):
    """C01's programs (library level); in replay mode the replayed library programs."""
    replayed = [c for c in cases if c.get("family") == "replay" and re.search(r";\s*V ", c["line"])]
    if any(c.get("family") == "replay" for c in cases):
        return [dict(pid=c["pid"], family="library/replay", line=c["line"]) for c in replayed]
    import random
    from props import C01
    rng = random.Random(rng_seed)
    out = []
    for i, c in enumerate(C01.gen(rng, tier)):
        c = dict(c)
        c["pid"] = "L%d" % i
        c["line"] = " ; ".join([v.item() for v in c["vars"]] + ["O " + o for o in c["ops"]])
        c["family"] = "library/" + c.get("family", "?")
        out.append(c)
    return out


def judge(cases, g, m):
    fails = []
    # mismatch tokens are result tokens, so check.py's diff already reports them; a
    # crash of the assembly kernel on an in-precondition input is a failure by itself
    for c in cases:
        o = g.get((c["pid"], 0))
        if o is not None and o[0][2] != "ok":
            fails.append((c, "kernel call crashed on an input satisfying its precondition",
                          dict(implementation=o[1])))
    # library level
    tier = _TIER[0]
    seed = int(os.environ.get("VERIF_SEED", "20261001")) + 7
    progs = lib_programs(seed, tier, cases)
    if not progs:
        return fails
    log = []
    for name, tags in LIB_BUILDS:
        if name not in _built:
            _built[name] = vlib.build_driver(log, tags=tags, name=name)[0]
        if not _built[name]:
            fails.append((progs[0], "library does not build with tags %r" % tags, dict(implementation="")))
            return fails
    text = "\n".join("%s ; %s" % (c["pid"], c["line"]) for c in progs) + "\n"
    outs = {}
    for name, tags in LIB_BUILDS:
        rc, out, dt = vlib.run_side(os.path.join(BUILD, name), text, timeout=TIMEOUT)
        if rc != 0:
            fails.append((progs[0], "library driver built with %r exited with status %d" % (tags, rc),
                          dict(implementation=out[-500:])))
            return fails
        d = {}
        for line in out.split("\n"):
            t = line.split(None, 2)
            if len(t) >= 2:
                d[(t[0], t[1])] = line
        outs[name] = d
    LIBSTATS["programs"] = len(progs)
    LIBSTATS["lines"] = len(outs[LIB_BUILDS[0][0]])
    base = outs[LIB_BUILDS[0][0]]
    bypid = {c["pid"]: c for c in progs}
    seen = set()
    for name, tags in LIB_BUILDS[1:]:
        other = outs[name]
        for k in sorted(set(base) | set(other)):
            if base.get(k) != other.get(k) and k[0] not in seen:
                seen.add(k[0])
                fails.append((bypid.get(k[0], progs[0]),
                              "default build and the build with tags %r give different results at step %s" % (tags, k[1]),
                              dict(implementation=base.get(k), other_build=other.get(k), tags=tags)))
                if len(fails) > 20:
                    return fails
    return fails


LIBSTATS = {}
