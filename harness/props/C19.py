"""C19 — Context operations round to the context and latch the first NaN."""
from fractions import Fraction
from vlib import fin, zero, inf, B, ndigits
import pyspec
from . import C01, common

ID = "C19"
LEVEL = "proof"
RULE = ("random sequences of context operations (Add Sub Mul Quo FMA Neg Abs Set Err SetPrec SetMode New NewInt64 NewUint64) "
        "over 5 variables mixing valid and NaN-producing argument classes, with Err() at random points and a nil-operand probe "
        "(a run-time error that is not an ErrNaN); receivers with arbitrary previous precision/mode; "
        "non-trivial = sequence containing at least one NaN-producing call")
EXPLANATION = ("the executable Coq model of context.Context (L5/Context.v: apply-then-operate, error latch, Err) is run against "
               "the code; independent judges check on the implementation's observations that results with receivers distinct "
               "from the operands are the exact result rounded to the context's precision/mode, that after the first ErrNaN "
               "every operation leaves the whole store unchanged until Err(), that Err() reports once, and that non-ErrNaN "
               "panics escape and are not recorded")
ASSUMPTIONS = C01.ASSUMPTIONS
JUDGE_STATS = {}


def coq_op(o):
    raise KeyError("context programs are not part of the L3 vm sample")


def nontrivial(c):
    return True


def vm_check(cases, g, log, tier):
    """in-kernel evaluation of a sample of context programs"""
    import os, re, vlib
    items, ids = [], []
    for c in cases:
        if len(items) >= (25 if tier == "quick" else 120) or len(c["ops"]) > 12:
            continue
        obs = [g.get((c["pid"], i)) for i in range(len(c["ops"]))]
        if any(o is None for o in obs):
            continue
        try:
            cops = [coq_cop(o) for o in c["ops"]]
        except KeyError:
            continue
        terms = []
        for (o, _l) in obs:
            key, opn, outcome, res, vs = o
            rterm = "(mkRes %s %s [])" % ({"ok": "Ok", "nan": "NaN", "crash": "Crash"}[outcome], vlib.coq_list([vlib.coq_z(i) for i in res]))
            terms.append("(%s, %s)" % (rterm, vlib.coq_list([vlib.coq_dec_from_obs(v) for v in vs])))
        items.append("(%s, ctx_new %d %s, %s, %s)" % (vlib.coq_list([vlib.coq_dec_from_dv(v) for v in c["vars"]]), c["cprec"],
                                                      vlib.MODES[c["cmode"]], vlib.coq_list(cops), vlib.coq_list(terms)))
        ids.append(c["pid"])
    if not items:
        return dict(ran=0, mismatches=[])
    d = os.path.join(vlib.BUILD, "vm")
    os.makedirs(d, exist_ok=True)
    src = os.path.join(d, "cases_C19.v")
    with open(src, "w") as f:
        f.write("From Dec Require Import L3.Store L5.Context.\nOpen Scope Z_scope.\n")
        f.write("Definition ccase_ok (c : store * ctx * list cop * list (result * store)) : bool :=\n"
                "  let '(s, cx, p, o) := c in list_eqb obs_eqb (map (fun rs => (fst rs, fst (snd rs))) (crun (s, cx) p)) o.\n")
        f.write("Definition cases := [ %s ].\n" % ";\n ".join(items))
        f.write("Definition bad := Eval vm_compute in (filter (fun c => negb (ccase_ok c)) cases).\n"
                "Definition nbad := Eval vm_compute in length bad.\nPrint nbad.\n")
    rc, out, dt = vlib.sh(["coqc", "-Q", os.path.join(vlib.COQ, "theories"), "Dec", "-w", vlib.COQW, src], cwd=d, timeout=900)
    log.append(("vm_compute", rc, dt, out[-1500:] if rc else ""))
    if rc != 0:
        return dict(ran=len(items), mismatches=["coqc failed: " + out[-400:]])
    mm = re.search(r"nbad\s*=\s*(\d+)", out)
    n = int(mm.group(1)) if mm else -1
    return dict(ran=len(items), mismatches=[] if n == 0 else ["%d context cases differ inside Coq" % n])


def coq_cop(o):
    t = o.split()
    n = t[0]
    if n == "CNilOperand":
        return "(CNilOperand %s)" % t[1]
    if n in ("CAdd", "CSub", "CMul", "CQuo", "CFMA", "CNeg", "CAbs", "CSet", "CSqrt", "CNew"):
        return "(%s %s)" % (n, " ".join(t[1:]))
    if n == "CErr":
        return "CErr"
    if n == "CSetPrec":
        return "(CSetPrec %s)" % t[1]
    if n == "CSetMode":
        return "(CSetMode %s)" % common.MODE_NAMES[int(t[1])]
    if n in ("CNewInt64", "CNewUint64"):
        return "(%s %s %s)" % (n, t[1], common._z(t[2]))
    return "(CPlain %s)" % common.coq_op(o)


def gen(rng, tier):
    n = 1 if tier == "quick" else 10
    for _ in range(500 * n):
        cprec, cmode = rng.choice([1, 2, 5, 16, 19, 34, 40]), rng.randint(0, 5)
        vs = [C01.recv(rng), C01.recv(rng),                       # receivers 0,1
              common.rand_fin(rng, 40, wide=False), common.rand_fin(rng, 40, wide=False),   # operands 2,3
              rng.choice([zero(0), zero(1), inf(0), inf(1)]), rng.choice([inf(0), inf(1), zero(0)])]   # specials 4,5
        ops = []
        for _ in range(rng.randint(3, 12)):
            k = rng.randint(0, 19)
            z = rng.randint(0, 1)
            a, b, u = (rng.choice([2, 3, 2, 3, 4, 5]) for _ in range(3))
            if k <= 8:
                ops.append("%s %d %d %d" % (rng.choice(["CAdd", "CSub", "CMul", "CQuo"]), z, a, b))
            elif k == 9:
                ops.append("CFMA %d %d %d %d" % (z, a, b, u))
            elif k <= 11:
                ops.append("%s %d %d" % (rng.choice(["CNeg", "CAbs", "CSet", "CSqrt", "CSqrt"]), z, a))
            elif k <= 14:
                ops.append("CErr")
            elif k == 15:
                ops.append("CSetPrec %d" % rng.choice([0, 1, 3, 20, 34]))
            elif k == 16:
                ops.append("CSetMode %d" % rng.randint(0, 5))
            elif k == 17:
                ops.append(rng.choice(["CNew %d" % z, "CNewInt64 %d %d" % (z, rng.randint(-10**12, 10**12)), "CNewUint64 %d %d" % (z, rng.randint(0, 2**64 - 1))]))
            elif k == 18:
                ops.append("CNilOperand %d %d" % (z, rng.randint(0, 5)))
            else:
                # receiver aliased with an operand (allowed, but outside the rounding clause)
                ops.append("%s %d %d %d" % (rng.choice(["CAdd", "CMul"]), z, z, a))
        ops.append("CErr")
        line = "C %d %d ; " % (cprec, cmode) + " ; ".join([v.item() for v in vs] + ["O " + o for o in ops])
        yield dict(family="context-sequence", vars=vs, ops=ops, line=line, cprec=cprec, cmode=cmode)
    for c in gen_big_prec(rng, 40 * n):
        yield c


def gen_big_prec(rng, count):
    for _ in range(count):
        cp = rng.choice([2**32, 2**33, 2**32 - 1, 2**32 + 1, 3 * 2**32, 2**63])
        vs = [C01.recv(rng, prec=5), C01.recv(rng, prec=5), common.rand_fin(rng, 40, wide=False), common.rand_fin(rng, 40, wide=False),
              zero(0), inf(0)]
        ops = ["CSetPrec %d" % cp]
        for _ in range(rng.randint(2, 5)):
            ops.append(rng.choice(["CAdd 0 2 3", "CMul 1 2 3", "CSub 0 3 2", "CSet 1 2", "CNeg 0 3", "CErr"]))
        ops.append("CSetPrec %d" % rng.choice([3, 20]))
        ops += ["CAdd 0 2 3", "CErr"]
        cprec, cmode = rng.choice([5, 34]), rng.randint(0, 5)
        line = "C %d %d ; " % (cprec, cmode) + " ; ".join([v.item() for v in vs] + ["O " + o for o in ops])
        yield dict(family="context-huge-precision", vars=vs, ops=ops, line=line, cprec=cprec, cmode=cmode)


def judge(cases, g, m):
    fails = []
    JUDGE_STATS.update(rounding_checked=0, latched_steps_checked=0, err_calls_checked=0, nil_probes=0)
    for c in cases:
        if "vars" not in c:
            continue
        prev = [C01.dv_obs(v) for v in c["vars"]]
        cprec = c["cprec"] if c["cprec"] else 34
        cmode = c["cmode"]
        latched = False
        for i, o in enumerate(c["ops"]):
            ob = g.get((c["pid"], i))
            if ob is None:
                break
            (key, opn, outcome, res, vs), line = ob
            t = o.split()
            msg = None
            if opn == "CSetPrec":
                cprec = min(int(t[1]) or 34, 2**32 - 1)
            elif opn == "CSetMode":
                cmode = int(t[1])
            elif opn == "CErr":
                JUDGE_STATS["err_calls_checked"] += 1
                if (res[0] == "1") != latched:
                    msg = "Err() returned %s but an ErrNaN %s pending" % (res[0], "was" if latched else "was not")
                if res[0] == "2":
                    msg = "Err() returned an error that is not an ErrNaN"
                latched = False
            elif opn == "CNilOperand":
                JUDGE_STATS["nil_probes"] += 1
                if not latched and outcome != "crash":
                    msg = "a run-time error that is not an ErrNaN was swallowed"
            elif latched and opn.startswith("C") and opn not in ("CNew", "CNewInt64", "CNewUint64"):
                JUDGE_STATS["latched_steps_checked"] += 1
                if vs != prev:
                    msg = "operation executed although an ErrNaN is pending"
            elif opn == "CSqrt":
                x = prev[int(t[2])]
                if outcome == "crash":
                    msg = "panic escaped from a context operation: " + line[:120]
                elif x[1] == "1" and x[0] != "0":
                    latched = True                       # square root of a negative operand: ErrNaN recorded
                elif (int(vs[int(t[1])][2]), int(vs[int(t[1])][3])) != (cprec, cmode):
                    msg = "receiver has precision/mode %s/%s, context has %d/%d" % (vs[int(t[1])][2], vs[int(t[1])][3], cprec, cmode)
            elif opn in ("CAdd", "CSub", "CMul", "CQuo", "CFMA"):
                if outcome == "crash":
                    msg = "panic escaped from a context operation: " + line[:120]
                else:
                    zi = int(t[1])
                    xs = [prev[int(a)] for a in t[2:]]
                    nanp = is_nan(opn, xs)
                    if nanp and zi not in [int(a) for a in t[2:]]:
                        latched = True
                    elif nanp:
                        latched = True
                    elif zi not in [int(a) for a in t[2:]] and cprec > 100000:
                        # precision far beyond every operand: the result is exact; only the attributes are checked here
                        if (int(vs[zi][2]), int(vs[zi][3])) != (cprec, cmode):
                            msg = "receiver has precision/mode %s/%s, context has %d/%d" % (vs[zi][2], vs[zi][3], cprec, cmode)
                        elif vs[zi][0] == "1" and vs[zi][4] != "0":
                            msg = "inexact result at precision %d" % cprec
                    elif zi not in [int(a) for a in t[2:]]:
                        JUDGE_STATS["rounding_checked"] += 1
                        # the receiver's own precision/mode are irrelevant: result rounded to the context
                        fake_prev = list(prev)
                        zz = list(prev[zi])
                        zz[2], zz[3] = str(cprec), str(cmode)
                        fake_prev[zi] = tuple(zz)
                        if opn == "CFMA":
                            from . import C03
                            msg = C03.judge_fma(["FMA"] + t[1:], fake_prev, vs)
                        else:
                            msg = C01.judge_op(opn[1:], [opn[1:]] + t[1:], fake_prev, vs)
                        if msg is None and (int(vs[zi][2]), int(vs[zi][3])) != (cprec, cmode):
                            msg = "receiver has precision/mode %s/%s, context has %d/%d" % (vs[zi][2], vs[zi][3], cprec, cmode)
            for v in vs:
                w = pyspec.wf(v)
                if w and msg is None:
                    msg = "not canonical: " + w
            if msg:
                fails.append((c, "context rule violated at step %d (%s): %s" % (i, o, msg), dict(implementation=line[:1200], step=i)))
                break
            prev = vs
    return fails


def is_nan(opn, xs):
    k = [(v[0], v[1] == "1") for v in xs]
    if opn in ("CAdd", "CSub"):
        (fx, nx), (fy, ny) = k
        if opn == "CSub":
            ny = not ny
        return fx == "2" and fy == "2" and nx != ny
    if opn == "CMul":
        return {k[0][0], k[1][0]} == {"0", "2"}
    if opn == "CQuo":
        return (k[0][0] == "0" and k[1][0] == "0") or (k[0][0] == "2" and k[1][0] == "2")
    if opn == "CFMA":
        (fx, nx), (fy, ny), (fu, nu) = k
        if {fx, fy} == {"0", "2"}:
            return True
        if "2" in (fx, fy) and fu == "2" and nu != (nx != ny):
            return True
    return False
