"""C06 — long multiplication, squaring and division are exact at every size and tuning.

Natural-number level: the real `dec` routines (through /repo/verif_hooks.go, binary
build/ndriver) against the extracted L2 interpreter (build/nrunner), which evaluates
the algorithmic models (same thresholds as the case) and the value-level routines and
flags any disagreement between the two."""
import os, re
import vlib
from vlib import ROOT, BUILD, COQ, REPO, GOENV, COQW, B, sh, file_hash

ID = "C06"
LEVEL = "proof"
DRIVER = "ndriver"
RUNNER = "nrunner"
TIMEOUT = 1200
RULE = ("one line = thresholds + pool poisoning + natural-number operations (mul, sqr, div, divW, add, sub, shl, shr, "
        "cmp, digit, sticky, digits, tz, conversions) on little-endian word lists; families: balanced/unbalanced "
        "products, squares, dividends built as q*v+r with add-back and q-hat triggers, divisors around and above "
        "divRecursiveThreshold, word patterns {0,1,B-1,B/2,B/2+-1,random} with runs, the same operands under several "
        "threshold settings, F1 witnesses; distinct = different line text; non-trivial = some operand of >= 2 words")
EXPLANATION = ("theorems C06_* (Props/C06.v) prove the algorithmic models of mul/sqr/div equal to the value-level "
               "routines for all lengths, contents and thresholds; the run ties the models to dec.go by executing "
               "both on generated operands under sampled thresholds with a poisoned scratch pool; the runner "
               "prints the value-level answer and a marker whenever the algorithmic model differs from it")
ASSUMPTIONS = ["operands are slices of decimal words (< 10^19); div/cmp/sub operands are normalised (no leading zero words)",
               "the word kernels meet their value-level specifications L2/KernV.v (C07)"]
TRUSTED = ["value-level kernel specifications L2/KernV.v (tied to the Go/assembly kernels by C07)"]

HALF = B // 2
SPECIAL = [0, 1, B - 1, HALF, HALF + 1, HALF - 1]


def div_threshold():
    """divRecursiveThreshold is a Go constant: read it from the source the check is run on."""
    try:
        m = re.search(r"const\s+divRecursiveThreshold\s*=\s*(\d+)", open(os.path.join(REPO, "stdlib.go")).read())
        return int(m.group(1))
    except Exception:
        return 100


# ----------------------------------------------------------------------------
# build: ndriver (Go) and nrunner (extracted OCaml)

def build(log):
    d = os.path.join(ROOT, "harness", "ndriver")
    if os.path.exists(os.path.join(REPO, "go.sum")):
        sh(["cp", os.path.join(REPO, "go.sum"), d])
    rc, out, dt = sh(["go", "build", "-tags", "verif", "-o", os.path.join(BUILD, "ndriver"), "."], cwd=d, env=GOENV, timeout=600)
    log.append(("go-build[ndriver]", rc, dt, out[-3000:] if rc else ""))
    if rc:
        return False, out
    ex = os.path.join(BUILD, "extractn")
    os.makedirs(ex, exist_ok=True)
    rc, out, dt = sh(["coqc", "-Q", os.path.join(COQ, "theories"), "Dec", "-w", COQW, "-o", "./ExtractN.vo",
                      os.path.join(COQ, "theories", "Extract", "ExtractN.v")], cwd=ex, timeout=600)
    log.append(("extract-n", rc, dt, out[-2000:] if rc else ""))
    if rc:
        return False, "extraction of the L2 models failed:\n" + out
    main_src = os.path.join(ROOT, "harness", "ocaml", "nmain.ml")
    h = file_hash([os.path.join(ex, "nmodel.ml"), main_src])
    stamp = os.path.join(BUILD, "nrunner.hash")
    runner = os.path.join(BUILD, "nrunner")
    if os.path.exists(runner) and os.path.exists(stamp) and open(stamp).read() == h:
        return True, ""
    sh(["cp", main_src, os.path.join(ex, "nmain.ml")])
    rc, out, dt = sh("ocamlfind ocamlopt -package zarith -linkpkg -w -a -inline 100 nmodel.mli nmodel.ml nmain.ml -o ../nrunner",
                     cwd=ex, timeout=600)
    log.append(("ocaml-n", rc, dt, out[-2000:] if rc else ""))
    if rc:
        return False, "nrunner build failed:\n" + out
    open(stamp, "w").write(h)
    return True, ""


# ----------------------------------------------------------------------------
# operand generators

def val(ws):
    n = 0
    for w in reversed(ws):
        n = n * B + w
    return n


def words(n, k=None):
    ws = []
    while n > 0:
        ws.append(n % B)
        n //= B
    if k is not None:
        ws += [0] * (k - len(ws))
    return ws


def pat(rng, n, norm=True, top=None):
    """n words with patterns: specials, runs spanning whole words, random."""
    if n <= 0:
        return []
    style = rng.randint(0, 6)
    ws = []
    if style == 0:
        ws = [rng.randrange(B) for _ in range(n)]
    elif style == 1:
        ws = [rng.choice(SPECIAL) for _ in range(n)]
    elif style == 2:
        w = rng.choice([0, B - 1, HALF, 1])
        ws = [w] * n
    elif style == 3:      # runs of 0 / B-1 with random islands
        while len(ws) < n:
            r = rng.randint(1, max(1, n // 2))
            k = rng.randint(0, 3)
            ws += [0] * r if k == 0 else [B - 1] * r if k == 1 else [rng.randrange(B) for _ in range(min(r, 3))]
        ws = ws[:n]
    elif style == 4:      # mostly random, a few specials
        ws = [rng.choice(SPECIAL) if rng.random() < 0.2 else rng.randrange(B) for _ in range(n)]
    elif style == 5:      # decimal-digit runs inside words (…999000…)
        ws = [int("".join(rng.choice(["9" * 19, "0" * 19, "9" * rng.randint(1, 18) + "0" * 18, "1" + "0" * 18])[:19])) % B
              for _ in range(n)]
    else:
        ws = [rng.choice([0, B - 1]) if rng.random() < 0.7 else rng.choice([1, B - 2, HALF]) for _ in range(n)]
    if top is not None:
        ws[-1] = top
    if norm and ws[-1] == 0:
        ws[-1] = rng.choice([1, B - 1, HALF, rng.randrange(1, B)])
    return ws


def L(ws):
    return "%d %s" % (len(ws), " ".join(map(str, ws))) if ws else "0"


def rlen(rng, hi):
    k = rng.randint(0, 9)
    if k < 3:
        return rng.randint(1, min(hi, 6))
    if k < 6:
        return rng.randint(1, min(hi, 40))
    if k < 8:
        return rng.randint(1, min(hi, 120))
    return rng.randint(1, hi)


def thresholds(rng, d):
    return "thresholds %d %d %d %d" % (rng.randint(2, 40), rng.randint(2, 12), rng.randint(4, 60), d)


def poison(rng, need):
    junk = rng.choice([B - 1, 2**64 - 1, 1, rng.randrange(2**64), 0x5555555555555555])
    return "poison %d %d %d" % (rng.randint(1, 6), rng.randint(max(1, need // 3), 4 * need + 8), junk)


def prog(rng, d, ops, need):
    items = [thresholds(rng, d)]
    if rng.random() < 0.85:
        items.append(poison(rng, need))
    return items + ops


def top_words(rng):
    return rng.choice([HALF, HALF + 1, HALF - 1, B - 1, 1, 2, 3, B // 3, B // 3 + 1, rng.randrange(1, B), 10**18, 10**18 - 1])


def dividend(rng, v, lq):
    """u = q*v + r with r < v; shapes that make q-hat wrong by one / need add-back."""
    V = val(v)
    q = val(pat(rng, lq, norm=False)) if lq > 0 else 0
    k = rng.randint(0, 9)
    low = V % (B ** max(0, len(v) - 2)) if len(v) > 2 else 0
    if k == 0:
        r = 0
    elif k == 1:
        r = V - 1
    elif k <= 4 and V > 2:
        # remainder just below v: the last quotient digit is estimated one too large
        q0 = q % B
        lim = max(1, min(V - 1, (q0 + 1) * low))
        r = V - rng.choice([1, 2, lim, max(1, lim // 2), rng.randint(1, lim)])
    elif k == 5:
        r = rng.randrange(V) if V > 1 else 0
    elif k == 6:
        r = val(pat(rng, len(v), norm=False)) % V
    else:
        r = rng.randrange(min(V, B ** rng.randint(1, len(v))))
    u = q * V + r
    return words(u), q, r


F1 = [("9999999999965690540527656940708383153099999999999999999999999999999999999999", "99999999999999999999999999999999999999"),
      ("782725715221256840099999999999564711629999999999929790292", "99999999999697691039999999999999999999"),
      ("9999999999999999999000000000000000000099999999999999999999999999999999999999", "999999999993944519799999999999999999995353898390342291031")]


def gen(rng, tier):
    d = div_threshold()
    quick = tier != "thorough"
    hi = 300 if quick else 1000
    scale = 1 if quick else 4

    # ---- F1 witnesses (add-back must wrap at B), at every digit alignment
    for (ys, qs) in F1:
        y, q = int(ys), int(qs)
        for sh_ in range(0, 19, 1 if not quick else 3):
            for extra in (0, 1, y - 1):
                v = words(y * 10 ** sh_)
                u = words(q * y * 10 ** sh_ + (extra * 10 ** sh_ if extra < y else 0))
                yield dict(family="f1-witness", line=" ; ".join("O " + o for o in prog(rng, d, ["div %s %s" % (L(u), L(v))], len(u))))

    # ---- small exhaustive-ish: 1-3 word operands from the special words
    sp = [1, B - 1, HALF, HALF + 1, HALF - 1, 2]
    cnt = 0
    for a in sp:
        for b in sp:
            for c in ([0, B - 1, HALF] if quick else sp + [0]):
                cnt += 1
                u3, v2 = [c, b, a], [b, a]
                ops = ["mul %s %s" % (L(u3), L(v2)), "sqr %s" % L(u3), "div %s %s" % (L(u3), L(v2)),
                       "div %s %s" % (L([c, c, b, a]), L([a, b])), "divW %s %d" % (L(u3), b),
                       "add %s %s" % (L(u3), L(v2)), "sub %s %s" % (L(u3), L(v2)), "cmp %s %s" % (L(u3), L(v2))]
                yield dict(family="small-special", line=" ; ".join("O " + o for o in prog(rng, d, ops, 8)))

    # ---- products
    for _ in range(260 * scale):
        m = rlen(rng, hi)
        n = m if rng.random() < 0.5 else rlen(rng, hi)
        x, y = pat(rng, m), pat(rng, n)
        ops = ["mul %s %s" % (L(x), L(y))]
        if rng.random() < 0.3:
            ops.append("mul %s %s" % (L(y), L(x)))
        yield dict(family="mul-balanced" if m == n else "mul-unbalanced",
                   line=" ; ".join("O " + o for o in prog(rng, d, ops, 3 * max(m, n))))
    # lengths around the thresholds and powers of two (karatsubaLen boundaries)
    for _ in range(120 * scale):
        k = rng.randint(2, 40)
        n = rng.choice([k - 1, k, k + 1, 2 * k - 1, 2 * k, 2 * k + 1, 4 * k, 4 * k + 1, 3 * k, 8 * k - 1])
        n = max(1, min(n, hi))
        m = rng.choice([n, n + 1, 2 * n, 2 * n + 1, n + k, 3 * n - 1])
        m = max(1, min(m, hi))
        x, y = pat(rng, m), pat(rng, n)
        items = ["thresholds %d %d %d %d" % (k, rng.randint(2, 12), rng.randint(4, 60), d), poison(rng, 3 * m),
                 "mul %s %s" % (L(x), L(y)), "sqr %s" % L(y)]
        yield dict(family="mul-threshold-edges", line=" ; ".join("O " + o for o in items))
    # unnormalised operands (leading zero words) are legal for mul/sqr
    for _ in range(40 * scale):
        x, y = pat(rng, rlen(rng, 80), norm=False) + [0] * rng.randint(0, 3), pat(rng, rlen(rng, 80), norm=False) + [0] * rng.randint(0, 2)
        yield dict(family="mul-unnormalised", line=" ; ".join("O " + o for o in prog(rng, d, ["mul %s %s" % (L(x), L(y)), "sqr %s" % L(x)], 200)))

    # ---- squares
    for _ in range(160 * scale):
        n = rlen(rng, hi)
        x = pat(rng, n)
        yield dict(family="sqr", line=" ; ".join("O " + o for o in prog(rng, d, ["sqr %s" % L(x)], 3 * n)))
    for _ in range(60 * scale):
        bs, ks = rng.randint(2, 12), rng.randint(4, 60)
        n = max(1, min(hi, rng.choice([bs - 1, bs, ks - 1, ks, ks + 1, 2 * ks, 2 * ks + 1, 4 * ks, 3 * ks + 1])))
        x = pat(rng, n)
        items = ["thresholds %d %d %d %d" % (rng.randint(2, 40), bs, ks, d), poison(rng, 3 * n), "sqr %s" % L(x)]
        yield dict(family="sqr-threshold-edges", line=" ; ".join("O " + o for o in items))

    # ---- the same operands under several threshold settings
    for _ in range(40 * scale):
        m, n = rlen(rng, min(hi, 200)), rlen(rng, min(hi, 200))
        x, y = pat(rng, m), pat(rng, n)
        u, _, _ = dividend(rng, y, m)
        items = []
        for _ in range(4):
            items += [thresholds(rng, d), poison(rng, 3 * max(m, n)), "mul %s %s" % (L(x), L(y)), "sqr %s" % L(x),
                      "div %s %s" % (L(u), L(y))]
        yield dict(family="threshold-sweep", line=" ; ".join("O " + o for o in items))

    # ---- divisions: Knuth D range (divisor below divRecursiveThreshold)
    for _ in range(420 * scale):
        n = rng.choice([2, 2, 3, 3, 4, rng.randint(2, 12), rng.randint(2, 60), rng.randint(2, min(d - 1, hi))])
        v = pat(rng, n, top=top_words(rng))
        if rng.random() < 0.3:
            # near-equal leading words (u[j+n] == v[n-1] branch) and runs of B-1 below the top
            v = [rng.choice([B - 1, 0, rng.randrange(B)]) for _ in range(n - 1)] + [v[-1]]
            if n >= 2 and rng.random() < 0.6:
                v[-2] = rng.choice([B - 1, 0, B - 2, 1])
        lq = rng.choice([0, 1, 1, 2, 3, rng.randint(1, 20), rlen(rng, min(hi, 200))])
        u, q, r = dividend(rng, v, lq)
        if not u:
            u = v[:]
        yield dict(family="div-basic", line=" ; ".join("O " + o for o in prog(rng, d, ["div %s %s" % (L(u), L(v))], len(u) + 2)))
    # u's leading words equal to v's (q-hat = B-1 shortcut)
    for _ in range(80 * scale):
        n = rng.randint(2, 30)
        v = pat(rng, n, top=top_words(rng))
        k = rng.randint(1, n)
        u = pat(rng, rng.randint(0, 20), norm=False) + [max(0, w - rng.choice([0, 0, 1])) for w in v[:n - k]] + v[n - k:]
        while u and u[-1] == 0:
            u.pop()
        yield dict(family="div-equal-top", line=" ; ".join("O " + o for o in prog(rng, d, ["div %s %s" % (L(u), L(v))], len(u) + 2)))
    # single-word divisors
    for _ in range(60 * scale):
        x = pat(rng, rlen(rng, 100))
        y = rng.choice([1, 2, 3, 10, B - 1, HALF, rng.randrange(1, B)])
        yield dict(family="divW", line=" ; ".join("O " + o for o in prog(rng, d, ["divW %s %d" % (L(x), y), "div %s %s" % (L(x), L([y])), "divW %s 0" % L(x)], 8)))

    # ---- divisions: recursive range (divisor lengths around and above divRecursiveThreshold)
    for i in range(50 * scale if quick else 300):
        n = rng.choice([d - 1, d, d + 1, d + 2, rng.randint(d, d + 30), rng.randint(d, max(d + 1, min(hi, 260))), rng.randint(d, max(d + 1, min(hi, 260)))])
        if not quick and i % 10 == 0:
            n = rng.randint(260, 600)
        v = pat(rng, n, top=top_words(rng))
        lq = rng.choice([1, 2, n // 2, n // 2 + 1, n - 1, n, n + 1, rng.randint(1, min(hi, 2 * n)), rng.randint(1, 40)])
        u, q, r = dividend(rng, v, lq)
        if not u:
            u = v[:]
        items = ["thresholds %d %d %d %d" % (rng.randint(2, 40), rng.randint(2, 12), rng.randint(4, 60), d), poison(rng, 3 * n),
                 "div %s %s" % (L(u), L(v))]
        yield dict(family="div-recursive", line=" ; ".join("O " + o for o in items))

    # quotient estimates of divRecursiveStep off by two: v = v_h*B^s + v_l with v_h minimal, v_l maximal, q blocks of B-1
    for i in range(40 * scale):
        n = rng.choice([d, d + 1, d + 2, d + 4, d + 7, 2 * d, 2 * d + 1, rng.randint(d, max(d + 1, min(hi, 260)))])
        bk = n // 2
        s_ = rng.choice([bk, bk - 1, bk, rng.randint(1, n - 1)])
        lowv = [B - 1] * s_ if rng.random() < 0.7 else pat(rng, s_, norm=False)
        v = lowv + [0] * (n - s_ - 1) + [rng.choice([HALF, HALF, HALF + 1, B - 1, 1, top_words(rng)])]
        lq = rng.choice([bk, bk, bk + 1, 2 * bk, 2 * bk + 1, n, rng.randint(1, 2 * n)])
        q = [B - 1] * lq if rng.random() < 0.6 else pat(rng, lq, norm=False)
        r = rng.choice([0, 0, 1, val(v) - 1, rng.randrange(val(v)), rng.randrange(B ** rng.randint(1, n))]) % val(v)
        u = words(val(q) * val(v) + r) or v[:]
        items = ["thresholds %d %d %d %d" % (rng.randint(2, 40), rng.randint(2, 12), rng.randint(4, 60), d), poison(rng, 3 * n),
                 "div %s %s" % (L(u), L(v))]
        yield dict(family="div-recursive-off-by-two", line=" ; ".join("O " + o for o in items))

    # F21 shape: the dividend is exactly half a block longer than the divisor (no full block runs in divRecursiveStep, the
    # final step divides by the top half of the divisor only), high words of u maximal, low half of v maximal, top of v minimal
    for i in range(40 * scale):
        n = rng.choice([d, d, d + 1, d + 2, d + 3, 2 * d, 2 * d + 1, rng.randint(d, max(d + 1, min(hi, 260)))])
        bk = n // 2
        s_ = rng.choice([bk, bk, bk - 1, bk + 1])
        v = ([B - 1] * s_ if rng.random() < 0.8 else pat(rng, s_, norm=False)) + [0] * (n - s_ - 1) + [rng.choice([HALF, HALF, HALF + 1, HALF + 2, B - 1])]
        lu = n + rng.choice([bk, bk, bk, bk - 1, bk + 1, (n + 1) // 2])
        u = [B - 1] * lu if rng.random() < 0.6 else pat(rng, lu - bk, norm=False) + [B - 1] * bk
        items = ["thresholds %d %d %d %d" % (rng.randint(2, 40), rng.randint(2, 12), rng.randint(4, 60), d), poison(rng, 3 * n),
                 "div %s %s" % (L(u), L(v))]
        yield dict(family="div-recursive-final-block", line=" ; ".join("O " + o for o in items))

    # ---- the small routines and the conversions
    for _ in range(200 * scale):
        x, y = pat(rng, rlen(rng, 60)), pat(rng, rlen(rng, 60))
        if val(x) < val(y):
            x, y = y, x
        s = rng.choice([0, 1, 18, 19, 20, 37, 38, rng.randint(0, 19 * (len(x) + 2))])
        i = rng.randint(0, 19 * (len(x) + 1))
        ops = ["add %s %s" % (L(x), L(y)), "add %s %s" % (L(y), L(x)), "sub %s %s" % (L(x), L(y)), "sub %s %s" % (L(y), L(x)),
               "cmp %s %s" % (L(x), L(y)), "cmp %s %s" % (L(y), L(x)), "cmp %s %s" % (L(x), L(x)),
               "shl %s %d" % (L(x), s), "shr %s %d" % (L(x), s), "shlip %s %d" % (L(x), s), "shrip %s %d" % (L(x), s),
               "digit %s %d" % (L(x), i), "sticky %s %d" % (L(x), i), "digits %s" % L(x), "tz %s" % L(x),
               "toNat %s" % L(x), "bytes %s" % L(x), "toUint64 %s" % L(words(val(x[:rng.randint(0, 3)])))]
        nat = [rng.randrange(2**64) for _ in range(rng.randint(0, 8))]
        nn = (len(nat) * 64 * 30103) // (19 * 100000) + 2
        ops.append("setNat %d %s" % (nn, L(nat)))
        ops.append("setUint64 %d" % rng.choice([0, 1, B - 1, B, B + 1, 2**64 - 1, rng.randrange(2**64)]))
        bs = bytes(rng.randrange(256) for _ in range(rng.randint(0, 40)))
        ops.append("setBytes %s" % (bs.hex() or "-"))
        yield dict(family="small-routines", line=" ; ".join("O " + o for o in prog(rng, d, ops, 100)))
    yield dict(family="small-routines", line="O thresholds 30 10 50 %d ; O add 0 0 ; O sub 0 0 ; O mul 0 0 ; O mul 0 1 5 ; O sqr 0 ; O div 0 1 5 ; "
               "O div 1 5 0 ; O cmp 0 0 ; O shl 0 5 ; O shr 0 5 ; O digits 0 ; O tz 0 ; O toNat 0 ; O bytes 0 ; O toUint64 0 ; O digit 0 3 ; O sticky 0 3" % d)


def nontrivial(c):
    t = c["line"].split()
    for i, w in enumerate(t):
        if w in ("mul", "sqr", "div") and i + 1 < len(t) and t[i + 1].isdigit() and int(t[i + 1]) >= 2:
            return True
    return False


# ----------------------------------------------------------------------------
# in-kernel re-evaluation of a small sample (vm_compute)

def _take(t):
    n = int(t[0])
    return [int(w) for w in t[1:1 + n]], t[1 + n:]


def _zl(ws):
    return "[" + "; ".join(str(w) for w in ws) + "]"


def coq_nop(t):
    """tokens of one op -> (Coq term, size in words) or None"""
    op = t[0]
    if op in ("mul", "div", "add", "sub", "cmp"):
        x, r = _take(t[1:])
        y, _ = _take(r)
        return "(N%s %s %s)" % (op.capitalize(), _zl(x), _zl(y)), len(x) + len(y)
    if op in ("sqr", "digits", "toNat", "bytes", "toUint64"):
        x, _ = _take(t[1:])
        name = {"sqr": "NSqr", "digits": "NDigits", "toNat": "NToNat", "bytes": "NBytes", "toUint64": "NToUint64"}[op]
        return "(%s %s)" % (name, _zl(x)), len(x)
    if op == "tz":
        x, _ = _take(t[1:])
        return "(NTZ %s)" % _zl(x), len(x)
    if op in ("divW", "shl", "shr", "shlip", "shrip", "digit", "sticky"):
        x, r = _take(t[1:])
        name = {"divW": "NDivW", "shl": "NShl", "shr": "NShr", "shlip": "NShl", "shrip": "NShr", "digit": "NDigit", "sticky": "NSticky"}[op]
        return "(%s %s %s)" % (name, _zl(x), r[0]), len(x)
    if op == "setUint64":
        return "(NSetUint64 %s)" % t[1], 1
    if op == "setNat":
        x, _ = _take(t[2:])
        return "(NSetNat %s %s)" % (t[1], _zl(x)), len(x)
    if op == "setBytes":
        h = "" if t[1] == "-" else t[1]
        return "(NSetBytes %s)" % _zl([int(h[i:i + 2], 16) for i in range(0, len(h), 2)]), len(h) // 8
    return None


def vm_check(cases, g, log, tier):
    maxn = 100 if tier == "quick" else 400
    items, ids = [], []
    # rotate through the families so that the sample is not only the first family
    byfam = {}
    for c in cases:
        byfam.setdefault(c.get("family"), []).append(c)
    order = []
    fams = sorted(byfam)
    i = 0
    while len(order) < len(cases) and i < 4000:
        for f in fams:
            if i < len(byfam[f]):
                order.append(byfam[f][i])
        i += 1
    for c in order:
        if len(items) >= maxn:
            break
        thr, junk, step = None, 0, 0
        for it in c["line"].split(";"):
            t = it.split()
            if not t or t[0] != "O":
                continue
            t = t[1:]
            if t[0] == "thresholds":
                thr = t[1:5]
            elif t[0] == "poison":
                junk = int(t[3])
            else:
                r = coq_nop(t)
                obs = g.get((c["pid"], step))
                if r is not None and r[1] <= 16 and thr is not None and obs is not None and len(items) < maxn:
                    (key, opn, outcome, res, vs) = obs[0]
                    items.append("(mkCfg %s %s %s %s %d, %s, %s, %s)" % (
                        thr[0], thr[1], thr[2], thr[3], junk, r[0], "true" if outcome == "crash" else "false",
                        _zl([("(%s)" % x) if x.startswith("-") else x for x in res])))
                    ids.append(c["pid"])
            step += 1
    if not items:
        return dict(ran=0, mismatches=[])
    dd = os.path.join(BUILD, "vm")
    os.makedirs(dd, exist_ok=True)
    src = os.path.join(dd, "cases_C06.v")
    with open(src, "w") as f:
        f.write("From Dec Require Import L2.NRun.\nOpen Scope Z_scope.\n")
        f.write("Definition cases : list (ncfg * nop * bool * list Z) :=\n [ %s ].\n" % ";\n   ".join(items))
        f.write("Definition bad := Eval vm_compute in nmismatches 0 cases.\nPrint bad.\n")
    rc, out, dt = sh(["coqc", "-Q", os.path.join(COQ, "theories"), "Dec", "-w", COQW, src], cwd=dd, timeout=900)
    log.append(("vm_compute", rc, dt, out[-1500:] if rc else ""))
    if rc != 0:
        return dict(ran=len(items), mismatches=["coqc failed: " + out[-500:]], secs=dt)
    m = re.search(r"bad\s*=\s*\[(.*?)\]", out, flags=re.S)
    if m is None:
        return dict(ran=len(items), mismatches=["unparsable coqc output"], secs=dt)
    mism = [ids[int(x)] for x in re.findall(r"\d+", m.group(1))] if m.group(1).strip() else []
    return dict(ran=len(items), mismatches=mism, secs=dt)


def shrink(line):
    return line
