"""C05 — Sqrt is correctly rounded and respects the receiver's precision and mode."""
from math import isqrt
from vlib import fin, zero, inf, B, ndigits
import pyspec
from . import C01, common, fcommon

ID = "C05"
LEVEL = "proof"
DRIVER = fcommon.DRIVER
RUNNER = fcommon.RUNNER
build = fcommon.build
vm_check = fcommon.vm_check_for("C05")
match_known = fcommon.match_known
JUDGE_STATS = {}

RULE = ("one Sqrt per program over a receiver and an operand: perfect squares r^2*10^2k and their +-1 neighbours, the same with an "
        "odd exponent, squares of half-way points (r+1/2)^2 +- 1, random coefficients of 1-60 digits (up to 3000 in the large "
        "family), decimal exponents of both parities from -2^31 to 2^31-1, receiver precision below / equal to / above the "
        "operand's and 0, six rounding modes, +-0, +-Inf, negative operands, receiver aliased with the operand; "
        "distinct = different program text; non-trivial = finite positive operand")
EXPLANATION = ("Props/C05.v proves, for the repaired Sqrt (commit c25a621: correction of the Newton approximation with exact squares, "
               "sticky digit, one final rounding), the special-value table, the receiver's precision and mode, and that whenever the "
               "model returns, the result is the square root rounded once to the receiver's precision under its mode with a truthful "
               "accuracy (stated over Q through squares: IsSqrtRounding); the only hypothesis on the Newton stage is that it returned a "
               "canonical positive finite value below 10 - nothing about its closeness to the root.  The run ties the model (Newton "
               "iteration incl. the float64 seed, correction loops) to the code and classifies every implementation result with an "
               "independent integer-square oracle; any result that is not the correctly rounded root is a violation")
ASSUMPTIONS = ["operands well-formed (C08)", "natural-number routines exact (C06) and word kernels correct (C07)",
               "float64 division and math.Sqrt are IEEE-754 correctly rounded (amd64 SSE2)"]
TRUSTED = ["L3/Bin.v: executable IEEE-754 binary64 division/sqrt/conversion used for the float64 seed of the Newton iteration"]


def nontrivial(c):
    return any(v.form == 1 and not v.neg for v in c.get("vars", []))


def rand_root(rng, nd):
    kind = rng.randint(0, 6)
    if kind == 0:
        s = "9" * nd
    elif kind == 1:
        s = "1" + "0" * (nd - 1)
    elif kind == 2:
        s = "3" + "1" * (nd - 1)
    else:
        s = "".join(rng.choice("0123456789") for _ in range(nd))
    if s[0] == "0":
        s = rng.choice("123456789") + s[1:]
    return int(s)


def mkx(rng, coeff, e10, neg=0):
    """operand coeff*10^e10 with the exponent field clamped into int32"""
    nd = ndigits(coeff)
    e = common.clamp_exp(e10 + nd) - nd
    return fin(coeff, e, neg=neg, mode=rng.randint(0, 5), acc=rng.choice([-1, 0, 1]), pad=rng.choice([0, 0, 0, 1]))


def rand_e(rng):
    k = rng.randint(0, 9)
    if k <= 4:
        return rng.randint(-12, 12)
    if k <= 6:
        return rng.randint(-400, 400)
    if k == 7:
        return rng.choice([2**31 - 1, 2**31 - 2, -2**31, -2**31 + 1, -2**31 + 2, 2**31 - 50, -2**31 + 50])
    return rng.randint(-2**31, 2**31 - 1)


def gen(rng, tier):
    n = 1 if tier == "quick" else 20
    # (i) perfect squares and their neighbours
    for _ in range(900 * n):
        nd = rng.choice([1, 1, 2, 3, 5, 8, 9, 10, 15, 17, 18, 19, 20, 25, 30, 34, 38, rng.randint(1, 60)])
        r = rand_root(rng, nd)
        x = r * r + rng.choice([0, 0, 0, 1, -1])
        if x <= 0:
            x = r * r
        k = rng.randint(-6, 6)
        odd = rng.choice([0, 0, 1])
        e = 2 * k + odd
        if rng.randint(0, 12) == 0:
            e = rand_e(rng)
        p = rng.choice([nd, nd, nd, max(nd - 1, 1), nd + 1, nd + rng.randint(2, 20), rng.randint(1, 45), 2 * nd, 0])
        z = C01.recv(rng, prec=p)
        yield dict(family="perfect-squares", vars=[z, mkx(rng, x, e)], ops=["Sqrt 0 1"])
    # (ii) squares of half-way points: sqrt is within ~1e-p relative of a tie of the nearest modes
    for _ in range(500 * n):
        nd = rng.choice([1, 2, 3, 5, 9, 10, 16, 17, 18, 19, 20, 28, 34, rng.randint(1, 50)])
        r = rand_root(rng, nd)
        m = 10 * r + 5
        x = m * m + rng.choice([0, 1, -1, 2, -2, rng.randint(-100, 100)])
        e = 2 * rng.randint(-5, 5) + rng.choice([0, 0, 0, 1])
        z = C01.recv(rng, prec=rng.choice([nd, nd, nd, nd + 1, max(nd - 1, 1)]))
        yield dict(family="halfway-squares", vars=[z, mkx(rng, x, e)], ops=["Sqrt 0 1"])
    # (iii) random operands, all precisions and modes
    for _ in range(1300 * n):
        c = common.rand_coeff(rng, 60)
        nd = ndigits(c)
        p = rng.choice([0, 1, 2, 3, 5, 9, 10, 15, 16, 17, 18, 19, 20, 21, 30, 33, 34, 35, 38, 40, 57, 62, 76, nd, nd + 1, max(nd - 1, 1),
                        rng.randint(1, 80)])
        z = C01.recv(rng, prec=p)
        yield dict(family="random", vars=[z, mkx(rng, c, rand_e(rng))], ops=["Sqrt 0 1"])
    # (iv) special values, negative operands, aliasing
    for _ in range(250 * n):
        k = rng.randint(0, 7)
        p = rng.choice([0, 1, 5, 19, 34])
        if k == 0:
            x = zero(rng.randint(0, 1), prec=rng.choice([0, 7, 34]), mode=rng.randint(0, 5), acc=rng.choice([-1, 0, 1]))
        elif k == 1:
            x = inf(rng.randint(0, 1), prec=rng.choice([0, 7, 34]), mode=rng.randint(0, 5), acc=rng.choice([-1, 0, 1]))
        elif k == 2:
            x = mkx(rng, common.rand_coeff(rng, 30), rng.randint(-20, 20), neg=1)
        else:
            x = mkx(rng, common.rand_coeff(rng, 40), rng.randint(-20, 20), neg=rng.choice([0, 0, 0, 1]))
        if k >= 5:
            # receiver is the operand
            x.prec = max(x.prec, 1) if x.form == 1 else x.prec
            yield dict(family="aliased", vars=[x], ops=["Sqrt 0 0"])
        else:
            yield dict(family="special", vars=[C01.recv(rng, prec=p), x], ops=["Sqrt 0 1"])
    # (v) large operands / precisions
    for _ in range(25 * n):
        nd = rng.choice([100, 200, 400, 800, 1500, 3000])
        kind = rng.randint(0, 2)
        if kind == 0:
            r = rand_root(rng, nd // 2)
            c = r * r + rng.choice([0, 0, 1, -1])
        else:
            c = int("".join(rng.choice(["9" * 19, "0" * 19, "%019d" % rng.randint(0, B - 1)]) for _ in range(nd // 19 + 1)).lstrip("0") or "3")
        p = rng.choice([nd // 2, nd // 2 + 1, nd, 34, 100, 0, rng.randint(50, 3000)])
        z = C01.recv(rng, prec=p)
        yield dict(family="large", vars=[z, mkx(rng, c, rng.randint(-40, 41))], ops=["Sqrt 0 1"], big=True)
    # (vi) short programs: Sqrt interleaved with attribute changes
    for _ in range(150 * n):
        vs = [C01.recv(rng), common.rand_fin(rng, 40, neg=0, wide=False), common.rand_fin(rng, 20, neg=0, wide=False)]
        ops = []
        for _ in range(rng.randint(2, 5)):
            k = rng.randint(0, 5)
            if k <= 2:
                ops.append("Sqrt %d %d" % (rng.randint(0, 2), rng.randint(0, 2)))
            elif k == 3:
                ops.append("SetPrec %d %d" % (rng.randint(0, 2), rng.choice([1, 2, 7, 19, 20, 34, 50])))
            elif k == 4:
                ops.append("SetMode %d %d" % (rng.randint(0, 2), rng.randint(0, 5)))
            else:
                ops.append("Mul %d %d %d" % (rng.randint(0, 2), rng.randint(0, 2), rng.randint(0, 2)))
        yield dict(family="programs", vars=vs, ops=ops)


# ----------------------------------------------------------------------------
# independent oracle: integer square comparisons

def sqrt_floor(N, e10, p):
    """x = N * 10^e10 > 0.  Returns (lo, q, exact): lo has exactly p digits,
    lo*10^q <= sqrt(x) < (lo+1)*10^q, exact <=> lo*10^q = sqrt(x)."""
    if e10 % 2:
        N, e10 = N * 10, e10 - 1
    h = e10 // 2
    k = max(0, p + 1 - (ndigits(N) + 1) // 2)
    S = N * 10 ** (2 * k)
    F = isqrt(S)
    D = ndigits(F)
    assert D >= p
    cut = 10 ** (D - p)
    lo = F // cut
    exact = (F * F == S) and (F % cut == 0)
    return lo, h - k + (D - p), exact


def cmp_sq(M, q, N, e10):
    """sign of (M*10^q)^2 - N*10^e10 without materialising huge powers"""
    a, b = 2 * q, e10
    m = min(a, b)
    return (M * M * 10 ** (a - m) > N * 10 ** (b - m)) - (M * M * 10 ** (a - m) < N * 10 ** (b - m))


def correctly_rounded(lo, q, exact, N, e10, mode):
    """the p-digit decimal the specification demands: (M, q) un-normalised (M may be 10^p)"""
    if exact:
        return lo
    m = pyspec.MODES[mode]
    if m in ("ToZero", "ToNegativeInf"):
        return lo
    if m in ("AwayFromZero", "ToPositiveInf"):
        return lo + 1
    # nearest: compare x with (lo + 1/2)^2 = (2lo+1)^2 * 10^(2q) / 4  <=>  4x vs (2lo+1)^2 10^2q
    c = cmp_sq(2 * lo + 1, q, 4 * N, e10)      # sign((lo+1/2)^2 - x)
    if c > 0:
        return lo
    if c < 0:
        return lo + 1
    # exact tie (impossible for a rational square root that is not representable, kept for completeness)
    if m == "ToNearestEven":
        return lo if lo % 2 == 0 else lo + 1
    return lo + 1


def norm_p(M, q, p):
    """normalise M*10^q to exactly p digits"""
    while M >= 10 ** p:
        assert M % 10 == 0
        M, q = M // 10, q + 1
    while M < 10 ** (p - 1):
        M, q = M * 10, q - 1
    return M, q


def classify(z1, N, e10, p, mode):
    """returns (verdict, message, info): verdict in ok / neighbour / worse.
    neighbour = the K1 shape, re-evaluated here: the result is one of the two
    p-digit numbers adjacent to the correctly rounded value (exactly one unit in
    the last place away from it) and its distance to the exact root is below
    1.1 units in the last place (below 1 for the nearest modes and for inexact
    roots approached from the right side; a directed mode can add the tiny
    distance between the root and the representable number it just misses)"""
    raw = z1[7]
    n = 0
    for w in reversed(raw):
        n = n * B + int(w)
    digits = 19 * len(raw)
    if digits >= p:
        if n % 10 ** (digits - p):
            return "worse", "digits beyond the precision", {}
        M = n // 10 ** (digits - p)
    else:
        M = n * 10 ** (p - digits)
    qr = int(z1[5]) - p                                  # result = M * 10^qr, M has p digits
    lo, q, exact = sqrt_floor(N, e10, p)
    want, qw = norm_p(correctly_rounded(lo, q, exact, N, e10, mode), q, p)
    if (M, qr) == (want, qw):
        return "ok", None, {}
    adjacent = (qr == qw and abs(M - want) == 1) or \
               (qr == qw + 1 and M == 10 ** (p - 1) and want == 10 ** p - 1) or \
               (qw == qr + 1 and want == 10 ** (p - 1) and M == 10 ** p - 1)
    # |M*10^qr - sqrt(x)| < 1.1 * 10^qr  <=>  (10M-11)^2 10^(2qr-2) < x < (10M+11)^2 10^(2qr-2)
    within = cmp_sq(10 * M - 11, qr - 1, N, e10) < 0 and cmp_sq(10 * M + 11, qr - 1, N, e10) > 0
    below1 = cmp_sq(M - 1, qr, N, e10) < 0 and cmp_sq(M + 1, qr, N, e10) > 0
    info = dict(exact_root=exact, nearest=mode in (0, 1), error_below_1ulp=below1)
    msg = "result %d e%d, correctly rounded %d e%d (%s root)" % (M, qr, want, qw, "exact" if exact else "inexact")
    if adjacent and within:
        return "neighbour", msg, info
    return "worse", msg, info


def judge(cases, g, m):
    fails = []
    st = dict(sqrt_finite=0, correctly_rounded=0, other_neighbour=0, other_neighbour_exact_root=0, other_neighbour_directed_mode=0,
              other_neighbour_error_ge_1ulp=0, worse=0, special=0, nan=0)
    for c in cases:
        if "vars" not in c:
            continue
        prev = [C01.dv_obs(v) for v in c["vars"]]
        for i, o in enumerate(c["ops"]):
            ob = g.get((c["pid"], i))
            if ob is None:
                break
            (key, opn, outcome, res, vs), line = ob
            t = o.split()
            msg = None
            if opn == "Sqrt":
                msg = judge_sqrt(t, prev, vs, outcome, st)
            elif outcome == "ok":
                for v in vs:
                    w = pyspec.wf(v)
                    if w:
                        msg = "result not canonical: " + w
            if msg:
                fails.append((c, "Sqrt specification violated at step %d (%s): %s" % (i, o, msg), dict(implementation=line, step=i)))
                break
            if outcome != "ok":
                break
            prev = vs
    JUDGE_STATS.update(st)
    return fails


def judge_sqrt(t, prev, vs, outcome, st):
    zi, xi = int(t[1]), int(t[2])
    z0, x = prev[zi], prev[xi]
    if outcome == "crash":
        return "panic other than ErrNaN"
    negative = x[1] == "1" and x[0] != "0"
    if negative:
        st["nan"] += 1
        return None if outcome == "nan" else "negative operand did not panic with ErrNaN"
    if outcome != "ok":
        return "unexpected ErrNaN"
    z1 = vs[zi]
    w = pyspec.wf(z1)
    if w:
        return "result not canonical: " + w
    for j, v in enumerate(vs):
        if j != zi and v[:7] != prev[j][:7]:
            return "operand %d modified" % j
    p = int(z0[2]) if int(z0[2]) != 0 else int(x[2])
    if int(z1[2]) != p:
        return "precision %s, want %d" % (z1[2], p)
    if z1[3] != z0[3]:
        return "rounding mode changed from %s to %s" % (z0[3], z1[3])
    if x[0] != "1":
        st["special"] += 1
        if z1[0] != x[0] or z1[1] != x[1]:
            return "Sqrt of %s: form %s neg %s" % ("zero" if x[0] == "0" else "+Inf", z1[0], z1[1])
        return None
    st["sqrt_finite"] += 1
    if z1[0] != "1" or z1[1] != "0":
        return "finite positive operand: form %s neg %s" % (z1[0], z1[1])
    N, e10 = fcommon.obs_int(x)
    verdict, msg, info = classify(z1, N, e10, p, int(z0[3]))
    if verdict == "ok":
        st["correctly_rounded"] += 1
        return None
    if verdict == "neighbour":
        st["other_neighbour"] += 1
        st["other_neighbour_exact_root"] += info["exact_root"]
        st["other_neighbour_directed_mode"] += not info["nearest"]
        st["other_neighbour_error_ge_1ulp"] += not info["error_below_1ulp"]
        return fcommon.tagged("wrong-neighbour", "not correctly rounded, a number adjacent to the correctly rounded root was returned: " + msg)
    st["worse"] += 1
    return "error of more than one unit in the last place: " + msg


def shrink(line):
    return line
