"""C04 — zeros, infinities and NaN cases follow IEEE-754; only ErrNaN ever panics."""
import itertools
from fractions import Fraction
from vlib import fin, zero, inf, B, ndigits
import pyspec
from . import C01, common

ID = "C04"
LEVEL = "proof"
RULE = ("exhaustive over operand classes {-Inf,-fin,-0,+0,+fin,+Inf}^k x six modes x {Add,Sub,Mul,Quo,FMA,Neg,Abs,Set} "
        "x aliasing shapes, finite magnitudes drawn from a set with multi-word, tie and extreme-exponent values; plus deep-path "
        "probes (100-600 word operands) for the no-other-panic clause; non-trivial = at least one non-finite or zero operand")
EXPLANATION = ("Props/C04.v proves the invalid-operation table (NaN exactly for Inf-Inf, 0*Inf, 0/0, Inf/Inf and the FMA forms), "
               "the IEEE results for zero/infinite operands, receiver validity after ErrNaN and absence of any other panic in "
               "the model; the run enumerates the class table on the real library and judges it with an independent table")
ASSUMPTIONS = C01.ASSUMPTIONS
coq_op = C01.coq_op
JUDGE_STATS = {}


def nontrivial(c):
    return any(v.form != 1 for v in c.get("vars", []))



FIN_MAGS = [(1, 0), (5, -1), (25, -1), (15, -1), (10**19 - 1, 0), (10**19 + 1, -3), (123456789 * 10**30 + 5, -20),
            (9, 2**31 - 2), (1, -2**31), (999, 2**31 - 4), (10**40 + 1, -2**31)]

# sums must not align operands across the whole exponent range (the library allocates
# |exponent gap|/19 words): per case all finite operands of an additive operation come
# from one of these groups
ADD_GROUPS = [[m for m in FIN_MAGS if abs(m[1]) < 100],
              [m for m in FIN_MAGS if m[1] > 2**30],
              [m for m in FIN_MAGS if m[1] < -2**30]]


def cls_values(rng, k, mags=None):
    """one representative Dv for class k in 0..5: -Inf,-fin,-0,+0,+fin,+Inf"""
    if k == 0:
        return inf(1, prec=rng.choice([0, 5]), mode=rng.randint(0, 5))
    if k == 5:
        return inf(0, prec=rng.choice([0, 5]), mode=rng.randint(0, 5))
    if k == 2:
        return zero(1, prec=rng.choice([0, 7]), mode=rng.randint(0, 5))
    if k == 3:
        return zero(0, prec=rng.choice([0, 7]), mode=rng.randint(0, 5))
    c, e = rng.choice(mags or FIN_MAGS)
    nd = ndigits(c)
    e = common.clamp_exp(e + nd) - nd
    return fin(c, e, neg=1 if k == 1 else 0, mode=rng.randint(0, 5), pad=rng.choice([0, 1]))


def gen(rng, tier):
    reps = 1 if tier == "quick" else 6
    for _ in range(reps):
        for op in ("Add", "Sub", "Mul", "Quo"):
            for cx, cy in itertools.product(range(6), repeat=2):
                for mode in range(6):
                    z = C01.recv(rng, prec=rng.choice([0, 1, 3, 20, 34]), mode=mode)
                    mags = rng.choice(ADD_GROUPS) if op in ("Add", "Sub") else None
                    x, y = cls_values(rng, cx, mags), cls_values(rng, cy, mags)
                    x.acc, y.acc = rng.choice([-1, 0, 1]), rng.choice([-1, 0, 1])
                    shape = rng.choice(["0 1 2", "0 1 2", "1 1 2", "2 1 2"])
                    yield dict(family="class-table-" + op, vars=[z, x, y], ops=["%s %s" % (op, shape)])
        for cx, cy, cu in itertools.product(range(6), repeat=3):
            for mode in (0, 4, rng.randint(1, 5)):
                z = C01.recv(rng, prec=rng.choice([0, 2, 20]), mode=mode)
                mags = ADD_GROUPS[0]
                x, y, u = cls_values(rng, cx, mags), cls_values(rng, cy, mags), cls_values(rng, cu, mags)
                shape = rng.choice(["0 1 2 3", "0 1 2 3", "3 1 2 3", "1 1 2 3", "2 1 2 3"])
                yield dict(family="class-table-FMA", vars=[z, x, y, u], ops=["FMA " + shape])
        for op in ("Neg", "Abs", "Set"):
            for cx in range(6):
                for mode in range(6):
                    z = C01.recv(rng, prec=rng.choice([0, 1, 3, 20]), mode=mode)
                    x = cls_values(rng, cx)
                    yield dict(family="class-table-unary", vars=[z, x], ops=["%s %s" % (op, rng.choice(["0 1", "1 1"]))])
    # exhaustive: signed zeros (and infinities) x modes x every aliasing shape
    for op in ("Add", "Sub", "Mul", "Quo"):
        for cx, cy in itertools.product((0, 2, 3, 5), repeat=2):
            for mode in range(6):
                for shape in ("0 1 2", "1 1 2", "2 1 2", "0 2 1", "1 2 1", "2 2 1"):
                    x, y = cls_values(rng, cx), cls_values(rng, cy)
                    x.mode = y.mode = mode
                    x.acc, y.acc = rng.choice([-1, 0, 1]), rng.choice([-1, 0, 1])
                    z = zero(rng.randint(0, 1), prec=rng.choice([0, 3]), mode=mode)
                    yield dict(family="zero-inf-alias-exhaustive", vars=[z, x, y], ops=["%s %s" % (op, shape)])
    # finite sums whose exact result under/overflows: the resulting zero/infinity carries the sign of the exact result
    for c in C01.range_edge_cases(rng, 150 * reps):
        yield c
    # x + x, x - x with the same variable twice
    for _ in range(100 * reps):
        x = cls_values(rng, rng.randint(0, 5), ADD_GROUPS[0])
        z = C01.recv(rng, mode=rng.randint(0, 5))
        op = rng.choice(["Add 0 1 1", "Sub 0 1 1", "Mul 0 1 1", "Quo 0 1 1", "Add 1 1 1", "Sub 1 1 1", "FMA 0 1 1 1", "FMA 1 1 1 1"])
        yield dict(family="same-operand", vars=[z, x], ops=[op])
    # deep paths: no panic other than ErrNaN on valid arguments
    for _ in range(12 * reps):
        n1, n2 = rng.choice([100, 210, 400, 600]), rng.choice([100, 130, 260])
        a = int("".join(rng.choice(["9" * 19, "0" * 19, "%019d" % rng.randint(0, B - 1)]) for _ in range(n1)).lstrip("0") or "3")
        b = int("".join(rng.choice(["9" * 19, "%019d" % rng.randint(0, B - 1)]) for _ in range(n2)).lstrip("0") or "7")
        x, y = fin(a, rng.randint(-9, 9), neg=rng.randint(0, 1)), fin(b, rng.randint(-9, 9), neg=rng.randint(0, 1))
        z = C01.recv(rng, prec=rng.choice([0, 50, 3000]))
        yield dict(family="deep-path", vars=[z, x, y], ops=["%s 0 1 2" % rng.choice(["Mul", "Quo", "Quo", "Add", "Sub"])], big=True)


def cls(v):
    return {"0": "z", "1": "f", "2": "i"}[v[0]], v[1] == "1"


def judge(cases, g, m):
    """independent IEEE table on the implementation's observations"""
    fails = C01.judge([c for c in cases if c.get("family") == "range-edge"], g, m)
    JUDGE_STATS["table_entries"] = 0
    for c in cases:
        if "vars" not in c or c.get("family") == "range-edge":
            continue
        prev = [C01.dv_obs(v) for v in c["vars"]]
        for i, o in enumerate(c["ops"]):
            ob = g.get((c["pid"], i))
            if ob is None:
                break
            (key, opn, outcome, res, vs), line = ob
            t = o.split()
            msg = None
            if outcome == "crash":
                msg = "panic other than ErrNaN: " + line[:200]
            else:
                for v in vs:
                    w = pyspec.wf(v)
                    if w:
                        msg = "receiver not canonical after the call: " + w
                if msg is None:
                    msg = table(opn, t, prev, vs, outcome)
                    JUDGE_STATS["table_entries"] += 1
            if msg:
                fails.append((c, "IEEE special-value rule violated at step %d (%s): %s" % (i, o, msg), dict(implementation=line, step=i)))
                break
            prev = vs
    return fails


def table(opn, t, prev, vs, outcome):
    z1 = vs[int(t[1])]
    zmode = int(prev[int(t[1])][3])
    ops = [prev[int(a)] for a in t[2:]]
    k = [cls(v) for v in ops]
    want = None   # ('nan') / ('z', neg) / ('i', neg) / None = finite result, judged by C01
    if opn in ("Add", "Sub"):
        (fx, nx), (fy, ny) = k
        if opn == "Sub":
            ny = not ny
        if fx == "i" and fy == "i":
            want = ("nan",) if nx != ny else ("i", nx)
        elif fx == "i":
            want = ("i", nx)
        elif fy == "i":
            want = ("i", ny)
        elif fx == "z" and fy == "z":
            want = ("z", nx if nx == ny else zmode == 4)
    elif opn == "Mul":
        (fx, nx), (fy, ny) = k
        if {fx, fy} == {"z", "i"}:
            want = ("nan",)
        elif "i" in (fx, fy):
            want = ("i", nx != ny)
        elif "z" in (fx, fy):
            want = ("z", nx != ny)
    elif opn == "Quo":
        (fx, nx), (fy, ny) = k
        if (fx == "z" and fy == "z") or (fx == "i" and fy == "i"):
            want = ("nan",)
        elif fx == "z" or fy == "i":
            want = ("z", nx != ny)
        elif fy == "z" or fx == "i":
            want = ("i", nx != ny)
    elif opn == "FMA":
        (fx, nx), (fy, ny), (fu, nu) = k
        np_ = nx != ny
        if {fx, fy} == {"z", "i"}:
            want = ("nan",)
        elif "i" in (fx, fy):
            if fu == "i" and nu != np_:
                want = ("nan",)
            else:
                want = ("i", np_)
        elif fu == "i":
            want = ("i", nu)
        elif "z" in (fx, fy) and fu == "z":
            want = ("z", np_ if np_ == nu else zmode == 4)
    elif opn in ("Neg", "Abs", "Set"):
        (fx, nx), = k
        if fx != "f":
            n = nx if opn == "Set" else ((not nx) if opn == "Neg" else False)
            want = (fx, n)
    if want is None:
        return None if outcome == "ok" else "unexpected ErrNaN"
    if want[0] == "nan":
        return None if outcome == "nan" else "expected ErrNaN, got %s" % outcome
    if outcome != "ok":
        return "unexpected ErrNaN"
    got = cls(z1)
    if got != (want[0], want[1]):
        return "got class %s, want %s" % (got, want)
    if z1[4] != "0":
        return "accuracy of an exact special result is %s" % z1[4]
    return None
