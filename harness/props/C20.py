"""C20 — raw mantissa access and MantExp/SetMantExp are exact inverses."""
from fractions import Fraction
from vlib import fin, zero, inf, B, ndigits
import pyspec
from . import C01, common

ID = "C20"
LEVEL = "proof"
RULE = ("SetBitsExp over word slices of length 0..40 with every zero-word pattern (leading/low/interior/all-zero), words with "
        "leading zero digits, exponents over the whole int64 range incl. +-2^63 edges, receiver precisions {0,1,..} smaller "
        "than the slice; BitsExp/MantExp/SetMantExp on all classes with exponent offsets near the int32 limits, aliasing "
        "z==mant; non-trivial = non-empty slice or finite operand")
EXPLANATION = ("Props/C20.v proves SetBitsExp/BitsExp/MantExp/SetMantExp theorems on the model; the run ties the model to the "
               "code and judges the implementation with an independent exact-rational oracle (value 0.mant x 10^exp, inverse law)")
ASSUMPTIONS = C01.ASSUMPTIONS
coq_op = common.coq_op
JUDGE_STATS = {}


def nontrivial(c):
    return True


def rand_words(rng):
    n = rng.choice([0, 1, 1, 2, 3, 4, 7, rng.randint(0, 40)])
    ws = []
    for _ in range(n):
        k = rng.randint(0, 6)
        ws.append(0 if k <= 1 else (B - 1 if k == 2 else (rng.choice([1, 10, 10**9, 10**18, 10**18 - 1]) if k == 3 else rng.randint(0, B - 1))))
    k = rng.randint(0, 5)
    if k == 0 and ws:
        ws[-1] = 0                      # leading (high) zero word
    if k == 1 and len(ws) > 1:
        ws[-1] = 0
        ws[-2] = 0
    if k == 2 and ws:
        ws[0] = 0                       # low zero word
    if k == 3:
        ws = [0] * len(ws)
    return ws


EXPS = [0, 1, -1, 19, 38, -19, 100, -100, 2**31 - 1, 2**31, -2**31, -2**31 - 1, 2**31 + 50, -2**31 - 50,
        2**63 - 1, -2**63, 2**62, -2**62, 2**40, -2**40, 2**40 + 1]


def gen(rng, tier):
    n = 1 if tier == "quick" else 12
    for _ in range(700 * n):
        ws = rand_words(rng)
        e = rng.choice(EXPS + [rng.randint(-60, 60)] * 8)
        z = C01.recv(rng, prec=rng.choice([0, 0, 1, 2, 5, 18, 19, 20, 37, 38, 39, 100]))
        yield dict(family="SetBitsExp", vars=[z], ops=["SetBitsExp 0 %d %d %s" % (e, len(ws), " ".join(map(str, ws))), "BitsExp 0", "MinPrec 0"])
    for _ in range(500 * n):
        x = common.rand_any(rng, 50)
        z = C01.recv(rng)
        off = rng.choice([0, 1, -1, 5, -5, 2**31 - 1, -2**31, 2**32, -2**32, 2**63 - 1, -2**63, rng.randint(-100, 100)])
        shape = rng.choice(["inverse", "inverse", "alias", "offset", "nil"])
        if shape == "inverse":
            # m := MantExp(x); z := SetMantExp(m, exp)  -- exp is not known statically: use offset 0 composition through ops
            ops = ["MantExp 1 2", "BitsExp 2", "SetMantExp 0 2 %d" % off]
        elif shape == "alias":
            ops = ["MantExp 1 1", "SetMantExp 1 1 %d" % off]
        elif shape == "offset":
            ops = ["SetMantExp 0 1 %d" % off, "SetMantExp 0 0 %d" % -off if abs(off) < 2**40 else "BitsExp 0"]
        else:
            ops = ["MantExp 1 -", "BitsExp 1"]
        yield dict(family="MantExp-" + shape, vars=[z, x, C01.recv(rng)], ops=ops)


def judge(cases, g, m):
    fails = []
    JUDGE_STATS["judged_ops"] = 0
    for c in cases:
        if "vars" not in c:
            continue
        prev = [C01.dv_obs(v) for v in c["vars"]]
        for i, o in enumerate(c["ops"]):
            ob = g.get((c["pid"], i))
            if ob is None:
                break
            (key, opn, outcome, res, vs), line = ob
            t = o.split()
            msg = None
            if outcome != "ok":
                msg = "unexpected outcome " + outcome
            else:
                for v in vs:
                    w = pyspec.wf(v)
                    if w:
                        msg = "not canonical: " + w
                if msg is None:
                    JUDGE_STATS["judged_ops"] += 1
                    msg = judge_op(opn, t, prev, vs, res)
            if msg:
                fails.append((c, "raw-access rule violated at step %d (%s): %s" % (i, o, msg), dict(implementation=line, step=i)))
                break
            prev = vs
    return fails


def judge_op(opn, t, prev, vs, res):
    if opn == "SetBitsExp":
        zi = int(t[1])
        z0, z1 = prev[zi], vs[zi]
        e, n = int(t[2]), int(t[3])
        ws = [int(w) for w in t[4:4 + n]]
        val = 0
        for w in reversed(ws):
            val = val * B + w
        if val == 0:
            if z1[0] != "0" or z1[1] != "0" or z1[4] != "0":
                return "all-zero slice: form %s neg %s acc %s" % (z1[0], z1[1], z1[4])
            return None
        zprec, zmode = int(z0[2]), int(z0[3])
        if zprec == 0:
            k = n
            while k > 0 and ws[k - 1] == 0:
                k -= 1
            p = min(19 * k, 2**32 - 1)
        else:
            p = zprec
        if int(z1[2]) != p:
            return "precision %s, want %d" % (z1[2], p)
        ec = max(min(e, 2**40), -2**40)
        return pyspec.check_fin_result(z1, False, Fraction(val), ec - 19 * n, p, zmode)
    if opn == "BitsExp":
        x = prev[int(t[1])]
        e, n = int(res[0]), int(res[1])
        ws = [int(w) for w in res[2:2 + n]]
        if x[0] != "1":
            return None if n == 0 else "non-finite value with mantissa words"
        val = 0
        for w in reversed(ws):
            val = val * B + w
        xv = pyspec.obs_val(x)
        # 0.mant * 10^e = val * 10^(e - 19 n)
        lhs_n, lhs_e = val, e - 19 * n
        rhs_n, rhs_e = xv.frac.numerator, xv.e10
        mm = min(lhs_e, rhs_e)
        if lhs_e - mm > 5000 or rhs_e - mm > 5000:
            return None
        return None if lhs_n * 10 ** (lhs_e - mm) == rhs_n * 10 ** (rhs_e - mm) else "BitsExp does not denote |x|"
    if opn == "MantExp":
        x = prev[int(t[1])]
        want_e = int(x[5]) if x[0] == "1" else 0
        if int(res[0]) != want_e:
            return "exponent %s, want %d" % (res[0], want_e)
        if t[2] != "-":
            m1 = vs[int(t[2])]
            if m1[0] != x[0] or m1[1] != x[1] or m1[2] != x[2] or m1[3] != x[3]:
                return "mant does not copy class/sign/prec/mode of x"
            if x[0] == "1":
                if m1[5] != "0" or m1[6] != x[6]:
                    return "mant is not x's mantissa with exponent 0"
        return None
    if opn == "SetMantExp":
        zi, mi = int(t[1]), int(t[2])
        m0, z1 = prev[mi], vs[zi]
        off = int(t[3])
        if m0[0] != "1":
            return None if (z1[0], z1[1]) == (m0[0], m0[1]) else "special mant not copied"
        if z1[2] != m0[2] or z1[3] != m0[3]:
            return "precision/mode not taken from mant"
        mv = pyspec.obs_val(m0)
        offc = max(min(off, 2**40), -2**40)
        return pyspec.check_fin_result(z1, mv.neg, mv.frac, mv.e10 + offc, int(m0[2]), int(m0[3]))
    return None
