"""C01 — Add, Sub, Mul, Quo, Set, SetPrec, Neg, Abs return the exact result rounded once.
(also provides the generator and judge reused by C02)"""
from fractions import Fraction
from vlib import Dv, fin, zero, inf, B, ndigits
import pyspec
from . import common

ID = "C01"
LEVEL = "proof"
RULE = ("single operations and short programs over 3-4 variables; families: boundary-directed rounding "
        "(rounding digit in {0,4,5,6,9} x sticky x parity x all-nines carry), add/sub exponent gaps "
        "(0, 1..40, 19k+-1, far), cancellation, exact/near-exact quotients with 9-runs, extreme exponents, "
        "set/setprec/neg/abs, aliasing shapes, random; distinct = different program text; "
        "non-trivial = some finite operand whose digit count exceeds the receiver precision or an "
        "arithmetic operation on two finite operands")
EXPLANATION = ("Props/C01.v proves that the model's Add/Sub/Mul/Quo/Set/SetPrec/Neg/Abs return the "
               "Rounds/range_spec result of the exact rational value for all well-formed finite operands; "
               "the run ties the model to the code and judges the implementation's outputs with an "
               "independent exact-rational oracle")
ASSUMPTIONS = ["operands well-formed (C08)", "mantissas shorter than 2^32-18 digits",
               "natural-number routines exact (C06) and word kernels correct (C07)"]

ARITH = ("Add", "Sub", "Mul", "Quo")
JUDGE_STATS = {}


coq_op = common.coq_op


def nontrivial(c):
    vs = c.get("vars", [])
    return any(v.form == 1 for v in vs) and len(c.get("ops", [])) > 0


def recv(rng, prec=None, mode=None, kind=None):
    """a receiver with arbitrary previous contents"""
    k = rng.randint(0, 5) if kind is None else kind
    p = rng.choice([0, 1, 2, 5, 16, 18, 19, 20, 34, 38, 57, 76]) if prec is None else prec
    m = rng.randint(0, 5) if mode is None else mode
    if k == 0:
        return zero(rng.randint(0, 1), prec=p, mode=m, acc=rng.choice([-1, 0, 1]))
    if k == 1:
        return inf(rng.randint(0, 1), prec=p, mode=m, acc=rng.choice([-1, 0, 1]))
    if p == 0:
        return zero(0, prec=0, mode=m)
    c = common.rand_coeff(rng, p)
    while ndigits(c) - (len(str(c)) - len(str(c).rstrip("0"))) > p:
        c //= 10
    c = max(c, 1)
    return fin(c, rng.randint(-30, 30), prec=p, neg=rng.randint(0, 1), mode=m, acc=rng.choice([-1, 0, 1]),
               pad=rng.choice([0, 0, 1, 3]), extracap=rng.choice([0, 1, 4, 9]), stale=rng.choice([0, B - 1, 2**64 - 1]))


def boundary_coeff(rng, p):
    """a coefficient with more than p digits whose tail exercises the rounding decision"""
    head = rng.choice(["9" * p, "1" + "0" * (p - 1), None, None, None])
    if head is None:
        head = str(common.rand_coeff(rng, p)).rjust(p, "1")[:p]
        if head[0] == "0":
            head = "1" + head[1:]
        # parity of the last kept digit
        if rng.randint(0, 1):
            head = head[:-1] + rng.choice("02468")
        else:
            head = head[:-1] + rng.choice("13579")
        if head[0] == "0":
            head = "1" + head[1:]
    rd = rng.choice("04555556999")
    tail_len = rng.choice([0, 0, 1, 2, 17, 18, 19, 20, 37, 38, 39, rng.randint(0, 60)])
    kind = rng.choice([0, 0, 0, 1, 2, 3])
    if kind == 0:
        tail = "0" * tail_len
    elif kind == 1 and tail_len > 0:
        tail = "0" * (tail_len - 1) + "1"
    elif kind == 2 and tail_len > 0:
        tail = "9" * tail_len
    else:
        tail = "".join(rng.choice("0123456789") for _ in range(tail_len))
    return int(head + rd + tail)


PRECS = [1, 2, 3, 17, 18, 19, 20, 21, 33, 34, 37, 38, 39, 40, 56, 57, 58, 76, 77, 100]


def range_edge_cases(rng, count):
    MINE, MAXE = -2**31, 2**31 - 1
    for _ in range(count):
        p = rng.choice(PRECS + [0])
        mode = rng.randint(0, 5)
        nd = rng.choice([2, 3, 5, 19, 20, 34, 38, 40])
        a = common.rand_coeff(rng, nd)
        nd = ndigits(a)
        if rng.randint(0, 2):
            # underflow side: |x| - |y| = d with fewer digits than a
            d = rng.choice([1, 1, 2, 5, 9, 10, 11, common.rand_coeff(rng, max(1, nd // 2))])
            d = min(d, a - 1) if a > 1 else 0
            b = a - d
            lost = nd - ndigits(d) if d else nd
            s_ = rng.choice([0, 0, 1, lost - 1, lost, lost + 1, lost + 2])
            b = max(b, 1)
            e = MINE - min(nd, ndigits(b)) + max(s_, 0)          # both operands on the grid 10^e, exponents >= MinExp
            same_sign = False
        else:
            # overflow side: |x| + |y| carries (or just does not) at MaxExp
            b = rng.choice([int("9" * nd) - a, int("9" * nd) - a + 1, a, 1, common.rand_coeff(rng, nd)])
            b = max(b, 1)
            e = MAXE - max(nd, ndigits(b)) - rng.choice([0, 0, 0, 1, 2])
            same_sign = True
        na = rng.randint(0, 1)
        opn = rng.choice(["Add", "Sub"])
        nb = na if same_sign else 1 - na
        if opn == "Sub":
            nb = 1 - nb
        ea = eb = e
        assert MINE <= e + ndigits(a) <= MAXE and MINE <= e + ndigits(b) <= MAXE
        x = fin(a, ea, neg=na, mode=rng.randint(0, 5), pad=rng.choice([0, 0, 1]))
        y = fin(b, eb, neg=nb, mode=rng.randint(0, 5), pad=rng.choice([0, 0, 1]))
        if rng.randint(0, 1):
            x, y = y, x          # (y - x cancels / carries exactly when x - y does)
        z = recv(rng, prec=p, mode=mode)
        shape = rng.choice(["0 1 2", "0 1 2", "0 2 1", "1 1 2", "2 1 2", "1 2 1", "2 2 1"])
        yield dict(family="range-edge", vars=[z, x, y], ops=["%s %s" % (opn, shape)])


def gen(rng, tier):
    n = 1 if tier == "quick" else 15
    # (i) boundary-directed rounding through Set / SetPrec / Neg / Abs / Add 0 / Mul 1
    for _ in range(500 * n):
        p = rng.choice(PRECS)
        c = boundary_coeff(rng, p)
        e = rng.choice([0, 0, rng.randint(-40, 40), 2**31 - 1 - ndigits(c), -2**31 - ndigits(c) + 1])
        e = common.clamp_exp(e + ndigits(c)) - ndigits(c)
        neg = rng.randint(0, 1)
        x = fin(c, e, neg=neg, mode=rng.randint(0, 5), pad=rng.choice([0, 0, 1]))
        mode = rng.randint(0, 5)
        z = recv(rng, prec=p, mode=mode)
        one = fin(1, 0, prec=1)
        zr = zero(rng.randint(0, 1), prec=rng.choice([0, 1, 50]))
        op = rng.choice(["Set 0 1", "Neg 0 1", "Abs 0 1", "Add 0 1 3", "Add 0 3 1", "Sub 0 1 3", "Mul 0 1 2", "Mul 0 2 1",
                         "Quo 0 1 2", "Copy 0 1 ; O SetMode 0 %d ; O SetPrec 0 %d" % (mode, p)])
        yield dict(family="boundary-rounding", vars=[z, x, one, zr], ops=[o.strip() for o in op.split("; O")])
    # (ii) Add / Sub with exponent gaps and cancellation
    for _ in range(500 * n):
        p = rng.choice(PRECS + [0])
        a = common.rand_coeff(rng, 60)
        gap = rng.choice([0, 0, 1, 2, rng.randint(1, 40), 18, 19, 20, 37, 38, 39, rng.randint(41, 200),
                          rng.choice([1000, 5000, 20000, 40000])])
        kind = rng.randint(0, 5)
        if kind == 0:
            b = a                                   # exact cancellation / doubling
            gap = 0
        elif kind == 1:
            b = a + rng.choice([1, -1, 10, -10]) if a > 10 else a + 1   # near cancellation
            gap = 0
        elif kind == 2:
            b = int("9" * ndigits(a))               # carries
        else:
            b = common.rand_coeff(rng, 60)
        e = rng.randint(-50, 50)
        if rng.randint(0, 9) == 0:
            e = rng.choice([2**31 - 1 - ndigits(a) - gap, -2**31 + 5])
        ea = common.clamp_exp(e + gap + ndigits(a)) - ndigits(a)
        eb = common.clamp_exp(e + ndigits(b)) - ndigits(b)
        x = fin(a, ea, neg=rng.randint(0, 1), prec=rng.choice([None, 70]), mode=rng.randint(0, 5), pad=rng.choice([0, 0, 1, 2]))
        y = fin(b, eb, neg=rng.randint(0, 1), prec=rng.choice([None, 70]), mode=rng.randint(0, 5), pad=rng.choice([0, 0, 1, 2]))
        z = recv(rng, prec=p)
        shape = rng.choice(["0 1 2", "0 2 1", "1 1 2", "2 1 2", "0 1 1", "1 1 1", "1 2 1", "2 2 1"])
        opn = rng.choice(["Add", "Sub"])
        yield dict(family="addsub-gap", vars=[z, x, y], ops=["%s %s" % (opn, shape)])
    # (ii-b) sums and differences at the ends of the exponent range: cancellation that underflows (the zero keeps the
    # sign of the exact result), carries that overflow, and the values just inside
    for c in range_edge_cases(rng, 200 * n):
        yield c
    # (ii-d) operands carrying a precision at the top of the uint32 range (their own precision is not used by Add/Sub,
    #        but helper routines that look at it must not wrap)
    for _ in range(60 * n):
        a, b = common.rand_coeff(rng, 30), common.rand_coeff(rng, 30)
        e = rng.randint(-10, 10)
        hp = lambda: rng.choice([2**32 - 1, 2**32 - 2, 2**32 - 17, 2**32 - 18, 2**31 + 1])
        x = fin(a, e, neg=rng.randint(0, 1), prec=hp(), mode=rng.randint(0, 5))
        y = fin(b, e + ndigits(a) - ndigits(b), neg=rng.randint(0, 1), prec=rng.choice([hp(), None]), mode=rng.randint(0, 5))
        z = recv(rng, prec=rng.choice([1, 5, 19, 34, 60]))
        yield dict(family="extreme-operand-precision", vars=[z, x, y], ops=["%s 0 1 2" % rng.choice(["Add", "Sub", "Add", "Sub", "Mul", "Quo"])])
    # (ii-c) operands that agree on the leading word and differ at the extremes of the word range in lower words
    EXT = [0, 1, 2**63 - 1, 2**63, 2**63 + 1, B - 1, B - 2, 5 * 10**18, 10**18]
    for _ in range(120 * n):
        top = rng.randrange(B // 10, B)
        k = rng.randint(1, 3)
        def mk():
            v_ = top
            for _ in range(k):
                v_ = v_ * B + (rng.choice(EXT) if rng.random() < 0.8 else rng.randrange(B))
            return v_
        a, b = mk(), mk()
        e = rng.randint(-40, 40)
        sx = rng.randint(0, 1)
        opn = rng.choice(["Add", "Sub"])
        sy = 1 - sx if opn == "Add" else sx           # effective signs opposite: a true subtraction
        x = fin(a, e, neg=sx, mode=rng.randint(0, 5), pad=rng.choice([0, 0, 1]))
        y = fin(b, e, neg=sy, mode=rng.randint(0, 5), pad=rng.choice([0, 0, 1]))
        z = recv(rng, prec=rng.choice(PRECS + [0]))
        shape = rng.choice(["0 1 2", "0 2 1", "1 1 2", "2 1 2"])
        yield dict(family="equal-top-word", vars=[z, x, y], ops=["%s %s" % (opn, shape)])
    # (iii) Mul / Quo
    for _ in range(500 * n):
        p = rng.choice(PRECS + [0])
        kind = rng.randint(0, 5)
        if kind <= 1:
            # exact quotient: x = q*y (9-runs force Knuth add-back)
            q = common.rand_coeff(rng, rng.choice([p if p else 20, 40]))
            yv = int("".join(rng.choice(["9999999999999999999", "0000000000000000000", "%019d" % rng.randint(0, B - 1), "99999999999%08d" % rng.randint(0, 10**8 - 1)])
                             for _ in range(rng.randint(1, 4))).lstrip("0") or "7")
            a = q * yv + rng.choice([0, 0, 1, -1] if q * yv > 1 else [0])
            b = yv
        elif kind == 2:
            a = common.rand_coeff(rng, 80)
            b = rng.choice([1, 2, 3, 7, 9, 10, 10**19 - 1, 10**19, 10**19 + 1, 5 * 10**18])
        else:
            a = common.rand_coeff(rng, 80)
            b = common.rand_coeff(rng, 80)
        ea = rng.randint(-40, 40)
        eb = rng.randint(-40, 40)
        if rng.randint(0, 7) == 0:
            ea = rng.choice([2**31 - 1 - ndigits(a), -2**31 + 1 - ndigits(a) + 1, 2**30, -2**30])
            eb = rng.choice([2**31 - 1 - ndigits(b), -2**31 + 1 - ndigits(b) + 1, 2**30, -2**30, 0])
        ea = common.clamp_exp(ea + ndigits(a)) - ndigits(a)
        eb = common.clamp_exp(eb + ndigits(b)) - ndigits(b)
        x = fin(a, ea, neg=rng.randint(0, 1), mode=rng.randint(0, 5), pad=rng.choice([0, 0, 1]))
        y = fin(b, eb, neg=rng.randint(0, 1), mode=rng.randint(0, 5), pad=rng.choice([0, 0, 1]))
        z = recv(rng, prec=p)
        shape = rng.choice(["0 1 2", "0 2 1", "1 1 2", "2 1 2", "0 1 1", "1 1 1", "2 2 1"])
        opn = rng.choice(["Mul", "Quo"])
        yield dict(family="mulquo", vars=[z, x, y], ops=["%s %s" % (opn, shape)])
    # (ii-e) far sticky for Set/Neg/Abs/SetPrec and exact-looking long quotients: kept digits, then [0 | 5] 0...0 (19-60 zeros), then a digit
    for _ in range(200 * n):
        p = rng.choice([1, 2, 5, 18, 19, 20, 34, 38])
        head = common.rand_coeff(rng, p)
        head *= 10 ** (p - ndigits(head))
        k = rng.choice([18, 19, 20, 36, 37, 38, 39, 56, 57, 60])
        mid = rng.choice(["0", "5", "0", "5", "4", "9"])
        v = int(str(head) + mid + "0" * k + rng.choice(["1", "1", "7", "0"]))
        md = rng.choice([0, 0, 1, 1, 2, 3, 4, 5])
        if rng.random() < 0.5:
            x = fin(v, rng.randint(-30, 30), neg=rng.randint(0, 1), mode=rng.randint(0, 5), pad=rng.choice([0, 0, 1]))
            z = recv(rng, prec=p, mode=md)
            op = rng.choice(["Set 0 1", "Neg 0 1", "Abs 0 1", "Copy 0 1 ; O SetMode 0 %d ; O SetPrec 0 %d" % (md, p), "Add 0 1 2", "Mul 0 1 3"])
            yield dict(family="far-sticky-set", vars=[z, x, zero(0, prec=3), fin(1, 0)], ops=[o.strip() for o in op.split("; O")])
        else:
            # x = v * y * 10^(19 m): the quotient x / y is v exactly; the dividend is long with zero low words
            yv = rng.choice([2, 4, 7, 3 * 10**18 + 1, common.rand_coeff(rng, 25)])
            m_ = rng.choice([0, 1, 2, 3])
            xv = v * yv * 10 ** (19 * m_) + (rng.choice([0, 0, 10 ** 19, 3 * 10 ** 19]) if m_ >= 2 else 0)
            x = fin(xv, rng.randint(-30, 30), neg=rng.randint(0, 1), pad=rng.choice([0, 1]))
            y = fin(yv, rng.randint(-5, 5), neg=rng.randint(0, 1))
            z = recv(rng, prec=p, mode=md)
            yield dict(family="far-sticky-quo", vars=[z, x, y], ops=["Quo 0 1 2"])
    # (iii-b) Mul / Quo with the result exponent exactly at, just inside and just outside the range
    for _ in range(160 * n):
        MINE, MAXE = -2**31, 2**31 - 1
        a, b = common.rand_coeff(rng, rng.choice([1, 3, 20, 40])), common.rand_coeff(rng, rng.choice([1, 3, 20, 40]))
        na, nb = ndigits(a), ndigits(b)
        opn = rng.choice(["Mul", "Quo"])
        tgt = rng.choice([MAXE, MAXE, MAXE + 1, MAXE - 1, MINE, MINE, MINE - 1, MINE + 1])
        # mantissa fractions ma = a/10^na, mb = b/10^nb
        if opn == "Mul":
            adj = -1 if a * b * 10 < 10 ** (na + nb) else 0          # exp(x*y) = ex + ey + adj
            exx = tgt // 2 + rng.randint(-1000, 1000)
            exy = tgt - adj - exx
        else:
            adj = 1 if a * 10 ** nb >= b * 10 ** na else 0           # exp(x/y) = ex - ey + adj
            exy = rng.randint(-1000, 1000) - tgt // 2
            exx = tgt - adj + exy
        if not (MINE <= exx <= MAXE and MINE <= exy <= MAXE):
            continue
        x = fin(a, exx - na, neg=rng.randint(0, 1), mode=rng.randint(0, 5), pad=rng.choice([0, 0, 1]))
        y = fin(b, exy - nb, neg=rng.randint(0, 1), mode=rng.randint(0, 5))
        z = recv(rng, prec=rng.choice(PRECS + [0]))
        shape = rng.choice(["0 1 2", "0 1 2", "1 1 2", "2 1 2"])
        yield dict(family="mulquo-range-edge", vars=[z, x, y], ops=["%s %s" % (opn, shape)])
    # (iv) large operands (multi-word paths)
    for _ in range(40 * n):
        nd1, nd2 = rng.choice([200, 400, 700, 1500]), rng.choice([100, 400, 900])
        a = int("".join(rng.choice(["9" * 19, "0" * 19, "%019d" % rng.randint(0, B - 1)]) for _ in range(nd1 // 19)).lstrip("0") or "3")
        b = int("".join(rng.choice(["9" * 19, "0" * 19, "%019d" % rng.randint(0, B - 1)]) for _ in range(nd2 // 19)).lstrip("0") or "7")
        x = fin(a, rng.randint(-30, 30), neg=rng.randint(0, 1))
        y = fin(b, rng.randint(-30, 30), neg=rng.randint(0, 1))
        z = recv(rng, prec=rng.choice([34, 100, 500, 1000, 0]))
        opn = rng.choice(["Mul", "Quo", "Add", "Sub"])
        yield dict(family="large", vars=[z, x, y], ops=["%s 0 1 2" % opn], big=True)
    # (v) random short programs
    for _ in range(300 * n):
        vs = [recv(rng), common.rand_fin(rng, 50, wide=False), common.rand_fin(rng, 50, wide=False), common.rand_fin(rng, 30, wide=False)]
        ops = []
        for _ in range(rng.randint(1, 6)):
            k = rng.randint(0, 9)
            if k <= 5:
                ops.append("%s %d %d %d" % (rng.choice(ARITH), rng.randint(0, 3), rng.randint(0, 3), rng.randint(0, 3)))
            elif k == 6:
                ops.append("%s %d %d" % (rng.choice(["Set", "Neg", "Abs"]), rng.randint(0, 3), rng.randint(0, 3)))
            elif k == 7:
                ops.append("SetPrec %d %d" % (rng.randint(0, 3), rng.choice([1, 2, 5, 19, 20, 34, 60])))
            elif k == 8:
                ops.append("SetMode %d %d" % (rng.randint(0, 3), rng.randint(0, 5)))
            else:
                ops.append("Copy %d %d" % (rng.randint(0, 3), rng.randint(0, 3)))
        yield dict(family="random-program", vars=vs, ops=ops)


def dv_obs(d):
    ws = [str(w) for w in d.words]
    i = 0
    while i < len(ws) and ws[i] == "0":
        i += 1
    return (str(d.form), str(d.neg), str(d.prec), str(d.mode), str(d.acc),
            str(d.exp) if d.form == 1 else None, tuple(ws[i:]), tuple(ws))


def exact_result(opn, xs):
    """exact value of op on finite operand values (pyspec.Val). returns ('fin',neg,frac,e10) / ('zero',) / None"""
    if opn in ("Add", "Sub"):
        x, y = xs
        m = min(x.e10, y.e10)
        if max(x.e10, y.e10) - m > 100000:
            return None
        a = x.frac * 10 ** (x.e10 - m) * (-1 if x.neg else 1)
        b = y.frac * 10 ** (y.e10 - m) * (-1 if y.neg else 1)
        s = a + b if opn == "Add" else a - b
        if s == 0:
            return ("zero",)
        return ("fin", s < 0, abs(s), m)
    if opn == "Mul":
        x, y = xs
        return ("fin", x.neg != y.neg, x.frac * y.frac, x.e10 + y.e10)
    if opn == "Quo":
        x, y = xs
        return ("fin", x.neg != y.neg, x.frac / y.frac, x.e10 - y.e10)
    return None


def judge(cases, g, m, want_ops=("Add", "Sub", "Mul", "Quo", "Set", "Neg", "Abs", "SetPrec")):
    """independent exact-rational oracle on the implementation's observations"""
    fails = []
    JUDGE_STATS["judged_ops"] = 0
    JUDGE_STATS["wf_checked"] = 0
    for c in cases:
        if "vars" not in c:
            continue
        prev = [dv_obs(v) for v in c["vars"]]
        for i, o in enumerate(c["ops"]):
            ob = g.get((c["pid"], i))
            if ob is None:
                break
            (key, opn, outcome, res, vs), line = ob
            t = o.split()
            msg = None
            if outcome == "ok":
                for v in vs:
                    JUDGE_STATS["wf_checked"] += 1
                    w = pyspec.wf(v)
                    if w:
                        msg = "result not canonical: " + w
                if msg is None and opn in want_ops:
                    JUDGE_STATS["judged_ops"] += 1
                    msg = judge_op(opn, t, prev, vs)
            if msg:
                fails.append((c, "implementation output violates the rounding specification at step %d (%s): %s" % (i, o, msg),
                              dict(implementation=line, step=i)))
                break
            prev = vs
    return fails


def judge_op(opn, t, prev, vs):
    zi = int(t[1])
    z0, z1 = prev[zi], vs[zi]
    zprec, zmode = int(z0[2]), int(z0[3])
    if opn in ARITH:
        x, y = prev[int(t[2])], prev[int(t[3])]
        if x[0] != "1" or y[0] != "1":
            return None
        p = zprec if zprec != 0 else max(int(x[2]), int(y[2]))
        if int(z1[2]) != p:
            return "precision %s, want %d" % (z1[2], p)
        if int(z1[3]) != zmode:
            return "mode changed"
        ex = exact_result(opn, (pyspec.obs_val(x), pyspec.obs_val(y)))
        if ex is None:
            return None
        if ex[0] == "zero":
            if z1[0] != "0" or z1[4] != "0":
                return "exact zero sum: got form %s acc %s" % (z1[0], z1[4])
            wantneg = (zmode == 4)
            if (z1[1] == "1") != wantneg:
                return "sign of exact zero sum"
            return None
        return pyspec.check_fin_result(z1, ex[1], ex[2], ex[3], p, zmode)
    if opn in ("Set", "Neg", "Abs"):
        x = prev[int(t[2])]
        if x[0] != "1":
            return None
        p = zprec if zprec != 0 else int(x[2])
        xv = pyspec.obs_val(x)
        # Neg/Abs round x with x's sign, then change the sign
        return pyspec.check_fin_result(flip(z1, opn, xv.neg), xv.neg, xv.frac, xv.e10, p, zmode)
    if opn == "SetPrec":
        p = int(t[2])
        if z0[0] != "1" or p == 0:
            return None
        zv = pyspec.obs_val(z0)
        return pyspec.check_fin_result(z1, zv.neg, zv.frac, zv.e10, p, zmode)
    return None


def flip(z1, opn, xneg):
    """undo the sign change of Neg/Abs so that the observation can be compared with 'round x with x's sign';
    the accuracy was computed before the sign change and is not touched by it"""
    if opn == "Set":
        return z1
    neg = z1[1] == "1"
    want_neg = (not xneg) if opn == "Neg" else False
    if neg != want_neg:
        return ("9",) + tuple(z1[1:])   # forces a form mismatch report
    return (z1[0], "1" if xneg else "0") + tuple(z1[2:])
