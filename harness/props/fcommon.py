"""Shared machinery of C05 / C15: the fdriver/frunner pair (Sqrt and the binary
floating-point conversions), Coq rendering for the in-kernel sample, and exact
binary/decimal helpers for the independent oracles."""
import os, re
from fractions import Fraction
import vlib
from vlib import ROOT, BUILD, COQ, REPO, GOENV, COQW, sh, file_hash
from . import common

DRIVER = "fdriver"
RUNNER = "frunner"


def build(log):
    d = os.path.join(ROOT, "harness", "fdriver")
    if os.path.exists(os.path.join(REPO, "go.sum")):
        sh(["cp", os.path.join(REPO, "go.sum"), d])
    rc, out, dt = sh(["go", "build", "-tags", "verif", "-o", os.path.join(BUILD, "fdriver"), "."], cwd=d, env=GOENV, timeout=600)
    log.append(("go-build[fdriver]", rc, dt, out[-3000:] if rc else ""))
    if rc:
        return False, out
    ex = os.path.join(BUILD, "extractf")
    os.makedirs(ex, exist_ok=True)
    rc, out, dt = sh(["coqc", "-Q", os.path.join(COQ, "theories"), "Dec", "-w", COQW, "-o", "./ExtractF.vo",
                      os.path.join(COQ, "theories", "Extract", "ExtractF.v")], cwd=ex, timeout=600)
    log.append(("extract-f", rc, dt, out[-2000:] if rc else ""))
    if rc:
        return False, "extraction of the Sqrt/Float models failed:\n" + out
    main_src = os.path.join(ROOT, "harness", "ocaml", "fmain.ml")
    h = file_hash([os.path.join(ex, "fmodel.ml"), main_src])
    stamp = os.path.join(BUILD, "frunner.hash")
    runner = os.path.join(BUILD, "frunner")
    if os.path.exists(runner) and os.path.exists(stamp) and open(stamp).read() == h:
        return True, ""
    sh(["cp", main_src, os.path.join(ex, "fmain.ml")])
    rc, out, dt = sh("ocamlfind ocamlopt -package zarith -linkpkg -w -a -inline 100 fmodel.mli fmodel.ml fmain.ml -o ../frunner",
                     cwd=ex, timeout=600)
    log.append(("ocaml-f", rc, dt, out[-2000:] if rc else ""))
    if rc:
        return False, "frunner build failed:\n" + out
    open(stamp, "w").write(h)
    return True, ""


# ----------------------------------------------------------------------------
# Coq rendering (L3/FRun.v)

def _z(s):
    s = str(s)
    return "(%s)" % s if s.startswith("-") else s


def coq_fop(o):
    t = o.split()
    n = t[0]
    if n == "Sqrt":
        return "(FSqrt %s %s)" % (t[1], t[2])
    if n == "SetFloat64":
        return "(FSetFloat64 %s %d)" % (t[1], int(t[2], 16))
    if n == "SetFloat":
        return "(FSetFloat %s %s %s %s %s %s)" % (t[1], vlib.FORMS[int(t[2])], "true" if t[3] == "1" else "false", _z(t[4]), _z(t[5]), _z(t[6]))
    if n == "Float":
        if t[2] == "nil":
            return "(FFloat %s true 0 ToNearestEven Fzero false)" % t[1]
        return "(FFloat %s false %s %s %s %s)" % (t[1], _z(t[2]), vlib.MODES[int(t[3])], vlib.FORMS[int(t[4])], "true" if t[5] == "1" else "false")
    if n == "Float64":
        return "(FFloat64 %s)" % t[1]
    if n == "Float32":
        return "(FFloat32 %s)" % t[1]
    return "(FPlain %s)" % common.coq_op(o)


def vm_check_for(pid, maxlen=900):
    def vm_check(cases, g, log, tier):
        maxn = 30 if tier == "quick" else 120
        byfam = {}
        for c in cases:
            if "vars" in c and not c.get("big"):
                byfam.setdefault(c.get("family"), []).append(c)
        order, i = [], 0
        fams = sorted(byfam)
        while len(order) < maxn * 6 and i < 3000:
            for f in fams:
                if i < len(byfam[f]):
                    order.append(byfam[f][i])
            i += 1
        items, ids = [], []
        for c in order:
            if len(items) >= maxn:
                break
            if len(c["line"]) > maxlen:
                continue
            obs = [g.get((c["pid"], k)) for k in range(len(c["ops"]))]
            obs = [o for o in obs if o is not None]
            if not obs:
                continue
            try:
                ops = [coq_fop(o) for o in c["ops"]]
            except KeyError:
                continue
            terms = []
            for (o, _line) in obs:
                key, opn, outcome, res, vs = o
                rterm = "(mkRes %s %s [])" % ({"ok": "Ok", "nan": "NaN", "crash": "Crash"}[outcome],
                                             vlib.coq_list([vlib.coq_z(x) for x in res]))
                terms.append("(%s, %s)" % (rterm, vlib.coq_list([vlib.coq_dec_from_obs(v) for v in vs])))
            items.append("(%s, %s, %s)" % (vlib.coq_list([vlib.coq_dec_from_dv(v) for v in c["vars"]]),
                                           vlib.coq_list(ops), vlib.coq_list(terms)))
            ids.append(c["pid"])
        if not items:
            return dict(ran=0, mismatches=[])
        dd = os.path.join(BUILD, "vm")
        os.makedirs(dd, exist_ok=True)
        src = os.path.join(dd, "cases_%s.v" % pid)
        with open(src, "w") as f:
            f.write("From Dec Require Import L3.FRun.\nOpen Scope Z_scope.\n")
            f.write("Definition cases : list fcase :=\n [ %s ].\n" % ";\n   ".join(items))
            f.write("Definition bad := Eval vm_compute in fmismatches cases.\nPrint bad.\n")
        rc, out, dt = sh(["coqc", "-Q", os.path.join(COQ, "theories"), "Dec", "-w", COQW, src], cwd=dd, timeout=900)
        log.append(("vm_compute", rc, dt, out[-1500:] if rc else ""))
        if rc != 0:
            return dict(ran=len(items), mismatches=["coqc failed: " + out[-500:]], secs=dt)
        m = re.search(r"bad\s*=\s*\[(.*?)\]", out, flags=re.S)
        if m is None:
            return dict(ran=len(items), mismatches=["unparsable coqc output"], secs=dt)
        mism = [ids[int(x)] for x in re.findall(r"\d+", m.group(1))] if m.group(1).strip() else []
        return dict(ran=len(items), mismatches=mism, secs=dt)
    return vm_check


def tagged(shape, msg):
    return "[shape=%s] %s" % (shape, msg)


def match_known(f, case, what, go_line, model_line):
    """a known finding suppresses exactly the failures whose shape the judge
    re-evaluated on the failing case and tagged with the finding's shape"""
    shapes = list(f.get("shapes") or [])
    if f.get("shape"):
        shapes.append(f["shape"])
    return any(("[shape=%s]" % s_) in (what or "") for s_ in shapes)


# ----------------------------------------------------------------------------
# exact helpers

def sgn(v):
    return (v > 0) - (v < 0)


def obs_int(v):
    """(N, e10): a finite observation's exact magnitude N * 10^e10, N stripped of trailing zeros"""
    raw = v[7]
    n = 0
    for w in reversed(raw):
        n = n * vlib.B + int(w)
    e = int(v[5]) - 19 * len(raw)
    while n % 10 == 0:
        n //= 10
        e += 1
    return n, e


def ilog2_frac(q):
    """floor(log2 q) for a positive Fraction"""
    k = q.numerator.bit_length() - q.denominator.bit_length()
    if Fraction(2) ** k > q:
        k -= 1
    return k


def rne_int(q):
    """nearest integer to the non-negative Fraction q, ties to even"""
    n = q.numerator // q.denominator
    r = q - n
    if r > Fraction(1, 2) or (r == Fraction(1, 2) and n % 2 == 1):
        n += 1
    return n


FMT = {64: (53, 11), 32: (24, 8)}


def round_to_fmt(q, w):
    """nearest-even value of the positive Fraction q in binary64/binary32:
    ('fin', value) / ('inf',) / ('zero',)"""
    p, eb = FMT[w]
    emax = 2 ** (eb - 1) - 1
    emin = 2 - emax - p
    E = ilog2_frac(q)
    e = max(E - (p - 1), emin)
    m = rne_int(q / Fraction(2) ** e)
    v = m * Fraction(2) ** e
    if m == 0:
        return ("zero",)
    if v >= Fraction(2) ** (emax + 1):
        return ("inf",)
    return ("fin", v)


def bits_value(bits, w):
    """decode a bit pattern: (kind, neg, Fraction magnitude)"""
    p, eb = FMT[w]
    neg = bits >> (w - 1)
    r = bits & ((1 << (w - 1)) - 1)
    be, fr = r >> (p - 1), r & ((1 << (p - 1)) - 1)
    emax = 2 ** (eb - 1) - 1
    emin = 2 - emax - p
    if be == (1 << eb) - 1:
        return ("inf" if fr == 0 else "nan", neg, None)
    if be == 0:
        return ("zero", neg, Fraction(0)) if fr == 0 else ("fin", neg, fr * Fraction(2) ** emin)
    return ("fin", neg, ((1 << (p - 1)) + fr) * Fraction(2) ** (emin + be - 1))


def neighbours(q, w):
    """the two adjacent format values (as Fractions; None = infinity) bracketing the positive Fraction q: lo <= q <= hi"""
    p, eb = FMT[w]
    emax = 2 ** (eb - 1) - 1
    emin = 2 - emax - p
    big = Fraction(2) ** (emax + 1)
    if q >= big:
        return big - Fraction(2) ** (emax + 1 - p), None
    E = ilog2_frac(q)
    e = max(E - (p - 1), emin)
    u = Fraction(2) ** e
    m = (q / u).numerator // (q / u).denominator
    lo = m * u
    hi = lo if lo == q else (m + 1) * u
    return lo, (hi if hi < big else None)
