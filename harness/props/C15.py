"""C15 — binary floating-point conversions: nearest on output, faithful on input."""
from fractions import Fraction
from vlib import fin, zero, inf, B, ndigits
import pyspec
from . import C01, common, fcommon
from .fcommon import sgn, FMT

ID = "C15"
LEVEL = "other"
DRIVER = fcommon.DRIVER
RUNNER = fcommon.RUNNER
build = fcommon.build
vm_check = fcommon.vm_check_for("C15")
match_known = fcommon.match_known
JUDGE_STATS = {}

RULE = ("SetFloat64 over float64 bit patterns: every biased exponent 0..2047 x mantissa edges (0, 1, 2^52-1, random), subnormals, "
        "extremes, +-0, +-Inf, NaN, receiver precisions 0..40 and 800 (full expansion), six modes; SetFloat over big.Float values "
        "of precision 1..2000 bits, exponents to +-1100 and near +-2^31, +-0, +-Inf; Float over Decimals of 1..3000 digits x target "
        "precisions 0..2000 x six modes x previous contents of the target; Float64/Float32 over Decimals at binade and decade "
        "crossings, at binary64/binary32 mid-points +- 10^-k (the double-rounding trap), at the overflow and underflow thresholds "
        "and on the images of SetFloat64; distinct = different program text; non-trivial = a finite non-zero value is converted")
EXPLANATION = ("Props/C15.v proves, on the model: the special-value behaviour and the receiver attributes of SetFloat64/SetFloat; that "
               "SetFloat64 is correctly rounded on the binade [2^52,2^53) and stores EVERY finite float64 exactly (Exact accuracy, "
               "canonical) when the value has at most p digits and 2^|exp2| fits p+1 digits (pow2's loop is then exact at every "
               "step); it refutes the unrestricted exactness clause (K8) and 'Float64 returns the nearest value with the right "
               "accuracy' (K2) with computed witnesses.  The run ties the model (pow2/floatPow5 loops, every intermediate rounding, "
               "math/big modelled as correctly rounded) bit for bit to the code and judges the implementation's outputs with an "
               "independent exact-rational oracle: exactness when the precision holds the full expansion, <= 1 ulp (SetFloat64) / "
               "<= 32 ulps (SetFloat, Float), nearest-or-not with accuracy sign for Float64/Float32")
ASSUMPTIONS = ["operands well-formed (C08)", "natural-number routines exact (C06) and word kernels correct (C07)",
               "math/big.Float operations (SetInt, SetMantExp, Mul, Quo, SetPrec, Float64, Float32) are correctly rounded",
               "float64 multiplication and math.Ceil are IEEE-754 (precision defaulting only)"]
TRUSTED = ["L3/Float.v: model of the math/big.Float methods used by Float/SetFloat as 'exact result rounded once' (Bin.rnd_pos)"]

PRECS = [0, 1, 2, 3, 5, 8, 15, 16, 17, 18, 19, 20, 21, 34, 38, 40]


def nontrivial(c):
    return True


def hexbits(sign, be, fr):
    return "%016x" % ((sign << 63) | (be << 52) | fr)


def frac_edge(rng):
    return rng.choice([0, 1, 2**52 - 1, rng.randint(0, 2**52 - 1), rng.randint(0, 2**52 - 1), 2**51, 2**51 + 1, 2**52 - 2])


def dec_of_fraction(q, neg=0, **kw):
    """exact Decimal of a positive dyadic/decimal Fraction (finite expansion)"""
    n, d = q.numerator, q.denominator
    k2 = k5 = 0
    while d % 2 == 0:
        d //= 2
        k2 += 1
    while d % 5 == 0:
        d //= 5
        k5 += 1
    assert d == 1
    k = max(k2, k5)
    coeff = n * 2 ** (k - k2) * 5 ** (k - k5)
    return fin(coeff, -k, neg=neg, **kw)


def perturb(rng, q, neg=0):
    """Decimal q +- 10^-k relative: coefficient extended by j zero digits, +-1"""
    x = dec_of_fraction(q)
    n = 0
    for w in reversed(x.words):
        n = n * B + w
    nd = 19 * len(x.words)
    e10 = x.exp - nd
    while n % 10 == 0:
        n //= 10
        e10 += 1
    j = rng.choice([0, 1, 2, 3, 5, 8, 12, 20, 30, 40])
    d = rng.choice([0, 1, -1, 1, -1, 2, -3])
    c = n * 10 ** j + d
    return fin(max(c, 1), e10 - j, neg=neg)


CONV = ["Float 0 64 0 0 0", "Float64 0", "Float 0 32 0 0 0", "Float32 0"]


def gen(rng, tier):
    n = 1 if tier == "quick" else 12
    # (i) float64 bit patterns: all exponents x mantissa edges
    exps = list(range(0, 2048))
    if tier == "quick":
        exps = sorted(set([0, 1, 2, 1022, 1023, 1024, 1074, 1075, 1076, 2045, 2046, 2047] + rng.sample(exps, 700)))
        edges = lambda: [frac_edge(rng)]
    else:
        edges = lambda: [0, 1, 2**52 - 1, rng.randint(0, 2**52 - 1), frac_edge(rng)]
    for be in exps:
        for fr in edges():
            p = rng.choice(PRECS)
            z = C01.recv(rng, prec=p)
            yield dict(family="f64-bits", vars=[z], ops=["SetFloat64 0 " + hexbits(rng.randint(0, 1), be, fr)] + CONV)
    for h in ["0000000000000000", "8000000000000000", "7ff0000000000000", "fff0000000000000", "7ff8000000000001", "fff8000000000000",
              "7ff0000000000001", "0000000000000001", "8000000000000001", "000fffffffffffff", "0010000000000000", "7fefffffffffffff",
              "ffefffffffffffff", "3ff0000000000000", "bff0000000000000", "4340000000000000", "433fffffffffffff", "3fb999999999999a"]:
        for p in [0, 1, 17, 34]:
            yield dict(family="f64-special", vars=[C01.recv(rng, prec=p)], ops=["SetFloat64 0 " + h] + CONV)
    # receivers of precision MaxPrec (no extra working digit is available; only values that need no scaling,
    # a MaxPrec-digit division is out of reach)
    for h in ["4330000000000000", "433fffffffffffff", "c330000000000001"]:
        yield dict(family="maxprec", vars=[zero(0, prec=2**32 - 1, mode=rng.randint(0, 5))], ops=["SetFloat64 0 " + h])
    yield dict(family="maxprec", vars=[zero(0, prec=2**32 - 1)], ops=["SetFloat 0 1 0 3 0 2"])
    yield dict(family="maxprec", vars=[zero(0, prec=2**32 - 2)], ops=["SetFloat 0 1 1 5 3 3"])
    # zeros and infinities into a big.Float that already holds a value
    for xf in (zero(0, prec=5), zero(1, prec=5), inf(0, prec=5), inf(1, prec=5)):
        for zf in (0, 1, 2):
            for zn in (0, 1):
                yield dict(family="float-special", vars=[xf], ops=["Float 0 %d %d %d %d" % (rng.choice([1, 24, 64]), rng.randint(0, 5), zf, zn)])
        yield dict(family="float-special", vars=[xf], ops=["Float 0 nil", "Float 0 0 %d 2 1" % rng.randint(0, 5), "Float 0 0 0 0 1"])
    # short values (integers and dyadic fractions with few digits) at small precisions: the exactness clause
    for _ in range(250 * n):
        import struct
        v = rng.choice([1, 2, 3, 5, 7, 10, 12, 25, 100, 125, 1000, rng.randint(1, 2000)]) / 2.0 ** rng.choice([0, 0, 1, 2, 3, 6])
        v = v * 2.0 ** rng.choice([0, 0, 0, 10, 40, -10])
        if rng.randint(0, 1):
            v = -v
        h = "%016x" % struct.unpack("<Q", struct.pack("<d", v))[0]
        z = C01.recv(rng, prec=rng.choice([1, 2, 3, 4, 5, 6, 8, 10, 12, 14, 15, 16, 17, 18, 20]))
        yield dict(family="f64-short", vars=[z], ops=["SetFloat64 0 " + h] + CONV)
    # (ii) full expansion: precision 800 holds every float64 exactly
    for _ in range(200 * n):
        be = rng.choice([0, 1, rng.randint(0, 2046), rng.randint(900, 1150), 2046])
        z = C01.recv(rng, prec=rng.choice([800, 800, 770, 1000]))
        yield dict(family="f64-exact", vars=[z], ops=["SetFloat64 0 " + hexbits(rng.randint(0, 1), be, frac_edge(rng))] + CONV, big=True)
    # (iii) SetFloat: big.Float of precision 1..2000
    for _ in range(700 * n):
        bp = rng.choice([1, 2, 3, 24, 53, 64, 65, 100, rng.randint(1, 200), rng.randint(1, 2000)])
        mb = rng.choice([bp, bp, rng.randint(1, bp)])
        man = rng.getrandbits(mb) | (1 << (mb - 1))
        if rng.randint(0, 5) == 0:
            man = rng.choice([1, 3, 2**mb - 1, 2**(mb - 1)])
        k = rng.randint(0, 19)
        if k <= 9:
            e = rng.randint(-80, 80)
        elif k <= 15:
            e = rng.randint(-1100, 1100)
        elif k == 16:
            e = rng.choice([0, -man.bit_length(), -man.bit_length() + 1, 1, -1])
        elif k == 17:
            e = rng.randint(-5000, 5000)
        else:
            # the exponent field (e + bit length) must stay within int32
            e = rng.choice([2**31 - 1 - man.bit_length(), -2**31 - man.bit_length() + 1, -2**31 + 5, 2**31 - 2100, -2**31 + 40,
                            rng.randint(-2**31 + 10, 2**31 - 2100)])
        zp = rng.choice(PRECS + [0, 60, 100, 700] + ([800] if abs(e) < 1200 else []))
        z = C01.recv(rng, prec=zp)
        yield dict(family="setfloat", vars=[z], ops=["SetFloat 0 1 %d %d %d %d" % (rng.randint(0, 1), man, e, max(bp, man.bit_length()))],
                   big=(man.bit_length() > 128 or abs(e) > 2000))
    for frm in (0, 2):
        for ng in (0, 1):
            for bp in (0, 1, 53, 2000):
                yield dict(family="setfloat-special", vars=[C01.recv(rng, prec=rng.choice([0, 5, 34]))], ops=["SetFloat 0 %d %d 0 0 %d" % (frm, ng, bp)])
    # (iv) Float: Decimal -> big.Float
    for _ in range(700 * n):
        k = rng.randint(0, 11)
        if k == 0:
            x = common.rand_any(rng, 40, wide=False)
        elif k == 1:
            x = common.rand_fin(rng, 60, wide=True)
        elif k == 2:
            x = fin(common.rand_coeff(rng, rng.choice([200, 1000, 3000])), rng.randint(-50, 50), neg=rng.randint(0, 1))
        else:
            x = common.rand_fin(rng, 60, wide=False)
        zp = rng.choice([0, 0, 1, 2, 3, 24, 32, 53, 64, 65, 100, 113, 500, 2000, rng.randint(1, 300)])
        if rng.randint(0, 9) == 0:
            op = "Float 0 nil"
        else:
            zf = rng.choice([0, 0, 0, 1, 2]) if zp > 0 else rng.choice([0, 0, 2])
            op = "Float 0 %d %d %d %d" % (zp, rng.randint(0, 5), zf, rng.randint(0, 1))
        yield dict(family="float", vars=[x], ops=[op], big=len(x.words) > 4 or abs(x.exp) > 400 or zp > 200)
    # (v) Float64 / Float32 at mid-points +- 10^-k, binade and decade crossings, range limits
    for _ in range(1100 * n):
        w = rng.choice([64, 64, 32])
        p, eb = FMT[w]
        emax = 2 ** (eb - 1) - 1
        emin = 2 - emax - p
        k = rng.randint(0, 9)
        if k <= 4:
            # mid-point between two adjacent format values
            e = rng.choice([rng.randint(-70, 70), rng.randint(-70, 70), rng.randint(-130, 130),
                            rng.randint(emin, emin + 60) if (w == 32 or rng.randint(0, 5) == 0) else rng.randint(-300, 300)])
            e = max(e, emin)
            m = rng.choice([2 ** (p - 1), 2 ** p - 1, rng.randint(2 ** (p - 1), 2 ** p - 1), rng.randint(2 ** (p - 1), 2 ** p - 1)])
            if e == emin and rng.randint(0, 1):
                m = rng.randint(1, 2 ** (p - 1))          # subnormal
            q = (2 * m + 1) * Fraction(2) ** (e - 1)
        elif k == 5:
            # a format value itself (representable: must come back exactly)
            e = rng.randint(-80, 80)
            q = rng.randint(2 ** (p - 1), 2 ** p - 1) * Fraction(2) ** e
        elif k == 6:
            # binade crossing 2^e
            q = Fraction(2) ** rng.randint(-100, 100)
        elif k == 7:
            # decade crossing 10^e
            q = Fraction(10) ** rng.randint(-40, 40)
        elif k == 8:
            # overflow threshold: max finite + half ulp, and max finite
            q = rng.choice([Fraction(2) ** (emax + 1) - Fraction(2) ** (emax - p), Fraction(2) ** (emax + 1) - Fraction(2) ** (emax + 1 - p),
                            Fraction(2) ** (emax + 1)])
        else:
            # underflow threshold: half the smallest subnormal, smallest subnormal, smallest normal
            q = rng.choice([Fraction(2) ** (emin - 1), Fraction(2) ** emin, 3 * Fraction(2) ** (emin - 1), Fraction(2) ** (emin + p - 1),
                            (2 ** p - 1) * Fraction(2) ** (emin - 1)]) if w == 32 or rng.randint(0, 3) == 0 else \
                rng.choice([Fraction(2) ** -1075, Fraction(2) ** -1074, 3 * Fraction(2) ** -1075])
        x = perturb(rng, q, neg=rng.randint(0, 1))
        yield dict(family="midpoints-%d" % w, vars=[x], ops=CONV, big=len(x.words) > 6)
    # (vi) random Decimals, all exponent ranges
    for _ in range(500 * n):
        x = common.rand_any(rng, 50, wide=rng.randint(0, 3) == 0)
        yield dict(family="to-binary-random", vars=[x], ops=CONV)


# ----------------------------------------------------------------------------
# independent oracle

def dec_fraction(v):
    """exact Fraction magnitude of a finite observation with a moderate exponent, else None"""
    N, e = fcommon.obs_int(v)
    if abs(e) > 6000:
        return None
    return N * Fraction(10) ** e


def expansion_digits(q):
    """number of significant digits of the finite decimal expansion of the dyadic rational q"""
    n, d = q.numerator, q.denominator
    k = d.bit_length() - 1            # d = 2^k
    s = str(n * 5 ** k).rstrip("0")
    return len(s)


def ulp10(v, p):
    """unit in the last place of a finite observation at precision p, as Fraction"""
    return Fraction(10) ** (int(v[5]) - p)


def judge(cases, g, m):
    fails = []
    st = dict(setfloat64=0, setfloat64_exact_required=0, setfloat64_not_correctly_rounded=0, setfloat=0, setfloat_exact_required=0,
              setfloat_max_ulps=0.0, float=0, float_max_ulps=0.0, to_binary=0, to_binary_not_nearest=0, to_binary_wrong_acc=0,
              coarse=0)
    for c in cases:
        if "vars" not in c:
            continue
        prev = [C01.dv_obs(v) for v in c["vars"]]
        lastfloat = {}
        for i, o in enumerate(c["ops"]):
            ob = g.get((c["pid"], i))
            if ob is None:
                break
            (key, opn, outcome, res, vs), line = ob
            t = o.split()
            msg = None
            if outcome == "crash":
                msg = "panic other than ErrNaN"
            elif opn == "SetFloat64":
                msg = judge_setfloat64(t, prev, vs, outcome, st)
            elif outcome != "ok":
                msg = "unexpected ErrNaN"
            elif opn == "SetFloat":
                msg = judge_setfloat(t, prev, vs, st)
            elif opn == "Float":
                msg = judge_float(t, prev, vs, res, st)
                if msg is None and t[2] != "nil" and t[3:] == ["0", "0", "0"]:
                    lastfloat[(t[1], int(t[2]))] = res
            elif opn in ("Float64", "Float32"):
                msg = judge_to_binary(t, prev, vs, res, 64 if opn == "Float64" else 32, lastfloat, st)
            if msg is None and outcome == "ok" and opn not in ("SetFloat64", "SetFloat"):
                if [v[:7] for v in vs] != [v[:7] for v in prev]:
                    msg = "operand modified"
            if msg:
                fails.append((c, "conversion rule violated at step %d (%s): %s" % (i, o[:80], msg), dict(implementation=line, step=i)))
                break
            prev = vs
    st["setfloat_max_ulps"] = round(st["setfloat_max_ulps"], 3)
    st["float_max_ulps"] = round(st["float_max_ulps"], 3)
    JUDGE_STATS.update(st)
    return fails


def check_decimal_image(z1, neg, V, p, mode, tol, st, key, scale_digits):
    """z1 must hold the binary value V > 0: exactly if p digits suffice, else within tol ulps of the correctly rounded value.
    scale_digits: digits needed by the integer mantissa / power of two the code scales with"""
    if z1[0] != "1":
        return "finite value stored as form %s" % z1[0]
    w = pyspec.wf(z1)
    if w:
        return "result not canonical: " + w
    got = dec_fraction(z1)
    D = expansion_digits(V)
    if D <= p:
        st[key + "_exact_required"] += 1
        if got != V:
            msg = "precision %d holds the full %d-digit expansion but the stored value differs" % (p, D)
            ue = int(z1[5]) - p                       # unit in the last place = 10^ue (p can be MaxPrec: never materialise 10^-p)
            if scale_digits > p + 1 and ue > -10000 and abs(got - V) <= tol * Fraction(10) ** ue:
                # shape re-evaluated: the value fits, the scaling operands (2^|exp2| / integer mantissa) do not fit
                # the working precision p+1, and the error stays within the documented bound
                st[key + "_inexact_scale"] = st.get(key + "_inexact_scale", 0) + 1
                return fcommon.tagged("setfloat-inexact-scale", msg + " (the %d-digit scaling operand is rounded to %d digits)" % (scale_digits, p + 1))
            return msg
        if z1[4] != "0":
            msg = "the stored value is exact but accuracy %s is reported" % z1[4]
            if scale_digits > p + 1:
                st[key + "_inexact_scale"] = st.get(key + "_inexact_scale", 0) + 1
                return fcommon.tagged("setfloat-inexact-scale", msg + " (the %d-digit scaling operand is rounded to %d digits)" % (scale_digits, p + 1))
            return msg
        return None
    want = pyspec.round_fin(neg, V, 0, p, mode)
    assert want[0] == "fin"
    wv = want[2] * Fraction(10) ** (want[3] - p)
    u = Fraction(10) ** (want[3] - p)
    err = abs(got - wv) / u
    if key == "setfloat64":
        if err != 0:
            st["setfloat64_not_correctly_rounded"] += 1
    else:
        st[key + "_max_ulps"] = max(st[key + "_max_ulps"], float(err))
    if err > tol:
        return "stored value is %.3f units in the last place away from the correctly rounded value" % float(err)
    return None


def judge_setfloat64(t, prev, vs, outcome, st):
    zi = int(t[1])
    z0, z1 = prev[zi], vs[zi]
    bits = int(t[2], 16)
    kind, neg, V = fcommon.bits_value(bits, 64)
    st["setfloat64"] += 1
    if kind == "nan":
        return None if outcome == "nan" else "NaN did not panic with ErrNaN"
    if outcome != "ok":
        return "unexpected ErrNaN"
    p = int(z0[2]) if int(z0[2]) != 0 else 17
    if int(z1[2]) != p:
        return "precision %s, want %d" % (z1[2], p)
    if z1[3] != z0[3]:
        return "rounding mode changed"
    if (z1[1] == "1") != bool(neg):
        return "sign not preserved"
    if kind in ("zero", "inf"):
        want = "0" if kind == "zero" else "2"
        return None if z1[0] == want and z1[4] == "0" else "%s stored as form %s acc %s" % (kind, z1[0], z1[4])
    # 53-bit integer mantissa M53 and exponent exp2 with V = M53 * 2^exp2
    m, e = V.numerator, -(V.denominator.bit_length() - 1)
    k = 53 - m.bit_length()
    m, e = (m << k, e - k) if k >= 0 else (m, e)
    while m.bit_length() > 53:
        m, e = m >> 1, e + 1
    return check_decimal_image(z1, bool(neg), V, p, int(z0[3]), 1, st, "setfloat64", ndigits(2 ** abs(e)))


def judge_setfloat(t, prev, vs, st):
    zi = int(t[1])
    z0, z1 = prev[zi], vs[zi]
    frm, neg, man, e, bp = int(t[2]), int(t[3]), int(t[4]), int(t[5]), int(t[6])
    st["setfloat"] += 1
    if int(z0[2]) != 0:
        p = int(z0[2])
    else:
        # ceil(bp * log10(2)) = smallest p with 10^p >= 2^bp = digit count of 2^bp - 1
        p = ndigits(2 ** bp - 1) if bp > 0 else 0
    if int(z1[2]) != p:
        return "precision %s, want %d" % (z1[2], p)
    if z1[3] != z0[3]:
        return "rounding mode changed"
    if (z1[1] == "1") != bool(neg):
        return "sign not preserved"
    if frm != 1:
        want = "0" if frm == 0 else "2"
        return None if z1[0] == want and z1[4] == "0" else "special value stored as form %s acc %s" % (z1[0], z1[4])
    if abs(e) > 6000:
        st["coarse"] += 1
        # beyond the reach of exact rationals: class, sign and canonical form only
        if z1[0] == "1":
            w = pyspec.wf(z1)
            return ("result not canonical: " + w) if w else None
        return None
    V = man * Fraction(2) ** e
    modd, eodd = man, e
    while modd % 2 == 0:
        modd, eodd = modd // 2, eodd + 1
    return check_decimal_image(z1, bool(neg), V, p, int(z0[3]), 32, st, "setfloat", max(ndigits(2 ** abs(eodd)), ndigits(modd) + 1))


def judge_float(t, prev, vs, res, st):
    x = prev[int(t[1])]
    form, neg, prec, mode, acc, man, e = [int(r) for r in res]
    st["float"] += 1
    if t[2] == "nil":
        zp, zm = 0, int(x[3])
    else:
        zp, zm = int(t[2]), int(t[3])
    if zp == 0:
        xp = int(x[2])
        zp = max((10 ** xp - 1).bit_length() if xp > 0 else 0, 64)   # ceil(xp * log2 10) = smallest k with 2^k >= 10^xp
    if prec != zp:
        return "precision %d, want %d" % (prec, zp)
    if mode != zm:
        return "mode %d, want %d" % (mode, zm)
    if x[0] == "0":
        if (form, neg) == (0, int(x[1])):
            return None
        return "zero converted into form %d neg %d" % (form, neg)
    if x[0] == "2":
        return None if (form, neg) == (2, int(x[1])) else "infinity converted into form %d neg %d" % (form, neg)
    if neg != int(x[1]):
        return "sign not preserved"
    V = dec_fraction(x)
    if V is None:
        st["coarse"] += 1
        return None
    if form != 1:
        return "finite value in range converted into form %d" % form
    got = man * Fraction(2) ** e
    E = fcommon.ilog2_frac(V)
    u = Fraction(2) ** (E - (prec - 1))
    err = abs(got - V) / u
    st["float_max_ulps"] = max(st["float_max_ulps"], float(err))
    if err > 32:
        return "result is %.2f units in the last place away from x" % float(err)
    if man.bit_length() > prec:
        return "mantissa longer than the precision"
    return None


def judge_to_binary(t, prev, vs, res, w, lastfloat, st):
    x = prev[int(t[1])]
    bits, acc = int(res[0]), int(res[1])
    kind, neg, got = fcommon.bits_value(bits, w)
    st["to_binary"] += 1
    if kind == "nan":
        return "NaN returned"
    if x[0] == "0":
        return None if (kind, neg, acc) == ("zero", int(x[1]), 0) else "zero converted into %s neg %d acc %d" % (kind, neg, acc)
    if x[0] == "2":
        return None if (kind, neg, acc) == ("inf", int(x[1]), 0) else "infinity converted into %s neg %d acc %d" % (kind, neg, acc)
    if neg != int(x[1]):
        return "sign not preserved"
    p, eb = FMT[w]
    N, e10 = fcommon.obs_int(x)
    # far outside the format's range: saturation without materialising the value
    if e10 + ndigits(N) > 400:
        want = ("inf",)
        V = None
    elif e10 + ndigits(N) < -400:
        want = ("zero",)
        V = None
    else:
        V = N * Fraction(10) ** e10
        want = fcommon.round_to_fmt(V, w)
    s = -1 if neg else 1
    if want[0] == "inf":
        wkind, wacc = "inf", s
    elif want[0] == "zero":
        wkind, wacc = "zero", -s
    else:
        wkind, wacc = "fin", s * sgn(want[1] - V)
    good_value = (kind == wkind) and (kind != "fin" or got == want[1])
    if good_value and acc == wacc:
        return None
    # ---- not the documented result: is it exactly the double-rounded path (K2)?
    if not good_value:
        st["to_binary_not_nearest"] += 1
    else:
        st["to_binary_wrong_acc"] += 1
    what = ("returned value is not the nearest (%s, nearest is %s)" % (describe(kind, got), describe(wkind, want[1] if wkind == "fin" else None))) \
        if not good_value else ("nearest value returned but accuracy %d reported, sign of (returned - x) is %d" % (acc, wacc))
    zf = lastfloat.get((t[1], w))
    if zf is None:
        return what
    if V is None:
        # |x| beyond the exponent range of big.Float: the w-bit intermediate itself is +-Inf / +-0
        zform, zacc = int(zf[0]), int(zf[4])
        if good_value and zform in (0, 2) and {0: "zero", 2: "inf"}[zform] == kind and acc == zacc:
            st["to_binary_acc_out_of_range"] = st.get("to_binary_acc_out_of_range", 0) + 1
            return fcommon.tagged("binary-acc-out-of-range", what + "; the %d-bit intermediate is already %s" % (w, kind))
        return what
    zform, zneg, zprec, zmode, zacc, zman, zexp = [int(r) for r in zf]
    if zform != 1 or zprec != w:
        return what
    Z = zman * Fraction(2) ** zexp
    E = fcommon.ilog2_frac(V)
    if abs(Z - V) > 32 * Fraction(2) ** (E - (w - 1)):
        return what
    # second rounding of the w-bit intermediate
    r2 = fcommon.round_to_fmt(Z, w)
    if r2[0] == "inf":
        k2, a2 = "inf", s
    elif r2[0] == "zero":
        k2, a2 = "zero", -s
    else:
        k2, a2 = "fin", s * sgn(r2[1] - Z)
    if a2 == 0:
        a2 = zacc
    same_path = (kind == k2) and (kind != "fin" or got == r2[1]) and acc == a2
    # and the returned value is still one of the two format values bracketing x
    lo, hi = fcommon.neighbours(V, w)
    bracket = (kind == "inf" and hi is None) or (kind == "zero" and lo == 0) or (kind == "fin" and got in (lo, hi))
    if same_path and bracket:
        return fcommon.tagged("double-rounding", what + "; it is the result of rounding x to %d bits first" % w)
    return what


def describe(kind, v):
    if kind != "fin":
        return kind
    return "%d*2^%d" % (v.numerator, -(v.denominator.bit_length() - 1)) if v.denominator > 1 else str(v.numerator)


def shrink(line):
    return line
