"""C10 — results are independent of aliasing and of the receiver's previous contents."""
import copy
from vlib import Dv, fin, zero, inf, B, ndigits
import pyspec
from . import C01, common

ID = "C10"
LEVEL = "proof"
RULE = ("for each operation (Add Sub Mul Quo FMA Set Neg Abs SetMantExp MantExp GobRoundTrip) a group of programs computing the "
        "same mathematical call: a reference with a fresh zero-value receiver and distinct operand variables, every aliasing "
        "shape (z=x, z=y, x=y, z=x=y; for FMA also z=u, x=u, all equal), and receivers pre-loaded with longer/shorter/special "
        "values, capacity 0..+9 and stale words {0, B-1, 2^64-1} beyond the length; all members of a group must leave the same "
        "result; non-trivial = group with at least two members and a finite operand")
EXPLANATION = ("the value-level model computes every result from (receiver precision, receiver mode, operand values) only, so in "
               "the model independence from aliasing and previous contents holds by construction; the correspondence run ties "
               "that model to the code on every aliasing shape and receiver history, and a group judge compares the "
               "implementation's results inside each group directly")
ASSUMPTIONS = ["no two distinct variables share a mantissa buffer (SetBitsExp contract)",
               "buffer-level independence (capacity, stale words, in-place word movement inside dec.*) is exercised, not proved"]
coq_op = common.coq_op
JUDGE_STATS = {}


def nontrivial(c):
    return any(v.form == 1 for v in c.get("vars", []))


def dirty_receiver(rng, prec, mode):
    """receiver with the given precision/mode and arbitrary previous contents"""
    k = rng.randint(0, 4)
    if k == 0:
        return zero(rng.randint(0, 1), prec=prec, mode=mode, acc=rng.choice([-1, 0, 1]))
    if k == 1:
        return inf(rng.randint(0, 1), prec=prec, mode=mode, acc=rng.choice([-1, 0, 1]))
    p = max(prec, 1)
    c = common.rand_coeff(rng, min(p, 60))
    while ndigits(c) - (len(str(c)) - len(str(c).rstrip("0"))) > p:
        c //= 10
    c = max(c, 1)
    d = fin(c, rng.randint(-30, 30), prec=p, neg=rng.randint(0, 1), mode=mode, acc=rng.choice([-1, 0, 1]),
            pad=rng.choice([0, 1, 3, 6]), extracap=rng.choice([0, 1, 4, 9]), stale=rng.choice([0, B - 1, 2**64 - 1]))
    if prec == 0:
        return zero(0, prec=0, mode=mode)
    return d


def clone(d, **kw):
    e = copy.deepcopy(d)
    for k, v in kw.items():
        setattr(e, k, v)
    return e


def gen(rng, tier):
    n = 1 if tier == "quick" else 8
    gid = 0
    for _ in range(120 * n):
        gid += 1
        op = rng.choice(["Add", "Sub", "Mul", "Quo", "Add", "Sub"])
        x = common.rand_any(rng, 40, wide=False) if rng.randint(0, 5) == 0 else common.rand_fin(rng, 40, wide=False)
        y = common.rand_any(rng, 40, wide=False) if rng.randint(0, 5) == 0 else common.rand_fin(rng, 40, wide=False)
        # reference groups per aliasing shape: the receiver must have the aliased operand's precision and mode
        def grp(name, vars_, opstr, resvar, tag):
            return dict(family="alias-" + op, group="%d-%s" % (gid, tag), resvar=resvar, vars=vars_, ops=[opstr])
        # z distinct, with histories
        p, md = rng.choice([0, 1, 5, 34, 60]), rng.randint(0, 5)
        yield grp("fresh", [zero(0, prec=p, mode=md), x, y], "%s 0 1 2" % op, 0, "zxy")
        for _ in range(3):
            yield grp("dirty", [dirty_receiver(rng, p, md), clone(x, extracap=rng.choice([0, 3]), stale=B - 1), y], "%s 0 1 2" % op, 0, "zxy")
        # z = x
        yield grp("ref", [zero(0, prec=x.prec, mode=x.mode), x, y], "%s 0 1 2" % op, 0, "z=x")
        yield grp("alias", [clone(x), y], "%s 0 0 1" % op, 0, "z=x")
        # z = y
        yield grp("ref", [zero(0, prec=y.prec, mode=y.mode), x, y], "%s 0 1 2" % op, 0, "z=y")
        yield grp("alias", [x, clone(y)], "%s 1 0 1" % op, 1, "z=y")
        # x = y (same variable twice)
        yield grp("ref", [zero(0, prec=p, mode=md), x, clone(x)], "%s 0 1 2" % op, 0, "x=y")
        yield grp("alias", [dirty_receiver(rng, p, md), x], "%s 0 1 1" % op, 0, "x=y")
        # z = x = y
        yield grp("ref", [zero(0, prec=x.prec, mode=x.mode), x, clone(x)], "%s 0 1 2" % op, 0, "z=x=y")
        yield grp("alias", [clone(x)], "%s 0 0 0" % op, 0, "z=x=y")
    for _ in range(80 * n):
        gid += 1
        op = rng.choice(["Quo", "Quo", "Mul", "Add", "Sub"])
        x = common.rand_fin(rng, rng.choice([1, 20, 40]), wide=False)
        y = common.rand_fin(rng, rng.choice([1, 20, 40]), wide=False)
        p, md = rng.choice([19, 38, 57, 76, 100]), rng.randint(0, 5)
        w = p // 19 + rng.randint(2, 6)
        old = lambda: fin(int("".join("%019d" % rng.randrange(B // 10, B) for _ in range(w))), rng.randint(-5, 5), neg=rng.randint(0, 1), prec=19 * w, mode=md)
        reset = rng.choice(["SetInf 0 0", "SetInf 0 1", "SetInt64 0 0", "SetUint64 0 0"])
        yield dict(family="stale-then-special-" + op, group="%d-st" % gid, resvar=0, vars=[zero(0, prec=19 * w, mode=md), x, y], ops=[reset, "SetPrec 0 %d" % p, "%s 0 1 2" % op])
        for _ in range(2):
            yield dict(family="stale-then-special-" + op, group="%d-st" % gid, resvar=0, vars=[old(), x, y], ops=[reset, "SetPrec 0 %d" % p, "%s 0 1 2" % op])
    # zero / infinite operands: the exact special result (value, sign, accuracy) must not depend on the receiver's history
    for _ in range(80 * n):
        gid += 1
        op = rng.choice(["Add", "Sub", "Mul", "Quo"])
        sp = lambda: rng.choice([zero(0, prec=5), zero(1, prec=5), inf(0, prec=5), inf(1, prec=5)])
        x = sp() if rng.random() < 0.7 else common.rand_fin(rng, 20, wide=False)
        y = sp() if rng.random() < 0.7 else common.rand_fin(rng, 20, wide=False)
        p, md = rng.choice([0, 1, 5, 34]), rng.randint(0, 5)
        yield dict(family="special-" + op, group="%d-sp" % gid, resvar=0, vars=[zero(0, prec=p, mode=md), x, y], ops=["%s 0 1 2" % op])
        for _ in range(3):
            yield dict(family="special-" + op, group="%d-sp" % gid, resvar=0, vars=[dirty_receiver(rng, p, md), x, y], ops=["%s 0 1 2" % op])
    for _ in range(6 * n):
        gid += 1
        wy = rng.choice([100, 101, 110, 128])
        wx = wy + rng.choice([30, 50, 64, wy // 2, wy])
        cy = int("".join(rng.choice(["9" * 19, "%019d" % rng.randrange(B), "0" * 19]) for _ in range(wy)).lstrip("0") or "7")
        cx = int("".join(rng.choice(["9" * 19, "%019d" % rng.randrange(B)]) for _ in range(wx)).lstrip("0") or "3")
        x, y = fin(cx, rng.randint(-9, 9), neg=rng.randint(0, 1)), fin(cy, rng.randint(-9, 9), neg=rng.randint(0, 1))
        p, md = 19 * rng.choice([wx - wy + 2, 105, 60]), rng.randint(0, 5)
        op = rng.choice(["Quo", "Quo", "Mul"])
        big_p = 19 * (p // 19 + 3)
        stale = fin(int("".join("%019d" % rng.randrange(B // 10, B) for _ in range(big_p // 19))), 0, prec=big_p, mode=md)
        yield dict(family="long-" + op, group="%d-long" % gid, resvar=0, vars=[zero(0, prec=p, mode=md), x, y], ops=["SetPrec 0 %d" % p, "%s 0 1 2" % op], big=True)
        yield dict(family="long-" + op, group="%d-long" % gid, resvar=0, vars=[stale, x, y], ops=["SetPrec 0 %d" % p, "%s 0 1 2" % op], big=True)
        yield dict(family="long-" + op, group="%d-long" % gid, resvar=0, vars=[clone(stale), x, y], ops=["SetInf 0 0", "SetPrec 0 %d" % p, "%s 0 1 2" % op], big=True)
    for _ in range(6 * n):
        gid += 1
        wx, wy = rng.choice([30, 31, 45, 64, 90]), rng.choice([30, 33, 40, 64, 120])
        cx = int("".join("%019d" % rng.randrange(B // 10, B) for _ in range(wx)))
        cy = int("".join("%019d" % rng.randrange(B // 10, B) for _ in range(wy)))
        md = rng.randint(0, 5)
        p = 19 * rng.choice([wx, wx + wy, 10])
        x = fin(cx, rng.randint(-9, 9), neg=rng.randint(0, 1), prec=max(p, 19 * wx), mode=md)
        y = fin(cy, rng.randint(-9, 9), neg=rng.randint(0, 1), prec=19 * wy)
        op = rng.choice(["Mul", "Mul", "Quo", "Add"])
        cap = rng.choice([6 * max(wx, wy) + 8, 4 * (wx + wy), 1000])
        yield dict(family="long-alias-" + op, group="%d-la" % gid, resvar=0, vars=[zero(0, prec=x.prec, mode=md), x, y], ops=["%s 0 1 2" % op], big=True)
        yield dict(family="long-alias-" + op, group="%d-la" % gid, resvar=0, vars=[clone(x, extracap=cap, stale=B - 1), y], ops=["%s 0 0 1" % op], big=True)
        yield dict(family="long-alias-" + op, group="%d-la" % gid, resvar=0, vars=[clone(x, extracap=cap, stale=rng.randrange(B)), y], ops=["%s 0 0 1" % op], big=True)
        if op in ("Mul", "Add"):
            yield dict(family="long-alias-" + op, group="%d-la" % gid, resvar=0, vars=[clone(x, extracap=cap, stale=1), y], ops=["%s 0 1 0" % op], big=True)
    for _ in range(80 * n):
        gid += 1
        x, y, u = (common.rand_any(rng, 30, wide=False) if rng.randint(0, 6) == 0 else common.rand_fin(rng, 30, wide=False) for _ in range(3))
        def grp(vars_, opstr, resvar, tag):
            return dict(family="alias-FMA", group="%d-%s" % (gid, tag), resvar=resvar, vars=vars_, ops=[opstr])
        p, md = rng.choice([0, 2, 20, 50]), rng.randint(0, 5)
        yield grp([zero(0, prec=p, mode=md), x, y, u], "FMA 0 1 2 3", 0, "zxyu")
        yield grp([dirty_receiver(rng, p, md), x, y, u], "FMA 0 1 2 3", 0, "zxyu")
        for tag, ref, al, rv in [
            ("z=x", ([zero(0, prec=x.prec, mode=x.mode), x, y, u], "FMA 0 1 2 3"), ([clone(x), y, u], "FMA 0 0 1 2"), 0),
            ("z=y", ([zero(0, prec=y.prec, mode=y.mode), x, y, u], "FMA 0 1 2 3"), ([x, clone(y), u], "FMA 1 0 1 2"), 1),
            ("z=u", ([zero(0, prec=u.prec, mode=u.mode), x, y, u], "FMA 0 1 2 3"), ([x, y, clone(u)], "FMA 2 0 1 2"), 2),
            ("x=u", ([zero(0, prec=p, mode=md), x, y, clone(x)], "FMA 0 1 2 3"), ([dirty_receiver(rng, p, md), x, y], "FMA 0 1 2 1"), 0),
            ("x=y", ([zero(0, prec=p, mode=md), x, clone(x), u], "FMA 0 1 2 3"), ([dirty_receiver(rng, p, md), x, u], "FMA 0 1 1 2"), 0),
            ("all", ([zero(0, prec=x.prec, mode=x.mode), x, clone(x), clone(x)], "FMA 0 1 2 3"), ([clone(x)], "FMA 0 0 0 0"), 0),
        ]:
            yield grp(ref[0], ref[1], 0, tag)
            yield grp(al[0], al[1], rv, tag)
    for _ in range(80 * n):
        gid += 1
        op = rng.choice(["Set", "Neg", "Abs"])
        x = common.rand_any(rng, 40, wide=False)
        p, md = rng.choice([0, 1, 5, 34]), rng.randint(0, 5)
        for _ in range(3):
            yield dict(family="history-" + op, group="%d-zx" % gid, resvar=0, vars=[dirty_receiver(rng, p, md), clone(x, extracap=rng.choice([0, 2]))], ops=["%s 0 1" % op])
        yield dict(family="alias-" + op, group="%d-z=x" % gid, resvar=0, vars=[zero(0, prec=x.prec, mode=x.mode), x], ops=["%s 0 1" % op])
        yield dict(family="alias-" + op, group="%d-z=x" % gid, resvar=0, vars=[clone(x)], ops=["%s 0 0" % op])
    for _ in range(60 * n):
        gid += 1
        x = common.rand_any(rng, 40, wide=False)
        e = rng.choice([0, 3, -3, 40, 2**31, -2**31])
        yield dict(family="alias-SetMantExp", group="%d-sme" % gid, resvar=0, vars=[dirty_receiver(rng, rng.choice([0, 5]), rng.randint(0, 5)), x], ops=["SetMantExp 0 1 %d" % e])
        yield dict(family="alias-SetMantExp", group="%d-sme" % gid, resvar=0, vars=[clone(x)], ops=["SetMantExp 0 0 %d" % e])
        yield dict(family="alias-MantExp", group="%d-me" % gid, resvar=0, vars=[dirty_receiver(rng, rng.choice([0, 5]), rng.randint(0, 5)), x], ops=["MantExp 1 0"])
        yield dict(family="alias-MantExp", group="%d-me" % gid, resvar=0, vars=[clone(x)], ops=["MantExp 0 0"])


def judge(cases, g, m):
    fails = []
    groups = {}
    for c in cases:
        if "group" not in c:
            continue
        ob = g.get((c["pid"], len(c["ops"]) - 1))
        if ob is None:
            continue
        (key, opn, outcome, res, vs), line = ob
        v = vs[c["resvar"]]
        sig = (outcome, tuple(res)) + (tuple(v[:7]) if outcome == "ok" else ())
        groups.setdefault(c["group"], []).append((sig, c, line))
    JUDGE_STATS["groups"] = len(groups)
    JUDGE_STATS["members"] = sum(len(v) for v in groups.values())
    for gid, members in groups.items():
        ref = members[0]
        for sig, c, line in members[1:]:
            if sig != ref[0]:
                fails.append((c, "result depends on aliasing or on the receiver's previous contents: %s vs reference %s" % (sig, ref[0]),
                              dict(implementation=line[:1200], reference=ref[2][:1200], reference_program=ref[1]["line"][:1200])))
                break
    return fails
