"""C03 — FMA computes x*y+u with a single rounding."""
from fractions import Fraction
from vlib import fin, zero, inf, B, ndigits
import pyspec
from . import C01, common

ID = "C03"
LEVEL = "proof"
RULE = ("FMA over operand triples: products needing len(x)+len(y) words, u 1..60 digits above/below the product, massive "
        "cancellation (u = -round(x*y), u = -(x*y) exactly), sticky-only u, boundary-directed ties of the exact x*y+u, all operand "
        "classes, all 15 aliasing shapes of (z,x,y,u), receivers that are Inf/zero/buffer-less, six modes, precisions 0..100; "
        "non-trivial = three finite operands")
EXPLANATION = ("the model of FMA (umul at MaxPrec, then Add) is executed against the code; the implementation's result is judged "
               "by an independent exact-rational oracle: x*y+u rounded once, IEEE sign of exact zero sums, truthful accuracy")
ASSUMPTIONS = C01.ASSUMPTIONS + ["the exact product's exponent stays within int32 (otherwise known finding K3)"]
coq_op = common.coq_op
JUDGE_STATS = {}


def nontrivial(c):
    return sum(1 for v in c.get("vars", []) if v.form == 1) >= 3


SHAPES = ["0 1 2 3", "0 1 2 3", "1 1 2 3", "2 1 2 3", "3 1 2 3", "0 1 1 3", "0 1 2 1", "0 1 2 2", "1 1 1 3", "3 1 2 3", "1 1 2 1", "1 1 1 1", "0 1 1 1"]


def gen(rng, tier):
    n = 1 if tier == "quick" else 12
    for _ in range(500 * n):
        p = rng.choice(C01.PRECS + [0])
        a, b = common.rand_coeff(rng, 45), common.rand_coeff(rng, 45)
        ea, eb = rng.randint(-30, 30), rng.randint(-30, 30)
        prod = a * b
        kind = rng.randint(0, 7)
        if kind == 0:
            c, ec, ng = prod, ea + eb, 1                       # exact cancellation
        elif kind == 1:
            c, ec, ng = prod + rng.choice([1, -1, 10**5]), ea + eb, 1   # near cancellation
        elif kind == 2:
            # u = -(x*y rounded to few digits)
            q = max(ndigits(prod) - rng.randint(1, 10), 1)
            c, ec, ng = prod // 10**(ndigits(prod) - q), ea + eb + ndigits(prod) - q, 1
            c = max(c, 1)
        elif kind == 3:
            c, ec, ng = rng.choice([1, 5, 9]), ea + eb - rng.randint(1, 80), rng.randint(0, 1)   # sticky-only u
        elif kind == 4:
            c, ec, ng = common.rand_coeff(rng, 20), ea + eb + ndigits(prod) + rng.randint(0, 60), rng.randint(0, 1)  # u far above
        elif kind == 5 and p:
            # make x*y+u a tie at precision p
            c, ec, ng = 5, ea + eb + ndigits(prod) - p - 1, 0
        else:
            c, ec, ng = common.rand_coeff(rng, 40), rng.randint(-60, 60), rng.randint(0, 1)
        sx, sy = rng.randint(0, 1), rng.randint(0, 1)
        if kind in (0, 1, 2):
            ng = 1 - (sx ^ sy)
        x = fin(a, ea, neg=sx, mode=rng.randint(0, 5), pad=rng.choice([0, 1]))
        y = fin(b, eb, neg=sy, mode=rng.randint(0, 5))
        c = max(c, 1)
        u = fin(c, ec, neg=ng, mode=rng.randint(0, 5), pad=rng.choice([0, 0, 2]))
        z = C01.recv(rng, prec=p)
        shape = rng.choice(SHAPES)
        yield dict(family="fma-finite", vars=[z, x, y, u], ops=["FMA " + shape])
    # rounding boundary of the exact product with the deciding information far away: the product continues with
    # 4 9...9 d / 5 0...0 d / 9...9 / 0...0 d after the receiver's last digit (runs of 17-60 digits) and u is tiny,
    # of either sign, far below the product
    for _ in range(200 * n):
        p = rng.choice([1, 2, 5, 16, 18, 19, 20, 34, 38])
        head = common.rand_coeff(rng, p)
        head = head * 10 ** (p - ndigits(head))
        k = rng.choice([17, 18, 19, 20, 36, 37, 38, 39, 40, 57, 60])
        tail = rng.choice(["4" + "9" * k, "5" + "0" * k, "0" + "0" * k, "9" + "9" * k, "4" + "9" * k + "5", "5" + "0" * k + "1", "0" * (k + 1) + "3"])
        yv = int(str(head) + tail)
        f = rng.choice([1, 1, 1, 2, 4, 5, 8, 25])
        if yv % f == 0 and rng.random() < 0.5:
            a, b = f, yv // f                        # the same product through two factors
        else:
            a, b = 1, yv
        ea, eb = rng.randint(-20, 20), rng.randint(-20, 20)
        cu = rng.choice([1, 1, 3, 7, common.rand_coeff(rng, 5)])
        ec = ea + eb - rng.choice([1, 5, 30, 60, 100, 200])
        x = fin(a, ea, neg=rng.randint(0, 1), mode=rng.randint(0, 5))
        y = fin(b, eb, neg=rng.randint(0, 1), mode=rng.randint(0, 5), pad=rng.choice([0, 1]))
        u = fin(cu, ec, neg=rng.randint(0, 1), mode=rng.randint(0, 5))
        z = C01.recv(rng, prec=p, mode=rng.choice([0, 0, 1, 1, 2, 3, 4, 5]))
        yield dict(family="fma-far-sticky", vars=[z, x, y, u], ops=["FMA " + rng.choice(["0 1 2 3", "0 1 2 3", "0 2 1 3", "3 1 2 3"])])
    for _ in range(120 * n):
        a, b = common.rand_coeff(rng, rng.choice([2, 3, 5, 10, 20])), common.rand_coeff(rng, rng.choice([2, 3, 5, 10, 20]))
        sa, sb = str(a).rstrip("0") or "1", str(b).rstrip("0") or "1"
        full = len(str(int(sa) * int(sb))) == len(sa) + len(sb)
        p = max(1, len(sa) + len(sb) - rng.choice([1, 1, 1, 0, 2]))
        cu = rng.choice([49, 5, 51, 1, 499])
        ec = -(len(sa) + len(sb)) - rng.choice([0, 1, 2]) + rng.randint(-2, 2)
        hp = lambda: rng.choice([None, None, 3000000000, 1294967299, 2**32 - 1, 2**31, 2**31 + 5])
        x = fin(int(sa), -len(sa), neg=rng.randint(0, 1), prec=hp())
        y = fin(int(sb), -len(sb), neg=rng.randint(0, 1), prec=hp())
        u = fin(cu, ec, neg=rng.randint(0, 1))
        z = C01.recv(rng, prec=p, mode=rng.randint(0, 5))
        yield dict(family="fma-product-length", vars=[z, x, y, u], ops=["FMA 0 1 2 3"])
    # products at the ends of the exponent range that are still representable (mantissa product below / above 0.1),
    # with a small non-zero addend; just inside and just outside
    for _ in range(120 * n):
        MINE, MAXE = -2**31, 2**31 - 1
        a, b = rng.choice([2, 3, 11, 25, 31, 99, 101, common.rand_coeff(rng, 8)]), rng.choice([3, 4, 5, 9, 32, 99, common.rand_coeff(rng, 8)])
        na, nb, npd = ndigits(a), ndigits(b), ndigits(a * b)
        carry = npd - (na + nb)                       # -1: mantissa product < 0.1, 0: >= 0.1
        top = rng.random() < 0.5
        tgt = (MAXE if top else MINE) + rng.choice([0, 0, 1, -1, 2, -2])          # wanted decimal exponent of the exact product
        # exp(x) + exp(y) + carry = tgt, both factors' exponents inside the range
        exx = rng.randint(-1000, 1000) + (tgt // 2)
        exy = tgt - carry - exx
        if not (MINE <= exx <= MAXE and MINE <= exy <= MAXE):
            continue
        x = fin(a, exx - na, neg=rng.randint(0, 1), mode=rng.randint(0, 5))
        y = fin(b, exy - nb, neg=rng.randint(0, 1), mode=rng.randint(0, 5))
        eu = max(MINE, min(MAXE, tgt - rng.choice([0, 1, 3, 10, 40])))
        cu = rng.choice([1, 5, 9, 123])
        u = fin(cu, eu - ndigits(cu), neg=rng.randint(0, 1))
        inside = MINE <= tgt <= MAXE
        z = C01.recv(rng, prec=rng.choice([1, 3, 10, 34]), mode=rng.randint(0, 5))
        yield dict(family="fma-product-at-range-edge" if inside else "product-exponent-out-of-range", vars=[z, x, y, u], ops=["FMA 0 1 2 3"])
    for _ in range(150 * n):
        # FMA vs Mul then Add: both computed, compared by the judge
        p = rng.choice([1, 2, 5, 16, 19, 34])
        a, b, c = common.rand_coeff(rng, 30), common.rand_coeff(rng, 30), common.rand_coeff(rng, 30)
        x, y = fin(a, rng.randint(-5, 5), neg=rng.randint(0, 1)), fin(b, rng.randint(-5, 5), neg=rng.randint(0, 1))
        u = fin(c, rng.randint(-10, 40), neg=rng.randint(0, 1))
        md = rng.randint(0, 5)
        yield dict(family="fma-vs-muladd", vars=[zero(0, prec=p, mode=md), x, y, u, zero(0, prec=p, mode=md)],
                   ops=["FMA 0 1 2 3", "Mul 4 1 2", "Add 4 4 3"])
    for _ in range(60 * n):
        # special receivers: Inf / zero / buffer-less
        x, y = common.rand_fin(rng, 20, wide=False), common.rand_fin(rng, 20, wide=False)
        z = rng.choice([inf(rng.randint(0, 1), prec=rng.choice([0, 5])), zero(rng.randint(0, 1), prec=rng.choice([0, 5]))])
        yield dict(family="fma-special-receiver", vars=[z, x, y], ops=["FMA 0 1 2 0"])
    # known finding K3: the product's exponent leaves int32 before u is added
    for _ in range(6):
        x = fin(rng.choice([1, 2, 5]), 1073741824)
        y = fin(rng.choice([1, 3]), 1073741823)
        u = fin(5, 2147483646, neg=1)
        yield dict(family="product-exponent-out-of-range", vars=[zero(0, prec=10, mode=rng.randint(0, 5)), x, y, u], ops=["FMA 0 1 2 3"])


def judge(cases, g, m):
    fails = []
    JUDGE_STATS["judged_ops"] = 0
    for c in cases:
        if "vars" not in c:
            continue
        prev = [C01.dv_obs(v) for v in c["vars"]]
        for i, o in enumerate(c["ops"]):
            ob = g.get((c["pid"], i))
            if ob is None:
                break
            (key, opn, outcome, res, vs), line = ob
            t = o.split()
            msg = None
            if outcome == "crash":
                msg = "panic"
            elif outcome == "ok":
                for v in vs:
                    w = pyspec.wf(v)
                    if w:
                        msg = "not canonical: " + w
                if msg is None and opn == "FMA":
                    JUDGE_STATS["judged_ops"] += 1
                    msg = judge_fma(t, prev, vs)
                elif msg is None and opn in ("Mul", "Add"):
                    msg = C01.judge_op(opn, t, prev, vs)
            if msg:
                fails.append((c, "FMA is not x*y+u rounded once at step %d (%s): %s" % (i, o, msg), dict(implementation=line[:1500], step=i)))
                break
            prev = vs
    return fails


def judge_fma(t, prev, vs):
    zi = int(t[1])
    z0, z1 = prev[zi], vs[zi]
    x, y, u = prev[int(t[2])], prev[int(t[3])], prev[int(t[4])]
    if x[0] != "1" or y[0] != "1" or u[0] == "2":
        return None   # special classes: C04's table
    zprec, zmode = int(z0[2]), int(z0[3])
    p = zprec if zprec else max(int(x[2]), int(y[2]), int(u[2]))
    if int(z1[2]) != p or int(z1[3]) != zmode:
        return "precision/mode %s/%s, want %d/%d" % (z1[2], z1[3], p, zmode)
    xv, yv = pyspec.obs_val(x), pyspec.obs_val(y)
    pn = xv.neg != yv.neg
    pf, pe = xv.frac * yv.frac, xv.e10 + yv.e10
    if u[0] == "0":
        return pyspec.check_fin_result(z1, pn, pf, pe, p, zmode)
    uv = pyspec.obs_val(u)
    mm = min(pe, uv.e10)
    if max(pe, uv.e10) - mm > 100000:
        return None
    s = pf * 10 ** (pe - mm) * (-1 if pn else 1) + uv.frac * 10 ** (uv.e10 - mm) * (-1 if uv.neg else 1)
    if s == 0:
        if z1[0] != "0" or z1[4] != "0" or (z1[1] == "1") != (zmode == 4):
            return "exact zero sum: form %s neg %s acc %s" % (z1[0], z1[1], z1[4])
        return None
    return pyspec.check_fin_result(z1, s < 0, abs(s), mm, p, zmode)


def match_known(f, case, what, go_line, model_line):
    if f.get("shape") != "product-exponent-out-of-range" or case is None or "vars" not in case:
        return False
    # the shape: an FMA whose finite x, y have a product exponent outside the int32 range
    for o in case["ops"]:
        t = o.split()
        if t[0] != "FMA":
            continue
        x, y = case["vars"][int(t[2])], case["vars"][int(t[3])]
        if x.form == 1 and y.form == 1:
            # exact decimal exponent of the product: exp x + exp y, minus one if the mantissa product is below 0.1
            A = sum(w * B ** i for i, w in enumerate(x.words))
            Bv = sum(w * B ** i for i, w in enumerate(y.words))
            small = A * Bv * 10 < 10 ** (19 * (len(x.words) + len(y.words)))
            e = x.exp + y.exp - (1 if small else 0)
            if e > 2**31 - 1 or e < -2**31:
                return True
    return False
