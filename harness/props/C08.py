"""C08 — every reachable Decimal is in canonical normalized form."""
from vlib import fin, zero, inf, B, ndigits
import pyspec
from . import C01, common
import os, random, itertools
import vlib

ID = "C08"
LEVEL = "proof"
RULE = ("random programs (length <= 25 quick / <= 200 thorough) over 4-6 variables with reused and aliased receivers, mixing "
        "arithmetic, FMA, setters, SetPrec/SetMode, raw SetBitsExp within its contract, MantExp/SetMantExp, Gob round trips and "
        "decoding of corrupted encodings; after every step every variable's raw words are checked against the canonical-form "
        "predicate; non-trivial = program with at least one finite value")
EXPLANATION = ("Props/C08.v proves that every modelled operation preserves the canonical-form invariant WF (and hence any "
               "program does) and that numerically equal canonical values have identical digits/exponent; the run checks WF on "
               "the implementation's raw words after every step of generated programs and ties the model to the code")
ASSUMPTIONS = ["SetBitsExp contract: words below 10^19, caller does not share buffers", "mantissas shorter than 2^32-18 digits"]
coq_op = common.coq_op
JUDGE_STATS = {}


def nontrivial(c):
    return any(v.form == 1 for v in c.get("vars", []))


def gen(rng, tier):
    n = 1 if tier == "quick" else 10
    for _ in range(250 * n):
        nv = rng.randint(4, 6)
        vs, ops = common.rand_program(rng, nv, rng.randint(5, 25 if tier == "quick" else 200))
        yield dict(family="random-program", vars=vs, ops=ops, big=len(ops) > 12)
    # extreme exponents: results leave the range as +-0 / +-Inf, never malformed
    for _ in range(150 * n):
        a, b = common.rand_coeff(rng, 30), common.rand_coeff(rng, 30)
        ea = rng.choice([2**31 - 1 - ndigits(a), 2**31 - 40, -2**31, -2**31 + 40])
        eb = rng.choice([2**31 - 1 - ndigits(b), 2**31 - 40, -2**31, -2**31 + 40, 0, 30, -30])
        ea = common.clamp_exp(ea + ndigits(a)) - ndigits(a)
        eb = common.clamp_exp(eb + ndigits(b)) - ndigits(b)
        x, y = fin(a, ea, neg=rng.randint(0, 1)), fin(b, eb, neg=rng.randint(0, 1))
        z = C01.recv(rng, prec=rng.choice([0, 1, 5, 34]))
        ops = ["%s 0 1 2" % rng.choice(["Mul", "Quo"]), "SetMantExp 0 1 %d" % rng.choice([40, -40, 2**31, -2**31]),
               "Mul 1 1 1", "Quo 2 2 1", "SetPrec 1 1", "MinPrec 0", "Cmp 0 1"]
        yield dict(family="range-edges", vars=[z, x, y], ops=ops)
    # Gob decoding of corrupted bytes inside programs
    from . import C17
    for _ in range(100 * n):
        x = common.rand_fin(rng, 40, wide=False)
        enc = bytearray(C17.py_encode(x))
        for _ in range(rng.randint(0, 3)):
            enc[rng.randrange(len(enc))] = rng.randint(0, 255)
        z = C01.recv(rng)
        yield dict(family="decode-then-use", vars=[z, x], ops=["GobDecode 0 %s" % bytes(enc).hex(), "Mul 1 0 0", "Quo 1 1 0", "SetPrec 0 3", "Neg 1 0", "Cmp 0 1"])


def build(log):
    # the Sqrt / binary-float operations live in a second driver (harness/fdriver, see C05/C15)
    from . import fcommon, textcommon
    ok, out = fcommon.build(log)
    if not ok:
        return ok, out
    return textcommon.build(log)


def float_side(fails):
    """SetFloat64 / SetFloat / Sqrt are not operations of the main store driver: their receivers are checked
    against the canonical-form predicate through the float driver (the model/code diff of these is C05/C15)."""
    from . import C05, C15
    rng = random.Random(int(os.environ.get("VERIF_SEED", "20261001")) + 8)
    tier = os.environ.get("VERIF_TIER", "quick")
    fc = [c for c in C15.gen(rng, "quick") if c["family"].startswith(("f64", "setfloat"))][:1500 if tier == "quick" else 6000]
    fc += list(itertools.islice(C05.gen(rng, "quick"), 400 if tier == "quick" else 2000))
    for i, c in enumerate(fc):
        c["pid"] = "f%d" % i
        c["line"] = " ; ".join([v.item() for v in c["vars"]] + ["O " + o for o in c["ops"]])
    text = "\n".join("%s ; %s" % (c["pid"], c["line"]) for c in fc) + "\n"
    rc, out, dt = vlib.run_side(os.path.join(vlib.BUILD, "fdriver"), text, timeout=600)
    JUDGE_STATS["float_driver_cases"] = len(fc)
    JUDGE_STATS["float_wf_checked"] = 0
    byid = {c["pid"]: c for c in fc}
    if rc != 0:
        fails.append((fc[0], "float driver exited with status %d" % rc, dict(implementation=out[-1500:])))
        return
    seen = set()
    for line in out.splitlines():
        try:
            key, opn, outcome, res, vs = vlib.parse_obs(line)
        except Exception:
            continue
        c = byid.get(key[0])
        if c is None or key[0] in seen:
            continue
        msg = "panic other than ErrNaN" if outcome == "crash" else None
        for v in vs:
            JUDGE_STATS["float_wf_checked"] += 1
            w = pyspec.wf(v)
            if w:
                msg = "malformed Decimal: " + w
        if msg:
            seen.add(key[0])
            fails.append((c, "canonical-form invariant violated at step %d (%s; float driver build/fdriver): %s" % (key[1], opn, msg),
                          dict(implementation=line[:1500], step=key[1], driver="fdriver")))


def text_side(fails):
    """Parse / SetString / UnmarshalText / Scan live in the text driver (harness/tdriver, see C11-C13): receivers are
    checked against the canonical-form predicate after malformed and well-formed input alike."""
    from . import C12
    rng = random.Random(int(os.environ.get("VERIF_SEED", "20261001")) + 12)
    tier = os.environ.get("VERIF_TIER", "quick")
    tc_ = [c for c in C12.gen(rng, "quick") if c["family"] in ("malformed", "short-exhaustive", "scan", "exponent-boundary", "inf")][:2500 if tier == "quick" else 8000]
    for i, c in enumerate(tc_):
        c["pid"] = "t%d" % i
        c["line"] = " ; ".join([v.item() for v in c["vars"]] + ["O " + o for o in c["ops"]])
    text = "\n".join("%s ; %s" % (c["pid"], c["line"]) for c in tc_) + "\n"
    rc, out, dt = vlib.run_side(os.path.join(vlib.BUILD, "tdriver"), text, timeout=600)
    JUDGE_STATS["text_driver_cases"] = len(tc_)
    JUDGE_STATS["text_wf_checked"] = 0
    byid = {c["pid"]: c for c in tc_}
    if rc != 0:
        fails.append((tc_[0], "text driver exited with status %d" % rc, dict(implementation=out[-1500:])))
        return
    seen = set()
    for line in out.splitlines():
        try:
            key, opn, outcome, res, vs = vlib.parse_obs(line)
        except Exception:
            continue
        c = byid.get(key[0])
        if c is None or key[0] in seen:
            continue
        msg = "panic other than ErrNaN" if outcome == "crash" else None
        for v in vs:
            JUDGE_STATS["text_wf_checked"] += 1
            w = pyspec.wf(v)
            if w:
                msg = "malformed Decimal: " + w
        if msg:
            seen.add(key[0])
            fails.append((c, "canonical-form invariant violated at step %d (%s; text driver build/tdriver): %s" % (key[1], opn, msg),
                          dict(implementation=line[:1500], step=key[1], driver="tdriver")))


def judge(cases, g, m):
    fails = []
    JUDGE_STATS["wf_checked"] = 0
    JUDGE_STATS["equal_pairs_checked"] = 0
    if not any(c.get("family") == "replay" for c in cases):
        float_side(fails)
        text_side(fails)
    for c in cases:
        if "vars" not in c:
            continue
        for i, o in enumerate(c["ops"]):
            ob = g.get((c["pid"], i))
            if ob is None:
                break
            (key, opn, outcome, res, vs), line = ob
            msg = None
            if outcome == "crash":
                msg = "panic other than ErrNaN"
            for v in vs:
                JUDGE_STATS["wf_checked"] += 1
                w = pyspec.wf(v)
                if w:
                    msg = "malformed Decimal: " + w
            # numerically equal canonical values expose identical digits and exponent, and Cmp = 0
            if opn == "Cmp" and outcome == "ok":
                t = o.split()
                a, b = vs[int(t[1])], vs[int(t[2])]
                if a[0] == "1" and b[0] == "1":
                    JUDGE_STATS["equal_pairs_checked"] += 1
                    same = (a[1], a[5], a[6]) == (b[1], b[5], b[6])
                    if same != (res[0] == "0"):
                        msg = "Cmp = %s but digits/exponent %s" % (res[0], "identical" if same else "differ")
            if msg:
                fails.append((c, "canonical-form invariant violated at step %d (%s): %s" % (i, o[:60], msg), dict(implementation=line[:1500], step=i)))
                break
    return fails
